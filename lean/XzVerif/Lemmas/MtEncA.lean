/-
  C08 helper lemmas, part A: the entry-local invariant of the threaded-encoder model (what is true of every outbuf in the
  queue and of the worker attached to it, whatever the rest of the state is), and its preservation by every transition.
-/
import XzVerif.Model.MtEnc

namespace XzVerif.MtEnc

/-- The condition under which a worker that is inside cond_wait has something to do (its wait loop would exit). -/
def needsRun (e : Entry) (w : WCtx) : Bool :=
  match w.pc with
  | .top => w.state != .idle
  | .enc => !(w.lIn == e.data.length && w.state == .run)
  | .fb => w.state != .run
  | _ => true

structure WOk (P : Params) (e : Entry) (w : WCtx) : Prop where
  pos : w.inPos ≤ w.lIn
  lin : w.lIn ≤ e.data.length
  pin : w.progIn ≤ w.inPos
  pout : w.progOut ≤ P.alloc
  encOut : w.pc = .enc → w.outPos ≤ P.alloc
  topZero : w.pc = .top → w.progIn = 0 ∧ w.progOut = 0
  fin : w.state = .finish → e.closed = true
  runOpen : w.state = .run → e.closed = false
  res : (w.pc = .markIdle ∨ w.pc = .tail) → w.resFinish = true → e.closed = true ∧ w.outPos = (e.enc P).length
  wake : w.asleep = true → needsRun e w = true → w.woken = true

structure EOk (P : Params) (bs : Nat) (e : Entry) : Prop where
  len : e.data.length ≤ bs
  fin : e.finished = true → e.closed = true ∧ e.wk = none
  wk : ∀ w, e.wk = some w → WOk P e w

def InvA (P : Params) (s : St) : Prop := ∀ e ∈ s.outq, EOk P s.cfg.bs e

-- ---------------------------------------------------------------------------------------------------------------------
-- generic list facts
-- ---------------------------------------------------------------------------------------------------------------------

theorem forall_mem_set {α : Type} {Q : α → Prop} {l : List α} {i : Nat} {a : α}
    (h : ∀ x ∈ l, Q x) (ha : Q a) : ∀ x ∈ l.set i a, Q x := by
  intro x hx
  rcases List.mem_or_eq_of_mem_set hx with h1 | h1
  · exact h x h1
  · exact h1 ▸ ha

theorem mem_of_getElem? {α : Type} {l : List α} {i : Nat} {a : α} (h : l[i]? = some a) : a ∈ l :=
  List.mem_of_getElem? h

theorem mem_mapWorkers {f : WCtx → WCtx} {q : List Entry} {e : Entry} (h : e ∈ mapWorkers f q) :
    ∃ e0 ∈ q, e = { e0 with wk := e0.wk.map f } := by
  unfold mapWorkers at h
  rcases List.mem_map.mp h with ⟨e0, h0, rfl⟩
  exact ⟨e0, h0, rfl⟩

-- ---------------------------------------------------------------------------------------------------------------------
-- `ret`, stopAll, exitAll
-- ---------------------------------------------------------------------------------------------------------------------

theorem EOk_forceState {P : Params} {bs : Nat} {e0 : Entry} (st : WState) (hst : st = .stop ∨ st = .exit) (h : EOk P bs e0) :
    EOk P bs { e0 with wk := e0.wk.map fun w => { w with state := st, woken := true } } := by
  refine ⟨h.len, ?_, ?_⟩
  · intro hf
    have := h.fin hf
    simp [this]
  · intro w hw
    cases hk : e0.wk with
    | none => simp [hk] at hw
    | some w0 =>
      simp [hk] at hw
      subst hw
      have h0 := h.wk w0 hk
      refine ⟨h0.pos, h0.lin, h0.pin, h0.pout, h0.encOut, h0.topZero, ?_, ?_, ?_, ?_⟩
      · intro hh; rcases hst with rfl | rfl <;> simp at hh
      · intro hh; rcases hst with rfl | rfl <;> simp at hh
      · intro a b; exact h0.res a b
      · intro _ _; rfl

theorem InvA_stopAll {P : Params} {s : St} (h : InvA P s) : InvA P (stopAll s) := by
  intro e he
  rcases mem_mapWorkers he with ⟨e0, h0, rfl⟩
  exact EOk_forceState .stop (Or.inl rfl) (h e0 h0)

/-- Any change of fields other than `outq` and `cfg` keeps InvA. -/
theorem InvA_frame {P : Params} {s t : St} (h : InvA P s) (hq : t.outq = s.outq) (hc : t.cfg.bs = s.cfg.bs) : InvA P t := by
  intro e he
  rw [hq] at he
  rw [hc]
  exact h e he

theorem InvA_ret {P : Params} {s : St} (r : Ret) (h : InvA P s) : InvA P (ret s r) := by
  unfold ret
  split
  · exact InvA_frame h rfl rfl
  · exact InvA_frame (InvA_stopAll h) rfl rfl


-- ---------------------------------------------------------------------------------------------------------------------
-- worker steps
-- ---------------------------------------------------------------------------------------------------------------------

theorem needsRun_congr {e e' : Entry} (w : WCtx) (hd : e'.data = e.data) : needsRun e' w = needsRun e w := by
  unfold needsRun; rw [hd]

theorem WOk_congr {P : Params} {e e' : Entry} {w : WCtx} (hd : e'.data = e.data) (hc : e'.closed = e.closed)
    (he : e'.enc P = e.enc P) (h : WOk P e w) : WOk P e' w := by
  refine ⟨h.pos, hd ▸ h.lin, h.pin, h.pout, h.encOut, h.topZero, hc ▸ h.fin, hc ▸ h.runOpen, ?_, ?_⟩
  · intro a b; rw [hc, he]; exact h.res a b
  · intro a b; rw [needsRun_congr w hd] at b; exact h.wake a b

/-- Replacing the worker context of entry `i` (which has a worker, hence is not finished). -/
theorem InvA_setWk {P : Params} {s t : St} {i : Nat} {e : Entry} {w0 : WCtx} (h : InvA P s)
    (hi : s.outq[i]? = some e) (hw0 : e.wk = some w0) (w' : Option WCtx)
    (hw : ∀ w, w' = some w → WOk P e w)
    (hq : t.outq = s.outq.set i { e with wk := w' }) (hc : t.cfg.bs = s.cfg.bs) : InvA P t := by
  intro x hx
  rw [hq] at hx
  rw [hc]
  refine forall_mem_set (Q := EOk P s.cfg.bs) h ?_ x hx
  have he := h e (mem_of_getElem? hi)
  refine ⟨he.len, ?_, ?_⟩
  · intro hf
    have := (he.fin hf).2
    rw [hw0] at this; cases this
  · intro w hw'
    exact WOk_congr (e := e) rfl rfl rfl (hw w hw')

theorem InvA_wTop {P : Params} {s s' : St} {i o0 : Nat} (h : InvA P s) (hs : wTop P s i o0 = some s') : InvA P s' := by
  unfold wTop at hs
  split at hs; · cases hs
  rename_i e hi
  split at hs; · cases hs
  rename_i w hw
  have hW := (h e (mem_of_getElem? hi)).wk w hw
  split at hs
  · rename_i hg
    have hz := hW.topZero hg.1
    split at hs
    · cases hs
      refine InvA_setWk h hi hw _ ?_ rfl rfl
      intro w1 h1; cases h1
      exact ⟨hW.pos, hW.lin, hW.pin, hW.pout, hW.encOut, hW.topZero, by simp [sleep], by simp [sleep], hW.res, by simp [sleep, needsRun, hg.1]⟩
    · rename_i hst
      cases hs
      refine InvA_setWk h hi hw _ ?_ rfl rfl
      intro w1 h1; cases h1
      exact ⟨hW.pos, hW.lin, hW.pin, hW.pout, hW.encOut, hW.topZero, hW.fin, hW.runOpen, hW.res, by simp [sleep, needsRun, hg.1, hst]⟩
    · cases hs
      refine InvA_setWk h hi hw none ?_ rfl rfl
      intro w1 h1; cases h1
    · split at hs <;> cases hs
      rename_i ho
      refine InvA_setWk h hi hw _ ?_ rfl rfl
      intro w1 h1; cases h1
      refine ⟨by simp [awake], by simp [awake], by simp [awake, hz.1], by simp [awake, hz.2], (by intro _; simpa [awake] using ho), by simp [awake], ?_, ?_, ?_, by simp [awake]⟩
      · simpa [awake] using hW.fin
      · simpa [awake] using hW.runOpen
      · simp [awake]
  · cases hs


theorem InvA_wEnc {P : Params} {s s' : St} {i : Nat} {full : Bool} {newOut : Nat} (h : InvA P s)
    (hs : wEnc P s i full newOut = some s') : InvA P s' := by
  unfold wEnc at hs
  split at hs; · cases hs
  rename_i e hi
  split at hs; · cases hs
  rename_i w hw
  have hW := (h e (mem_of_getElem? hi)).wk w hw
  have h1 := hW.pos; have h2 := hW.lin; have h3 := hW.pin; have h4 := hW.pout
  split at hs
  · rename_i hg
    have h5 := hW.encOut hg.1
    split at hs
    · -- blocked: sleep
      rename_i hb
      cases hs
      refine InvA_setWk h hi hw _ ?_ rfl rfl
      intro w1 hw1; cases hw1
      exact ⟨h1, h2, by simp [sleep], by simpa [sleep] using h5, by simpa [sleep] using hW.encOut, by simp [sleep, hg.1],
        by simpa [sleep] using hW.fin, by simpa [sleep] using hW.runOpen, by simp [sleep, hg.1], by simp [sleep, needsRun, hg.1, hb.1, hb.2]⟩
    · rename_i hnb
      split at hs
      · -- stop
        cases hs
        refine InvA_setWk h hi hw _ ?_ rfl rfl
        intro w1 hw1; cases hw1
        rename_i hst
        refine ⟨by simp [awake]; omega, by simp [awake], by simp [awake], by simpa [awake] using h5, by simp [awake], by simp [awake],
          by simp [awake, hst], by simp [awake, hst], by simp [awake], by simp [awake]⟩
      · -- idle
        cases hs
        refine InvA_setWk h hi hw _ ?_ rfl rfl
        intro w1 hw1; cases hw1
        rename_i hst
        refine ⟨by simp [awake]; omega, by simp [awake], by simp [awake], by simpa [awake] using h5, by simp [awake], by simp [awake],
          by simp [awake, hst], by simp [awake, hst], by simp [awake], by simp [awake]⟩
      · -- exit
        cases hs
        refine InvA_setWk h hi hw none ?_ rfl rfl
        intro w1 hw1; cases hw1
      · -- run / finish
        rename_i st hne1 hne2 hne3
        dsimp only at hs
        split at hs
        · split at hs
          · cases hs
            rename_i hk
            refine InvA_setWk h hi hw _ ?_ rfl rfl
            intro w1 hw1; cases hw1
            refine ⟨by simp [awake] at hk ⊢; omega, by simp [awake], by simp [awake], by simpa [awake] using h5, by simp [awake], by simp [awake],
              by simpa [awake] using hW.fin, by simpa [awake] using hW.runOpen, by simp [awake], by simp [awake]⟩
          · cases hs
        · split at hs
          · cases hs
            rename_i hf
            refine InvA_setWk h hi hw _ ?_ rfl rfl
            intro w1 hw1; cases hw1
            refine ⟨by simp [awake], by simp [awake], by simp [awake]; omega, by simpa [awake] using h5, by simp [awake], by simp [awake],
              by simpa [awake] using hW.fin, by simpa [awake] using hW.runOpen, ?_, by simp [awake]⟩
            intro _ _
            exact ⟨hW.fin hf.1, by simp [awake]⟩
          · split at hs
            · cases hs
              rename_i hk
              refine InvA_setWk h hi hw _ ?_ rfl rfl
              intro w1 hw1; cases hw1
              refine ⟨by simp [awake]; omega, by simp [awake], by simp [awake], by simpa [awake] using h5, ?_, by simp [awake, hg.1],
                by simpa [awake] using hW.fin, by simpa [awake] using hW.runOpen, by simp [awake, hg.1], by simp [awake]⟩
              intro _; simp [awake]; omega
            · cases hs
  · cases hs


theorem InvA_wEncErr {P : Params} {s s' : St} {i : Nat} {r : Ret} (h : InvA P s) (hs : wEncErr s i r = some s') : InvA P s' := by
  unfold wEncErr at hs
  split at hs; · cases hs
  rename_i e hi
  split at hs; · cases hs
  rename_i w hw
  have hW := (h e (mem_of_getElem? hi)).wk w hw
  split at hs
  · rename_i hg
    cases hs
    refine InvA_setWk h hi hw _ ?_ rfl rfl
    intro w1 hw1; cases hw1
    exact ⟨hW.pos, hW.lin, hW.pin, hW.pout, by simp [awake], by simp [awake], by simpa [awake] using hW.fin,
      by simpa [awake] using hW.runOpen, by simp [awake], by simp [awake]⟩
  · cases hs

theorem InvA_wFb {P : Params} {s s' : St} {i : Nat} (h : InvA P s) (hs : wFb P s i = some s') : InvA P s' := by
  unfold wFb at hs
  split at hs; · cases hs
  rename_i e hi
  split at hs; · cases hs
  rename_i w hw
  have hW := (h e (mem_of_getElem? hi)).wk w hw
  have h1 := hW.pos; have h2 := hW.lin
  split at hs
  · rename_i hg
    split at hs <;> cases hs
    · rename_i hst
      refine InvA_setWk h hi hw _ ?_ rfl rfl
      intro w1 hw1; cases hw1
      exact ⟨hW.pos, hW.lin, hW.pin, hW.pout, by simp [sleep, hg.1], by simp [sleep, hg.1], by simpa [sleep] using hW.fin,
        by simpa [sleep] using hW.runOpen, by simp [sleep, hg.1], by simp [sleep, needsRun, hg.1, hst]⟩
    · rename_i hst
      refine InvA_setWk h hi hw _ ?_ rfl rfl
      intro w1 hw1; cases hw1
      exact ⟨by simp [awake]; omega, by simp [awake], by simpa [awake] using hW.pin, by simpa [awake] using hW.pout, by simp [awake], by simp [awake],
        by simp [awake, hst], by simp [awake, hst], by simp [awake], by simp [awake]⟩
    · rename_i hst
      refine InvA_setWk h hi hw _ ?_ rfl rfl
      intro w1 hw1; cases hw1
      exact ⟨by simp [awake]; omega, by simp [awake], by simpa [awake] using hW.pin, by simpa [awake] using hW.pout, by simp [awake], by simp [awake],
        by simp [awake, hst], by simp [awake, hst], by simp [awake], by simp [awake]⟩
    · refine InvA_setWk h hi hw none ?_ rfl rfl
      intro w1 hw1; cases hw1
    · rename_i hst
      refine InvA_setWk h hi hw _ ?_ rfl rfl
      intro w1 hw1; cases hw1
      refine ⟨by simp [awake]; omega, by simp [awake], by simpa [awake] using hW.pin, by simpa [awake] using hW.pout, by simp [awake], by simp [awake],
        by simpa [awake] using hW.fin, by simpa [awake] using hW.runOpen, ?_, by simp [awake]⟩
      intro _ _
      exact ⟨hW.fin hst, by simp [awake]⟩
  · cases hs

theorem InvA_wMarkIdle {P : Params} {s s' : St} {i : Nat} (h : InvA P s) (hs : wMarkIdle s i = some s') : InvA P s' := by
  unfold wMarkIdle at hs
  split at hs; · cases hs
  rename_i e hi
  split at hs; · cases hs
  rename_i w hw
  have hW := (h e (mem_of_getElem? hi)).wk w hw
  split at hs
  · rename_i hg
    cases hs
    refine InvA_setWk h hi hw _ ?_ rfl rfl
    intro w1 hw1; cases hw1
    refine ⟨hW.pos, hW.lin, hW.pin, hW.pout, by simp, by simp, ?_, ?_, ?_, fun a _ => hW.wake a (by simp [needsRun, hg])⟩
    · intro hh; simp at hh; split at hh <;> simp at hh
    · intro hh; simp at hh; split at hh <;> simp at hh
    · intro _ hr; exact hW.res (Or.inl hg) hr
  · cases hs

theorem InvA_wTail {P : Params} {s s' : St} {i : Nat} (h : InvA P s) (hs : wTail s i = some s') : InvA P s' := by
  unfold wTail at hs
  split at hs; · cases hs
  rename_i e hi
  split at hs; · cases hs
  rename_i w hw
  have he := h e (mem_of_getElem? hi)
  have hW := he.wk w hw
  split at hs
  · rename_i hg
    have key : EOk P s.cfg.bs { e with finished := e.finished || w.resFinish, wk := none } := by
      refine ⟨he.len, ?_, by intro w1 hw1; cases hw1⟩
      intro hf
      simp at hf
      rcases hf with hf | hf
      · exact ⟨(he.fin hf).1, rfl⟩
      · exact ⟨(hW.res (Or.inr hg) hf).1, rfl⟩
    dsimp only at hs
    split at hs <;> cases hs <;> exact fun x hx => forall_mem_set (Q := EOk P s.cfg.bs) h key x hx
  · cases hs

theorem InvA_wSpurious {P : Params} {s s' : St} {i : Nat} (h : InvA P s) (hs : wSpurious s i = some s') : InvA P s' := by
  unfold wSpurious at hs
  split at hs; · cases hs
  rename_i e hi
  split at hs; · cases hs
  rename_i w hw
  have hW := (h e (mem_of_getElem? hi)).wk w hw
  split at hs
  · cases hs
    refine InvA_setWk h hi hw _ ?_ rfl rfl
    intro w1 hw1; cases hw1
    exact ⟨hW.pos, hW.lin, hW.pin, hW.pout, hW.encOut, hW.topZero, hW.fin, hW.runOpen, hW.res, by simp⟩
  · cases hs

theorem InvA_wExitIdle {P : Params} {s s' : St} (h : InvA P s) (hs : wExitIdle s = some s') : InvA P s' := by
  unfold wExitIdle at hs
  split at hs
  · cases hs; exact InvA_frame h rfl rfl
  · cases hs


-- ---------------------------------------------------------------------------------------------------------------------
-- main-thread steps
-- ---------------------------------------------------------------------------------------------------------------------

theorem InvA_mCall {P : Params} {s s' : St} {inp : Bytes} {cap : Nat} {act : Action} (h : InvA P s)
    (hs : mCall s inp cap act = some s') : InvA P s' := by
  unfold mCall at hs
  split at hs
  · cases hs; exact InvA_frame h rfl rfl
  · cases hs

theorem InvA_mHdr {P : Params} {s s' : St} (h : InvA P s) (hs : mHdr P s = some s') : InvA P s' := by
  unfold mHdr at hs
  split at hs
  · dsimp only at hs
    split at hs <;> cases hs
    · exact InvA_ret _ (InvA_frame h rfl rfl)
    · exact InvA_frame h rfl rfl
  · cases hs

theorem InvA_mRead {P : Params} {s s' : St} (h : InvA P s) (hs : mRead P s = some s') : InvA P s' := by
  unfold mRead at hs
  split at hs
  · split at hs
    · cases hs; exact InvA_ret _ h
    · split at hs
      · cases hs; exact InvA_frame h rfl rfl
      · rename_i e rest hq
        split at hs
        · cases hs; exact InvA_frame h rfl rfl
        · dsimp only at hs
          split at hs <;> cases hs
          · exact InvA_frame h rfl rfl
          · intro x hx
            have : x ∈ s.outq := by rw [hq]; exact List.mem_cons_of_mem _ hx
            exact h x this
  · cases hs

theorem InvA_mGetThreadErr {P : Params} {s s' : St} {r : Ret} (h : InvA P s) (hs : mGetThreadErr s r = some s') : InvA P s' := by
  unfold mGetThreadErr at hs
  split at hs
  · cases hs; exact InvA_ret _ h
  · cases hs

theorem InvA_mAfterIn {P : Params} {s s' : St} (h : InvA P s) (hs : mAfterIn P s = some s') : InvA P s' := by
  unfold mAfterIn at hs
  split at hs
  · split at hs; · cases hs; exact InvA_ret _ h
    split at hs; · cases hs; exact InvA_ret _ (InvA_frame h rfl rfl)
    split at hs; · cases hs; exact InvA_frame h rfl rfl
    split at hs; · cases hs; exact InvA_ret _ (InvA_frame h rfl rfl)
    split at hs; · cases hs; exact InvA_ret _ h
    cases hs; exact InvA_frame h rfl rfl
  · cases hs

theorem InvA_mWake {P : Params} {s s' : St} (h : InvA P s) (hs : mWake s = some s') : InvA P s' := by
  unfold mWake at hs
  split at hs
  · split at hs <;> cases hs <;> exact InvA_frame h rfl rfl
  · cases hs

theorem InvA_mSpurious {P : Params} {s s' : St} (h : InvA P s) (hs : mSpurious s = some s') : InvA P s' := by
  unfold mSpurious at hs
  split at hs
  · cases hs; exact InvA_frame h rfl rfl
  · cases hs

theorem InvA_mTimeout {P : Params} {s s' : St} (h : InvA P s) (hs : mTimeout s = some s') : InvA P s' := by
  unfold mTimeout at hs
  split at hs
  · cases hs; exact InvA_ret _ h
  · cases hs

theorem InvA_mTail {P : Params} {s s' : St} (h : InvA P s) (hs : mTail P s = some s') : InvA P s' := by
  unfold mTail at hs
  split at hs
  · dsimp only at hs
    split at hs <;> cases hs <;> exact InvA_ret _ (InvA_frame h rfl rfl)
  · cases hs

theorem InvA_mUpdate {P : Params} {s s' : St} {c : Nat} (h : InvA P s) (hs : mUpdate s c = some s') : InvA P s' := by
  unfold mUpdate at hs
  split at hs
  · split at hs <;> cases hs <;> exact InvA_frame h rfl rfl
  · cases hs

theorem InvA_mEnd {P : Params} {s s' : St} {p : Option Cfg} (h : InvA P s) (hs : mEnd s p = some s') : InvA P s' := by
  unfold mEnd at hs
  split at hs
  · cases hs; exact InvA_frame h rfl rfl
  · cases hs

theorem InvA_mExitOne {P : Params} {s s' : St} {i : Nat} (h : InvA P s) (hs : mExitOne s i = some s') : InvA P s' := by
  unfold mExitOne at hs
  split at hs
  · split at hs; · cases hs
    rename_i e hi
    split at hs; · cases hs
    rename_i w hw
    have hW := (h e (mem_of_getElem? hi)).wk w hw
    split at hs
    · cases hs
      refine InvA_setWk h hi hw _ ?_ rfl rfl
      intro w1 hw1; cases hw1
      exact ⟨hW.pos, hW.lin, hW.pin, hW.pout, hW.encOut, hW.topZero, by simp, by simp, hW.res, by simp⟩
    · cases hs
  · cases hs

theorem InvA_mExitIdle {P : Params} {s s' : St} (h : InvA P s) (hs : mExitIdle s = some s') : InvA P s' := by
  unfold mExitIdle at hs
  split at hs
  · cases hs; exact InvA_frame h rfl rfl
  · cases hs

theorem InvA_mJoin {P : Params} {s s' : St} (hs : mJoin P s = some s') : InvA P s' := by
  unfold mJoin at hs
  split at hs
  · split at hs <;> cases hs <;> (intro e he; simp [initSt] at he)
  · cases hs

theorem InvA_mEncIn {P : Params} {s s' : St} (h : InvA P s)
    (hopen : s.thr = true → ∀ e, s.outq.getLast? = some e → e.closed = false)
    (hs : mEncIn s = some s') : InvA P s' := by
  unfold mEncIn at hs
  split at hs
  · split at hs; · cases hs; exact InvA_frame h rfl rfl
    split at hs
    · -- get_thread
      split at hs; · cases hs; exact InvA_frame h rfl rfl
      split at hs
      · cases hs
        intro x hx
        simp only [List.mem_append, List.mem_singleton] at hx
        rcases hx with hx | rfl
        · exact h x hx
        · refine ⟨by simp, by simp, ?_⟩
          intro w hw; simp at hw; subst hw
          exact ⟨by simp, by simp, by simp, by simp, by simp, by simp, by simp, by simp, by simp, by simp⟩
      · split at hs
        · cases hs
          intro x hx
          simp only [List.mem_append, List.mem_singleton] at hx
          rcases hx with hx | rfl
          · exact h x hx
          · refine ⟨by simp, by simp, ?_⟩
            intro w hw; simp at hw; subst hw
            exact ⟨by simp, by simp, by simp, by simp, by simp, by simp, by simp, by simp, by simp, by simp⟩
        · cases hs; exact InvA_frame h rfl rfl
    · -- feed
      rename_i hthr
      have hthr' : s.thr = true := by simpa using hthr
      split at hs; · cases hs
      rename_i e hl
      have hmem : e ∈ s.outq := List.mem_of_getLast? hl
      have he := h e hmem
      have hcl := hopen hthr' e hl
      dsimp only at hs
      split at hs
      · cases hs; exact InvA_ret _ (InvA_frame h rfl rfl)
      · rename_i w hw
        have hW := he.wk w hw
        split at hs
        · cases hs; exact InvA_ret _ (InvA_frame h rfl rfl)
        · cases hs
          intro x hx
          simp only [List.mem_append, List.mem_singleton] at hx
          rcases hx with hx | rfl
          · exact h x ((List.dropLast_sublist _).subset hx)
          · have hlen := he.len
            refine ⟨?_, ?_, ?_⟩
            · simp only [List.length_append, List.length_take]; omega
            · intro hf; have := (he.fin hf).2; rw [hw] at this; cases this
            · intro w1 hw1
              simp at hw1; subst hw1
              have h1 := hW.pos; have h2 := hW.lin
              refine ⟨hW.pos, ?_, hW.pin, hW.pout, hW.encOut, hW.topZero, ?_, ?_, ?_, by simp⟩
              · simp only [List.length_append]; omega
              · intro hst
                dsimp only at hst ⊢
                split at hst
                · rename_i hf; simpa using hf
                · have := hW.fin hst; rw [hcl] at this; cases this
              · intro hst
                dsimp only at hst ⊢
                split at hst
                · cases hst
                · rename_i hf; simpa using hf
              · intro hp hr
                have := (hW.res hp hr).1; rw [hcl] at this; cases this
  · cases hs

end XzVerif.MtEnc
