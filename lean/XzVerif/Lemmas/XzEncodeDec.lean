/-
  Completeness of the .xz container decoder model (Model/XzDecode.lean) on inputs that are built the way the encoders
  build them: a Block that is header ++ Compressed Data ++ zero padding ++ Check, an Index that is `indexEncode` of the
  Blocks' sizes, a footer that is `streamFooterEncode` of the Index size.  Used by Lemmas/XzEncode.lean.
  Kernel proofs, core Lean only.
-/
import XzVerif.Lemmas.XzLocal
import XzVerif.Lemmas.XzDecodeFunctional
import XzVerif.Lemmas.C02Index
import XzVerif.Lemmas.C02Stream
namespace XzVerif.XzDecode
open XzVerif XzVerif.Vli XzVerif.Container

/-! ## one Block -/

theorem take_append_ge (p t : List UInt8) (n : Nat) (h : p.length ≤ n) : (p ++ t).take n = p ++ t.take (n - p.length) := by
  rw [List.take_append, List.take_of_length_le h]

theorem compressedLimit_some (hs check c : Nat) : compressedLimit hs check (some c) = c := rfl

/-- A Block whose bytes after the header are Compressed Data ++ Block Padding ++ Check is accepted, provided the raw
    decoder stops by itself at the end of the Compressed Data and the size fields (if present) are the real sizes. -/
theorem blockDecode_complete_enc (E : Env) (check : Nat) (ign : Bool) (hs : Nat) (h : BlockHeader)
    (p x rest : List UInt8) (cap : Nat)
    (hcs : h.compressedSize = none ∨ h.compressedSize = some p.length)
    (hus : h.uncompressedSize = none ∨ h.uncompressedSize = some x.length)
    (hpay : ∀ t c, x.length ≤ c → E.payload h.filters (p ++ t) c = ⟨.streamEnd, x, p.length⟩)
    (hplim : p.length ≤ compressedLimit hs check none)
    (hx : x.length ≤ VLI_MAX) (hcap : x.length ≤ cap)
    (hck : (E.check check x).length = checkSize check) (hcz : check = 0 → checkSize check = 0) :
    blockDecode E check ign hs h (p ++ List.replicate (blockPadLen p.length) 0 ++ E.check check x ++ rest) cap
      = { ret := .streamEnd, out := x, consumed := p.length + blockPadLen p.length + checkSize check,
          compressed := p.length } := by
  have hinp : p ++ List.replicate (blockPadLen p.length) 0 ++ E.check check x ++ rest
      = p ++ (List.replicate (blockPadLen p.length) 0 ++ (E.check check x ++ rest)) := by simp
  rw [hinp]
  generalize hT : List.replicate (blockPadLen p.length) 0 ++ (E.check check x ++ rest) = T
  have hlim : p.length ≤ compressedLimit hs check h.compressedSize := by
    rcases hcs with hc | hc <;> rw [hc]
    · exact hplim
    · exact Nat.le_refl _
  have hul : x.length ≤ uncompressedLimit h.uncompressedSize := by
    rcases hus with hu | hu <;> rw [hu]
    · exact hx
    · exact Nat.le_refl _
  have hr : E.payload h.filters (List.take (min (p ++ T).length (compressedLimit hs check h.compressedSize)) (p ++ T))
      (min cap (uncompressedLimit h.uncompressedSize)) = ⟨.streamEnd, x, p.length⟩ := by
    rw [take_append_ge p T _ (by rw [List.length_append]; omega)]
    exact hpay _ _ (by omega)
  unfold blockDecode
  simp only [hr]
  have hsz : (sizeValid p.length h.compressedSize && sizeValid x.length h.uncompressedSize) = true := by
    rcases hcs with hc | hc <;> rcases hus with hu | hu <;> simp [hc, hu, sizeValid]
  simp only [hsz, Bool.not_true, Bool.false_eq_true, if_false]
  have hd : List.drop p.length (p ++ T) = T := List.drop_left' rfl
  rw [hd, ← hT, padCheck_complete]
  simp only []
  by_cases hc0 : check = 0
  · rw [if_pos hc0, hcz hc0]; rfl
  · rw [if_neg hc0]
    have hlen : ¬ ((E.check check x ++ rest).length < checkSize check) := by
      rw [List.length_append, hck]; omega
    rw [if_neg hlen]
    have htake : List.take (checkSize check) (E.check check x ++ rest) = E.check check x := by
      rw [← hck]; exact List.take_left' rfl
    rw [htake]
    simp

/-! ## Index -/

theorem hBlocksSize_append_enc (a b : HashInfo) : hBlocksSize (a ++ b) = hBlocksSize a + hBlocksSize b := by
  simp [hBlocksSize]
theorem hUncompressedSize_append_enc (a b : HashInfo) : hUncompressedSize (a ++ b) = hUncompressedSize a + hUncompressedSize b := by
  simp [hUncompressedSize]
theorem hIndexListSize_append_enc (a b : HashInfo) : hIndexListSize (a ++ b) = hIndexListSize a + hIndexListSize b := by
  simp [hIndexListSize]

/-- Every Record is one `lzma_index_append` would take. -/
def RecordsOk (rs : List IndexRecord) : Prop :=
  ∀ r ∈ rs, UNPADDED_SIZE_MIN ≤ r.unpadded ∧ r.unpadded ≤ UNPADDED_SIZE_MAX ∧ r.uncompressed ≤ VLI_MAX

theorem unpadded_le_vli {u : Nat} (h : u ≤ UNPADDED_SIZE_MAX) : u ≤ VLI_MAX := by
  unfold UNPADDED_SIZE_MAX at h; unfold VLI_MAX; omega

theorem indexFinish_complete_enc (blocks : HashInfo) (pre t : List UInt8) :
    indexFinish blocks blocks
        (pre ++ List.replicate (indexPad blocks) 0 ++ le32 (crc32 (pre ++ List.replicate (indexPad blocks) 0)) ++ t)
        pre.length
        (List.replicate (indexPad blocks) 0 ++ le32 (crc32 (pre ++ List.replicate (indexPad blocks) 0)) ++ t)
      = ⟨.streamEnd, pre.length + indexPad blocks + 4⟩ := by
  unfold indexFinish
  have hne : (List.replicate (indexPad blocks) (0 : UInt8) ++ le32 (crc32 (pre ++ List.replicate (indexPad blocks) 0)) ++ t).isEmpty = false := by
    simp [le32]
  rw [hne]
  simp only [Bool.false_eq_true, if_false]
  have hp : (4 - indexSizeUnpadded (hCount blocks) (hIndexListSize blocks) % 4) % 4 = indexPad blocks := rfl
  rw [hp, List.append_assoc (List.replicate (indexPad blocks) (0 : UInt8)), padCheck_complete]
  simp only []
  have hne2 : (le32 (crc32 (pre ++ List.replicate (indexPad blocks) 0)) ++ t).isEmpty = false := by simp [le32]
  rw [hne2]
  simp only [Bool.false_eq_true, if_false, ne_eq, not_true_eq_false, or_self]
  have htake : List.take (pre.length + indexPad blocks)
      (pre ++ List.replicate (indexPad blocks) 0 ++ le32 (crc32 (pre ++ List.replicate (indexPad blocks) 0)) ++ t)
      = pre ++ List.replicate (indexPad blocks) 0 := by
    rw [List.append_assoc (pre ++ List.replicate (indexPad blocks) 0)]
    exact List.take_left' (by simp)
  rw [htake, matchBytes_complete, le32_length]

theorem indexRecords_complete_enc (blocks : HashInfo) (all : List UInt8) :
    ∀ (more records : HashInfo) (pre t : List UInt8),
      blocks = records ++ more → RecordsOk more →
      all = pre ++ indexRecordsBytes more ++ List.replicate (indexPad blocks) 0
              ++ le32 (crc32 (pre ++ indexRecordsBytes more ++ List.replicate (indexPad blocks) 0)) ++ t →
      indexRecords blocks all more.length records pre.length
          (indexRecordsBytes more ++ List.replicate (indexPad blocks) 0
              ++ le32 (crc32 (pre ++ indexRecordsBytes more ++ List.replicate (indexPad blocks) 0)) ++ t)
        = ⟨.streamEnd, pre.length + (indexRecordsBytes more).length + indexPad blocks + 4⟩ := by
  intro more
  induction more with
  | nil =>
    intro records pre t hb _ hall
    have hbr : blocks = records := by simpa using hb
    subst hbr
    simp only [List.length_nil, indexRecords, indexRecordsBytes, List.flatMap_nil, List.append_nil, List.nil_append,
      Nat.add_zero] at hall ⊢
    rw [hall]
    exact indexFinish_complete_enc blocks pre t
  | cons r more ih =>
    intro records pre t hb hok hall
    have hr := hok r (List.mem_cons_self ..)
    have hok' : RecordsOk more := fun q hq => hok q (List.mem_cons_of_mem _ hq)
    simp only [List.length_cons, indexRecords]
    rw [indexRecordsBytes_cons]
    generalize hZ : List.replicate (indexPad blocks) (0 : UInt8) = Z at hall ⊢
    generalize hC : le32 (crc32 (pre ++ (vliEncode r.unpadded ++ vliEncode r.uncompressed ++ indexRecordsBytes more) ++ Z)) = C
    have hne : (vliEncode r.unpadded ++ vliEncode r.uncompressed ++ indexRecordsBytes more ++ Z ++ C ++ t).isEmpty = false := by
      have := vliEncode_ne_nil r.unpadded
      cases hv : vliEncode r.unpadded with
      | nil => rw [hv] at this; simp at this
      | cons _ _ => rfl
    rw [hne]
    simp only [Bool.false_eq_true, if_false]
    have e1 : vliEncode r.unpadded ++ vliEncode r.uncompressed ++ indexRecordsBytes more ++ Z ++ C ++ t
        = vliEncode r.unpadded ++ (vliEncode r.uncompressed ++ (indexRecordsBytes more ++ Z ++ C ++ t)) := by simp
    rw [e1, indexVli_complete r.unpadded (unpadded_le_vli hr.2.1)]
    simp only []
    rw [if_neg (by omega), List.drop_left' rfl]
    have hne2 : (vliEncode r.uncompressed ++ (indexRecordsBytes more ++ Z ++ C ++ t)).isEmpty = false := by
      have := vliEncode_ne_nil r.uncompressed
      cases hv : vliEncode r.uncompressed with
      | nil => rw [hv] at this; simp at this
      | cons _ _ => rfl
    rw [hne2]
    simp only [Bool.false_eq_true, if_false]
    rw [indexVli_complete r.uncompressed hr.2.2]
    simp only []
    rw [List.drop_left' rfl]
    -- the running sums stay below the Blocks' sums
    have hsum : ¬ (hBlocksSize blocks < hBlocksSize (records ++ [⟨r.unpadded, r.uncompressed⟩])
        ∨ hUncompressedSize blocks < hUncompressedSize (records ++ [⟨r.unpadded, r.uncompressed⟩])
        ∨ hIndexListSize blocks < hIndexListSize (records ++ [⟨r.unpadded, r.uncompressed⟩])) := by
      have hb' : blocks = (records ++ [⟨r.unpadded, r.uncompressed⟩]) ++ more := by rw [hb]; simp
      rw [hb', hBlocksSize_append_enc, hUncompressedSize_append_enc, hIndexListSize_append_enc]
      omega
    rw [if_neg hsum]
    have hb' : blocks = (records ++ [⟨r.unpadded, r.uncompressed⟩]) ++ more := by rw [hb]; simp
    have hpre : pre.length + (vliEncode r.unpadded).length + (vliEncode r.uncompressed).length
        = (pre ++ vliEncode r.unpadded ++ vliEncode r.uncompressed).length := by
      simp only [List.length_append]
    rw [hpre]
    have hall' : all = (pre ++ vliEncode r.unpadded ++ vliEncode r.uncompressed) ++ indexRecordsBytes more ++ Z
        ++ le32 (crc32 ((pre ++ vliEncode r.unpadded ++ vliEncode r.uncompressed) ++ indexRecordsBytes more ++ Z)) ++ t := by
      rw [hall, indexRecordsBytes_cons]; simp
    have hC' : C = le32 (crc32 ((pre ++ vliEncode r.unpadded ++ vliEncode r.uncompressed) ++ indexRecordsBytes more ++ Z)) := by
      rw [← hC]; simp
    rw [hC']
    have := ih (records ++ [⟨r.unpadded, r.uncompressed⟩]) (pre ++ vliEncode r.unpadded ++ vliEncode r.uncompressed) t hb' hok'
      (by rw [hZ]; exact hall')
    rw [hZ] at this
    rw [this]
    simp only [List.length_append]
    congr 1
    omega

/-- The canonical Index of the decoded Blocks is accepted, and exactly its bytes are consumed. -/
theorem indexHashDecode_complete_enc (blocks : HashInfo) (hok : RecordsOk blocks) (hcnt : blocks.length ≤ VLI_MAX) (t : List UInt8) :
    indexHashDecode blocks (indexEncode blocks ++ t) = ⟨.streamEnd, (indexEncode blocks).length⟩ := by
  have henc : indexEncode blocks ++ t
      = (0 : UInt8) :: (vliEncode blocks.length ++ (indexRecordsBytes blocks ++ List.replicate (indexPad blocks) 0
          ++ le32 (crc32 ([(0 : UInt8)] ++ vliEncode blocks.length ++ indexRecordsBytes blocks ++ List.replicate (indexPad blocks) 0)) ++ t)) := by
    unfold indexEncode
    simp only [INDEX_INDICATOR, indexPad_eq, List.cons_append, List.append_assoc, List.nil_append]
    rfl
  rw [henc]
  unfold indexHashDecode
  simp only []
  rw [if_neg (by simp [INDEX_INDICATOR])]
  have hne : (vliEncode blocks.length ++ (indexRecordsBytes blocks ++ List.replicate (indexPad blocks) 0
      ++ le32 (crc32 ([(0 : UInt8)] ++ vliEncode blocks.length ++ indexRecordsBytes blocks ++ List.replicate (indexPad blocks) 0)) ++ t)).isEmpty = false := by
    have := vliEncode_ne_nil blocks.length
    cases hv : vliEncode blocks.length with
    | nil => rw [hv] at this; simp at this
    | cons _ _ => rfl
  rw [hne]
  simp only [Bool.false_eq_true, if_false]
  rw [indexVli_complete blocks.length hcnt]
  simp only []
  rw [if_neg (by simp [hCount]), List.drop_left' rfl]
  have hpre : 1 + (vliEncode blocks.length).length = ([(0 : UInt8)] ++ vliEncode blocks.length).length := by
    simp; omega
  rw [hpre]
  have := indexRecords_complete_enc blocks
    ((0 : UInt8) :: (vliEncode blocks.length ++ (indexRecordsBytes blocks ++ List.replicate (indexPad blocks) 0
          ++ le32 (crc32 ([(0 : UInt8)] ++ vliEncode blocks.length ++ indexRecordsBytes blocks ++ List.replicate (indexPad blocks) 0)) ++ t)))
    blocks [] ([(0 : UInt8)] ++ vliEncode blocks.length) t (by simp) hok (by simp)
  rw [this]
  congr 1
  unfold indexEncode
  simp only [INDEX_INDICATOR, indexPad_eq, List.length_append, List.length_cons, List.length_replicate, le32_length,
    List.length_nil]
  omega


/-! ## Index + Stream Footer -/

theorem streamFooterEncode_ok (f : StreamFlags) (bs : Nat) (b : List UInt8) (h : streamFooterEncode f bs = .ok b) :
    f.version = 0 ∧ isBackwardSizeValid bs = true ∧ f.check ≤ CHECK_ID_MAX := by
  unfold streamFooterEncode at h
  by_cases hv : f.version ≠ 0
  · simp [hv] at h
  · simp only [hv, if_false] at h
    by_cases hbs : isBackwardSizeValid bs = true
    · simp only [hbs, Bool.not_true, Bool.false_eq_true, if_false] at h
      unfold streamFlagsBytes at h
      by_cases hc : f.check > CHECK_ID_MAX
      · simp [hc] at h
      · exact ⟨by omega, hbs, by omega⟩
    · simp [hbs] at h

theorem indexAndFooter_complete_enc (hdr : StreamFlags) (blocks : HashInfo) (hok : RecordsOk blocks)
    (hcnt : blocks.length ≤ VLI_MAX) (hlen : (indexEncode blocks).length = indexHashSize blocks)
    (ftr t : List UInt8) (hf : streamFooterEncode hdr (indexHashSize blocks) = .ok ftr) :
    indexAndFooter hdr blocks (indexEncode blocks ++ ftr ++ t)
      = { ret := .streamEnd, out := [], consumed := (indexEncode blocks).length + STREAM_HEADER_SIZE } := by
  obtain ⟨hv, hbs, hck⟩ := streamFooterEncode_ok _ _ _ hf
  obtain ⟨hfl, hfd⟩ := streamFooter_roundtrip hdr _ ftr [] hf
  unfold indexAndFooter
  rw [List.append_assoc, indexHashDecode_complete_enc blocks hok hcnt]
  simp only [ne_eq, not_true_eq_false, if_false]
  rw [List.drop_left' rfl]
  have hl : ¬ ((ftr ++ t).length < STREAM_HEADER_SIZE) := by
    rw [List.length_append, hfl]; unfold STREAM_HEADER_SIZE; omega
  rw [if_neg hl]
  have htk : List.take STREAM_HEADER_SIZE (ftr ++ t) = ftr := List.take_left' (by rw [hfl]; rfl)
  rw [htk]
  rw [List.append_nil] at hfd
  rw [hfd]
  simp only [ne_eq, not_true_eq_false, if_false]
  have hcmp : streamFlagsCompare hdr none hdr (some (indexHashSize blocks)) = .ok := by
    unfold streamFlagsCompare
    rw [if_neg (by omega), if_neg (by omega), if_neg (by simp)]
  rw [hcmp]
  simp

/-! ## the Blocks of a Stream -/

/-- `bytes` is a complete and truthful Block holding the data `x` (Stream Check `check`): a decodable header, then
    Compressed Data on which the raw decoder of `E` stops by itself having produced `x`, zero Block Padding, and the
    Check of `x`; the size fields of the header are absent or the real sizes; `u` is the Block's Unpadded Size. -/
def GoodBlock (E : Env) (check : Nat) (x bytes : List UInt8) (u : Nat) : Prop :=
  ∃ (b0 : UInt8) (tl p : List UInt8) (h : BlockHeader) (n : Nat),
    b0.toNat ≠ 0 ∧ (b0 :: tl).length = (b0.toNat + 1) * 4 ∧
    bytes = (b0 :: tl) ++ p ++ List.replicate (blockPadLen p.length) 0 ++ E.check check x ∧
    blockHeaderDecodeWith ((b0.toNat + 1) * 4) check (b0 :: tl) = .ok h ∧
    validateChain (h.filters.map (·.id)) = .ok n ∧
    (h.compressedSize = none ∨ h.compressedSize = some p.length) ∧
    (h.uncompressedSize = none ∨ h.uncompressedSize = some x.length) ∧
    (∀ t c, x.length ≤ c → E.payload h.filters (p ++ t) c = ⟨.streamEnd, x, p.length⟩) ∧
    p.length ≤ compressedLimit ((b0.toNat + 1) * 4) check none ∧ x.length ≤ VLI_MAX ∧
    (E.check check x).length = checkSize check ∧
    blockUnpaddedSize 1 ((b0.toNat + 1) * 4) check (some p.length) = u

/-- Every `lzma_index_hash_append` along the way succeeds. -/
def AppendsOk : HashInfo → List IndexRecord → Prop
  | _, [] => True
  | pre, r :: rs => indexHashAppend pre r.unpadded r.uncompressed = .ok (pre ++ [r]) ∧ AppendsOk (pre ++ [r]) rs

/-- A Block list: (data, bytes, unpadded size). -/
abbrev BlockList := List (List UInt8 × List UInt8 × Nat)
def BlockList.data (bl : BlockList) : List UInt8 := (bl.map (·.1)).flatten
def BlockList.bytes (bl : BlockList) : List UInt8 := (bl.map (·.2.1)).flatten
def BlockList.recs (bl : BlockList) : List IndexRecord := bl.map fun q => ⟨q.2.2, q.1.length⟩

theorem AppendsOk_cons (pre : HashInfo) (r : IndexRecord) (rs : List IndexRecord) :
    AppendsOk pre (r :: rs) = (indexHashAppend pre r.unpadded r.uncompressed = .ok (pre ++ [r]) ∧ AppendsOk (pre ++ [r]) rs) := rfl
theorem BlockList.recs_cons (x bytes : List UInt8) (u : Nat) (bl : BlockList) :
    BlockList.recs ((x, bytes, u) :: bl) = ⟨u, x.length⟩ :: BlockList.recs bl := rfl
theorem BlockList.data_cons (x bytes : List UInt8) (u : Nat) (bl : BlockList) :
    BlockList.data ((x, bytes, u) :: bl) = x ++ BlockList.data bl := by simp [BlockList.data]
theorem BlockList.bytes_cons (x bytes : List UInt8) (u : Nat) (bl : BlockList) :
    BlockList.bytes ((x, bytes, u) :: bl) = bytes ++ BlockList.bytes bl := by simp [BlockList.bytes]

theorem blocksLoop_complete_enc (E : Env) (fl : Flags) (hdr : StreamFlags) (tail : List UInt8) (sT : SRes)
    (ht0 : ∃ t', tail = 0 :: t') (hsT : sT.ret = .streamEnd) :
    ∀ (bl : BlockList) (fuel : Nat) (pre : HashInfo) (cap : Nat),
      (∀ q ∈ bl, GoodBlock E hdr.check q.1 q.2.1 q.2.2) →
      AppendsOk pre bl.recs → bl.length < fuel → bl.data.length ≤ cap →
      indexAndFooter hdr (pre ++ bl.recs) tail = sT →
      blocksLoop E fl hdr fuel pre (bl.bytes ++ tail) cap
        = { ret := .streamEnd, out := bl.data, consumed := bl.bytes.length + sT.consumed } := by
  intro bl
  induction bl with
  | nil =>
    intro fuel pre cap _ _ hfuel _ hT
    obtain ⟨t', ht'⟩ := ht0
    cases fuel with
    | zero => simp at hfuel
    | succ fuel =>
      simp only [BlockList.bytes, BlockList.data, BlockList.recs, List.map_nil, List.flatten_nil, List.nil_append,
        List.append_nil, List.length_nil, Nat.zero_add] at hT ⊢
      subst ht'
      simp only [blocksLoop]
      rw [if_pos (by simp [INDEX_INDICATOR]), hT]
      have F := indexAndFooter_streamEnd hdr pre _ sT hT hsT
      cases sT
      simp only [] at hsT F ⊢
      have := F.out_nil
      simp only [] at this
      subst this hsT
      rfl
  | cons q bl ih =>
    intro fuel pre cap hgood hap hfuel hcap hT
    obtain ⟨x, bytes, u⟩ := q
    obtain ⟨b0, tl, p, h, n, hb0, hlen, hbytes, hh, hv, hcs, hus, hpay, hplim, hx, hck, hu⟩ :=
      hgood (x, bytes, u) (List.mem_cons_self ..)
    simp only [] at hb0 hlen hbytes hh hv hcs hus hpay hplim hx hck hu
    have hgood' : ∀ q ∈ bl, GoodBlock E hdr.check q.1 q.2.1 q.2.2 := fun q hq => hgood q (List.mem_cons_of_mem _ hq)
    rw [BlockList.recs_cons, AppendsOk_cons] at hap
    obtain ⟨hap1, hap2⟩ := hap
    simp only [] at hap1
    cases fuel with
    | zero => simp at hfuel
    | succ fuel =>
      rw [BlockList.data_cons, BlockList.bytes_cons]
      rw [BlockList.data_cons, List.length_append] at hcap
      generalize hR : BlockList.bytes bl ++ tail = R
      have hinp : bytes ++ BlockList.bytes bl ++ tail
          = b0 :: (tl ++ (p ++ List.replicate (blockPadLen p.length) 0 ++ E.check hdr.check x ++ R)) := by
        rw [hbytes, ← hR]; simp
      rw [hinp]
      simp only [blocksLoop]
      rw [if_neg (by simpa [INDEX_INDICATOR] using hb0)]
      have hinp2 : b0 :: (tl ++ (p ++ List.replicate (blockPadLen p.length) 0 ++ E.check hdr.check x ++ R))
          = (b0 :: tl) ++ (p ++ List.replicate (blockPadLen p.length) 0 ++ E.check hdr.check x ++ R) := rfl
      rw [hinp2]
      rw [if_neg (by rw [List.length_append, hlen]; omega)]
      rw [List.take_left' hlen, hh]
      simp only []
      rw [hv]
      simp only []
      rw [List.drop_left' hlen]
      have hcz : hdr.check = 0 → checkSize hdr.check = 0 := by intro h0; rw [h0]; rfl
      rw [blockDecode_complete_enc E hdr.check fl.ignoreCheck _ h p x R cap hcs hus hpay hplim hx (by omega) hck hcz]
      simp only [ne_eq, not_true_eq_false, if_false]
      rw [hu, hap1]
      simp only []
      have hdrop : List.drop ((b0.toNat + 1) * 4 + (p.length + blockPadLen p.length + checkSize hdr.check))
          ((b0 :: tl) ++ (p ++ List.replicate (blockPadLen p.length) 0 ++ E.check hdr.check x ++ R)) = R := by
        rw [← List.drop_drop, List.drop_left' hlen]
        have : (p ++ List.replicate (blockPadLen p.length) 0 ++ E.check hdr.check x).length
            = p.length + blockPadLen p.length + checkSize hdr.check := by
          simp only [List.length_append, List.length_replicate, hck]
        rw [← this]
        exact List.drop_left' rfl
      rw [hdrop, ← hR]
      have hT' : indexAndFooter hdr ((pre ++ [⟨u, x.length⟩]) ++ BlockList.recs bl) tail = sT := by
        rw [← hT, BlockList.recs_cons, List.append_assoc]; rfl
      have hf' : bl.length < fuel := by simp only [List.length_cons] at hfuel; omega
      have hc' : (BlockList.data bl).length ≤ cap - x.length := by omega
      have hih0 := ih fuel (pre ++ [⟨u, x.length⟩]) (cap - x.length)
      have hih1 := hih0 hgood'
      have hih2 := hih1 hap2
      have hih3 := hih2 hf'
      have hih4 := hih3 hc'
      have hih := hih4 hT'
      rw [hih]
      simp only [SRes.mk.injEq, true_and]
      rw [hbytes]
      simp only [List.length_append, List.length_replicate, hck, hlen, List.length_cons]
      simp only [List.length_cons] at hlen
      omega


/-! ## one Stream, and the `lzma_code` loop around it -/

theorem AppendsOk_records : ∀ (rs : List IndexRecord) (pre : HashInfo), AppendsOk pre rs → RecordsOk rs := by
  intro rs
  induction rs with
  | nil => intro _ _ r hr; simp at hr
  | cons r rs ih =>
    intro pre h q hq
    rw [AppendsOk_cons] at h
    rcases List.mem_cons.mp hq with hq | hq
    · subst hq
      obtain ⟨_, h1, h2, h3⟩ := indexHashAppend_ok _ _ _ _ h.1
      exact ⟨h1, h2, h3⟩
    · exact ih _ h.2 q hq

theorem BlockList.length_le_bytes (bl : BlockList) (h : ∀ q ∈ bl, 1 ≤ q.2.1.length) : bl.length ≤ bl.bytes.length := by
  induction bl with
  | nil => simp
  | cons q bl ih =>
    obtain ⟨x, bytes, u⟩ := q
    rw [BlockList.bytes_cons, List.length_append, List.length_cons]
    have h1 := h (x, bytes, u) (List.mem_cons_self ..)
    have h2 := ih (fun q hq => h q (List.mem_cons_of_mem _ hq))
    simp only [] at h1
    omega

theorem GoodBlock.length_pos {E : Env} {check : Nat} {x bytes : List UInt8} {u : Nat} (h : GoodBlock E check x bytes u) :
    1 ≤ bytes.length := by
  obtain ⟨b0, tl, p, _, _, _, _, hb, _⟩ := h
  rw [hb]
  simp only [List.length_append, List.length_cons]
  omega

/-- A Stream put together the way the encoders do it — Stream Header, truthful Blocks, the canonical Index of their
    sizes, a Stream Footer with the real Index size — is accepted by the decoder model, decodes to the concatenation of
    the Blocks' data, and exactly its bytes are consumed. -/
theorem streamOne_complete_enc (E : Env) (fl : Flags) (first : Bool) (sf : StreamFlags) (hb ftr : List UInt8) (bl : BlockList)
    (cap : Nat) (t : List UInt8)
    (hhdr : streamHeaderEncode sf = .ok hb)
    (hgood : ∀ q ∈ bl, GoodBlock E sf.check q.1 q.2.1 q.2.2)
    (hap : AppendsOk [] bl.recs) (hcnt : bl.recs.length ≤ VLI_MAX)
    (hlen : (indexEncode bl.recs).length = indexHashSize bl.recs)
    (hf : streamFooterEncode sf (indexHashSize bl.recs) = .ok ftr)
    (hcap : bl.data.length ≤ cap) :
    streamOne E fl first (hb ++ bl.bytes ++ indexEncode bl.recs ++ ftr ++ t) cap
      = { ret := .streamEnd, out := bl.data,
          consumed := (hb ++ bl.bytes ++ indexEncode bl.recs ++ ftr).length,
          events := headerEvents E fl sf.check } := by
  obtain ⟨hbl, hdec⟩ := streamHeader_roundtrip sf hb [] hhdr
  rw [List.append_nil] at hdec
  have hok := AppendsOk_records _ _ hap
  have hinp : hb ++ bl.bytes ++ indexEncode bl.recs ++ ftr ++ t = hb ++ (bl.bytes ++ (indexEncode bl.recs ++ ftr ++ t)) := by simp
  rw [hinp]
  unfold streamOne
  rw [if_neg (by rw [List.length_append, hbl]; unfold STREAM_HEADER_SIZE; omega)]
  rw [List.take_left' (by rw [hbl]; rfl), hdec]
  simp only []
  rw [List.drop_left' (by rw [hbl]; rfl)]
  have hT := indexAndFooter_complete_enc sf bl.recs hok hcnt hlen ftr t hf
  have hloop := blocksLoop_complete_enc E fl sf (indexEncode bl.recs ++ ftr ++ t)
    { ret := .streamEnd, out := [], consumed := (indexEncode bl.recs).length + STREAM_HEADER_SIZE }
    (by obtain ⟨t', ht'⟩ := indexEncode_head bl.recs; exact ⟨t' ++ ftr ++ t, by rw [ht']; simp⟩) rfl bl
    ((hb ++ (bl.bytes ++ (indexEncode bl.recs ++ ftr ++ t))).length + 1) [] cap hgood hap
    (by
      have := BlockList.length_le_bytes bl (fun q hq => (hgood q hq).length_pos)
      simp only [List.length_append]; omega)
    hcap (by rw [List.nil_append]; exact hT)
  rw [hloop]
  simp only [Alone.DRes.mk.injEq, true_and, and_true]
  obtain ⟨_, _, hfl⟩ := streamFooterEncode_ok _ _ _ hf
  have hfl12 := (streamFooter_roundtrip sf _ ftr [] hf).1
  simp only [List.length_append, hbl, hfl12]
  unfold STREAM_HEADER_SIZE
  omega

/-- `lzma_stream_decoder` + `lzma_code(LZMA_FINISH)` on an input that is exactly one accepted Stream. -/
theorem xzDecode_of_streamOne (E : Env) (fl : Flags) (inp : List UInt8) (cap : Nat) (s : DRes)
    (hs : streamOne E fl true inp cap = s) (hr : s.ret = .streamEnd) (hc : s.consumed = inp.length) :
    xzDecode E fl inp cap = s := by
  have hcall : xzCall E fl inp cap = s := by
    unfold xzCall
    simp only [xzLoop]
    rw [hs]
    rw [if_neg (by rw [hr]; simp)]
    by_cases hcc : (!fl.concatenated) = true
    · rw [if_pos hcc]
    · rw [if_neg hcc, hc, List.drop_length]
      simp only [streamPadding, if_true]
      cases s
      simp only [] at hr hc ⊢
      rw [hr, hc]; rfl
  unfold xzDecode
  rw [hcall]
  simp only []
  rw [if_neg (by rw [hr]; simp)]


/-- Acceptance implies the declarative grammar (same statement as `C03Container.xz_decode_sound`). -/
theorem validXz_of_xzDecode (E : Env) (fl : Flags) (b : List UInt8) (cap : Nat)
    (h : (xzDecode E fl b cap).ret = .streamEnd) :
    ValidXz E fl b cap (xzDecode E fl b cap).out (xzDecode E fl b cap).consumed := by
  have hcall : xzDecode E fl b cap = xzCall E fl b cap := by
    unfold xzDecode at h ⊢
    simp only [] at h ⊢
    split
    · rename_i hok; rw [if_pos hok] at h; simp at h
    · rfl
  rw [hcall] at h ⊢
  exact xzLoop_streamEnd E fl _ _ _ _ _ rfl h

end XzVerif.XzDecode
