/- C17 invariant Q2: preservation by `exec`, target creation, write, and io_close. -/
import XzVerif.Lemmas.XzIoQ2Def

namespace XzVerif.XzIo
variable {α : Type}

section
variable {c : Cfg α} {s : St α} (i : Inv c s) (hl : s.fs.srcLinked = true) (q : Q2 c s)
include i hl q

set_option hygiene false in
local macro "q2_explicit" : tactic =>
  `(tactic| exact q2_neutral q hne _ rfl (by simp) id id id id (by simp [emit, msgError, msgWarn, hpc])
      (by simp [Pc.isCloseD, emit, msgError, msgWarn, hpc]) (fun h1 _ h3 => ⟨h1, h3⟩))
set_option hygiene false in
local macro "q2_iofail" : tactic =>
  `(tactic| exact q2_via_fail q hne (frame_ioFail c _).1 rfl (by simp) rfl rfl (ioFail_ne_fsyncFile c _) (ioFail_success c _))
set_option hygiene false in
local macro "q2_odErr" : tactic =>
  `(tactic| exact q2_via_fail q hne (frame_openDestErr c _).1 rfl (by simp) rfl rfl (openDestErr_ne_fsyncFile c _)
      (openDestErr_success c _ (by exact hs)))
set_option hygiene false in
local macro "q2_csp_fail" : tactic =>
  `(tactic| exact q2_via_fail q hne (frame_closeSrcPhase c _).1 rfl (by simp) rfl rfl (closeSrcPhase_ne_fsyncFile c _)
      (by rw [(frame_closeSrcPhase c _).2.2]; exact hs))

theorem q2_exec_unlinkForce (hpc : s.pc = .unlinkForce) : Q2 c (exec c s) := by
  have hne : s.pc ≠ .done := by rw [hpc]; simp
  have h := i.pcinv; simp only [PcInv, hpc] at h
  have hs : s.success = false := h.2.2.2.1
  unfold exec; simp only [hpc]
  repeat' split
  all_goals first
    | q2_explicit
    | q2_odErr
    | exact q2_neutral q hne _ rfl (by simp) (unlinkDstName_ownLinked_mono _) id
        (by rw [show (_ : St α).fs.ownSynced = s.fs.unlinkDstName.ownSynced from rfl, unlinkDstName_ownSynced]; exact id)
        (by rw [show (_ : St α).fs.dirSynced = s.fs.unlinkDstName.dirSynced from rfl, unlinkDstName_dirSynced]; exact id)
        (by simp) (by simp [Pc.isCloseD]) (fun h1 _ h3 => ⟨h1, h3⟩)

theorem q2_exec_openDest (hpc : s.pc = .openDest) : Q2 c (exec c s) := by
  have hne : s.pc ≠ .done := by rw [hpc]; simp
  have h := i.pcinv; simp only [PcInv, hpc] at h
  have hs : s.success = false := h.2.2.2.1
  unfold exec; simp only [hpc]
  repeat' split
  all_goals first
    | q2_odErr
    | exact q2_gen q hne _ rfl (by simp) (fun _ => ⟨h.2.2.2.2.2.2.2.2.1, h.2.2.2.2.2.2.2.2.2⟩)
        (fun hm => by have : s.main = false := hm; rw [h.1] at this; simp at this)
        (fun hx => by simp [emit] at hx) (fun hx => by simp [emit] at hx) (fun hx => by simp at hx)
        (fun hx => by simp [Pc.isCloseD] at hx) (fun _ _ hx => by simp at hx)

theorem q2_exec_tailSeek (hpc : s.pc = .tailSeek) : Q2 c (exec c s) := by
  have hne : s.pc ≠ .done := by rw [hpc]; simp
  unfold exec; simp only [hpc]
  repeat' split
  all_goals first
    | q2_explicit
    | exact q2_via_fail q hne (frame_closeBlock c _).1 rfl (by simp) rfl rfl (closeBlock_ne_fsyncFile c _)
        (by rw [closeBlock_success])

theorem q2_exec_attrs (hpc : s.pc = .fchownUid ∨ s.pc = .fchownGid ∨ s.pc = .fchmod) : Q2 c (exec c s) := by
  rcases hpc with hpc | hpc | hpc
  all_goals
    have hne : s.pc ≠ .done := by rw [hpc]; simp
    unfold exec; simp only [hpc]
    repeat' split
    all_goals q2_explicit

theorem q2_futimens_aux (hne : s.pc ≠ .done) (r : Res) : Q2 c (afterAttrs c (emit s .futimens r)) := by
  have key : ∀ tr, SubPat [isFutimens] (⟨.futimens, r⟩ :: tr) = true := by
    intro tr; exact subPat_push (by simp [isFutimens]) (by simp [SubPat])
  have fr := frame_afterAttrs c (emit s .futimens r)
  refine q2_gen q hne ⟨.futimens, r⟩ (fr.1.trace.trans rfl) (by simp) ?_ ?_ ?_ ?_ ?_ ?_ ?_
  · rw [fr.1.fs]; exact q.ownFile
  · intro hm; rw [fr.1.fs]; exact q.preOwn (fr.1.mainMono hm)
  · rw [fr.1.fs]; exact fun hx => Or.inl hx
  · rw [fr.1.fs]; exact fun hx => Or.inl hx
  · intro _; rw [fr.1.trace]; exact key _
  · intro _ _; rw [fr.1.trace]; exact key _
  · intro h1 h2 h3
    rw [fr.2.2] at h1; rw [fr.1.fs] at h2; rw [fr.1.destOpen] at h3
    exact Or.inl ⟨h1, h2, h3⟩

theorem q2_exec_futimens (hpc : s.pc = .futimens) : Q2 c (exec c s) := by
  have hne : s.pc ≠ .done := by rw [hpc]; simp
  unfold exec; simp only [hpc]
  exact q2_futimens_aux i hl q hne _

theorem q2_exec_fsyncFile (hpc : s.pc = .fsyncFile) : Q2 c (exec c s) := by
  have hne : s.pc ≠ .done := by rw [hpc]; simp
  have hf := q.atFsync hpc
  unfold exec; simp only [hpc]
  split
  · exact q2_via_fail q hne (frame_closeDestPhase c _).1 rfl (by simp) rfl rfl (closeDestPhase_ne_fsyncFile c _)
      (by rw [(frame_closeDestPhase c _).2.2])
  · refine q2_gen q hne _ rfl (by simp) q.ownFile q.preOwn ?_ (fun hx => Or.inl hx) (fun hx => by simp at hx)
      (fun hx => by simp [Pc.isCloseD] at hx) (fun h1 h2 h3 => Or.inl ⟨h1, h2, h3⟩)
    intro _
    exact Or.inr (subPat_push (by simp [isFsyncDstOk, emit]) hf)

theorem q2_exec_fsyncDir (hpc : s.pc = .fsyncDir) : Q2 c (exec c s) := by
  have hne : s.pc ≠ .done := by rw [hpc]; simp
  have h := i.pcinv; simp only [PcInv, hpc] at h
  have hsy := q.synced h.2.2.2.1
  unfold exec; simp only [hpc]
  split
  · exact q2_via_fail q hne (frame_closeDestPhase c _).1 rfl (by simp) rfl rfl (closeDestPhase_ne_fsyncFile c _)
      (by rw [(frame_closeDestPhase c _).2.2])
  · have fr := frame_closeDestPhase c { emit s (.fsync .dir) (.ok 0) with fs := { s.fs with dirSynced := true } }
    refine q2_gen q hne ⟨.fsync .dir, .ok 0⟩ (fr.1.trace.trans rfl) (by simp) ?_ ?_ ?_ ?_ ?_ ?_ ?_
    · rw [fr.1.fs]; exact q.ownFile
    · intro hm; rw [fr.1.fs]; exact q.preOwn (fr.1.mainMono hm)
    · rw [fr.1.fs]; exact fun hx => Or.inl hx
    · intro _; rw [fr.1.trace]; exact Or.inr (subPat_push (by simp [isFsyncDirOk, emit]) hsy)
    · intro hx; exact absurd hx (closeDestPhase_ne_fsyncFile c _)
    · intro _ _; rw [fr.1.trace]; exact subPat_cons _ (subPat_tail hsy)
    · intro h1 h2 h3
      rw [fr.2.2] at h1; rw [fr.1.fs] at h2; rw [fr.1.destOpen] at h3
      exact Or.inl ⟨h1, h2, h3⟩

theorem q2_exec_closeDir (hpc : s.pc = .closeDir) : Q2 c (exec c s) := by
  have hne : s.pc ≠ .done := by rw [hpc]; simp
  have ha := q.attrs (by rw [hpc]; rfl)
  unfold exec; simp only [hpc]
  exact q2_neutral q hne _ rfl (by simp) id id id id (by simp) (fun _ hs => ha hs) (fun h1 _ h3 => ⟨h1, h3⟩)

theorem q2_exec_closeDest (hpc : s.pc = .closeDest) : Q2 c (exec c s) := by
  have hne : s.pc ≠ .done := by rw [hpc]; simp
  have h := i.pcinv; simp only [PcInv, hpc] at h
  have ha := q.attrs (by rw [hpc]; rfl)
  unfold exec; simp only [hpc]
  split
  · exact q2_gen q hne _ rfl (by simp) q.ownFile q.preOwn (fun hx => Or.inl hx) (fun hx => Or.inl hx) (fun hx => by simp at hx)
      (fun hx => by simp [Pc.isCloseD] at hx) (fun hx => by simp [msgError, emit] at hx)
  · split
    · rename_i hsu
      have hsu : s.success = true := hsu
      have hpat : SubPat (syncPat c) s.trace = true := by
        unfold syncPat
        split
        · rename_i hsy
          have hd := (h.2 hsu).2 hsy
          simp [FS.durable] at hd
          exact q.dsynced hd.2
        · exact ha hsu
      have fr := frame_closeSrcPhase c { emit s (.close .dst) (.ok 0) with destOpen := false }
      refine q2_gen q hne ⟨.close .dst, .ok 0⟩ (fr.1.trace.trans rfl) (by simp) ?_ ?_ ?_ ?_ ?_ ?_ ?_
      · rw [fr.1.fs]; exact q.ownFile
      · intro hm; rw [fr.1.fs]; exact q.preOwn (fr.1.mainMono hm)
      · rw [fr.1.fs]; exact fun hx => Or.inl hx
      · rw [fr.1.fs]; exact fun hx => Or.inl hx
      · intro hx; exact absurd hx (closeSrcPhase_ne_fsyncFile c _)
      · intro hx; rw [closeSrcPhase_notCloseD] at hx; simp at hx
      · intro _ _ _
        rw [fr.1.trace]
        exact Or.inr (subPat_push (by simp [isCloseDstOk, emit]) hpat)
    · rename_i hsu
      have hsu : s.success = false := by simpa [emit] using hsu
      exact q2_gen q hne _ rfl (by simp) q.ownFile q.preOwn (fun hx => Or.inl hx) (fun hx => Or.inl hx) (fun hx => by simp at hx)
        (fun hx => by simp [Pc.isCloseD] at hx) (fun hx => by simp [emit, hsu] at hx)

theorem q2_exec_statDest (hpc : s.pc = .statDest) : Q2 c (exec c s) := by
  have hne : s.pc ≠ .done := by rw [hpc]; simp
  have h := i.pcinv; simp only [PcInv, hpc] at h
  have hs : s.success = false := h.1
  unfold exec; simp only [hpc]
  repeat' split
  all_goals first
    | q2_explicit
    | q2_csp_fail

theorem q2_exec_unlinkDest (hpc : s.pc = .unlinkDest) : Q2 c (exec c s) := by
  have hne : s.pc ≠ .done := by rw [hpc]; simp
  have h := i.pcinv; simp only [PcInv, hpc] at h
  have hs : s.success = false := h.1
  unfold exec; simp only [hpc]
  repeat' split
  all_goals first
    | q2_csp_fail
    | (have fr := frame_closeSrcPhase c { emit s (.unlink .dst) (.ok 0) with fs := s.fs.unlinkDstName }
       refine q2_neutral q hne ⟨.unlink .dst, .ok 0⟩ (fr.1.trace.trans rfl) (by simp) ?_ ?_ ?_ ?_
         (closeSrcPhase_ne_fsyncFile c _) (fun hx => by rw [closeSrcPhase_notCloseD] at hx; simp at hx)
         (fun hx => by rw [fr.2.2] at hx; have : s.success = true := hx; rw [hs] at this; simp at this)
       · rw [fr.1.fs]; exact unlinkDstName_ownLinked_mono _
       · exact fr.1.mainMono
       · rw [fr.1.fs]; show s.fs.unlinkDstName.ownSynced = true → _; rw [unlinkDstName_ownSynced]; exact id
       · rw [fr.1.fs]; show s.fs.unlinkDstName.dirSynced = true → _; rw [unlinkDstName_dirSynced]; exact id)

theorem q2_exec_closeSrc (hpc : s.pc = .closeSrc) : Q2 c (exec c s) := by
  have hne : s.pc ≠ .done := by rw [hpc]; simp
  unfold exec; simp only [hpc]
  repeat' split
  all_goals q2_explicit

theorem q2_exec_statSrc (hpc : s.pc = .statSrc) : Q2 c (exec c s) := by
  have hne : s.pc ≠ .done := by rw [hpc]; simp
  unfold exec; simp only [hpc]
  repeat' split
  all_goals q2_explicit

end
end XzVerif.XzIo
