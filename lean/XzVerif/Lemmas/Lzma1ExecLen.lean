/-
  C01, executable decoder ↔ specification decoder, part 2: `len_decode` and the distance decoder of Model/Lzma.lean
  follow the specification trees `pLen` / `pDist` (contexts renamed by `ctxMap`), incl. the `rc_bittree_rev4` indexing
  of `pos_align` and the 32-bit accumulation of `rc_direct`.
-/
import XzVerif.Lemmas.Lzma1ExecRc
import XzVerif.Lemmas.LzmaCtxMap

namespace XzVerif.LzmaSymDec.Prog

/-- taking a bound tree apart -/
theorem runRc_bind_some {α β : Type} (g : Nat → Nat) {x : Prog α} {f : α → Prog β} {ps : RangeEnc.Probs} {rc : RangeDec.Rc}
    {rest : List UInt8} {R : β × RangeEnc.Probs × RangeDec.Rc × List UInt8}
    (h : ((x.bind f).mapCtx g).runRc ps rc rest = some R) :
    ∃ a ps1 rc1 rest1, (x.mapCtx g).runRc ps rc rest = some (a, ps1, rc1, rest1) ∧
      ((f a).mapCtx g).runRc ps1 rc1 rest1 = some R := by
  rw [mapCtx_bind, runRc_bind] at h
  cases hx : (x.mapCtx g).runRc ps rc rest with
  | none => rw [hx] at h; cases h
  | some r =>
    obtain ⟨a, ps1, rc1, rest1⟩ := r
    rw [hx] at h
    exact ⟨a, ps1, rc1, rest1, rfl, h⟩

end XzVerif.LzmaSymDec.Prog

namespace XzVerif.LzmaExec
open XzVerif.RangeDec XzVerif.RangeEnc XzVerif.Lzma XzVerif.LzmaEnc XzVerif.LzmaSymDec XzVerif.LzmaSym

/-! ### value ranges of the trees -/

theorem two_le_pow_succ (n : Nat) : 2 ≤ 2 ^ (n + 1) := by
  calc 2 = 2 ^ 1 := rfl
    _ ≤ 2 ^ (n + 1) := Nat.pow_le_pow_right (by decide) (by omega)

theorem b2n_le1 (b : Bool) : b2n b ≤ 1 := by cases b <;> simp [b2n]

theorem pBittree_range (g : Nat → Nat) (base : Nat) :
    ∀ (n m : Nat) (ps : Probs) (rc : Rc) (rest : List UInt8) (v : Nat) (ps' : Probs) (rc' : Rc) (rest' : List UInt8),
      ((pBittree base n m).mapCtx g).runRc ps rc rest = some (v, ps', rc', rest') → m * 2 ^ n ≤ v ∧ v < (m + 1) * 2 ^ n
  | 0, m, ps, rc, rest, v, ps', rc', rest', h => by
    simp only [pBittree, Prog.mapCtx, Prog.runRc, Option.some.injEq, Prod.mk.injEq] at h
    rw [← h.1]; simp
  | n + 1, m, ps, rc, rest, v, ps', rc', rest', h => by
    simp only [pBittree, Prog.mapCtx, Prog.runRc] at h
    cases hd : decodeBitL rc (ps.getD (g (base + m)) 0) rest with
    | none => rw [hd] at h; cases h
    | some r =>
      obtain ⟨b, rc1, p1, rest1⟩ := r
      rw [hd] at h
      have := pBittree_range g base n _ _ _ _ _ _ _ _ h
      have hb := b2n_le1 (b == 1)
      have hp : 0 < 2 ^ n := Nat.pow_pos (by norm_num)
      rw [pow_succ]
      constructor <;> nlinarith [this.1, this.2]

theorem pDirectBits_mapCtx (g : Nat → Nat) : ∀ (n acc : Nat), (pDirectBits n acc).mapCtx g = pDirectBits n acc
  | 0, _ => rfl
  | n + 1, acc => by
    simp only [pDirectBits, Prog.mapCtx]
    congr 1; funext b; exact pDirectBits_mapCtx g n _

/-- starting the accumulator of the direct bits at `acc` only adds `acc · 2^n` -/
theorem pDirectBits_shift : ∀ (n acc : Nat) (ps : Probs) (rc : Rc) (rest : List UInt8),
    (pDirectBits n acc).runRc ps rc rest
      = ((pDirectBits n 0).runRc ps rc rest).map fun r => (acc * 2 ^ n + r.1, r.2)
  | 0, acc, ps, rc, rest => by simp [pDirectBits, Prog.runRc]
  | n + 1, acc, ps, rc, rest => by
    simp only [pDirectBits, Prog.runRc]
    cases normalizeL rc rest with
    | none => rfl
    | some q =>
      obtain ⟨rc1, rest1⟩ := q
      simp only []
      rw [pDirectBits_shift n (2 * acc + _), pDirectBits_shift n (2 * 0 + _)]
      cases (pDirectBits n 0).runRc ps (directCore rc1).2 rest1 with
      | none => rfl
      | some r =>
        simp only [Option.map_some, Option.some.injEq, Prod.mk.injEq, and_true]
        rw [pow_succ]; ring

theorem pDirectBits_range : ∀ (n acc : Nat) (ps : Probs) (rc : Rc) (rest : List UInt8) (v : Nat) (ps' : Probs) (rc' : Rc)
    (rest' : List UInt8), (pDirectBits n acc).runRc ps rc rest = some (v, ps', rc', rest') →
      acc * 2 ^ n ≤ v ∧ v < (acc + 1) * 2 ^ n
  | 0, acc, ps, rc, rest, v, ps', rc', rest', h => by
    simp only [pDirectBits, Prog.runRc, Option.some.injEq, Prod.mk.injEq] at h
    rw [← h.1]; simp
  | n + 1, acc, ps, rc, rest, v, ps', rc', rest', h => by
    simp only [pDirectBits, Prog.runRc] at h
    cases hn : normalizeL rc rest with
    | none => rw [hn] at h; cases h
    | some q =>
      obtain ⟨rc1, rest1⟩ := q
      rw [hn] at h
      have := pDirectBits_range n _ _ _ _ _ _ _ _ h
      have hb := b2n_le1 ((directCore rc1).1 == 1)
      have hp : 0 < 2 ^ n := Nat.pow_pos (by norm_num)
      rw [pow_succ]
      constructor <;> nlinarith [this.1, this.2]

theorem pBittreeRev_acc_range (g : Nat → Nat) (base : Nat) :
    ∀ (n m sh acc : Nat) (ps : Probs) (rc : Rc) (rest : List UInt8) (v : Nat) (ps' : Probs) (rc' : Rc) (rest' : List UInt8),
      ((pBittreeRev base n m sh acc).mapCtx g).runRc ps rc rest = some (v, ps', rc', rest') →
      acc ≤ v ∧ v + 2 ^ sh < acc + 2 ^ sh * 2 ^ n + 1
  | 0, m, sh, acc, ps, rc, rest, v, ps', rc', rest', h => by
    simp only [pBittreeRev, Prog.mapCtx, Prog.runRc, Option.some.injEq, Prod.mk.injEq] at h
    rw [← h.1]; simp
  | n + 1, m, sh, acc, ps, rc, rest, v, ps', rc', rest', h => by
    simp only [pBittreeRev, Prog.mapCtx, Prog.runRc] at h
    cases hd : decodeBitL rc (ps.getD (g (base + m)) 0) rest with
    | none => rw [hd] at h; cases h
    | some r =>
      obtain ⟨b, rc1, p1, rest1⟩ := r
      rw [hd] at h
      have := pBittreeRev_acc_range g base n _ _ _ _ _ _ _ _ _ _ h
      have hb := b2n_le1 (b == 1)
      have hp : 0 < 2 ^ n := Nat.pow_pos (by norm_num)
      have hs : 0 < 2 ^ sh := Nat.pow_pos (by norm_num)
      rw [pow_succ] at this
      rw [pow_succ]
      constructor
      · nlinarith [this.1]
      · have h2 := this.2
        have : b2n (b == 1) * 2 ^ sh ≤ 2 ^ sh := by nlinarith
        nlinarith

/-! ### `len_decode` -/

theorem lenDecode_run (g : Nat → Nat) (L psE psD : Nat)
    (h0 : g (L + LEN_CHOICE) = L + LEN_CHOICE) (h1 : g (L + LEN_CHOICE2) = L + LEN_CHOICE2)
    (hlow : ∀ j, j < 8 → g (L + LEN_LOW + psE * LEN_LOW_SYMBOLS + j) = L + LEN_LOW + psD * LEN_LOW_SYMBOLS + j)
    (hmid : ∀ j, j < 8 → g (L + LEN_MID + psE * LEN_MID_SYMBOLS + j) = L + LEN_MID + psD * LEN_MID_SYMBOLS + j)
    (hhigh : ∀ j, j < 256 → g (L + LEN_HIGH + j) = L + LEN_HIGH + j)
    {s : St} {ps : Probs} {rc : Rc} {rest : List UInt8} {v : Nat} {ps' : Probs} {rc' : Rc} {rest' : List UInt8}
    (hv : View s ps rc rest) (h : ((pLen L psE).mapCtx g).runRc ps rc rest = some (v, ps', rc', rest')) :
    lenDecode L psD s = .ok v (rcSet s ps' rc' rest'.length) := by
  simp only [pLen, Prog.mapCtx, Prog.runRc] at h
  rw [h0] at h
  cases hd : decodeBitL rc (ps.getD (L + LEN_CHOICE) 0) rest with
  | none => rw [hd] at h; cases h
  | some r =>
    obtain ⟨c, rc1, p1, rest1⟩ := r
    rw [hd] at h
    obtain ⟨⟨pre, hpre⟩, hc⟩ := decodeBitL_suffix hd
    have hv1 := view_rcSet hv (ps.setIfInBounds (L + LEN_CHOICE) p1) rc1 hpre
    unfold lenDecode
    rw [bind_ok (rcBit_run hv hd)]
    have hc01 : c = 0 ∨ c = 1 := by omega
    rcases hc01 with rfl | rfl
    · simp only [show ((0 : Nat) == 1) = false from rfl, Bool.not_false, if_true] at h
      obtain ⟨m, ps2, rc2, rest2, hx, hret⟩ := Prog.runRc_bind_some g h
      simp only [Prog.mapCtx, Prog.runRc, Option.some.injEq, Prod.mk.injEq] at hret
      obtain ⟨rfl, rfl, rfl, rfl⟩ := hret
      simp only [show ((0 : Nat) == 0) = true from rfl, if_true]
      rw [bind_ok (bittree_run g _ _ 8 hlow 3 1 _ _ _ _ _ _ _ _ (by norm_num) hv1 hx)]
      rfl
    · simp only [show ((1 : Nat) == 1) = true from rfl, Bool.not_true, Bool.false_eq_true, if_false, Prog.mapCtx,
        Prog.runRc] at h
      rw [h1] at h
      cases hd2 : decodeBitL rc1 ((ps.setIfInBounds (L + LEN_CHOICE) p1).getD (L + LEN_CHOICE2) 0) rest1 with
      | none => rw [hd2] at h; cases h
      | some r2 =>
        obtain ⟨c2, rc2, p2, rest2⟩ := r2
        rw [hd2] at h
        obtain ⟨⟨pre2, hpre2⟩, hc2⟩ := decodeBitL_suffix hd2
        have hv2 := view_rcSet hv1 ((ps.setIfInBounds (L + LEN_CHOICE) p1).setIfInBounds (L + LEN_CHOICE2) p2) rc2 hpre2
        simp only [show ((1 : Nat) == 0) = false from rfl, Bool.false_eq_true, if_false]
        rw [bind_ok (rcBit_run hv1 hd2)]
        have hc01 : c2 = 0 ∨ c2 = 1 := by omega
        rcases hc01 with rfl | rfl
        · simp only [show ((0 : Nat) == 1) = false from rfl, Bool.not_false, if_true] at h
          obtain ⟨m, ps3, rc3, rest3, hx, hret⟩ := Prog.runRc_bind_some g h
          simp only [Prog.mapCtx, Prog.runRc, Option.some.injEq, Prod.mk.injEq] at hret
          obtain ⟨rfl, rfl, rfl, rfl⟩ := hret
          simp only [show ((0 : Nat) == 0) = true from rfl, if_true]
          rw [rcSet_rcSet] at hv2 ⊢
          rw [bind_ok (bittree_run g _ _ 8 hmid 3 1 _ _ _ _ _ _ _ _ (by norm_num) hv2 hx)]
          rfl
        · simp only [show ((1 : Nat) == 1) = true from rfl, Bool.not_true, Bool.false_eq_true, if_false] at h
          obtain ⟨m, ps3, rc3, rest3, hx, hret⟩ := Prog.runRc_bind_some g h
          simp only [Prog.mapCtx, Prog.runRc, Option.some.injEq, Prod.mk.injEq] at hret
          obtain ⟨rfl, rfl, rfl, rfl⟩ := hret
          simp only [show ((1 : Nat) == 0) = false from rfl, Bool.false_eq_true, if_false]
          rw [rcSet_rcSet] at hv2 ⊢
          rw [bind_ok (bittree_run g _ _ 256 hhigh 8 1 _ _ _ _ _ _ _ _ (by norm_num) hv2 hx)]
          rfl

/-! ### `rc_bittree_rev4` on `pos_align` -/

/-- one level down: the encoder's tree index and the decoder's `offset + symbol` stay related by `alignPerm` -/
theorem alignPerm_step (i m sym b : Nat) (hi : i ≤ 2) (hm1 : 2 ^ i ≤ m) (hm2 : m < 2 ^ (i + 1)) (hb : b ≤ 1)
    (h : alignPerm m = 2 ^ i + sym) : alignPerm (2 * m + b) = 2 ^ (i + 1) + (sym + b * 2 ^ i) := by
  have hb' : b = 0 ∨ b = 1 := by omega
  interval_cases i <;> simp only [Nat.reducePow, Nat.reduceAdd] at hm1 hm2 h ⊢ <;> interval_cases m <;>
    rcases hb' with rfl | rfl <;> simp only [alignPerm, List.getD_cons_zero, List.getD_cons_succ] at h ⊢ <;> omega

theorem revAlign_run (g : Nat → Nat) (hA : ∀ m, m < 16 → g (P_POS_ALIGN + m) = P_POS_ALIGN + alignPerm m) :
    ∀ (n i m sym acc : Nat) (s : St) (ps : Probs) (rc : Rc) (rest : List UInt8) (v : Nat) (ps' : Probs) (rc' : Rc)
      (rest' : List UInt8), i + n = 4 → (n = 0 ∨ (alignPerm m = 2 ^ i + sym ∧ 2 ^ i ≤ m ∧ m < 2 ^ (i + 1))) →
      View s ps rc rest →
      ((pBittreeRev P_POS_ALIGN n m i acc).mapCtx g).runRc ps rc rest = some (v, ps', rc', rest') →
      ∃ a, a < 2 ^ 4 ∧ a % 2 ^ i = 0 ∧ v = acc + a ∧ revAlign n sym (2 ^ i) s = .ok (sym + a) (rcSet s ps' rc' rest'.length)
  | 0, i, m, sym, acc, s, ps, rc, rest, v, ps', rc', rest', _, _, hv, h => by
    simp only [pBittreeRev, Prog.mapCtx, Prog.runRc, Option.some.injEq, Prod.mk.injEq] at h
    obtain ⟨rfl, rfl, rfl, rfl⟩ := h
    refine ⟨0, by norm_num, by simp, rfl, ?_⟩
    rw [rcSet_self hv]; rfl
  | n + 1, i, m, sym, acc, s, ps, rc, rest, v, ps', rc', rest', hin, hrel, hv, h => by
    have hi3 : i ≤ 3 := by omega
    obtain ⟨hal, hm1, hm2⟩ := hrel.resolve_left (by omega)
    have hm16 : m < 16 := by
      have : 2 ^ (i + 1) ≤ 2 ^ 4 := Nat.pow_le_pow_right (by norm_num) (by omega)
      omega
    simp only [pBittreeRev, Prog.mapCtx, Prog.runRc] at h
    rw [hA m hm16, hal] at h
    cases hd : decodeBitL rc (ps.getD (P_POS_ALIGN + (2 ^ i + sym)) 0) rest with
    | none => rw [hd] at h; cases h
    | some r =>
      obtain ⟨b, rc1, p1, rest1⟩ := r
      rw [hd] at h
      obtain ⟨⟨pre, hpre⟩, hb⟩ := decodeBitL_suffix hd
      simp only [] at h
      rw [b2n_le hb] at h
      have hv1 := view_rcSet hv (ps.setIfInBounds (P_POS_ALIGN + (2 ^ i + sym)) p1) rc1 hpre
      have hrel' : n = 0 ∨ (alignPerm (2 * m + b) = 2 ^ (i + 1) + (sym + b * 2 ^ i) ∧ 2 ^ (i + 1) ≤ 2 * m + b ∧
          2 * m + b < 2 ^ (i + 1 + 1)) := by
        by_cases hn : n = 0
        · exact Or.inl hn
        · right
          refine ⟨alignPerm_step i m sym b (by omega) hm1 hm2 hb hal, ?_, ?_⟩
          · rw [pow_succ]; omega
          · rw [pow_succ 2 (i + 1)]; omega
      obtain ⟨a, ha1, ha2, ha3, hrun⟩ := revAlign_run g hA n (i + 1) (2 * m + b) (sym + b * 2 ^ i) _ _ _ _ _ v ps' rc' rest'
        (by omega) hrel' hv1 h
      have hp : 0 < 2 ^ i := Nat.pow_pos (by norm_num)
      refine ⟨b * 2 ^ i + a, ?_, ?_, ?_, ?_⟩
      · -- b·2^i + a < 16 since a is a multiple of 2^(i+1) below 16
        have h16 : (2 : Nat) ^ 4 = 2 ^ (i + 1) * 2 ^ (3 - i) := by
          rw [← pow_add]; congr 1; omega
        obtain ⟨q, hq⟩ : ∃ q, a = 2 ^ (i + 1) * q := ⟨a / 2 ^ (i + 1), by
          have := Nat.div_add_mod a (2 ^ (i + 1)); omega⟩
        have hq3 : q < 2 ^ (3 - i) := by
          by_contra hc
          have : 2 ^ (i + 1) * 2 ^ (3 - i) ≤ 2 ^ (i + 1) * q := Nat.mul_le_mul_left _ (by omega)
          omega
        have hstep : 2 ^ (i + 1) * (q + 1) ≤ 2 ^ (i + 1) * 2 ^ (3 - i) := Nat.mul_le_mul_left _ (by omega)
        have e2 : (2 : Nat) ^ (i + 1) = 2 * 2 ^ i := by rw [pow_succ]; ring
        rw [h16]
        have : b * 2 ^ i ≤ 2 ^ i := by nlinarith
        rw [hq]
        nlinarith
      · have e2 : (2 : Nat) ^ (i + 1) = 2 ^ i * 2 := pow_succ 2 i
        have : a % 2 ^ i = 0 := by
          rw [e2] at ha2
          exact Nat.mod_eq_zero_of_dvd (Dvd.dvd.trans (Dvd.intro _ rfl) (Nat.dvd_of_mod_eq_zero ha2))
        rw [Nat.add_mod, this, Nat.mul_mod_left]; simp
      · rw [ha3]; ring
      · unfold revAlign
        have ectx : P_POS_ALIGN + 2 ^ i + sym = P_POS_ALIGN + (2 ^ i + sym) := by omega
        rw [ectx, bind_ok (rcBit_run hv hd)]
        have e2 : 2 ^ i * 2 = 2 ^ (i + 1) := (pow_succ 2 i).symm
        rw [e2, hrun, rcSet_rcSet]
        congr 1; omega

/-! ### the distance of a simple match -/

theorem slot_bits (slot : Nat) : slot >>> 1 = slot / 2 ∧ slot &&& 1 = slot % 2 := by
  constructor
  · rw [Nat.shiftRight_eq_div_pow]
  · exact Nat.and_one_is_mod _

theorem distDecode_run (g : Nat → Nat) (len : Nat)
    (hid : ∀ c, 432 ≤ c → c < 802 → g c = c)
    (hA : ∀ m, m < 16 → g (P_POS_ALIGN + m) = P_POS_ALIGN + alignPerm m)
    {s : St} {ps : Probs} {rc : Rc} {rest : List UInt8} {v : Nat} {ps' : Probs} {rc' : Rc} {rest' : List UInt8}
    (hv : View s ps rc rest) (h : ((pDist len).mapCtx g).runRc ps rc rest = some (v, ps', rc', rest')) :
    distDecode len s = .ok v (rcSet s ps' rc' rest'.length) ∧ v < U32 := by
  unfold pDist at h
  obtain ⟨m, ps1, rc1, rest1, hx, hk⟩ := Prog.runRc_bind_some g h
  have hds := getDistState_lt len
  have hslotblock : ∀ j, j < 64 → g (P_DIST_SLOT + getDistState len * DIST_SLOTS + j)
      = P_DIST_SLOT + getDistState len * DIST_SLOTS + j := by
    intro j hj
    exact hid _ (by simp only [P_DIST_SLOT, DIST_SLOTS]; omega) (by simp only [P_DIST_SLOT, DIST_SLOTS]; omega)
  obtain ⟨hm1, hm2⟩ := pBittree_range g _ 6 1 _ _ _ _ _ _ _ hx
  norm_num at hm1 hm2
  obtain ⟨pre, hpre⟩ := Prog.runRc_suffix _ _ _ _ _ _ _ _ hx
  have hv1 := view_rcSet hv ps1 rc1 hpre
  unfold distDecode
  rw [bind_ok (bittree_run g _ _ 64 hslotblock 6 1 _ _ _ _ _ _ _ _ (by norm_num) hv hx)]
  simp only [DIST_SLOTS, DIST_MODEL_START, DIST_MODEL_END, ALIGN_BITS] at hk ⊢
  obtain ⟨e1, e2⟩ := slot_bits (m - 64)
  by_cases h4 : m - 64 < 4
  · simp only [h4, if_true, Prog.mapCtx, Prog.runRc, Option.some.injEq, Prod.mk.injEq] at hk ⊢
    obtain ⟨rfl, rfl, rfl, rfl⟩ := hk
    exact ⟨rfl, by simp only [U32]; omega⟩
  · simp only [h4, if_false] at hk ⊢
    rw [e1, e2, Nat.shiftLeft_eq]
    by_cases h14 : m - 64 < 14
    · simp only [h14, if_true] at hk ⊢
      -- reverse bittree inside pos_special
      have hfb : (m - 64) / 2 - 1 ≤ 5 := by omega
      have hblock : ∀ j, j < 2 ^ ((m - 64) / 2 - 1) →
          g (P_POS_SPECIAL + (2 + (m - 64) % 2) * 2 ^ ((m - 64) / 2 - 1) - (m - 64) - 1 + j)
            = P_POS_SPECIAL + (2 + (m - 64) % 2) * 2 ^ ((m - 64) / 2 - 1) - (m - 64) - 1 + j := by
        intro j hj
        have hslot : m - 64 < 14 := h14
        generalize m - 64 = slot at *
        have : 4 ≤ slot := by omega
        apply hid <;> simp only [P_POS_SPECIAL] <;> interval_cases slot <;> simp at hj ⊢ <;> omega
      obtain ⟨hr1, hr2⟩ : (2 + (m - 64) % 2) * 2 ^ ((m - 64) / 2 - 1) ≤ v ∧ v < U32 := by
        have := pBittreeRev_acc_range g _ ((m - 64) / 2 - 1) 1 0 _ _ _ _ _ _ _ _ hk
        have hp : 2 ^ ((m - 64) / 2 - 1) ≤ 2 ^ 5 := Nat.pow_le_pow_right (by norm_num) hfb
        simp only [U32]
        constructor
        · exact this.1
        · have h2 := this.2
          simp only [Nat.pow_zero, Nat.one_mul] at h2
          have : (2 + (m - 64) % 2) ≤ 3 := by omega
          nlinarith
      refine ⟨?_, hr2⟩
      rw [revBittree_run g _ _ _ hblock _ 1 0 _ _ _ _ _ _ _ _ _ (by omega) hv1 hk, rcSet_rcSet]
    · simp only [h14, if_false] at hk ⊢
      have hslot64 : m - 64 < 64 := by omega
      have hfb1 : 6 ≤ (m - 64) / 2 - 1 := by omega
      have hfb2 : (m - 64) / 2 - 1 ≤ 30 := by omega
      obtain ⟨d, ps2, rc2, rest2, hxd, hk2⟩ := Prog.runRc_bind_some g hk
      rw [pDirectBits_mapCtx] at hxd
      obtain ⟨pre2, hpre2⟩ := Prog.runRc_suffix _ _ _ _ _ _ _ _ hxd
      have hv2 := view_rcSet hv1 ps2 rc2 hpre2
      have hd2 : d < 2 ^ ((m - 64) / 2 - 1 - 4) := by
        have := (pDirectBits_range _ _ _ _ _ _ _ _ _ hxd).2
        simpa using this
      -- the executable accumulator starts at 2 + (slot & 1)
      have hxd' : ((pDirectBits ((m - 64) / 2 - 1 - 4) (2 + (m - 64) % 2)).mapCtx g).runRc ps1 rc1 rest1
          = some ((2 + (m - 64) % 2) * 2 ^ ((m - 64) / 2 - 1 - 4) + d, ps2, rc2, rest2) := by
        rw [pDirectBits_mapCtx, pDirectBits_shift, hxd]; rfl
      have hpow : 2 ^ ((m - 64) / 2 - 1 - 4) ≤ 2 ^ 26 := Nat.pow_le_pow_right (by norm_num) (by omega)
      have hbnd : (2 + (m - 64) % 2 + 1) * 2 ^ ((m - 64) / 2 - 1 - 4) ≤ U32 := by
        simp only [U32]
        have : 2 + (m - 64) % 2 + 1 ≤ 4 := by omega
        nlinarith
      rw [bind_ok (rcDirect_run g _ _ _ _ _ _ _ _ _ _ hv1 hbnd hxd'), rcSet_rcSet] at *
      obtain ⟨a, ha1, _, ha3, hrun⟩ := revAlign_run g hA 4 0 1 0 _ _ _ _ _ _ _ _ _ (by norm_num)
        (Or.inr ⟨by decide, by norm_num, by norm_num⟩) hv2 hk2
      norm_num at ha1
      rw [Nat.pow_zero] at hrun
      rw [bind_ok hrun, rcSet_rcSet]
      -- the arithmetic: no 32-bit wrap
      have esplit : 2 ^ ((m - 64) / 2 - 1) = 2 ^ ((m - 64) / 2 - 1 - 4) * 16 := by
        have : (m - 64) / 2 - 1 = ((m - 64) / 2 - 1 - 4) + 4 := by omega
        rw [this, pow_add]; norm_num
      generalize hP : 2 ^ ((m - 64) / 2 - 1 - 4) = P at *
      generalize hq : (m - 64) % 2 = q at *
      have hq1 : q ≤ 1 := by omega
      have hP0 : 0 < P := by rw [← hP]; exact Nat.pow_pos (by norm_num)
      have hbig : ((2 + q) * P + d) * 16 + 16 ≤ 4294967296 := by
        have : (2 + q) * P + d + 1 ≤ (2 + q + 1) * P := by nlinarith
        simp only [U32] at hbnd
        nlinarith
      have e3 : (((2 + q) * P + d) <<< 4) % U32 = ((2 + q) * P + d) * 16 := by
        rw [Nat.shiftLeft_eq, Nat.mod_eq_of_lt]
        simp only [U32]; omega
      have e4 : (((2 + q) * P + d) * 16 + (0 + a)) % U32 = ((2 + q) * P + d) * 16 + a := by
        rw [Nat.mod_eq_of_lt]; omega
        simp only [U32]; omega
      refine ⟨?_, ?_⟩
      · rw [pure_run, e3, e4, ha3, esplit]
        congr 2; ring
      · rw [ha3, esplit]; simp only [U32]; nlinarith

end XzVerif.LzmaExec
