/-
  LiveInv: preservation by the simple main-thread transitions (those that write neither worker fields nor the queue).
-/
import XzVerif.Lemmas.MtDecLive2a

namespace XzVerif.MtDec

def Label.liveSimple : Label → Bool
  | .rowIter _ | .assign | .enablePartial | .stopOne | .endSet | .endJoin | .getThread | .startThr | .tell | .rowOk | .hdrGot | .blockInit => false
  | _ => true

def Label.liveSimpleB1 : Label → Bool
  | .rowDone | .memUpdate | .seqError => true
  | _ => false

theorem LiveInv.mainSimpleB1 {s s' : State} {l : Label} (h : LiveInv s) (hI : Inv s)
    (hsimple : l.liveSimpleB1 = true) (hs : step s l = some s') : LiveInv s' := by
  have l10 := h.thr0
  have l11 := h.kindThr
  have l12 := h.kindInit
  have l13 := h.thrSome
  have l14 := h.canGet
  have l13a := h.thr5
  obtain ⟨c1, c2, c3, c4, c5, c6, c6a, c6b, c7, c8, c9, c10⟩ := hI.2
  cases l <;> simp only [Label.liveSimpleB1, reduceCtorEq] at hsimple <;> simp only [step] at hs
  all_goals (repeat' split at hs)
  all_goals first | (cases hs; done) | skip
  all_goals (cases hs)
  all_goals (refine h.frame rfl rfl rfl ?_ ?_ ?_ ?_ ?_ ?_ ?_ ?_ <;> first
    | (intros; simp_all [rowKOf, seqOfRowK, blk]; done)
    | (intro hx; simp_all [rowKOf, seqOfRowK, blk]; done))

def Label.liveSimpleB2 : Label → Bool
  | .copyIn .. => true
  | _ => false

theorem LiveInv.mainSimpleB2 {s s' : State} {l : Label} (h : LiveInv s) (hI : Inv s)
    (hsimple : l.liveSimpleB2 = true) (hs : step s l = some s') : LiveInv s' := by
  have l10 := h.thr0
  have l11 := h.kindThr
  have l12 := h.kindInit
  have l13 := h.thrSome
  have l14 := h.canGet
  have l13a := h.thr5
  obtain ⟨c1, c2, c3, c4, c5, c6, c6a, c6b, c7, c8, c9, c10⟩ := hI.2
  cases l <;> simp only [Label.liveSimpleB2, reduceCtorEq] at hsimple <;> simp only [step] at hs
  all_goals (repeat' split at hs)
  all_goals first | (cases hs; done) | skip
  all_goals (cases hs)
  all_goals (refine h.frame rfl rfl rfl ?_ ?_ ?_ ?_ ?_ ?_ ?_ ?_ <;> first
    | (intros; simp_all [rowKOf, seqOfRowK, blk]; done)
    | (intro hx; simp_all [rowKOf, seqOfRowK, blk]; done))

def Label.liveSimpleB3 : Label → Bool
  | .directStep .. => true
  | _ => false

theorem LiveInv.mainSimpleB3 {s s' : State} {l : Label} (h : LiveInv s) (hI : Inv s)
    (hsimple : l.liveSimpleB3 = true) (hs : step s l = some s') : LiveInv s' := by
  have l10 := h.thr0
  have l11 := h.kindThr
  have l12 := h.kindInit
  have l13 := h.thrSome
  have l14 := h.canGet
  have l13a := h.thr5
  obtain ⟨c1, c2, c3, c4, c5, c6, c6a, c6b, c7, c8, c9, c10⟩ := hI.2
  cases l <;> simp only [Label.liveSimpleB3, reduceCtorEq] at hsimple <;> simp only [step] at hs
  all_goals (repeat' split at hs)
  all_goals first | (cases hs; done) | skip
  all_goals (cases hs)
  all_goals (refine h.frame rfl rfl rfl ?_ ?_ ?_ ?_ ?_ ?_ ?_ ?_ <;> first
    | (intros; simp_all [rowKOf, seqOfRowK, blk]; done)
    | (intro hx; simp_all [rowKOf, seqOfRowK, blk]; done))

def Label.liveSimpleB4 : Label → Bool
  | .indexStep _ => true
  | _ => false

theorem LiveInv.mainSimpleB4 {s s' : State} {l : Label} (h : LiveInv s) (hI : Inv s)
    (hsimple : l.liveSimpleB4 = true) (hs : step s l = some s') : LiveInv s' := by
  have l10 := h.thr0
  have l11 := h.kindThr
  have l12 := h.kindInit
  have l13 := h.thrSome
  have l14 := h.canGet
  have l13a := h.thr5
  obtain ⟨c1, c2, c3, c4, c5, c6, c6a, c6b, c7, c8, c9, c10⟩ := hI.2
  cases l <;> simp only [Label.liveSimpleB4, reduceCtorEq] at hsimple <;> simp only [step] at hs
  all_goals (repeat' split at hs)
  all_goals first | (cases hs; done) | skip
  all_goals (cases hs)
  all_goals (refine h.frame rfl rfl rfl ?_ ?_ ?_ ?_ ?_ ?_ ?_ ?_ <;> first
    | (intros; simp_all [rowKOf, seqOfRowK, blk]; done)
    | (intro hx; simp_all [rowKOf, seqOfRowK, blk]; done))

theorem LiveInv.mainSimple {s s' : State} {l : Label} (h : LiveInv s) (hI : Inv s) (hl : l.worker? = none)
    (hsimple : l.liveSimple = true) (hs : step s l = some s') : LiveInv s' := by
  by_cases h1 : l.liveSimpleA1 = true
  · exact h.mainSimpleA1 hI h1 hs
  by_cases h2 : l.liveSimpleA2 = true
  · exact h.mainSimpleA2 hI h2 hs
  by_cases h3 : l.liveSimpleB1 = true
  · exact h.mainSimpleB1 hI h3 hs
  by_cases h4 : l.liveSimpleB2 = true
  · exact h.mainSimpleB2 hI h4 hs
  by_cases h5 : l.liveSimpleB3 = true
  · exact h.mainSimpleB3 hI h5 hs
  refine h.mainSimpleB4 hI ?_ hs
  cases l <;> simp_all [Label.liveSimple, Label.liveSimpleA1, Label.liveSimpleA2, Label.liveSimpleB1, Label.liveSimpleB2,
    Label.liveSimpleB3, Label.liveSimpleB4, Label.worker?]

theorem LiveInv.hdrGot {s s' : State} (h : LiveInv s) (hI : Inv s) (hs : step s .hdrGot = some s') : LiveInv s' := by
  have c6a := hI.2.thrSeq
  simp only [step] at hs
  split at hs
  case isFalse => cases hs
  rename_i hg
  simp only [Bool.and_eq_true, decide_eq_true_eq] at hg
  obtain ⟨⟨hpc, hseq⟩, hcur⟩ := hg
  cases hk : (blk s s.cur).kind <;> simp only [hk] at hs <;> cases hs <;>
    (refine h.frame rfl rfl rfl ?_ ?_ ?_ ?_ ?_ ?_ ?_ ?_ <;> first
      | (intros; simp_all [rowKOf, seqOfRowK, blk]; done)
      | (intro hx; simp_all [rowKOf, seqOfRowK, blk]; done))

theorem LiveInv.blockInit {s s' : State} (h : LiveInv s) (hI : Inv s) (hs : step s .blockInit = some s') : LiveInv s' := by
  have c6a := hI.2.thrSeq
  simp only [step] at hs
  split at hs
  case isFalse => cases hs
  rename_i hg
  simp only [Bool.and_eq_true, decide_eq_true_eq] at hg
  obtain ⟨hpc, hseq⟩ := hg
  have hthr : s.thr = none := by
    cases ht : s.thr with
    | none => rfl
    | some t => have := c6a t ht; rw [hseq] at this; simp at this
  cases hk : (blk s s.cur).kind <;> simp only [hk] at hs <;> cases hs <;>
    (refine h.frame rfl rfl rfl ?_ ?_ ?_ ?_ ?_ ?_ ?_ ?_ <;> first
      | (intros; simp_all [rowKOf, seqOfRowK, blk]; done)
      | (intro hx; simp_all [rowKOf, seqOfRowK, blk]; done))

theorem LiveInv.rowOk {s s' : State} (h : LiveInv s) (hI : Inv s) (hs : step s .rowOk = some s') : LiveInv s' := by
  have l10 := h.thr0
  have l11 := h.kindThr
  have l12 := h.kindInit
  have l13 := h.thrSome
  have l14 := h.canGet
  have l13a := h.thr5
  obtain ⟨c1, c2, c3, c4, c5, c6, c6a, c6b, c7, c8, c9, c10⟩ := hI.2
  simp only [step] at hs
  split at hs
  case h_3 =>
    -- SEQ_BLOCK_THR_RUN: the Block may be complete, then coder->thr is cleared
    rename_i cs hpc
    have hseq : s.seq = .thrRun := c5 .thrRun (by rw [hpc]; rfl)
    split at hs
    · cases hs
      refine h.frame rfl rfl rfl ?_ ?_ ?_ ?_ ?_ ?_ ?_ ?_ <;> first
        | (intros; simp_all [rowKOf, seqOfRowK, blk]; done)
        | (intro hx; simp_all [rowKOf, seqOfRowK, blk]; done)
    · split at hs
      · rename_i t ht
        split at hs
        · cases hs
          refine h.frame rfl rfl rfl ?_ ?_ ?_ ?_ ?_ ?_ ?_ ?_ <;> first
            | (intros; simp_all [rowKOf, seqOfRowK, blk]; done)
            | (intro hx; simp_all [rowKOf, seqOfRowK, blk]; done)
        · rename_i hfl
          cases hs
          have htl : t < s.workers.length := c6 (by rw [hpc]; simp) t ht
          refine h.frameThr rfl rfl ?_ ?_ ?_ ?_ ?_ ?_ ?_ ?_ ?_
          · intro i hi ho _
            by_cases e : s.thr = some i
            · have : i = t := by rw [ht] at e; injection e with e; exact e.symm
              subst this
              have := (hI.1.wk i hi).fillLe
              omega
            · exact h.full i hi ho e
          all_goals first
            | (intros; simp_all [rowKOf, seqOfRowK, blk]; done)
            | (intro hx; simp_all [rowKOf, seqOfRowK, blk]; done)
      · cases hs
  all_goals (repeat' split at hs)
  all_goals first | (cases hs; done) | skip
  all_goals (cases hs)
  all_goals (refine h.frame rfl rfl rfl ?_ ?_ ?_ ?_ ?_ ?_ ?_ ?_ <;> first
    | (intros; simp_all [rowKOf, seqOfRowK, blk]; done)
    | (intro hx; simp_all [rowKOf, seqOfRowK, blk]; done))

end XzVerif.MtDec
