/-
  LiveInv: preservation by the simple main-thread transitions (those that write neither worker fields nor the queue).
-/
import XzVerif.Lemmas.MtDecLive

namespace XzVerif.MtDec

/-- Frame: queue, workers and coder->thr unchanged. -/
theorem LiveInv.frameThr {s s' : State} (h : LiveInv s) (eq : s'.queue = s.queue) (ew : s'.workers = s.workers)
    (hfull : ∀ i, i < s.workers.length → (getW s i).hasOut = true → s'.thr ≠ some i → (getW s i).inFilled = (getW s i).inSize)
    (hp4 : ∀ i, (s.pc = .init4 ∧ s.thr = some i) → (s'.pc = .init4 ∧ s'.thr = some i)) (hp45 : (s.pc = .init4 ∨ s.pc = .init5) → (s'.pc = .init4 ∨ s'.pc = .init5))
    (h10 : s'.seq = .thrInit → (s'.pc = .init3 ∨ s'.pc = .init4 ∨ s'.pc = .init5) ∨ s'.thr = none)
    (h11 : s'.seq = .thrInit → (blk s' s'.cur).kind = .thr ∨ s'.pc = .init4 ∨ s'.pc = .init5)
    (h12 : s'.seq = .blockInit → (blk s' s'.cur).kind = .thr ∨ (blk s' s'.cur).kind = .direct)
    (h13 : s'.seq = .thrRun → ∃ t, s'.thr = some t)
    (h13a : s'.pc = .init5 → ∃ t, s'.thr = some t)
    (h14 : (s'.pc = .init1 ∨ s'.pc = .init2 ∨ s'.pc = .rowOk .canStart true ∨ s'.pc = .rowDone .canStart OK true) →
      s'.workers.length < s'.cfg.threadsMax ∨ s'.threadsFree ≠ []) : LiveInv s' := by
  have eg : ∀ j, getW s' j = getW s j := fun j => by simp [getW, ew]
  have eo : ∀ o i, Owner s' o i ↔ Owner s o i := fun o i => by simp [Owner, ew, eg]
  refine ⟨?_, ?_, ?_, ?_, ?_, ?_, ?_, ?_, ?_, h10, h11, h12, h13, h13a, h14⟩
  · intro o ho hf
    obtain ⟨i, hi⟩ := h.own o (eq ▸ ho) hf
    exact ⟨i, (eo o i).mpr hi⟩
  · intro i hi ho hl
    rw [ew] at hi; rw [eg] at ho hl ⊢
    rcases h.run i hi ho hl with e | e
    · exact Or.inl e
    · exact Or.inr (hp4 i e)
  · intro o ho w hw hf
    exact (eo o w).mpr (h.wrk o (eq ▸ ho) w hw hf)
  · intro hh t hq; rw [eq] at hq; exact h.tailW hh t hq
  · intro hh t hq hf
    rw [eq] at hq
    rcases h.head hh t hq hf with ⟨a, b⟩ | ⟨a, b, c⟩
    · exact Or.inl ⟨a, fun i hi => by rw [eg]; exact b i ((eo hh i).mp hi)⟩
    · exact Or.inr ⟨a, hp45 b, c⟩
  · intro i hi ho hl hpu o hoq hb
    rw [ew] at hi; rw [eg] at ho hl hpu hb ⊢
    exact h.pub i hi ho hl hpu o (eq ▸ hoq) hb
  · intro i hi lim hpc
    rw [ew] at hi; rw [eg] at hpc ⊢
    exact h.snap i hi lim hpc
  · intro i hi ho ht
    rw [ew] at hi; rw [eg] at ho ⊢
    exact hfull i hi ho ht
  · intro i hi ho hb
    rw [ew] at hi; rw [eg] at ho hb ⊢
    exact h.pos i hi ho hb

theorem LiveInv.frame {s s' : State} (h : LiveInv s) (eq : s'.queue = s.queue) (ew : s'.workers = s.workers)
    (et : s'.thr = s.thr)
    (hp4 : ∀ i, (s.pc = .init4 ∧ s.thr = some i) → (s'.pc = .init4 ∧ s'.thr = some i)) (hp45 : (s.pc = .init4 ∨ s.pc = .init5) → (s'.pc = .init4 ∨ s'.pc = .init5))
    (h10 : s'.seq = .thrInit → (s'.pc = .init3 ∨ s'.pc = .init4 ∨ s'.pc = .init5) ∨ s'.thr = none)
    (h11 : s'.seq = .thrInit → (blk s' s'.cur).kind = .thr ∨ s'.pc = .init4 ∨ s'.pc = .init5)
    (h12 : s'.seq = .blockInit → (blk s' s'.cur).kind = .thr ∨ (blk s' s'.cur).kind = .direct)
    (h13 : s'.seq = .thrRun → ∃ t, s'.thr = some t)
    (h13a : s'.pc = .init5 → ∃ t, s'.thr = some t)
    (h14 : (s'.pc = .init1 ∨ s'.pc = .init2 ∨ s'.pc = .rowOk .canStart true ∨ s'.pc = .rowDone .canStart OK true) →
      s'.workers.length < s'.cfg.threadsMax ∨ s'.threadsFree ≠ []) : LiveInv s' :=
  h.frameThr eq ew (fun i hi ho ht => h.full i hi ho (et ▸ ht)) hp4 hp45 h10 h11 h12 h13 h13a h14

def Label.liveSimple : Label → Bool
  | .rowIter _ | .assign | .enablePartial | .stopOne | .endSet | .endJoin | .getThread | .startThr | .tell | .rowOk | .hdrGot | .blockInit => false
  | _ => true

set_option maxHeartbeats 800000 in
theorem LiveInv.mainSimple {s s' : State} {l : Label} (h : LiveInv s) (hI : Inv s) (hl : l.worker? = none)
    (hsimple : l.liveSimple = true) (hs : step s l = some s') : LiveInv s' := by
  have l10 := h.thr0
  have l11 := h.kindThr
  have l12 := h.kindInit
  have l13 := h.thrSome
  have l14 := h.canGet
  have l13a := h.thr5
  obtain ⟨c1, c2, c3, c4, c5, c6, c6a, c6b, c7, c8, c9, c10⟩ := hI.2
  cases l <;> simp only [Label.worker?, reduceCtorEq] at hl <;> simp only [Label.liveSimple, reduceCtorEq] at hsimple <;>
    simp only [step] at hs
  all_goals (repeat' split at hs)
  all_goals first | (cases hs; done) | skip
  all_goals (cases hs)
  all_goals (refine h.frame rfl rfl rfl ?_ ?_ ?_ ?_ ?_ ?_ ?_ ?_ <;> first
    | (intros; simp_all [rowKOf, seqOfRowK, blk]; done)
    | (intro hx; simp_all [rowKOf, seqOfRowK, blk]; done))

theorem LiveInv.hdrGot {s s' : State} (h : LiveInv s) (hI : Inv s) (hs : step s .hdrGot = some s') : LiveInv s' := by
  have c6a := hI.2.thrSeq
  simp only [step] at hs
  split at hs
  case isFalse => cases hs
  rename_i hg
  simp only [Bool.and_eq_true, decide_eq_true_eq] at hg
  obtain ⟨⟨hpc, hseq⟩, hcur⟩ := hg
  cases hk : (blk s s.cur).kind <;> simp only [hk] at hs <;> cases hs <;>
    (refine h.frame rfl rfl rfl ?_ ?_ ?_ ?_ ?_ ?_ ?_ ?_ <;> first
      | (intros; simp_all [rowKOf, seqOfRowK, blk]; done)
      | (intro hx; simp_all [rowKOf, seqOfRowK, blk]; done))

theorem LiveInv.blockInit {s s' : State} (h : LiveInv s) (hI : Inv s) (hs : step s .blockInit = some s') : LiveInv s' := by
  have c6a := hI.2.thrSeq
  simp only [step] at hs
  split at hs
  case isFalse => cases hs
  rename_i hg
  simp only [Bool.and_eq_true, decide_eq_true_eq] at hg
  obtain ⟨hpc, hseq⟩ := hg
  have hthr : s.thr = none := by
    cases ht : s.thr with
    | none => rfl
    | some t => have := c6a t ht; rw [hseq] at this; simp at this
  cases hk : (blk s s.cur).kind <;> simp only [hk] at hs <;> cases hs <;>
    (refine h.frame rfl rfl rfl ?_ ?_ ?_ ?_ ?_ ?_ ?_ ?_ <;> first
      | (intros; simp_all [rowKOf, seqOfRowK, blk]; done)
      | (intro hx; simp_all [rowKOf, seqOfRowK, blk]; done))

theorem LiveInv.rowOk {s s' : State} (h : LiveInv s) (hI : Inv s) (hs : step s .rowOk = some s') : LiveInv s' := by
  have l10 := h.thr0
  have l11 := h.kindThr
  have l12 := h.kindInit
  have l13 := h.thrSome
  have l14 := h.canGet
  have l13a := h.thr5
  obtain ⟨c1, c2, c3, c4, c5, c6, c6a, c6b, c7, c8, c9, c10⟩ := hI.2
  simp only [step] at hs
  split at hs
  case h_3 =>
    -- SEQ_BLOCK_THR_RUN: the Block may be complete, then coder->thr is cleared
    rename_i cs hpc
    have hseq : s.seq = .thrRun := c5 .thrRun (by rw [hpc]; rfl)
    split at hs
    · cases hs
      refine h.frame rfl rfl rfl ?_ ?_ ?_ ?_ ?_ ?_ ?_ ?_ <;> first
        | (intros; simp_all [rowKOf, seqOfRowK, blk]; done)
        | (intro hx; simp_all [rowKOf, seqOfRowK, blk]; done)
    · split at hs
      · rename_i t ht
        split at hs
        · cases hs
          refine h.frame rfl rfl rfl ?_ ?_ ?_ ?_ ?_ ?_ ?_ ?_ <;> first
            | (intros; simp_all [rowKOf, seqOfRowK, blk]; done)
            | (intro hx; simp_all [rowKOf, seqOfRowK, blk]; done)
        · rename_i hfl
          cases hs
          have htl : t < s.workers.length := c6 (by rw [hpc]; simp) t ht
          refine h.frameThr rfl rfl ?_ ?_ ?_ ?_ ?_ ?_ ?_ ?_ ?_
          · intro i hi ho _
            by_cases e : s.thr = some i
            · have : i = t := by rw [ht] at e; injection e with e; exact e.symm
              subst this
              have := (hI.1.wk i hi).fillLe
              omega
            · exact h.full i hi ho e
          all_goals first
            | (intros; simp_all [rowKOf, seqOfRowK, blk]; done)
            | (intro hx; simp_all [rowKOf, seqOfRowK, blk]; done)
      · cases hs
  all_goals (repeat' split at hs)
  all_goals first | (cases hs; done) | skip
  all_goals (cases hs)
  all_goals (refine h.frame rfl rfl rfl ?_ ?_ ?_ ?_ ?_ ?_ ?_ ?_ <;> first
    | (intros; simp_all [rowKOf, seqOfRowK, blk]; done)
    | (intro hx; simp_all [rowKOf, seqOfRowK, blk]; done))

end XzVerif.MtDec
