/-
  C08 helper lemmas, part J: the abstract Block encoder `Params.enc` of the threaded-encoder LTS instantiated with the
  container model of `worker_encode` (`XzEncode.blockEncodeMT`, incl. the uncompressed fall-back) over an encoder
  environment `E`, and the link lemma: what the LTS has written when LZMA_FINISH returned LZMA_STREAM_END is exactly
  `XzEncode.streamEncodeMT E cfg blockSize pieces` for the pieces = the delivered Blocks (whenever that model returns LZMA_OK).
-/
import XzVerif.Lemmas.MtEncI
import XzVerif.Model.XzEncode

namespace XzVerif.MtEnc
open XzVerif XzVerif.Container XzVerif.XzEncode

/-- `Params` for a Stream with Check `check`, ONE filter chain `fs` for all Blocks (lzma_filters_update is not used, or re-installs
    the same chain) and block size `bs`, over the encoder environment `E`. Where a piece of the container model reports an error
    the parameter is the empty string / 0; the theorems assume that the container model returns LZMA_OK (`henc`). -/
def encParams (E : EncEnv) (check : Nat) (fs : List FilterOpts) (bs : Nat) : Params where
  hdr := match streamHeaderEncode { check := check } with | .ok h => h | .error _ => []
  enc := fun _ _ d => match blockEncodeMT E check fs bs d with | .ok b => b.bytes | .error _ => []
  unpadded := fun _ _ d => match blockEncodeMT E check fs bs d with | .ok b => b.unpadded | .error _ => 0
  tailBytes := fun recs => match streamTail check (recs.map fun r => ⟨r.1, r.2⟩) with | .ok t => t | .error _ => []
  alloc := blockBufferBound64 bs

theorem chunksOf_single (n : Nat) (d : List UInt8) (h1 : 0 < d.length) (h2 : d.length ≤ n) : chunksOf n d.length d = [d] := by
  cases hd : d.length with
  | zero => omega
  | succ k =>
    have hne : d.isEmpty = false := by cases d with | nil => simp at h1 | cons _ _ => rfl
    simp only [chunksOf, hne, Bool.false_eq_true, if_false]
    rw [List.take_of_length_le h2, List.drop_of_length_le h2]
    cases k <;> simp [chunksOf]

theorem flatMap_chunksOf (n : Nat) : ∀ (ds : List (List UInt8)), (∀ d ∈ ds, 0 < d.length ∧ d.length ≤ n) →
    (ds.flatMap fun q => chunksOf n q.length q) = ds
  | [], _ => rfl
  | d :: r, h => by
    have hd := h d List.mem_cons_self
    simp only [List.flatMap_cons, chunksOf_single n d hd.1 hd.2, List.singleton_append]
    rw [flatMap_chunksOf n r (fun x hx => h x (List.mem_cons_of_mem _ hx))]

theorem blockEncodeMT_uncompressed (E : EncEnv) (check : Nat) (fs : List FilterOpts) (bs : Nat) (d : List UInt8) (b : BlockOut)
    (h : blockEncodeMT E check fs bs d = .ok b) : b.uncompressed = d.length := by
  unfold blockEncodeMT at h
  simp only [] at h
  split at h; · cases h
  split at h; · cases h
  split at h; · cases h
  split at h
  · split at h
    · cases h
    · cases h; rfl
  · split at h
    · cases h
    · rename_i b' hb
      cases h
      unfold blockBufferEncode at hb
      simp only [] at hb
      split at hb; · cases hb
      split at hb; · cases hb
      split at hb; · cases hb
      split at hb; · cases hb
      split at hb
      · cases hb
      · cases hb; rfl

/-- What `blocksEncode` returns for non-empty pieces: the concatenation of the Blocks and their Index Records, in order. -/
theorem blocksEncode_spec (enc : List UInt8 → Res BlockOut) : ∀ (ds : List (List UInt8)) (acc : IndexAcc) (bytes : List UInt8)
    (recs : List IndexRecord), (∀ d ∈ ds, 0 < d.length) → blocksEncode enc ds acc = .ok (bytes, recs) →
    bytes = (ds.map fun d => match enc d with | .ok b => b.bytes | .error _ => []).flatten ∧
    recs = ds.map fun d => match enc d with | .ok b => ⟨b.unpadded, b.uncompressed⟩ | .error _ => ⟨0, 0⟩
  | [], _, bytes, recs, _, h => by simp [blocksEncode] at h; rw [h.1, h.2]; simp
  | d :: r, acc, bytes, recs, hp, h => by
    have hne : d.isEmpty = false := by
      have := hp d List.mem_cons_self
      cases d with | nil => simp at this | cons _ _ => rfl
    simp only [blocksEncode, hne, Bool.false_eq_true, if_false] at h
    cases he : enc d with
    | error e => rw [he] at h; cases h
    | ok b =>
      rw [he] at h
      simp only [] at h
      cases ha : indexAppend acc b.unpadded b.uncompressed with
      | error e => rw [ha] at h; cases h
      | ok acc' =>
        rw [ha] at h
        simp only [] at h
        cases hr : blocksEncode enc r acc' with
        | error e => rw [hr] at h; cases h
        | ok br =>
          obtain ⟨b2, r2⟩ := br
          rw [hr] at h
          simp only [] at h
          cases h
          have ih := blocksEncode_spec enc r acc' b2 r2 (fun x hx => hp x (List.mem_cons_of_mem _ hx)) hr
          simp only [List.map_cons, List.flatten_cons, he]
          rw [← ih.1, ← ih.2]
          exact ⟨rfl, rfl⟩

theorem doneShape_lens {bs : Nat} {F : List Nat} : ∀ (d : List Blk) (off : Nat), cutsOk bs F (doneShape d) off →
    ∀ b ∈ d, 0 < b.data.length ∧ b.data.length ≤ bs
  | [], _, _, b, hb => by cases hb
  | x :: r, off, h, b, hb => by
    simp only [doneShape, List.map_cons, cutsOk] at h
    rcases List.mem_cons.mp hb with rfl | hb
    · exact ⟨(h.2.1 trivial).1, h.1⟩
    · exact doneShape_lens r _ h.2.2 b hb

/-- **The link**: in a state of the LTS over `encParams E check fs bs` in which the Stream is finished, the bytes written are
    exactly the output of the container model `streamEncodeMT E ⟨check, fs⟩ bs` on the delivered Blocks, if that returns LZMA_OK. -/
theorem out_eq_streamEncodeMT (E : EncEnv) (check : Nat) (fs : List FilterOpts) (bs : Nat) {s : St}
    (hA : InvB s) (hC : InvC (encParams E check fs bs) s) (hK : InvK s) (hend : s.seq = .ended) (hbs : s.cfg.bs = bs)
    (out : List UInt8) (henc : streamEncodeMT E { check := check, filters := fs } bs (s.done.map (·.data)) = .ok out) :
    s.out = out := by
  have hq := (hA.seqTail (Or.inr hend)).1
  have hout := hC.outE hend
  have hcuts := hK.cuts
  have hsh : allShape s = doneShape s.done := by simp [allShape, hq, shape]
  rw [hsh, hbs] at hcuts
  have hlens := doneShape_lens s.done 0 hcuts
  have hpieces : ∀ d ∈ s.done.map (·.data), 0 < d.length ∧ d.length ≤ bs := by
    intro d hd; obtain ⟨b, hb, rfl⟩ := List.mem_map.mp hd; exact hlens b hb
  unfold streamEncodeMT at henc
  split at henc; · cases henc
  split at henc; · cases henc
  split at henc; · cases henc
  simp only [] at henc
  cases hh : streamHeaderEncode { check := check } with
  | error e => rw [hh] at henc; cases henc
  | ok hdr =>
    rw [hh] at henc
    simp only [] at henc
    rw [flatMap_chunksOf bs _ hpieces] at henc
    cases hb : blocksEncode (blockEncodeMT E check fs bs) (s.done.map (·.data)) {} with
    | error e => rw [hb] at henc; cases henc
    | ok br =>
      obtain ⟨bytes, recs⟩ := br
      rw [hb] at henc
      simp only [] at henc
      cases ht : streamTail check recs with
      | error e => rw [ht] at henc; cases henc
      | ok tail =>
        rw [ht] at henc
        cases henc
        obtain ⟨hbytes, hrecs⟩ := blocksEncode_spec _ _ _ _ _ (fun d hd => (hpieces d hd).1) hb
        rw [hout, hC.idx]
        have e1 : (encParams E check fs bs).hdr = hdr := by simp [encParams, hh]
        have e2 : encs (encParams E check fs bs) s.done = bytes := by
          rw [hbytes, List.map_map]; rfl
        have e3 : (encParams E check fs bs).tailBytes (s.done.map (Blk.record (encParams E check fs bs))) = tail := by
          have : (s.done.map (Blk.record (encParams E check fs bs))).map (fun r => (⟨r.1, r.2⟩ : IndexRecord)) = recs := by
            rw [hrecs]
            simp only [List.map_map, Function.comp_def, Blk.record, encParams]
            apply List.map_congr_left
            intro b hbm
            cases hbe : blockEncodeMT E check fs bs b.data with
            | error e =>
              -- impossible: blocksEncode returned ok
              exfalso
              have : ∀ (ds : List (List UInt8)) (acc : IndexAcc) (r : List UInt8 × List IndexRecord), (∀ d ∈ ds, 0 < d.length) →
                  blocksEncode (blockEncodeMT E check fs bs) ds acc = .ok r → ∀ d ∈ ds, ∃ b', blockEncodeMT E check fs bs d = .ok b' := by
                intro ds
                induction ds with
                | nil => intro _ _ _ _ d hd; cases hd
                | cons x xs ih =>
                  intro acc r hp hok d hd
                  have hne : x.isEmpty = false := by
                    have := hp x List.mem_cons_self
                    cases x with | nil => simp at this | cons _ _ => rfl
                  simp only [blocksEncode, hne, Bool.false_eq_true, if_false] at hok
                  cases hx : blockEncodeMT E check fs bs x with
                  | error e => rw [hx] at hok; cases hok
                  | ok bx =>
                    rw [hx] at hok; simp only [] at hok
                    cases ha : indexAppend acc bx.unpadded bx.uncompressed with
                    | error e => rw [ha] at hok; cases hok
                    | ok acc' =>
                      rw [ha] at hok; simp only [] at hok
                      cases hr : blocksEncode (blockEncodeMT E check fs bs) xs acc' with
                      | error e => rw [hr] at hok; cases hok
                      | ok r' =>
                        rcases List.mem_cons.mp hd with rfl | hd
                        · exact ⟨bx, hx⟩
                        · exact ih acc' r' (fun y hy => hp y (List.mem_cons_of_mem _ hy)) hr d hd
              obtain ⟨b', hb'⟩ := this _ _ _ (fun d hd => (hpieces d hd).1) hb b.data (List.mem_map.mpr ⟨b, hbm, rfl⟩)
              rw [hbe] at hb'; cases hb'
            | ok bo =>
              simp only []
              rw [blockEncodeMT_uncompressed E check fs bs b.data bo hbe]
          simp only [encParams] at this ⊢
          rw [this, ht]
        rw [e1, e2, e3]

end XzVerif.MtEnc
