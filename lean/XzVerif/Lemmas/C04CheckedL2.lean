/-
  The checked `lzma2_decode` loop (Lemmas/C04Checked.lean `lzma2LoopC`) equals the executable loop and never reports an
  out-of-bounds access, along a WHOLE LZMA2 stream: every input, every dictionary size / preset dictionary, every slicing
  of the output space into calls of `code`.

  The loop is read as the iteration of a step function (`l2Step` of Lemmas/LzmaCausalL2.lean; `l2StepC` here). The access
  invariant `A2` is sequence-aware in the same way as the rep-register invariant `L2R` of Lemmas/C03RepsStream.lean: the
  probability array has the right size (`ProbsOk`) unless a properties byte — and with it `lzma_decoder_reset` — is still
  to come before the next symbol (`need_properties` set, or `next_sequence = SEQ_PROPERTIES`); a pending SEQ_SHORTREP /
  SEQ_COPY exists only in SEQ_LZMA and has `rep0 < dict.full` (so a dictionary reset, which happens in SEQ_CONTROL, never
  invalidates one); `dict.full ≤` history size always; the stored lc/lp/pb are always valid. `RepsOk` and the position
  invariants are taken from `L2R` / `LInv` / `SInv` (already proved for every reachable state).
-/
import XzVerif.Lemmas.C04CheckedLz
import XzVerif.Lemmas.LzmaCausalL2

namespace XzVerif.Lzma2
open XzVerif.RangeDec XzVerif.LzDict XzVerif.Lzma

/-! ### the checked loop as the iteration of a checked step -/

/-- SEQ_COPY after `dict_write` -/
def l2CopyR (r : Nat × St) : Step :=
  let s1 := setL2 r.2 fun l => { l with compressedSize := l.compressedSize - r.1 }
  if s1.l2.compressedSize != 0 then .done (.ok, s1) else .next (setL2 s1 fun l => { l with seq := .control })

theorem l2Copy_eq (s : St) : l2Copy s = l2CopyR (dictWrite s s.l2.compressedSize) := rfl

def l2StepC (s : St) : Option Step :=
  if !(s.inPos < s.inp.size || s.l2.seq == .lzma) then some (.done (.ok, s))
  else
    match s.l2.seq with
    | .lzma => (lzmaCallC s).map (l2Lzma s.inPos)
    | .copy => (dictWriteC s s.l2.compressedSize).map l2CopyR
    | q => (inByteC s).map (l2Byte q s)

def runStepC (k : St → Option (Ret × St)) : Step → Option (Ret × St)
  | .done r => some r
  | .next s => k s

theorem runStepC_ite (k : St → Option (Ret × St)) (c : Prop) [Decidable c] (a b : Step) :
    runStepC k (if c then a else b) = if c then runStepC k a else runStepC k b := by
  split <;> rfl

theorem lzma2LoopC_succ (f : Nat) (s : St) : lzma2LoopC (f + 1) s = (l2StepC s).bind (runStepC (lzma2LoopC f)) := by
  rw [lzma2LoopC]
  unfold l2StepC
  by_cases hg : (!(s.inPos < s.inp.size || s.l2.seq == .lzma)) = true
  · rw [if_pos hg, if_pos hg]; rfl
  · rw [if_neg hg, if_neg hg]
    cases hq : s.l2.seq with
    | control =>
      simp only []
      cases inByteC s with
      | none => rfl
      | some byte =>
        simp only [Option.map, Option.bind, l2Byte, l2Control]
        split
        · rfl
        · split
          · rfl
          · split <;> rfl
    | uncompressed1 => simp only []; cases inByteC s <;> rfl
    | uncompressed2 => simp only []; cases inByteC s <;> rfl
    | compressed0 => simp only []; cases inByteC s <;> rfl
    | compressed1 => simp only []; cases inByteC s <;> rfl
    | properties =>
      simp only []
      cases inByteC s with
      | none => rfl
      | some byte =>
        simp only [Option.map, Option.bind, l2Byte]
        cases propsDecode byte <;> rfl
    | lzma =>
      simp only []
      cases lzmaCallC s with
      | none => rfl
      | some r =>
        obtain ⟨ret, s1⟩ := r
        simp only [Option.map, Option.bind, l2Lzma, runStepC_ite]
        rfl
    | copy =>
      simp only []
      cases dictWriteC s s.l2.compressedSize with
      | none => rfl
      | some r =>
        obtain ⟨n, s1⟩ := r
        simp only [Option.map, Option.bind, l2CopyR, runStepC_ite]
        rfl

/-! ### the access invariant of LZMA2 states -/

/-- what is known about probabilities and a pending output step, unless the LZMA decoder is stuck for good -/
def XOk (s : St) : Prop :=
  s.pending = .stuck
  ∨ (ProbsOk s ∧ (usesRep0 s.pending → s.l2.seq = .lzma ∧ s.rep0 < s.dp.full) ∧ CopyLen s.pending)

structure A2 (s : St) : Prop where
  hist : HistOk s
  propsV : s.l2.props.valid = true
  x : L2Rv s.l2.seq s.l2.nextSeq s.l2.needProperties True (XOk s)

theorem Target.imp {n : L2Seq} {np : Bool} {A R R' : Prop} (f : R → R') (h : Target n np A R) : Target n np A R' := by
  cases n <;> first | exact h.elim | exact h | exact ⟨h.1, f h.2⟩ | exact Or.imp id f h

theorem L2Rv.imp {q n : L2Seq} {np : Bool} {A R R' : Prop} (f : R → R') (h : L2Rv q n np A R) : L2Rv q n np A R' := by
  cases q
  · exact Or.imp id f h
  · exact Or.imp id (fun h => ⟨h.1, f h.2⟩) h
  · exact Or.imp id (fun h => ⟨h.1, f h.2⟩) h
  · exact Target.imp f h
  · exact Target.imp f h
  · exact h
  · exact ⟨h.1, f h.2⟩
  · exact Or.imp id f h

/-- the fields `ProbsOk` and the pending step read -/
structure SameX (s t : St) : Prop where
  pending : t.pending = s.pending
  psize : t.probs.size = s.probs.size
  lc : t.lc = s.lc
  lp : t.lp = s.lp
  pb : t.pb = s.pb
  state : t.state = s.state

theorem XOk.of_nonlzma {s t : St} (h : XOk s) (hs : s.l2.seq ≠ .lzma) (e : SameX s t) : XOk t := by
  rcases h with h | ⟨hp, hc, hcl⟩
  · left; rw [e.pending]; exact h
  · right
    refine ⟨hp.congr e.psize e.lc e.lp e.pb e.state, fun hu => ?_, by rw [e.pending]; exact hcl⟩
    rw [e.pending] at hu
    exact absurd (hc hu).1 hs

theorem XOk.same {s t : St} (h : XOk s) (e : SameX s t) (hq : t.l2.seq = s.l2.seq) (h0 : t.rep0 = s.rep0)
    (hf : s.dp.full ≤ t.dp.full) : XOk t := by
  rcases h with h | ⟨hp, hc, hcl⟩
  · left; rw [e.pending]; exact h
  · right
    refine ⟨hp.congr e.psize e.lc e.lp e.pb e.state, fun hu => ?_, by rw [e.pending]; exact hcl⟩
    rw [e.pending] at hu
    have := hc hu
    exact ⟨by rw [hq]; exact this.1, by rw [h0]; omega⟩

theorem xok_reset (t : St) (p : Props) (hv : p.valid = true) : XOk (t.resetLzma p) :=
  Or.inr ⟨probsOk_reset t p hv, fun hu => (by cases hu), trivial⟩

/-- a state with the same LZMA2 layer and the same relevant fields satisfies the invariant too -/
theorem A2.congr {s t : St} (h : A2 s) (hl : t.l2 = s.l2) (e : SameX s t) (h0 : t.rep0 = s.rep0)
    (hd : t.dp.full = s.dp.full) (hh : t.hist.size = s.hist.size) : A2 t := by
  refine ⟨by unfold HistOk; rw [hd, hh]; exact h.hist, by rw [hl]; exact h.propsV, ?_⟩
  rw [hl]
  exact L2Rv.imp (fun hx => hx.same e (by rw [hl]) h0 (by rw [hd]; exact Nat.le_refl _)) h.x

/-- outside SEQ_LZMA the invariant does not depend on the dictionary: it survives `dict_reset` -/
theorem A2.dictReset {s : St} (h : A2 s) (hs : s.l2.seq ≠ .lzma) (d : DictPos) (hd : d.full = 0) :
    A2 ({ s with dp := d } : St) := by
  refine ⟨by unfold HistOk; rw [show ({ s with dp := d } : St).dp.full = 0 from hd]; exact Nat.zero_le _, h.propsV, ?_⟩
  exact L2Rv.imp (fun hx => hx.of_nonlzma hs ⟨rfl, rfl, rfl, rfl, rfl, rfl⟩) h.x

theorem propsDecode_valid_small : ∀ b, b < 256 → (propsDecode b).all (fun p => p.valid) = true := by
  decide +kernel

theorem propsDecode_valid (b : Nat) (hb : b < 256) (p : Props) (h : propsDecode b = some p) : p.valid = true := by
  have := propsDecode_valid_small b hb
  rw [h] at this
  exact this

/-! ### the control byte -/

theorem controlApply_more (s : St) (a : ControlAction) :
    (controlApply s a).hist = s.hist ∧ (controlApply s a).l2.props = s.l2.props := by
  unfold controlApply
  simp only []
  split
  · split <;> exact ⟨rfl, rfl⟩
  · exact ⟨rfl, rfl⟩

theorem controlApply_xok (s : St) (a : ControlAction) (hv : s.l2.props.valid = true) (hs : s.l2.seq ≠ .lzma) :
    (a.isLzma = true → a.stateResetNow = true → XOk (controlApply s a)) ∧ (XOk s → XOk (controlApply s a)) := by
  unfold controlApply
  simp only []
  rcases Bool.eq_false_or_eq_true a.isLzma with hl | hl
  · rw [hl]
    rcases Bool.eq_false_or_eq_true a.stateResetNow with hr | hr
    · rw [hr]
      simp only [if_true]
      exact ⟨fun _ _ => xok_reset _ _ hv, fun _ => xok_reset _ _ hv⟩
    · rw [hr]
      simp only [if_true, Bool.false_eq_true, if_false]
      exact ⟨fun _ h => (by cases h), fun h => h.of_nonlzma hs ⟨rfl, rfl, rfl, rfl, rfl, rfl⟩⟩
  · rw [hl]
    simp only [Bool.false_eq_true, if_false]
    exact ⟨fun h => (by cases h), fun h => h.of_nonlzma hs ⟨rfl, rfl, rfl, rfl, rfl, rfl⟩⟩

/-- SEQ_CONTROL with an accepted chunk header keeps the access invariant and does not enter SEQ_LZMA -/
theorem controlApply_a2 (s : St) (c : Nat) (hc : c < 256) (h : A2 s) (hseq : s.l2.seq = .control)
    (hend : (controlStep c s.l2.needProperties s.l2.needDictionaryReset).isEnd = false)
    (herr : (controlStep c s.l2.needProperties s.l2.needDictionaryReset).isError = false) :
    A2 (controlApply s (controlStep c s.l2.needProperties s.l2.needDictionaryReset))
    ∧ (controlApply s (controlStep c s.l2.needProperties s.l2.needDictionaryReset)).l2.seq ≠ .lzma := by
  have hok := controlStep_ok c hc s.l2.needProperties s.l2.needDictionaryReset
  have hctl : s.l2.needProperties = true ∨ XOk s := by
    have := h.x; rw [hseq] at this; exact this
  have hnl : s.l2.seq ≠ .lzma := by rw [hseq]; decide
  generalize controlStep c s.l2.needProperties s.l2.needDictionaryReset = a at *
  obtain ⟨f1, f2, f3, f4, _, _⟩ := controlApply_fields s a
  obtain ⟨g1, g2⟩ := controlApply_more s a
  obtain ⟨x1, x2⟩ := controlApply_xok s a h.propsV hnl
  unfold ctlOk at hok
  rw [hend, herr] at hok
  simp only [Bool.false_or, Bool.and_eq_true, Bool.or_eq_true, Bool.not_eq_true', Bool.and_eq_false_imp] at hok
  obtain ⟨⟨k1, k2⟩, _⟩ := hok
  have hhist : HistOk (controlApply s a) := by unfold HistOk; rw [f4, g1]; exact h.hist
  have hpv : (controlApply s a).l2.props.valid = true := by rw [g2]; exact h.propsV
  cases hlz : a.isLzma
  · -- uncompressed chunk
    rw [hlz] at f2 f3 k1 k2
    simp only [Bool.false_eq_true, if_false] at f2 f3
    refine ⟨⟨hhist, hpv, ?_⟩, by rw [f2]; decide⟩
    rw [f1, f2, f3]
    show a.needProps' = true ∨ XOk (controlApply s a)
    rcases hctl with hnp | hx
    · left
      rcases k2 with k2 | k2
      · rcases k2 with k2 | k2
        · cases k2
        · rw [hnp] at k2; cases k2
      · exact k2
    · right; exact x2 hx
  · -- LZMA chunk
    rw [hlz] at f2 f3 k1 k2
    simp only [if_true] at f2 f3
    refine ⟨⟨hhist, hpv, ?_⟩, by rw [f2]; decide⟩
    rw [f1, f2, f3]
    cases hnp : a.newProps
    · simp only [Bool.false_eq_true, if_false]
      show L2Seq.lzma = L2Seq.properties ∨ (L2Seq.lzma = L2Seq.lzma ∧ XOk (controlApply s a))
      right
      refine ⟨rfl, ?_⟩
      have hnpf : s.l2.needProperties = false := by
        rcases k1 with k1 | k1
        · simp [hnp] at k1
        · exact k1
      rcases hctl with h1 | h1
      · rw [hnpf] at h1; cases h1
      · exact x2 h1
    · simp only [if_true]
      exact Or.inl rfl

/-! ### one step of the loop -/

/-- what a step establishes: the invariant of the state the loop continues from (same `need_reset`), or of the state the
    function returns — and a requested dictionary reset may be carried out without losing the invariant -/
def StepA (s : St) : Step → Prop
  | .next s1 => A2 s1 ∧ s1.dp.needReset = s.dp.needReset
  | .done r => A2 r.2 ∧ (r.2.dp.needReset = true → s.dp.needReset = true ∨ A2 { r.2 with dp := r.2.dp.reset })

theorem lzmaFinish_end_pending (r : EStateM.Result Exit St Unit) (cl st : Nat) (u : Option Nat)
    (h : (lzmaFinish r cl st u).1 = .streamEnd) : (lzmaFinish r cl st u).2.pending = .none := by
  unfold lzmaFinish at h ⊢
  simp only [] at h ⊢
  rw [h]
  rfl

theorem lzmaCall_end_pending (s : St) (h : (lzmaCall s).1 = .streamEnd) : (lzmaCall s).2.pending = .none := by
  unfold lzmaCall at h ⊢
  split at h
  · cases h
  · rename_i hns
    rw [if_neg hns]
    split at h
    · cases h
    · cases h
    · exact lzmaFinish_end_pending _ _ _ _ h

theorem appendSliceC_eq (src : ByteArray) : ∀ n off (h : ByteArray), off + n ≤ src.size →
    appendSliceC src n off h = some (appendSlice src n off h)
  | 0, _, _, _ => rfl
  | n + 1, off, h, hle => by
    unfold appendSliceC appendSlice
    have hlt : off < src.size := by omega
    simp only [hlt, dite_true]
    exact appendSliceC_eq src n (off + 1) _ (by omega)

theorem dictWriteC_eq (s : St) (left : Nat) (hP : PosInv s.dp) (h : s.inPos ≤ s.inp.size) :
    dictWriteC s left = some (dictWrite s left) := by
  unfold dictWriteC dictWrite
  simp only []
  have h1 : min (min (s.inp.size - s.inPos) left) s.dp.avail ≤ s.inp.size - s.inPos :=
    Nat.le_trans (Nat.min_le_left _ _) (Nat.min_le_left _ _)
  have h2 : min (min (s.inp.size - s.inPos) left) s.dp.avail ≤ s.dp.avail := Nat.min_le_right _ _
  have h3 : s.dp.pos + min (min (s.inp.size - s.inPos) left) s.dp.avail ≤ s.dp.size := by
    have := hP.pos_le_limit; have := hP.limit_le_size
    have hav : s.dp.avail = s.dp.limit - s.dp.pos := rfl
    generalize min (min (s.inp.size - s.inPos) left) s.dp.avail = n at h1 h2
    omega
  rw [if_pos h3, appendSliceC_eq]
  omega

theorem dictWrite_more (s : St) (left : Nat) :
    (dictWrite s left).2.hist.size = s.hist.size + (dictWrite s left).1 ∧ SameX s (dictWrite s left).2 := by
  unfold dictWrite
  refine ⟨?_, ⟨rfl, rfl, rfl, rfl, rfl, rfl⟩⟩
  exact appendSlice_size _ _ _ _

theorem l2Step_acc (s : St) (hi : LInv s) (ha : A2 s) : l2StepC s = some (l2Step s) ∧ StepA s (l2Step s) := by
  by_cases hq : s.l2.seq = .lzma
  · -- SEQ_LZMA
    have hl := hi.l2r.get hq
    have hx : XOk s := by have := ha.x; rw [hq] at this; exact this.2
    have hacc : AccSt s := by
      rcases hx with hx | ⟨hp, hc, hcl⟩
      · exact Or.inl hx
      · rcases hl.2 with hs | hr
        · exact Or.inl hs
        · exact Or.inr ⟨⟨hp, ha.hist, hr, hi.pos⟩, fun hu => (hc hu).2, hcl⟩
    have hc := lzmaCall_acc s hacc
    have hwr := (lzmaCall_spec s hi.pos.pos_le_limit).1
    have hep := lzmaCall_end_pending s
    refine ⟨?_, ?_⟩
    · unfold l2StepC
      rw [l2Step_lzma s hq]
      have hg : ¬ (!(s.inPos < s.inp.size || s.l2.seq == .lzma)) = true := by simp [hq]
      rw [if_neg hg, hq]
      simp only []
      rw [hc.1]; rfl
    · rw [l2Step_lzma s hq]
      have hacc1 := hc.2.2.1 hl.1
      have hh1 := hc.2.2.2 ha.hist
      generalize hr : lzmaCall s = r at hacc1 hh1 hwr hep
      obtain ⟨ret, s1⟩ := r
      have hl2 : s1.l2 = s.l2 := hwr.l2
      have hnr : s1.dp.needReset = s.dp.needReset := hwr.needReset
      have hacc1' : AccSt s1 := hacc1
      have hh1' : HistOk s1 := hh1
      -- the invariant of `s1` with any change of the LZMA2 layer that stays in SEQ_LZMA
      have xk : ∀ t : St, SameX s1 t → t.rep0 = s1.rep0 → t.dp.full = s1.dp.full → t.l2.seq = .lzma → XOk t := by
        intro t e h0 hd hq'
        rcases hacc1' with hs | ⟨hlv, hpd⟩
        · left; rw [e.pending]; exact hs
        · right
          refine ⟨hlv.probs.congr e.psize e.lc e.lp e.pb e.state, fun hu => ⟨hq', ?_⟩, by rw [e.pending]; exact hpd.2⟩
          rw [e.pending] at hu
          rw [h0, hd]; exact hpd.1 hu
      have inv1 : ∀ f : L2 → L2, (f s1.l2).seq = .lzma → (f s1.l2).props = s1.l2.props → A2 (setL2 s1 f) := by
        intro f hf hp
        refine ⟨hh1', ?_, ?_⟩
        · show (f s1.l2).props.valid = true
          rw [hp, hl2]; exact ha.propsV
        · show L2Rv (f s1.l2).seq (f s1.l2).nextSeq (f s1.l2).needProperties True (XOk (setL2 s1 f))
          rw [hf]
          exact ⟨trivial, xk _ ⟨rfl, rfl, rfl, rfl, rfl, rfl⟩ rfl rfl hf⟩
      have hseq1 : s1.l2.seq = .lzma := by rw [hl2]; exact hq
      have a2s1 : A2 s1 := by
        refine ⟨hh1', by rw [hl2]; exact ha.propsV, ?_⟩
        rw [hseq1]
        exact ⟨trivial, xk s1 ⟨rfl, rfl, rfl, rfl, rfl, rfl⟩ rfl rfl hseq1⟩
      have a2c := inv1 (fun l => { l with compressedSize := l.compressedSize - (s1.inPos - s.inPos) }) hseq1 rfl
      unfold l2Lzma
      simp only []
      split
      · exact ⟨a2s1, fun hr' => Or.inl (by rw [← hnr]; exact hr')⟩
      · split
        · exact ⟨a2c, fun hr' => Or.inl (by rw [← hnr]; exact hr')⟩
        · next hse =>
          have hret : ret = .streamEnd := by
            cases ret <;> simp_all
          split
          · exact ⟨a2c, fun hr' => Or.inl (by rw [← hnr]; exact hr')⟩
          · refine ⟨⟨hh1', by show s1.l2.props.valid = true; rw [hl2]; exact ha.propsV, ?_⟩, hnr⟩
            show s1.l2.needProperties = true ∨ XOk _
            right
            have hpn : s1.pending = .none := hep hret
            rcases hacc1' with hs | ⟨hlv, _⟩
            · rw [hpn] at hs; cases hs
            · refine Or.inr ⟨hlv.probs.congr rfl rfl rfl rfl rfl, fun hu => ?_, ?_⟩
              · have hu' : usesRep0 s1.pending := hu
                rw [hpn] at hu'; cases hu'
              · show CopyLen s1.pending
                rw [hpn]; trivial
  · by_cases hg : s.inPos < s.inp.size
    · have hgc : ¬ (!(s.inPos < s.inp.size || s.l2.seq == .lzma)) = true := by simp [hg]
      by_cases hcp : s.l2.seq = .copy
      · -- SEQ_COPY
        have hd := dictWriteC_eq s s.l2.compressedSize hi.pos (Nat.le_of_lt hg)
        refine ⟨?_, ?_⟩
        · unfold l2StepC
          rw [l2Step_copy s hcp hg, if_neg hgc, hcp]
          simp only []
          rw [hd, l2Copy_eq]; rfl
        · rw [l2Step_copy s hcp hg, l2Copy_eq]
          have hdf := dictWrite_fields s s.l2.compressedSize
          have hdm := dictWrite_more s s.l2.compressedSize
          generalize hr : dictWrite s s.l2.compressedSize = r at hdf hdm
          obtain ⟨n, s1⟩ := r
          obtain ⟨w1, w2, w3, _, _, _, _, _, _, _⟩ := hdf
          have hdp : s1.dp = s.dp.advance n := w1
          have hn : n ≤ s.dp.avail := w2
          have hl2 : s1.l2 = s.l2 := w3
          have hhs : s1.hist.size = s.hist.size + n := hdm.1
          have hsx : SameX s s1 := hdm.2
          have hnr : s1.dp.needReset = s.dp.needReset := by rw [hdp]; rfl
          have hh1 : HistOk s1 := by
            unfold HistOk
            rw [hdp, hhs]
            have := full_advance_le hi.pos n
            have := ha.hist
            unfold HistOk at this
            omega
          have hx0 : s.l2.needProperties = true ∨ XOk s := by have := ha.x; rw [hcp] at this; exact this
          have inv1 : ∀ t : St, SameX s1 t → t.hist = s1.hist → t.dp = s1.dp → t.l2.needProperties = s1.l2.needProperties →
              t.l2.props = s1.l2.props → (t.l2.seq = .copy ∨ t.l2.seq = .control) → A2 t := by
            intro t e eh ed enp epr es
            have hR : t.l2.needProperties = true ∨ XOk t := by
              rw [enp, hl2]
              refine hx0.imp id (fun hx => hx.of_nonlzma hq ?_)
              exact ⟨e.pending.trans hsx.pending, e.psize.trans hsx.psize, e.lc.trans hsx.lc, e.lp.trans hsx.lp,
                e.pb.trans hsx.pb, e.state.trans hsx.state⟩
            refine ⟨by unfold HistOk; rw [ed, eh]; exact hh1, by rw [epr, hl2]; exact ha.propsV, ?_⟩
            rcases es with es | es <;> rw [es] <;> exact hR
          unfold l2CopyR
          simp only []
          split
          · exact ⟨inv1 _ ⟨rfl, rfl, rfl, rfl, rfl, rfl⟩ rfl rfl rfl rfl (Or.inl (by show s1.l2.seq = _; rw [hl2]; exact hcp)),
              fun hr' => Or.inl (by rw [← hnr]; exact hr')⟩
          · exact ⟨inv1 _ ⟨rfl, rfl, rfl, rfl, rfl, rfl⟩ rfl rfl rfl rfl (Or.inr rfl), hnr⟩
      · -- the states that consume one header byte
        have hb : inByteC s = some (curByte s) := by unfold inByteC curByte; simp only [hg, dite_true]
        have hb8 : curByte s < 256 := by unfold curByte; exact UInt8.toNat_lt_size _
        refine ⟨?_, ?_⟩
        · unfold l2StepC
          rw [l2Step_byte s hq hcp hg, if_neg hgc, hb]
          cases hs : s.l2.seq <;> first | rfl | exact absurd hs hq | exact absurd hs hcp
        · rw [l2Step_byte s hq hcp hg]
          generalize curByte s = byte at hb8
          -- a step that only touches the LZMA2 layer, the cursor and the chunk configuration
          have plain : ∀ t : St, SameX s t → t.rep0 = s.rep0 → t.dp = s.dp → t.hist = s.hist → t.l2.props = s.l2.props →
              L2Rv t.l2.seq t.l2.nextSeq t.l2.needProperties True (XOk t) → StepA s (.next t) := by
            intro t _ _ ed eh ep hx
            exact ⟨⟨by unfold HistOk; rw [ed, eh]; exact ha.hist, by rw [ep]; exact ha.propsV, hx⟩, by rw [ed]⟩
          have xmove : ∀ t : St, SameX s t → XOk s → XOk t := fun t e hx => hx.of_nonlzma hq e
          cases hs : s.l2.seq with
          | lzma => exact absurd hs hq
          | copy => exact absurd hs hcp
          | control =>
            simp only [l2Byte, l2Control]
            have a0 : A2 ({ s with inPos := s.inPos + 1 } : St) :=
              ha.congr rfl ⟨rfl, rfl, rfl, rfl, rfl, rfl⟩ rfl rfl rfl
            split
            · exact ⟨a0, fun hr' => Or.inl hr'⟩
            · next hend =>
              split
              · exact ⟨a0, fun hr' => Or.inl hr'⟩
              · next herr =>
                have hend' : (controlStep byte s.l2.needProperties s.l2.needDictionaryReset).isEnd = false := by
                  simpa using hend
                have herr' : (controlStep byte s.l2.needProperties s.l2.needDictionaryReset).isError = false := by
                  simpa using herr
                have key := controlApply_a2 ({ s with inPos := s.inPos + 1 } : St) byte hb8 a0 hs hend' herr'
                have hdp := (controlApply_fields ({ s with inPos := s.inPos + 1 } : St)
                  (controlStep byte s.l2.needProperties s.l2.needDictionaryReset)).2.2.2.1
                split
                · refine ⟨key.1.congr rfl ⟨rfl, rfl, rfl, rfl, rfl, rfl⟩ rfl rfl rfl, fun _ => Or.inr ?_⟩
                  exact (key.1.congr rfl ⟨rfl, rfl, rfl, rfl, rfl, rfl⟩ rfl rfl rfl).dictReset key.2 _ rfl
                · exact ⟨key.1, by rw [hdp]⟩
          | uncompressed1 =>
            simp only [l2Byte]
            have hx : s.l2.nextSeq = .properties ∨ (s.l2.nextSeq = .lzma ∧ XOk s) := by
              have := ha.x; rw [hs] at this; exact this
            refine plain _ ⟨rfl, rfl, rfl, rfl, rfl, rfl⟩ rfl rfl rfl rfl ?_
            show s.l2.nextSeq = L2Seq.properties ∨ (s.l2.nextSeq = L2Seq.lzma ∧ XOk _)
            exact hx.imp id (fun hh => ⟨hh.1, xmove _ ⟨rfl, rfl, rfl, rfl, rfl, rfl⟩ hh.2⟩)
          | uncompressed2 =>
            simp only [l2Byte]
            have hx : s.l2.nextSeq = .properties ∨ (s.l2.nextSeq = .lzma ∧ XOk s) := by
              have := ha.x; rw [hs] at this; exact this
            refine plain _ ⟨rfl, rfl, rfl, rfl, rfl, rfl⟩ rfl rfl rfl rfl ?_
            show Target s.l2.nextSeq s.l2.needProperties True (XOk _)
            rcases hx with hx | hx
            · rw [hx]; exact trivial
            · rw [hx.1]; exact ⟨trivial, xmove _ ⟨rfl, rfl, rfl, rfl, rfl, rfl⟩ hx.2⟩
          | compressed0 =>
            simp only [l2Byte]
            have hx : Target s.l2.nextSeq s.l2.needProperties True (XOk s) := by
              have := ha.x; rw [hs] at this; exact this
            refine plain _ ⟨rfl, rfl, rfl, rfl, rfl, rfl⟩ rfl rfl rfl rfl ?_
            show Target s.l2.nextSeq s.l2.needProperties True (XOk _)
            exact Target.imp (fun hh => xmove _ ⟨rfl, rfl, rfl, rfl, rfl, rfl⟩ hh) hx
          | compressed1 =>
            simp only [l2Byte]
            have hx : Target s.l2.nextSeq s.l2.needProperties True (XOk s) := by
              have := ha.x; rw [hs] at this; exact this
            refine plain _ ⟨rfl, rfl, rfl, rfl, rfl, rfl⟩ rfl rfl rfl rfl ?_
            show L2Rv s.l2.nextSeq s.l2.nextSeq s.l2.needProperties True (XOk _)
            exact Target.toL2Rv _ (Target.imp (fun hh => xmove _ ⟨rfl, rfl, rfl, rfl, rfl, rfl⟩ hh) hx)
          | properties =>
            simp only [l2Byte]
            cases hpd : propsDecode byte with
            | none =>
              simp only []
              exact ⟨ha.congr rfl ⟨rfl, rfl, rfl, rfl, rfl, rfl⟩ rfl rfl rfl, fun hr' => Or.inl hr'⟩
            | some p =>
              simp only []
              have hv := propsDecode_valid byte hb8 p hpd
              refine ⟨⟨ha.hist, hv, ?_⟩, rfl⟩
              exact ⟨trivial, xok_reset _ p hv⟩
    · -- no input and not in SEQ_LZMA: return LZMA_OK
      refine ⟨?_, ?_⟩
      · unfold l2StepC
        have hgc : (!(s.inPos < s.inp.size || s.l2.seq == .lzma)) = true := by simp [hg, hq]
        rw [l2Step_starve s hq hg, if_pos hgc]
      · rw [l2Step_starve s hq hg]
        exact ⟨ha, fun hr' => Or.inl hr'⟩

/-! ### the loop, `decode_buffer`, the coder -/

/-- the position / rep-register invariant of the state a step continues from (from `lzma2Loop_inv` with one unit of fuel) -/
theorem linv_next (s s1 : St) (hi : LInv s) (h : l2Step s = .next s1) : LInv s1 := by
  have := lzma2Loop_inv 1 s hi
  rw [lzma2Loop_succ, h] at this
  exact this.inv

/-- what one run of the loop establishes -/
structure AccPost (s : St) (r : Ret × St) : Prop where
  inv : A2 r.2
  reset : r.2.dp.needReset = true → s.dp.needReset = true ∨ A2 { r.2 with dp := r.2.dp.reset }

theorem lzma2Loop_acc : ∀ (f : Nat) (s : St), LInv s → A2 s →
    lzma2LoopC f s = some (lzma2Loop f s) ∧ AccPost s (lzma2Loop f s)
  | 0, s, _, ha => ⟨rfl, ha, fun h => Or.inl h⟩
  | f + 1, s, hi, ha => by
    have hst := l2Step_acc s hi ha
    rw [lzma2LoopC_succ, lzma2Loop_succ, hst.1]
    cases hs : l2Step s with
    | done r =>
      rw [hs] at hst
      exact ⟨rfl, hst.2.1, hst.2.2⟩
    | next s1 =>
      rw [hs] at hst
      have ih := lzma2Loop_acc f s1 (linv_next s s1 hi hs) hst.2.1
      refine ⟨ih.1, ih.2.inv, fun hr => ?_⟩
      rcases ih.2.reset hr with h1 | h1
      · left; rw [← hst.2.2]; exact h1
      · right; exact h1

theorem lzma2Call_acc (s : St) (hi : LInv s) (ha : A2 s) :
    lzma2CallC s = some (lzma2Call s) ∧ AccPost s (lzma2Call s) := lzma2Loop_acc _ s hi ha

theorem decodeBuffer_acc2 : ∀ (fuel outSize : Nat) (s : St), SInv s → A2 s →
    decodeBufferC lzma2CallC fuel outSize s = some (decodeBuffer lzma2Call fuel outSize s)
    ∧ A2 (decodeBuffer lzma2Call fuel outSize s).2
  | 0, outSize, s, _, ha => ⟨rfl, ha⟩
  | fuel + 1, outSize, s, h, ha => by
    unfold decodeBufferC decodeBuffer
    simp only []
    have hk := wrap_setLimit_keeps s.dp (outSize - s.produced)
    have a1 : A2 ({ s with dp := (s.dp.wrap).setLimit (outSize - s.produced) } : St) :=
      ha.congr rfl ⟨rfl, rfl, rfl, rfl, rfl, rfl⟩ rfl hk.1 rfl
    have inv1 : LInv ({ s with dp := (s.dp.wrap).setLimit (outSize - s.produced) } : St) :=
      ⟨h.l2r.congr rfl ⟨rfl, hk.1, rfl, rfl, rfl, rfl, rfl⟩ ⟨rfl, rfl, rfl⟩, posInv_of_posW h.pos _⟩
    generalize hs1 : ({ s with dp := (s.dp.wrap).setLimit (outSize - s.produced) } : St) = s1 at a1 inv1
    have hnr1 : s1.dp.needReset = false := by rw [← hs1]; exact hk.2.trans h.noReset
    have hc := lzma2Call_acc s1 inv1 a1
    have hpost := lzma2Call_inv s1 inv1
    rw [hc.1]
    generalize hr : lzma2Call s1 = r at hc hpost
    obtain ⟨ret, s2⟩ := r
    have ha2 : A2 s2 := hc.2.inv
    have hres2 : s2.dp.needReset = true → s1.dp.needReset = true ∨ A2 { s2 with dp := s2.dp.reset } := hc.2.reset
    have hinv2 : LInv s2 := hpost.inv
    have hres : s2.dp.needReset = true → s1.dp.needReset = true ∨ L2R { s2 with dp := s2.dp.reset } := hpost.reset
    simp only []
    split
    · next hreset =>
      have inv3 : SInv ({ s2 with dp := s2.dp.reset } : St) := by
        refine ⟨?_, posW_reset (posW_of_posInv hinv2.pos), rfl⟩
        rcases hres hreset with h1 | h1
        · rw [hnr1] at h1; cases h1
        · exact h1
      have a3 : A2 ({ s2 with dp := s2.dp.reset } : St) := by
        rcases hres2 hreset with h1 | h1
        · rw [hnr1] at h1; cases h1
        · exact h1
      split
      · exact ⟨rfl, a3⟩
      · exact decodeBuffer_acc2 fuel outSize _ inv3 a3
    · next hno =>
      have inv3 : SInv s2 := by
        refine ⟨hinv2.l2r, posW_of_posInv hinv2.pos, ?_⟩
        cases hb : s2.dp.needReset
        · rfl
        · exact absurd hb hno
      split
      · exact ⟨rfl, ha2⟩
      · exact decodeBuffer_acc2 fuel outSize _ inv3 ha2

/-- an LZMA2 coder between calls: the rep-register / position invariant and the access invariant -/
def Coder.Acc2 (c : Coder) : Prop := c.kind = .lzma2 ∧ SInv c.s ∧ A2 c.s

theorem Coder.acc2_init (dictSize : Nat) (preset : List UInt8) (input : ByteArray) :
    (Coder.initLzma2 dictSize preset input).Acc2 := by
  refine ⟨rfl, (Coder.repsInv_init dictSize preset input).2, ?_,
    (by show ({ lc := 0, lp := 0, pb := 0 } : Props).valid = true; decide), Or.inl rfl⟩
  show (DictPos.init dictSize preset.length).full ≤ (ByteArray.mk (presetTail dictSize preset).toArray).size
  rw [byteArray_mk_size, presetTail_length]
  exact Nat.le_refl _

/-- ONE CALL of the LZMA2 coder's `code` from a state satisfying the invariants: the checked call is the executable call
    (no array access out of bounds), and the invariants hold afterwards — whatever was returned. -/
theorem Coder.code_acc2 (c : Coder) (outCap : Nat) (h : c.Acc2) :
    c.codeC outCap = some (c.code outCap) ∧ (c.code outCap).2.Acc2 := by
  obtain ⟨hk, hs, ha⟩ := h
  have hd := decodeBuffer_acc2 (decodeBufferFuel c.s (c.s.produced + outCap)) (c.s.produced + outCap) c.s hs ha
  have hr := Coder.repsInv_code c outCap ⟨hk, hs⟩
  refine ⟨?_, ?_⟩
  · unfold Coder.codeC Coder.code
    simp only [hk]
    rw [hd.1]
    rfl
  · refine ⟨hr.1, hr.2, ?_⟩
    unfold Coder.code
    simp only [hk]
    exact hd.2

theorem Coder.acc2_calls (calls : List Nat) : ∀ c : Coder, c.Acc2 →
    (calls.foldl (fun (c : Coder) cap => (c.code cap).2) c).Acc2 := by
  induction calls with
  | nil => intro c h; exact h
  | cons cap rest ih => intro c h; exact ih _ (Coder.code_acc2 c cap h).2

end XzVerif.Lzma2
