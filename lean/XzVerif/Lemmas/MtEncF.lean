/-
  C08 helper lemmas, part F: facts about where the main thread is (what is known when it waits, what a return value
  implies) and the wake-up flag of the main thread.
-/
import XzVerif.Lemmas.MtEncE

namespace XzVerif.MtEnc

structure InvM (s : St) : Prop where
  wThr : s.mpc = .waiting → s.thr = false ∧ 0 < s.cap
  aThr : s.mpc = .afterIn → s.thr = false ∨ (s.inp = [] ∧ s.act = .run)
  noThread : (s.mpc = .afterIn ∨ s.mpc = .waiting) → s.inp ≠ [] → hasBuf s = false ∨ s.cfg.tmax ≤ s.ninit
  wEmpty : s.mpc = .waiting → s.inp = [] → s.outq ≠ [] ∧ (s.act = .finish ∨ s.act = .fullFlush)
  wake : s.mpc = .waiting → waitCond s = true → s.mWoken = true
  retEnd : s.mpc = .out → ∀ a, s.lastRet = some (a, END) →
      a ≠ .run ∧ (a = .fullFlush → s.outq = [] ∧ s.thr = false ∧ s.seq = .block ∧ s.inp = []) ∧
      (a = .fullBarrier → s.thr = false ∧ s.seq = .block ∧ s.inp = []) ∧ (a = .finish → s.seq = .ended)
  tAct : s.mpc = .tailOut → s.act = .finish

/-- What a worker-side event can do to the things the main thread's wait depends on. -/
structure WFrame2 (s s' : St) : Prop where
  ninitOr : s'.ninit = s.ninit ∨ s.mpc = .ending
  wakeOr : s'.mWoken = true ∨ s.mpc = .ending ∨
    (s'.idle = s.idle ∧ s'.err = s.err ∧ fins s'.outq = fins s.outq ∧ s'.mWoken = s.mWoken)

theorem fins_set {q : List Entry} {i : Nat} {e e' : Entry} (hi : q[i]? = some e) (h : e'.finished = e.finished) :
    fins (q.set i e') = fins q := map_set_same _ hi h

theorem readable_eq {s t : St} (h : fins t.outq = fins s.outq) : readable t = readable s := by
  unfold readable
  cases hs : s.outq with
  | nil =>
    have : t.outq = [] := by
      have := congrArg List.length h; simp [fins, hs] at this; exact this
    simp [this]
  | cons e r =>
    cases ht : t.outq with
    | nil => simp [fins, hs, ht] at h
    | cons e' r' =>
      simp [fins, hs, ht] at h
      simp [h.1]

theorem waitCond_eq {s t : St} (h1 : t.inp = s.inp) (h2 : t.idle = s.idle) (h3 : t.outq.length = s.outq.length) (h4 : t.cfg = s.cfg)
    (h5 : fins t.outq = fins s.outq) (h6 : t.err = s.err) : waitCond t = waitCond s := by
  unfold waitCond hasBuf
  rw [h1, h2, h3, h4, readable_eq h5, h6]

theorem InvM_wframe {s s' : St} (h : InvM s) (f : WFrame s s') (g : WFrame2 s s') : InvM s' := by
  have hb : hasBuf s' = hasBuf s := by unfold hasBuf; rw [f.len, f.cfg]
  refine ⟨by rw [f.mpc, f.thr, f.cap]; exact h.wThr, by rw [f.mpc, f.thr, f.inp, f.act]; exact h.aThr, ?_, ?_, ?_, ?_, by rw [f.mpc, f.act]; exact h.tAct⟩
  · rw [f.mpc, f.inp, hb, f.cfg]
    intro a b
    rcases g.ninitOr with c | c
    · rw [c]; exact h.noThread a b
    · rcases a with a | a <;> rw [c] at a <;> cases a
  · rw [f.mpc, f.inp, f.act]; intro a b
    have := h.wEmpty a b
    refine ⟨?_, this.2⟩
    intro hn
    exact this.1 (List.eq_nil_of_length_eq_zero (by rw [← f.len, hn]; rfl))
  · rw [f.mpc]; intro a b
    rcases g.wakeOr with c | c | ⟨c1, c2, c3, c4⟩
    · exact c
    · rw [c] at a; cases a
    · rw [c4]; rw [waitCond_eq f.inp c1 f.len f.cfg c3 c2] at b; exact h.wake a b
  · rw [f.mpc, f.lastRet, f.thr, f.seq, f.inp]
    intro a x hx
    have := h.retEnd a x hx
    refine ⟨this.1, ?_, this.2.2⟩
    intro hf
    have t := this.2.1 hf
    exact ⟨nil_of_len f.len t.1, t.2⟩


theorem WFrame2_setW {s : St} {i : Nat} {e : Entry} (hi : s.outq[i]? = some e) (w' : Option WCtx) : WFrame2 s (setW s i e w') :=
  ⟨Or.inl rfl, Or.inr (Or.inr ⟨rfl, rfl, fins_set hi rfl, rfl⟩)⟩

theorem WFrame2_leave {s : St} {i : Nat} {e : Entry} {w : WCtx} (hW : InvW s) (hi : s.outq[i]? = some e) (hw : e.wk = some w)
    (hst : w.state = .exit) : WFrame2 s (leave s i e) := by
  have hen : s.mpc = .ending := (hW.ew e (mem_of_getElem? hi)).exitEn w hw hst
  exact ⟨Or.inr hen, Or.inr (Or.inl hen)⟩

theorem wTop_frame2 {P : Params} {s s' : St} {i o0 : Nat} (hW : InvW s) (hs : wTop P s i o0 = some s') : WFrame2 s s' := by
  unfold wTop at hs
  split at hs; · cases hs
  rename_i e hi
  split at hs; · cases hs
  rename_i w hw
  split at hs
  · split at hs
    · cases hs; exact WFrame2_setW hi _
    · cases hs; exact WFrame2_setW hi _
    · rename_i hst; cases hs; exact WFrame2_leave hW hi hw hst
    · split at hs <;> cases hs
      exact WFrame2_setW hi _
  · cases hs

theorem wEnc_frame2 {P : Params} {s s' : St} {i : Nat} {full : Bool} {newOut : Nat} (hW : InvW s)
    (hs : wEnc P s i full newOut = some s') : WFrame2 s s' := by
  unfold wEnc at hs
  split at hs; · cases hs
  rename_i e hi
  split at hs; · cases hs
  rename_i w hw
  split at hs
  · split at hs
    · cases hs; exact WFrame2_setW hi _
    · split at hs
      · cases hs; exact WFrame2_setW hi _
      · cases hs; exact WFrame2_setW hi _
      · rename_i hst; cases hs; exact WFrame2_leave hW hi hw hst
      · dsimp only at hs
        split at hs
        · split at hs
          · cases hs; exact WFrame2_setW hi _
          · cases hs
        · split at hs
          · cases hs; exact WFrame2_setW hi _
          · split at hs
            · cases hs; exact WFrame2_setW hi _
            · cases hs
  · cases hs

theorem wEncErr_frame2 {s s' : St} {i : Nat} {r : Ret} (hs : wEncErr s i r = some s') : WFrame2 s s' := by
  unfold wEncErr at hs
  split at hs; · cases hs
  split at hs; · cases hs
  split at hs
  · cases hs; exact ⟨Or.inl rfl, Or.inl rfl⟩
  · cases hs

theorem wFb_frame2 {P : Params} {s s' : St} {i : Nat} (hW : InvW s) (hs : wFb P s i = some s') : WFrame2 s s' := by
  unfold wFb at hs
  split at hs; · cases hs
  rename_i e hi
  split at hs; · cases hs
  rename_i w hw
  split at hs
  · split at hs <;> cases hs
    · exact WFrame2_setW hi _
    · exact WFrame2_setW hi _
    · exact WFrame2_setW hi _
    · rename_i hst; exact WFrame2_leave hW hi hw hst
    · exact WFrame2_setW hi _
  · cases hs

theorem wMarkIdle_frame2 {s s' : St} {i : Nat} (hs : wMarkIdle s i = some s') : WFrame2 s s' := by
  unfold wMarkIdle at hs
  split at hs; · cases hs
  rename_i e hi
  split at hs; · cases hs
  split at hs
  · cases hs; exact WFrame2_setW hi _
  · cases hs

theorem wTail_frame2 {s s' : St} {i : Nat} (hs : wTail s i = some s') : WFrame2 s s' := by
  unfold wTail at hs
  split at hs; · cases hs
  split at hs; · cases hs
  split at hs
  · dsimp only at hs
    split at hs <;> cases hs <;> exact ⟨Or.inl rfl, Or.inl rfl⟩
  · cases hs

theorem wSpurious_frame2 {s s' : St} {i : Nat} (hs : wSpurious s i = some s') : WFrame2 s s' := by
  unfold wSpurious at hs
  split at hs; · cases hs
  rename_i e hi
  split at hs; · cases hs
  split at hs
  · cases hs; exact WFrame2_setW hi _
  · cases hs

theorem wExitIdle_frame2 {s s' : St} (hW : InvW s) (hs : wExitIdle s = some s') : WFrame2 s s' := by
  unfold wExitIdle at hs
  split at hs
  · rename_i hg
    cases hs
    have hen : s.mpc = .ending := by
      apply Classical.byContradiction; intro hn
      have := hW.exZero hn; omega
    exact ⟨Or.inr hen, Or.inr (Or.inl hen)⟩
  · cases hs

theorem mExitOne_frame2 {s s' : St} {i : Nat} (hs : mExitOne s i = some s') : WFrame2 s s' := by
  unfold mExitOne at hs
  split at hs
  · rename_i hg
    split at hs; · cases hs
    split at hs; · cases hs
    split at hs
    · cases hs; exact ⟨Or.inr hg, Or.inr (Or.inl hg)⟩
    · cases hs
  · cases hs

theorem mExitIdle_frame2 {s s' : St} (hs : mExitIdle s = some s') : WFrame2 s s' := by
  unfold mExitIdle at hs
  split at hs
  · rename_i hg; cases hs; exact ⟨Or.inr hg.1, Or.inr (Or.inl hg.1)⟩
  · cases hs


-- ---------------------------------------------------------------------------------------------------------------------
-- main-thread steps
-- ---------------------------------------------------------------------------------------------------------------------

/-- A state whose main pc is none of waiting / afterIn / out / tailOut satisfies InvM trivially. -/
theorem InvM_trivial {s : St} (h1 : s.mpc ≠ .waiting) (h2 : s.mpc ≠ .afterIn) (h3 : s.mpc ≠ .out) (h4 : s.mpc ≠ .tailOut) : InvM s :=
  ⟨fun a => absurd a h1, fun a => absurd a h2, fun a => a.elim (fun b => absurd b h2) (fun b => absurd b h1),
   fun a => absurd a h1, fun a => absurd a h1, fun a => absurd a h3, fun a => absurd a h4⟩

/-- `ret` with a code other than LZMA_STREAM_END. -/
theorem InvM_ret_notEnd (s : St) {r : Ret} (hr : r ≠ END) : InvM (ret s r) := by
  unfold ret
  split
  · refine ⟨(by intro a; cases a), (by intro a; cases a), (by intro a; rcases a with a | a <;> cases a), (by intro a; cases a), (by intro a; cases a), ?_,
      (by intro a; cases a)⟩
    intro _ a ha
    simp at ha
    exact absurd ha.2 hr
  · exact InvM_trivial (by simp) (by simp) (by simp) (by simp)

theorem isErr_ne_END {r : Ret} (h : isErr r) : r ≠ END := h.2.1

theorem InvM_mCall {s s' : St} {inp : Bytes} {cap : Nat} {act : Action} (hs : mCall s inp cap act = some s') : InvM s' := by
  unfold mCall at hs
  split at hs
  · rename_i hg
    cases hs
    refine ⟨?_, ?_, ?_, ?_, ?_, ?_, ?_⟩
    · dsimp only; intro a; cases hq : s.seq <;> simp [hq] at a
    · dsimp only; intro a; cases hq : s.seq <;> simp [hq] at a
    · dsimp only; intro a; rcases a with a | a <;> cases hq : s.seq <;> simp [hq] at a
    · dsimp only; intro a; cases hq : s.seq <;> simp [hq] at a
    · dsimp only; intro a; cases hq : s.seq <;> simp [hq] at a
    · dsimp only; intro a; cases hq : s.seq <;> simp [hq] at a
    · dsimp only; intro a
      cases hq : s.seq <;> simp [hq] at a
      · exact hg.2.2 hq
      · exact absurd hq hg.2.1
  · cases hs

theorem InvM_mHdr {P : Params} {s s' : St} (hs : mHdr P s = some s') : InvM s' := by
  unfold mHdr at hs
  split at hs
  · dsimp only at hs
    split at hs <;> cases hs
    · exact InvM_ret_notEnd _ (by simp [OK, END])
    · exact InvM_trivial (by simp) (by simp) (by simp) (by simp)
  · cases hs

theorem InvM_mRead {P : Params} {s s' : St} (hB : InvB s) (hs : mRead P s = some s') : InvM s' := by
  unfold mRead at hs
  split at hs
  · split at hs
    · rename_i r hr; cases hs; exact InvM_ret_notEnd _ (isErr_ne_END (hB.errBad r hr))
    · split at hs
      · cases hs; exact InvM_trivial (by simp) (by simp) (by simp) (by simp)
      · split at hs
        · cases hs; exact InvM_trivial (by simp) (by simp) (by simp) (by simp)
        · dsimp only at hs
          split at hs
          · cases hs; exact InvM_trivial (by simp) (by simp) (by simp) (by simp)
          · cases hs
            apply InvM_trivial <;> (dsimp only; split <;> simp)
  · cases hs

theorem InvM_mGetThreadErr {s s' : St} {r : Ret} (hs : mGetThreadErr s r = some s') : InvM s' := by
  unfold mGetThreadErr at hs
  split at hs
  · rename_i hg; cases hs; exact InvM_ret_notEnd _ hg.2.2.2.2.1
  · cases hs

theorem InvM_mEncIn {s s' : St} (hB : InvB s) (hs : mEncIn s = some s') : InvM s' := by
  unfold mEncIn at hs
  split at hs
  · rename_i hg
    split at hs
    · rename_i hlc
      cases hs
      have hi : s.inp = [] := by simpa using hlc.1
      refine ⟨(by intro a; cases a), ?_, ?_, (by intro a; cases a), (by intro a; cases a), (by intro a; cases a), (by intro a; cases a)⟩
      · intro _
        cases ht : s.thr with
        | false => exact Or.inl rfl
        | true =>
          right; refine ⟨hi, ?_⟩
          have := hlc.2
          simp [ht] at this; exact this
      · intro _ b; exact absurd hi b
    · split at hs
      · rename_i hnt
        have hthr : s.thr = false := by simpa using hnt
        split at hs
        · rename_i hnb
          cases hs
          refine ⟨(by intro a; cases a), fun _ => Or.inl hthr, ?_, (by intro a; cases a), (by intro a; cases a), (by intro a; cases a), (by intro a; cases a)⟩
          intro _ _; left
          have : hasBuf s = false := by simpa using hnb
          exact this
        · split at hs
          · cases hs; exact InvM_trivial (by simp [hg]) (by simp [hg]) (by simp [hg]) (by simp [hg])
          · split at hs
            · cases hs; exact InvM_trivial (by simp [hg]) (by simp [hg]) (by simp [hg]) (by simp [hg])
            · rename_i hidle hni
              cases hs
              refine ⟨(by intro a; cases a), fun _ => Or.inl hthr, ?_, (by intro a; cases a), (by intro a; cases a), (by intro a; cases a), (by intro a; cases a)⟩
              intro _ _; right; dsimp only; omega
      · split at hs; · cases hs
        dsimp only at hs
        have hne := isErr_ne_END (isErr_getD hB)
        split at hs
        · cases hs; exact InvM_ret_notEnd _ hne
        · split at hs
          · cases hs; exact InvM_ret_notEnd _ hne
          · cases hs; exact InvM_trivial (by simp [hg]) (by simp [hg]) (by simp [hg]) (by simp [hg])
  · cases hs


theorem ret_END (s : St) : ret s END = { s with mpc := .out, lastRet := some (s.act, END) } := by simp [ret, END]

theorem InvM_mAfterIn {P : Params} {s s' : St} (h : InvM s) (hB : InvB s) (hs : mAfterIn P s = some s') : InvM s' := by
  unfold mAfterIn at hs
  split at hs
  · rename_i hg
    have hq := hB.pcBlock (Or.inr (Or.inr (Or.inl hg)))
    have hth := h.aThr hg
    split at hs; · cases hs; exact InvM_ret_notEnd _ (by simp [OK, END])
    rename_i h1
    split at hs
    · rename_i h2
      cases hs
      rw [ret_END]
      have hi : s.inp = [] := by simpa using h2.1
      have hthr : s.thr = false := by
        rcases hth with a | a
        · exact a
        · rw [h2.2] at a; cases a.2
      refine ⟨(by intro a; cases a), (by intro a; cases a), (by intro a; rcases a with a | a <;> cases a), (by intro a; cases a),
        (by intro a; cases a), ?_, (by intro a; cases a)⟩
      intro _ a ha
      simp [noteFlush] at ha
      subst ha
      rw [h2.2]
      exact ⟨by simp, by simp, fun _ => ⟨hthr, hq, hi⟩, by simp⟩
    rename_i h2
    split at hs
    · rename_i h3
      cases hs
      refine ⟨(by intro a; cases a), (by intro a; cases a), (by intro a; rcases a with a | a <;> cases a), (by intro a; cases a),
        (by intro a; cases a), (by intro a; cases a), fun _ => h3.2.2⟩
    rename_i h3
    split at hs
    · rename_i h4
      cases hs
      rw [ret_END]
      have hi : s.inp = [] := by simpa using h4.1
      have hnil : s.outq = [] := by simpa using h4.2.1
      have hthr : s.thr = false := by
        rcases hth with a | a
        · exact a
        · rw [h4.2.2] at a; cases a.2
      refine ⟨(by intro a; cases a), (by intro a; cases a), (by intro a; rcases a with a | a <;> cases a), (by intro a; cases a),
        (by intro a; cases a), ?_, (by intro a; cases a)⟩
      intro _ a ha
      simp [noteFlush] at ha
      subst ha
      rw [h4.2.2]
      exact ⟨by simp, fun _ => ⟨hnil, hthr, hq, hi⟩, by simp, by simp⟩
    rename_i h4
    split at hs; · cases hs; exact InvM_ret_notEnd _ (by simp [OK, END])
    rename_i h5
    cases hs
    have hthr : s.thr = false := by
      rcases hth with a | a
      · exact a
      · exact absurd ⟨by simp [a.1], a.2⟩ h1
    refine ⟨fun _ => ⟨hthr, by show 0 < s.cap; omega⟩, (by intro a; cases a), fun _ b => h.noThread (Or.inl hg) b, ?_, fun _ _ => rfl, (by intro a; cases a),
      (by intro a; cases a)⟩
    intro _ hi0
    have hi : s.inp = [] := hi0
    have hie : s.inp.isEmpty = true := by simp [hi]
    have hact : s.act = .finish ∨ s.act = .fullFlush := by
      cases ha : s.act with
      | run => exact absurd ⟨hie, ha⟩ h1
      | fullBarrier => exact absurd ⟨hie, ha⟩ h2
      | finish => exact Or.inl rfl
      | fullFlush => exact Or.inr rfl
    refine ⟨?_, hact⟩
    intro hn0
    have hn : s.outq = [] := hn0
    have hne : s.outq.isEmpty = true := by simp [hn]
    rcases hact with a | a
    · exact h3 ⟨hie, hne, a⟩
    · exact h4 ⟨hie, hne, a⟩
  · cases hs

theorem InvM_mWake {s s' : St} (h : InvM s) (hs : mWake s = some s') : InvM s' := by
  unfold mWake at hs
  split at hs
  · rename_i hg
    split at hs <;> cases hs
    · exact InvM_trivial (by simp) (by simp) (by simp) (by simp)
    · rename_i hc
      refine ⟨h.wThr, h.aThr, h.noThread, h.wEmpty, ?_, h.retEnd, h.tAct⟩
      intro _ b
      have : waitCond s = true := b
      exact absurd this hc
  · cases hs

theorem InvM_mSpurious {s s' : St} (h : InvM s) (hs : mSpurious s = some s') : InvM s' := by
  unfold mSpurious at hs
  split at hs
  · cases hs; exact ⟨h.wThr, h.aThr, h.noThread, h.wEmpty, fun _ _ => rfl, h.retEnd, h.tAct⟩
  · cases hs

theorem InvM_mTimeout {s s' : St} (hs : mTimeout s = some s') : InvM s' := by
  unfold mTimeout at hs
  split at hs
  · cases hs; exact InvM_ret_notEnd _ (by simp [TIMED_OUT, END])
  · cases hs

theorem InvM_mTail {P : Params} {s s' : St} (h : InvM s) (hs : mTail P s = some s') : InvM s' := by
  unfold mTail at hs
  split at hs
  · rename_i hg
    have hact := h.tAct hg
    dsimp only at hs
    split at hs <;> cases hs
    · exact InvM_ret_notEnd _ (by simp [OK, END])
    · rw [ret_END]
      refine ⟨(by intro a; cases a), (by intro a; cases a), (by intro a; rcases a with a | a <;> cases a), (by intro a; cases a),
        (by intro a; cases a), ?_, (by intro a; cases a)⟩
      intro _ a ha
      simp at ha
      subst ha
      rw [hact]
      exact ⟨by simp, by simp, by simp, fun _ => rfl⟩
  · cases hs

theorem InvM_mUpdate {s s' : St} {c : Nat} (h : InvM s) (hs : mUpdate s c = some s') : InvM s' := by
  unfold mUpdate at hs
  split at hs
  · rename_i hg
    split at hs <;> cases hs
    · exact ⟨h.wThr, h.aThr, h.noThread, h.wEmpty, h.wake, h.retEnd, h.tAct⟩
    · refine ⟨(by intro a; rw [hg] at a; cases a), (by intro a; rw [hg] at a; cases a), (by intro a; rw [hg] at a; rcases a with a | a <;> cases a),
        (by intro a; rw [hg] at a; cases a), (by intro a; rw [hg] at a; cases a), h.retEnd, (by intro a; rw [hg] at a; cases a)⟩
  · cases hs

theorem InvM_mEnd {s s' : St} {p : Option Cfg} (hs : mEnd s p = some s') : InvM s' := by
  unfold mEnd at hs
  split at hs
  · cases hs; exact InvM_trivial (by simp) (by simp) (by simp) (by simp)
  · cases hs

theorem InvM_mJoin {P : Params} {s s' : St} (hs : mJoin P s = some s') : InvM s' := by
  unfold mJoin at hs
  split at hs
  · split at hs <;> cases hs
    · exact InvM_trivial (by simp) (by simp) (by simp) (by simp)
    · refine ⟨(by intro a; cases a), (by intro a; cases a), (by intro a; rcases a with a | a <;> cases a), (by intro a; cases a),
        (by intro a; cases a), ?_, (by intro a; cases a)⟩
      intro _ a ha; simp [initSt] at ha
  · cases hs

theorem InvM_step {P : Params} {s s' : St} {e : Ev} (h : InvM s) (hB : InvB s) (hW : InvW s) (hs : step P s e = some s') : InvM s' := by
  cases e with
  | call inp cap act => exact InvM_mCall hs
  | mHdr => exact InvM_mHdr hs
  | mRead => exact InvM_mRead hB hs
  | mEncIn => exact InvM_mEncIn hB hs
  | mAfterIn => exact InvM_mAfterIn h hB hs
  | mTail => exact InvM_mTail h hs
  | mGetThreadErr r => exact InvM_mGetThreadErr hs
  | mWake => exact InvM_mWake h hs
  | mTimeout => exact InvM_mTimeout hs
  | mSpurious => exact InvM_mSpurious h hs
  | update c => exact InvM_mUpdate h hs
  | reinit c =>
    simp only [step] at hs
    split at hs
    · exact InvM_mEnd hs
    · cases hs
  | lzmaEnd => exact InvM_mEnd hs
  | mExitOne i => exact InvM_wframe h (mExitOne_frame hs) (mExitOne_frame2 hs)
  | mExitIdle => exact InvM_wframe h (mExitIdle_frame hs) (mExitIdle_frame2 hs)
  | mJoin => exact InvM_mJoin hs
  | wTop i o0 => exact InvM_wframe h (wTop_frame hs) (wTop_frame2 hW hs)
  | wEnc i full newOut => exact InvM_wframe h (wEnc_frame hs) (wEnc_frame2 hW hs)
  | wEncErr i r => exact InvM_wframe h (wEncErr_frame hs) (wEncErr_frame2 hs)
  | wFb i => exact InvM_wframe h (wFb_frame hs) (wFb_frame2 hW hs)
  | wMarkIdle i => exact InvM_wframe h (wMarkIdle_frame hs) (wMarkIdle_frame2 hs)
  | wTail i => exact InvM_wframe h (wTail_frame hs) (wTail_frame2 hs)
  | wSpurious i => exact InvM_wframe h (wSpurious_frame hs) (wSpurious_frame2 hs)
  | wExitIdle => exact InvM_wframe h (wExitIdle_frame hs) (wExitIdle_frame2 hW hs)

end XzVerif.MtEnc
