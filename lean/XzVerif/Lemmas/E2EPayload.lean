/-
  C01 end-to-end, step 4: THE PAYLOAD CONTRACT for the concrete models.  For every chain `pre ++ [LZMA2 d]` accepted by
  `XzEncEnv.xzChain` and every input on which the chunker accepts the parser's trace, the raw decoder of `XzEnv.stdEnv`,
  initialised from the Filter Flags the Block Header stores for the chain (dictionary size rounded up), maps
  `encPayload chain x ++ anything` to `x`, returns LZMA_STREAM_END and reports exactly `|encPayload chain x|` bytes consumed,
  with output space for exactly `x`.
  Ingredients: `lzma2Encode_sound` (the chunker writes a valid chunk sequence), `Chunks.mono` (valid for the larger
  dictionary), `lzma2Decode_of_chunks_le` (the executable decoder on chunk sequences, no spare output byte),
  `rawDecode_local` (bytes after the end marker are not looked at), `preChain_roundtrip` (C15).
-/
import XzVerif.Lemmas.E2EChunks
import XzVerif.Lemmas.E2EFilters
import XzVerif.Lemmas.XzStd
import XzVerif.Lemmas.XzEncodeStd

namespace XzVerif.E2E
open XzVerif XzVerif.Container XzVerif.XzDecode XzVerif.XzEncode XzVerif.XzEncEnv XzVerif.LzmaEnc XzVerif.Lzma2Enc
open XzVerif.LzmaSym

/-! ## the parser's contract on one input -/

/-- **The parser's contract on the input `x` of a Block with chain `fs`**: the executable chunker accepts the trace the
    parser supplies for the (pre-filtered) input — which it does exactly when every record is a symbol that expands to
    the bytes it covers (`checkSym`, the per-symbol part of `Describes`), positions are in step and the records cover the
    input.  This is hypothesis `h` of `C01.lzma2_roundtrip` (see `accepts_iff`). -/
def Accepts (p : Lzma.Props) (parser : Parser) (fs : List FilterOpts) (x : List UInt8) : Prop :=
  (rawEncode p parser fs x).isSome = true

instance (p : Lzma.Props) (parser : Parser) (fs : List FilterOpts) (x : List UInt8) : Decidable (Accepts p parser fs x) := by
  unfold Accepts; infer_instance

/-- what is asked of one input of a Block: the parser's contract, and less than 4 GiB − 5 if the chain has an x86 filter -/
def GoodInput (p : Lzma.Props) (parser : Parser) (fs : List FilterOpts) (x : List UInt8) : Prop :=
  Accepts p parser fs x ∧ (fs.any isX86 = true → x.length + 5 < 2 ^ 32)

instance (p : Lzma.Props) (parser : Parser) (fs : List FilterOpts) (x : List UInt8) : Decidable (GoodInput p parser fs x) := by
  unfold GoodInput; infer_instance

/-! ## the shape of a supported chain -/

theorem xzChain_inv (p : Lzma.Props) (fs : List FilterOpts) (h : xzChain p fs = true) :
    ∃ n pre d, validateChain (fs.map (·.id)) = .ok n ∧ fs = pre ++ [.lzma2 d] ∧ p.valid = true ∧ dictOk d = true ∧
      pre.all preInitOk = true := by
  unfold xzChain at h
  rw [Bool.and_eq_true] at h
  obtain ⟨hv, hm⟩ := h
  cases hvc : validateChain (fs.map (·.id)) with
  | error e => rw [hvc] at hv; cases hv
  | ok n =>
    cases hr : fs.reverse with
    | nil => rw [hr] at hm; cases hm
    | cons l preRev =>
      rw [hr] at hm
      have hfs : fs = preRev.reverse ++ [l] := by
        have := congrArg List.reverse hr
        simpa using this
      cases l with
      | lzma2 d =>
        simp only [Bool.and_eq_true] at hm
        exact ⟨n, preRev.reverse, d, rfl, hfs, hm.1.1, hm.1.2, by rw [List.all_reverse]; exact hm.2⟩
      | lzma1 _ _ _ _ _ => cases hm
      | bcj _ _ => cases hm
      | delta _ => cases hm
      | other _ => cases hm

theorem bcjId_mem (id : Nat) (h : (XzEnv.bcjId id).isSome = true) : id ∈ bcjIds := by
  unfold XzEnv.bcjId at h
  repeat' split at h
  all_goals first
    | (rename_i hid; subst hid; decide)
    | cases h

theorem pre_wf (o : FilterOpts) (h : preInitOk o = true) : o.wf := by
  cases o with
  | delta _ => trivial
  | bcj id off =>
    simp only [preInitOk, Bool.and_eq_true, decide_eq_true_eq] at h
    exact ⟨bcjId_mem id h.1.1, h.2⟩
  | lzma1 _ _ _ _ _ => cases h
  | lzma2 _ => cases h
  | other _ => cases h

theorem dictOk_bounds (d : Nat) (h : dictOk d = true) : 4096 ≤ d ∧ d ≤ 1610612736 := by
  simp only [dictOk, Bool.and_eq_true] at h
  exact ⟨of_decide_eq_true h.1, of_decide_eq_true h.2⟩

/-- the hypotheses `hw`, `hchain` of the container theorems of Props/C02.lean hold for a supported chain -/
theorem xzChain_wf (p : Lzma.Props) (fs : List FilterOpts) (h : xzChain p fs = true) :
    (∀ o ∈ fs, o.wf) ∧ ∃ n, validateChain (fs.map (·.id)) = .ok n := by
  obtain ⟨n, pre, d, hv, hfs, -, hd, hpre⟩ := xzChain_inv p fs h
  refine ⟨?_, n, hv⟩
  intro o ho
  rw [hfs, List.mem_append] at ho
  rcases ho with ho | ho
  · exact pre_wf o (List.all_eq_true.mp hpre o ho)
  · simp only [List.mem_singleton] at ho
    subst ho
    have := dictOk_bounds d hd
    show d < 4294967296
    omega

theorem rawInitStd_ok (p : Lzma.Props) (fs : List FilterOpts) (h : xzChain p fs = true) : rawInitStd p fs = .ok := by
  obtain ⟨n, _, _, hv, _⟩ := xzChain_inv p fs h
  unfold rawInitStd
  rw [hv]
  simp [h]

theorem propsOk_of_valid (p : Lzma.Props) (h : p.valid = true) : PropsOk p := by
  simp only [Lzma.Props.valid, Bool.and_eq_true, decide_eq_true_eq] at h
  exact ⟨h.1.2, h.2⟩

/-! ## the decoder side: the chain `lzma_raw_decoder_init` sets up from the stored Filter Flags -/

theorem pre_decodes (o : FilterOpts) (r : Filter) (hok : preInitOk o = true) (hm : FilterMatches o r) :
    (propsDecode r.id r.props).toOption = some o := by
  obtain ⟨_, _, o', hd, hto⟩ := hm
  rw [hd]
  cases o with
  | delta _ => simp only [decodesTo] at hto; rw [hto]; rfl
  | bcj _ _ => simp only [decodesTo] at hto; rw [hto]; rfl
  | lzma1 _ _ _ _ _ => cases hok
  | lzma2 _ => cases hok
  | other _ => cases hok

theorem mapM_decode : ∀ (pre : List FilterOpts) (raws : List Filter) (d : Nat),
    Forall2 FilterMatches (pre ++ [.lzma2 d]) raws → pre.all preInitOk = true →
    ∃ s, raws.mapM (fun f => (propsDecode f.id f.props).toOption) = some (pre ++ [.lzma2 s]) ∧ d ≤ s ∧ s ≤ UINT32_MAX
  | [], raws, d, h, _ => by
    cases h with
    | cons hm hrest =>
      cases hrest
      obtain ⟨_, _, o', hd, hto⟩ := hm
      obtain ⟨s, hs, h1, h2⟩ := hto
      subst hs
      refine ⟨s, ?_, by omega, h2⟩
      simp [List.mapM_cons, hd, Except.toOption]
  | o :: os, raws, d, h, hall => by
    cases h with
    | cons hm hrest =>
      simp only [List.all_cons, Bool.and_eq_true] at hall
      obtain ⟨s, hs, h1, h2⟩ := mapM_decode os _ d hrest hall.2
      refine ⟨s, ?_, h1, h2⟩
      simp [List.mapM_cons, pre_decodes o _ hall.1 hm, hs]

theorem chainOf_std (dd : Nat → List UInt8 → List UInt8) (raws : List Filter) (pre : List FilterOpts) (s : Nat)
    (decs : List (List UInt8 → List UInt8))
    (hm : raws.mapM (fun f => (propsDecode f.id f.props).toOption) = some (pre ++ [.lzma2 s]))
    (hi : pre.all filterInitOk = true) (hd : pre.mapM (XzEnv.preFilterWith dd) = some decs) :
    XzEnv.chainOf dd raws = .ok { pre := decs, last := .lzma2 s [] } := by
  unfold XzEnv.chainOf
  rw [hm]
  simp only [List.reverse_append, List.reverse_cons, List.reverse_nil, List.nil_append, List.singleton_append,
    List.all_reverse, hi, Bool.not_true, Bool.false_eq_true, if_false, List.reverse_reverse, hd, XzEnv.lastFilter]

/-- a raw chain with LZMA2 last, through `lzma2Decode` -/
theorem rawDecode_lzma2 (decs : List (List UInt8 → List UInt8)) (s : Nat) (inp : List UInt8) (cap : Nat) :
    Lzma2.rawDecode { pre := decs, last := .lzma2 s [] } inp cap =
      { ret := (Lzma2.lzma2Decode s inp [] cap).ret, out := post decs (Lzma2.lzma2Decode s inp [] cap).out,
        consumed := (Lzma2.lzma2Decode s inp [] cap).consumed } := by
  unfold Lzma2.rawDecode Lzma2.lzma2Decode
  simp only [Lzma2.LastFilter.init]
  rfl

/-- A raw chain ending in LZMA2, on the bytes of a valid LZMA2 stream `l2` for `y` followed by anything. -/
theorem rawDecode_stream (decs : List (List UInt8 → List UInt8)) (s : Nat) (l2 y t : List UInt8) (cap : Nat)
    (h : Lzma2.lzma2Decode s l2 [] cap = { ret := .streamEnd, out := y, consumed := l2.length }) :
    Lzma2.rawDecode { pre := decs, last := .lzma2 s [] } (l2 ++ t) cap =
      { ret := .streamEnd, out := post decs y, consumed := l2.length } := by
  have h0 : Lzma2.rawDecode { pre := decs, last := .lzma2 s [] } l2 cap =
      { ret := .streamEnd, out := post decs y, consumed := l2.length } := by rw [rawDecode_lzma2, h]
  have hl := Lzma2.rawDecode_local { pre := decs, last := .lzma2 s [] } l2 (l2 ++ t) cap (by rw [h0]) (Nat.le_of_eq (by rw [h0]))
    (by rw [h0]; simp)
  rw [hl, h0]

theorem hl_toBuf (y : List UInt8) : LzmaExec.hl (toBuf y) = y := by simp [LzmaExec.hl, toBuf]

theorem toBuf_size (y : List UInt8) : (toBuf y).size = y.length := by rw [← LzmaExec.hl_length, hl_toBuf]

/-- The executable chunker followed by the executable LZMA2 decoder with a dictionary at least as large, no preset
    dictionary, output space for exactly the data. -/
theorem lzma2_roundtrip_le (p : Lzma.Props) (hp : PropsOk p) (d s : Nat) (hds : d ≤ s) (hs : s ≤ 4294967295)
    (y : List UInt8) (trace : Array TraceRec) (res : EncResult)
    (h : lzma2Encode p d (toBuf y) 0 trace = .ok res) (cap : Nat) (hcap : y.length ≤ cap) :
    Lzma2.lzma2Decode s res.out [] cap = { ret := .streamEnd, out := y, consumed := res.out.length } := by
  obtain ⟨bytes, CF, hch, hoff, hout⟩ := LzmaExec.lzma2Encode_sound p d (toBuf y) 0 trace res (Nat.zero_le _) h
  have := LzmaExec.lzma2Decode_of_chunks_le p hp s hs (toBuf y) 0 (Nat.zero_le _) bytes CF (hch.mono hds) hoff cap
    (by rw [toBuf_size]; exact hcap)
  rw [List.take_zero, List.drop_zero, hl_toBuf] at this
  rw [hout, this]
  simp

/-! ## the payload round trip on one input -/

theorem rawEncode_append (p : Lzma.Props) (parser : Parser) (pre : List FilterOpts) (l : FilterOpts) (x : List UInt8) :
    rawEncode p parser (pre ++ [l]) x = match applyPre pre x with | none => none | some y => lastEnc p parser l y := by
  unfold rawEncode
  simp only [List.reverse_append, List.reverse_cons, List.reverse_nil, List.nil_append, List.singleton_append,
    List.reverse_reverse]
  cases applyPre pre x <;> rfl

/-- **payload round trip on one input.** -/
theorem payload_roundtrip_on (p : Lzma.Props) (parser : Parser) (fs : List FilterOpts) (hfs : xzChain p fs = true)
    (raws : List Filter) (hraws : Forall2 FilterMatches fs raws) (x t : List UInt8) (c : Nat)
    (hx : GoodInput p parser fs x) (hc : x.length ≤ c) :
    XzEnv.stdEnv.payload raws ((stdEncEnv p parser).encPayload fs x ++ t) c
      = ⟨.streamEnd, x, ((stdEncEnv p parser).encPayload fs x).length⟩ := by
  obtain ⟨n, pre, d, -, hfs', hpv, hd, hpre⟩ := xzChain_inv p fs hfs
  subst hfs'
  obtain ⟨hacc, hlen⟩ := hx
  have hlen' : LenOk pre x.length := by
    intro h
    apply hlen
    rw [List.any_append, h, Bool.true_or]
  obtain ⟨decs, y, hdm, hinit, hap, hpost, hyl⟩ := preChain_roundtrip pre hpre x hlen'
  obtain ⟨s, hmap, hds, hs⟩ := mapM_decode pre raws d hraws hpre
  -- the encoder side
  unfold Accepts at hacc
  rw [rawEncode_append, hap] at hacc
  simp only [lastEnc] at hacc
  cases henc : lzma2Encode p d (toBuf y) 0 (parser p d (toBuf y)) with
  | error e => rw [henc] at hacc; cases hacc
  | ok res =>
    have hpay : (stdEncEnv p parser).encPayload (pre ++ [.lzma2 d]) x = res.out := by
      show (rawEncode p parser (pre ++ [.lzma2 d]) x).getD [] = res.out
      rw [rawEncode_append, hap]
      simp only [lastEnc, henc, Option.getD_some]
    rw [hpay]
    have hrt := lzma2_roundtrip_le p (propsOk_of_valid p hpv) d s hds (by unfold UINT32_MAX at hs; omega) y _ res henc c
      (by rw [hyl]; exact hc)
    show XzEnv.payloadWith Delta.decodeAll raws (res.out ++ t) c = _
    rw [XzEnv.payloadWith_eq, chainOf_std Delta.decodeAll raws pre s decs hmap hinit hdm]
    simp only []
    rw [rawDecode_stream decs s res.out y t c hrt, hpost]

/-- The parser's contract in the form of `C01.lzma2_roundtrip`: for a chain `pre ++ [LZMA2 d]`, `Accepts` says that the
    chunker returns a result on the pre-filtered input `y`, no preset dictionary, with the parser's trace. -/
theorem accepts_iff (p : Lzma.Props) (parser : Parser) (pre : List FilterOpts) (d : Nat) (x : List UInt8) :
    Accepts p parser (pre ++ [.lzma2 d]) x ↔
      ∃ y res, applyPre pre x = some y ∧
        lzma2Encode p d (ByteArray.empty ++ toBuf y) ByteArray.empty.size (parser p d (toBuf y)) = .ok res := by
  have he : ∀ b : ByteArray, ByteArray.empty ++ b = b := fun b => ByteArray.empty_append
  have hz : ByteArray.empty.size = 0 := rfl
  unfold Accepts
  rw [rawEncode_append]
  constructor
  · intro h
    cases hap : applyPre pre x with
    | none => rw [hap] at h; cases h
    | some y =>
      rw [hap] at h
      simp only [lastEnc] at h
      cases henc : lzma2Encode p d (toBuf y) 0 (parser p d (toBuf y)) with
      | error e => rw [henc] at h; cases h
      | ok res => exact ⟨y, res, rfl, by rw [he, hz]; exact henc⟩
  · rintro ⟨y, res, hap, henc⟩
    rw [he, hz] at henc
    rw [hap]
    simp only [lastEnc, henc, Option.isSome_some]

/-! ## the uncompressed fall-back -/

/-- **UncompContract** for the standard decoder environment: uncompressed LZMA2 chunks under a header that names LZMA2
    with the minimum dictionary. -/
theorem uncomp_contract_std : UncompContract XzEnv.stdEnv := by
  intro x t c hc
  show XzEnv.payloadWith Delta.decodeAll [⟨FILTER_LZMA2, [0x00]⟩] (lzma2UncompressedChunks x ++ t) c = _
  have hch : XzEnv.chainOf Delta.decodeAll [⟨FILTER_LZMA2, [0x00]⟩] = .ok { pre := [], last := .lzma2 4096 [] } := by
    have hm : [(⟨FILTER_LZMA2, [0x00]⟩ : Filter)].mapM (fun f => (propsDecode f.id f.props).toOption)
        = some ([] ++ [.lzma2 4096]) := by decide
    exact chainOf_std Delta.decodeAll _ [] 4096 [] hm rfl rfl
  rw [XzEnv.payloadWith_eq, hch]
  simp only []
  rw [rawDecode_stream [] 4096 _ x t c (LzmaExec.lzma2Decode_uncompressedChunks 4096 (by omega) x c hc)]
  rfl

end XzVerif.E2E
