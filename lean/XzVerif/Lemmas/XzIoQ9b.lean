/- C17 invariant Q9: preservation by `exec`, coding loop and io_close. -/
import XzVerif.Lemmas.XzIoQ9a

namespace XzVerif.XzIo
variable {α : Type}

section
variable {c : Cfg α} {s : St α} (q : Q9 s)
include q

set_option hygiene false in
local macro "m9_explicit" : tactic =>
  `(tactic| exact q9_mid q hnp hsf (Frame.refl _) (Or.inr ⟨by simp [Pc.postDest, emit, msgWarn, msgError, hpc], by simp [Pc.early9, emit, msgWarn, msgError, hpc]⟩)
      (fun h => by simp [Pc.doneSrc, emit, msgWarn, msgError, hpc] at h) rfl rfl rfl rfl rfl rfl)
set_option hygiene false in
local macro "m9_iofail" : tactic =>
  `(tactic| exact q9_mid q hnp hsf (frame_ioFail c _).1 (Or.inl (ioFail_landing c _)) (ioFail_doneSrc c _) rfl rfl rfl rfl rfl rfl)
set_option hygiene false in
local macro "m9_loop" : tactic =>
  `(tactic| exact q9_mid q hnp hsf (frame_continueLoop c _).1 (Or.inl (continueLoop_landing c _)) (continueLoop_doneSrc c _)
      rfl rfl rfl rfl rfl rfl)
set_option hygiene false in
local macro "m9_cdp" : tactic =>
  `(tactic| exact q9_mid q hnp hsf (frame_closeDestPhase c _).1 (Or.inl (closeDestPhase_landing c _)) (closeDestPhase_doneSrc c _)
      rfl rfl rfl rfl rfl rfl)
set_option hygiene false in
local macro "m9_cb" : tactic =>
  `(tactic| exact q9_mid q hnp hsf (frame_closeBlock c _).1 (Or.inl (closeBlock_landing c _)) (closeBlock_doneSrc c _)
      rfl rfl rfl rfl rfl rfl)

theorem q9_exec_simple (hpc : s.pc = .lseekOut ∨ s.pc = .read ∨ s.pc = .readPoll ∨ s.pc = .writePoll ∨ s.pc = .seekHole ∨
    s.pc = .fixPos ∨ s.pc = .tailSeek ∨ s.pc = .fchownUid ∨ s.pc = .fchownGid ∨ s.pc = .fchmod ∨ s.pc = .closeDir) :
    Q9 (exec c s) := by
  rcases hpc with hpc | hpc | hpc | hpc | hpc | hpc | hpc | hpc | hpc | hpc | hpc
  all_goals
    have hnp : s.pc.postDest = false := by rw [hpc]; rfl
    have hsf : s.pc ≠ .fstatDest := by rw [hpc]; simp
    unfold exec; simp only [hpc]
    repeat' split
    all_goals first
      | m9_explicit
      | m9_iofail
      | m9_loop
      | m9_cb

theorem q9_exec_futimens (hpc : s.pc = .futimens) : Q9 (exec c s) := by
  have hnp : s.pc.postDest = false := by rw [hpc]; rfl
  have hsf : s.pc ≠ .fstatDest := by rw [hpc]; simp
  unfold exec; simp only [hpc]
  exact q9_mid q hnp hsf (frame_afterAttrs c _).1 (Or.inl (afterAttrs_landing c _)) (afterAttrs_doneSrc c _)
    rfl rfl rfl rfl rfl rfl

theorem q9_exec_fsync (hpc : s.pc = .fsyncFile ∨ s.pc = .fsyncDir) : Q9 (exec c s) := by
  rcases hpc with hpc | hpc
  all_goals
    have hnp : s.pc.postDest = false := by rw [hpc]; rfl
    have hsf : s.pc ≠ .fstatDest := by rw [hpc]; simp
    unfold exec; simp only [hpc]
    repeat' split
    all_goals first
      | m9_cdp
      | m9_explicit

theorem q9_exec_write (hpc : s.pc = .write) : Q9 (exec c s) := by
  have hnp : s.pc.postDest = false := by rw [hpc]; rfl
  have hsf : s.pc ≠ .fstatDest := by rw [hpc]; simp
  unfold exec; simp only [hpc]
  split
  · repeat' split
    all_goals first
      | m9_explicit
      | m9_iofail
  · generalize count (c.fault s.k) s.wr.length = n
    split
    · exact q9_mid q hnp hsf (frame_afterWrite c _).1 (Or.inl (afterWrite_landing c _)) (afterWrite_doneSrc c _)
        (ev := ⟨.write s.wr.length, .ok n⟩) (by simp [emit]) (by simp [emit]) (by simp [emit]) (by simp [emit])
        (by simp [emit]) (by simp [emit])
    · exact q9_mid q hnp hsf (Frame.refl _) (Or.inr ⟨by simp [Pc.postDest, emit, hpc], by simp [Pc.early9, emit, hpc]⟩)
        (fun h => by simp [Pc.doneSrc, emit, hpc] at h)
        (ev := ⟨.write s.wr.length, .ok n⟩) (by simp [emit]) (by simp [emit]) (by simp [emit]) (by simp [emit])
        (by simp [emit]) (by simp [emit])

theorem q9_exec_closeDest (hpc : s.pc = .closeDest) : Q9 (exec c s) := by
  have hsf : s.pc ≠ .fstatDest := by rw [hpc]; simp
  unfold exec; simp only [hpc]
  split
  · exact q9_late q (Frame.refl _) rfl rfl rfl rfl rfl rfl q.n9 rfl hsf (fun h => by simp [Pc.post] at h)
  · split
    · rename_i hs
      exact q9_late q (frame_closeSrcPhase c _).1 (frame_closeSrcPhase c _).2.2
        (by unfold closeSrcPhase; split <;> rfl) (landing_notEarly9 (closeSrcPhase_landing c _)) rfl rfl rfl q.n9 rfl hsf
        (fun _ h => by have h' : s.success = false := h; have hs' : s.success = true := hs; rw [hs'] at h'; simp at h')
    · exact q9_late q (Frame.refl _) rfl rfl rfl rfl rfl rfl q.n9 rfl hsf (fun h => by simp [Pc.post] at h)

theorem q9_exec_statDest (hpc : s.pc = .statDest) : Q9 (exec c s) := by
  have hsf : s.pc ≠ .fstatDest := by rw [hpc]; simp
  have csp : ∀ (s1 : St α), (closeSrcPhase c s1).pc.postDest = true := by
    intro s1; unfold closeSrcPhase; split <;> rfl
  unfold exec; simp only [hpc]
  split
  · exact q9_late q (frame_closeSrcPhase c _).1 (frame_closeSrcPhase c _).2.2 (csp _)
      (landing_notEarly9 (closeSrcPhase_landing c _)) rfl rfl rfl q.n9 rfl hsf
      (fun _ _ _ => ⟨_, List.mem_cons_self .., rfl⟩)
  · rename_i hn
    exact q9_late q (frame_closeSrcPhase c _).1 (frame_closeSrcPhase c _).2.2 (csp _)
      (landing_notEarly9 (closeSrcPhase_landing c _)) rfl rfl rfl q.n9 rfl hsf
      (fun _ _ ho => by have := q.n1 ho; rw [hn] at this; simp at this)
  · rename_i i0 _ hname
    split
    · exact q9_late q (Frame.refl _) rfl rfl rfl rfl rfl rfl q.n9 rfl hsf (fun h => by simp [Pc.post] at h)
    · rename_i hne
      refine q9_late q (frame_closeSrcPhase c _).1 (frame_closeSrcPhase c _).2.2 (csp _)
        (landing_notEarly9 (closeSrcPhase_landing c _)) rfl rfl rfl q.n9 rfl hsf ?_
      intro _ _ ho
      have h1 := q.n1 ho
      rw [hname] at h1
      have hi : i0 = inoOwn := Option.some.inj h1
      rcases q.n2 ho hsf with h2 | h2
      · exact absurd (hi.trans h2.symm) hne
      · exact h2.cons _

theorem q9_exec_unlinkDest (hpc : s.pc = .unlinkDest) : Q9 (exec c s) := by
  have hsf : s.pc ≠ .fstatDest := by rw [hpc]; simp
  have csp : ∀ (s1 : St α), (closeSrcPhase c s1).pc.postDest = true := by
    intro s1; unfold closeSrcPhase; split <;> rfl
  unfold exec; simp only [hpc]
  split
  · exact q9_late q (frame_closeSrcPhase c _).1 (frame_closeSrcPhase c _).2.2 (csp _)
      (landing_notEarly9 (closeSrcPhase_landing c _)) rfl rfl rfl q.n9 rfl hsf
      (fun _ _ _ => ⟨_, List.mem_cons_self .., rfl⟩)
  · rename_i hn
    exact q9_late q (frame_closeSrcPhase c _).1 (frame_closeSrcPhase c _).2.2 (csp _)
      (landing_notEarly9 (closeSrcPhase_landing c _)) rfl rfl rfl q.n9 rfl hsf
      (fun _ _ ho => by have := q.n1 ho; rw [hn] at this; simp at this)
  · refine q9_noOwn ?_ ?_
    · rw [closeSrcPhase_fs]; exact unlinkDstName_own s.fs q.n1
    · rw [closeSrcPhase_fs]
      show s.fs.unlinkDstName.srcName ≠ _
      unfold FS.unlinkDstName; split <;> simp <;> exact q.n9

theorem q9_exec_srcClose (hpc : s.pc = .closeSrc ∨ s.pc = .statSrc) : Q9 (exec c s) := by
  rcases hpc with hpc | hpc
  all_goals
    have hsf : s.pc ≠ .fstatDest := by rw [hpc]; simp
    have hp : s.pc.post = true := by rw [hpc]; rfl
    unfold exec; simp only [hpc]
    repeat' split
    all_goals exact q9_late q (Frame.refl _) rfl rfl rfl rfl rfl rfl q.n9 rfl hsf (fun _ h ho => (q.n3 hp h ho).cons _)

theorem q9_exec_unlinkSrc (hpc : s.pc = .unlinkSrc) : Q9 (exec c s) := by
  have hsf : s.pc ≠ .fstatDest := by rw [hpc]; simp
  have hp : s.pc.post = true := by rw [hpc]; rfl
  unfold exec; simp only [hpc]
  split
  · exact q9_late q (Frame.refl _) rfl rfl rfl rfl rfl rfl q.n9 rfl hsf (fun _ h ho => (q.n3 hp h ho).cons _)
  · exact q9_late q (Frame.refl _) rfl rfl rfl rfl rfl rfl q.n9 rfl hsf (fun _ h ho => (q.n3 hp h ho).cons _)
  · rename_i i0 _ hname
    have hi : i0 ≠ inoOwn := by intro e; rw [e] at hname; exact q.n9 hname
    have e1 : s.fs.unlinkSrcName.ownLinked = s.fs.ownLinked := by
      simp only [FS.unlinkSrcName, hname]; exact unlinkIno_ownLinked _ hi
    exact q9_late q (Frame.refl _) rfl rfl rfl rfl (unlinkSrcName_dstName s.fs) e1
      (by show s.fs.unlinkSrcName.srcName ≠ _; simp [FS.unlinkSrcName, hname]) rfl hsf
      (fun _ h ho => (q.n3 hp h ho).cons _)

end
end XzVerif.XzIo
