/-
  Termination measure: remaining main-thread transitions, and the theorem.
-/
import XzVerif.Lemmas.MtDecTerm3

namespace XzVerif.MtDec

theorem mu_rowIter {s s' : State} {c : Cause} (hs : step s (.rowIter c) = some s')
    (hne : (Label.rowIter c).isExpiry = false) : mu s' < mu s := by
  simp only [step] at hs
  split at hs
  · rename_i k w hp; cases hs; exact mu_rowIterate_lt s k w (Or.inl hp)
  · rename_i k w hp; split at hs
    · rename_i hm; cases hs; exact mu_rowIterate_lt s k w (Or.inr ⟨hp, hm⟩)
    · cases hs
  · simp [Label.isExpiry] at hne
  · cases hs

theorem mu_directStep {s s' : State} {n : Nat} {d : Bool} (F : MainFacts s) (hs : step s (.directStep n d) = some s') :
    mu s' < mu s := by
  simp only [step] at hs
  split at hs
  case isFalse => cases hs
  rename_i hg
  simp only [Bool.and_eq_true, decide_eq_true_eq] at hg
  obtain ⟨hp, hseq⟩ := hg
  have hcur := F.curLt (Or.inl ⟨hp, Or.inl hseq⟩)
  have hr := rem_succ s.cfg.threadsMax s.blocks s.cur hcur
  repeat' split at hs
  all_goals first | (cases hs; done) | skip
  all_goals (cases hs)
  all_goals (simp only [mu_eq, wSum])
  all_goals (simp only [muC, stagePotC, mloc, MS, hp, hseq, cost] at hr ⊢)
  all_goals omega

theorem mu_indexStep {s s' : State} {g : Bool} (F : MainFacts s) (hs : step s (.indexStep g) = some s') : mu s' < mu s := by
  simp only [step] at hs
  split at hs
  · rename_i hg
    simp only [Bool.and_eq_true, decide_eq_true_eq] at hg
    obtain ⟨⟨hp, hseq⟩, _⟩ := hg
    cases hs
    simp only [mu_eq, wSum]
    simp only [muC, stagePotC, mloc, MS, hp, hseq]
    omega
  · split at hs
    case isFalse => cases hs
    rename_i hg
    simp only [Bool.and_eq_true, decide_eq_true_eq] at hg
    obtain ⟨hp, hseq⟩ := hg
    have hcur := F.curLt (Or.inl ⟨hp, Or.inr hseq⟩)
    have hr := rem_succ s.cfg.threadsMax s.blocks s.cur hcur
    repeat' split at hs
    all_goals first | (cases hs; done) | skip
    all_goals (cases hs)
    all_goals (simp only [mu_eq, wSum])
    all_goals (simp only [muC, stagePotC, mloc, MS, hp, hseq, cost] at hr ⊢)
    all_goals omega

theorem wSum_append_default (s : State) : ((s.workers ++ [({} : Worker)]).map (wPot s.blocks)).sum = wSum s + 12 := by
  simp [wSum, wPot, wpc]

theorem mu_getThread {s s' : State} (hs : step s .getThread = some s') : mu s' < mu s := by
  simp only [step] at hs
  split at hs
  case isFalse => cases hs
  rename_i hp
  have hp : s.pc = .init2 := by simpa using hp
  have hst : stagePotC s.cfg.threadsMax s.seq .init3 = stagePotC s.cfg.threadsMax s.seq s.pc :=
    stagePotC_congr _ _ (by simp [hp]) (by simp)
  split at hs
  · cases hs
    simp only [mu_eq, wSum]
    simp only [muC, hst, hp, mloc]
    omega
  · split at hs
    case isFalse => cases hs
    cases hs
    rw [mu_eq, mu_eq]
    show muC s.cfg.threadsMax s.blocks s.cur s.seq .init3 s.mwoken s.queue.length
      ((s.workers ++ [({} : Worker)]).map (wPot s.blocks)).sum < _
    rw [wSum_append_default]
    simp only [muC, hst, hp, mloc]
    omega

theorem wPot_assign (bs : List Block) (w w' : Worker) (h1 : w'.pc = w.pc) (h2 : w'.woken = w.woken) (h3 : w'.pu = .disabled)
    (h4 : w'.hasOut = true) (h5 : w.hasOut = false) (h6 : w'.inPos = 0) (h7 : w'.outPos = 0) :
    wPot bs w' + (if w.pu = .start then 6 else 0) =
      wPot bs w + 20 + 8 * ((bs.getD w'.blk default).inSize + (bs.getD w'.blk default).data.length) := by
  unfold wPot
  rw [h1, h2, h3, h4, h5, h6, h7]
  simp only [reduceCtorEq, if_false, if_true, Bool.false_eq_true, Nat.sub_zero]
  omega

theorem mu_assign {s s' : State} (F : MainFacts s) (hs : step s .assign = some s') : mu s' < mu s := by
  simp only [step] at hs
  split at hs
  case h_2 => cases hs
  rename_i t hp hthr
  cases hs
  obtain ⟨htl, hno⟩ := F.thr3 hp t hthr
  have hcur := F.curLt (Or.inr hp)
  have hr := rem_succ s.cfg.threadsMax s.blocks s.cur hcur
  have hw := wSum_setW s t (assignW s t) htl
  have hnew : wPot s.blocks (assignW s t) + (if (getW s t).pu = .start then 6 else 0) =
      wPot s.blocks (getW s t) + 20 + 8 * ((s.blocks.getD s.cur default).inSize + (s.blocks.getD s.cur default).data.length) := by
    exact wPot_assign s.blocks (getW s t) (assignW s t) rfl rfl rfl rfl hno rfl rfl
  rw [mu_eq, mu_eq]
  show muC s.cfg.threadsMax s.blocks (s.cur + 1) s.seq .init4 s.mwoken (s.queue ++ [({ blk := s.cur, worker := some t } : Outbuf)]).length
    (wSum (setW s t (assignW s t))) < _
  simp only [List.length_append, List.length_cons, List.length_nil]
  simp only [muC, hp, mloc, cost, MS] at hr ⊢
  have hst : stagePotC s.cfg.threadsMax s.seq .init4 ≤ 8 * (48 + 4 * s.cfg.threadsMax) := by
    unfold stagePotC MS; cases s.seq <;> simp only [] <;> omega
  omega

theorem mu_enablePartial {s s' : State} (F : MainFacts s) (hs : step s .enablePartial = some s') : mu s' < mu s := by
  simp only [step] at hs
  split at hs
  case isFalse => cases hs
  rename_i hp
  have hp : s.pc = .init5 := by simpa using hp
  have hseq := F.init5Seq hp
  cases hs
  obtain ⟨c, _, hm, hq, hw⟩ := enablePartialHead_pot s
  rw [mu_eq, mu_eq]
  show muC (enablePartialHead s).cfg.threadsMax (enablePartialHead s).blocks (enablePartialHead s).cur .thrRun .seq
    (enablePartialHead s).mwoken (enablePartialHead s).queue.length (wSum (enablePartialHead s)) < _
  rw [c.cfg, c.blocks, c.cur, hm, hq]
  simp only [muC, stagePotC, mloc, MS, hp, hseq]
  omega

theorem mu_endJoin {s s' : State} (F : MainFacts s) (hs : step s .endJoin = some s') : mu s' < mu s := by
  have hlen := F.len
  simp only [step] at hs
  split at hs
  case h_2 => cases hs
  rename_i i k hp
  split at hs
  · rename_i hi
    split at hs
    · cases hs
      simp only [mu_eq, wSum]
      have : stagePotC s.cfg.threadsMax s.seq (.endJoin (i + 1) k) = stagePotC s.cfg.threadsMax s.seq s.pc :=
        stagePotC_congr _ _ (by simp [hp]) (by simp)
      simp only [muC, this, hp, mloc]; omega
    · cases hs
  · cases k
    · have hseq := F.joinSeq i hp
      cases hs
      rw [mu_eq, mu_eq]
      show muC s.cfg.threadsMax s.blocks s.cur .directRun .seq s.mwoken s.queue.length 0 < _
      simp only [muC, stagePotC, mloc, MS, hp, hseq]
      omega
    · cases hs
      rw [mu_eq, mu_eq]
      show muC s.cfg.threadsMax s.blocks s.cur s.seq .ended s.mwoken s.queue.length 0 < _
      have : stagePotC s.cfg.threadsMax s.seq .ended = stagePotC s.cfg.threadsMax s.seq s.pc :=
        stagePotC_congr _ _ (by simp [hp]) (by simp)
      simp only [muC, this, hp, mloc]; omega

end XzVerif.MtDec
