/-
  C08 helper lemmas, part D: what the state of a worker says about the rest of the system (THR_EXIT only during
  threads_end, THR_STOP only after an error return, unpublished Blocks only on unhealthy streams) and the thread counts.
-/
import XzVerif.Lemmas.MtEncC

namespace XzVerif.MtEnc

/-- Per-entry facts, relative to `en` = main is in threads_end, `dn` = the stream is down (lzma_code returned an error, or
    threads_end has begun), `er` = thread_error is set. -/
structure EW (en dn er : Prop) (e : Entry) : Prop where
  exitEn : ∀ w, e.wk = some w → w.state = .exit → en
  stopF : ∀ w, e.wk = some w → w.state = .stop → dn
  idleT : ∀ w, e.wk = some w → w.state = .idle → w.pc = .tail ∨ dn
  resF : ∀ w, e.wk = some w → (w.pc = .markIdle ∨ w.pc = .tail) → w.resFinish = false → er ∨ dn
  noWk : e.wk = none → e.finished = true ∨ er ∨ dn

def En (s : St) : Prop := s.mpc = .ending
def Dn (s : St) : Prop := s.mpc = .failed ∨ s.mpc = .ending
def Er (s : St) : Prop := s.err ≠ none

structure InvW (s : St) : Prop where
  ew : ∀ e ∈ s.outq, EW (En s) (Dn s) (Er s) e
  cnt : s.ninit = s.idle + busy s.outq + s.exiting
  exZero : s.mpc ≠ .ending → s.exiting = 0

theorem EW_mono {en dn er en' dn' er' : Prop} {e : Entry} (h : EW en dn er e) (h1 : en → en') (h2 : dn → dn') (h3 : er → er') :
    EW en' dn' er' e :=
  ⟨fun w hw a => h1 (h.exitEn w hw a), fun w hw a => h2 (h.stopF w hw a),
   fun w hw a => (h.idleT w hw a).elim Or.inl (fun b => Or.inr (h2 b)),
   fun w hw hp hr => (h.resF w hw hp hr).elim (fun a => Or.inl (h3 a)) (fun a => Or.inr (h2 a)),
   fun hn => (h.noWk hn).elim Or.inl (fun a => a.elim (fun b => Or.inr (Or.inl (h3 b))) (fun b => Or.inr (Or.inr (h2 b))))⟩

/-- busy after replacing entry `i`. -/
theorem busy_set {q : List Entry} {i : Nat} {e e' : Entry} (hi : q[i]? = some e) :
    busy (q.set i e') + (if e.wk.isSome then 1 else 0) = busy q + (if e'.wk.isSome then 1 else 0) := by
  unfold busy
  induction q generalizing i with
  | nil => simp at hi
  | cons x xs ih =>
    cases i with
    | zero =>
      simp at hi; subst hi
      simp only [List.set_cons_zero, List.filter_cons]
      cases h1 : x.wk.isSome <;> cases h2 : e'.wk.isSome <;> simp
    | succ j =>
      simp at hi
      have := ih hi
      simp only [List.set_cons_succ, List.filter_cons]
      cases h1 : x.wk.isSome <;> simp <;> omega

theorem busy_append (q : List Entry) (e : Entry) : busy (q ++ [e]) = busy q + (if e.wk.isSome then 1 else 0) := by
  unfold busy
  simp only [List.filter_append, List.length_append, List.filter_cons, List.filter_nil]
  cases e.wk.isSome <;> simp

theorem busy_cons (e : Entry) (q : List Entry) : busy (e :: q) = busy q + (if e.wk.isSome then 1 else 0) := by
  unfold busy
  simp only [List.filter_cons]
  cases e.wk.isSome <;> simp


theorem InvW_set {s t : St} {i : Nat} {e e' : Entry} (h : InvW s) (hi : s.outq[i]? = some e) (hq : t.outq = s.outq.set i e')
    (hmpc : t.mpc = s.mpc) (herr : Er s → Er t) (hew : EW (En s) (Dn s) (Er t) e')
    (hcnt : t.ninit = t.idle + busy t.outq + t.exiting) (hex : t.mpc ≠ .ending → t.exiting = 0) : InvW t := by
  refine ⟨?_, hcnt, hex⟩
  intro x hx
  rw [hq] at hx
  have hen : En s → En t := by unfold En; rw [hmpc]; exact id
  have hdn : Dn s → Dn t := by unfold Dn; rw [hmpc]; exact id
  refine EW_mono ?_ hen hdn id
  exact forall_mem_set (Q := EW (En s) (Dn s) (Er t)) (fun y hy => EW_mono (h.ew y hy) id id herr) hew x hx

/-- Replacing the worker context by another one (the worker stays attached): counts are unchanged. -/
theorem InvW_setW {s : St} {i : Nat} {e : Entry} {w w' : WCtx} (h : InvW s) (hi : s.outq[i]? = some e) (hw : e.wk = some w)
    (hew : EW (En s) (Dn s) (Er s) { e with wk := some w' }) : InvW (setW s i e (some w')) := by
  refine InvW_set h hi rfl rfl id hew ?_ h.exZero
  have := busy_set (e' := { e with wk := some w' }) hi
  simp [hw] at this
  simp only [setW]
  rw [this]; exact h.cnt

theorem EW_of_w {en dn er : Prop} {e : Entry} {w' : WCtx}
    (h1 : w'.state = .exit → en) (h2 : w'.state = .stop → dn) (h3 : w'.state = .idle → w'.pc = .tail ∨ dn)
    (h4 : (w'.pc = .markIdle ∨ w'.pc = .tail) → w'.resFinish = false → er ∨ dn) : EW en dn er { e with wk := some w' } :=
  ⟨by intro w hw; cases hw; exact h1, by intro w hw; cases hw; exact h2, by intro w hw; cases hw; exact h3,
   by intro w hw; cases hw; exact h4, by intro hn; cases hn⟩

theorem InvW_leave {s : St} {i : Nat} {e : Entry} {w : WCtx} (h : InvW s) (hi : s.outq[i]? = some e) (hw : e.wk = some w)
    (hst : w.state = .exit) : InvW (leave s i e) := by
  have hE := h.ew e (mem_of_getElem? hi)
  have hen : En s := hE.exitEn w hw hst
  refine InvW_set h hi rfl rfl id ⟨(by intro w hw; cases hw), (by intro w hw; cases hw), (by intro w hw; cases hw), (by intro w hw; cases hw),
    fun _ => Or.inr (Or.inr (Or.inr hen))⟩ ?_ h.exZero
  have := busy_set (e' := { e with wk := none }) hi
  simp [hw] at this
  simp only [leave]
  have hc := h.cnt
  omega

theorem InvW_wTop {P : Params} {s s' : St} {i o0 : Nat} (h : InvW s) (hs : wTop P s i o0 = some s') : InvW s' := by
  unfold wTop at hs
  split at hs; · cases hs
  rename_i e hi
  split at hs; · cases hs
  rename_i w hw
  have hE := h.ew e (mem_of_getElem? hi)
  split at hs
  · rename_i hg
    split at hs
    · rename_i hst
      cases hs
      refine InvW_setW h hi hw (EW_of_w ?_ ?_ ?_ ?_)
      · simp [sleep]
      · simp [sleep]
      · intro _; exact Or.inr (hE.stopF w hw hst)
      · simp [sleep, hg.1]
    · rename_i hst
      cases hs
      refine InvW_setW h hi hw (EW_of_w ?_ ?_ ?_ ?_)
      · simpa [sleep] using hE.exitEn w hw
      · simpa [sleep] using hE.stopF w hw
      · simpa [sleep] using hE.idleT w hw
      · simp [sleep, hg.1]
    · rename_i hst; cases hs; exact InvW_leave h hi hw hst
    · rename_i h1 h2 h3
      split at hs <;> cases hs
      refine InvW_setW h hi hw (EW_of_w ?_ ?_ ?_ ?_)
      · simpa [awake] using hE.exitEn w hw
      · simpa [awake] using hE.stopF w hw
      · intro a; simp [awake] at a; exact absurd a h2
      · simp [awake]
  · cases hs

theorem InvW_wEnc {P : Params} {s s' : St} {i : Nat} {full : Bool} {newOut : Nat} (h : InvW s)
    (hs : wEnc P s i full newOut = some s') : InvW s' := by
  unfold wEnc at hs
  split at hs; · cases hs
  rename_i e hi
  split at hs; · cases hs
  rename_i w hw
  have hE := h.ew e (mem_of_getElem? hi)
  split at hs
  · rename_i hg
    have hidle : w.state = .idle → Dn s := by
      intro a; rcases hE.idleT w hw a with b | b
      · rw [hg.1] at b; cases b
      · exact b
    split at hs
    · cases hs
      refine InvW_setW h hi hw (EW_of_w ?_ ?_ ?_ ?_)
      · simpa [sleep] using hE.exitEn w hw
      · simpa [sleep] using hE.stopF w hw
      · intro a; simp [sleep] at a; exact Or.inr (hidle a)
      · simp [sleep, hg.1]
    · split at hs
      · rename_i hst; cases hs
        refine InvW_setW h hi hw (EW_of_w ?_ ?_ ?_ ?_)
        · simp [awake, hst]
        · intro _; exact hE.stopF w hw hst
        · simp [awake, hst]
        · intro _ _; exact Or.inr (hE.stopF w hw hst)
      · rename_i hst; cases hs
        refine InvW_setW h hi hw (EW_of_w ?_ ?_ ?_ ?_)
        · simp [awake, hst]
        · simp [awake, hst]
        · intro _; exact Or.inr (hidle hst)
        · intro _ _; exact Or.inr (hidle hst)
      · rename_i hst; cases hs; exact InvW_leave h hi hw hst
      · rename_i st h1 h2 h3
        dsimp only at hs
        split at hs
        · split at hs
          · cases hs
            refine InvW_setW h hi hw (EW_of_w ?_ ?_ ?_ ?_)
            · simpa [awake] using hE.exitEn w hw
            · simpa [awake] using hE.stopF w hw
            · intro a; simp [awake] at a; exact absurd a h2
            · simp [awake]
          · cases hs
        · split at hs
          · cases hs
            refine InvW_setW h hi hw (EW_of_w ?_ ?_ ?_ ?_)
            · simpa [awake] using hE.exitEn w hw
            · simpa [awake] using hE.stopF w hw
            · intro a; simp [awake] at a; exact absurd a h2
            · simp [awake]
          · split at hs
            · cases hs
              refine InvW_setW h hi hw (EW_of_w ?_ ?_ ?_ ?_)
              · simpa [awake] using hE.exitEn w hw
              · simpa [awake] using hE.stopF w hw
              · intro a; simp [awake] at a; exact absurd a h2
              · simp [awake, hg.1]
            · cases hs
  · cases hs

theorem InvW_wEncErr {s s' : St} {i : Nat} {r : Ret} (h : InvW s) (hs : wEncErr s i r = some s') : InvW s' := by
  unfold wEncErr at hs
  split at hs; · cases hs
  rename_i e hi
  split at hs; · cases hs
  rename_i w hw
  have hE := h.ew e (mem_of_getElem? hi)
  split at hs
  · rename_i hg
    cases hs
    have her : Er { setW s i e (some { awake w with pc := .markIdle, resFinish := false }) with err := some (s.err.getD r), mWoken := true } := by
      simp [Er]
    refine InvW_set h hi rfl rfl (fun _ => her) (EW_of_w ?_ ?_ ?_ ?_) ?_ h.exZero
    · simpa [awake] using hE.exitEn w hw
    · simpa [awake] using hE.stopF w hw
    · intro a; simp [awake] at a
      rcases hE.idleT w hw a with b | b
      · rw [hg.1] at b; cases b
      · exact Or.inr b
    · intro _ _; exact Or.inl her
    · have := busy_set (e' := { e with wk := some { awake w with pc := .markIdle, resFinish := false } }) hi
      simp [hw] at this
      simp only [setW]
      rw [this]; exact h.cnt
  · cases hs

theorem InvW_wFb {P : Params} {s s' : St} {i : Nat} (h : InvW s) (hs : wFb P s i = some s') : InvW s' := by
  unfold wFb at hs
  split at hs; · cases hs
  rename_i e hi
  split at hs; · cases hs
  rename_i w hw
  have hE := h.ew e (mem_of_getElem? hi)
  split at hs
  · rename_i hg
    have hidle : w.state = .idle → Dn s := by
      intro a; rcases hE.idleT w hw a with b | b
      · rw [hg.1] at b; cases b
      · exact b
    split at hs <;> cases hs
    · rename_i hst
      refine InvW_setW h hi hw (EW_of_w ?_ ?_ ?_ ?_)
      · simpa [sleep] using hE.exitEn w hw
      · simpa [sleep] using hE.stopF w hw
      · intro a; simp [sleep] at a; exact Or.inr (hidle a)
      · simp [sleep, hg.1]
    · rename_i hst
      refine InvW_setW h hi hw (EW_of_w ?_ ?_ ?_ ?_)
      · simp [awake, hst]
      · intro _; exact hE.stopF w hw hst
      · simp [awake, hst]
      · intro _ _; exact Or.inr (hE.stopF w hw hst)
    · rename_i hst
      refine InvW_setW h hi hw (EW_of_w ?_ ?_ ?_ ?_)
      · simp [awake, hst]
      · simp [awake, hst]
      · intro _; exact Or.inr (hidle hst)
      · intro _ _; exact Or.inr (hidle hst)
    · rename_i hst; exact InvW_leave h hi hw hst
    · rename_i hst
      refine InvW_setW h hi hw (EW_of_w ?_ ?_ ?_ ?_)
      · simp [awake, hst]
      · simp [awake, hst]
      · simp [awake, hst]
      · simp [awake]
  · cases hs

theorem InvW_wMarkIdle {s s' : St} {i : Nat} (h : InvW s) (hs : wMarkIdle s i = some s') : InvW s' := by
  unfold wMarkIdle at hs
  split at hs; · cases hs
  rename_i e hi
  split at hs; · cases hs
  rename_i w hw
  have hE := h.ew e (mem_of_getElem? hi)
  split at hs
  · rename_i hg
    cases hs
    refine InvW_setW h hi hw (EW_of_w ?_ ?_ ?_ ?_)
    · dsimp only; intro a
      by_cases hx : w.state = .exit
      · exact hE.exitEn w hw hx
      · simp [hx] at a
    · dsimp only; intro a; split at a <;> cases a
    · intro _; exact Or.inl rfl
    · intro _ hr; exact hE.resF w hw (Or.inl hg) hr
  · cases hs

theorem InvW_wTail {s s' : St} {i : Nat} (h : InvW s) (hs : wTail s i = some s') : InvW s' := by
  unfold wTail at hs
  split at hs; · cases hs
  rename_i e hi
  split at hs; · cases hs
  rename_i w hw
  have hE := h.ew e (mem_of_getElem? hi)
  split at hs
  · rename_i hg
    have hnew : EW (En s) (Dn s) (Er s) { e with finished := e.finished || w.resFinish, wk := none } := by
      refine ⟨(by intro w hw; cases hw), (by intro w hw; cases hw), (by intro w hw; cases hw), (by intro w hw; cases hw), ?_⟩
      intro _
      cases hr : w.resFinish with
      | true => left; simp
      | false => right; exact hE.resF w hw (Or.inr hg) hr
    have hb := busy_set (e' := { e with finished := e.finished || w.resFinish, wk := none }) hi
    simp [hw] at hb
    have hc := h.cnt
    dsimp only at hs
    split at hs <;> cases hs
    · rename_i hst
      have hen : En s := hE.exitEn w hw hst
      refine InvW_set h hi rfl rfl id hnew ?_ ?_
      · dsimp only; omega
      · intro a; exact absurd hen a
    · refine InvW_set h hi rfl rfl id hnew ?_ h.exZero
      dsimp only; omega
  · cases hs

theorem InvW_wSpurious {s s' : St} {i : Nat} (h : InvW s) (hs : wSpurious s i = some s') : InvW s' := by
  unfold wSpurious at hs
  split at hs; · cases hs
  rename_i e hi
  split at hs; · cases hs
  rename_i w hw
  have hE := h.ew e (mem_of_getElem? hi)
  split at hs
  · cases hs
    exact InvW_setW h hi hw (EW_of_w (hE.exitEn w hw) (hE.stopF w hw) (hE.idleT w hw) (hE.resF w hw))
  · cases hs

theorem InvW_wExitIdle {s s' : St} (h : InvW s) (hs : wExitIdle s = some s') : InvW s' := by
  unfold wExitIdle at hs
  split at hs
  · rename_i hg
    cases hs
    have hc := h.cnt
    refine ⟨h.ew, ?_, ?_⟩
    · dsimp only; omega
    · intro a; have := h.exZero a; omega
  · cases hs

-- ---------------------------------------------------------------------------------------------------------------------
-- main-thread steps
-- ---------------------------------------------------------------------------------------------------------------------

/-- A main-thread step that leaves the queue, the error flag and the counters alone and stays clear of `failed`/`ending`. -/
theorem InvW_main {s t : St} (h : InvW s) (hq : t.outq = s.outq) (hs : s.mpc ≠ .ending ∧ s.mpc ≠ .failed)
    (herr : t.err = s.err) (h1 : t.idle = s.idle) (h2 : t.ninit = s.ninit)
    (h3 : t.exiting = s.exiting) : InvW t := by
  refine ⟨?_, by rw [h1, h2, h3, hq]; exact h.cnt, fun _ => by rw [h3]; exact h.exZero hs.1⟩
  intro x hx
  rw [hq] at hx
  refine EW_mono (h.ew x hx) ?_ ?_ ?_
  · unfold En; exact fun a => absurd a hs.1
  · unfold Dn; exact fun a => a.elim (fun b => absurd b hs.2) (fun b => absurd b hs.1)
  · unfold Er; rw [herr]; exact id

theorem InvW_ret {s : St} (r : Ret) (h : InvW s) (hs : s.mpc ≠ .ending ∧ s.mpc ≠ .failed) : InvW (ret s r) := by
  unfold ret
  split
  · exact InvW_main h rfl hs rfl rfl rfl rfl
  · refine ⟨?_, ?_, fun _ => h.exZero hs.1⟩
    · intro x hx
      rcases mem_mapWorkers hx with ⟨e0, h0, rfl⟩
      have hE := h.ew e0 h0
      refine ⟨?_, ?_, ?_, ?_, ?_⟩
      · intro w hw
        cases hk : e0.wk with
        | none => simp [hk] at hw
        | some w0 => simp [hk] at hw; subst hw; simp
      · intro _ _ _; exact Or.inl rfl
      · intro w hw
        cases hk : e0.wk with
        | none => simp [hk] at hw
        | some w0 => simp [hk] at hw; subst hw; simp
      · intro _ _ _ _; exact Or.inr (Or.inl rfl)
      · intro _; exact Or.inr (Or.inr (Or.inl rfl))
    · simp only [stopAll, busy_mapWorkers]; exact h.cnt

theorem InvW_mCall {s s' : St} {inp : Bytes} {cap : Nat} {act : Action} (h : InvW s) (hs : mCall s inp cap act = some s') : InvW s' := by
  unfold mCall at hs
  split at hs
  · rename_i hg
    cases hs
    exact InvW_main h rfl (by simp [hg.1]) rfl rfl rfl rfl
  · cases hs

theorem InvW_mHdr {P : Params} {s s' : St} (h : InvW s) (hs : mHdr P s = some s') : InvW s' := by
  unfold mHdr at hs
  split at hs
  · rename_i hg
    dsimp only at hs
    split at hs <;> cases hs
    · exact InvW_ret _ (InvW_main h rfl (by simp [hg]) rfl rfl rfl rfl) (by simp [hg])
    · exact InvW_main h rfl (by simp [hg]) rfl rfl rfl rfl
  · cases hs

theorem InvW_mRead {P : Params} {s s' : St} (h : InvW s) (hA : InvA P s) (hs : mRead P s = some s') : InvW s' := by
  unfold mRead at hs
  split at hs
  · rename_i hg
    have hpc : s.mpc ≠ .ending ∧ s.mpc ≠ .failed := by simp [hg]
    split at hs
    · cases hs; exact InvW_ret _ h hpc
    · split at hs
      · cases hs; exact InvW_main h rfl hpc rfl rfl rfl rfl
      · rename_i e rest hcons
        split at hs
        · cases hs; exact InvW_main h rfl hpc rfl rfl rfl rfl
        · rename_i hfin
          have hfin' : e.finished = true := by simpa using hfin
          have hwk : e.wk = none := ((hA e (by rw [hcons]; exact List.mem_cons_self)).fin hfin').2
          dsimp only at hs
          split at hs
          · cases hs; exact InvW_main h rfl hpc rfl rfl rfl rfl
          · cases hs
            have hb : busy s.outq = busy rest := by rw [hcons, busy_cons, hwk]; simp
            refine ⟨?_, ?_, fun _ => h.exZero hpc.1⟩
            · intro x hx
              have hx' : x ∈ s.outq := by rw [hcons]; exact List.mem_cons_of_mem _ hx
              refine EW_mono (h.ew x hx') ?_ ?_ id
              · unfold En; exact fun a => absurd a hpc.1
              · unfold Dn; exact fun a => a.elim (fun b => absurd b hpc.2) (fun b => absurd b hpc.1)
            · dsimp only; rw [← hb]; exact h.cnt
  · cases hs

theorem InvW_mGetThreadErr {s s' : St} {r : Ret} (h : InvW s) (hs : mGetThreadErr s r = some s') : InvW s' := by
  unfold mGetThreadErr at hs
  split at hs
  · rename_i hg; cases hs; exact InvW_ret _ h (by simp [hg.1])
  · cases hs

theorem InvW_mAfterIn {P : Params} {s s' : St} (h : InvW s) (hs : mAfterIn P s = some s') : InvW s' := by
  unfold mAfterIn at hs
  split at hs
  · rename_i hg
    have hpc : s.mpc ≠ .ending ∧ s.mpc ≠ .failed := by simp [hg]
    have hnf : InvW (noteFlush s) := InvW_main h rfl hpc rfl rfl rfl rfl
    split at hs; · cases hs; exact InvW_ret _ h hpc
    split at hs; · cases hs; exact InvW_ret _ hnf hpc
    split at hs; · cases hs; exact InvW_main h rfl hpc rfl rfl rfl rfl
    split at hs; · cases hs; exact InvW_ret _ hnf hpc
    split at hs; · cases hs; exact InvW_ret _ h hpc
    cases hs; exact InvW_main h rfl hpc rfl rfl rfl rfl
  · cases hs

theorem InvW_mWake {s s' : St} (h : InvW s) (hs : mWake s = some s') : InvW s' := by
  unfold mWake at hs
  split at hs
  · rename_i hg
    split at hs <;> cases hs <;> exact InvW_main h rfl (by simp [hg.1]) rfl rfl rfl rfl
  · cases hs

theorem InvW_mSpurious {s s' : St} (h : InvW s) (hs : mSpurious s = some s') : InvW s' := by
  unfold mSpurious at hs
  split at hs
  · rename_i hg; cases hs; exact InvW_main h rfl (by simp [hg]) rfl rfl rfl rfl
  · cases hs

theorem InvW_mTimeout {s s' : St} (h : InvW s) (hs : mTimeout s = some s') : InvW s' := by
  unfold mTimeout at hs
  split at hs
  · rename_i hg; cases hs; exact InvW_ret _ h (by simp [hg.1])
  · cases hs

theorem InvW_mTail {P : Params} {s s' : St} (h : InvW s) (hs : mTail P s = some s') : InvW s' := by
  unfold mTail at hs
  split at hs
  · rename_i hg
    dsimp only at hs
    split at hs <;> cases hs <;> exact InvW_ret _ (InvW_main h rfl (by simp [hg]) rfl rfl rfl rfl) (by simp [hg])
  · cases hs

theorem InvW_mUpdate {s s' : St} {c : Nat} (h : InvW s) (hs : mUpdate s c = some s') : InvW s' := by
  unfold mUpdate at hs
  split at hs
  · rename_i hg
    split at hs <;> cases hs <;> exact InvW_main h rfl (by simp [hg]) rfl rfl rfl rfl
  · cases hs

theorem InvW_mEnd {s s' : St} {p : Option Cfg} (h : InvW s) (hs : mEnd s p = some s') : InvW s' := by
  unfold mEnd at hs
  split at hs
  · rename_i hg
    cases hs
    refine ⟨?_, h.cnt, fun a => absurd rfl a⟩
    intro x hx
    refine EW_mono (h.ew x hx) (fun _ => rfl) (fun _ => Or.inr rfl) id
  · cases hs

theorem InvW_mExitOne {s s' : St} {i : Nat} (h : InvW s) (hs : mExitOne s i = some s') : InvW s' := by
  unfold mExitOne at hs
  split at hs
  · rename_i hg
    split at hs; · cases hs
    rename_i e hi
    split at hs; · cases hs
    rename_i w hw
    have hE := h.ew e (mem_of_getElem? hi)
    split at hs
    · cases hs
      refine InvW_set h hi rfl rfl id (EW_of_w (fun _ => hg) (by simp) (by simp) ?_) ?_ h.exZero
      · intro _ _; exact Or.inr (Or.inr hg)
      · have := busy_set (e' := { e with wk := some { w with state := .exit, woken := true } }) hi
        simp [hw] at this
        dsimp only; rw [this]; exact h.cnt
    · cases hs
  · cases hs

theorem InvW_mExitIdle {s s' : St} (h : InvW s) (hs : mExitIdle s = some s') : InvW s' := by
  unfold mExitIdle at hs
  split at hs
  · rename_i hg
    cases hs
    have hc := h.cnt
    refine ⟨h.ew, ?_, fun a => absurd hg.1 a⟩
    dsimp only; omega
  · cases hs

theorem InvW_mJoin {P : Params} {s s' : St} (hs : mJoin P s = some s') : InvW s' := by
  unfold mJoin at hs
  split at hs
  · split at hs <;> cases hs <;> exact ⟨by intro e he; simp [initSt] at he, by simp [initSt, busy], by simp [initSt]⟩
  · cases hs

theorem eq_dropLast_append {q : List Entry} {e : Entry} (h : q.getLast? = some e) : q = q.dropLast ++ [e] := by
  induction q with
  | nil => simp at h
  | cons a l ih =>
    cases l with
    | nil => simp at h; subst h; rfl
    | cons b l =>
      rw [List.getLast?_cons_cons] at h
      have := ih h
      simp only [List.dropLast_cons_cons, List.cons_append]
      rw [← this]

theorem InvW_mEncIn {s s' : St} (h : InvW s) (hs : mEncIn s = some s') : InvW s' := by
  unfold mEncIn at hs
  split at hs
  · rename_i hg
    have hpc : s.mpc ≠ .ending ∧ s.mpc ≠ .failed := by simp [hg]
    split at hs; · cases hs; exact InvW_main h rfl hpc rfl rfl rfl rfl
    split at hs
    · split at hs; · cases hs; exact InvW_main h rfl hpc rfl rfl rfl rfl
      have newE : ∀ (w : WCtx) (o c : Nat), w.state = .run → w.pc = .top →
          EW (En s) (Dn s) (Er s) { ord := o, chain := c, wk := some w } := by
        intro w o c h1 h2
        refine ⟨?_, ?_, ?_, ?_, (by intro a; cases a)⟩
        · intro w' hw' a; cases hw'; rw [h1] at a; cases a
        · intro w' hw' a; cases hw'; rw [h1] at a; cases a
        · intro w' hw' a; cases hw'; rw [h1] at a; cases a
        · intro w' hw' a; cases hw'; rw [h2] at a; rcases a with a | a <;> cases a
      split at hs
      · rename_i hidle
        cases hs
        refine ⟨?_, ?_, fun _ => h.exZero hpc.1⟩
        · intro x hx
          simp only [List.mem_append, List.mem_singleton] at hx
          rcases hx with hx | rfl
          · exact h.ew x hx
          · exact newE _ _ _ rfl rfl
        · have hc := h.cnt
          dsimp only; rw [busy_append]; simp; omega
      · split at hs
        · cases hs
          refine ⟨?_, ?_, fun _ => h.exZero hpc.1⟩
          · intro x hx
            simp only [List.mem_append, List.mem_singleton] at hx
            rcases hx with hx | rfl
            · exact h.ew x hx
            · exact newE _ _ _ rfl rfl
          · have hc := h.cnt
            dsimp only; rw [busy_append]; simp; omega
        · cases hs; exact InvW_main h rfl hpc rfl rfl rfl rfl
    · split at hs; · cases hs
      rename_i e hl
      have hE := h.ew e (List.mem_of_getLast? hl)
      dsimp only at hs
      have s1W : ∀ t : St, t.outq = s.outq → t.mpc = s.mpc → t.err = s.err → t.idle = s.idle → t.ninit = s.ninit → t.exiting = s.exiting → InvW t :=
        fun t a _ c d e f => InvW_main h a hpc c d e f
      split at hs
      · cases hs; exact InvW_ret _ (s1W _ rfl rfl rfl rfl rfl rfl) hpc
      · rename_i w hw
        split at hs
        · cases hs; exact InvW_ret _ (s1W _ rfl rfl rfl rfl rfl rfl) hpc
        · rename_i hnidle
          cases hs
          have hqe := eq_dropLast_append hl
          refine ⟨?_, ?_, fun _ => h.exZero hpc.1⟩
          · intro x hx
            simp only [List.mem_append, List.mem_singleton] at hx
            rcases hx with hx | rfl
            · exact h.ew x ((List.dropLast_sublist _).subset hx)
            · refine ⟨?_, ?_, ?_, ?_, (by intro a; cases a)⟩
              · intro w' hw' a; cases hw'
                dsimp only at a
                split at a
                · cases a
                · exact hE.exitEn w hw a
              · intro w' hw' a; cases hw'
                dsimp only at a
                split at a
                · cases a
                · exact hE.stopF w hw a
              · intro w' hw' a; cases hw'
                dsimp only at a
                split at a
                · cases a
                · exact absurd a hnidle
              · intro w' hw' a b; cases hw'
                exact hE.resF w hw a b
          · have hc := h.cnt
            have hb1 : busy s.outq = busy s.outq.dropLast + 1 := by
              conv => lhs; rw [hqe]
              rw [busy_append, hw]; simp
            dsimp only; rw [busy_append]; simp; omega
  · cases hs

theorem InvW_step {P : Params} {s s' : St} {e : Ev} (h : InvW s) (hA : InvA P s) (hs : step P s e = some s') : InvW s' := by
  cases e with
  | call inp cap act => exact InvW_mCall h hs
  | mHdr => exact InvW_mHdr h hs
  | mRead => exact InvW_mRead h hA hs
  | mEncIn => exact InvW_mEncIn h hs
  | mAfterIn => exact InvW_mAfterIn h hs
  | mTail => exact InvW_mTail h hs
  | mGetThreadErr r => exact InvW_mGetThreadErr h hs
  | mWake => exact InvW_mWake h hs
  | mTimeout => exact InvW_mTimeout h hs
  | mSpurious => exact InvW_mSpurious h hs
  | update c => exact InvW_mUpdate h hs
  | reinit c =>
    simp only [step] at hs
    split at hs
    · exact InvW_mEnd h hs
    · cases hs
  | lzmaEnd => exact InvW_mEnd h hs
  | mExitOne i => exact InvW_mExitOne h hs
  | mExitIdle => exact InvW_mExitIdle h hs
  | mJoin => exact InvW_mJoin hs
  | wTop i o0 => exact InvW_wTop h hs
  | wEnc i full newOut => exact InvW_wEnc h hs
  | wEncErr i r => exact InvW_wEncErr h hs
  | wFb i => exact InvW_wFb h hs
  | wMarkIdle i => exact InvW_wMarkIdle h hs
  | wTail i => exact InvW_wTail h hs
  | wSpurious i => exact InvW_wSpurious h hs
  | wExitIdle => exact InvW_wExitIdle h hs

end XzVerif.MtEnc
