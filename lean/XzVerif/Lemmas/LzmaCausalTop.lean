/-
  Causality of the LZMA decoder model, part 5: the whole-input functions `Lzma2.rawDecode`, `Lzma.lzmaDecode`,
  `Lzma2.lzma2Decode`.

  If the decoder returns LZMA_STREAM_END on `x` having consumed `n` bytes, then on every input `y` that agrees with `x` on the
  first `n` bytes it returns exactly the same result (`rawDecode_local`, `lzmaDecode_local`, `lzma2Decode_local`).
  Also: consumed ≤ input length, and the set of possible return codes.
-/
import XzVerif.Lemmas.LzmaCausalLz
import XzVerif.Lemmas.C03Fuel

namespace XzVerif.Lzma2
open XzVerif.RangeDec XzVerif.LzDict XzVerif.Lzma

theorem byteArray_mk_getElem (l : List UInt8) (i : Nat) (_h : i < (ByteArray.mk l.toArray).size) (h' : i < l.length) :
    (ByteArray.mk l.toArray)[i] = l[i] := by
  show l.toArray[i] = l[i]
  simp

theorem agree_of_take (x y : List UInt8) (n : Nat) (hle : n ≤ x.length) (h : x.take n = y.take n) :
    Agree n (ByteArray.mk x.toArray) (ByteArray.mk y.toArray) := by
  have hy : n ≤ y.length := by
    have := congrArg List.length h
    simp only [List.length_take] at this
    omega
  refine ⟨by rw [byteArray_mk_size]; exact hle, by rw [byteArray_mk_size]; exact hy, ?_⟩
  intro i hi hi' hin
  have hix : i < x.length := by rw [byteArray_mk_size] at hi; exact hi
  have hiy : i < y.length := by rw [byteArray_mk_size] at hi'; exact hi'
  rw [byteArray_mk_getElem x i hi hix, byteArray_mk_getElem y i hi' hiy]
  have h1 : (x.take n)[i]'(by rw [List.length_take]; omega) = x[i] := List.getElem_take
  have h2 : (y.take n)[i]'(by rw [List.length_take]; omega) = y[i] := List.getElem_take
  rw [← h1, ← h2]
  simp only [h]

theorem Rel.fields {n : Nat} {t t' : St} (h : Rel n t t') :
    t'.hist = t.hist ∧ t'.outBase = t.outBase ∧ t'.inPos = t.inPos := by
  obtain ⟨w, c, c', rfl, rfl, _⟩ := h
  exact ⟨rfl, rfl, rfl⟩

/-- the core statement at the coder level -/
theorem Coder.code_local (n : Nat) (kind : Kind) (v : St) (b b' : ByteArray) (hag : Agree n b b') (cap : Nat)
    (hok : (⟨kind, St.withInp v b'⟩ : Coder).Ok2)
    (hend : (Coder.code ⟨kind, St.withInp v b⟩ cap).1 = .streamEnd)
    (hpos : (Coder.code ⟨kind, St.withInp v b⟩ cap).2.consumed ≤ n) :
    (Coder.code ⟨kind, St.withInp v b'⟩ cap).1 = .streamEnd
    ∧ (Coder.code ⟨kind, St.withInp v b'⟩ cap).2.output = (Coder.code ⟨kind, St.withInp v b⟩ cap).2.output
    ∧ (Coder.code ⟨kind, St.withInp v b'⟩ cap).2.consumed = (Coder.code ⟨kind, St.withInp v b⟩ cap).2.consumed := by
  have hnp := (Coder.code_no_prog_error _ cap hok).1
  rcases Coder.code_rel n kind v b b' hag cap with hs | ⟨h1, _⟩ | hp | hp
  · obtain ⟨hret, hrel⟩ := hs
    have hf := Rel.fields hrel
    refine ⟨?_, ?_, hf.2.2⟩
    · have : (Coder.code ⟨kind, St.withInp v b⟩ cap).1 = (Coder.code ⟨kind, St.withInp v b'⟩ cap).1 := hret
      rw [← this]; exact hend
    · unfold Coder.output
      have e1 : (Coder.code ⟨kind, St.withInp v b'⟩ cap).2.s.hist = (Coder.code ⟨kind, St.withInp v b⟩ cap).2.s.hist := hf.1
      have e2 : (Coder.code ⟨kind, St.withInp v b'⟩ cap).2.s.outBase = (Coder.code ⟨kind, St.withInp v b⟩ cap).2.s.outBase := hf.2.1
      rw [e1, e2]
  · exfalso
    rcases h1 with h1 | h1
    · have : n < (Coder.code ⟨kind, St.withInp v b⟩ cap).2.consumed := h1
      omega
    · exact h1 hend
  · have : (Coder.code ⟨kind, St.withInp v b⟩ cap).1 = .progError := hp
    rw [hend] at this; cases this
  · exact absurd hp hnp

/-! ### initialisation does not look at the input -/

theorem LastFilter.init_cases (f : LastFilter) (b b' : ByteArray) :
    (∃ r, f.init b = .error r ∧ f.init b' = .error r) ∨
    (∃ kind v, f.init b = .ok ⟨kind, St.withInp v b⟩ ∧ f.init b' = .ok ⟨kind, St.withInp v b'⟩
      ∧ (⟨kind, St.withInp v b'⟩ : Coder).Ok2) := by
  cases f with
  | lzma1 props d p =>
    simp only [LastFilter.init]
    split
    · exact Or.inl ⟨_, rfl, rfl⟩
    · exact Or.inr ⟨.lzma1, St.initLzma1 props d none (true || (none : Option Nat).isNone) p ByteArray.empty, rfl, rfl,
        Coder.ok2_initLzma1 props d none true p b'⟩
  | lzma1ext props d p fl e =>
    simp only [LastFilter.init]
    split
    · exact Or.inl ⟨_, rfl, rfl⟩
    · split
      · exact Or.inl ⟨_, rfl, rfl⟩
      · exact Or.inr ⟨.lzma1, St.initLzma1 props d (if e == UINT64_MAX then none else some e)
            ((fl &&& LZMA_LZMA1EXT_ALLOW_EOPM != 0) || (if e == UINT64_MAX then none else some e).isNone) p ByteArray.empty,
          rfl, rfl, Coder.ok2_initLzma1 props d _ _ p b'⟩
  | lzma2 d p =>
    exact Or.inr ⟨.lzma2, initLzma2 d p ByteArray.empty, rfl, rfl, Coder.ok2_initLzma2 d p b'⟩

/-- RAW CHAINS ARE LOCAL IN THE INPUT: if `rawDecode` returns LZMA_STREAM_END on `x` having consumed `n` bytes, it returns the
    same result on every `y` that agrees with `x` on the first `n` bytes. -/
theorem rawDecode_local (ch : Chain) (x y : List UInt8) (cap : Nat)
    (hend : (rawDecode ch x cap).ret = .streamEnd) (hle : (rawDecode ch x cap).consumed ≤ x.length)
    (htake : x.take (rawDecode ch x cap).consumed = y.take (rawDecode ch x cap).consumed) :
    rawDecode ch y cap = rawDecode ch x cap := by
  have hag := agree_of_take x y _ hle htake
  generalize hn : (rawDecode ch x cap).consumed = n at hag
  unfold rawDecode at hend hn ⊢
  rcases LastFilter.init_cases ch.last (ByteArray.mk x.toArray) (ByteArray.mk y.toArray) with ⟨r, e1, e2⟩ | ⟨kind, v, e1, e2, hok⟩
  · rw [e1, e2]
  · rw [e1] at hend hn
    rw [e1, e2]
    simp only [] at hend hn ⊢
    have hl := Coder.code_local n kind v _ _ hag cap hok hend (by rw [hn]; exact Nat.le_refl _)
    rw [hl.1, hl.2.1, hl.2.2, hend]

/-- a raw chain never claims more input than it was given -/
theorem rawDecode_consumed_le (ch : Chain) (x : List UInt8) (cap : Nat) : (rawDecode ch x cap).consumed ≤ x.length := by
  unfold rawDecode
  rcases LastFilter.init_cases ch.last (ByteArray.mk x.toArray) (ByteArray.mk x.toArray) with ⟨r, e1, _⟩ | ⟨kind, v, e1, _, hok⟩
  · rw [e1]; exact Nat.zero_le _
  · rw [e1]
    simp only []
    have h := (Coder.code_spec ⟨kind, St.withInp v (ByteArray.mk x.toArray)⟩ cap hok.ok).2.2.2.1
    have e : (⟨kind, St.withInp v (ByteArray.mk x.toArray)⟩ : Coder).s.inp.size = x.length := byteArray_mk_size x
    rw [e] at h
    exact h

/-! ### LZMA1 alone (`Lzma.lzmaDecode`) and LZMA2 alone (`lzma2Decode`) -/

theorem initLzma1_produced (props : Props) (d : Nat) (u : Option Nat) (a : Bool) (preset : List UInt8) (input : ByteArray) :
    (St.initLzma1 props d u a preset input).produced = 0 := by
  simp [St.produced, St.initLzma1, St.resetLzma, byteArray_mk_size]

/-- `lzmaDecode` through the coder interface -/
theorem lzmaDecode_eq (props : Props) (d : Nat) (u : Option Nat) (a : Bool) (x preset : List UInt8) (cap : Nat) :
    lzmaDecode props d u a x preset cap =
      { ret := ((Coder.initLzma1 props d u a preset (ByteArray.mk x.toArray)).code cap).1,
        out := ((Coder.initLzma1 props d u a preset (ByteArray.mk x.toArray)).code cap).2.output,
        consumed := ((Coder.initLzma1 props d u a preset (ByteArray.mk x.toArray)).code cap).2.consumed } := by
  unfold Coder.initLzma1
  rw [Coder.code_lzma1, initLzma1_produced, Nat.zero_add]
  unfold lzmaDecode
  simp only []
  generalize decodeBuffer lzmaCall _ cap _ = r
  rfl

theorem lzmaDecode_local (props : Props) (d : Nat) (u : Option Nat) (a : Bool) (preset : List UInt8) (cap : Nat)
    (x y : List UInt8)
    (hend : (lzmaDecode props d u a x preset cap).ret = .streamEnd)
    (hle : (lzmaDecode props d u a x preset cap).consumed ≤ x.length)
    (htake : x.take (lzmaDecode props d u a x preset cap).consumed = y.take (lzmaDecode props d u a x preset cap).consumed) :
    lzmaDecode props d u a y preset cap = lzmaDecode props d u a x preset cap := by
  have hag := agree_of_take x y _ hle htake
  generalize hn : (lzmaDecode props d u a x preset cap).consumed = n at hag
  have e : ∀ inp, Coder.initLzma1 props d u a preset inp =
      ⟨.lzma1, St.withInp (St.initLzma1 props d u (a || u.isNone) preset ByteArray.empty) inp⟩ := fun _ => rfl
  rw [lzmaDecode_eq, e] at hend hn
  rw [lzmaDecode_eq, lzmaDecode_eq, e, e]
  simp only [] at hend hn
  have hok := Coder.ok2_initLzma1 props d u a preset (ByteArray.mk y.toArray)
  have hl := Coder.code_local n .lzma1 (St.initLzma1 props d u (a || u.isNone) preset ByteArray.empty) _ _ hag cap hok hend
    (Nat.le_of_eq hn)
  rw [hl.1, hl.2.1, hl.2.2, hend]

theorem lzma2Decode_local (d : Nat) (preset : List UInt8) (cap : Nat) (x y : List UInt8)
    (hend : (lzma2Decode d x preset cap).ret = .streamEnd)
    (hle : (lzma2Decode d x preset cap).consumed ≤ x.length)
    (htake : x.take (lzma2Decode d x preset cap).consumed = y.take (lzma2Decode d x preset cap).consumed) :
    lzma2Decode d y preset cap = lzma2Decode d x preset cap := by
  have hag := agree_of_take x y _ hle htake
  generalize hn : (lzma2Decode d x preset cap).consumed = n at hag
  have e : ∀ inp, Coder.initLzma2 d preset inp = ⟨.lzma2, St.withInp (initLzma2 d preset ByteArray.empty) inp⟩ := fun _ => rfl
  unfold lzma2Decode at hend hn ⊢
  rw [e] at hend hn
  rw [e, e]
  simp only [] at hend hn ⊢
  have hok := Coder.ok2_initLzma2 d preset (ByteArray.mk y.toArray)
  have hl := Coder.code_local n .lzma2 (initLzma2 d preset ByteArray.empty) _ _ hag cap hok hend
    (Nat.le_of_eq hn)
  rw [hl.1, hl.2.1, hl.2.2, hend]

/-- `lzmaDecode` never claims more input than it was given -/
theorem lzmaDecode_consumed_le (props : Props) (d : Nat) (u : Option Nat) (a : Bool) (x preset : List UInt8) (cap : Nat) :
    (lzmaDecode props d u a x preset cap).consumed ≤ x.length := by
  rw [lzmaDecode_eq]
  have h := Coder.code_spec (Coder.initLzma1 props d u a preset (ByteArray.mk x.toArray)) cap (Coder.ok_initLzma1 _ _ _ _ _ _)
  have := h.2.2.2.1
  have e : (Coder.initLzma1 props d u a preset (ByteArray.mk x.toArray)).s.inp.size = x.length := byteArray_mk_size x
  rw [e] at this
  exact this

/-! ### the possible return codes -/

/-- the return codes of the raw LZMA decoders (+ LZMA_PROG_ERROR, which is excluded separately by the fuel theorems) -/
def RawRet (r : Ret) : Prop := r = .ok ∨ r = .streamEnd ∨ r = .dataError ∨ r = .progError

theorem exitRet_raw (r : EStateM.Result Exit St Unit) : RawRet (exitRet r) := by
  cases r with
  | ok a t => exact Or.inr (Or.inr (Or.inr rfl))
  | error e t =>
    cases e with
    | needInput => exact Or.inl rfl
    | dataError => exact Or.inr (Or.inr (Or.inl rfl))
    | streamEnd => exact Or.inr (Or.inl rfl)
    | outFull p => exact Or.inl rfl
    | fuel => exact Or.inr (Or.inr (Or.inr rfl))

theorem lzmaFinish_raw (r : EStateM.Result Exit St Unit) (cl st : Nat) (u : Option Nat) : RawRet (lzmaFinish r cl st u).1 := by
  unfold lzmaFinish
  simp only []
  have : ∀ c : Bool, RawRet (if c = true then Ret.dataError else exitRet r) := by
    intro c
    cases c
    · exact exitRet_raw r
    · exact Or.inr (Or.inr (Or.inl rfl))
  exact this _

theorem lzmaCall_raw (s : St) : RawRet (lzmaCall s).1 := by
  by_cases h : s.pending = .stuck
  · rw [lzmaCall_stuck s h]; exact Or.inl rfl
  · rw [lzmaCall_not_stuck s h]
    cases rcReadInitN s.initLeft s with
    | error e t => exact Or.inr (Or.inr (Or.inl rfl))
    | ok a t =>
      cases a with
      | false => exact Or.inl rfl
      | true => exact lzmaFinish_raw _ _ _ _

theorem decodeBuffer_raw (code : St → Ret × St) (hc : ∀ s, RawRet (code s).1) :
    ∀ f cap s, RawRet (decodeBuffer code f cap s).1
  | 0, cap, s => by unfold decodeBuffer; exact Or.inr (Or.inr (Or.inr rfl))
  | f + 1, cap, s => by
    rw [decodeBuffer_succ]
    have h := hc (dbPrep cap s)
    generalize code (dbPrep cap s) = r at h
    unfold dbPost
    split
    · split
      · exact h
      · exact decodeBuffer_raw code hc f cap _
    · split
      · exact h
      · exact decodeBuffer_raw code hc f cap _

theorem lzmaDecode_raw (props : Props) (d : Nat) (u : Option Nat) (a : Bool) (x preset : List UInt8) (cap : Nat) :
    RawRet (lzmaDecode props d u a x preset cap).ret := by
  unfold lzmaDecode
  simp only []
  exact decodeBuffer_raw lzmaCall lzmaCall_raw _ _ _

/-! ### the same for LZMA2 and for raw chains -/

def StepRaw : Step → Prop
  | .done r => RawRet r.1
  | .next _ => True

theorem l2Step_raw (s : St) : StepRaw (l2Step s) := by
  by_cases hq : s.l2.seq = .lzma
  · rw [l2Step_lzma s hq]
    have hr := lzmaCall_raw s
    generalize lzmaCall s = r at hr
    unfold l2Lzma
    split
    · exact Or.inr (Or.inr (Or.inl rfl))
    · simp only []
      split
      · exact hr
      · split
        · exact Or.inr (Or.inr (Or.inl rfl))
        · trivial
  · by_cases hg : s.inPos < s.inp.size
    · by_cases hc : s.l2.seq = .copy
      · rw [l2Step_copy s hc hg]
        have := (l2Copy_facts s hc).2
        cases hst : l2Copy s with
        | done r => rw [hst] at this; exact Or.inl this.1
        | next s1 => trivial
      · rw [l2Step_byte s hq hc hg]
        generalize curByte s = byte
        cases hs : s.l2.seq with
        | control =>
          simp only [l2Byte]
          unfold l2Control
          split
          · exact Or.inr (Or.inl rfl)
          · split
            · exact Or.inr (Or.inr (Or.inl rfl))
            · simp only []
              split
              · exact Or.inl rfl
              · trivial
        | properties =>
          simp only [l2Byte]
          cases propsDecode byte with
          | none => exact Or.inr (Or.inr (Or.inl rfl))
          | some p => trivial
        | uncompressed1 => trivial
        | uncompressed2 => trivial
        | compressed0 => trivial
        | compressed1 => trivial
        | lzma => trivial
        | copy => trivial
    · rw [l2Step_starve s hq hg]
      exact Or.inl rfl

theorem lzma2Loop_raw : ∀ f s, RawRet (lzma2Loop f s).1
  | 0, s => by unfold lzma2Loop; exact Or.inr (Or.inr (Or.inr rfl))
  | f + 1, s => by
    rw [lzma2Loop_succ]
    have h := l2Step_raw s
    cases hst : l2Step s with
    | done r => rw [hst] at h; exact h
    | next s1 => exact lzma2Loop_raw f s1

theorem lzma2Call_raw (s : St) : RawRet (lzma2Call s).1 := lzma2Loop_raw _ s

theorem Coder.code_raw (c : Coder) (cap : Nat) : RawRet (c.code cap).1 := by
  obtain ⟨kind, s⟩ := c
  cases kind with
  | lzma1 => rw [Coder.code_lzma1]; exact decodeBuffer_raw lzmaCall lzmaCall_raw _ _ _
  | lzma2 => rw [Coder.code_lzma2]; exact decodeBuffer_raw lzma2Call lzma2Call_raw _ _ _

/-- a raw chain answers LZMA_OK / LZMA_STREAM_END / LZMA_DATA_ERROR, or an initialisation error (LZMA_PROG_ERROR,
    LZMA_OPTIONS_ERROR); never LZMA_FORMAT_ERROR -/
theorem rawDecode_ne_formatError (ch : Chain) (x : List UInt8) (cap : Nat) : (rawDecode ch x cap).ret ≠ .formatError := by
  unfold rawDecode
  cases hi : ch.last.init (ByteArray.mk x.toArray) with
  | error r =>
    simp only []
    cases hl : ch.last with
    | lzma1 props d p =>
      rw [hl] at hi; simp only [LastFilter.init] at hi
      split at hi
      · cases hi; simp
      · cases hi
    | lzma1ext props d p fl e =>
      rw [hl] at hi; simp only [LastFilter.init] at hi
      split at hi
      · cases hi; simp
      · split at hi
        · cases hi; simp
        · cases hi
    | lzma2 d p => rw [hl] at hi; simp only [LastFilter.init] at hi; cases hi
  | ok c =>
    simp only []
    have h := Coder.code_raw c cap
    intro hc
    rw [hc] at h
    rcases h with h | h | h | h <;> cases h

end XzVerif.Lzma2
