/-
  Completeness of the Index decoder model (`indexHashDecode`, Model/XzDecode.lean): the converse of
  `indexHashDecode_streamEnd` (Lemmas/XzDecode.lean).  The canonical encoding `indexEncode blocks` of the Blocks that were
  appended to the hash is accepted, has the length `lzma_index_hash_size` reports, and determines the Records.
  Kernel proofs, core Lean only.
-/
import XzVerif.Lemmas.XzLocal
import XzVerif.Lemmas.C02Index
namespace XzVerif.XzDecode
open XzVerif XzVerif.Vli XzVerif.Container

/-- the per-Record limits that `lzma_index_hash_append` / the Index decoder enforce -/
def RecordOk (r : IndexRecord) : Prop :=
  UNPADDED_SIZE_MIN ≤ r.unpadded ∧ r.unpadded ≤ UNPADDED_SIZE_MAX ∧ r.uncompressed ≤ VLI_MAX

theorem RecordOk.unpadded_vli {r : IndexRecord} (h : RecordOk r) : r.unpadded ≤ VLI_MAX := by
  have h2 := h.2.1
  simp only [UNPADDED_SIZE_MAX, VLI_MAX] at *
  omega

/-! ## the sums of the hash are additive -/

theorem hBlocksSize_append (a b : HashInfo) : hBlocksSize (a ++ b) = hBlocksSize a + hBlocksSize b := by
  simp [hBlocksSize, List.map_append, List.sum_append]

theorem hUncompressedSize_append (a b : HashInfo) :
    hUncompressedSize (a ++ b) = hUncompressedSize a + hUncompressedSize b := by
  simp [hUncompressedSize, List.map_append, List.sum_append]

theorem hIndexListSize_append (a b : HashInfo) : hIndexListSize (a ++ b) = hIndexListSize a + hIndexListSize b := by
  simp [hIndexListSize, List.map_append, List.sum_append]

theorem indexRecordsBytes_nil : indexRecordsBytes [] = [] := rfl

/-- the Records of valid size pairs take `index_list_size` bytes -/
theorem indexRecordsBytes_length_ok (rs : HashInfo) (h : ∀ r ∈ rs, RecordOk r) :
    (indexRecordsBytes rs).length = hIndexListSize rs := by
  induction rs with
  | nil => simp [indexRecordsBytes, hIndexListSize]
  | cons r rest ih =>
    have hr : RecordOk r := h r (by simp)
    have := ih (fun x hx => h x (by simp [hx]))
    rw [indexRecordsBytes_cons, hIndexListSize_cons]
    simp only [List.length_append, vliEncode_length' _ hr.unpadded_vli, vliEncode_length' _ hr.2.2, this]

theorem indexEncode_length (final : HashInfo) (hrec : ∀ r ∈ final, RecordOk r) (hcnt : final.length ≤ VLI_MAX) :
    (indexEncode final).length = indexHashSize final := by
  unfold indexEncode
  simp only [List.length_append, List.length_cons, List.length_replicate, le32_length,
    indexRecordsBytes_length_ok final hrec, vliEncode_length' _ hcnt]
  have hl : indexListSize final = hIndexListSize final := rfl
  rw [hl]
  unfold indexHashSize hCount indexSize indexPaddingSize ceil4 indexSizeUnpadded
  omega

/-! ## the Record loop accepts the canonical bytes -/

theorem isEmpty_append_false_of_length {a b : List UInt8} (h : 1 ≤ a.length) : ¬ ((a ++ b).isEmpty = true) := by
  cases a with
  | nil => simp at h
  | cons x xs => simp

/-- SEQ_PADDING_INIT … SEQ_CRC32 on the canonical tail: `U` bytes precede the CRC32. -/
theorem indexFinish_complete (blocks : HashInfo) (all : List UInt8) (used U : Nat) (t : List UInt8)
    (hU : U = used + indexPad blocks) :
    indexFinish blocks blocks all used (List.replicate (indexPad blocks) 0 ++ (le32 (crc32 (all.take U)) ++ t))
      = ⟨.streamEnd, U + 4⟩ := by
  unfold indexFinish
  have he : ¬ ((List.replicate (indexPad blocks) 0 ++ (le32 (crc32 (all.take U)) ++ t)).isEmpty = true) := by
    simp [le32]
  rw [if_neg he]
  simp only []
  have hp : padCheck ((4 - indexSizeUnpadded (hCount blocks) (hIndexListSize blocks) % 4) % 4)
      (List.replicate (indexPad blocks) 0 ++ (le32 (crc32 (all.take U)) ++ t))
      = (.streamEnd, indexPad blocks, le32 (crc32 (all.take U)) ++ t) := padCheck_complete (indexPad blocks) _
  rw [hp]
  simp only []
  have he2 : ¬ ((le32 (crc32 (all.take U)) ++ t).isEmpty = true) := by simp [le32]
  rw [if_neg he2]
  have hs : ¬ (hBlocksSize blocks ≠ hBlocksSize blocks ∨ hUncompressedSize blocks ≠ hUncompressedSize blocks
      ∨ hIndexListSize blocks ≠ hIndexListSize blocks) := by simp
  rw [if_neg hs]
  have hq : ¬ (blocks ≠ blocks) := by simp
  rw [if_neg hq, ← hU, matchBytes_complete, le32_length]

theorem indexRecords_complete (blocks : HashInfo) (all : List UInt8) (U : Nat) (t : List UInt8) :
    ∀ (todo records : HashInfo) (used : Nat) (inp : List UInt8),
      blocks = records ++ todo → (∀ r ∈ todo, RecordOk r) →
      U = used + (indexRecordsBytes todo).length + indexPad blocks →
      inp = indexRecordsBytes todo ++ (List.replicate (indexPad blocks) 0 ++ (le32 (crc32 (all.take U)) ++ t)) →
      indexRecords blocks all todo.length records used inp = ⟨.streamEnd, U + 4⟩ := by
  intro todo
  induction todo with
  | nil =>
    intro records used inp hb _ hU hinp
    have hb' : blocks = records := by simpa using hb
    subst hb'
    simp only [indexRecordsBytes_nil, List.length_nil, Nat.add_zero, List.nil_append] at hU hinp
    subst hinp
    simp only [List.length_nil, indexRecords]
    exact indexFinish_complete blocks all used U t hU
  | cons r rest ih =>
    intro records used inp hb hok hU hinp
    have hr : RecordOk r := hok r (by simp)
    have hrest : ∀ x ∈ rest, RecordOk x := fun x hx => hok x (by simp [hx])
    generalize htail : List.replicate (indexPad blocks) 0 ++ (le32 (crc32 (all.take U)) ++ t) = tail at hinp ih
    have hinp' : inp = vliEncode r.unpadded ++ (vliEncode r.uncompressed ++ (indexRecordsBytes rest ++ tail)) := by
      rw [hinp, indexRecordsBytes_cons]; simp only [List.append_assoc]
    simp only [List.length_cons, indexRecords]
    have he : ¬ (inp.isEmpty = true) := by
      rw [hinp']; exact isEmpty_append_false_of_length (vliEncode_ne_nil _)
    rw [if_neg he]
    have hv1 : indexVli inp = .ok (r.unpadded, (vliEncode r.unpadded).length) := by
      rw [hinp']; exact indexVli_complete _ hr.unpadded_vli _
    rw [hv1]
    simp only []
    have hrange : ¬ (r.unpadded < UNPADDED_SIZE_MIN ∨ r.unpadded > UNPADDED_SIZE_MAX) := by
      have h1 := hr.1; have h2 := hr.2.1; omega
    rw [if_neg hrange]
    have hd1 : inp.drop (vliEncode r.unpadded).length = vliEncode r.uncompressed ++ (indexRecordsBytes rest ++ tail) := by
      rw [hinp']; exact List.drop_left' rfl
    rw [hd1]
    have he2 : ¬ ((vliEncode r.uncompressed ++ (indexRecordsBytes rest ++ tail)).isEmpty = true) :=
      isEmpty_append_false_of_length (vliEncode_ne_nil _)
    rw [if_neg he2, indexVli_complete _ hr.2.2]
    simp only []
    have hrs : records ++ [{ unpadded := r.unpadded, uncompressed := r.uncompressed }] = records ++ [r] := rfl
    rw [hrs]
    have hb2 : blocks = (records ++ [r]) ++ rest := by rw [hb]; simp
    have hcmp : ¬ (hBlocksSize blocks < hBlocksSize (records ++ [r])
        ∨ hUncompressedSize blocks < hUncompressedSize (records ++ [r])
        ∨ hIndexListSize blocks < hIndexListSize (records ++ [r])) := by
      have e1 := hBlocksSize_append (records ++ [r]) rest
      have e2 := hUncompressedSize_append (records ++ [r]) rest
      have e3 := hIndexListSize_append (records ++ [r]) rest
      rw [← hb2] at e1 e2 e3
      omega
    rw [if_neg hcmp]
    have hd2 : (vliEncode r.uncompressed ++ (indexRecordsBytes rest ++ tail)).drop (vliEncode r.uncompressed).length
        = indexRecordsBytes rest ++ tail := List.drop_left' rfl
    rw [hd2]
    refine ih (records ++ [r]) _ _ hb2 hrest ?_ rfl
    rw [hU, indexRecordsBytes_cons]
    simp only [List.length_append]
    omega

/-! ## the whole Index -/

/-- The Index decoder accepts the canonical encoding of the Blocks it was told about, whatever follows. -/
theorem indexHashDecode_complete' (final : HashInfo) (hrec : ∀ r ∈ final, RecordOk r) (hcnt : final.length ≤ VLI_MAX)
    (t : List UInt8) :
    indexHashDecode final (indexEncode final ++ t) = ⟨.streamEnd, indexHashSize final⟩ := by
  have hlen := indexEncode_length final hrec hcnt
  generalize hpad : indexPaddingSize final.length (indexListSize final) = pad at *
  have hpad' : indexPad final = pad := by rw [indexPad_eq, hpad]
  generalize hbody : (UInt8.ofNat INDEX_INDICATOR :: (vliEncode final.length ++ indexRecordsBytes final))
      ++ List.replicate pad (0 : UInt8) = body
  have henc : indexEncode final = body ++ le32 (crc32 body) := by
    unfold indexEncode
    simp only [hpad, hbody]
  have hall : indexEncode final ++ t
      = (0 : UInt8) :: (vliEncode final.length ++ (indexRecordsBytes final ++ (List.replicate pad 0 ++ (le32 (crc32 body) ++ t)))) := by
    rw [henc, ← hbody]; simp [INDEX_INDICATOR]
  generalize hA : indexEncode final ++ t = all at *
  have htake : all.take body.length = body := by
    rw [← hA, henc, List.append_assoc]; exact List.take_left' rfl
  have hbl : body.length = 1 + (vliEncode final.length).length + (indexRecordsBytes final).length + pad := by
    rw [← hbody]; simp only [List.length_append, List.length_cons, List.length_replicate]; omega
  have hsz : indexHashSize final = body.length + 4 := by
    rw [← hlen, henc, List.length_append, le32_length]
  rw [hsz]
  conv => lhs; rw [hall]
  unfold indexHashDecode
  simp only []
  have g0 : ¬ ((0 : UInt8).toNat ≠ INDEX_INDICATOR) := by simp [INDEX_INDICATOR]
  rw [if_neg g0]
  have he : ¬ ((vliEncode final.length ++ (indexRecordsBytes final ++ (List.replicate pad 0 ++ (le32 (crc32 body) ++ t)))).isEmpty = true) :=
    isEmpty_append_false_of_length (vliEncode_ne_nil _)
  rw [if_neg he, indexVli_complete _ hcnt]
  simp only []
  have hc : ¬ (final.length ≠ hCount final) := by simp [hCount]
  rw [if_neg hc, List.drop_left' rfl, ← hall]
  refine indexRecords_complete final all body.length t final [] _ _ (by simp) hrec ?_ ?_
  · rw [hbl, hpad']
  · rw [htake, hpad']

/-- the Index decoder accepts the canonical encoding of the Blocks it was told about, provided at least one more byte follows
    (the C loop runs its last comparison inside `while (*in_pos < in_size)`; in a file the Stream Footer follows) -/
theorem indexHashDecode_complete (final : HashInfo) (hrec : ∀ r ∈ final, RecordOk r) (hcnt : final.length ≤ VLI_MAX)
    (t : List UInt8) (_ht : t ≠ []) :
    indexHashDecode final (indexEncode final ++ t) = ⟨.streamEnd, indexHashSize final⟩ :=
  indexHashDecode_complete' final hrec hcnt t

/-! ## the Index bytes determine the Records -/

theorem indexRecordsBytes_injective : ∀ (a b : HashInfo) (s s' : List UInt8),
    a.length = b.length → (∀ r ∈ a, RecordOk r) → (∀ r ∈ b, RecordOk r) →
    indexRecordsBytes a ++ s = indexRecordsBytes b ++ s' → a = b := by
  intro a
  induction a with
  | nil =>
    intro b s s' hl _ _ _
    cases b with
    | nil => rfl
    | cons y ys => simp at hl
  | cons x xs ih =>
    intro b s s' hl ha hb h
    cases b with
    | nil => simp at hl
    | cons y ys =>
      have hx : RecordOk x := ha x (by simp)
      have hy : RecordOk y := hb y (by simp)
      rw [indexRecordsBytes_cons, indexRecordsBytes_cons] at h
      simp only [List.append_assoc] at h
      have d1 := congrArg vliDecode h
      rw [vliDecode_encode _ hx.unpadded_vli, vliDecode_encode _ hy.unpadded_vli] at d1
      simp only [Option.some.injEq, Prod.mk.injEq] at d1
      obtain ⟨hu, h2⟩ := d1
      have d2 := congrArg vliDecode h2
      rw [vliDecode_encode _ hx.2.2, vliDecode_encode _ hy.2.2] at d2
      simp only [Option.some.injEq, Prod.mk.injEq] at d2
      obtain ⟨hc, h3⟩ := d2
      have hrest := ih ys s s' (by simpa using hl) (fun r hr => ha r (by simp [hr])) (fun r hr => hb r (by simp [hr])) h3
      have hxy : x = y := by
        cases x; cases y; simp only at hu hc; subst hu hc; rfl
      rw [hxy, hrest]

/-- Records can be read back from the Index bytes -/
theorem indexEncode_injective (a b : HashInfo) (ha : ∀ r ∈ a, RecordOk r) (hb : ∀ r ∈ b, RecordOk r)
    (hla : a.length ≤ VLI_MAX) (hlb : b.length ≤ VLI_MAX) (h : indexEncode a = indexEncode b) : a = b := by
  unfold indexEncode at h
  simp only [List.cons_append, List.append_assoc, List.cons.injEq, true_and] at h
  have d := congrArg vliDecode h
  rw [vliDecode_encode _ hla, vliDecode_encode _ hlb] at d
  simp only [Option.some.injEq, Prod.mk.injEq] at d
  obtain ⟨hl, h2⟩ := d
  exact indexRecordsBytes_injective a b _ _ hl ha hb h2

end XzVerif.XzDecode
