/-
  C13 helper lemmas: cumulative Records as prefix sums of the specification's Blocks; where Record `rec` of group `gi`
  sits in the Stream's list of Blocks; what the group bases are in terms of the Blocks.
-/
import XzVerif.Lemmas.IndexRefine

namespace XzVerif.Index
namespace Impl

/-! ### prefixes of cumulative Records -/

theorem recsOk_take : ∀ (recs : List Rec) (pu pc n : Nat), RecsOk recs pu pc → RecsOk (recs.take n) pu pc
  | [], _, _, _, _ => by simp [RecsOk]
  | _ :: _, _, _, 0, _ => by simp [RecsOk]
  | r :: rest, pu, pc, n + 1, h => by
    obtain ⟨h1, h2, h3⟩ := h
    simp only [List.take_succ_cons]
    exact ⟨h1, h2, recsOk_take rest _ _ n h3⟩

theorem blocksOfRecs_take : ∀ (recs : List Rec) (pu pc n : Nat),
    blocksOfRecs (recs.take n) pu pc = (blocksOfRecs recs pu pc).take n
  | [], _, _, _ => by simp [blocksOfRecs]
  | _ :: _, _, _, 0 => by simp [blocksOfRecs]
  | r :: rest, pu, pc, n + 1 => by
    simp only [List.take_succ_cons, blocksOfRecs]
    rw [blocksOfRecs_take rest]

/-- converse of `recsOk_append` -/
theorem recsOk_snoc_inv : ∀ (recs : List Rec) (pu pc : Nat) (r : Rec), RecsOk (recs ++ [r]) pu pc →
    vliCeil4 (lastUnp recs pu) ≤ r.unpaddedSum ∧ lastUnc recs pc ≤ r.uncompressedSum
  | [], pu, pc, r, h => by
    simp only [List.nil_append, RecsOk] at h
    simpa [lastUnp, lastUnc] using ⟨h.1, h.2.1⟩
  | a :: rest, pu, pc, r, h => by
    obtain ⟨_, _, hc⟩ := h
    rw [lastUnp_cons, lastUnc_cons]
    exact recsOk_snoc_inv rest _ _ r hc

theorem lastUnc_snoc (recs : List Rec) (r : Rec) (pc : Nat) : lastUnc (recs ++ [r]) pc = r.uncompressedSum := by
  simp [lastUnc]
theorem lastUnp_snoc (recs : List Rec) (r : Rec) (pu : Nat) : lastUnp (recs ++ [r]) pu = r.unpaddedSum := by
  simp [lastUnp]

/-- the last cumulative sums of the first `n` Records are the sums of the first `n` Blocks -/
theorem prefix_sums {recs : List Rec} (h : RecsOk recs 0 0) (n : Nat) :
    lastUnc (recs.take n) 0 = uncompSize ((blocksOfRecs recs 0 0).take n)
    ∧ vliCeil4 (lastUnp (recs.take n) 0) = blocksSize ((blocksOfRecs recs 0 0).take n) := by
  obtain ⟨a, b⟩ := blocksOfRecs_sums (recs.take n) 0 0 (recsOk_take recs 0 0 n h)
  rw [blocksOfRecs_take] at a b
  have : vliCeil4 0 = 0 := rfl
  constructor
  · omega
  · omega

/-- Record `j`: its sums are the sums of the Blocks up to and including Block `j`, and Block `j` is the difference -/
theorem rec_at {recs : List Rec} (h : RecsOk recs 0 0) {j : Nat} {r : Rec} (hr : recs[j]? = some r) :
    ∃ b, (blocksOfRecs recs 0 0)[j]? = some b
      ∧ r.unpaddedSum = blocksSize ((blocksOfRecs recs 0 0).take j) + b.unpadded
      ∧ r.uncompressedSum = uncompSize ((blocksOfRecs recs 0 0).take j) + b.uncompressed := by
  have hj : j < recs.length := (List.getElem?_eq_some_iff.mp hr).1
  have hrj : recs[j] = r := (List.getElem?_eq_some_iff.mp hr).2
  have htake : recs.take (j + 1) = recs.take j ++ [r] := by
    rw [List.take_succ_eq_append_getElem hj, hrj]
  obtain ⟨p1, p2⟩ := prefix_sums h j
  have hok := recsOk_take recs 0 0 (j + 1) h
  rw [htake] at hok
  obtain ⟨i1, i2⟩ := recsOk_snoc_inv _ _ _ _ hok
  have hB : (blocksOfRecs recs 0 0).take (j + 1)
      = (blocksOfRecs recs 0 0).take j ++ [⟨r.unpaddedSum - vliCeil4 (lastUnp (recs.take j) 0), r.uncompressedSum - lastUnc (recs.take j) 0⟩] := by
    rw [← blocksOfRecs_take, htake, blocksOfRecs_append, blocksOfRecs_take]
  have hlen : ((blocksOfRecs recs 0 0).take j).length = j := by
    rw [List.length_take, blocksOfRecs_length]; omega
  refine ⟨⟨r.unpaddedSum - vliCeil4 (lastUnp (recs.take j) 0), r.uncompressedSum - lastUnc (recs.take j) 0⟩, ?_, ?_, ?_⟩
  · have : ((blocksOfRecs recs 0 0).take (j + 1))[j]? = (blocksOfRecs recs 0 0)[j]? := by
      rw [List.getElem?_take]; simp
    rw [← this, hB, List.getElem?_append_right (by omega), hlen]; simp
  · show r.unpaddedSum = _ + (r.unpaddedSum - _); omega
  · show r.uncompressedSum = _ + (r.uncompressedSum - _); omega

/-! ### locating a Record of a group in the Stream's Record list -/

theorem flatMap_split {α β : Type} (f : α → List β) (l : List α) (k : Nat) (x : α) (h : l[k]? = some x) :
    l.flatMap f = (l.take k).flatMap f ++ f x ++ (l.drop (k + 1)).flatMap f := by
  have hk : k < l.length := (List.getElem?_eq_some_iff.mp h).1
  have hx : l[k] = x := (List.getElem?_eq_some_iff.mp h).2
  have : l = l.take k ++ x :: l.drop (k + 1) := by
    rw [← hx, ← List.drop_eq_getElem_cons hk, List.take_append_drop]
  conv => lhs; rw [this]
  simp [List.flatMap_append]

theorem allRecs_split {s : Stream} {gi : Nat} {g : Group} (hg : s.groups.toList[gi]? = some g) :
    s.allRecs = recsBefore s.groups.toList gi ++ g.records.toList
      ++ (s.groups.toList.drop (gi + 1)).flatMap fun g => g.records.toList :=
  flatMap_split (fun g : Group => g.records.toList) s.groups.toList gi g hg

theorem recsBefore_eq_take {s : Stream} {gi : Nat} {g : Group} (hg : s.groups.toList[gi]? = some g) :
    recsBefore s.groups.toList gi = s.allRecs.take (recsBefore s.groups.toList gi).length := by
  rw [allRecs_split hg, List.append_assoc, List.take_left']
  rfl

theorem recsBefore_succ {gs : List Group} {gi : Nat} {g : Group} (hg : gs[gi]? = some g) :
    recsBefore gs (gi + 1) = recsBefore gs gi ++ g.records.toList := by
  have hk : gi < gs.length := (List.getElem?_eq_some_iff.mp hg).1
  have hx : gs[gi] = g := (List.getElem?_eq_some_iff.mp hg).2
  unfold recsBefore
  rw [List.take_succ_eq_append_getElem hk, hx]
  simp [List.flatMap_append]

theorem recAt_eq (g : Group) {rec : Nat} (h : rec < g.records.size) : g.records.toList[rec]? = some (g.recAt rec) := by
  unfold Group.recAt
  simp [Array.getD, h]

theorem allRecs_getElem {s : Stream} {gi rec : Nat} {g : Group} (hg : s.groups.toList[gi]? = some g)
    (hrec : rec < g.records.size) :
    s.allRecs[(recsBefore s.groups.toList gi).length + rec]? = some (g.recAt rec) := by
  rw [allRecs_split hg, List.append_assoc, List.getElem?_append_right (by omega)]
  have : (recsBefore s.groups.toList gi).length + rec - (recsBefore s.groups.toList gi).length = rec := by omega
  rw [this, List.getElem?_append_left (by simpa using hrec)]
  exact recAt_eq g hrec

/-- Everything `iter_set_info` and `lzma_index_iter_locate` read from Record `rec` of group `gi`, over the Blocks of
    the specification: with `n` Records in the groups before, it is Block `n + rec`. -/
theorem group_rec_facts {s : Stream} (hs : StreamInv s) {gi rec : Nat} {g : Group}
    (hg : s.groups.toList[gi]? = some g) (hrec : rec < g.records.size) :
    (if rec = 0 then g.uncompressedBase else (g.recAt (rec - 1)).uncompressedSum)
        = uncompSize ((absStream s).blocks.take ((recsBefore s.groups.toList gi).length + rec))
    ∧ (if rec = 0 then g.compressedBase else vliCeil4 (g.recAt (rec - 1)).unpaddedSum)
        = blocksSize ((absStream s).blocks.take ((recsBefore s.groups.toList gi).length + rec))
    ∧ g.numberBase = (recsBefore s.groups.toList gi).length + 1
    ∧ ∃ b, (absStream s).blocks[(recsBefore s.groups.toList gi).length + rec]? = some b
        ∧ (g.recAt rec).unpaddedSum
            = blocksSize ((absStream s).blocks.take ((recsBefore s.groups.toList gi).length + rec)) + b.unpadded
        ∧ (g.recAt rec).uncompressedSum
            = uncompSize ((absStream s).blocks.take ((recsBefore s.groups.toList gi).length + rec)) + b.uncompressed := by
  obtain ⟨b1, b2, b3⟩ := hs.gbases gi g hg
  have hB : (absStream s).blocks = blocksOfRecs s.allRecs 0 0 := rfl
  rw [hB]
  refine ⟨?_, ?_, b3, rec_at hs.recs (allRecs_getElem hg hrec)⟩
  · by_cases h0 : rec = 0
    · subst h0
      simp only [if_true, Nat.add_zero]
      rw [b1, recsBefore_eq_take hg]
      rw [List.length_take_of_le (by
        rw [allRecs_split hg]; simp only [List.length_append]; omega)]
      exact (prefix_sums hs.recs _).1
    · simp only [if_neg h0]
      have hr1 := allRecs_getElem hg (rec := rec - 1) (by omega)
      obtain ⟨b, hb, _, e2⟩ := rec_at hs.recs hr1
      have hn : (recsBefore s.groups.toList gi).length + rec = (recsBefore s.groups.toList gi).length + (rec - 1) + 1 := by omega
      rw [e2, hn, List.take_succ_eq_append_getElem (List.getElem?_eq_some_iff.mp hb).1,
        (List.getElem?_eq_some_iff.mp hb).2, uncompSize_append]
      simp [uncompSize]
  · by_cases h0 : rec = 0
    · subst h0
      simp only [if_true, Nat.add_zero]
      rw [b2, recsBefore_eq_take hg]
      rw [List.length_take_of_le (by
        rw [allRecs_split hg]; simp only [List.length_append]; omega)]
      exact (prefix_sums hs.recs _).2
    · simp only [if_neg h0]
      have hr1 := allRecs_getElem hg (rec := rec - 1) (by omega)
      obtain ⟨b, hb, e1, _⟩ := rec_at hs.recs hr1
      have hn : (recsBefore s.groups.toList gi).length + rec = (recsBefore s.groups.toList gi).length + (rec - 1) + 1 := by omega
      rw [e1, hn, List.take_succ_eq_append_getElem (List.getElem?_eq_some_iff.mp hb).1,
        (List.getElem?_eq_some_iff.mp hb).2, blocksSize_append]
      have hm := blocksSize_mod ((blocksOfRecs s.allRecs 0 0).take ((recsBefore s.groups.toList gi).length + (rec - 1)))
      simp only [blocksSize, List.map_cons, List.map_nil, List.sum_cons, List.sum_nil, Nat.add_zero] at hm ⊢
      unfold vliCeil4 at *; omega

/-- number of Records in the groups up to and including group `gi` is at most the Stream's Record count -/
theorem recsBefore_add_le {s : Stream} {gi : Nat} {g : Group} (hg : s.groups.toList[gi]? = some g) :
    (recsBefore s.groups.toList gi).length + g.records.size ≤ s.allRecs.length := by
  rw [allRecs_split hg]; simp only [List.length_append, Array.length_toList]; omega

/-- a Stream has Blocks iff it has groups -/
theorem blocks_nil_iff {s : Stream} (hs : StreamInv s) : (absStream s).blocks = [] ↔ s.groups.root.toList = [] := by
  have hlen : (absStream s).blocks.length = s.allRecs.length := blocksOfRecs_length _ _ _
  constructor
  · intro h
    rw [h] at hlen
    apply Classical.byContradiction
    intro hne
    obtain ⟨init, z, hz⟩ := exists_snoc hne
    have := hs.groupsNe z (by unfold CTree.toList; rw [hz]; simp)
    unfold Stream.allRecs at hlen; rw [hz] at hlen
    simp at hlen; omega
  · intro h
    have : s.allRecs = [] := by unfold Stream.allRecs; rw [h]; rfl
    rw [this] at hlen
    exact List.length_eq_zero_iff.mp hlen

end Impl
end XzVerif.Index
