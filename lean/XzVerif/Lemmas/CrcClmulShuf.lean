/-
  The `vmasks` byte shuffles of crc_x86_clmul.h: `shift_left`, `shift_right` and `keep_high_bytes` over the table
  `vmasksSpec` are byte shifts / a byte mask, for every amount 0…16 (kernel-evaluated on the unit vectors, lifted by
  linearity).
-/
import XzVerif.Lemmas.CrcClmulLin
namespace XzVerif.Clmul
open XzVerif.Crc

theorem lin_shiftLeft (p : Params) (n : Nat) : Lin (fun v => shiftLeft p v n) := lin_shuffle _
theorem lin_shiftRight (p : Params) (n : Nat) : Lin (fun v => shiftRight p v n) := lin_shuffle _
theorem lin_keepHigh (p : Params) (n : Nat) : Lin (fun v => keepHigh p v n) := lin_and_left _

def pv : Params := { is64 := false, fold512 := 0, fold128 := 0, muP := 0, vmasks := vmasksSpec }

theorem shiftLeft_basis : (List.range 17).all (fun n => basisAll (fun v => shiftLeft pv v n) (fun v => v <<< (8 * n))) = true := by
  decide +kernel

theorem shiftRight_basis : (List.range 17).all (fun n => basisAll (fun v => shiftRight pv v n) (fun v => v >>> (8 * n))) = true := by
  decide +kernel

theorem keepHigh_basis : (List.range 17).all (fun n => basisAll (fun v => keepHigh pv v n)
    (fun v => (v >>> (8 * (16 - n))) <<< (8 * (16 - n)))) = true := by
  decide +kernel

theorem shiftLeft_eq (p : Params) (hp : p.vmasks = vmasksSpec) (v : V) (n : Nat) (hn : n ≤ 16) :
    shiftLeft p v n = v <<< (8 * n) := by
  have h := List.all_eq_true.mp shiftLeft_basis n (List.mem_range.mpr (by omega))
  have := basisAll_sound (lin_shiftLeft pv n) (lin_shl _) h v
  simpa [shiftLeft, pv, hp] using this

theorem shiftRight_eq (p : Params) (hp : p.vmasks = vmasksSpec) (v : V) (n : Nat) (hn : n ≤ 16) :
    shiftRight p v n = v >>> (8 * n) := by
  have h := List.all_eq_true.mp shiftRight_basis n (List.mem_range.mpr (by omega))
  have := basisAll_sound (lin_shiftRight pv n) (lin_shr _) h v
  simpa [shiftRight, pv, hp] using this

theorem keepHigh_eq (p : Params) (hp : p.vmasks = vmasksSpec) (v : V) (n : Nat) (hn : n ≤ 16) :
    keepHigh p v n = (v >>> (8 * (16 - n))) <<< (8 * (16 - n)) := by
  have h := List.all_eq_true.mp keepHigh_basis n (List.mem_range.mpr (by omega))
  have := basisAll_sound (lin_keepHigh pv n) (Lin.comp (lin_shr _) (lin_shl _)) h v
  simpa [keepHigh, pv, hp] using this

end XzVerif.Clmul
