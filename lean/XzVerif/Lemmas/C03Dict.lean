/-
  Helper lemmas for C03/C04: the dictionary positions (Model/LzDict.lean). Core Lean only.
-/
import XzVerif.Model.LzDict

namespace XzVerif.LzDict
open DictPos

theorem roundDictSize_ge (d : Nat) : 4096 ≤ roundDictSize d ∧ d ≤ roundDictSize d ∧ roundDictSize d % 16 = 0
    ∧ roundDictSize d < (if d < 4096 then 4096 else d) + 16 := by
  unfold roundDictSize
  by_cases h : d < 4096
  · simp only [h, if_true]; refine ⟨by omega, by omega, trivial, by omega⟩
  · simp only [h, if_false]; refine ⟨by omega, by omega, by omega, by omega⟩

theorem posInv_init (dictSize presetLen : Nat) : PosInv (DictPos.init dictSize presetLen) := by
  have h := roundDictSize_ge dictSize
  generalize hr : roundDictSize dictSize = r at h
  have hmin : min presetLen r ≤ r := Nat.min_le_right _ _
  unfold DictPos.init allocSize
  simp only [hr]
  generalize min presetLen r = c at *
  constructor <;> simp only [LZ_DICT_INIT_POS, LZ_DICT_REPEAT_MAX] <;> first | omega | (intro hc; cases hc) | (intro hc; omega)

theorem posInv_reset {p : DictPos} (h : PosInv p) (hl : LZ_DICT_INIT_POS ≤ p.limit) : PosInv p.reset := by
  have := h.size_ge; have := h.limit_le_size
  unfold DictPos.reset
  constructor <;> simp only [LZ_DICT_INIT_POS, LZ_DICT_REPEAT_MAX] at * <;> (try intro _) <;> (try simp_all) <;> omega

/-- the limit computation of `decode_buffer` re-establishes `pos ≤ limit ≤ size` whatever the old limit was -/
theorem posInv_setLimit {p : DictPos} (h : PosInv p) (hps : p.pos ≤ p.size) (n : Nat) : PosInv (p.setLimit n) := by
  have h1 := h.size_ge; have h2 := h.full_le; have h3 := h.not_wrapped; have h4 := h.wrapped
  unfold DictPos.setLimit
  constructor <;> simp only [] <;> first | omega | assumption

/-- the wrap step keeps everything except `pos ≤ limit` (the limit is recomputed right after it): -/
theorem wrap_spec {p : DictPos} (h : PosInv p) :
    let q := p.wrap
    q.size = p.size ∧ q.full = p.full ∧ LZ_DICT_REPEAT_MAX ≤ q.pos ∧ q.pos < q.size
      ∧ (q.hasWrapped = false → LZ_DICT_INIT_POS ≤ q.pos ∧ q.full = q.pos - LZ_DICT_INIT_POS)
      ∧ (q.hasWrapped = true → q.full + 2 * LZ_DICT_REPEAT_MAX = q.size) ∨ p.pos < p.size ∧ p.wrap = p := by
  have h1 := h.size_ge; have h2 := h.full_le; have h3 := h.not_wrapped; have h4 := h.wrapped
  have h5 := h.pos_le_limit; have h6 := h.limit_le_size
  unfold DictPos.wrap
  by_cases hw : p.pos = p.size
  · left
    simp only [hw, beq_self_eq_true, if_true, LZ_DICT_REPEAT_MAX, LZ_DICT_INIT_POS] at *
    refine ⟨trivial, trivial, by omega, by omega, ?_, ?_⟩
    · intro hc; cases hc
    · intro _
      cases hb : p.hasWrapped
      · have := h3 hb; omega
      · have := h4 hb; omega
  · right
    have : (p.pos == p.size) = false := by simpa using hw
    simp only [this]
    exact ⟨by omega, by simp⟩

/-- After `wrap` and `setLimit` (the top of the `decode_buffer` loop) the invariant holds. -/
theorem posInv_wrap_setLimit {p : DictPos} (h : PosInv p) (n : Nat) : PosInv ((p.wrap).setLimit n) := by
  have h1 := h.size_ge; have h2 := h.full_le; have h3 := h.not_wrapped; have h4 := h.wrapped
  have h5 := h.pos_le_limit; have h6 := h.limit_le_size
  unfold DictPos.wrap DictPos.setLimit
  by_cases hw : p.pos = p.size
  · simp only [hw, beq_self_eq_true, if_true, LZ_DICT_REPEAT_MAX, LZ_DICT_INIT_POS] at *
    constructor <;> simp only [LZ_DICT_REPEAT_MAX, LZ_DICT_INIT_POS] <;> (try intro hc) <;> (try cases hc)
    all_goals (try omega)
    cases hb : p.hasWrapped
    · have := h3 hb; omega
    · have := h4 hb; omega
  · have hne : (p.pos == p.size) = false := by simpa using hw
    simp only [hne, Bool.false_eq_true, ↓reduceIte, LZ_DICT_REPEAT_MAX, LZ_DICT_INIT_POS] at *
    constructor <;> simp only [LZ_DICT_REPEAT_MAX, LZ_DICT_INIT_POS] <;> first | omega | assumption

/-- `dict_put` (n = 1), `dict_repeat` (n = left ≤ avail), `dict_write` (n = copied ≤ avail) keep the invariant. -/
theorem posInv_advance {p : DictPos} (h : PosInv p) (n : Nat) (hn : n ≤ p.avail) : PosInv (p.advance n) := by
  have h1 := h.size_ge; have h2 := h.full_le; have h3 := h.not_wrapped; have h4 := h.wrapped
  have h5 := h.pos_le_limit; have h6 := h.limit_le_size
  unfold DictPos.avail at hn
  simp only [LZ_DICT_REPEAT_MAX, LZ_DICT_INIT_POS] at h1 h2 h3 h4
  cases hb : p.hasWrapped
  · have h7 := h3 hb
    exact {
      size_ge := by simp only [DictPos.advance, LZ_DICT_REPEAT_MAX]; omega
      pos_le_limit := by simp only [DictPos.advance]; omega
      limit_le_size := by simp only [DictPos.advance]; omega
      full_le := by simp only [DictPos.advance, hb, Bool.false_eq_true, ↓reduceIte, LZ_DICT_REPEAT_MAX, LZ_DICT_INIT_POS]; omega
      not_wrapped := by
        intro _
        simp only [DictPos.advance, hb, Bool.false_eq_true, ↓reduceIte, LZ_DICT_INIT_POS, and_true]; omega
      wrapped := by
        intro hc
        simp only [DictPos.advance, hb] at hc
        cases hc }
  · have h7 := h4 hb
    exact {
      size_ge := by simp only [DictPos.advance, LZ_DICT_REPEAT_MAX]; omega
      pos_le_limit := by simp only [DictPos.advance]; omega
      limit_le_size := by simp only [DictPos.advance]; omega
      full_le := by simp only [DictPos.advance, hb, ↓reduceIte, LZ_DICT_REPEAT_MAX]; omega
      not_wrapped := by
        intro hc
        simp only [DictPos.advance, hb] at hc
        cases hc
      wrapped := by
        intro _
        simp only [DictPos.advance, hb, ↓reduceIte, LZ_DICT_REPEAT_MAX]; omega }

/-- `dict_get(dict, distance)` with a valid distance reads inside the buffer (`< size`, i.e. not even in the
    LZ_DICT_EXTRA slack), and the wrapped form of the index is only used after the dictionary has wrapped. -/
theorem getIndex_lt {p : DictPos} (h : PosInv p) (d : Nat) (hd : d < p.full) :
    p.getIndex d < p.size ∧ (p.pos ≤ d → p.hasWrapped = true) := by
  have h1 := h.size_ge; have h2 := h.full_le; have h3 := h.not_wrapped; have h4 := h.wrapped
  have h5 := h.pos_le_limit; have h6 := h.limit_le_size
  unfold DictPos.getIndex
  simp only [LZ_DICT_REPEAT_MAX, LZ_DICT_INIT_POS] at *
  cases hb : p.hasWrapped
  · have := h3 hb
    refine ⟨?_, fun hc => by omega⟩
    split <;> omega
  · have := h4 hb
    refine ⟨?_, fun _ => rfl⟩
    split <;> omega

/-- `dict_get0`: `buf[pos - 1]` is inside the buffer and `pos ≥ 1`. -/
theorem get0_lt {p : DictPos} (h : PosInv p) : 1 ≤ p.pos ∧ p.pos - 1 < p.size := by
  have h1 := h.size_ge; have h3 := h.not_wrapped; have h4 := h.wrapped
  have h5 := h.pos_le_limit; have h6 := h.limit_le_size
  simp only [LZ_DICT_REPEAT_MAX, LZ_DICT_INIT_POS] at *
  cases hb : p.hasWrapped
  · have := h3 hb; omega
  · have := h4 hb; omega

/-- `dict_repeat` with a valid distance and `len ≤ LZ_DICT_REPEAT_MAX` (LZMA: ≤ 273):
    every read index `back + i` and write index `pos + i` (`i < left`) is inside the buffer, the write stays below the limit,
    and when `distance ≥ left` (the memcpy / SSE2 branch) source and destination do not overlap.
    For the SSE2 variant (32-byte blocks, one block even for `left = 0`) both ends stay below `size + LZ_DICT_EXTRA`. -/
theorem repeat_bounds {p : DictPos} (h : PosInv p) (d len : Nat) (hd : d < p.full) (hl : len ≤ LZ_DICT_REPEAT_MAX) :
    let left := p.repeatLeft len
    let back := p.repeatBack d
    back + left ≤ p.size ∧ p.pos + left ≤ p.limit ∧ left ≤ len
    ∧ (left ≤ d → back + left ≤ p.pos ∨ p.pos + left ≤ back)
    ∧ (left ≤ d → Dict.sse2WriteEnd p.pos left ≤ p.size + LZ_DICT_EXTRA
                 ∧ back + (Dict.sse2WriteEnd p.pos left - p.pos) ≤ p.size + LZ_DICT_EXTRA) := by
  have h1 := h.size_ge; have h2 := h.full_le; have h3 := h.not_wrapped; have h4 := h.wrapped
  have h5 := h.pos_le_limit; have h6 := h.limit_le_size
  unfold DictPos.repeatLeft DictPos.repeatBack DictPos.getIndex DictPos.avail Dict.sse2WriteEnd
  simp only [LZ_DICT_REPEAT_MAX, LZ_DICT_INIT_POS, LZ_DICT_EXTRA] at *
  have hmin1 : min (p.limit - p.pos) len ≤ p.limit - p.pos := Nat.min_le_left _ _
  have hmin2 : min (p.limit - p.pos) len ≤ len := Nat.min_le_right _ _
  generalize min (p.limit - p.pos) len = left at *
  cases hb : p.hasWrapped
  · have := h3 hb
    by_cases hdp : d < p.pos
    · simp only [hdp, if_true]
      by_cases hz : left = 0
      · subst hz; simp; omega
      · have : (left == 0) = false := by simpa using hz
        simp only [this, Bool.false_eq_true, ↓reduceIte]
        refine ⟨by omega, by omega, by omega, fun _ => by omega, fun _ => ⟨by omega, by omega⟩⟩
    · omega
  · have := h4 hb
    by_cases hdp : d < p.pos
    · simp only [hdp, if_true]
      by_cases hz : left = 0
      · subst hz; simp; omega
      · have : (left == 0) = false := by simpa using hz
        simp only [this, Bool.false_eq_true, ↓reduceIte]
        refine ⟨by omega, by omega, by omega, fun _ => by omega, fun _ => ⟨by omega, by omega⟩⟩
    · simp only [hdp, if_false]
      by_cases hz : left = 0
      · subst hz; simp; omega
      · have : (left == 0) = false := by simpa using hz
        simp only [this, Bool.false_eq_true, ↓reduceIte]
        refine ⟨by omega, by omega, by omega, fun _ => by omega, fun _ => ⟨by omega, by omega⟩⟩

/-- the wrap `memcpy(buf, buf + size - 288, 288)`: source and destination are inside the buffer and disjoint -/
theorem wrap_copy_bounds {p : DictPos} (h : PosInv p) :
    LZ_DICT_REPEAT_MAX ≤ p.size - LZ_DICT_REPEAT_MAX ∧ (p.size - LZ_DICT_REPEAT_MAX) + LZ_DICT_REPEAT_MAX ≤ p.size := by
  have h1 := h.size_ge
  simp only [LZ_DICT_REPEAT_MAX] at *
  omega

end XzVerif.LzDict
