/-
  RISC-V BCJ filter: list-level lemmas (equations in projection form, length, round trip).
  Kernel proofs only; word-level facts come from Lemmas/BitWordsBcjRiscv.lean.
-/
import XzVerif.Lemmas.BitWordsBcjRiscv
import XzVerif.Lemmas.BitWordsBcj
namespace XzVerif.Bcj
open XzVerif.BitWords

theorem rvEncGo_short (pc : BitVec 32) (l : List UInt8) (h : l.length < 8) : rvEncGo pc l = (l, 0) := by
  match l, h with
  | [], _ | [_], _ | [_, _], _ | [_, _, _], _ | [_, _, _, _], _ | [_, _, _, _, _], _ | [_, _, _, _, _, _], _
  | [_, _, _, _, _, _, _], _ => rfl

theorem rvDecGo_short (pc : BitVec 32) (l : List UInt8) (h : l.length < 8) : rvDecGo pc l = (l, 0) := by
  match l, h with
  | [], _ | [_], _ | [_, _], _ | [_, _, _], _ | [_, _, _, _], _ | [_, _, _, _, _], _ | [_, _, _, _, _, _], _
  | [_, _, _, _, _, _, _], _ => rfl

/-- `rvEncGo` on a full window, with the recursive results in projection form. -/
theorem rvEncGo_eq (pc : BitVec 32) (b0 b1 b2 b3 b4 b5 b6 b7 : UInt8) (rest : List UInt8) :
    rvEncGo pc (b0 :: b1 :: b2 :: b3 :: b4 :: b5 :: b6 :: b7 :: rest) =
    if b0 == 0xEF then
      if u32 b1 &&& 0x0D#32 != 0#32 then
        (b0 :: b1 :: (rvEncGo (pc + 2#32) (b2 :: b3 :: b4 :: b5 :: b6 :: b7 :: rest)).1,
          (rvEncGo (pc + 2#32) (b2 :: b3 :: b4 :: b5 :: b6 :: b7 :: rest)).2 + 2)
      else
        (b0 :: (rvJalEnc pc b1 b2 b3).1 :: (rvJalEnc pc b1 b2 b3).2.1 :: (rvJalEnc pc b1 b2 b3).2.2
            :: (rvEncGo (pc + 4#32) (b4 :: b5 :: b6 :: b7 :: rest)).1,
          (rvEncGo (pc + 4#32) (b4 :: b5 :: b6 :: b7 :: rest)).2 + 4)
    else if u32 b0 &&& 0x7F#32 == 0x17#32 then
      if le32 b0 b1 b2 b3 &&& 0xE80#32 != 0#32 then
        if notAuipcPair (le32 b0 b1 b2 b3) (le32 b4 b5 b6 b7) then
          (b0 :: b1 :: b2 :: b3 :: b4 :: b5 :: (rvEncGo (pc + 6#32) (b6 :: b7 :: rest)).1, (rvEncGo (pc + 6#32) (b6 :: b7 :: rest)).2 + 6)
        else
          (rvPairEnc pc (le32 b0 b1 b2 b3) (le32 b4 b5 b6 b7) ++ (rvEncGo (pc + 8#32) rest).1, (rvEncGo (pc + 8#32) rest).2 + 8)
      else
        if notSpecialAuipc (le32 b0 b1 b2 b3) (le32 b0 b1 b2 b3 >>> 27) then
          (b0 :: b1 :: b2 :: b3 :: (rvEncGo (pc + 4#32) (b4 :: b5 :: b6 :: b7 :: rest)).1,
            (rvEncGo (pc + 4#32) (b4 :: b5 :: b6 :: b7 :: rest)).2 + 4)
        else
          (rvSpecialEnc (le32 b0 b1 b2 b3) (le32 b4 b5 b6 b7) ++ (rvEncGo (pc + 8#32) rest).1, (rvEncGo (pc + 8#32) rest).2 + 8)
    else
      (b0 :: b1 :: (rvEncGo (pc + 2#32) (b2 :: b3 :: b4 :: b5 :: b6 :: b7 :: rest)).1,
        (rvEncGo (pc + 2#32) (b2 :: b3 :: b4 :: b5 :: b6 :: b7 :: rest)).2 + 2) := by
  rw [rvEncGo]

theorem rvDecGo_eq (pc : BitVec 32) (b0 b1 b2 b3 b4 b5 b6 b7 : UInt8) (rest : List UInt8) :
    rvDecGo pc (b0 :: b1 :: b2 :: b3 :: b4 :: b5 :: b6 :: b7 :: rest) =
    if b0 == 0xEF then
      if u32 b1 &&& 0x0D#32 != 0#32 then
        (b0 :: b1 :: (rvDecGo (pc + 2#32) (b2 :: b3 :: b4 :: b5 :: b6 :: b7 :: rest)).1,
          (rvDecGo (pc + 2#32) (b2 :: b3 :: b4 :: b5 :: b6 :: b7 :: rest)).2 + 2)
      else
        (b0 :: (rvJalDec pc b1 b2 b3).1 :: (rvJalDec pc b1 b2 b3).2.1 :: (rvJalDec pc b1 b2 b3).2.2
            :: (rvDecGo (pc + 4#32) (b4 :: b5 :: b6 :: b7 :: rest)).1,
          (rvDecGo (pc + 4#32) (b4 :: b5 :: b6 :: b7 :: rest)).2 + 4)
    else if u32 b0 &&& 0x7F#32 == 0x17#32 then
      if le32 b0 b1 b2 b3 &&& 0xE80#32 != 0#32 then
        if notAuipcPair (le32 b0 b1 b2 b3) (le32 b4 b5 b6 b7) then
          (b0 :: b1 :: b2 :: b3 :: b4 :: b5 :: (rvDecGo (pc + 6#32) (b6 :: b7 :: rest)).1, (rvDecGo (pc + 6#32) (b6 :: b7 :: rest)).2 + 6)
        else
          (rvPairDec (le32 b0 b1 b2 b3) (le32 b4 b5 b6 b7) ++ (rvDecGo (pc + 8#32) rest).1, (rvDecGo (pc + 8#32) rest).2 + 8)
      else
        if notSpecialAuipc (le32 b0 b1 b2 b3) (le32 b0 b1 b2 b3 >>> 27) then
          (b0 :: b1 :: b2 :: b3 :: (rvDecGo (pc + 4#32) (b4 :: b5 :: b6 :: b7 :: rest)).1,
            (rvDecGo (pc + 4#32) (b4 :: b5 :: b6 :: b7 :: rest)).2 + 4)
        else
          (rvSpecialDec pc (le32 b0 b1 b2 b3) (be32 b4 b5 b6 b7) ++ (rvDecGo (pc + 8#32) rest).1, (rvDecGo (pc + 8#32) rest).2 + 8)
    else
      (b0 :: b1 :: (rvDecGo (pc + 2#32) (b2 :: b3 :: b4 :: b5 :: b6 :: b7 :: rest)).1,
        (rvDecGo (pc + 2#32) (b2 :: b3 :: b4 :: b5 :: b6 :: b7 :: rest)).2 + 2) := by
  rw [rvDecGo]

theorem le32be32_length (x y : BitVec 32) : (le32be32 x y).length = 8 := rfl
theorem le32x2_length (x y : BitVec 32) : (le32x2 x y).length = 8 := rfl

theorem rvEncGo_length : ∀ (n : Nat) (l : List UInt8) (pc : BitVec 32), l.length ≤ n → (rvEncGo pc l).1.length = l.length := by
  intro n
  induction n with
  | zero => intro l pc h; rw [rvEncGo_short pc l (by omega)]
  | succ k ih =>
    intro l pc h
    match l with
    | [] | [_] | [_, _] | [_, _, _] | [_, _, _, _] | [_, _, _, _, _] | [_, _, _, _, _, _] | [_, _, _, _, _, _, _] =>
      rw [rvEncGo_short pc _ (by simp)]
    | b0 :: b1 :: b2 :: b3 :: b4 :: b5 :: b6 :: b7 :: rest =>
      simp only [List.length_cons] at h
      have i2 := ih (b2 :: b3 :: b4 :: b5 :: b6 :: b7 :: rest) (pc + 2#32) (by simp only [List.length_cons]; omega)
      have i4 := ih (b4 :: b5 :: b6 :: b7 :: rest) (pc + 4#32) (by simp only [List.length_cons]; omega)
      have i6 := ih (b6 :: b7 :: rest) (pc + 6#32) (by simp only [List.length_cons]; omega)
      have i8 := ih rest (pc + 8#32) (by omega)
      rw [rvEncGo_eq]
      simp only [List.length_cons] at i2 i4 i6 ⊢
      split
      · split <;> simp only [List.length_cons, i2, i4]
      · split
        · split
          · split
            · simp only [List.length_cons, i6]
            · simp only [List.length_append, rvPairEnc_eq, le32be32_length, i8]; omega
          · split
            · simp only [List.length_cons, i4]
            · simp only [List.length_append, rvSpecialEnc_eq, le32x2_length, i8]; omega
        · simp only [List.length_cons, i2]

/-- The low nibble of the first byte is never changed by the encoder (the reason why skipping six bytes after a non-pair is safe). -/
theorem rvEncGo_head (pc : BitVec 32) (x : UInt8) (t : List UInt8) :
    ∃ x' t', (rvEncGo pc (x :: t)).1 = x' :: t' ∧ u32 x' &&& 0x0F#32 = u32 x &&& 0x0F#32 := by
  match t with
  | [] | [_] | [_, _] | [_, _, _] | [_, _, _, _] | [_, _, _, _, _] | [_, _, _, _, _, _] =>
    exact ⟨x, _, by rw [rvEncGo_short pc _ (by simp)], rfl⟩
  | b1 :: b2 :: b3 :: b4 :: b5 :: b6 :: b7 :: rest =>
    rw [rvEncGo_eq]
    split
    · split <;> exact ⟨x, _, rfl, rfl⟩
    · split
      · rename_i hA
        have hA' : (le32 x b1 b2 b3 &&& 0x7F#32 == 0x17#32) = true := by rw [(byte0_of_le32 x b1 b2 b3).1]; exact hA
        split
        · rename_i hE
          split
          · exact ⟨x, _, rfl, rfl⟩
          · rename_i hP
            have hP' : notAuipcPair (le32 x b1 b2 b3) (le32 b4 b5 b6 b7) = false := by simpa using hP
            refine ⟨u8 (pairEncX (le32 b4 b5 b6 b7)), _, rfl, ?_⟩
            rw [(byte0_tests _).2.2, (pair_words pc _ _ hA' hE hP').2.2.2.2.2.2, (byte0_of_le32 x b1 b2 b3).2]
        · rename_i hE
          have hE' : (le32 x b1 b2 b3 &&& 0xE80#32 != 0#32) = false := by simpa using hE
          split
          · exact ⟨x, _, rfl, rfl⟩
          · rename_i hS
            have hS' : notSpecialAuipc (le32 x b1 b2 b3) (le32 x b1 b2 b3 >>> 27) = false := by simpa using hS
            refine ⟨u8 (specEncX (le32 x b1 b2 b3) (le32 b4 b5 b6 b7)), _, rfl, ?_⟩
            rw [(byte0_tests _).2.2, (special_words _ (le32 b4 b5 b6 b7) hA' hE' hS').2.2.2.2.2.2, (byte0_of_le32 x b1 b2 b3).2]
      · exact ⟨x, _, rfl, rfl⟩

theorem exists_cons2 (t : List UInt8) (h : 2 ≤ t.length) : ∃ c1 c2 r, t = c1 :: c2 :: r := by
  match t, h with
  | c1 :: c2 :: r, _ => exact ⟨c1, c2, r, rfl⟩

theorem exists_cons4' (t : List UInt8) (h : 4 ≤ t.length) : ∃ c1 c2 c3 c4 r, t = c1 :: c2 :: c3 :: c4 :: r := by
  match t, h with
  | c1 :: c2 :: c3 :: c4 :: r, _ => exact ⟨c1, c2, c3, c4, r, rfl⟩

theorem exists_cons6 (t : List UInt8) (h : 6 ≤ t.length) : ∃ c1 c2 c3 c4 c5 c6 r, t = c1 :: c2 :: c3 :: c4 :: c5 :: c6 :: r := by
  match t, h with
  | c1 :: c2 :: c3 :: c4 :: c5 :: c6 :: r, _ => exact ⟨c1, c2, c3, c4, c5, c6, r, rfl⟩

/-- decoder on a window that the encoder left as it was for the first two bytes -/
theorem rv_roundtrip : ∀ (n : Nat) (l : List UInt8) (pc : BitVec 32), l.length ≤ n → pc &&& 1#32 = 0#32 →
    rvDecGo pc (rvEncGo pc l).1 = (l, (rvEncGo pc l).2) := by
  intro n
  induction n with
  | zero => intro l pc h _; rw [rvEncGo_short pc l (by omega)]; exact rvDecGo_short pc l (by omega)
  | succ k ih =>
    intro l pc h hpc
    match l with
    | [] | [_] | [_, _] | [_, _, _] | [_, _, _, _] | [_, _, _, _, _] | [_, _, _, _, _, _] | [_, _, _, _, _, _, _] =>
      rw [rvEncGo_short pc _ (by simp)]; exact rvDecGo_short pc _ (by simp)
    | b0 :: b1 :: b2 :: b3 :: b4 :: b5 :: b6 :: b7 :: rest =>
      simp only [List.length_cons] at h
      have l2 : (b2 :: b3 :: b4 :: b5 :: b6 :: b7 :: rest).length ≤ k := by simp only [List.length_cons]; omega
      have l4 : (b4 :: b5 :: b6 :: b7 :: rest).length ≤ k := by simp only [List.length_cons]; omega
      have l6 : (b6 :: b7 :: rest).length ≤ k := by simp only [List.length_cons]; omega
      have l8 : rest.length ≤ k := by omega
      have i2 := ih _ (pc + 2#32) l2 (even_add2 pc hpc)
      have i4 := ih _ (pc + 4#32) l4 (even_add4 pc hpc)
      have i6 := ih _ (pc + 6#32) l6 (even_add6 pc hpc)
      have i8 := ih _ (pc + 8#32) l8 (even_add8 pc hpc)
      have n2 := rvEncGo_length _ _ (pc + 2#32) (Nat.le_refl (b2 :: b3 :: b4 :: b5 :: b6 :: b7 :: rest).length)
      have n4 := rvEncGo_length _ _ (pc + 4#32) (Nat.le_refl (b4 :: b5 :: b6 :: b7 :: rest).length)
      have n6 := rvEncGo_length _ _ (pc + 6#32) (Nat.le_refl (b6 :: b7 :: rest).length)
      -- the generic "two bytes kept, continue at +2" step
      have skip2 : ∀ (hdec : ∀ c2 c3 c4 c5 c6 c7 r', rvDecGo pc (b0 :: b1 :: c2 :: c3 :: c4 :: c5 :: c6 :: c7 :: r') =
            (b0 :: b1 :: (rvDecGo (pc + 2#32) (c2 :: c3 :: c4 :: c5 :: c6 :: c7 :: r')).1,
             (rvDecGo (pc + 2#32) (c2 :: c3 :: c4 :: c5 :: c6 :: c7 :: r')).2 + 2)),
          rvDecGo pc (b0 :: b1 :: (rvEncGo (pc + 2#32) (b2 :: b3 :: b4 :: b5 :: b6 :: b7 :: rest)).1) =
            (b0 :: b1 :: b2 :: b3 :: b4 :: b5 :: b6 :: b7 :: rest,
             (rvEncGo (pc + 2#32) (b2 :: b3 :: b4 :: b5 :: b6 :: b7 :: rest)).2 + 2) := by
        intro hdec
        obtain ⟨c2, c3, c4, c5, c6, c7, r', hc⟩ := exists_cons6 (rvEncGo (pc + 2#32) (b2 :: b3 :: b4 :: b5 :: b6 :: b7 :: rest)).1
          (by rw [n2]; simp)
        rw [hc] at i2 ⊢
        rw [hdec, i2]
      rw [rvEncGo_eq]
      by_cases hJ : (b0 == 0xEF) = true
      · rw [if_pos hJ]
        by_cases hS : (u32 b1 &&& 0x0D#32 != 0#32) = true
        · rw [if_pos hS]
          exact skip2 (fun c2 c3 c4 c5 c6 c7 r' => by rw [rvDecGo_eq, if_pos hJ, if_pos hS])
        · rw [if_neg hS]
          have hS' : (u32 b1 &&& 0x0D#32 != 0#32) = false := by simpa using hS
          obtain ⟨j1, j2⟩ := jal_dec_enc pc b1 b2 b3 hpc hS'
          obtain ⟨c4, c5, c6, c7, r', hc⟩ := exists_cons4' (rvEncGo (pc + 4#32) (b4 :: b5 :: b6 :: b7 :: rest)).1 (by rw [n4]; simp)
          simp only
          rw [hc] at i4 ⊢
          rw [rvDecGo_eq, if_pos hJ, if_neg (by simp [j1]), j2, i4]
      · rw [if_neg hJ]
        by_cases hA : (u32 b0 &&& 0x7F#32 == 0x17#32) = true
        · rw [if_pos hA]
          have hA' : (le32 b0 b1 b2 b3 &&& 0x7F#32 == 0x17#32) = true := by rw [(byte0_of_le32 b0 b1 b2 b3).1]; exact hA
          by_cases hE : (le32 b0 b1 b2 b3 &&& 0xE80#32 != 0#32) = true
          · rw [if_pos hE]
            by_cases hP : notAuipcPair (le32 b0 b1 b2 b3) (le32 b4 b5 b6 b7) = true
            · rw [if_pos hP]
              obtain ⟨c6, t', hc, hnib⟩ := rvEncGo_head (pc + 6#32) b6 (b7 :: rest)
              have ht : 1 ≤ t'.length := by
                have := n6; rw [hc] at this; simp only [List.length_cons] at this; omega
              obtain ⟨c7, r', ht'⟩ : ∃ c7 r', t' = c7 :: r' := by
                match t', ht with
                | c7 :: r', _ => exact ⟨c7, r', rfl⟩
              subst ht'
              simp only
              rw [hc] at i6 ⊢
              have hP' : notAuipcPair (le32 b0 b1 b2 b3) (le32 b4 b5 c6 c7) = true := by
                rw [notpair_low20 _ _ _ (le32_low20 b4 b5 b6 b7 c6 c7 hnib)]; exact hP
              rw [rvDecGo_eq, if_neg hJ, if_pos hA, if_pos hE, if_pos hP', i6]
            · rw [if_neg hP]
              have hP' : notAuipcPair (le32 b0 b1 b2 b3) (le32 b4 b5 b6 b7) = false := by simpa using hP
              obtain ⟨w1, w2, w3, w4, w5, w6, _⟩ := pair_words pc _ _ hA' hE hP'
              simp only [rvPairEnc_eq, le32be32, List.cons_append, List.nil_append]
              rw [rvDecGo_eq, le32_bytes, be32_bytes]
              have t1 : (u8 (pairEncX (le32 b4 b5 b6 b7)) == 0xEF) = false := by rw [(byte0_tests _).1]; exact w1
              have t2 : (u32 (u8 (pairEncX (le32 b4 b5 b6 b7))) &&& 0x7F#32 == 0x17#32) = true := by rw [(byte0_tests _).2.1]; exact w2
              rw [if_neg (by simp [t1]), if_pos t2, if_neg (by simp [w3]), if_neg (by simp [w4]), rvSpecialDec_eq, w5, w6, i8]
              obtain ⟨e0, e1, e2, e3⟩ := bytes_le32 b0 b1 b2 b3
              obtain ⟨e4, e5, e6, e7⟩ := bytes_le32 b4 b5 b6 b7
              simp only [le32x2, e0, e1, e2, e3, e4, e5, e6, e7, List.cons_append, List.nil_append]
          · rw [if_neg hE]
            have hE' : (le32 b0 b1 b2 b3 &&& 0xE80#32 != 0#32) = false := by simpa using hE
            by_cases hS : notSpecialAuipc (le32 b0 b1 b2 b3) (le32 b0 b1 b2 b3 >>> 27) = true
            · rw [if_pos hS]
              obtain ⟨c4, c5, c6, c7, r', hc⟩ := exists_cons4' (rvEncGo (pc + 4#32) (b4 :: b5 :: b6 :: b7 :: rest)).1 (by rw [n4]; simp)
              simp only
              rw [hc] at i4 ⊢
              rw [rvDecGo_eq, if_neg hJ, if_pos hA, if_neg hE, if_pos hS, i4]
            · rw [if_neg hS]
              have hS' : notSpecialAuipc (le32 b0 b1 b2 b3) (le32 b0 b1 b2 b3 >>> 27) = false := by simpa using hS
              obtain ⟨w1, w2, w3, w4, w5, w6, _⟩ := special_words _ (le32 b4 b5 b6 b7) hA' hE' hS'
              simp only [rvSpecialEnc_eq, le32x2, List.cons_append, List.nil_append]
              rw [rvDecGo_eq, le32_bytes, le32_bytes]
              have t1 : (u8 (specEncX (le32 b0 b1 b2 b3) (le32 b4 b5 b6 b7)) == 0xEF) = false := by rw [(byte0_tests _).1]; exact w1
              have t2 : (u32 (u8 (specEncX (le32 b0 b1 b2 b3) (le32 b4 b5 b6 b7))) &&& 0x7F#32 == 0x17#32) = true := by
                rw [(byte0_tests _).2.1]; exact w2
              rw [if_neg (by simp [t1]), if_pos t2, if_pos w3, if_neg (by simp [w4]), rvPairDec_eq, w5, w6, i8]
              obtain ⟨e0, e1, e2, e3⟩ := bytes_le32 b0 b1 b2 b3
              obtain ⟨e4, e5, e6, e7⟩ := bytes_le32 b4 b5 b6 b7
              simp only [le32x2, e0, e1, e2, e3, e4, e5, e6, e7, List.cons_append, List.nil_append]
        · rw [if_neg hA]
          exact skip2 (fun c2 c3 c4 c5 c6 c7 r' => by rw [rvDecGo_eq, if_neg hJ, if_neg hA])

/-! ### chunk stability -/

/-- the right-hand side of the chunk law for a stateless `*_code` loop -/
def chunked (G : BitVec 32 → List UInt8 → List UInt8 × Nat) (pc : BitVec 32) (a b : List UInt8) : List UInt8 × Nat :=
  ((G pc a).1.take (G pc a).2 ++ (G (pc + BitVec.ofNat 32 (G pc a).2) ((G pc a).1.drop (G pc a).2 ++ b)).1,
   (G pc a).2 + (G (pc + BitVec.ofNat 32 (G pc a).2) ((G pc a).1.drop (G pc a).2 ++ b)).2)

theorem chunked_short (G : BitVec 32 → List UInt8 → List UInt8 × Nat) (pc : BitVec 32) (a b : List UInt8) (h : G pc a = (a, 0)) :
    chunked G pc a b = G pc (a ++ b) := by
  unfold chunked
  rw [h]
  simp

theorem chunked_step (G : BitVec 32 → List UInt8 → List UInt8 × Nat) (pc : BitVec 32) (k : Nat) (pre a' a b : List UInt8)
    (h : G pc a = (pre ++ (G (pc + BitVec.ofNat 32 k) a').1, (G (pc + BitVec.ofNat 32 k) a').2 + k)) (hk : pre.length = k) :
    chunked G pc a b = (pre ++ (chunked G (pc + BitVec.ofNat 32 k) a' b).1, (chunked G (pc + BitVec.ofNat 32 k) a' b).2 + k) := by
  unfold chunked
  rw [h]
  simp only
  have e1 : pc + BitVec.ofNat 32 ((G (pc + BitVec.ofNat 32 k) a').2 + k)
      = pc + BitVec.ofNat 32 k + BitVec.ofNat 32 (G (pc + BitVec.ofNat 32 k) a').2 := by
    rw [BitVec.ofNat_add, BitVec.add_assoc, BitVec.add_comm (BitVec.ofNat 32 _)]
  rw [e1]
  have t1 : ∀ (m : Nat) (r : List UInt8), (pre ++ r).take (m + k) = pre ++ r.take m := by
    intro m r; rw [List.take_append, hk]; simp [List.take_of_length_le (by omega : pre.length ≤ m + k)]
  have d1 : ∀ (m : Nat) (r : List UInt8), (pre ++ r).drop (m + k) = r.drop m := by
    intro m r; rw [List.drop_append, hk]; simp [List.drop_of_length_le (by omega : pre.length ≤ m + k)]
  rw [t1, d1, List.append_assoc]
  congr 1
  omega

theorem rvEncGo_chunk : ∀ (n : Nat) (a b : List UInt8) (pc : BitVec 32), a.length ≤ n → rvEncGo pc (a ++ b) = chunked rvEncGo pc a b := by
  intro n
  induction n with
  | zero => intro a b pc h; exact (chunked_short rvEncGo pc a b (rvEncGo_short pc a (by omega))).symm
  | succ k ih =>
    intro a b pc h
    match a with
    | [] | [_] | [_, _] | [_, _, _] | [_, _, _, _] | [_, _, _, _, _] | [_, _, _, _, _, _] | [_, _, _, _, _, _, _] =>
      exact (chunked_short rvEncGo pc _ b (rvEncGo_short pc _ (by simp))).symm
    | b0 :: b1 :: b2 :: b3 :: b4 :: b5 :: b6 :: b7 :: rest =>
      simp only [List.length_cons] at h
      have l2 : (b2 :: b3 :: b4 :: b5 :: b6 :: b7 :: rest).length ≤ k := by simp only [List.length_cons]; omega
      have l4 : (b4 :: b5 :: b6 :: b7 :: rest).length ≤ k := by simp only [List.length_cons]; omega
      have l6 : (b6 :: b7 :: rest).length ≤ k := by simp only [List.length_cons]; omega
      have l8 : rest.length ≤ k := by omega
      simp only [List.cons_append]
      by_cases hJ : (b0 == 0xEF) = true
      · by_cases hS : (u32 b1 &&& 0x0D#32 != 0#32) = true
        · rw [chunked_step rvEncGo pc 2 [b0, b1] (b2 :: b3 :: b4 :: b5 :: b6 :: b7 :: rest) _ b (by rw [rvEncGo_eq, if_pos hJ, if_pos hS]; rfl) rfl, rvEncGo_eq, if_pos hJ, if_pos hS, ← ih _ b _ l2]; rfl
        · rw [chunked_step rvEncGo pc 4 [b0, (rvJalEnc pc b1 b2 b3).1, (rvJalEnc pc b1 b2 b3).2.1, (rvJalEnc pc b1 b2 b3).2.2] (b4 :: b5 :: b6 :: b7 :: rest) _ b (by rw [rvEncGo_eq, if_pos hJ, if_neg hS]; rfl) rfl, rvEncGo_eq, if_pos hJ, if_neg hS, ← ih _ b _ l4]; rfl
      · by_cases hA : (u32 b0 &&& 0x7F#32 == 0x17#32) = true
        · by_cases hE : (le32 b0 b1 b2 b3 &&& 0xE80#32 != 0#32) = true
          · by_cases hP : notAuipcPair (le32 b0 b1 b2 b3) (le32 b4 b5 b6 b7) = true
            · rw [chunked_step rvEncGo pc 6 [b0, b1, b2, b3, b4, b5] (b6 :: b7 :: rest) _ b (by rw [rvEncGo_eq, if_neg hJ, if_pos hA, if_pos hE, if_pos hP]; rfl) rfl, rvEncGo_eq, if_neg hJ, if_pos hA, if_pos hE, if_pos hP, ← ih _ b _ l6]; rfl
            · rw [chunked_step rvEncGo pc 8 (rvPairEnc pc (le32 b0 b1 b2 b3) (le32 b4 b5 b6 b7)) rest _ b (by rw [rvEncGo_eq, if_neg hJ, if_pos hA, if_pos hE, if_neg hP]) rfl, rvEncGo_eq, if_neg hJ, if_pos hA, if_pos hE, if_neg hP, ← ih _ b _ l8]
          · by_cases hS : notSpecialAuipc (le32 b0 b1 b2 b3) (le32 b0 b1 b2 b3 >>> 27) = true
            · rw [chunked_step rvEncGo pc 4 [b0, b1, b2, b3] (b4 :: b5 :: b6 :: b7 :: rest) _ b (by rw [rvEncGo_eq, if_neg hJ, if_pos hA, if_neg hE, if_pos hS]; rfl) rfl, rvEncGo_eq, if_neg hJ, if_pos hA, if_neg hE, if_pos hS, ← ih _ b _ l4]; rfl
            · rw [chunked_step rvEncGo pc 8 (rvSpecialEnc (le32 b0 b1 b2 b3) (le32 b4 b5 b6 b7)) rest _ b (by rw [rvEncGo_eq, if_neg hJ, if_pos hA, if_neg hE, if_neg hS]) rfl, rvEncGo_eq, if_neg hJ, if_pos hA, if_neg hE, if_neg hS, ← ih _ b _ l8]
        · rw [chunked_step rvEncGo pc 2 [b0, b1] (b2 :: b3 :: b4 :: b5 :: b6 :: b7 :: rest) _ b (by rw [rvEncGo_eq, if_neg hJ, if_neg hA]; rfl) rfl, rvEncGo_eq, if_neg hJ, if_neg hA, ← ih _ b _ l2]; rfl

theorem rvDecGo_chunk : ∀ (n : Nat) (a b : List UInt8) (pc : BitVec 32), a.length ≤ n → rvDecGo pc (a ++ b) = chunked rvDecGo pc a b := by
  intro n
  induction n with
  | zero => intro a b pc h; exact (chunked_short rvDecGo pc a b (rvDecGo_short pc a (by omega))).symm
  | succ k ih =>
    intro a b pc h
    match a with
    | [] | [_] | [_, _] | [_, _, _] | [_, _, _, _] | [_, _, _, _, _] | [_, _, _, _, _, _] | [_, _, _, _, _, _, _] =>
      exact (chunked_short rvDecGo pc _ b (rvDecGo_short pc _ (by simp))).symm
    | b0 :: b1 :: b2 :: b3 :: b4 :: b5 :: b6 :: b7 :: rest =>
      simp only [List.length_cons] at h
      have l2 : (b2 :: b3 :: b4 :: b5 :: b6 :: b7 :: rest).length ≤ k := by simp only [List.length_cons]; omega
      have l4 : (b4 :: b5 :: b6 :: b7 :: rest).length ≤ k := by simp only [List.length_cons]; omega
      have l6 : (b6 :: b7 :: rest).length ≤ k := by simp only [List.length_cons]; omega
      have l8 : rest.length ≤ k := by omega
      simp only [List.cons_append]
      by_cases hJ : (b0 == 0xEF) = true
      · by_cases hS : (u32 b1 &&& 0x0D#32 != 0#32) = true
        · rw [chunked_step rvDecGo pc 2 [b0, b1] (b2 :: b3 :: b4 :: b5 :: b6 :: b7 :: rest) _ b (by rw [rvDecGo_eq, if_pos hJ, if_pos hS]; rfl) rfl, rvDecGo_eq, if_pos hJ, if_pos hS, ← ih _ b _ l2]; rfl
        · rw [chunked_step rvDecGo pc 4 [b0, (rvJalDec pc b1 b2 b3).1, (rvJalDec pc b1 b2 b3).2.1, (rvJalDec pc b1 b2 b3).2.2] (b4 :: b5 :: b6 :: b7 :: rest) _ b (by rw [rvDecGo_eq, if_pos hJ, if_neg hS]; rfl) rfl, rvDecGo_eq, if_pos hJ, if_neg hS, ← ih _ b _ l4]; rfl
      · by_cases hA : (u32 b0 &&& 0x7F#32 == 0x17#32) = true
        · by_cases hE : (le32 b0 b1 b2 b3 &&& 0xE80#32 != 0#32) = true
          · by_cases hP : notAuipcPair (le32 b0 b1 b2 b3) (le32 b4 b5 b6 b7) = true
            · rw [chunked_step rvDecGo pc 6 [b0, b1, b2, b3, b4, b5] (b6 :: b7 :: rest) _ b (by rw [rvDecGo_eq, if_neg hJ, if_pos hA, if_pos hE, if_pos hP]; rfl) rfl, rvDecGo_eq, if_neg hJ, if_pos hA, if_pos hE, if_pos hP, ← ih _ b _ l6]; rfl
            · rw [chunked_step rvDecGo pc 8 (rvPairDec (le32 b0 b1 b2 b3) (le32 b4 b5 b6 b7)) rest _ b (by rw [rvDecGo_eq, if_neg hJ, if_pos hA, if_pos hE, if_neg hP]) rfl, rvDecGo_eq, if_neg hJ, if_pos hA, if_pos hE, if_neg hP, ← ih _ b _ l8]
          · by_cases hS : notSpecialAuipc (le32 b0 b1 b2 b3) (le32 b0 b1 b2 b3 >>> 27) = true
            · rw [chunked_step rvDecGo pc 4 [b0, b1, b2, b3] (b4 :: b5 :: b6 :: b7 :: rest) _ b (by rw [rvDecGo_eq, if_neg hJ, if_pos hA, if_neg hE, if_pos hS]; rfl) rfl, rvDecGo_eq, if_neg hJ, if_pos hA, if_neg hE, if_pos hS, ← ih _ b _ l4]; rfl
            · rw [chunked_step rvDecGo pc 8 (rvSpecialDec pc (le32 b0 b1 b2 b3) (be32 b4 b5 b6 b7)) rest _ b (by rw [rvDecGo_eq, if_neg hJ, if_pos hA, if_neg hE, if_neg hS]) rfl, rvDecGo_eq, if_neg hJ, if_pos hA, if_neg hE, if_neg hS, ← ih _ b _ l8]
        · rw [chunked_step rvDecGo pc 2 [b0, b1] (b2 :: b3 :: b4 :: b5 :: b6 :: b7 :: rest) _ b (by rw [rvDecGo_eq, if_neg hJ, if_neg hA]; rfl) rfl, rvDecGo_eq, if_neg hJ, if_neg hA, ← ih _ b _ l2]; rfl

end XzVerif.Bcj
