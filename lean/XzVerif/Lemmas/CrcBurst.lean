/-
  CRC burst-error detection (generalises the single-bit / single-byte lemmas of Lemmas/Crc.lean):
  two messages that differ by an error burst confined to `w` consecutive bits (w = 32 for CRC32, 64 for CRC64;
  LSB-first bit order, as the reflected CRC consumes the bits) have different CRCs.
  Route: `refRaw` is xor-linear in (message, state); a byte string whose little-endian value is `2^p * E`
  with `E < 2^w`, processed from the zero state, is `8|D| - p` plain shift-register steps applied to `E`;
  the shift-register step has trivial kernel (top bit of the reflected polynomial set).
  Core Lean only, kernel proofs only.
-/
import XzVerif.Lemmas.Crc
namespace XzVerif.Crc

theorem stepN_zero {w : Nat} (P : BitVec w) (n : Nat) : stepN P n 0#w = 0#w := by
  have := stepN_xor P n 0#w 0#w
  rw [BitVec.xor_self] at this
  rw [this, BitVec.xor_self]

theorem byteStep_eq {w : Nat} (P c : BitVec w) (b : UInt8) :
    byteStep P c b = stepN P 8 (c ^^^ BitVec.ofNat w b.toNat) := rfl

/-- `refRaw` is affine in the state: the state contribution is `8|r|` plain steps. -/
theorem refRaw_state_lin {w : Nat} (P : BitVec w) (r : List UInt8) (c : BitVec w) :
    refRaw P r c = refRaw P r 0#w ^^^ stepN P (8 * r.length) c := by
  induction r generalizing c with
  | nil => simp [refRaw, stepN]
  | cons b r ih =>
    have e : 8 * (r.length + 1) = 8 + 8 * r.length := by omega
    rw [refRaw_cons, refRaw_cons, ih (byteStep P c b), ih (byteStep P 0#w b), List.length_cons, e, stepN_add,
      byteStep_eq, byteStep_eq, stepN_xor, stepN_xor, stepN_xor, stepN_xor, stepN_zero, stepN_zero,
      BitVec.zero_xor]
    ac_rfl

/-- `refRaw` is xor-linear in (message, state). -/
theorem refRaw_xor_zip {w : Nat} (P : BitVec w) (x y : List UInt8) (hlen : x.length = y.length) (c c' : BitVec w) :
    refRaw P x c ^^^ refRaw P y c' = refRaw P (List.zipWith (· ^^^ ·) x y) (c ^^^ c') := by
  induction x generalizing y c c' with
  | nil =>
    cases y with
    | nil => rfl
    | cons b y => simp at hlen
  | cons a x ih =>
    cases y with
    | nil => simp at hlen
    | cons b y =>
      simp only [List.length_cons, Nat.add_right_cancel_iff] at hlen
      rw [List.zipWith_cons_cons, refRaw_cons, refRaw_cons, refRaw_cons, ih y hlen]
      congr 1
      rw [byteStep_eq, byteStep_eq, byteStep_eq, ← stepN_xor, UInt8.toNat_xor, BitVec.ofNat_xor]
      congr 1
      ac_rfl

/-- generalisation of `ofNat_split8` from 8 to `k` -/
theorem ofNat_splitk {w : Nat} (k a m : Nat) (ha : a < 2 ^ k) :
    BitVec.ofNat w (a + 2 ^ k * m) = BitVec.ofNat w a ^^^ (BitVec.ofNat w m <<< k) := by
  apply BitVec.eq_of_getLsbD_eq
  intro i hi
  rw [Nat.add_comm]
  simp only [BitVec.getLsbD_xor, BitVec.getLsbD_ofNat, BitVec.getLsbD_shiftLeft,
    Nat.testBit_two_pow_mul_add m ha]
  by_cases h : i < k
  · simp [h, hi]
  · have : a.testBit i = false := Nat.testBit_lt_two_pow (Nat.lt_of_lt_of_le ha
      (Nat.pow_le_pow_right (by decide) (by omega)))
    have h2 : i - k < w := by omega
    simp [h, hi, this, h2]

theorem ofNat_two_pow_mul {w : Nat} (k m : Nat) :
    BitVec.ofNat w (2 ^ k * m) = BitVec.ofNat w m <<< k := by
  have := ofNat_splitk (w := w) k 0 m (Nat.two_pow_pos k)
  rw [Nat.zero_add] at this
  rw [this]
  simp

/-- generalisation of `stepN_shl8` from 8 to `k` -/
theorem stepN_shlk {w : Nat} (P : BitVec w) (k n m : Nat) (hm : 2 ^ k * m < 2 ^ w) :
    stepN P (k + n) (BitVec.ofNat w m <<< k) = stepN P n (BitVec.ofNat w m) := by
  rw [stepN_add, stepN_low_zero P k]
  · congr 1
    apply BitVec.eq_of_getLsbD_eq
    intro i hi
    simp only [BitVec.getLsbD_ushiftRight, BitVec.getLsbD_shiftLeft, BitVec.getLsbD_ofNat]
    by_cases h : k + i < w
    · simp [h, hi]
    · have : m.testBit i = false := by
        apply Nat.testBit_lt_two_pow
        have h1 : 2 ^ w ≤ 2 ^ (k + i) := Nat.pow_le_pow_right (by decide) (by omega)
        rw [Nat.pow_add] at h1
        have h2 : 2 ^ k * m < 2 ^ k * 2 ^ i := Nat.lt_of_lt_of_le hm h1
        exact Nat.lt_of_mul_lt_mul_left h2
      simp [h, this]
  · intro i hi
    simp [hi]

/-- A byte string whose little-endian value is `2^p * E` with `E` fitting the register: processing it from the zero
    state shifts the `p` zero bits away and then runs `8|D| - p` plain steps on `E`. -/
theorem refRaw_burst {w : Nat} (P : BitVec w) (hw : 8 ≤ w) :
    ∀ (D : List UInt8) (p E : Nat), leN D = 2 ^ p * E → E < 2 ^ w →
      refRaw P D 0#w = stepN P (8 * D.length - p) (BitVec.ofNat w E) := by
  intro D
  induction D with
  | nil =>
    intro p E h _
    have hE : E = 0 := by
      have hp := Nat.two_pow_pos p
      simp only [leN] at h
      rcases Nat.mul_eq_zero.mp h.symm with h1 | h1
      · omega
      · exact h1
    subst hE
    simp [refRaw, stepN]
  | cons b r ih =>
    intro p E h hE
    simp only [leN] at h
    have hb := b.toNat_lt
    by_cases hp : 8 ≤ p
    · -- the first byte is zero
      obtain ⟨q, rfl⟩ : ∃ q, p = 8 + q := ⟨p - 8, by omega⟩
      have h256 : (2 : Nat) ^ (8 + q) * E = 256 * (2 ^ q * E) := by
        rw [Nat.pow_add, Nat.mul_assoc]
      rw [h256] at h
      have hb0 : b.toNat = 0 := by omega
      have hr : leN r = 2 ^ q * E := by omega
      have e : 8 * (b :: r).length - (8 + q) = 8 * r.length - q := by
        simp only [List.length_cons]; omega
      rw [e, refRaw_cons, byteStep_eq, hb0, BitVec.xor_self, stepN_zero]
      exact ih q E hr hE
    · -- the burst starts in the first byte
      have hp' : p < 8 := by omega
      obtain ⟨k, hk⟩ : ∃ k, 8 = p + k := ⟨8 - p, by omega⟩
      have h256 : (256 : Nat) = 2 ^ p * 2 ^ k := by rw [← Nat.pow_add, ← hk]
      have hpp := Nat.two_pow_pos p
      have hkp := Nat.two_pow_pos k
      -- E = e0 + 2^k * leN r with e0 = b / 2^p < 2^k
      have hdiv : E = b.toNat / 2 ^ p + 2 ^ k * leN r := by
        have h1 : b.toNat + 2 ^ p * (2 ^ k * leN r) = 2 ^ p * E := by
          rw [← Nat.mul_assoc, ← h256]; exact h
        have h2 : (b.toNat + 2 ^ p * (2 ^ k * leN r)) / 2 ^ p = E := by
          rw [h1, Nat.mul_div_cancel_left _ hpp]
        rw [Nat.add_mul_div_left _ _ hpp] at h2
        exact h2.symm
      have hbE : b.toNat = 2 ^ p * (b.toNat / 2 ^ p) := by
        have h1 : 2 ^ p * E = 2 ^ p * (b.toNat / 2 ^ p) + 2 ^ p * (2 ^ k * leN r) := by
          rw [← Nat.mul_add, ← hdiv]
        rw [← Nat.mul_assoc, ← h256] at h1
        omega
      have he0 : b.toNat / 2 ^ p < 2 ^ k := by
        apply Nat.div_lt_of_lt_mul
        rw [← h256]; exact hb
      have hkL : 2 ^ k * leN r < 2 ^ w := by
        have : 2 ^ k * leN r ≤ E := by rw [hdiv]; exact Nat.le_add_left _ _
        omega
      have hL : leN r < 2 ^ w := by
        have : leN r ≤ 2 ^ k * leN r := Nat.le_mul_of_pos_left _ hkp
        omega
      have hbw : 2 ^ p * (b.toNat / 2 ^ p) < 2 ^ w := by
        rw [← hbE]
        exact Nat.lt_of_lt_of_le hb (Nat.pow_le_pow_right (by decide) hw)
      have ihr := ih 0 (leN r) (by simp) hL
      rw [Nat.sub_zero] at ihr
      have e : 8 * (b :: r).length - p = k + 8 * r.length := by
        simp only [List.length_cons]; omega
      rw [e, refRaw_cons, refRaw_state_lin, ihr, byteStep_eq, BitVec.zero_xor, hdiv,
        ofNat_splitk k _ _ he0, stepN_xor, stepN_shlk P k _ _ hkL, stepN_add P k, BitVec.xor_comm]
      congr 2
      have e8 : 8 = p + k := hk
      conv => lhs; rw [hbE, ofNat_two_pow_mul]
      rw [e8, ← Nat.add_zero (p + k), Nat.add_assoc, stepN_shlk P p _ _ hbw, Nat.add_zero]

theorem ofNat_ne_zero {w : Nat} (E : Nat) (hE0 : E ≠ 0) (hE : E < 2 ^ w) : BitVec.ofNat w E ≠ 0#w := by
  intro e
  have := congrArg BitVec.toNat e
  simp only [BitVec.toNat_ofNat, Nat.mod_eq_of_lt hE] at this
  exact hE0 this

/-- Generic form: two windows of equal length whose bytewise xor, read little-endian, is a nonzero pattern of at most
    `w` bits shifted by `p` bit positions; equal prefix and suffix. -/
theorem refRaw_burst_ne {w : Nat} (P : BitVec w) (hP : P.msb = true) (hw : 8 ≤ w) (a t x y : List UInt8)
    (hlen : x.length = y.length) (p E : Nat) (hE0 : E ≠ 0) (hE : E < 2 ^ w)
    (hxor : leN (List.zipWith (· ^^^ ·) x y) = 2 ^ p * E) (c : BitVec w) :
    refRaw P (a ++ x ++ t) c ≠ refRaw P (a ++ y ++ t) c := by
  intro h
  rw [refRaw_append, refRaw_append, refRaw_append, refRaw_append] at h
  have h1 := refRaw_injective P hP t _ _ h
  have h2 : refRaw P x (refRaw P a c) ^^^ refRaw P y (refRaw P a c) = 0#w := by
    rw [h1, BitVec.xor_self]
  rw [refRaw_xor_zip P x y hlen, BitVec.xor_self, refRaw_burst P hw _ p E hxor hE] at h2
  exact ofNat_ne_zero E hE0 hE (stepN_eq_zero P hP _ _ h2)

/-- CRC32 detects every error burst confined to 32 consecutive bits (LSB-first bit order). -/
theorem crc32_burst (a t x y : List UInt8) (hlen : x.length = y.length) (p E : Nat) (hE0 : E ≠ 0) (hE : E < 2 ^ 32)
    (hxor : leN (List.zipWith (· ^^^ ·) x y) = 2 ^ p * E) (init : BitVec 32) :
    crc32Ref (a ++ x ++ t) init ≠ crc32Ref (a ++ y ++ t) init := by
  intro e
  exact refRaw_burst_ne P32 (by decide) (by decide) a t x y hlen p E hE0 hE hxor _ (BitVec.not_inj.mp e)

/-- CRC64 detects every error burst confined to 64 consecutive bits. -/
theorem crc64_burst (a t x y : List UInt8) (hlen : x.length = y.length) (p E : Nat) (hE0 : E ≠ 0) (hE : E < 2 ^ 64)
    (hxor : leN (List.zipWith (· ^^^ ·) x y) = 2 ^ p * E) (init : BitVec 64) :
    crc64Ref (a ++ x ++ t) init ≠ crc64Ref (a ++ y ++ t) init := by
  intro e
  exact refRaw_burst_ne P64 (by decide) (by decide) a t x y hlen p E hE0 hE hxor _ (BitVec.not_inj.mp e)

/-! ### positional form: a burst starting at bit index `s` of the message -/

theorem split_window (m : List UInt8) (n k : Nat) :
    m = m.take n ++ (m.drop n).take k ++ m.drop (n + k) := by
  rw [List.append_assoc, ← List.drop_drop, List.take_append_drop, List.take_append_drop]

/-- little-endian value 0 means all bytes are 0 -/
theorem leN_eq_zero (D : List UInt8) (h : leN D = 0) : ∀ b ∈ D, b = 0 := by
  induction D with
  | nil => intro b hb; cases hb
  | cons a r ih =>
    simp only [leN] at h
    intro b hb
    rcases List.mem_cons.mp hb with rfl | hb
    · exact UInt8.toNat_inj.mp (by simp; omega)
    · exact ih (by omega) b hb

theorem zipWith_xor_zero (x y : List UInt8) (hlen : x.length = y.length)
    (h : ∀ b ∈ List.zipWith (· ^^^ ·) x y, b = 0) : x = y := by
  induction x generalizing y with
  | nil => cases y with
    | nil => rfl
    | cons b y => simp at hlen
  | cons a x ih =>
    cases y with
    | nil => simp at hlen
    | cons b y =>
      simp only [List.length_cons, Nat.add_right_cancel_iff] at hlen
      rw [List.zipWith_cons_cons] at h
      have h0 : a ^^^ b = 0 := h _ (List.mem_cons_self ..)
      have hab : a = b := UInt8.xor_eq_zero_iff.mp h0
      rw [hab, ih y hlen (fun c hc => h c (List.mem_cons_of_mem _ hc))]

/-- Positional burst detection, generic window of `k` bytes: `m` and `m'` have the same length and agree outside the
    byte window `[s/8, s/8 + k)`; the xor of the two windows, read little-endian, is `2^(s%8) * E` with `0 < E < 2^w`
    (all differing bits lie in the `w` consecutive bit positions `s … s+w-1`). -/
theorem refRaw_burst_at {w : Nat} (P : BitVec w) (hP : P.msb = true) (hw : 8 ≤ w) (k : Nat) (m m' : List UInt8)
    (hlen : m.length = m'.length) (s E : Nat) (hE0 : E ≠ 0) (hE : E < 2 ^ w)
    (hout : ∀ i, (i < s / 8 ∨ s / 8 + k ≤ i) → m[i]? = m'[i]?)
    (hwin : leN (List.zipWith (· ^^^ ·) ((m.drop (s / 8)).take k) ((m'.drop (s / 8)).take k)) = 2 ^ (s % 8) * E)
    (c : BitVec w) : refRaw P m c ≠ refRaw P m' c := by
  have ha : m.take (s / 8) = m'.take (s / 8) := by
    apply List.ext_getElem?
    intro i
    rw [List.getElem?_take, List.getElem?_take]
    split
    · exact hout i (Or.inl ‹_›)
    · rfl
  have ht : m.drop (s / 8 + k) = m'.drop (s / 8 + k) := by
    apply List.ext_getElem?
    intro i
    rw [List.getElem?_drop, List.getElem?_drop]
    exact hout _ (Or.inr (Nat.le_add_right _ _))
  have hl : ((m.drop (s / 8)).take k).length = ((m'.drop (s / 8)).take k).length := by
    simp only [List.length_take, List.length_drop, hlen]
  rw [split_window m (s / 8) k, split_window m' (s / 8) k, ha, ht]
  exact refRaw_burst_ne P hP hw _ _ _ _ hl (s % 8) E hE0 hE hwin c

/-- CRC32, positional form (5-byte window: 32 bits starting at bit `s % 8` of byte `s / 8` touch at most 5 bytes). -/
theorem crc32_burst_at (m m' : List UInt8) (hlen : m.length = m'.length) (s E : Nat) (hE0 : E ≠ 0) (hE : E < 2 ^ 32)
    (hout : ∀ i, (i < s / 8 ∨ s / 8 + 5 ≤ i) → m[i]? = m'[i]?)
    (hwin : leN (List.zipWith (· ^^^ ·) ((m.drop (s / 8)).take 5) ((m'.drop (s / 8)).take 5)) = 2 ^ (s % 8) * E)
    (init : BitVec 32) : crc32Ref m init ≠ crc32Ref m' init := by
  intro e
  exact refRaw_burst_at P32 (by decide) (by decide) 5 m m' hlen s E hE0 hE hout hwin _ (BitVec.not_inj.mp e)

/-- CRC64, positional form (9-byte window). -/
theorem crc64_burst_at (m m' : List UInt8) (hlen : m.length = m'.length) (s E : Nat) (hE0 : E ≠ 0) (hE : E < 2 ^ 64)
    (hout : ∀ i, (i < s / 8 ∨ s / 8 + 9 ≤ i) → m[i]? = m'[i]?)
    (hwin : leN (List.zipWith (· ^^^ ·) ((m.drop (s / 8)).take 9) ((m'.drop (s / 8)).take 9)) = 2 ^ (s % 8) * E)
    (init : BitVec 64) : crc64Ref m init ≠ crc64Ref m' init := by
  intro e
  exact refRaw_burst_at P64 (by decide) (by decide) 9 m m' hlen s E hE0 hE hout hwin _ (BitVec.not_inj.mp e)

/-- Variant with `m ≠ m'` instead of `E ≠ 0` (the form used for "any two different messages that differ only
    inside a 32-bit burst"). -/
theorem crc32_burst_at' (m m' : List UInt8) (hlen : m.length = m'.length) (hne : m ≠ m') (s E : Nat) (hE : E < 2 ^ 32)
    (hout : ∀ i, (i < s / 8 ∨ s / 8 + 5 ≤ i) → m[i]? = m'[i]?)
    (hwin : leN (List.zipWith (· ^^^ ·) ((m.drop (s / 8)).take 5) ((m'.drop (s / 8)).take 5)) = 2 ^ (s % 8) * E)
    (init : BitVec 32) : crc32Ref m init ≠ crc32Ref m' init := by
  apply crc32_burst_at m m' hlen s E _ hE hout hwin init
  intro hE0
  apply hne
  rw [hE0, Nat.mul_zero] at hwin
  have hl : ((m.drop (s / 8)).take 5).length = ((m'.drop (s / 8)).take 5).length := by
    simp only [List.length_take, List.length_drop, hlen]
  have hx := zipWith_xor_zero _ _ hl (leN_eq_zero _ hwin)
  apply List.ext_getElem?
  intro i
  by_cases hi : i < s / 8 ∨ s / 8 + 5 ≤ i
  · exact hout i hi
  · have := congrArg (fun l => l[i - s / 8]?) hx
    simp only [List.getElem?_take, List.getElem?_drop] at this
    have h1 : i - s / 8 < 5 := by omega
    have h2 : s / 8 + (i - s / 8) = i := by omega
    simpa [h1, h2] using this

/-! ### the hypotheses are satisfiable: concrete instances -/

/-- bytes 1..2 of a 4-byte message changed (xor pattern 0x80, 0x01: two flipped bits 15 and 16, burst length 2). -/
example : crc32Ref [0x11, 0x22, 0x33, 0x44] 0#32 ≠ crc32Ref [0x11, 0xA2, 0x32, 0x44] 0#32 :=
  crc32_burst [0x11] [0x44] [0x22, 0x33] [0xA2, 0x32] rfl 7 3 (by decide) (by decide) (by decide +kernel) 0#32

/-- the same pair through the positional form: burst starts at bit 15 (bit 7 of byte 1), pattern `E = 3`. -/
example : crc32Ref [0x11, 0x22, 0x33, 0x44] 0#32 ≠ crc32Ref [0x11, 0xA2, 0x32, 0x44] 0#32 :=
  crc32_burst_at [0x11, 0x22, 0x33, 0x44] [0x11, 0xA2, 0x32, 0x44] rfl 15 3 (by decide) (by decide)
    (by intro i hi
        have : i = 0 ∨ 6 ≤ i := by omega
        rcases this with rfl | h
        · rfl
        · rw [List.getElem?_eq_none (by simpa using by omega), List.getElem?_eq_none (by simpa using by omega)])
    (by decide +kernel) 0#32

/-- a full-width 32-bit burst straddling 5 bytes (bits 4 … 35), arbitrary interior. -/
example : crc32Ref [0x00, 0x00, 0x00, 0x00, 0x00, 0x00] 0#32 ≠ crc32Ref [0x10, 0xAB, 0xCD, 0xEF, 0x08, 0x00] 0#32 :=
  crc32_burst [] [0x00] [0x00, 0x00, 0x00, 0x00, 0x00] [0x10, 0xAB, 0xCD, 0xEF, 0x08] rfl 4 0x8EFCDAB1
    (by decide) (by decide) (by decide +kernel) 0#32

/-- direct evaluation agrees (sanity check of the statement on the same pair). -/
example : crc32Ref [0x11, 0x22, 0x33, 0x44] 0#32 ≠ crc32Ref [0x11, 0xA2, 0x32, 0x44] 0#32 := by decide +kernel

/-- CRC64: a 64-bit burst starting at bit 3. -/
example : crc64Ref [1, 2, 3, 4, 5, 6, 7, 8, 9, 10] 0#64 ≠ crc64Ref [1 ^^^ 0x08, 2, 3 ^^^ 0x55, 4, 5, 6, 7, 8, 9 ^^^ 0x04, 10] 0#64 :=
  crc64_burst [] [10] [1, 2, 3, 4, 5, 6, 7, 8, 9] [1 ^^^ 0x08, 2, 3 ^^^ 0x55, 4, 5, 6, 7, 8, 9 ^^^ 0x04] rfl 3
    (0x040000000000550008 / 8) (by decide) (by decide) (by decide +kernel) 0#64

end XzVerif.Crc
