/-
  Symbol-level round trip, part 2: the matched literal. The encoder's loop (`literal_matched`: index
  `offset + match_bit + (symbol >> 8)`, `offset &= ~(match_byte ^ symbol)`) and the decoder's
  (`offset &= ~match_bit` after a 0, `offset &= match_bit` after a 1) visit the same probability variables.
-/
import XzVerif.Lemmas.LzmaSymBits

namespace XzVerif.LzmaSym
open XzVerif.RangeDec XzVerif.RangeEnc XzVerif.Lzma XzVerif.LzmaEnc XzVerif.LzmaSymDec

theorem bit7_testBit (x : Nat) : (((x >>> 7) &&& 1) == 1) = x.testBit 7 := by
  unfold Nat.testBit
  rw [Nat.and_comm 1]
  have h : (x >>> 7) &&& 1 = (x >>> 7) % 2 := Nat.and_one_is_mod _
  rw [h]
  have : (x >>> 7) % 2 = 0 ∨ (x >>> 7) % 2 = 1 := by omega
  rcases this with h0 | h1
  · rw [h0]; rfl
  · rw [h1]; rfl

/-- `offset &= ~(match_byte ^ symbol)` (encoder) = `offset &= match_bit` / `offset &= ~match_bit` (decoder) -/
theorem off_step (offset mb esym : Nat) (ho : offset = 0 ∨ offset = 256) :
    offset &&& ((mb ^^^ (esym * 2)) ^^^ 0xFFFFFFFF)
      = if (((esym >>> 7) &&& 1) == 1) then (mb &&& offset) else offset ^^^ (mb &&& offset) := by
  rcases ho with rfl | rfl
  · simp
  · rw [bit7_testBit]
    apply Nat.eq_of_testBit_eq
    intro i
    have h256 : (256 : Nat) = 2 ^ 8 := by norm_num
    have hmul : (esym * 2).testBit 8 = esym.testBit 7 := by
      have := Nat.testBit_mul_two_pow esym 8 1
      simpa using this
    have hF : (0xFFFFFFFF : Nat).testBit 8 = true := by decide
    by_cases hi : i = 8
    · subst hi
      cases hb : esym.testBit 7 <;> cases hm : mb.testBit 8 <;>
        simp [Nat.testBit_and, Nat.testBit_xor, hmul, hb, hm, hF]
    · have h2 : Nat.testBit 256 i = false := by
        rw [h256, Nat.testBit_two_pow]; simp; omega
      cases hb : esym.testBit 7 <;> simp [Nat.testBit_and, Nat.testBit_xor, h2]

theorem and_256 (x : Nat) : x &&& 256 = 0 ∨ x &&& 256 = 256 := by
  have h256 : (256 : Nat) = 2 ^ 8 := by norm_num
  cases hx : x.testBit 8
  · left
    apply Nat.eq_of_testBit_eq; intro i
    by_cases hi : i = 8
    · subst hi; simp [Nat.testBit_and, hx]
    · have : Nat.testBit 256 i = false := by rw [h256, Nat.testBit_two_pow]; simp; omega
      simp [Nat.testBit_and, this]
  · right
    apply Nat.eq_of_testBit_eq; intro i
    by_cases hi : i = 8
    · subst hi; simp [Nat.testBit_and, hx]
    · have : Nat.testBit 256 i = false := by rw [h256, Nat.testBit_two_pow]; simp; omega
      simp [Nat.testBit_and, this]

/-- the loop invariant: the decoder's partial symbol is the encoder's `symbol >> 8` -/
theorem pLitMatched_gen (base : Nat) : ∀ (n offset mb esym : Nat) (rest : List Op), (offset = 0 ∨ offset = 256) →
    (pLitMatched base n (esym >>> 8) offset mb).runOps (litMatchedOps base n offset mb esym ++ rest)
      = some ((esym * 2 ^ n) >>> 8, rest)
  | 0, offset, mb, esym, rest, _ => by simp [pLitMatched, litMatchedOps, Prog.runOps]
  | n + 1, offset, mb, esym, rest, ho => by
    have hm : (mb * 2 &&& offset = 0) ∨ (mb * 2 &&& offset = 256) := by
      rcases ho with rfl | rfl
      · left; simp
      · exact and_256 _
    have hstep := off_step offset (mb * 2) esym ho
    have hctx : base + offset + (mb * 2 &&& offset) + esym >>> 8 = base + (offset + (mb * 2 &&& offset) + esym >>> 8) := by omega
    simp only [pLitMatched, litMatchedOps, List.cons_append, Prog.runOps, hctx, if_true]
    rw [hstep]
    have hd : 2 * (esym >>> 8) + b2n (((esym >>> 7) &&& 1) == 1) = (esym * 2) >>> 8 := by
      rw [shr_and_one, b2n_beq _ (Nat.mod_lt _ (by norm_num))]
      simp only [Nat.shiftRight_eq_div_pow]
      omega
    rw [hd]
    have ho' : (if (((esym >>> 7) &&& 1) == 1) = true then mb * 2 &&& offset else offset ^^^ (mb * 2 &&& offset)) = 0 ∨
        (if (((esym >>> 7) &&& 1) == 1) = true then mb * 2 &&& offset else offset ^^^ (mb * 2 &&& offset)) = 256 := by
      split
      · exact hm
      · rcases ho with rfl | rfl <;> rcases hm with h | h <;> rw [h] <;> decide
    rw [pLitMatched_gen base n _ (mb * 2) (esym * 2) rest ho']
    congr 2
    rw [pow_succ]; ring_nf

theorem pLitMatched_ops (base mb cur : Nat) (hcur : cur < 256) (rest : List Op) :
    (pLitMatched base 8 1 0x100 mb).runOps (litMatchedOps base 8 0x100 mb (cur + 0x100) ++ rest) = some (cur + 0x100, rest) := by
  have h := pLitMatched_gen base 8 0x100 mb (cur + 0x100) rest (Or.inr rfl)
  have h1 : (cur + 0x100) >>> 8 = 1 := by simp only [Nat.shiftRight_eq_div_pow]; omega
  have h2 : ((cur + 0x100) * 2 ^ 8) >>> 8 = cur + 0x100 := by simp only [Nat.shiftRight_eq_div_pow]; omega
  rw [h1, h2] at h
  exact h

end XzVerif.LzmaSym
