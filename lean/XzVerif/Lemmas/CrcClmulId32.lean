/-
  The algebraic identities behind the CLMUL CRC32 code, as kernel-evaluated checks on the 128 unit vectors lifted to
  all vectors by linearity: Barrett reduction, the 128→64 fold, folding by 128 and by 512 bits.
  `stepN P32' n` is "multiply by x^n modulo the (scaled) polynomial".
-/
import XzVerif.Lemmas.CrcClmulLin
namespace XzVerif.Clmul
open XzVerif.Crc

def k512_32 : V := 0x1d9513d7000000008f352d95#128
def k128_32 : V := 0xccaa009e00000000ae689191#128
def muP_32 : V := 0xb4e5b025f701164100000001db710640#128

theorem p32_eq : p32 = { is64 := false, fold512 := k512_32, fold128 := k128_32, muP := muP_32, vmasks := vmasksSpec } := by
  decide +kernel

theorem p32_is64 : p32.is64 = false := rfl

/-- Barrett: the result is the register after 64 more shift steps (the low 64 bits of `v` still to be absorbed). -/
theorem barrett32_eq (v : V) : barrett p32 v = ((stepN P32' 64 v).setWidth 32).setWidth 64 := by
  refine basisAll_sound (lin_barrett p32) (Lin.comp (Lin.comp (lin_stepN P32' 64) (lin_setWidth 32)) (lin_setWidth 64)) ?_ v
  rw [p32_eq]; decide +kernel

/-- 128→64 fold followed by Barrett: the register after 128 more shift steps. -/
theorem final32_eq (v : V) : barrett p32 (reduce128 p32 v) = ((stepN P32' 128 v).setWidth 32).setWidth 64 := by
  refine basisAll_sound (Lin.comp (lin_reduce128 p32) (lin_barrett p32))
    (Lin.comp (Lin.comp (lin_stepN P32' 128) (lin_setWidth 32)) (lin_setWidth 64)) ?_ v
  rw [p32_eq]; decide +kernel

end XzVerif.Clmul
