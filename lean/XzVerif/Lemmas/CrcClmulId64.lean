/-
  The algebraic identities behind the CLMUL CRC64 code, as kernel-evaluated checks on the 128 unit vectors lifted to
  all vectors by linearity: Barrett reduction, the 128→64 fold, folding by 128 and by 512 bits.
  `stepN P64' n` is "multiply by x^n modulo the (scaled) polynomial".
-/
import XzVerif.Lemmas.CrcClmulLin
namespace XzVerif.Clmul
open XzVerif.Crc

def k512_64 : V := 0x081f6054a7842df46ae3efbb9dd441f3#128
def k128_64 : V := 0xdabe95afc7875f40e05dd497ca393ae4#128
def muP_64 : V := 0x9c3e466c172963d592d8af2baf0e1e84#128

theorem p64_eq : p64 = { is64 := true, fold512 := k512_64, fold128 := k128_64, muP := muP_64, vmasks := vmasksSpec } := by
  decide +kernel

theorem p64_is64 : p64.is64 = true := rfl

/-- Barrett: the result is the register after 64 more shift steps (the low 64 bits of `v` still to be absorbed). -/
theorem barrett64_eq (v : V) : barrett p64 v = (stepN P64' 64 v).setWidth 64 := by
  refine basisAll_sound (lin_barrett p64) (Lin.comp (lin_stepN P64' 64) (lin_setWidth 64)) ?_ v
  rw [p64_eq]; decide +kernel

/-- 128→64 fold followed by Barrett: the register after 128 more shift steps. -/
theorem final64_eq (v : V) : barrett p64 (reduce128 p64 v) = (stepN P64' 128 v).setWidth 64 := by
  refine basisAll_sound (Lin.comp (lin_reduce128 p64) (lin_barrett p64))
    (Lin.comp (lin_stepN P64' 128) (lin_setWidth 64)) ?_ v
  rw [p64_eq]; decide +kernel

end XzVerif.Clmul
