/-
  C10 helper lemmas, part 2: every coder's init / code script preserves the ownership invariant (`Safe`).
  Proved by composing the combinator lemmas of `Lemmas/Alloc.lean`.
-/
import XzVerif.Lemmas.Alloc

namespace XzVerif.Alloc

variable (S : Sizes)

/-! ## Coders: every init / code script preserves ownership (`Safe`) -/

macro "safe_step" : tactic => `(tactic| first
  | assumption
  | exact safe_skip
  | apply safe_failOp
  | apply safe_seq
  | apply safe_guard
  | apply safe_allocSelf
  | apply safe_setData
  | apply safe_incData
  | apply safe_whenD
  | apply safe_freeBuf
  | apply safe_reallocBuf
  | apply safe_ensureBuf
  | (apply safe_allocPair; decide)
  | apply safe_onSub0
  | apply safe_onSub1
  | apply safe_ixFree
  | apply safe_ixReinit0
  | apply safe_ixAppend0
  | apply safe_ixSetPrealloc0
  | apply safe_withTempOpts
  | apply safe_replaceOpts
  | apply safe_repeatOp
  | apply safe_fiTakeThis
  | apply safe_fiCombine
  | apply safe_idecSelf
  | apply safe_nextEnd
  | split)

theorem safe_filterInit (enc : Bool) (f : Filter) (rest : NodeOp)
    (ih : Safe rest) : Safe (filterInit S enc f rest) := by
  cases f with
  | delta d =>
    simp only [filterInit]
    repeat safe_step
  | bcj w o =>
    simp only [filterInit]
    repeat safe_step
  | lzma v2 dict mf nice mode =>
    simp only [filterInit]
    split
    · repeat safe_step
    · repeat safe_step

theorem safe_nextFilterInit (enc : Bool) (l : List Filter) : Safe (nextFilterInit S enc l) := by
  induction l with
  | nil => unfold nextFilterInit; exact safe_guard 0
  | cons f rest ih =>
    unfold nextFilterInit
    exact safe_seq (safe_guard _) (safe_filterInit S enc f _ ih)

theorem safe_rawCoderInit (enc : Bool) (c : Chain) : Safe (rawCoderInit S enc c) := by
  intro n
  unfold rawCoderInit
  refine Spec.bind (safe_nextFilterInit S enc _ n) (fun r => ?_)
  split
  · refine Spec.bind (mid := fun _ => []) (spec_endNode r.2) (fun _ => ?_)
    exact Spec.pure (by ceqn)
  · exact Spec.pure (by ceqn)

theorem safe_blockEncoderInit (c : Chain) : Safe (blockEncoderInit S c) := by
  have := safe_rawCoderInit S true c
  unfold blockEncoderInit
  repeat safe_step

theorem safe_blockDecoderInit (c : Chain) : Safe (blockDecoderInit S c) := by
  have := safe_rawCoderInit S false c
  unfold blockDecoderInit
  repeat safe_step

theorem safe_streamEncoderUpdate (cur c : Chain) : Safe (streamEncoderUpdate S cur c) := by
  have hb := safe_blockEncoderInit S c
  unfold streamEncoderUpdate
  apply safe_replaceOpts
  intro n
  simp only []
  split
  · exact (safe_seq (safe_setData _ _) (safe_seq (safe_onSub0 hb) (safe_setData _ _))) n
  · split
    · split
      · exact safe_failOp _ n
      · exact safe_skip n
    · exact Spec.pure (by ceqn)

theorem safe_streamEncoderInit (c : Chain) : Safe (streamEncoderInit S c) := by
  have := safe_streamEncoderUpdate S c c
  unfold streamEncoderInit
  repeat safe_step

theorem safe_indexEncoderInit : Safe (indexEncoderInit S) := by
  unfold indexEncoderInit
  repeat safe_step

theorem safe_streamEncode (c : Chain) (act len : Nat) : Safe (streamEncode S c act len) := by
  have hb := safe_blockEncoderInit S c
  intro n
  simp only [streamEncode]
  refine (safe_seq ?_ (safe_seq ?_ (safe_seq ?_ ?_))) n
  · repeat safe_step
  · repeat safe_step
  · repeat safe_step
  · repeat safe_step

theorem safe_streamDecoderInit (ml : Nat) : Safe (streamDecoderInit S ml) := by
  unfold streamDecoderInit
  repeat safe_step

theorem safe_streamDecodeBlock (c : Chain) : Safe (streamDecodeBlock S c) := by
  have hb := safe_blockDecoderInit S c
  unfold streamDecodeBlock
  refine safe_seq (safe_withTempOpts _ ?_) (safe_incData _)
  intro n
  simp only []
  split
  · exact safe_failOp _ n
  · refine (safe_seq (safe_setData _ _) ?_) n
    intro m
    simp only []
    split
    · exact safe_failOp _ m
    · exact safe_onSub0 hb m

theorem safe_streamDecode (c : Chain) (b s : Nat) : Safe (streamDecode S c b s) := by
  intro n
  unfold streamDecode
  exact safe_repeatOp _ (safe_streamDecodeBlock S c) n

theorem safe_streamDecoderMemlimit (new : Nat) : Safe (streamDecoderMemlimit new) := by
  intro n
  unfold streamDecoderMemlimit
  split
  · exact safe_failOp _ n
  · exact safe_setData _ _ n

theorem safe_autoDecoderMemlimit (new : Nat) : Safe (autoDecoderMemlimit S new) := by
  intro n
  unfold autoDecoderMemlimit
  split
  · exact (safe_seq (safe_onSub0 (safe_streamDecoderMemlimit new)) (safe_setData _ _)) n
  · split
    · split
      · exact safe_failOp _ n
      · exact safe_setData _ _ n
    · exact safe_failOp _ n

theorem safe_aloneEncoderInit (f : Filter) : Safe (aloneEncoderInit S f) := by
  have := safe_nextFilterInit S true [f]
  unfold aloneEncoderInit
  repeat safe_step

theorem safe_microEncoderInit (f : Filter) : Safe (microEncoderInit S f) := by
  have := safe_nextFilterInit S true [f]
  unfold microEncoderInit
  repeat safe_step

theorem safe_aloneDecoderInit : Safe (aloneDecoderInit S) := by
  unfold aloneDecoderInit
  repeat safe_step

theorem safe_lzipDecoderInit : Safe (lzipDecoderInit S) := by
  unfold lzipDecoderInit
  repeat safe_step

theorem safe_microDecoderInit : Safe (microDecoderInit S) := by
  unfold microDecoderInit
  repeat safe_step

theorem safe_autoDecoderInit (ml : Nat) : Safe (autoDecoderInit S ml) := by
  unfold autoDecoderInit
  repeat safe_step

theorem safe_lzmaDecodeInit (dict : Nat) : Safe (lzmaDecodeInit S dict) := by
  have := safe_nextFilterInit S false [.lzma false dict 0 0 0]
  unfold lzmaDecodeInit
  repeat safe_step

theorem safe_indexDecoderInit : Safe (indexDecoderInit S) := by
  unfold indexDecoderInit
  repeat safe_step

theorem safe_indexDecode (cnt : Nat) : Safe (indexDecode S cnt) := by
  unfold indexDecode
  repeat safe_step

theorem safe_fileInfoDecoderInit : Safe (fileInfoDecoderInit S) := by
  unfold fileInfoDecoderInit
  repeat safe_step

theorem safe_fileInfoDecode (b s : Nat) : Safe (fileInfoDecode S b s) := by
  have := safe_indexDecoderInit S
  have := safe_indexDecode S b
  unfold fileInfoDecode
  repeat safe_step

theorem safe_decodeOp (r : Recipe) : Safe (decodeOp S r) := by
  intro n
  simp only [decodeOp]
  have h2 := safe_lzipDecoderInit S
  have h3 := safe_aloneDecoderInit S
  split
  · cases r <;> first | exact safe_streamDecode S _ _ _ n | exact Spec.pure (by ceqn)
  · split
    · cases r <;> first | exact safe_lzmaDecodeInit S _ n | exact Spec.pure (by ceqn)
    · split
      · cases r <;> first | exact safe_lzmaDecodeInit S _ n | exact Spec.pure (by ceqn)
      · split
        · cases r <;> first | exact safe_lzmaDecodeInit S _ n | exact Spec.pure (by ceqn)
        · split
          · cases r with
            | xz c b s =>
              exact (safe_seq (safe_whenD _ (safe_seq (safe_onSub0 (safe_streamDecoderInit S _)) (safe_setData _ _)))
                (safe_onSub0 (safe_streamDecode S c b s))) n
            | lz d => exact (safe_seq (safe_onSub0 h2) (safe_onSub0 (safe_lzmaDecodeInit S d))) n
            | lzma d => exact (safe_seq (safe_onSub0 h3) (safe_onSub0 (safe_lzmaDecodeInit S d))) n
            | idx _ => exact Spec.pure (by ceqn)
            | raw _ => exact Spec.pure (by ceqn)
            | blk _ => exact Spec.pure (by ceqn)
            | mlz _ => exact Spec.pure (by ceqn)
          · split
            · cases r <;> first | exact safe_indexDecode S _ n | exact Spec.pure (by ceqn)
            · split
              · cases r <;> first | exact safe_fileInfoDecode S _ _ n | exact Spec.pure (by ceqn)
              · exact Spec.pure (by ceqn)

end XzVerif.Alloc
