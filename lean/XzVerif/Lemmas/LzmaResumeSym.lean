/-
  Transport of the symbol-level steps of the LZMA decoder model between two views of the same decoder state
  (input so far, dictionary limit, `uncompressed_size` member), their frames, exits and "starved = nothing happened" facts.

  Two ingredients:
  * `Loc` (LzmaCausalRc.lean: locality in the input) + the frame `Fr` give the EXTENSION lemma `loc_extend`: a run that did
    not starve is the same over any longer input;
  * `Ind g x` (here): `x` commutes with the override `g` of members it neither reads nor writes; proved by following the
    structure of the decoders for the concrete family `gv` (dictionary limit, `uncomp`, `initLeft`, LZMA2 layer).
  Core Lean only.
-/
import XzVerif.Lemmas.LzmaResumeDefs
import XzVerif.Lemmas.LzmaCausalRc
import XzVerif.Lemmas.C03Frame
import XzVerif.Lemmas.C04CheckedCall

namespace XzVerif.LzmaR
open XzVerif.RangeDec XzVerif.LzDict XzVerif.Lzma XzVerif.Lzma2

/-- override the three members that differ between two runs being compared -/
def ov (b : ByteArray) (L : Nat) (v : Option Nat) (s : St) : St :=
  { s with inp := b, dp := { s.dp with limit := L }, uncomp := v }

def mapSt {α : Type} (f : St → St) : EStateM.Result Exit St α → EStateM.Result Exit St α
  | .ok a t => .ok a (f t)
  | .error e t => .error e (f t)

/-- not "stopped for lack of input" -/
def NotStarved {α : Type} : EStateM.Result Exit St α → Prop
  | .error .needInput _ => False
  | _ => True

/-! ### independence from members that are neither read nor written -/

/-- the concrete family of overrides: dictionary limit, `uncomp`, `initLeft`, LZMA2 layer -/
def gv (L : Nat → Nat) (v : Option Nat → Option Nat) (k : Nat → Nat) (f : L2 → L2) (s : St) : St :=
  { s with dp := { s.dp with limit := L s.dp.limit }, uncomp := v s.uncomp, initLeft := k s.initLeft, l2 := f s.l2 }

/-- `x` commutes with the override `g` -/
structure Ind (g : St → St) {α : Type} (x : M α) : Prop where
  comm : ∀ s, x (g s) = mapSt g (x s)

theorem Ind.bind {g : St → St} {α β : Type} {x : M α} {f : α → M β} (hx : Ind g x) (hf : ∀ a, Ind g (f a)) :
    Ind g (x >>= f) := ⟨fun s => by
  show EStateM.bind x f (g s) = mapSt g (EStateM.bind x f s)
  unfold EStateM.bind
  rw [hx.comm s]
  cases x s with
  | ok a t => exact (hf a).comm t
  | error e t => rfl⟩

theorem Ind.pure {g : St → St} {α : Type} (a : α) : Ind g (pure a : M α) := ⟨fun _ => rfl⟩
theorem Ind.throw {g : St → St} {α : Type} (e : Exit) : Ind g (throw e : M α) := ⟨fun _ => rfl⟩

theorem Ind.step {g : St → St} {α : Type} (r : St → α) (u : St → St)
    (hr : ∀ s, r (g s) = r s) (hu : ∀ s, u (g s) = g (u s)) :
    Ind g (fun s => EStateM.Result.ok (r s) (u s) : M α) := ⟨fun s => by
  show EStateM.Result.ok (r (g s)) (u (g s)) = EStateM.Result.ok (r s) (g (u s))
  rw [hr, hu]⟩

theorem Ind.read {g : St → St} {α : Type} (r : St → α) (hr : ∀ s, r (g s) = r s) :
    Ind g (fun s => EStateM.Result.ok (r s) s : M α) :=
  Ind.step r id hr (fun _ => rfl)

theorem Ind.modify {g : St → St} (f : St → St) (hu : ∀ s, f (g s) = g (f s)) : Ind g (modify f : M PUnit) :=
  Ind.step (fun _ => PUnit.unit) f (fun _ => rfl) hu

section family
variable (L : Nat → Nat) (v : Option Nat → Option Nat) (k : Nat → Nat) (f : L2 → L2)

theorem rcNormalize_unf (s : St) :
    rcNormalize s =
      if s.range < RC_TOP_VALUE then
        if h : s.inPos < s.inp.size then
          .ok () { s with range := ((Rc.mk s.range s.code).shiftIn (s.inp[s.inPos]).toNat).range,
                          code := ((Rc.mk s.range s.code).shiftIn (s.inp[s.inPos]).toNat).code,
                          inPos := s.inPos + 1 }
        else .error .needInput s
      else .ok () s := rfl

theorem rcNormalize_gv (s : St) :
    rcNormalize (gv L v k f s) =
      if s.range < RC_TOP_VALUE then
        if h : s.inPos < s.inp.size then
          .ok () (gv L v k f
            { s with range := ((Rc.mk s.range s.code).shiftIn (s.inp[s.inPos]).toNat).range,
                     code := ((Rc.mk s.range s.code).shiftIn (s.inp[s.inPos]).toNat).code,
                     inPos := s.inPos + 1 })
        else .error .needInput (gv L v k f s)
      else .ok () (gv L v k f s) := rfl

theorem ind_rcNormalize : Ind (gv L v k f) rcNormalize := ⟨fun s => by
  rw [rcNormalize_gv, rcNormalize_unf]
  by_cases hr : s.range < RC_TOP_VALUE
  · rw [if_pos hr, if_pos hr]
    by_cases hb : s.inPos < s.inp.size
    · rw [dif_pos hb, dif_pos hb]; rfl
    · rw [dif_neg hb, dif_neg hb]; rfl
  · rw [if_neg hr, if_neg hr]; rfl⟩

theorem Ind.stepRc {α : Type} (c1 : Nat → Nat → α) (c2 c3 : Nat → Nat → Nat) :
    Ind (gv L v k f) (fun s : St => EStateM.Result.ok (c1 s.range s.code)
      { s with range := c2 s.range s.code, code := c3 s.range s.code } : M α) :=
  Ind.step (fun s => c1 s.range s.code) (fun s => { s with range := c2 s.range s.code, code := c3 s.range s.code })
    (fun _ => rfl) (fun _ => rfl)

theorem Ind.stepBit {α : Type} (idx : Nat) (c1 : Nat → Nat → Nat → α) (c2 c3 c4 : Nat → Nat → Nat → Nat) :
    Ind (gv L v k f) (fun s : St => EStateM.Result.ok (c1 s.range s.code (s.probs.getD idx 0))
      (St.setProb { s with range := c2 s.range s.code (s.probs.getD idx 0), code := c3 s.range s.code (s.probs.getD idx 0) }
        idx (c4 s.range s.code (s.probs.getD idx 0))) : M α) :=
  Ind.step (fun s => c1 s.range s.code (s.probs.getD idx 0))
    (fun s => St.setProb { s with range := c2 s.range s.code (s.probs.getD idx 0), code := c3 s.range s.code (s.probs.getD idx 0) }
        idx (c4 s.range s.code (s.probs.getD idx 0)))
    (fun _ => rfl) (fun _ => rfl)

theorem ind_bitStep (idx : Nat) : Ind (gv L v k f) (bitStep idx) :=
  Ind.stepBit L v k f idx (fun r c p => (bitCore (Rc.mk r c) p).1) (fun r c p => (bitCore (Rc.mk r c) p).2.1.range)
    (fun r c p => (bitCore (Rc.mk r c) p).2.1.code) (fun r c p => (bitCore (Rc.mk r c) p).2.2)

theorem ind_rcBit (idx : Nat) : Ind (gv L v k f) (rcBit idx) := by
  rw [rcBit_eq]
  exact Ind.bind (ind_rcNormalize L v k f) (fun _ => ind_bitStep L v k f idx)

theorem ind_directStep : Ind (gv L v k f) (fun s : St =>
      let r := directCore (Rc.mk s.range s.code)
      EStateM.Result.ok r.1 { s with range := r.2.range, code := r.2.code } : M Nat) :=
  Ind.stepRc L v k f (fun r c => (directCore (Rc.mk r c)).1) (fun r c => (directCore (Rc.mk r c)).2.range)
    (fun r c => (directCore (Rc.mk r c)).2.code)

theorem ind_rcDirect (n : Nat) : ∀ dest, Ind (gv L v k f) (rcDirect n dest) := by
  induction n with
  | zero => intro dest; exact Ind.pure dest
  | succ n ih =>
    intro dest
    unfold rcDirect
    exact Ind.bind (ind_rcNormalize L v k f) (fun _ => Ind.bind (ind_directStep L v k f) (fun b => ih _))

theorem ind_bittree (base : Nat) : ∀ n sym, Ind (gv L v k f) (bittree base n sym)
  | 0, sym => Ind.pure sym
  | n + 1, sym => by
    unfold bittree
    exact Ind.bind (ind_rcBit L v k f _) (fun b => ind_bittree base n _)

theorem ind_litMatched (base : Nat) : ∀ n sym offset len, Ind (gv L v k f) (litMatched base n sym offset len)
  | 0, sym, _, _ => Ind.pure sym
  | n + 1, sym, offset, len => by
    unfold litMatched
    exact Ind.bind (ind_rcBit L v k f _) (fun b => ind_litMatched base n _ _ _)

theorem ind_revBittree (base : Nat) : ∀ n sym offset acc, Ind (gv L v k f) (revBittree base n sym offset acc)
  | 0, _, _, acc => Ind.pure acc
  | n + 1, sym, offset, acc => by
    unfold revBittree
    exact Ind.bind (ind_rcBit L v k f _) (fun b => ind_revBittree base n _ _ _)

theorem ind_revAlign : ∀ n sym offset, Ind (gv L v k f) (revAlign n sym offset)
  | 0, sym, _ => Ind.pure sym
  | n + 1, sym, offset => by
    unfold revAlign
    exact Ind.bind (ind_rcBit L v k f _) (fun b => ind_revAlign n _ _)

theorem ind_lenDecode (lenBase posState : Nat) : Ind (gv L v k f) (lenDecode lenBase posState) := by
  unfold lenDecode
  refine Ind.bind (ind_rcBit L v k f _) (fun c => ?_)
  split
  · exact Ind.bind (ind_bittree L v k f _ _ _) (fun _ => Ind.pure _)
  · refine Ind.bind (ind_rcBit L v k f _) (fun c2 => ?_)
    split
    · exact Ind.bind (ind_bittree L v k f _ _ _) (fun _ => Ind.pure _)
    · exact Ind.bind (ind_bittree L v k f _ _ _) (fun _ => Ind.pure _)

theorem ind_distDecode (len : Nat) : Ind (gv L v k f) (distDecode len) := by
  unfold distDecode
  refine Ind.bind (ind_bittree L v k f _ _ _) (fun slot1 => ?_)
  simp only []
  split
  · exact Ind.pure _
  · split
    · exact ind_revBittree L v k f _ _ _ _ _
    · exact Ind.bind (ind_rcDirect L v k f _ _) (fun r => Ind.bind (ind_revAlign L v k f _ _ _) (fun a => Ind.pure _))

theorem ind_decodeSymbol (eopmValid : Bool) : Ind (gv L v k f) (decodeSymbol eopmValid) := by
  unfold decodeSymbol
  refine Ind.bind (Ind.read _ (fun _ => rfl)) (fun t => ?_)
  obtain ⟨state, posState, full⟩ := t
  simp only []
  refine Ind.bind (ind_rcBit L v k f _) (fun isMatch => ?_)
  split
  · -- literal
    refine Ind.bind (Ind.read _ (fun _ => rfl)) (fun base => ?_)
    split
    · refine Ind.bind (Ind.modify _ (fun _ => rfl)) (fun _ => ?_)
      exact Ind.bind (ind_bittree L v k f _ _ _) (fun sym => Ind.pure _)
    · refine Ind.bind (Ind.modify _ (fun _ => rfl)) (fun _ => ?_)
      refine Ind.bind (Ind.read _ (fun _ => rfl)) (fun mb => ?_)
      exact Ind.bind (ind_litMatched L v k f _ _ _ _ _) (fun sym => Ind.pure _)
  · refine Ind.bind (ind_rcBit L v k f _) (fun isRep => ?_)
    split
    · -- simple match
      refine Ind.bind (Ind.modify _ (fun _ => rfl)) (fun _ => ?_)
      refine Ind.bind (ind_lenDecode L v k f _ _) (fun len => ?_)
      refine Ind.bind (ind_distDecode L v k f _) (fun d => ?_)
      refine Ind.bind (Ind.modify _ (fun _ => rfl)) (fun _ => ?_)
      split
      · have hrest : Ind (gv L v k f) (do
              rcNormalize
              let fin ← (fun s : St => EStateM.Result.ok (s.code == 0) s)
              if fin then throw .streamEnd else throw .dataError : M Pending) := by
          refine Ind.bind (ind_rcNormalize L v k f) (fun _ => ?_)
          refine Ind.bind (Ind.read _ (fun _ => rfl)) (fun fin => ?_)
          split
          · exact Ind.throw _
          · exact Ind.throw _
        split
        · exact Ind.bind (Ind.throw _) (fun _ => hrest)
        · exact hrest
      · split
        · exact Ind.throw _
        · exact Ind.pure _
    · -- repeated match
      split
      · exact Ind.throw _
      · refine Ind.bind (ind_rcBit L v k f _) (fun isRep0 => ?_)
        refine Ind.bind ?_ (fun isShort => ?_)
        · split
          · exact Ind.bind (ind_rcBit L v k f _) (fun isLong => Ind.pure _)
          · refine Ind.bind (ind_rcBit L v k f _) (fun isRep1 => ?_)
            have hm : ∀ m : St → St, (∀ s, m (gv L v k f s) = gv L v k f (m s)) →
                Ind (gv L v k f) (do modify m; pure false : M Bool) :=
              fun m hm => Ind.bind (Ind.modify m hm) (fun _ => Ind.pure _)
            split
            · exact hm _ (fun _ => rfl)
            · refine Ind.bind (ind_rcBit L v k f _) (fun isRep2 => ?_)
              split
              · exact hm _ (fun _ => rfl)
              · exact hm _ (fun _ => rfl)
        · split
          · exact Ind.bind (Ind.modify _ (fun _ => rfl)) (fun _ => Ind.pure _)
          · refine Ind.bind (Ind.modify _ (fun _ => rfl)) (fun _ => ?_)
            exact Ind.bind (ind_lenDecode L v k f _ _) (fun len => Ind.pure _)

/-- the known-size test READS the dictionary limit: independent of the other three members only -/
theorem ind_symPrelude (ev mf : Bool) : Ind (gv id v k f) (symPrelude ev mf) := by
  unfold symPrelude
  refine Ind.bind (Ind.read _ (fun _ => rfl)) (fun atLimit => ?_)
  split
  · refine Ind.bind (ind_rcNormalize id v k f) (fun _ => ?_)
    refine Ind.bind (Ind.read _ (fun _ => rfl)) (fun t => ?_)
    obtain ⟨fin, allow⟩ := t
    simp only []
    split
    · exact Ind.throw _
    · split
      · exact Ind.throw _
      · exact Ind.bind (Ind.modify _ (fun _ => rfl)) (fun _ => Ind.pure _)
  · exact Ind.pure _

/-- the output step reads the dictionary limit too -/
theorem ind_doWrite (p : Pending) : Ind (gv id v k f) (doWrite p) := ⟨fun s => by
  cases p with
  | none => rfl
  | stuck => rfl
  | litWrite sym =>
    show (if s.dp.pos == s.dp.limit then _ else _) = mapSt _ (if s.dp.pos == s.dp.limit then _ else _)
    split <;> rfl
  | shortRep =>
    show (if s.dp.pos == s.dp.limit then _ else _) = mapSt _ (if s.dp.pos == s.dp.limit then _ else _)
    split <;> rfl
  | copy len =>
    show (if len - s.dp.repeatLeft len != 0 then _ else _) = mapSt _ (if len - s.dp.repeatLeft len != 0 then _ else _)
    split <;> rfl⟩

/-- `rc_read_init` WRITES `initLeft` -/
theorem ind_rcReadInitN : ∀ n, Ind (gv L v id f) (rcReadInitN n)
  | 0 => Ind.pure _
  | n + 1 => ⟨fun s => by
    unfold rcReadInitN
    show (if h : s.inPos < s.inp.size then _ else _) = mapSt _ (if h : s.inPos < s.inp.size then _ else _)
    by_cases hb : s.inPos < s.inp.size
    · rw [dif_pos hb, dif_pos hb]
      show (if (n + 1 == 5 && s.inp[s.inPos] != 0) = true then _ else _)
        = mapSt _ (if (n + 1 == 5 && s.inp[s.inPos] != 0) = true then _ else _)
      split
      · rfl
      · exact (ind_rcReadInitN n).comm
          { s with code := ((Rc.mk s.range s.code).initByte (s.inp[s.inPos]).toNat).code, inPos := s.inPos + 1, initLeft := n }
    · rw [dif_neg hb, dif_neg hb]; rfl⟩

end family

/-! ### extension to a longer input -/

theorem loc_extend {α : Type} {x : M α} (hx : Loc x) (hfr : ∀ s, Fr s (resSt (x s))) (u : St) (b b' : ByteArray)
    (hag : Agree b.size b b') (hpos : u.inPos ≤ b.size) (hns : NotStarved (x (St.withInp u b))) :
    x (St.withInp u b') = mapSt (fun t => St.withInp t b') (x (St.withInp u b)) := by
  have f1 := hfr (St.withInp u b)
  have f2 := hfr (St.withInp u b')
  rcases hx.rel b.size _ _ ⟨u, b, b', rfl, rfl, hag⟩ with hs | ⟨hd, _⟩
  · cases h1 : x (St.withInp u b) with
    | ok a t =>
      cases h2 : x (St.withInp u b') with
      | ok a' t' =>
        rw [h1, h2] at hs
        obtain ⟨rfl, w, c, c', rfl, rfl, _⟩ := hs
        rw [h2] at f2
        have hc : c' = b' := f2.inp
        subst hc
        rfl
      | error e' t' => rw [h1, h2] at hs; exact absurd hs id
    | error e t =>
      cases h2 : x (St.withInp u b') with
      | ok a' t' => rw [h1, h2] at hs; exact absurd hs id
      | error e' t' =>
        rw [h1, h2] at hs
        obtain ⟨rfl, w, c, c', rfl, rfl, _⟩ := hs
        rw [h2] at f2
        have hc : c' = b' := f2.inp
        subst hc
        rfl
  · exfalso
    rcases hd with h | ⟨t, h, _⟩
    · have h3 : (resSt (x (St.withInp u b))).inPos ≤ b.size := by
        have := f1.pos_le hpos
        rw [f1.inp] at this
        exact this
      exact absurd h (Nat.not_lt.mpr h3)
    · rw [h] at hns
      exact hns

/-- locality + frame + independence = transport between two views -/
theorem transport_of {α : Type} {x : M α} (hx : Loc x) (hfr : ∀ s, Fr s (resSt (x s)))
    (hind : ∀ L' v', Ind (gv (fun _ => L') (fun _ => v') id id) x)
    (s : St) (b b' : ByteArray) (L L' : Nat) (v v' : Option Nat)
    (hag : Agree b.size b b') (hpos : s.inPos ≤ b.size) (hns : NotStarved (x (ov b L v s))) :
    x (ov b' L' v' s) = mapSt (ov b' L' v') (x (ov b L v s)) := by
  have h1 := loc_extend hx hfr (ov b L v s) b b' hag hpos hns
  have h2 := (hind L' v').comm (St.withInp (ov b L v s) b')
  have h3 : x (ov b' L' v' s) = mapSt (gv (fun _ => L') (fun _ => v') id id) (x (St.withInp (ov b L v s) b')) := h2
  rw [h3, h1]
  show _ = mapSt (ov b' L' v') (x (St.withInp (ov b L v s) b))
  cases x (St.withInp (ov b L v s) b) <;> rfl

/-! ### the statements -/

/-- **transport.** A symbol-decoder run that did not starve is the same under any longer input, any limit, any `uncomp`. -/
theorem decodeSymbol_transport (ev : Bool) (s : St) (b b' : ByteArray) (L L' : Nat) (v v' : Option Nat)
    (hag : Agree b.size b b') (hpos : s.inPos ≤ b.size) (hns : NotStarved (decodeSymbol ev (ov b L v s))) :
    decodeSymbol ev (ov b' L' v' s) = mapSt (ov b' L' v') (decodeSymbol ev (ov b L v s)) :=
  transport_of (loc_decodeSymbol ev) (fun s => (sat_decodeSymbol ev s).1) (fun _ _ => ind_decodeSymbol _ _ _ _ ev)
    s b b' L L' v v' hag hpos hns

theorem rcNormalize_transport (s : St) (b b' : ByteArray) (L L' : Nat) (v v' : Option Nat)
    (hag : Agree b.size b b') (hpos : s.inPos ≤ b.size) (hns : NotStarved (rcNormalize (ov b L v s))) :
    rcNormalize (ov b' L' v' s) = mapSt (ov b' L' v') (rcNormalize (ov b L v s)) :=
  transport_of loc_rcNormalize (fun s => (sat_rcNormalize s).1) (fun _ _ => ind_rcNormalize _ _ _ _)
    s b b' L L' v v' hag hpos hns

/-- starving leaves the prelude's / first normalisation's start state unchanged -/
theorem rcNormalize_starved (s t : St) (e : Exit) (h : rcNormalize s = .error e t) : e = .needInput ∧ t = s := by
  rw [rcNormalize_unf] at h
  split at h
  · split at h
    · cases h
    · injection h with h1 h2
      exact ⟨h1.symm, h2.symm⟩
  · cases h

/-- the known-size test at the top of the loop reads `dict.limit`: transported when the test itself agrees -/
theorem symPrelude_transport (ev mf mf' : Bool) (s : St) (b b' : ByteArray) (L L' : Nat) (v v' : Option Nat)
    (hag : Agree b.size b b') (hpos : s.inPos ≤ b.size)
    (hc : (mf && (s.dp.pos == L)) = (mf' && (s.dp.pos == L')))
    (hns : NotStarved (symPrelude ev mf (ov b L v s))) :
    symPrelude ev mf' (ov b' L' v' s) = mapSt (ov b' L' v') (symPrelude ev mf (ov b L v s)) := by
  rw [symPrelude_eq] at hns
  rw [symPrelude_eq, symPrelude_eq]
  have hc1 : (mf' && ((ov b' L' v' s).dp.pos == (ov b' L' v' s).dp.limit)) = (mf && (s.dp.pos == L)) := hc.symm
  have hc2 : (mf && ((ov b L v s).dp.pos == (ov b L v s).dp.limit)) = (mf && (s.dp.pos == L)) := rfl
  rw [hc1, hc2]
  rw [hc2] at hns
  by_cases hcond : (mf && (s.dp.pos == L)) = true
  · rw [if_pos hcond]
    rw [if_pos hcond] at hns
    rw [if_pos hcond]
    have hns' : NotStarved (rcNormalize (ov b L v s)) := by
      cases hn : rcNormalize (ov b L v s) with
      | ok a t => exact trivial
      | error e t =>
        rw [hn] at hns
        simp only [] at hns
        cases e <;> first | exact trivial | exact hns
    rw [rcNormalize_transport s b b' L L' v v' hag hpos hns']
    cases rcNormalize (ov b L v s) with
    | error e t => rfl
    | ok a t =>
      show (if (t.code == 0) = true then _ else if (!t.allowEopm) = true then _ else _)
        = mapSt (ov b' L' v') (if (t.code == 0) = true then _ else if (!t.allowEopm) = true then _ else _)
      split
      · rfl
      · split <;> rfl
  · rw [if_neg hcond, if_neg hcond]
    rfl

theorem symPrelude_starved (ev mf : Bool) (s t : St) (h : symPrelude ev mf s = .error .needInput t) : t = s := by
  rw [symPrelude_eq] at h
  split at h
  · cases hn : rcNormalize s with
    | error e s1 =>
      rw [hn] at h
      have := rcNormalize_starved s s1 e hn
      injection h with _ h2
      rw [← h2]; exact this.2
    | ok a s1 =>
      rw [hn] at h
      simp only [] at h
      split at h
      · cases h
      · split at h <;> cases h
  · cases h

theorem bind_ok' {α β : Type} {x : M α} {f : α → M β} {s t : St} {a : α} (h : x s = .ok a t) : (x >>= f) s = f a t := by
  show EStateM.bind x f s = _
  unfold EStateM.bind
  rw [h]

theorem bind_error' {α β : Type} {x : M α} {f : α → M β} {s t : St} {e : Exit} (h : x s = .error e t) :
    (x >>= f) s = .error e t := by
  show EStateM.bind x f s = _
  unfold EStateM.bind
  rw [h]

/-- a symbol whose first normalisation starves has done nothing -/
theorem decodeSymbol_first (ev : Bool) (s t : St) (e : Exit) (h : rcNormalize s = .error e t) :
    decodeSymbol ev s = .error .needInput s := by
  have hst := rcNormalize_starved s t e h
  rw [hst.1, hst.2] at h
  have hb : ∀ idx, rcBit idx s = .error .needInput s := by
    intro idx
    unfold rcBit
    rw [h]
  unfold decodeSymbol
  refine (bind_ok' (x := fun s : St => EStateM.Result.ok (s.state, s.dp.pos &&& s.posMask, s.dp.full) s)
    (s := s) (a := (s.state, s.dp.pos &&& s.posMask, s.dp.full)) (t := s) rfl).trans ?_
  simp only []
  exact bind_error' (hb _)

theorem mapSt_initLeft {α : Type} (L : Nat → Nat) (v : Option Nat → Option Nat) (c : Nat) (f : L2 → L2)
    (r : EStateM.Result Exit St α) : (resSt (mapSt (gv L v (fun _ => c) f) r)).initLeft = c := by
  cases r <;> rfl

theorem St.frame_eq (s t : St) (fr : Fr s t) (fe : Fe s t) (hi : t.initLeft = s.initLeft) :
    SymSnap.restore (SymSnap.of t) s = t := by
  obtain ⟨h1, _, _, h4, h5, h6, h7, h8, h9, h10, h11, h12⟩ := fr
  obtain ⟨g1, g2⟩ := fe
  cases t
  cases s
  dsimp only at *
  subst_vars
  rfl

/-- frame of the symbol decoder: only the nine `SymSnap` members change; the input position moves forward inside the input -/
theorem decodeSymbol_frame (ev : Bool) (s : St) :
    SymSnap.restore (SymSnap.of (resSt (decodeSymbol ev s))) s = resSt (decodeSymbol ev s)
    ∧ s.inPos ≤ (resSt (decodeSymbol ev s)).inPos
    ∧ (s.inPos ≤ s.inp.size → (resSt (decodeSymbol ev s)).inPos ≤ s.inp.size) := by
  have fr := (sat_decodeSymbol ev s).1
  have fe := (sate_decodeSymbol ev s).1
  have hi : (resSt (decodeSymbol ev s)).initLeft = s.initLeft := by
    have h : decodeSymbol ev s = mapSt (gv id id (fun _ => s.initLeft) id) (decodeSymbol ev s) :=
      (ind_decodeSymbol id id (fun _ => s.initLeft) id ev).comm s
    have := congrArg (fun r => (resSt r).initLeft) h
    exact this.trans (mapSt_initLeft _ _ _ _ _)
  refine ⟨St.frame_eq s _ fr fe hi, fr.pos_mono, fun hp => ?_⟩
  have := fr.pos_le hp
  rw [fr.inp] at this
  exact this

theorem rcNormalize_ex (s : St) :
    ∃ r c p, resSt (rcNormalize s) = { s with range := r, code := c, inPos := p } := by
  rw [rcNormalize_unf]
  split
  · split
    · exact ⟨_, _, _, rfl⟩
    · exact ⟨s.range, s.code, s.inPos, rfl⟩
  · exact ⟨s.range, s.code, s.inPos, rfl⟩

/-- frame of the known-size test: it changes `range`, `code`, `inPos`, `eopmValid` only -/
theorem symPrelude_frame (ev mf : Bool) (s : St) :
    (resSt (symPrelude ev mf s)) = { s with range := (resSt (symPrelude ev mf s)).range, code := (resSt (symPrelude ev mf s)).code,
                                            inPos := (resSt (symPrelude ev mf s)).inPos, eopmValid := (resSt (symPrelude ev mf s)).eopmValid }
    ∧ s.inPos ≤ (resSt (symPrelude ev mf s)).inPos
    ∧ (s.inPos ≤ s.inp.size → (resSt (symPrelude ev mf s)).inPos ≤ s.inp.size) := by
  have fr := (sat_symPrelude ev mf s).1
  refine ⟨?_, fr.pos_mono, fun hp => ?_⟩
  · generalize hr : symPrelude ev mf s = r
    rw [symPrelude_eq] at hr
    obtain ⟨rr, c, p, hex⟩ := rcNormalize_ex s
    split at hr
    · cases hn : rcNormalize s with
      | error e s1 =>
        rw [hn] at hr hex
        subst hr
        have hex' : s1 = { s with range := rr, code := c, inPos := p } := hex
        subst hex'
        rfl
      | ok a s1 =>
        rw [hn] at hr hex
        have hex' : s1 = { s with range := rr, code := c, inPos := p } := hex
        subst hex'
        simp only [] at hr
        split at hr
        · subst hr; rfl
        · split at hr
          · subst hr; rfl
          · subst hr; rfl
    · subst hr; rfl
  · have := fr.pos_le hp
    rw [fr.inp] at this
    exact this

/-- when the known-size test lets the loop go on, either it did nothing (and returns its argument) or end markers are allowed
    with a known size -/
theorem symPrelude_ok (ev mf : Bool) (s t : St) (ev' : Bool) (h : symPrelude ev mf s = .ok ev' t) :
    (t = s ∧ ev' = ev ∧ (mf && (s.dp.pos == s.dp.limit)) = false)
    ∨ (s.allowEopm = true ∧ mf = true ∧ ev' = true ∧ t.eopmValid = true) := by
  rw [symPrelude_eq] at h
  split at h
  · next hcond =>
    right
    have hmf : mf = true := by
      cases mf
      · simp at hcond
      · rfl
    have hal := (sat_rcNormalize s).1.allowEopm
    cases hn : rcNormalize s with
    | error e s1 => rw [hn] at h; cases h
    | ok a s1 =>
      rw [hn] at h hal
      have hal' : s1.allowEopm = s.allowEopm := hal
      simp only [] at h
      split at h
      · cases h
      · split at h
        · cases h
        · next hna =>
          injection h with h1 h2
          refine ⟨?_, hmf, h1.symm, ?_⟩
          · rw [← hal']
            cases hx : s1.allowEopm
            · rw [hx] at hna; simp at hna
            · rfl
          · rw [← h2]
  · next hcond =>
    left
    injection h with h1 h2
    refine ⟨h2.symm, h1.symm, ?_⟩
    cases hx : (mf && (s.dp.pos == s.dp.limit))
    · rfl
    · exact absurd hx hcond

/-- exits of the symbol decoder -/
theorem decodeSymbol_exits (ev : Bool) (s t : St) (e : Exit) (h : decodeSymbol ev s = .error e t) :
    e = .needInput ∨ e = .dataError ∨ e = .streamEnd := by
  rcases (sate_decodeSymbol ev s).2 e t h with h | h | h
  · exact Or.inl h
  · exact Or.inr (Or.inl h)
  · exact Or.inr (Or.inr h.1)

theorem symPrelude_exits (ev mf : Bool) (s t : St) (e : Exit) (h : symPrelude ev mf s = .error e t) :
    e = .needInput ∨ e = .dataError ∨ e = .streamEnd := by
  rw [symPrelude_eq] at h
  split at h
  · cases hn : rcNormalize s with
    | error e1 s1 =>
      rw [hn] at h
      injection h with h1 _
      exact Or.inl (h1 ▸ (rcNormalize_starved s s1 e1 hn).1)
    | ok a s1 =>
      rw [hn] at h
      simp only [] at h
      split at h
      · injection h with h1 _; exact Or.inr (Or.inr h1.symm)
      · split at h
        · injection h with h1 _; exact Or.inr (Or.inl h1.symm)
        · cases h
  · cases h

/-! ### independence from the LZMA2 layer member -/

theorem decodeSymbol_setL2 (ev : Bool) (s : St) (f : L2 → L2) :
    decodeSymbol ev (setL2 s f) = mapSt (fun t => setL2 t f) (decodeSymbol ev s) :=
  (ind_decodeSymbol id id id f ev).comm s

theorem rcNormalize_setL2 (s : St) (f : L2 → L2) :
    rcNormalize (setL2 s f) = mapSt (fun t => setL2 t f) (rcNormalize s) :=
  (ind_rcNormalize id id id f).comm s

theorem symPrelude_setL2 (ev mf : Bool) (s : St) (f : L2 → L2) :
    symPrelude ev mf (setL2 s f) = mapSt (fun t => setL2 t f) (symPrelude ev mf s) :=
  (ind_symPrelude id id f ev mf).comm s

theorem doWrite_setL2 (p : Pending) (s : St) (f : L2 → L2) :
    doWrite p (setL2 s f) = mapSt (fun t => setL2 t f) (doWrite p s) :=
  (ind_doWrite id id f p).comm s

theorem rcReadInitN_setL2 (n : Nat) (s : St) (f : L2 → L2) :
    rcReadInitN n (setL2 s f) = mapSt (fun t => setL2 t f) (rcReadInitN n s) :=
  (ind_rcReadInitN id id f n).comm s

/-! ### independence from the `uncomp` member (unconditional: also when starved) -/

theorem decodeSymbol_uncomp (ev : Bool) (s : St) (w : Option Nat) :
    decodeSymbol ev { s with uncomp := w } = mapSt (fun t => { t with uncomp := w }) (decodeSymbol ev s) :=
  (ind_decodeSymbol id (fun _ => w) id id ev).comm s

theorem rcNormalize_uncomp (s : St) (w : Option Nat) :
    rcNormalize { s with uncomp := w } = mapSt (fun t => { t with uncomp := w }) (rcNormalize s) :=
  (ind_rcNormalize id (fun _ => w) id id).comm s

theorem symPrelude_uncomp (ev mf : Bool) (s : St) (w : Option Nat) :
    symPrelude ev mf { s with uncomp := w } = mapSt (fun t => { t with uncomp := w }) (symPrelude ev mf s) :=
  (ind_symPrelude (fun _ => w) id id ev mf).comm s

theorem doWrite_uncomp (p : Pending) (s : St) (w : Option Nat) :
    doWrite p { s with uncomp := w } = mapSt (fun t => { t with uncomp := w }) (doWrite p s) :=
  (ind_doWrite (fun _ => w) id id p).comm s

end XzVerif.LzmaR
