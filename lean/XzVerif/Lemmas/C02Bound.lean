/-
  Helper lemmas for C02: the bound functions of block_buffer_encoder.c / stream_buffer_encoder.c.
-/
import XzVerif.Lemmas.C02Bytes

namespace XzVerif.Container
open XzVerif XzVerif.Vli

theorem vliSize_le (v : Nat) : vliSize v ≤ 9 := by
  unfold vliSize
  split
  · omega
  · exact vliSizeAux_le 8 v

theorem vliSize_pos (v : Nat) (h : v ≤ VLI_MAX) : 1 ≤ vliSize v := by
  unfold vliSize
  have : ¬ (v > VLI_MAX) := by omega
  simp only [this, if_false]
  exact vliSizeAux_pos 8 v

theorem consts_eval : COMPRESSED_SIZE_MAX = 9223372036854774716 ∧ LZMA2_CHUNK_MAX = 65536 ∧ LZMA2_HEADER_UNCOMPRESSED = 3
    ∧ BLOCK_HEADERS_BOUND = 92 ∧ STREAM_HEADERS_BOUND = 48 ∧ INDEX_BOUND = 24 ∧ STREAM_HEADER_SIZE = 12
    ∧ VLI_MAX = 9223372036854775807 ∧ UINT64_MAX = 18446744073709551615 := by decide

/-- Closed form of `lzma2_bound`: the uncompressed-chunk size if it fits below COMPRESSED_SIZE_MAX, else 0. -/
theorem lzma2Bound_eq (n : Nat) :
    lzma2Bound n = if n + ((n + 65535) / 65536 * 3 + 1) ≤ 9223372036854774716 then n + ((n + 65535) / 65536 * 3 + 1) else 0 := by
  obtain ⟨c1, c2, c3, -⟩ := consts_eval
  unfold lzma2Bound
  simp only [c1, c2, c3]
  by_cases h1 : n > 9223372036854774716
  · have : ¬ (n + ((n + 65535) / 65536 * 3 + 1) ≤ 9223372036854774716) := by omega
    simp only [h1, this, if_true, if_false]
  · simp only [h1, if_false]
    have e : n + 65536 - 1 = n + 65535 := by omega
    rw [e]
    by_cases h2 : 9223372036854774716 - ((n + 65535) / 65536 * 3 + 1) < n
    · have : ¬ (n + ((n + 65535) / 65536 * 3 + 1) ≤ 9223372036854774716) := by omega
      simp only [h2, this, if_true, if_false]
    · have : n + ((n + 65535) / 65536 * 3 + 1) ≤ 9223372036854774716 := by omega
      simp only [h2, this, if_true, if_false]

theorem uncompressedChunksSize_eq (n : Nat) : uncompressedChunksSize n = n + ((n + 65535) / 65536 * 3 + 1) := by
  obtain ⟨c1, c2, c3, -⟩ := consts_eval
  unfold uncompressedChunksSize
  simp only [c2, c3]
  have e : n + 65536 - 1 = n + 65535 := by omega
  rw [e]; omega

/-- `lzma2_bound(n)` is 0 exactly when the uncompressed-chunk encoding of `n` bytes would exceed COMPRESSED_SIZE_MAX,
    and otherwise it is exactly that size. -/
theorem lzma2Bound_spec (n : Nat) :
    (lzma2Bound n = 0 ↔ uncompressedChunksSize n > COMPRESSED_SIZE_MAX) ∧
    (lzma2Bound n ≠ 0 → lzma2Bound n = uncompressedChunksSize n) := by
  rw [lzma2Bound_eq, uncompressedChunksSize_eq, consts_eval.1]
  by_cases h : n + ((n + 65535) / 65536 * 3 + 1) ≤ 9223372036854774716
  · rw [if_pos h]
    exact ⟨⟨fun h0 => by omega, fun h0 => by omega⟩, fun _ => rfl⟩
  · rw [if_neg h]
    exact ⟨⟨fun _ => by omega, fun _ => rfl⟩, fun h0 => absurd rfl h0⟩

theorem blockBufferBound64_eq (n : Nat) :
    blockBufferBound64 n = if lzma2Bound n = 0 then 0 else 92 + (lzma2Bound n + 3) / 4 * 4 := by
  unfold blockBufferBound64
  simp only [consts_eval.2.2.2.1]

theorem blockBufferBound64_zero_iff (n : Nat) : blockBufferBound64 n = 0 ↔ lzma2Bound n = 0 := by
  rw [blockBufferBound64_eq]
  by_cases h : lzma2Bound n = 0
  · simp [h]
  · rw [if_neg h]
    exact ⟨fun h0 => by omega, fun h0 => absurd h0 h⟩

theorem lzma2Bound_le (n : Nat) : lzma2Bound n ≤ 9223372036854774716 := by
  rw [lzma2Bound_eq]
  by_cases h : n + ((n + 65535) / 65536 * 3 + 1) ≤ 9223372036854774716
  · simp only [h, if_true]
  · simp only [h, if_false]; omega

theorem blockBufferBound64_le (n : Nat) : blockBufferBound64 n ≤ 92 + 9223372036854774716 := by
  have := lzma2Bound_le n
  rw [blockBufferBound64_eq]
  by_cases h : lzma2Bound n = 0
  · simp only [h, if_true]; omega
  · simp only [h, if_false]; omega

/-- The second guard of `lzma_stream_buffer_bound` (`min(SIZE_MAX, VLI_MAX) - block_bound < HEADERS_BOUND`) can never fire
    on a 64-bit `size_t`: the function returns 0 exactly when the Block bound does. -/
theorem streamBufferBound_spec (n : Nat) :
    (streamBufferBound n = 0 ↔ blockBufferBound64 n = 0) ∧
    (streamBufferBound n ≠ 0 → streamBufferBound n = blockBufferBound64 n + 2 * STREAM_HEADER_SIZE + INDEX_BOUND) := by
  have hle := blockBufferBound64_le n
  obtain ⟨-, -, -, -, c5, c6, c7, c8, c9⟩ := consts_eval
  unfold streamBufferBound blockBufferBound
  simp only [c5, c6, c7, c8, c9]
  have hmin : (if (18446744073709551615 : Nat) < 9223372036854775807 then (18446744073709551615 : Nat) else 9223372036854775807) = 9223372036854775807 := by decide
  rw [hmin]
  by_cases h : blockBufferBound64 n = 0
  · simp [h]
  · have h2 : ¬ (9223372036854775807 - blockBufferBound64 n < 48) := by omega
    rw [if_neg h, if_neg h2]
    exact ⟨⟨fun h0 => by omega, fun h0 => absurd h0 h⟩, fun _ => by omega⟩

/-- None of the intermediate `uint64_t` expressions of the three bound functions can wrap. -/
theorem bounds_no_wrap (n : Nat) (h : n ≤ COMPRESSED_SIZE_MAX) :
    n + LZMA2_CHUNK_MAX - 1 < 2 ^ 64 ∧
    (n + LZMA2_CHUNK_MAX - 1) / LZMA2_CHUNK_MAX * LZMA2_HEADER_UNCOMPRESSED + 1 < 2 ^ 64 ∧
    lzma2Bound n + 3 < 2 ^ 64 ∧ blockBufferBound64 n < 2 ^ 64 ∧ streamBufferBound n < 2 ^ 64 := by
  have h1 := lzma2Bound_le n
  have h2 := blockBufferBound64_le n
  have h3 := streamBufferBound_spec n
  obtain ⟨c1, c2, c3, -, -, c6, c7, -, -⟩ := consts_eval
  simp only [c1, c2, c3, c6, c7] at *
  refine ⟨by omega, by omega, by omega, by omega, ?_⟩
  by_cases h0 : streamBufferBound n = 0
  · omega
  · have := h3.2 h0; omega

/-- Size of the Index field for a single Record never exceeds INDEX_BOUND; for no Record it is 8. -/
theorem indexSize_one_le (u c : Nat) : indexSize 1 (vliSize u + vliSize c) ≤ INDEX_BOUND := by
  have h1 := vliSize_le u
  have h2 := vliSize_le c
  have h3 : vliSize 1 = 1 := by decide
  unfold indexSize indexSizeUnpadded ceil4
  simp only [INDEX_BOUND, VLI_BYTES_MAX, h3]
  omega

theorem indexSize_zero : indexSize 0 0 = 8 := by decide

end XzVerif.Container
