/-
  CLMUL CRC64: folding by 512 bits (kernel-evaluated basis check, see CrcClmulId64.lean).
-/
import XzVerif.Lemmas.CrcClmulId64
import XzVerif.Lemmas.CrcClmulId32b
namespace XzVerif.Clmul
open XzVerif.Crc

set_option maxRecDepth 8000 in
/-- folding by 512 bits: `fold(v, fold512) ≡ v·x^512`. -/
theorem fold512_64_eq (v : V) : stepN P64' 128 (fold v p64.fold512) = stepN P64' 640 v := by
  rw [← L5_eq]
  refine basisAll_sound (Lin.comp (lin_fold _) (lin_stepN P64' 128)) (lin_L5 P64') ?_ v
  rw [p64_eq]; decide +kernel

end XzVerif.Clmul
