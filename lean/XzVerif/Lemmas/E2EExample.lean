/-
  C01 end-to-end, step 8 (for the non-vacuity examples): the kernel-evaluable twin `stdEncEnvK` of `XzEncEnv.stdEncEnv`
  (LZMA2 through `LzmaExec.lzma2EncodeK`), and the facts that let an example about `stdEncEnv` be decided by evaluating
  `stdEncEnvK`:  where the twin produces a payload, the real environment produces the same one and the parser's contract
  `Accepts` holds; a Stream encoder only looks at the payloads of its own pieces.
-/
import XzVerif.Lemmas.E2EKernel
import XzVerif.Lemmas.E2EPayload

namespace XzVerif.E2E
open XzVerif XzVerif.Container XzVerif.XzEncode XzVerif.XzEncEnv XzVerif.LzmaEnc XzVerif.Lzma2Enc

/-- `XzEncEnv.lastEnc` for LZMA2, kernel-evaluable -/
def lastEncK (p : Lzma.Props) (parser : Parser) : FilterOpts → List UInt8 → Option (List UInt8)
  | .lzma2 d, y => LzmaExec.lzma2EncodeK p d (toBuf y) 0 (parser p d (toBuf y))
  | _, _ => none

def rawEncodeK (p : Lzma.Props) (parser : Parser) (fs : List FilterOpts) (x : List UInt8) : Option (List UInt8) :=
  match fs.reverse with
  | [] => none
  | last :: preRev =>
    match applyPre preRev.reverse x with
    | none => none
    | some y => lastEncK p parser last y

def stdEncEnvK (p : Lzma.Props) (parser : Parser) : EncEnv :=
  { encPayload := fun fs x => (rawEncodeK p parser fs x).getD [], rawInit := rawInitStd p, check := stdCheck }

theorem lastEnc_of_K (p : Lzma.Props) (parser : Parser) (l : FilterOpts) (y o : List UInt8)
    (h : lastEncK p parser l y = some o) : lastEnc p parser l y = some o := by
  cases l with
  | lzma2 d =>
    simp only [lastEncK] at h
    obtain ⟨res, hres, hout⟩ := LzmaExec.lzma2Encode_of_K p d (toBuf y) 0 _ o h
    simp only [lastEnc, hres, hout]
  | lzma1 _ _ _ _ _ => cases h
  | bcj _ _ => cases h
  | delta _ => cases h
  | other _ => cases h

theorem rawEncode_of_K (p : Lzma.Props) (parser : Parser) (fs : List FilterOpts) (x o : List UInt8)
    (h : rawEncodeK p parser fs x = some o) : rawEncode p parser fs x = some o := by
  unfold rawEncodeK at h
  unfold rawEncode
  cases hr : fs.reverse with
  | nil => rw [hr] at h; cases h
  | cons l preRev =>
    rw [hr] at h
    simp only [] at h ⊢
    cases ha : applyPre preRev.reverse x with
    | none => rw [ha] at h; cases h
    | some y =>
      rw [ha] at h
      exact lastEnc_of_K p parser l y o h

/-- where the twin produces a payload: the parser's contract holds and the real environment writes the same bytes -/
theorem of_K (p : Lzma.Props) (parser : Parser) (fs : List FilterOpts) (x : List UInt8)
    (h : (rawEncodeK p parser fs x).isSome = true) :
    Accepts p parser fs x ∧ (stdEncEnv p parser).encPayload fs x = (stdEncEnvK p parser).encPayload fs x := by
  obtain ⟨o, ho⟩ := Option.isSome_iff_exists.mp h
  have := rawEncode_of_K p parser fs x o ho
  refine ⟨by unfold Accepts; rw [this]; rfl, ?_⟩
  show (rawEncode p parser fs x).getD [] = (rawEncodeK p parser fs x).getD []
  rw [this, ho]

/-! ## the Stream encoders only look at the payloads of their own pieces -/

theorem blockEncodeST_congr (E E' : EncEnv) (check : Nat) (fs : List FilterOpts) (d : List UInt8)
    (h1 : E.rawInit = E'.rawInit) (h2 : E.check = E'.check) (h3 : E.encPayload fs d = E'.encPayload fs d) :
    blockEncodeST E check fs d = blockEncodeST E' check fs d := by
  unfold blockEncodeST blockEncoderInit blockBody
  rw [h1, h2, h3]

theorem blocksEncode_congr (enc enc' : List UInt8 → Res BlockOut) : ∀ (blocks : List (List UInt8)) (acc : IndexAcc),
    (∀ d ∈ blocks, enc d = enc' d) → blocksEncode enc blocks acc = blocksEncode enc' blocks acc
  | [], _, _ => rfl
  | d :: rest, acc, h => by
    have hd := h d (List.mem_cons_self ..)
    have ih := fun a => blocksEncode_congr enc enc' rest a (fun d' hd' => h d' (List.mem_cons_of_mem _ hd'))
    simp only [blocksEncode, hd, ih]

theorem streamEncodeST_congr (E E' : EncEnv) (cfg : Cfg) (blocks : List (List UInt8))
    (h1 : E.rawInit = E'.rawInit) (h2 : E.check = E'.check)
    (h3 : ∀ d ∈ blocks, E.encPayload cfg.filters d = E'.encPayload cfg.filters d) :
    streamEncodeST E cfg blocks = streamEncodeST E' cfg blocks := by
  unfold streamEncodeST streamInit blockEncoderInit
  rw [h1, blocksEncode_congr _ _ blocks {} (fun d hd => blockEncodeST_congr E E' cfg.check cfg.filters d h1 h2 (h3 d hd))]

theorem streamBufferEncode_congr (E E' : EncEnv) (cfg : Cfg) (data : List UInt8) (avail : Nat)
    (h1 : E.rawInit = E'.rawInit) (h2 : E.check = E'.check)
    (h3 : E.encPayload cfg.filters data = E'.encPayload cfg.filters data) :
    streamBufferEncode E cfg data avail = streamBufferEncode E' cfg data avail := by
  unfold streamBufferEncode blockBufferEncode blockEncodeNormal
  rw [h1, h2, h3]

/-! ## payload tables: evaluate each payload once, then the container -/

/-- an encoder environment whose payloads are looked up in a table (input ↦ Compressed Data) -/
def tableEnv (p : Lzma.Props) (tbl : List (List UInt8 × List UInt8)) : EncEnv :=
  { encPayload := fun _ x => ((tbl.find? (fun e => e.1 == x)).map (·.2)).getD [], rawInit := rawInitStd p, check := stdCheck }

/-- If every table entry is what the (kernel-evaluable) chunker writes for its input and every piece has an entry, then the
    parser's contract holds on every piece and the real environment's Stream is the table environment's Stream. -/
theorem stream_of_table (p : Lzma.Props) (parser : Parser) (cfg : Cfg) (blocks : List (List UInt8))
    (tbl : List (List UInt8 × List UInt8))
    (htbl : ∀ e ∈ tbl, rawEncodeK p parser cfg.filters e.1 = some e.2)
    (hcov : ∀ d ∈ blocks, (tbl.find? (fun e => e.1 == d)).isSome = true) :
    (∀ d ∈ blocks, Accepts p parser cfg.filters d) ∧
      streamEncodeST (stdEncEnv p parser) cfg blocks = streamEncodeST (tableEnv p tbl) cfg blocks := by
  have key : ∀ d ∈ blocks, Accepts p parser cfg.filters d ∧
      (stdEncEnv p parser).encPayload cfg.filters d = (tableEnv p tbl).encPayload cfg.filters d := by
    intro d hd
    obtain ⟨e, he⟩ := Option.isSome_iff_exists.mp (hcov d hd)
    have hmem := List.mem_of_find?_eq_some he
    have heq : e.1 = d := by
      have := List.find?_some he
      simpa using this
    have hk := htbl e hmem
    rw [heq] at hk
    obtain ⟨ha, hp⟩ := of_K p parser cfg.filters d (by rw [hk]; rfl)
    refine ⟨ha, ?_⟩
    rw [hp]
    show (rawEncodeK p parser cfg.filters d).getD [] = ((tbl.find? (fun e => e.1 == d)).map (·.2)).getD []
    rw [hk, he]
    rfl
  exact ⟨fun d hd => (key d hd).1, streamEncodeST_congr _ _ cfg blocks rfl rfl (fun d hd => (key d hd).2)⟩

/-- the same for the single-call encoder and its one piece -/
theorem buffer_of_table (p : Lzma.Props) (parser : Parser) (cfg : Cfg) (data o : List UInt8) (avail : Nat)
    (h : rawEncodeK p parser cfg.filters data = some o) :
    Accepts p parser cfg.filters data ∧
      streamBufferEncode (stdEncEnv p parser) cfg data avail = streamBufferEncode (tableEnv p [(data, o)]) cfg data avail := by
  obtain ⟨ha, hp⟩ := of_K p parser cfg.filters data (by rw [h]; rfl)
  refine ⟨ha, streamBufferEncode_congr _ _ cfg data avail rfl rfl ?_⟩
  rw [hp]
  show (rawEncodeK p parser cfg.filters data).getD [] = (([(data, o)].find? (fun e => e.1 == data)).map (·.2)).getD []
  rw [h]
  simp

theorem exists_of_isSome {ε α : Type} (x : Except ε α) (h : x.toOption.isSome = true) : ∃ r, x = .ok r := by
  cases x with
  | error e => cases h
  | ok a => exact ⟨a, rfl⟩

end XzVerif.E2E
