/-
  Helper lemmas for C09: xz's coder_set_compression_settings (Model/XzAdjust.lean).
-/
import XzVerif.Model.XzAdjust

namespace XzVerif.XzAdjust
open XzVerif.Memusage

/-- Thread reduction: an accepted thread count is smaller than before, at least 1, and its usage fits the limit. -/
theorem reduceThreads_inl (b : Build) (bs : Nat) (chains : List (Nat × List Filter)) (limit : Nat) :
    ∀ (t t' u : Nat), reduceThreads b bs chains limit t = .inl (some (t', u)) →
      t' < t ∧ 1 ≤ t' ∧ u ≤ limit ∧ u = (maxOpt (mtUsages b t' bs chains)).getD UINT64_MAX := by
  intro t
  induction t using Nat.strongRecOn with
  | _ t ih =>
    intro t' u h
    match t, ih, h with
    | 0, _, h => simp [reduceThreads] at h
    | 1, _, h => simp [reduceThreads] at h
    | t + 2, ih, h =>
      simp only [reduceThreads] at h
      split at h
      · rename_i hle
        simp only [Sum.inl.injEq, Option.some.injEq, Prod.mk.injEq] at h
        obtain ⟨ht, hu⟩ := h
        subst ht; subst hu
        exact ⟨by omega, by omega, hle, rfl⟩
      · split at h
        · simp at h
        · have := ih (t + 1) (by omega) t' u h
          exact ⟨by omega, this.2.1, this.2.2.1, this.2.2.2⟩

/-- When no thread count fits, the value returned is the usage with one thread. -/
theorem reduceThreads_inr (b : Build) (bs : Nat) (chains : List (Nat × List Filter)) (limit : Nat) :
    ∀ (t u : Nat), 1 ≤ t → reduceThreads b bs chains limit t = .inr u →
      u = (maxOpt (mtUsages b 1 bs chains)).getD UINT64_MAX := by
  intro t
  induction t using Nat.strongRecOn with
  | _ t ih =>
    intro u h1 h
    match t, ih, h1, h with
    | 0, _, h1, _ => omega
    | 1, _, _, h => simp only [reduceThreads, Sum.inr.injEq] at h; exact h.symm
    | t + 2, ih, _, h =>
      simp only [reduceThreads] at h
      split at h
      · simp at h
      · split at h
        · rename_i ht1
          simp only [Sum.inr.injEq] at h
          have : t = 0 := by omega
          subst this
          exact h.symm
        · rename_i ht1
          exact ih (t + 1) (by omega) u (by omega) h

/-- Dictionary shrinking: an accepted size is a whole number of MiB between 1 MiB and the starting point, and the
    usage with it fits the limit. -/
theorem shrinkLoop_some (b : Build) (fs : List Filter) (limit : Nat) :
    ∀ (k last d u x : Nat), shrinkLoop b fs limit k last = (some (d, u), x) →
      MiB ≤ d ∧ d ≤ k * MiB ∧ u ≤ limit ∧ u = (rawEncoderMemusage b (setChainDict fs d)).getD UINT64_MAX := by
  intro k
  induction k with
  | zero => intro last d u x h; simp [shrinkLoop] at h
  | succ k ih =>
    intro last d u x h
    simp only [shrinkLoop] at h
    split at h
    · rename_i hle
      simp only [Prod.mk.injEq, Option.some.injEq] at h
      obtain ⟨⟨hd, hu⟩, _⟩ := h
      subst hd; subst hu
      refine ⟨?_, Nat.le_refl _, hle, rfl⟩
      simp only [MiB, Nat.succ_mul]; omega
    · have := ih _ d u x h
      refine ⟨this.1, ?_, this.2.2⟩
      have h2 := this.2.1
      simp only [Nat.succ_mul]; omega

/-- How a chain may differ after the adjustment: not at all, or only in the dictionary size of its LZMA1/LZMA2
    filter, which became smaller but not smaller than 1 MiB. -/
def ChainLe (p' p : Nat × List Filter) : Prop :=
  p'.1 = p.1 ∧ (p'.2 = p.2 ∨ ∃ orig d, chainDict p.2 = some orig ∧ p'.2 = setChainDict p.2 d ∧ MiB ≤ d ∧ d ≤ orig)

/-- Pointwise relation between two lists of the same length (core Lean has no `Forall2`). -/
inductive Forall2 {α β : Type} (R : α → β → Prop) : List α → List β → Prop
  | nil : Forall2 R [] []
  | cons {a b l1 l2} : R a b → Forall2 R l1 l2 → Forall2 R (a :: l1) (b :: l2)

theorem ChainLe.refl (p : Nat × List Filter) : ChainLe p p := ⟨rfl, Or.inl rfl⟩

theorem adjustChains_spec (b : Build) (limit : Nat) :
    ∀ (chains : List (Nat × List Filter)) (us : List Nat) (cs : List (Nat × List Filter)) (us' : List Nat) (ms : List String),
      adjustChains b limit chains us = .ok (cs, us', ms) →
      us = (stUsages b chains).map (·.getD UINT64_MAX) →
      Forall2 ChainLe cs chains ∧ (∀ u ∈ us', u ≤ limit) ∧ us' = (stUsages b cs).map (·.getD UINT64_MAX) := by
  intro chains
  induction chains with
  | nil =>
    intro us cs us' ms h _
    simp only [adjustChains, Except.ok.injEq, Prod.mk.injEq] at h
    obtain ⟨h1, h2, _⟩ := h
    subst h1; subst h2
    exact ⟨Forall2.nil, by simp, by simp [stUsages]⟩
  | cons p rest ih =>
    intro us cs us' ms h hus
    obtain ⟨slot, fs⟩ := p
    simp only [stUsages, List.map_cons, List.map_map] at hus
    subst hus
    simp only [adjustChains, List.headD_cons, List.tail_cons] at h
    by_cases hle : (rawEncoderMemusage b fs).getD UINT64_MAX ≤ limit
    · simp only [hle, ↓reduceIte] at h
      cases hr : adjustChains b limit rest (List.map ((fun x => x.getD UINT64_MAX) ∘ fun x => rawEncoderMemusage b x.2) rest) with
      | error e => simp [hr] at h
      | ok res =>
        obtain ⟨cs2, us2, ms2⟩ := res
        simp only [hr, Except.ok.injEq, Prod.mk.injEq] at h
        obtain ⟨h1, h2, _⟩ := h
        subst h1; subst h2
        have := ih _ cs2 us2 ms2 hr (by simp [stUsages])
        refine ⟨Forall2.cons (ChainLe.refl _) this.1, ?_, ?_⟩
        · intro u hu
          cases hu with
          | head => exact hle
          | tail _ hu' => exact this.2.1 u hu'
        · simp only [stUsages, List.map_cons, List.map_map]
          rw [this.2.2]
          simp [stUsages]
    · simp only [hle, ↓reduceIte] at h
      cases hcd : chainDict fs with
      | none => simp [hcd] at h
      | some orig =>
        simp only [hcd] at h
        cases hsl : shrinkLoop b fs limit (orig / MiB) ((rawEncoderMemusage b fs).getD UINT64_MAX) with
        | mk res last =>
          simp only [hsl] at h
          cases res with
          | none => simp at h
          | some du =>
            obtain ⟨d, u'⟩ := du
            simp only at h
            cases hr : adjustChains b limit rest (List.map ((fun x => x.getD UINT64_MAX) ∘ fun x => rawEncoderMemusage b x.2) rest) with
            | error e => simp [hr] at h
            | ok res =>
              obtain ⟨cs2, us2, ms2⟩ := res
              simp only [hr, Except.ok.injEq, Prod.mk.injEq] at h
              obtain ⟨h1, h2, _⟩ := h
              subst h1; subst h2
              have hs := shrinkLoop_some b fs limit _ _ d u' last hsl
              have := ih _ cs2 us2 ms2 hr (by simp [stUsages])
              refine ⟨Forall2.cons ⟨rfl, Or.inr ⟨orig, d, hcd, rfl, hs.1, ?_⟩⟩ this.1, ?_, ?_⟩
              · have h2 := hs.2.1
                have : orig / MiB * MiB ≤ orig := Nat.div_mul_le_self orig MiB
                omega
              · intro u hu
                cases hu with
                | head => exact hs.2.2.1
                | tail _ hu' => exact this.2.1 u hu'
              · simp only [stUsages, List.map_cons, List.map_map]
                rw [this.2.2, hs.2.2.2]
                simp [stUsages]

theorem listMax_le (l : List Nat) (n : Nat) (h : ∀ u ∈ l, u ≤ n) : listMax l ≤ n := by
  induction l with
  | nil => simp [listMax]
  | cons x rest ih =>
    simp only [listMax]
    have h1 := h x (List.mem_cons_self ..)
    have h2 := ih (fun u hu => h u (List.mem_cons_of_mem _ hu))
    omega

theorem forall2_refl (cs : List (Nat × List Filter)) : Forall2 ChainLe cs cs := by
  induction cs with
  | nil => exact Forall2.nil
  | cons p rest ih => exact Forall2.cons (ChainLe.refl p) ih

theorem maxOpt_listMax (l : List (Option Nat)) (m : Nat) (h : maxOpt l = some m) :
    listMax (l.map (·.getD UINT64_MAX)) = m := by
  induction l generalizing m with
  | nil => simp [maxOpt] at h; simp [listMax, h]
  | cons x rest ih =>
    cases x with
    | none => simp [maxOpt] at h
    | some v =>
      cases hr : maxOpt rest with
      | none => simp [maxOpt, hr] at h
      | some m' =>
        simp only [maxOpt, hr, Option.some.injEq] at h
        simp only [List.map_cons, listMax, Option.getD_some, ih m' hr]
        exact h

/-- Step 4 in isolation. -/
theorem stageAdjust_spec (b : Build) (c : Config) (limit threads : Nat) (us : List Nat) (usage : Nat) (msgs : List String)
    (hus : us = (stUsages b c.chains).map (·.getD UINT64_MAX)) (husage : usage = listMax us)
    (t : Nat) (mt : Bool) (cs : List (Nat × List Filter)) (u l : Nat) (soft : Bool) (ms : List String)
    (h : stageAdjust b c limit threads us usage msgs = .ok t mt cs u l soft ms) :
    t = threads ∧ mt = false ∧ l = limit ∧ soft = false ∧ u ≤ limit ∧ Forall2 ChainLe cs c.chains
    ∧ u = usageOf b false t 0 cs := by
  simp only [stageAdjust] at h
  by_cases hle : usage ≤ limit
  · simp only [hle, ↓reduceIte, Outcome.ok.injEq] at h
    obtain ⟨h1, h2, h3, h4, h5, h6, _⟩ := h
    subst h1; subst h2; subst h3; subst h4; subst h5; subst h6
    refine ⟨rfl, rfl, rfl, rfl, hle, forall2_refl _, ?_⟩
    simp only [usageOf, Bool.false_eq_true, ↓reduceIte]
    rw [husage, hus]
  · simp only [hle, ↓reduceIte] at h
    by_cases ha : c.autoAdjust
    · simp only [ha, Bool.not_true, Bool.false_eq_true, ↓reduceIte] at h
      cases hr : adjustChains b limit c.chains us with
      | error e => simp [hr] at h
      | ok res =>
        obtain ⟨cs2, us2, ms2⟩ := res
        simp only [hr, Outcome.ok.injEq] at h
        obtain ⟨h1, h2, h3, h4, h5, h6, _⟩ := h
        subst h1; subst h2; subst h3; subst h4; subst h5; subst h6
        have sp := adjustChains_spec b limit c.chains us cs2 us2 ms2 hr hus
        refine ⟨rfl, rfl, rfl, rfl, listMax_le _ _ sp.2.1, sp.1, ?_⟩
        simp only [usageOf, Bool.false_eq_true, ↓reduceIte]
        rw [sp.2.2]
    · simp [ha] at h

end XzVerif.XzAdjust
