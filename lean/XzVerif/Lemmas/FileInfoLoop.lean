/-
  C13 helper lemmas for `file_info_correct`: the phases of the backward parser of file_info.c (Model/FileInfo.lean)
  on one Stream of a well-formed file, with the bookkeeping of the 8 KiB `temp` window.
-/
import XzVerif.Lemmas.FileInfoFile
import XzVerif.Lemmas.IndexHist

namespace XzVerif.Index

/-! ### reverse_seek -/

theorem reverseSeek_spec (st : FI) (h : 24 ≤ st.target) :
    ∃ st', reverseSeek st = .ok st' ∧ st'.target = st.target ∧ st'.streamPadding = st.streamPadding
      ∧ st'.combined = st.combined ∧ st'.tempStart + st'.tempSize = st.target
      ∧ st'.tempSize = min (st.target - 12) 8192 := by
  unfold reverseSeek
  rw [if_neg (by unfold STREAM_HEADER_SIZE; omega)]
  refine ⟨_, rfl, rfl, rfl, rfl, ?_, ?_⟩
  · simp only [STREAM_HEADER_SIZE, TEMP_SIZE]
    by_cases hlt : st.target - 12 < 8192 <;> simp only [hlt, if_true, if_false] <;> omega
  · simp only [STREAM_HEADER_SIZE, TEMP_SIZE]
    by_cases hlt : st.target - 12 < 8192 <;> simp only [hlt, if_true, if_false] <;> omega

/-! ### SEQ_PADDING_SEEK / SEQ_PADDING_DECODE -/

/-- Stream Padding: either the window held only zeros (fewer remain, go round again) or the count is complete and the
    window ends at the end of the Stream Footer and holds at least the Footer. -/
theorem padPhase_spec {F : List UInt8} {d : StreamDesc} {P : Nat} (hat : StreamAt F d P) (hpad4 : d.padding % 4 = 0)
    (needSeek : Bool) (st : FI) (rem : Nat)
    (htarget : st.target = P + d.coreLen + rem) (hsp : st.streamPadding + rem = d.padding)
    (hwin : needSeek = true ∨ (0 < st.tempSize ∧ st.tempStart + st.tempSize = st.target)) :
    (∃ st1 rem', padPhase F.toArray needSeek st = .again st1 ∧ rem' < rem ∧ st1.target = P + d.coreLen + rem'
        ∧ st1.streamPadding + rem' = d.padding ∧ st1.combined = st.combined)
    ∨ (∃ st3, padPhase F.toArray needSeek st = .footer st3 ∧ st3.target = P + d.coreLen
        ∧ st3.streamPadding = d.padding ∧ 12 ≤ st3.tempSize ∧ st3.tempStart + st3.tempSize = st3.target
        ∧ st3.combined = st.combined) := by
  have hcl := StreamDesc.coreLen_ge d
  -- the window after SEQ_PADDING_SEEK
  obtain ⟨sa, hsa, a1, a2, a3, a4, a5⟩ : ∃ sa, (if needSeek then reverseSeek st else .ok st) = .ok sa
      ∧ sa.target = st.target ∧ sa.streamPadding = st.streamPadding ∧ sa.combined = st.combined
      ∧ sa.tempStart + sa.tempSize = st.target ∧ 0 < sa.tempSize := by
    by_cases hn : needSeek = true
    · obtain ⟨st', e1, e2, e3, e4, e5, e6⟩ := reverseSeek_spec st (by omega)
      exact ⟨st', by rw [if_pos hn]; exact e1, e2, e3, e4, e5, by rw [e6]; omega⟩
    · rcases hwin with hw | ⟨hw1, hw2⟩
      · exact absurd hw hn
      · exact ⟨st, by rw [if_neg hn], rfl, rfl, rfl, hw2, hw1⟩
  have hnp : trailingZeros F.toArray sa.tempStart sa.tempSize = min sa.tempSize rem := by
    rw [hat.zeros sa.tempSize sa.tempStart (by omega) (by omega)]
    congr 1; omega
  unfold padPhase
  rw [hsa]
  simp only [hnp]
  by_cases hall : sa.tempSize ≤ rem
  · left
    have hmin : min sa.tempSize rem = sa.tempSize := by omega
    rw [hmin]
    simp only [if_true]
    exact ⟨_, rem - sa.tempSize, rfl, by omega, by simp only; omega, by simp only; omega, a3⟩
  · right
    have hmin : min sa.tempSize rem = rem := by omega
    rw [hmin]
    have hne : ¬ rem = sa.tempSize := by omega
    rw [if_neg hne]
    have h4 : ¬ (sa.streamPadding + rem) % 4 ≠ 0 := by rw [a2, hsp]; omega
    simp only [h4, if_false]
    by_cases hsmall : sa.tempSize - rem < STREAM_HEADER_SIZE
    · rw [if_pos hsmall]
      obtain ⟨st', e1, e2, e3, e4, e5, e6⟩ := reverseSeek_spec
        { sa with streamPadding := sa.streamPadding + rem, target := sa.target - rem,
                  tempSize := sa.tempSize - rem, tempPos := sa.tempSize - rem } (by simp only; omega)
      rw [e1]
      simp only at e2 e3 e4 e5 e6
      exact ⟨st', rfl, by rw [e2]; omega, by rw [e3]; omega, by rw [e6]; omega, by rw [e5, e2], by rw [e4, a3]⟩
    · rw [if_neg hsmall]
      unfold STREAM_HEADER_SIZE at hsmall
      exact ⟨_, rfl, by simp only; omega, by simp only; omega, by simp only; omega, by simp only; omega, a3⟩

/-! ### SEQ_FOOTER -/

/-- position of the Index field of the Stream that starts at `P` -/
def idxPos (d : StreamDesc) (P : Nat) : Nat := P + 12 + blocksSize d.blocks

theorem footerPhase_spec {F : List UInt8} {d : StreamDesc} {P : Nat} (hat : StreamAt F d P) (hok : d.Ok) (st3 : FI)
    (h1 : st3.target = P + d.coreLen) (h2 : 12 ≤ st3.tempSize) (h3 : st3.tempStart + st3.tempSize = st3.target) :
    ∃ st6, footerPhase F.toArray st3 = .ok (d.check, d.bsz, st6) ∧ st6.target = idxPos d P
      ∧ st6.streamPadding = st3.streamPadding ∧ st6.combined = st3.combined
      ∧ (st6.tempSize = 0
         ∨ (st6.tempSize ≠ 0 ∧ st6.tempStart + st6.tempPos = idxPos d P
            ∧ st6.tempStart + st6.tempSize = idxPos d P + d.bsz ∧ d.bsz ≤ st6.tempSize)) := by
  have hb := StreamDesc.bsz_ge d
  have hpos : st3.tempStart + (st3.tempSize - STREAM_HEADER_SIZE) = P + 12 + blocksSize d.blocks + d.bsz := by
    unfold STREAM_HEADER_SIZE StreamDesc.coreLen at *; omega
  unfold footerPhase
  simp only
  rw [hpos, hat.ftrAt, hok.ftr_facts.2.1]
  simp only
  have hge : ¬ st3.target - STREAM_HEADER_SIZE < d.bsz + STREAM_HEADER_SIZE := by
    unfold STREAM_HEADER_SIZE StreamDesc.coreLen at *; omega
  rw [if_neg hge]
  by_cases hin : st3.tempSize - STREAM_HEADER_SIZE ≥ d.bsz
  · rw [if_pos hin]
    refine ⟨_, rfl, ?_, rfl, rfl, Or.inr ⟨?_, ?_, ?_, ?_⟩⟩ <;>
      (simp only; unfold idxPos STREAM_HEADER_SIZE StreamDesc.coreLen at *; omega)
  · rw [if_neg hin]
    refine ⟨_, rfl, ?_, rfl, rfl, Or.inl rfl⟩
    simp only; unfold idxPos STREAM_HEADER_SIZE StreamDesc.coreLen at *; omega

/-! ### SEQ_INDEX_INIT / SEQ_INDEX_DECODE -/

theorem indexPhase_spec {F : List UInt8} {d : StreamDesc} {P : Nat} (hat : StreamAt F d P) (hok : d.Ok)
    (memlimit : Nat) (st6 : FI) (h1 : st6.target = idxPos d P)
    (hwin : st6.tempSize = 0 ∨ (st6.tempSize ≠ 0 ∧ st6.tempStart + st6.tempPos = idxPos d P))
    (hmu : memusedOpt st6.combined ≤ memlimit)
    (hml : memusage 1 d.blocks.length ≤ max 1 (memlimit - memusedOpt st6.combined)) :
    indexPhase F.toArray memlimit st6 d.bsz = .error .memError
    ∨ ∃ this, indexPhase F.toArray memlimit st6 d.bsz = .ok this ∧ Impl.abs this = [⟨none, 0, d.blocks⟩]
        ∧ Impl.Inv this := by
  have hbytes : (if st6.tempSize ≠ 0 then bytesAt F.toArray (st6.tempStart + st6.tempPos) d.bsz
      else bytesAt F.toArray st6.target d.bsz) = encodeBlocks d.blocks := by
    rcases hwin with h0 | ⟨hne, hp⟩
    · rw [if_neg (by simpa using h0), h1]; exact hat.idxAt
    · rw [if_pos hne, hp]; exact hat.idxAt
  unfold indexPhase
  simp only
  rw [if_neg (by omega), hbytes]
  generalize memusedOpt st6.combined = mu at hml
  obtain ⟨s1, s2, s3, _⟩ := decode_encode_ml hok.blocksOk (memlimit - mu) hml
  rcases Impl.decode_refines (memlimit - mu) (encodeBlocks d.blocks) with hm | ⟨r1, r2, _, r4, r5⟩
  · left
    rw [hm]
  · right
    rw [s1] at r1
    rw [s2] at r4
    rw [s3] at r2
    cases hidx : (Impl.decode (memlimit - mu) (encodeBlocks d.blocks)).index with
    | none => rw [hidx] at r4; simp at r4
    | some this =>
      rw [hidx] at r4
      simp only [Option.map_some, Option.some.injEq] at r4
      refine ⟨this, ?_, r4, r5 this hidx⟩
      rw [r1]
      simp only
      have : ¬ (Impl.decode (memlimit - mu) (encodeBlocks d.blocks)).used ≠ d.bsz := by
        rw [r2]; unfold StreamDesc.bsz; simp
      rw [if_neg this]

/-! ### the seek back over the Blocks, SEQ_HEADER_DECODE -/

theorem headerPhase_spec {F : List UInt8} {d : StreamDesc} {P : Nat} (hat : StreamAt F d P) (hok : d.Ok)
    (firstCheck : Nat) (hfirst : P = 0 → firstCheck = d.check) (hP : P = 0 ∨ 32 ≤ P)
    (st6 : FI) (this : Impl.Index) (htot : this.totalSize = blocksSize d.blocks)
    (h1 : st6.target = idxPos d P)
    (hwin : st6.tempSize = 0
         ∨ (st6.tempSize ≠ 0 ∧ st6.tempStart + st6.tempPos = idxPos d P
            ∧ st6.tempStart + st6.tempSize = idxPos d P + d.bsz ∧ d.bsz ≤ st6.tempSize)) :
    ∃ st11, headerPhase F.toArray firstCheck st6 d.bsz this = .ok (d.check, st11) ∧ st11.target = P
      ∧ st11.streamPadding = st6.streamPadding ∧ st11.combined = st6.combined
      ∧ (P ≠ 0 → st11.tempSize = 0 ∨ st11.tempStart + st11.tempSize = P) := by
  unfold headerPhase
  simp only [htot]
  have hge : ¬ st6.target < blocksSize d.blocks + STREAM_HEADER_SIZE := by
    unfold idxPos STREAM_HEADER_SIZE at *; omega
  rw [if_neg hge]
  have htgt : st6.target - (blocksSize d.blocks + STREAM_HEADER_SIZE) = P := by
    unfold idxPos STREAM_HEADER_SIZE at *; omega
  rw [htgt]
  by_cases hP0 : P = 0
  · rw [if_pos hP0, hfirst hP0]
    exact ⟨_, rfl, rfl, rfl, rfl, fun h => absurd hP0 h⟩
  · rw [if_neg hP0]
    have hP32 : 32 ≤ P := by omega
    by_cases hc : st6.tempSize ≠ 0 ∧ st6.tempSize - d.bsz ≥ blocksSize d.blocks + STREAM_HEADER_SIZE
    · rw [if_pos hc]
      simp only
      rcases hwin with h0 | ⟨_, _, h3, h4⟩
      · exact absurd h0 hc.1
      · have hpos : st6.tempStart + (st6.tempSize - d.bsz - (blocksSize d.blocks + STREAM_HEADER_SIZE) + STREAM_HEADER_SIZE
            - STREAM_HEADER_SIZE) = P := by
          unfold idxPos STREAM_HEADER_SIZE at *; omega
        rw [hpos, hat.hdrAt, hok.hdr_facts.2]
        refine ⟨_, rfl, ?_, rfl, rfl, fun _ => Or.inr ?_⟩
        · simp only; unfold STREAM_HEADER_SIZE; omega
        · simp only; exact hpos
    · rw [if_neg hc]
      obtain ⟨st', e1, e2, e3, e4, e5, e6⟩ := reverseSeek_spec { st6 with target := P + STREAM_HEADER_SIZE }
        (by simp only; unfold STREAM_HEADER_SIZE; omega)
      rw [e1]
      simp only at e2 e3 e4 e5 e6 ⊢
      unfold STREAM_HEADER_SIZE at e2 e5 e6
      have hpos : st'.tempStart + (st'.tempSize - STREAM_HEADER_SIZE) = P := by unfold STREAM_HEADER_SIZE; omega
      rw [hpos, hat.hdrAt, hok.hdr_facts.2]
      refine ⟨_, rfl, ?_, e3, e4, fun _ => Or.inr ?_⟩
      · simp only; unfold STREAM_HEADER_SIZE; omega
      · simp only; exact hpos

end XzVerif.Index
