/-
  Accounting invariant: main-thread steps, reachability, and "queue empty ⇒ the next threaded Block can start".
-/
import XzVerif.Lemmas.MtDecAcct

namespace XzVerif.MtDec

def Label.acctSimple : Label → Bool
  | .memUpdate | .getThread | .assign | .endJoin | .enablePartial | .rowIter _ => false
  | _ => true

theorem AcctInv.ofSetW {s s' : State} (h : AcctInv s) {i : Nat} {w : Worker} (ew : s'.workers = (MtDec.setW s i w).workers)
    (e1 : w.hasOut = (getW s i).hasOut) (e2 : w.failed = (getW s i).failed) (e3 : w.blk = (getW s i).blk)
    (eb : s'.blocks = s.blocks) (em : s'.memInUse = s.memInUse) (ef : s'.threadsFree = s.threadsFree)
    (et : s'.threadError = s.threadError) (p2 : s.pc ≠ .init2) (p3 : s.pc ≠ .init3) (q2 : s'.pc ≠ .init2) (q3 : s'.pc ≠ .init3) :
    AcctInv s' :=
  h.ofCore ((AcctCore.setW s i w e1 e2 e3).trans (AcctCore.fields ew eb em ef et)) p2 p3 q2 q3

theorem AcctInv.mainSimple {s s' : State} {l : Label} (h : AcctInv s) (hl : l.worker? = none)
    (hsim : l.acctSimple = true) (hs : step s l = some s') : AcctInv s' := by
  cases l <;> simp only [Label.worker?, reduceCtorEq] at hl <;> simp only [Label.acctSimple, reduceCtorEq] at hsim <;>
    simp only [step] at hs
  all_goals (repeat' split at hs)
  all_goals first | (cases hs; done) | skip
  all_goals (cases hs)
  all_goals first
    | (refine h.ofCore (AcctCore.fields rfl rfl rfl rfl rfl) ?_ ?_ ?_ ?_ <;> simp_all <;> done)
    | (refine h.ofSetW rfl rfl rfl rfl rfl rfl rfl rfl ?_ ?_ ?_ ?_ <;> simp_all <;> done)

/-- The worker record SEQ_BLOCK_THR_INIT writes for the Block at the cursor. -/
def assignW (s : State) (t : Nat) : Worker :=
  { getW s t with blk := s.cur, inAlloc := true, inSize := (blk s s.cur).inSize, hasOut := true,
                  inFilled := 0, inPos := 0, outPos := 0, pu := .disabled }

theorem memSum_append_default (s : State) : ((s.workers ++ [({} : Worker)]).map (wMemB s.blocks)).sum = memSum s := by
  simp [memSum, wMemB]

theorem getW_app_lt (s s' : State) (x : Worker) (e : s'.workers = s.workers ++ [x]) (j : Nat) (hj : j < s.workers.length) :
    getW s' j = getW s j := by
  simp [getW, e, List.getD, List.getElem?_append_left hj]

theorem getW_app_eq (s s' : State) (x : Worker) (e : s'.workers = s.workers ++ [x]) : getW s' s.workers.length = x := by
  simp [getW, e, List.getD]

theorem AcctInv.mainOther {s s' : State} {l : Label} (h : AcctInv s) (hI : Inv s) (hl : l.worker? = none)
    (hsim : l.acctSimple = false) (hs : step s l = some s') : AcctInv s' := by
  cases l <;> simp only [Label.worker?, reduceCtorEq] at hl <;> simp only [Label.acctSimple, reduceCtorEq] at hsim <;>
    simp only [step] at hs
  case memUpdate =>
    split at hs
    case isFalse => cases hs
    rename_i hp
    have hp : s.pc = .init1 := by simpa using hp
    cases hs
    refine ⟨?_, ?_, h.failedErr, fun hq => by cases hq⟩
    · show s.memInUse + (blk s s.cur).memThr = memSum s + (blk s s.cur).memThr
      have := h.acct
      simp only [pendThr, hp] at this
      omega
    · intro j hj
      rcases h.cover j hj with x | x | x | x
      · exact Or.inl x
      · exact Or.inr (Or.inl x)
      · exact Or.inr (Or.inr (Or.inl x))
      · rw [hp] at x; cases x.1
  case getThread =>
    split at hs
    case isFalse => cases hs
    rename_i hp
    have hp : s.pc = .init2 := by simpa using hp
    have hacct := h.acct
    simp only [pendThr, hp] at hacct
    split at hs
    · rename_i w rest hpop
      cases hs
      have hfree : s.threadsFree = w :: rest := by
        unfold popFree at hpop
        split at hpop
        · injection hpop with e; injection e with e1 e2; subst e1; subst e2; assumption
        · cases hpop
      refine ⟨hacct, ?_, h.failedErr, ?_⟩
      · intro j hj
        rcases h.cover j hj with x | x | x | x
        · exact Or.inl x
        · exact Or.inr (Or.inl x)
        · rw [hfree] at x
          rcases List.mem_cons.mp x with e | e
          · exact Or.inr (Or.inr (Or.inr ⟨rfl, by rw [e]⟩))
          · exact Or.inr (Or.inr (Or.inl e))
        · rw [hp] at x; cases x.1
      · intro _ t ht
        have ht' : some w = some t := ht
        injection ht' with e; subst e
        exact (hI.1.free w (by rw [hfree]; simp)).2.2.2.1
    · split at hs
      case isFalse => cases hs
      cases hs
      refine ⟨?_, ?_, ?_, ?_⟩
      · show s.memInUse = ((s.workers ++ [({} : Worker)]).map (wMemB s.blocks)).sum + (blk s s.cur).memThr
        rw [memSum_append_default]; exact hacct
      · intro j hj
        have hj' : j < s.workers.length + 1 := by simpa using hj
        by_cases e : j < s.workers.length
        · rw [getW_app_lt s _ {} rfl j e]
          rcases h.cover j e with x | x | x | x
          · exact Or.inl x
          · exact Or.inr (Or.inl x)
          · exact Or.inr (Or.inr (Or.inl x))
          · rw [hp] at x; cases x.1
        · have : j = s.workers.length := by omega
          subst this
          exact Or.inr (Or.inr (Or.inr ⟨rfl, rfl⟩))
      · intro j hj
        have hj' : j < s.workers.length + 1 := by simpa using hj
        by_cases e : j < s.workers.length
        · rw [getW_app_lt s _ {} rfl j e]; exact h.failedErr j e
        · have : j = s.workers.length := by omega
          subst this
          rw [getW_app_eq s _ {} rfl]; intro hc; cases hc
      · intro _ t ht
        have ht' : some s.workers.length = some t := ht
        injection ht' with e; subst e
        rw [getW_app_eq s _ {} rfl]
  case assign =>
    split at hs
    case h_2 => cases hs
    rename_i t hp hthr
    cases hs
    obtain ⟨t', ht', htl, _, _, hno, _⟩ := hI.2.init3 hp
    rw [hthr] at ht'; cases ht'
    have hcl := h.thrClean hp t hthr
    have hacct := h.acct
    simp only [pendThr, hp] at hacct
    have hms := memSum_setW s t (assignW s t) htl
    have hold : wMemB s.blocks (getW s t) = 0 := by simp [wMemB, hno, hcl]
    have hnew : wMemB s.blocks (assignW s t) = (blk s s.cur).memThr := by
      simp [wMemB, blk, assignW]
    have eg : ∀ (w : Worker) j, getW (MtDec.setW s t w) j = if t = j then w else getW s j := fun w j => getW_setW s t j w htl
    refine ⟨?_, ?_, ?_, fun hq => by cases hq⟩
    · show s.memInUse = memSum (MtDec.setW s t (assignW s t)) + 0
      omega
    · intro j hj
      have hj' : j < s.workers.length := by simpa using hj
      show (getW (MtDec.setW s t _) j).hasOut = true ∨ (getW (MtDec.setW s t _) j).failed = true ∨ j ∈ s.threadsFree ∨ _
      rw [eg]
      by_cases e : t = j
      · subst e; exact Or.inl (by simp)
      · simp only [e, if_false]
        rcases h.cover j hj' with x | x | x | x
        · exact Or.inl x
        · exact Or.inr (Or.inl x)
        · exact Or.inr (Or.inr (Or.inl x))
        · rw [hthr] at x; exact absurd (Option.some.inj x.2) e
    · intro j hj
      have hj' : j < s.workers.length := by simpa using hj
      show (getW (MtDec.setW s t _) j).failed = true → s.threadError ≠ OK
      rw [eg]
      by_cases e : t = j
      · subst e; simp [hcl]
      · simp only [e, if_false]; exact h.failedErr j hj'
  case endJoin =>
    split at hs
    case h_2 => cases hs
    rename_i i k hp
    split at hs
    · split at hs
      · cases hs
        exact h.ofCore (AcctCore.fields rfl rfl rfl rfl rfl) (by simp [hp]) (by simp [hp]) (by simp) (by simp)
      · cases hs
    · cases k <;> (cases hs; constructor <;> simp [memSum, pendThr])
  case enablePartial =>
    split at hs
    case isFalse => cases hs
    rename_i hp
    have hp : s.pc = .init5 := by simpa using hp
    cases hs
    exact h.ofCore ((enablePartialHead_acct s).1.trans (AcctCore.fields rfl rfl rfl rfl rfl)) (by simp [hp]) (by simp [hp])
      (by simp) (by simp)
  case rowIter c =>
    have key : ∀ k w, (s.pc = .row k w ∨ s.pc = .rowWait k w) → AcctInv (rowIterate s k w) := by
      intro k w hp
      have hk := (rowIterate_core s k w).2
      refine h.ofCore (rowIterate_acct s k w) ?_ ?_ ?_ ?_
      · rcases hp with e | e <;> simp [e]
      · rcases hp with e | e <;> simp [e]
      · intro e; rw [e] at hk; cases hk
      · intro e; rw [e] at hk; cases hk
    split at hs
    · rename_i hp; cases hs; exact key _ _ (Or.inl hp)
    · rename_i hp; split at hs
      · cases hs; exact key _ _ (Or.inr hp)
      · cases hs
    · rename_i hp; cases hs; exact key _ _ (Or.inr hp)
    · cases hs

end XzVerif.MtDec
