/-
  The rep-register invariant along a WHOLE LZMA2 stream (Model/Lzma2.lean), for every input and every slicing of the output
  space into calls.

  Why a sequence-aware invariant is needed: a dictionary reset (control 0x01 / ≥ 0xE0) empties the dictionary (`full = 0`)
  while the old `state`/`rep0..rep3` are still in the coder; they are only reset by `lzma_decoder_reset`, which runs at
  SEQ_PROPERTIES (new properties) or at SEQ_CONTROL (state reset with the old properties). `RepsOk` is therefore false for a
  while, and what makes this harmless is the control-byte logic: after a dictionary reset `need_properties` is true, so the
  next LZMA chunk must carry properties (else LZMA_DATA_ERROR), and the reset at SEQ_PROPERTIES comes before the first symbol.

  The invariant `L2R` says, per `sequence` of `lzma2_decode`, what is owed:
    SEQ_CONTROL / SEQ_COPY            need_properties ∨ R
    SEQ_UNCOMPRESSED_1/2              next_sequence = SEQ_PROPERTIES ∨ (next_sequence = SEQ_LZMA ∧ R)
    SEQ_COMPRESSED_0/1                what `next_sequence` needs (below)
    SEQ_PROPERTIES                    A
    SEQ_LZMA                          A ∧ R
  with  R = "the LZMA decoder is stuck for good (input ended / data error), or `RepsOk`"  and
        A = "known uncompressed size, `allow_eopm = false`, `eopm_is_valid = false`" (set by `set_uncompressed` at
            SEQ_UNCOMPRESSED_2; without it an end-of-payload marker would be accepted and leave `rep0 = UINT32_MAX`).
-/
import XzVerif.Lemmas.C03RepsCall
import XzVerif.Lemmas.C03Fuel

namespace XzVerif.Lzma2
open XzVerif.RangeDec XzVerif.LzDict XzVerif.Lzma

/-! ### the invariant -/

/-- what the sequence `t` needs when it is entered -/
def Target : L2Seq → Bool → Prop → Prop → Prop
  | .properties, _, A, _ => A
  | .lzma, _, A, R => A ∧ R
  | .copy, np, _, R => np = true ∨ R
  | .control, np, _, R => np = true ∨ R
  | _, _, _, _ => False

def L2Rv : L2Seq → L2Seq → Bool → Prop → Prop → Prop
  | .control, _, np, _, R => np = true ∨ R
  | .uncompressed1, next, _, _, R => next = .properties ∨ (next = .lzma ∧ R)
  | .uncompressed2, next, _, _, R => next = .properties ∨ (next = .lzma ∧ R)
  | .compressed0, next, np, A, R => Target next np A R
  | .compressed1, next, np, A, R => Target next np A R
  | .properties, _, _, A, _ => A
  | .lzma, _, _, A, R => A ∧ R
  | .copy, _, np, _, R => np = true ∨ R

/-- the sequence-aware rep-register invariant of an LZMA2 decoder state -/
def L2R (s : St) : Prop := L2Rv s.l2.seq s.l2.nextSeq s.l2.needProperties (NoEopm s) (RepsOrStuck s)

theorem L2R.of {s : St} {seq next : L2Seq} {np : Bool} (h1 : s.l2.seq = seq) (h2 : s.l2.nextSeq = next)
    (h3 : s.l2.needProperties = np) (h : L2Rv seq next np (NoEopm s) (RepsOrStuck s)) : L2R s := by
  unfold L2R; rw [h1, h2, h3]; exact h

theorem L2R.get {s : St} {seq : L2Seq} (h : L2R s) (h1 : s.l2.seq = seq) :
    L2Rv seq s.l2.nextSeq s.l2.needProperties (NoEopm s) (RepsOrStuck s) := by
  unfold L2R at h; rw [h1] at h; exact h

/-- the fields `RepsOrStuck` reads -/
structure SameR (s t : St) : Prop where
  pending : t.pending = s.pending
  full : t.dp.full = s.dp.full
  state : t.state = s.state
  rep0 : t.rep0 = s.rep0
  rep1 : t.rep1 = s.rep1
  rep2 : t.rep2 = s.rep2
  rep3 : t.rep3 = s.rep3

/-- the fields `NoEopm` reads -/
structure SameA (s t : St) : Prop where
  uncomp : t.uncomp = s.uncomp
  allowEopm : t.allowEopm = s.allowEopm
  eopmValid : t.eopmValid = s.eopmValid

theorem SameR.ros {s t : St} (h : SameR s t) (hr : RepsOrStuck s) : RepsOrStuck t := by
  rcases hr with hr | hr
  · left; rw [h.pending]; exact hr
  · right; exact repsOk_congr hr h.full h.state h.rep0 h.rep1 h.rep2 h.rep3

theorem SameA.noEopm {s t : St} (h : SameA s t) (ha : NoEopm s) : NoEopm t := by
  unfold NoEopm at *; rw [h.uncomp, h.allowEopm, h.eopmValid]; exact ha

/-- a state with the same LZMA2 layer and the same relevant LZMA fields satisfies the invariant too -/
theorem L2R.congr {s t : St} (h : L2R s) (hl : t.l2 = s.l2) (hr : SameR s t) (ha : SameA s t) : L2R t := by
  unfold L2R at h ⊢
  rw [hl]
  generalize s.l2.seq = seq at h ⊢
  generalize s.l2.nextSeq = next at h ⊢
  generalize s.l2.needProperties = np at h ⊢
  have tg : Target next np (NoEopm s) (RepsOrStuck s) → Target next np (NoEopm t) (RepsOrStuck t) := by
    intro h
    cases next <;> first | exact h.elim | exact ha.noEopm h | exact ⟨ha.noEopm h.1, hr.ros h.2⟩ | exact h.imp id hr.ros
  cases seq
  · exact h.imp id hr.ros
  · exact h.imp id (fun h => ⟨h.1, hr.ros h.2⟩)
  · exact h.imp id (fun h => ⟨h.1, hr.ros h.2⟩)
  · exact tg h
  · exact tg h
  · exact ha.noEopm h
  · exact ⟨ha.noEopm h.1, hr.ros h.2⟩
  · exact h.imp id hr.ros

theorem Target.congr {s t : St} {n : L2Seq} {np : Bool} (ha : SameA s t) (hr : SameR s t)
    (h : Target n np (NoEopm s) (RepsOrStuck s)) : Target n np (NoEopm t) (RepsOrStuck t) := by
  cases n <;> first | exact h.elim | exact ha.noEopm h | exact ⟨ha.noEopm h.1, hr.ros h.2⟩ | exact h.imp id hr.ros

theorem Target.toL2Rv {n : L2Seq} {np : Bool} {A R : Prop} (next : L2Seq) (h : Target n np A R) : L2Rv n next np A R := by
  cases n <;> first | exact h.elim | exact h

/-! ### the control byte -/

/-- what the invariant needs of SEQ_CONTROL (for an accepted chunk header): an LZMA chunk without new properties is only
    accepted when no properties are owed; an uncompressed chunk keeps an owed `need_properties`; a dictionary reset comes with
    new properties (LZMA chunk) or leaves `need_properties` set (uncompressed chunk). -/
def ctlOk (a : ControlAction) (np : Bool) : Bool :=
  a.isEnd || a.isError ||
    ((!(a.isLzma && !a.newProps) || !np)
     && (a.isLzma || !np || a.needProps')
     && (!a.dictReset || (if a.isLzma then a.newProps else a.needProps')))

theorem controlStep_ok : ∀ c, c < 256 → ∀ np ndr : Bool, ctlOk (controlStep c np ndr) np = true := by
  decide +kernel

theorem controlApply_fields (s : St) (a : ControlAction) :
    (controlApply s a).l2.needProperties = a.needProps'
    ∧ (controlApply s a).l2.seq = (if a.isLzma then L2Seq.uncompressed1 else L2Seq.compressed0)
    ∧ (controlApply s a).l2.nextSeq = (if a.isLzma then (if a.newProps then L2Seq.properties else L2Seq.lzma) else L2Seq.copy)
    ∧ (controlApply s a).dp = s.dp ∧ SameA s (controlApply s a)
    ∧ (SameR s (controlApply s a) ∨ (a.isLzma = true ∧ (controlApply s a).state = 0 ∧ (controlApply s a).rep0 = 0
        ∧ (controlApply s a).rep1 = 0 ∧ (controlApply s a).rep2 = 0 ∧ (controlApply s a).rep3 = 0)) := by
  unfold controlApply
  simp only []
  rcases Bool.eq_false_or_eq_true a.isLzma with hl | hl
  · rw [hl]
    rcases Bool.eq_false_or_eq_true a.stateResetNow with hs | hs
    · rw [hs]
      exact ⟨rfl, rfl, rfl, rfl, ⟨rfl, rfl, rfl⟩, Or.inr ⟨rfl, rfl, rfl, rfl, rfl, rfl⟩⟩
    · rw [hs]
      exact ⟨rfl, rfl, rfl, rfl, ⟨rfl, rfl, rfl⟩, Or.inl ⟨rfl, rfl, rfl, rfl, rfl, rfl, rfl⟩⟩
  · rw [hl]
    exact ⟨rfl, rfl, rfl, rfl, ⟨rfl, rfl, rfl⟩, Or.inl ⟨rfl, rfl, rfl, rfl, rfl, rfl, rfl⟩⟩

theorem repsOk_zero {t : St} (h0 : t.state = 0) (h1 : t.rep0 = 0) (h2 : t.rep1 = 0) (h3 : t.rep2 = 0) (h4 : t.rep3 = 0) :
    RepsOk t := by
  unfold RepsOk ROv
  rw [h0, h1, h2, h3, h4]
  exact ⟨fun h => by omega, Or.inl rfl, Or.inl rfl, Or.inl rfl, Or.inl rfl⟩

/-- SEQ_CONTROL with an accepted chunk header keeps the invariant — and when it asks for a dictionary reset, the invariant
    of the new state does not depend on the dictionary (so it survives the reset). -/
theorem controlApply_l2r (s : St) (c : Nat) (hc : c < 256) (h : L2R s) (hseq : s.l2.seq = .control)
    (hend : (controlStep c s.l2.needProperties s.l2.needDictionaryReset).isEnd = false)
    (herr : (controlStep c s.l2.needProperties s.l2.needDictionaryReset).isError = false) :
    ∀ t : St, t.l2 = (controlApply s (controlStep c s.l2.needProperties s.l2.needDictionaryReset)).l2 →
      SameA (controlApply s (controlStep c s.l2.needProperties s.l2.needDictionaryReset)) t →
      (SameR (controlApply s (controlStep c s.l2.needProperties s.l2.needDictionaryReset)) t
        ∨ ((controlStep c s.l2.needProperties s.l2.needDictionaryReset).dictReset = true
            ∧ t.state = (controlApply s (controlStep c s.l2.needProperties s.l2.needDictionaryReset)).state
            ∧ t.rep0 = (controlApply s (controlStep c s.l2.needProperties s.l2.needDictionaryReset)).rep0
            ∧ t.rep1 = (controlApply s (controlStep c s.l2.needProperties s.l2.needDictionaryReset)).rep1
            ∧ t.rep2 = (controlApply s (controlStep c s.l2.needProperties s.l2.needDictionaryReset)).rep2
            ∧ t.rep3 = (controlApply s (controlStep c s.l2.needProperties s.l2.needDictionaryReset)).rep3)) →
      L2R t := by
  have hok := controlStep_ok c hc s.l2.needProperties s.l2.needDictionaryReset
  have hctl := h.get hseq
  generalize controlStep c s.l2.needProperties s.l2.needDictionaryReset = a at *
  obtain ⟨f1, f2, f3, _, fa, fr⟩ := controlApply_fields s a
  intro t hl ha hr
  unfold ctlOk at hok
  rw [hend, herr] at hok
  simp only [Bool.false_or, Bool.and_eq_true, Bool.or_eq_true, Bool.not_eq_true', Bool.and_eq_false_imp] at hok
  obtain ⟨⟨k1, k2⟩, k3⟩ := hok
  -- R for `t` from R for `s`, unless the dictionary is being reset
  have rt : RepsOrStuck s → (a.dictReset = true → False) → RepsOrStuck t := by
    intro hrs hnd
    rcases hr with hr | hr
    · rcases fr with fr | fr
      · exact hr.ros (fr.ros hrs)
      · right
        exact repsOk_zero (by rw [hr.state]; exact fr.2.1) (by rw [hr.rep0]; exact fr.2.2.1) (by rw [hr.rep1]; exact fr.2.2.2.1)
          (by rw [hr.rep2]; exact fr.2.2.2.2.1) (by rw [hr.rep3]; exact fr.2.2.2.2.2)
    · exact (hnd hr.1).elim
  cases hlz : a.isLzma
  · -- uncompressed chunk
    rw [hlz] at f2 f3 k1 k2 k3
    simp only [Bool.false_eq_true, if_false] at f2 f3 k3
    refine L2R.of (seq := .compressed0) (next := .copy) (np := a.needProps') (by rw [hl]; exact f2) (by rw [hl]; exact f3)
      (by rw [hl]; exact f1) ?_
    show a.needProps' = true ∨ RepsOrStuck t
    cases hdr : a.dictReset
    · rcases hctl with hnp | hrs
      · left
        rcases k2 with k2 | k2
        · rcases k2 with k2 | k2
          · cases k2
          · rw [hnp] at k2; cases k2
        · exact k2
      · right; exact rt hrs (by rw [hdr]; intro h; cases h)
    · left
      rcases k3 with k3 | k3
      · rw [hdr] at k3; cases k3
      · exact k3
  · -- LZMA chunk
    rw [hlz] at f2 f3 k1 k2 k3
    simp only [if_true] at f2 f3 k3
    cases hnp : a.newProps
    · rw [hnp] at f3 k3
      simp only [Bool.false_eq_true, if_false] at f3
      refine L2R.of (seq := .uncompressed1) (next := .lzma) (np := a.needProps') (by rw [hl]; exact f2) (by rw [hl]; exact f3)
        (by rw [hl]; exact f1) ?_
      show L2Seq.lzma = L2Seq.properties ∨ (L2Seq.lzma = L2Seq.lzma ∧ RepsOrStuck t)
      right
      refine ⟨rfl, ?_⟩
      have hnd : a.dictReset = true → False := by
        intro hd
        rcases k3 with k3 | k3
        · rw [hd] at k3; cases k3
        · cases k3
      -- R: from a state reset, or from the invariant (no properties were owed)
      rcases fr with fr | fr
      · have hnpf : s.l2.needProperties = false := by
          rcases k1 with k1 | k1
          · simp [hnp] at k1
          · exact k1
        rcases hctl with h1 | h1
        · rw [hnpf] at h1; cases h1
        · exact rt h1 hnd
      · right
        rcases hr with hr | hr
        · exact repsOk_zero (by rw [hr.state]; exact fr.2.1) (by rw [hr.rep0]; exact fr.2.2.1) (by rw [hr.rep1]; exact fr.2.2.2.1)
            (by rw [hr.rep2]; exact fr.2.2.2.2.1) (by rw [hr.rep3]; exact fr.2.2.2.2.2)
        · exact (hnd hr.1).elim
    · rw [hnp] at f3
      simp only [if_true] at f3
      refine L2R.of (seq := .uncompressed1) (next := .properties) (np := a.needProps') (by rw [hl]; exact f2)
        (by rw [hl]; exact f3) (by rw [hl]; exact f1) ?_
      exact Or.inl rfl

/-! ### `lzma2_decode` -/

/-- the invariant of one run of the `lzma2_decode` loop -/
structure LInv (s : St) : Prop where
  l2r : L2R s
  pos : PosInv s.dp

/-- what one run establishes; a requested dictionary reset may be carried out without losing the invariant -/
structure LPost (s : St) (r : Ret × St) : Prop where
  inv : LInv r.2
  reset : r.2.dp.needReset = true → s.dp.needReset = true ∨ L2R { r.2 with dp := r.2.dp.reset }

theorem LPost.of_cont {s s1 : St} {r : Ret × St} (h : LPost s1 r) (hn : s1.dp.needReset = s.dp.needReset) : LPost s r :=
  ⟨h.inv, fun hr => by
    rcases h.reset hr with h1 | h1
    · left; rw [← hn]; exact h1
    · right; exact h1⟩

theorem LPost.same {s : St} (ret : Ret) {s1 : St} (h : LInv s1) (hn : s1.dp.needReset = s.dp.needReset) : LPost s (ret, s1) :=
  ⟨h, fun hr => Or.inl (by rw [← hn]; exact hr)⟩

theorem dictWrite_fields (s : St) (left : Nat) :
    (dictWrite s left).2.dp = s.dp.advance (dictWrite s left).1 ∧ (dictWrite s left).1 ≤ s.dp.avail
    ∧ (dictWrite s left).2.l2 = s.l2 ∧ (dictWrite s left).2.pending = s.pending ∧ (dictWrite s left).2.state = s.state
    ∧ (dictWrite s left).2.rep0 = s.rep0 ∧ (dictWrite s left).2.rep1 = s.rep1 ∧ (dictWrite s left).2.rep2 = s.rep2
    ∧ (dictWrite s left).2.rep3 = s.rep3 ∧ SameA s (dictWrite s left).2 := by
  unfold dictWrite
  exact ⟨rfl, Nat.min_le_right _ _, rfl, rfl, rfl, rfl, rfl, rfl, rfl, ⟨rfl, rfl, rfl⟩⟩

theorem dictWrite_inv (s : St) (left : Nat) (hp : PosInv s.dp) :
    PosInv (dictWrite s left).2.dp ∧ (RepsOrStuck s → RepsOrStuck (dictWrite s left).2) := by
  obtain ⟨f1, f2, _, f4, f5, f6, f7, f8, f9, _⟩ := dictWrite_fields s left
  refine ⟨by rw [f1]; exact posInv_advance hp _ f2, fun hr => ?_⟩
  rcases hr with hr | hr
  · left; rw [f4]; exact hr
  · right; exact (advance_inv _ hr hp f2 f5 f6 f7 f8 f9 f1).1

theorem lzma2Loop_inv : ∀ (fuel : Nat) (s : St), LInv s → LPost s (lzma2Loop fuel s)
  | 0, s, h => by unfold lzma2Loop; exact LPost.same _ h rfl
  | fuel + 1, s, h => by
    unfold lzma2Loop
    split
    · exact LPost.same _ h rfl
    · -- continuing the loop from a later state
      have cont : ∀ s1 : St, LInv s1 → s1.dp.needReset = s.dp.needReset → LPost s (lzma2Loop fuel s1) :=
        fun s1 h1 hn => (lzma2Loop_inv fuel s1 h1).of_cont hn
      -- steps that only touch the LZMA2 layer and the input cursor
      have plain : ∀ s1 : St, s1.dp = s.dp → SameR s s1 → SameA s s1 →
          L2Rv s1.l2.seq s1.l2.nextSeq s1.l2.needProperties (NoEopm s1) (RepsOrStuck s1) → LInv s1 :=
        fun s1 hd _ _ hl => ⟨hl, by rw [hd]; exact h.pos⟩
      simp only []
      generalize (if hlt : s.inPos < s.inp.size then s.inp[s.inPos] else 0) = b8
      have hb8 : b8.toNat < 256 := UInt8.toNat_lt_size b8
      split
      · -- SEQ_CONTROL
        next hseq =>
        split
        · exact LPost.same _ ⟨h.l2r.congr rfl ⟨rfl, rfl, rfl, rfl, rfl, rfl, rfl⟩ ⟨rfl, rfl, rfl⟩, h.pos⟩ rfl
        · next hend =>
          split
          · exact LPost.same _ ⟨h.l2r.congr rfl ⟨rfl, rfl, rfl, rfl, rfl, rfl, rfl⟩ ⟨rfl, rfl, rfl⟩, h.pos⟩ rfl
          · next herr =>
            have hend' : (controlStep b8.toNat s.l2.needProperties s.l2.needDictionaryReset).isEnd = false := by
              simpa using hend
            have herr' : (controlStep b8.toNat s.l2.needProperties s.l2.needDictionaryReset).isError = false := by
              simpa using herr
            have hs0 : L2R ({ s with inPos := s.inPos + 1 } : St) :=
              h.l2r.congr rfl ⟨rfl, rfl, rfl, rfl, rfl, rfl, rfl⟩ ⟨rfl, rfl, rfl⟩
            have key := controlApply_l2r ({ s with inPos := s.inPos + 1 } : St) b8.toNat hb8 hs0 hseq hend' herr'
            have hdp := (controlApply_fields ({ s with inPos := s.inPos + 1 } : St)
              (controlStep b8.toNat s.l2.needProperties s.l2.needDictionaryReset)).2.2.2.1
            split
            · next hdr =>
              refine ⟨⟨key _ rfl ⟨rfl, rfl, rfl⟩ (Or.inl ⟨rfl, rfl, rfl, rfl, rfl, rfl, rfl⟩), ?_⟩, fun _ => Or.inr ?_⟩
              · show PosInv { (controlApply _ _).dp with needReset := true }
                rw [hdp]
                exact ⟨h.pos.size_ge, h.pos.pos_le_limit, h.pos.limit_le_size, h.pos.full_le, h.pos.not_wrapped, h.pos.wrapped⟩
              · exact key _ rfl ⟨rfl, rfl, rfl⟩ (Or.inr ⟨hdr, rfl, rfl, rfl, rfl, rfl⟩)
            · refine cont _ ⟨key _ rfl ⟨rfl, rfl, rfl⟩ (Or.inl ⟨rfl, rfl, rfl, rfl, rfl, rfl, rfl⟩), ?_⟩ (by rw [hdp])
              rw [hdp]; exact h.pos
      · -- SEQ_UNCOMPRESSED_1
        next hseq =>
        have hl := h.l2r.get hseq
        refine cont _ (plain _ rfl ⟨rfl, rfl, rfl, rfl, rfl, rfl, rfl⟩ ⟨rfl, rfl, rfl⟩ ?_) rfl
        show s.l2.nextSeq = L2Seq.properties ∨ (s.l2.nextSeq = L2Seq.lzma ∧ RepsOrStuck _)
        exact hl.imp id (fun hh => ⟨hh.1, (⟨rfl, rfl, rfl, rfl, rfl, rfl, rfl⟩ : SameR s _).ros hh.2⟩)
      · -- SEQ_UNCOMPRESSED_2: `set_uncompressed` establishes the chunk configuration
        next hseq =>
        have hl := h.l2r.get hseq
        refine cont _ ⟨?_, h.pos⟩ rfl
        refine L2R.of (seq := .compressed0) (next := s.l2.nextSeq) (np := s.l2.needProperties) rfl rfl rfl ?_
        show Target s.l2.nextSeq s.l2.needProperties (NoEopm _) (RepsOrStuck _)
        have hA : NoEopm ({ (setL2 { s with inPos := s.inPos + 1 } fun l =>
            { l with uncompressedSize := l.uncompressedSize + b8.toNat + 1, seq := .compressed0 }) with
            uncomp := some (s.l2.uncompressedSize + b8.toNat + 1), allowEopm := false, eopmValid := false } : St) :=
          ⟨rfl, rfl, rfl⟩
        rcases hl with hl | hl
        · rw [hl]; exact hA
        · rw [hl.1]; exact ⟨hA, (⟨rfl, rfl, rfl, rfl, rfl, rfl, rfl⟩ : SameR s _).ros hl.2⟩
      · -- SEQ_COMPRESSED_0
        next hseq =>
        have hl := h.l2r.get hseq
        refine cont _ ⟨?_, h.pos⟩ rfl
        refine L2R.of (seq := .compressed1) (next := s.l2.nextSeq) (np := s.l2.needProperties) rfl rfl rfl ?_
        exact Target.congr ⟨rfl, rfl, rfl⟩ ⟨rfl, rfl, rfl, rfl, rfl, rfl, rfl⟩ hl
      · -- SEQ_COMPRESSED_1
        next hseq =>
        have hl := h.l2r.get hseq
        refine cont _ ⟨?_, h.pos⟩ rfl
        refine L2R.of (seq := s.l2.nextSeq) (next := s.l2.nextSeq) (np := s.l2.needProperties) rfl rfl rfl ?_
        exact Target.toL2Rv _ (Target.congr ⟨rfl, rfl, rfl⟩ ⟨rfl, rfl, rfl, rfl, rfl, rfl, rfl⟩ hl)
      · -- SEQ_PROPERTIES
        next hseq =>
        have hl := h.l2r.get hseq
        split
        · exact LPost.same _ ⟨h.l2r.congr rfl ⟨rfl, rfl, rfl, rfl, rfl, rfl, rfl⟩ ⟨rfl, rfl, rfl⟩, h.pos⟩ rfl
        · next p hp =>
          refine cont _ ⟨?_, h.pos⟩ rfl
          refine L2R.of (seq := .lzma) (next := s.l2.nextSeq) (np := s.l2.needProperties) rfl rfl rfl ?_
          exact ⟨(⟨rfl, rfl, rfl⟩ : SameA s _).noEopm hl, Or.inr (repsOk_zero rfl rfl rfl rfl rfl)⟩
      · -- SEQ_LZMA
        next hseq =>
        have hl := h.l2r.get hseq
        have hci := lzmaCall_inv s h.pos hl.1 hl.2
        have hwr := (lzmaCall_spec s h.pos.pos_le_limit).1
        have hnr := hwr.needReset
        have hl2 := hwr.l2
        generalize hc : lzmaCall s = r at hci hnr hl2
        obtain ⟨ret, s1⟩ := r
        obtain ⟨i1, i2, i3⟩ := hci
        have hnr' : s1.dp.needReset = s.dp.needReset := hnr
        have hl2' : s1.l2 = s.l2 := hl2
        have i1' : PosInv s1.dp := i1
        have i2' : NoEopm s1 := i2
        have i3' : RepsOrStuck s1 := i3
        have hseq1 : s1.l2.seq = .lzma := by rw [hl2']; exact hseq
        have inv1 : ∀ f : L2 → L2, (f s1.l2).seq = .lzma → LInv (setL2 s1 f) := fun f hf =>
          ⟨L2R.of (seq := .lzma) (next := (f s1.l2).nextSeq) (np := (f s1.l2).needProperties) hf rfl rfl
            ⟨(⟨rfl, rfl, rfl⟩ : SameA s1 _).noEopm i2', (⟨rfl, rfl, rfl, rfl, rfl, rfl, rfl⟩ : SameR s1 _).ros i3'⟩, i1'⟩
        simp only []
        split
        · exact LPost.same _ ⟨L2R.of (seq := .lzma) hseq1 rfl rfl ⟨i2', i3'⟩, i1'⟩ hnr'
        · split
          · exact LPost.same _ (inv1 _ hseq1) hnr'
          · split
            · exact LPost.same _ (inv1 _ hseq1) hnr'
            · refine cont _ ⟨?_, i1'⟩ hnr'
              refine L2R.of (seq := .control) (next := s1.l2.nextSeq) (np := s1.l2.needProperties) rfl rfl rfl ?_
              exact Or.inr ((⟨rfl, rfl, rfl, rfl, rfl, rfl, rfl⟩ : SameR s1 _).ros i3')
      · -- SEQ_COPY
        next hseq =>
        have hl := h.l2r.get hseq
        have hdw := dictWrite_inv s s.l2.compressedSize h.pos
        have hdf := dictWrite_fields s s.l2.compressedSize
        generalize hd : dictWrite s s.l2.compressedSize = r at hdw hdf
        obtain ⟨n, s1⟩ := r
        obtain ⟨w1, w2⟩ := hdw
        have w1' : PosInv s1.dp := w1
        have w2' : RepsOrStuck s → RepsOrStuck s1 := w2
        have hl2' : s1.l2 = s.l2 := hdf.2.2.1
        have hdp' : s1.dp = s.dp.advance n := hdf.1
        have hnr' : s1.dp.needReset = s.dp.needReset := by rw [hdp']; rfl
        have hnp : s1.l2.needProperties = true ∨ RepsOrStuck s1 := by
          rw [hl2']; exact hl.imp id w2'
        have inv1 : ∀ t : St, SameR s1 t → t.dp = s1.dp → t.l2.needProperties = s1.l2.needProperties →
            (t.l2.seq = .copy ∨ t.l2.seq = .control) → LInv t := by
          intro t hr hd hf hs
          have hR : t.l2.needProperties = true ∨ RepsOrStuck t := by
            rw [hf]; exact hnp.imp id hr.ros
          rcases hs with hs | hs
          · exact ⟨L2R.of (seq := .copy) (next := t.l2.nextSeq) (np := t.l2.needProperties) hs rfl rfl hR, by rw [hd]; exact w1'⟩
          · exact ⟨L2R.of (seq := .control) (next := t.l2.nextSeq) (np := t.l2.needProperties) hs rfl rfl hR, by rw [hd]; exact w1'⟩
        simp only []
        split
        · exact LPost.same _ (inv1 _ ⟨rfl, rfl, rfl, rfl, rfl, rfl, rfl⟩ rfl rfl
            (Or.inl (by show s1.l2.seq = _; rw [hl2']; exact hseq))) hnr'
        · exact cont _ (inv1 _ ⟨rfl, rfl, rfl, rfl, rfl, rfl, rfl⟩ rfl rfl (Or.inr rfl)) hnr'

theorem lzma2Call_inv (s : St) (h : LInv s) : LPost s (lzma2Call s) := lzma2Loop_inv _ s h

/-! ### `decode_buffer` and the coder interface -/

/-- `PosInv` without the two clauses about `limit` (which `decode_buffer` recomputes at the top of every iteration) -/
structure PosW (p : DictPos) : Prop where
  size_ge : 4096 + 2 * LZ_DICT_REPEAT_MAX ≤ p.size
  pos_le_size : p.pos ≤ p.size
  full_le : p.full + 2 * LZ_DICT_REPEAT_MAX ≤ p.size
  not_wrapped : p.hasWrapped = false → LZ_DICT_INIT_POS ≤ p.pos ∧ p.full = p.pos - LZ_DICT_INIT_POS
  wrapped : p.hasWrapped = true → LZ_DICT_REPEAT_MAX ≤ p.pos ∧ p.full + 2 * LZ_DICT_REPEAT_MAX = p.size

theorem posW_of_posInv {p : DictPos} (h : PosInv p) : PosW p :=
  ⟨h.size_ge, Nat.le_trans h.pos_le_limit h.limit_le_size, h.full_le, h.not_wrapped, h.wrapped⟩

theorem posW_reset {p : DictPos} (h : PosW p) : PosW p.reset := by
  have := h.size_ge
  unfold DictPos.reset
  constructor <;> simp only [LZ_DICT_INIT_POS, LZ_DICT_REPEAT_MAX] at * <;> (try intro _) <;> (try simp_all) <;> omega

/-- the top of the `decode_buffer` loop (wrap, then the limit computation) establishes `PosInv` -/
theorem posInv_of_posW {p : DictPos} (h : PosW p) (n : Nat) : PosInv ((p.wrap).setLimit n) := by
  have h1 := h.size_ge; have h2 := h.full_le; have h3 := h.not_wrapped; have h4 := h.wrapped
  have h5 := h.pos_le_size
  unfold DictPos.wrap DictPos.setLimit
  by_cases hw : p.pos = p.size
  · simp only [hw, beq_self_eq_true, if_true, LZ_DICT_REPEAT_MAX, LZ_DICT_INIT_POS] at *
    constructor <;> simp only [LZ_DICT_REPEAT_MAX, LZ_DICT_INIT_POS] <;> (try intro hc) <;> (try cases hc)
    all_goals (try omega)
    cases hb : p.hasWrapped
    · have := h3 hb; omega
    · have := h4 hb; omega
  · have hne : (p.pos == p.size) = false := by simpa using hw
    simp only [hne, Bool.false_eq_true, ↓reduceIte, LZ_DICT_REPEAT_MAX, LZ_DICT_INIT_POS] at *
    constructor <;> simp only [LZ_DICT_REPEAT_MAX, LZ_DICT_INIT_POS] <;> first | omega | assumption

theorem wrap_setLimit_keeps (p : DictPos) (n : Nat) :
    ((p.wrap).setLimit n).full = p.full ∧ ((p.wrap).setLimit n).needReset = p.needReset := by
  unfold DictPos.wrap DictPos.setLimit
  split <;> exact ⟨rfl, rfl⟩

/-- what holds of an LZMA2 coder state between calls of `decode_buffer`'s inner coder -/
structure SInv (s : St) : Prop where
  l2r : L2R s
  pos : PosW s.dp
  noReset : s.dp.needReset = false

theorem decodeBuffer_inv : ∀ (fuel outSize : Nat) (s : St), SInv s → SInv (decodeBuffer lzma2Call fuel outSize s).2
  | 0, outSize, s, h => by unfold decodeBuffer; exact h
  | fuel + 1, outSize, s, h => by
    unfold decodeBuffer
    simp only []
    generalize hs1 : ({ s with dp := (s.dp.wrap).setLimit (outSize - s.produced) } : St) = s1
    have hk := wrap_setLimit_keeps s.dp (outSize - s.produced)
    have e_dp : s1.dp = (s.dp.wrap).setLimit (outSize - s.produced) := by rw [← hs1]
    have inv1 : LInv s1 := by
      refine ⟨?_, by rw [e_dp]; exact posInv_of_posW h.pos _⟩
      rw [← hs1]
      exact h.l2r.congr rfl ⟨rfl, hk.1, rfl, rfl, rfl, rfl, rfl⟩ ⟨rfl, rfl, rfl⟩
    have hnr1 : s1.dp.needReset = false := by rw [e_dp, hk.2]; exact h.noReset
    have hpost := lzma2Call_inv s1 inv1
    generalize hr : lzma2Call s1 = r at hpost
    obtain ⟨ret, s2⟩ := r
    have hinv2 : LInv s2 := hpost.inv
    have hres : s2.dp.needReset = true → s1.dp.needReset = true ∨ L2R { s2 with dp := s2.dp.reset } := hpost.reset
    simp only []
    split
    · next hreset =>
      have inv3 : SInv ({ s2 with dp := s2.dp.reset } : St) := by
        refine ⟨?_, posW_reset (posW_of_posInv hinv2.pos), rfl⟩
        rcases hres hreset with h1 | h1
        · rw [hnr1] at h1; cases h1
        · exact h1
      split
      · exact inv3
      · exact decodeBuffer_inv fuel outSize _ inv3
    · next hno =>
      have inv3 : SInv s2 := by
        refine ⟨hinv2.l2r, posW_of_posInv hinv2.pos, ?_⟩
        cases hb : s2.dp.needReset
        · rfl
        · exact absurd hb hno
      split
      · exact inv3
      · exact decodeBuffer_inv fuel outSize _ inv3

/-- an LZMA2 coder between calls -/
def Coder.RepsInv (c : Coder) : Prop := c.kind = .lzma2 ∧ SInv c.s

theorem Coder.repsInv_init (dictSize : Nat) (preset : List UInt8) (input : ByteArray) :
    (Coder.initLzma2 dictSize preset input).RepsInv := by
  refine ⟨rfl, ?_, posW_of_posInv (posInv_init dictSize preset.length), rfl⟩
  exact L2R.of (seq := .control) (next := .control) (np := true) rfl rfl rfl (Or.inl rfl)

theorem Coder.repsInv_code (c : Coder) (outCap : Nat) (h : c.RepsInv) : (c.code outCap).2.RepsInv := by
  obtain ⟨hk, hs⟩ := h
  unfold Coder.code
  simp only []
  split
  · next hk' => rw [hk] at hk'; cases hk'
  · exact ⟨rfl, decodeBuffer_inv _ _ c.s hs⟩

theorem Coder.repsInv_calls (calls : List Nat) : ∀ c : Coder, c.RepsInv →
    (calls.foldl (fun (c : Coder) cap => (c.code cap).2) c).RepsInv := by
  induction calls with
  | nil => intro c h; exact h
  | cons cap rest ih => intro c h; exact ih _ (Coder.repsInv_code c cap h)

/-- THE REP-REGISTER INVARIANT ALONG A WHOLE LZMA2 STREAM. After any number of calls of `code` (any input, any output
    allowances) on a fresh LZMA2 coder: the sequence-aware invariant `L2R` holds, the dictionary positions are well formed,
    and no dictionary reset is pending. In particular, whenever the coder is in SEQ_LZMA and can still decode a symbol,
    `RepsOk` holds and the chunk configuration excludes the end-of-payload marker. -/
theorem reps_lzma2_stream (dictSize : Nat) (preset : List UInt8) (input : ByteArray) (calls : List Nat) :
    let c := calls.foldl (fun (c : Coder) cap => (c.code cap).2) (Coder.initLzma2 dictSize preset input)
    SInv c.s ∧ (c.s.l2.seq = .lzma → NoEopm c.s ∧ (c.s.pending ≠ .stuck → RepsOk c.s)) := by
  intro c
  have h := (Coder.repsInv_calls calls _ (Coder.repsInv_init dictSize preset input)).2
  refine ⟨h, fun hseq => ?_⟩
  have hl := h.l2r.get hseq
  refine ⟨hl.1, fun hns => ?_⟩
  rcases hl.2 with h1 | h1
  · exact absurd h1 hns
  · exact h1

end XzVerif.Lzma2
