/-
  Helper lemmas for the delta filter model (kernel proofs only).
-/
import XzVerif.Model.Delta
namespace XzVerif.Delta

/-- The circular history represents `recent` (most recent byte first; bytes that were never written count as 0). -/
structure Inv (s : State) (recent : List UInt8) : Prop where
  pos_lt : s.pos < 256
  len : s.history.length = 256
  hist : ∀ k, k < 256 → s.history.getD ((s.pos + 1 + k) % 256) 0 = recent.getD k 0

theorem inv_init (d : Nat) : Inv (State.init d) [] := by
  refine ⟨by show 0 < 256; omega, List.length_replicate, ?_⟩
  intro k _
  show (List.replicate 256 (0 : UInt8)).getD _ 0 = ([] : List UInt8).getD k 0
  simp only [List.getD_eq_getElem?_getD, List.getElem?_replicate, List.getElem?_nil]
  split <;> rfl

/-- What both step functions do to the state: write `b` at `pos`, then `pos--`. -/
def push (s : State) (b : UInt8) : State :=
  { s with history := s.history.set (s.pos % 256) b, pos := (s.pos + 255) % 256 }

theorem push_distance (s : State) (b : UInt8) : (push s b).distance = s.distance := rfl

theorem inv_push {s : State} {recent : List UInt8} (h : Inv s recent) (b : UInt8) : Inv (push s b) (b :: recent) := by
  obtain ⟨hp, hl, hh⟩ := h
  refine ⟨by simp only [push]; omega, by simp [push, hl], ?_⟩
  intro k hk
  have hpm : s.pos % 256 = s.pos := Nat.mod_eq_of_lt hp
  simp only [push, hpm]
  cases k with
  | zero =>
    have : ((s.pos + 255) % 256 + 1 + 0) % 256 = s.pos := by omega
    rw [this]
    simp [List.getD_eq_getElem?_getD, hl, hp]
  | succ j =>
    have e : ((s.pos + 255) % 256 + 1 + (j + 1)) % 256 = (s.pos + 1 + j) % 256 := by omega
    have ne : s.pos ≠ (s.pos + 1 + j) % 256 := by omega
    rw [e]
    have := hh j (by omega)
    simp only [List.getD_eq_getElem?_getD, List.getElem?_set, List.getElem?_cons_succ] at this ⊢
    rw [if_neg ne]
    exact this

/-- the byte the step functions read: `history[(distance + pos) & 0xFF]` is the byte `distance` positions back -/
theorem inv_read {s : State} {recent : List UInt8} (h : Inv s recent) (hd1 : 1 ≤ s.distance) (hd2 : s.distance ≤ 256) :
    s.history.getD ((s.distance + s.pos) % 256) 0 = recent.getD (s.distance - 1) 0 := by
  have := h.hist (s.distance - 1) (by omega)
  have e : (s.pos + 1 + (s.distance - 1)) % 256 = (s.distance + s.pos) % 256 := by
    congr 1; omega
  rw [e] at this
  exact this

theorem encStep_eq (s : State) (b : UInt8) :
    encStep s b = (push s b, b - s.history.getD ((s.distance + s.pos) % 256) 0) := rfl

theorem decStep_eq (s : State) (b : UInt8) :
    decStep s b = (push s (b + s.history.getD ((s.distance + s.pos) % 256) 0), b + s.history.getD ((s.distance + s.pos) % 256) 0) := rfl

theorem encode_eq_spec (d : Nat) (hd1 : 1 ≤ d) (hd2 : d ≤ 256) :
    ∀ (bs : List UInt8) (s : State) (recent : List UInt8), Inv s recent → s.distance = d →
      (encode s bs).2 = specEnc d recent bs := by
  intro bs
  induction bs with
  | nil => intro s recent _ _; rfl
  | cons b t ih =>
    intro s recent hinv hd
    have hr := inv_read hinv (by omega) (by omega)
    simp only [encode, run, encStep_eq, specEnc]
    rw [hr, hd]
    have := ih (push s b) (b :: recent) (inv_push hinv b) (by simp [push_distance, hd])
    simp only [encode] at this
    rw [this]

theorem decode_eq_spec (d : Nat) (hd1 : 1 ≤ d) (hd2 : d ≤ 256) :
    ∀ (bs : List UInt8) (s : State) (recent : List UInt8), Inv s recent → s.distance = d →
      (decode s bs).2 = specDec d recent bs := by
  intro bs
  induction bs with
  | nil => intro s recent _ _; rfl
  | cons b t ih =>
    intro s recent hinv hd
    have hr := inv_read hinv (by omega) (by omega)
    simp only [decode, run, decStep_eq, specDec]
    rw [hr, hd]
    have := ih (push s (b + recent.getD (d - 1) 0)) ((b + recent.getD (d - 1) 0) :: recent) (inv_push hinv _)
      (by simp [push_distance, hd])
    simp only [decode] at this
    rw [this]

theorem specDec_specEnc (d : Nat) : ∀ (bs recent : List UInt8), specDec d recent (specEnc d recent bs) = bs := by
  intro bs
  induction bs with
  | nil => intro _; rfl
  | cons b t ih =>
    intro recent
    simp only [specEnc, specDec]
    have e : b - recent.getD (d - 1) 0 + recent.getD (d - 1) 0 = b := UInt8.sub_add_cancel _ _
    rw [e, ih]

theorem specEnc_specDec (d : Nat) : ∀ (bs recent : List UInt8), specEnc d recent (specDec d recent bs) = bs := by
  intro bs
  induction bs with
  | nil => intro _; rfl
  | cons b t ih =>
    intro recent
    simp only [specEnc, specDec]
    have e : b + recent.getD (d - 1) 0 - recent.getD (d - 1) 0 = b := UInt8.add_sub_cancel _ _
    rw [e, ih]

theorem specEnc_length (d : Nat) : ∀ (bs recent : List UInt8), (specEnc d recent bs).length = bs.length := by
  intro bs
  induction bs with
  | nil => intro _; rfl
  | cons b t ih => intro recent; simp [specEnc, ih]

theorem specDec_length (d : Nat) : ∀ (bs recent : List UInt8), (specDec d recent bs).length = bs.length := by
  intro bs
  induction bs with
  | nil => intro _; rfl
  | cons b t ih => intro recent; simp [specDec, ih]

/-- index form of the specification -/
theorem specEnc_getD (d : Nat) (hd : 1 ≤ d) : ∀ (bs recent : List UInt8) (i : Nat), i < bs.length →
    (specEnc d recent bs).getD i 0 = bs.getD i 0 - (if d ≤ i then bs.getD (i - d) 0 else recent.getD (d - 1 - i) 0) := by
  intro bs
  induction bs with
  | nil => intro _ i h; simp at h
  | cons b t ih =>
    intro recent i hi
    cases i with
    | zero =>
      have : ¬ d ≤ 0 := by omega
      simp [specEnc, this]
    | succ j =>
      have hj : j < t.length := by simpa using hi
      have := ih (b :: recent) j hj
      simp only [specEnc, List.getD_cons_succ]
      rw [this]
      congr 1
      by_cases h1 : d ≤ j
      · have h2 : d ≤ j + 1 := by omega
        rw [if_pos h1, if_pos h2]
        have : j + 1 - d = (j - d) + 1 := by omega
        rw [this, List.getD_cons_succ]
      · rw [if_neg h1]
        by_cases h2 : d ≤ j + 1
        · have hdj : d = j + 1 := by omega
          rw [if_pos h2]
          subst hdj
          simp
        · rw [if_neg h2]
          have : d - 1 - j = (d - 1 - (j + 1)) + 1 := by omega
          rw [this, List.getD_cons_succ]

theorem run_append (step : State → UInt8 → State × UInt8) : ∀ (a b : List UInt8) (s : State),
    run step s (a ++ b) = ((run step (run step s a).1 b).1, (run step s a).2 ++ (run step (run step s a).1 b).2) := by
  intro a
  induction a with
  | nil => intro b s; simp [run]
  | cons x t ih =>
    intro b s
    simp only [List.cons_append, run]
    rw [ih]

theorem run_length (step : State → UInt8 → State × UInt8) : ∀ (a : List UInt8) (s : State),
    (run step s a).2.length = a.length := by
  intro a
  induction a with
  | nil => intro s; rfl
  | cons x t ih => intro s; simp [run, ih]

end XzVerif.Delta
