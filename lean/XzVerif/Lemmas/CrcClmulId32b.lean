/-
  CLMUL CRC32: folding by 512 bits (kernel-evaluated basis check, see CrcClmulId32.lean).
-/
import XzVerif.Lemmas.CrcClmulId32
namespace XzVerif.Clmul
open XzVerif.Crc

/-- five times 128 steps -/
def L5 (P : V) (v : V) : V := stepN P 128 (stepN P 128 (stepN P 128 (stepN P 128 (stepN P 128 v))))

theorem L5_eq (P : V) (v : V) : L5 P v = stepN P 640 v := by
  simp only [L5, ← stepN_add]

theorem lin_L5 (P : V) : Lin (L5 P) := fun x y => by simp only [L5, stepN_xor]

set_option maxRecDepth 8000 in
/-- folding by 512 bits: `fold(v, fold512) ≡ v·x^512`. -/
theorem fold512_32_eq (v : V) : stepN P32' 128 (fold v p32.fold512) = stepN P32' 640 v := by
  rw [← L5_eq]
  refine basisAll_sound (Lin.comp (lin_fold _) (lin_stepN P32' 128)) (lin_L5 P32') ?_ v
  rw [p32_eq]; decide +kernel

end XzVerif.Clmul
