/-
  C08 helper lemmas, part H: exact accounting of the progress counters on healthy streams.
-/
import XzVerif.Lemmas.MtEncG

namespace XzVerif.MtEnc

def Healthy (s : St) : Prop := s.err = none ∧ ¬ Dn s

/-- Uncompressed / compressed size of the finished (published, not yet delivered) Blocks in the queue. -/
def finIn (q : List Entry) : Nat := (q.map fun e => if e.finished then e.data.length else 0).sum
def finOut (P : Params) (q : List Entry) : Nat := (q.map fun e => if e.finished then (e.enc P).length else 0).sum
def doneIn (d : List Blk) : Nat := (d.map fun b => b.data.length).sum
def doneOut (P : Params) (d : List Blk) : Nat := (d.map fun b => (b.enc P).length).sum
def tailLen (P : Params) (s : St) : Nat := if s.seq = .index ∨ s.seq = .ended then (P.tailBytes s.index).length else 0

structure InvP (P : Params) (s : St) : Prop where
  pin : Healthy s → s.progIn = doneIn s.done + finIn s.outq
  pout : Healthy s → s.progOut = P.hdr.length + doneOut P s.done + finOut P s.outq + tailLen P s

theorem finIn_set {q : List Entry} {i : Nat} {e e' : Entry} (hi : q[i]? = some e) :
    finIn (q.set i e') + (if e.finished then e.data.length else 0) = finIn q + (if e'.finished then e'.data.length else 0) := by
  unfold finIn
  induction q generalizing i with
  | nil => simp at hi
  | cons x xs ih =>
    cases i with
    | zero => simp at hi; subst hi; simp; omega
    | succ j => simp at hi; have := ih hi; simp at this ⊢; omega

theorem finOut_set {P : Params} {q : List Entry} {i : Nat} {e e' : Entry} (hi : q[i]? = some e) :
    finOut P (q.set i e') + (if e.finished then (e.enc P).length else 0) = finOut P q + (if e'.finished then (e'.enc P).length else 0) := by
  unfold finOut
  induction q generalizing i with
  | nil => simp at hi
  | cons x xs ih =>
    cases i with
    | zero => simp at hi; subst hi; simp; omega
    | succ j => simp at hi; have := ih hi; simp at this ⊢; omega

theorem finIn_append (q : List Entry) (e : Entry) : finIn (q ++ [e]) = finIn q + (if e.finished then e.data.length else 0) := by
  simp [finIn]

theorem finOut_append (P : Params) (q : List Entry) (e : Entry) : finOut P (q ++ [e]) = finOut P q + (if e.finished then (e.enc P).length else 0) := by
  simp [finOut]

theorem finIn_mapWorkers (f : WCtx → WCtx) (q : List Entry) : finIn (mapWorkers f q) = finIn q := by
  simp [finIn, mapWorkers, List.map_map, Function.comp_def]

theorem finOut_mapWorkers (P : Params) (f : WCtx → WCtx) (q : List Entry) : finOut P (mapWorkers f q) = finOut P q := by
  simp [finOut, mapWorkers, List.map_map, Function.comp_def, Entry.enc, Entry.blk]

/-- A step that changes none of the quantities in the accounting equations and does not make an unhealthy state healthy. -/
theorem InvP_frame {P : Params} {s t : St} (h : InvP P s) (hh : Healthy t → Healthy s) (h1 : t.progIn = s.progIn) (h2 : t.progOut = s.progOut)
    (h3 : t.done = s.done) (h4 : finIn t.outq = finIn s.outq) (h5 : finOut P t.outq = finOut P s.outq)
    (ht : tailLen P t = tailLen P s) : InvP P t := by
  exact ⟨fun a => by rw [h1, h3, h4]; exact h.pin (hh a), fun a => by rw [h2, h3, h5, ht]; exact h.pout (hh a)⟩

/-- Replacing entry `i` by one with the same `finished`, `data`, `ord`, `chain`. -/
theorem InvP_setSame {P : Params} {s t : St} {i : Nat} {e e' : Entry} (h : InvP P s) (hi : s.outq[i]? = some e)
    (hq : t.outq = s.outq.set i e') (hf : e'.finished = e.finished) (hd : e'.data = e.data) (ho : e'.ord = e.ord) (hc : e'.chain = e.chain)
    (hh : Healthy t → Healthy s) (h1 : t.progIn = s.progIn) (h2 : t.progOut = s.progOut)
    (h3 : t.done = s.done) (h6 : t.seq = s.seq) (h7 : t.index = s.index) : InvP P t := by
  refine InvP_frame h hh h1 h2 h3 ?_ ?_ (by unfold tailLen; rw [h6, h7])
  · have := finIn_set (e' := e') hi; rw [hq]; rw [hf, hd] at this; omega
  · have := finOut_set (P := P) (e' := e') hi
    have he : e'.enc P = e.enc P := by simp [Entry.enc, Entry.blk, hd, ho, hc]
    rw [hq]; rw [hf, he] at this; omega


macro "psame" hi:ident : tactic =>
  `(tactic| exact InvP_setSame (by assumption) $hi rfl rfl rfl rfl rfl id rfl rfl rfl rfl rfl)

theorem InvP_wTop {P : Params} {s s' : St} {i o0 : Nat} (h : InvP P s) (hs : wTop P s i o0 = some s') : InvP P s' := by
  unfold wTop at hs
  split at hs; · cases hs
  rename_i e hi
  split at hs; · cases hs
  split at hs
  · split at hs
    · cases hs; psame hi
    · cases hs; psame hi
    · cases hs; psame hi
    · split at hs <;> cases hs
      psame hi
  · cases hs

theorem InvP_wEnc {P : Params} {s s' : St} {i : Nat} {full : Bool} {newOut : Nat} (h : InvP P s)
    (hs : wEnc P s i full newOut = some s') : InvP P s' := by
  unfold wEnc at hs
  split at hs; · cases hs
  rename_i e hi
  split at hs; · cases hs
  split at hs
  · split at hs
    · cases hs; psame hi
    · split at hs
      · cases hs; psame hi
      · cases hs; psame hi
      · cases hs; psame hi
      · dsimp only at hs
        split at hs
        · split at hs
          · cases hs; psame hi
          · cases hs
        · split at hs
          · cases hs; psame hi
          · split at hs
            · cases hs; psame hi
            · cases hs
  · cases hs

theorem InvP_wEncErr {P : Params} {s s' : St} {i : Nat} {r : Ret} (hs : wEncErr s i r = some s') : InvP P s' := by
  unfold wEncErr at hs
  split at hs; · cases hs
  split at hs; · cases hs
  split at hs
  · cases hs
    exact ⟨fun a => by have := a.1; simp at this, fun a => by have := a.1; simp at this⟩
  · cases hs

theorem InvP_wFb {P : Params} {s s' : St} {i : Nat} (h : InvP P s) (hs : wFb P s i = some s') : InvP P s' := by
  unfold wFb at hs
  split at hs; · cases hs
  rename_i e hi
  split at hs; · cases hs
  split at hs
  · split at hs <;> cases hs <;> psame hi
  · cases hs

theorem InvP_wMarkIdle {P : Params} {s s' : St} {i : Nat} (h : InvP P s) (hs : wMarkIdle s i = some s') : InvP P s' := by
  unfold wMarkIdle at hs
  split at hs; · cases hs
  rename_i e hi
  split at hs; · cases hs
  split at hs
  · cases hs; psame hi
  · cases hs

theorem InvP_wSpurious {P : Params} {s s' : St} {i : Nat} (h : InvP P s) (hs : wSpurious s i = some s') : InvP P s' := by
  unfold wSpurious at hs
  split at hs; · cases hs
  rename_i e hi
  split at hs; · cases hs
  split at hs
  · cases hs; psame hi
  · cases hs

theorem InvP_mExitOne {P : Params} {s s' : St} {i : Nat} (h : InvP P s) (hs : mExitOne s i = some s') : InvP P s' := by
  unfold mExitOne at hs
  split at hs
  · split at hs; · cases hs
    rename_i e hi
    split at hs; · cases hs
    split at hs
    · cases hs; psame hi
    · cases hs
  · cases hs

theorem InvP_wTail {P : Params} {s s' : St} {i : Nat} (h : InvP P s) (hA : InvA P s) (hW : InvW s) (hs : wTail s i = some s') : InvP P s' := by
  unfold wTail at hs
  split at hs; · cases hs
  rename_i e hi
  split at hs; · cases hs
  rename_i w hw
  split at hs
  · rename_i hg
    have hmem := mem_of_getElem? hi
    have hE := hA e hmem
    have hWk := hE.wk w hw
    have hnf : e.finished = false := by
      cases hf : e.finished with
      | false => rfl
      | true => have := (hE.fin hf).2; rw [hw] at this; cases this
    have key : ∀ t : St, t.outq = s.outq.set i { e with finished := e.finished || w.resFinish, wk := none } →
        t.progIn = s.progIn + (if w.resFinish then e.data.length else 0) → t.progOut = s.progOut + w.outPos →
        t.err = s.err → t.mpc = s.mpc → t.done = s.done → t.seq = s.seq → t.index = s.index → InvP P t := by
      intro t hq h1 h2 h3 h4 h5 h6 h7
      have hh : Healthy t → Healthy s := by
        intro a; unfold Healthy Dn at a ⊢; rw [h3, h4] at a; exact a
      have hres : Healthy t → w.resFinish = true := by
        intro a
        cases hr : w.resFinish with
        | true => rfl
        | false =>
          have hs' := hh a
          rcases (hW.ew e hmem).resF w hw (Or.inr hg) hr with b | b
          · exact absurd hs'.1 b
          · exact absurd b hs'.2
      have ht : tailLen P t = tailLen P s := by unfold tailLen; rw [h6, h7]
      have f1 := finIn_set (e' := { e with finished := e.finished || w.resFinish, wk := none }) hi
      have f2 := finOut_set (P := P) (e' := { e with finished := e.finished || w.resFinish, wk := none }) hi
      have he : ({ e with finished := e.finished || w.resFinish, wk := none } : Entry).enc P = e.enc P := rfl
      have he2 : ∀ f : Bool, ({ e with finished := f, wk := none } : Entry).enc P = e.enc P := fun _ => rfl
      refine ⟨fun a => ?_, fun a => ?_⟩
      · have r := hres a
        simp only [r, hnf, Bool.false_or, Bool.or_true, if_true, Bool.false_eq_true, if_false, Nat.add_zero] at hq f1 h1
        rw [h1, h5, hq, h.pin (hh a)]
        omega
      · have r := hres a
        have ho := (hWk.res (Or.inr hg) r).2
        simp only [r, hnf, Bool.false_or, Bool.or_true, if_true, Bool.false_eq_true, if_false, Nat.add_zero, he2] at hq f2
        rw [h2, h5, hq, ht, h.pout (hh a)]
        omega
    dsimp only at hs
    split at hs <;> cases hs <;> exact key _ rfl rfl rfl rfl rfl rfl rfl rfl
  · cases hs

theorem InvP_scalar {P : Params} {s t : St} (h : InvP P s) (hq : t.outq = s.outq) (herr : t.err = s.err) (hm : Dn s → Dn t)
    (h1 : t.progIn = s.progIn) (h2 : t.progOut = s.progOut) (h3 : t.done = s.done) (ht : tailLen P t = tailLen P s) : InvP P t :=
  InvP_frame h (fun a => ⟨herr ▸ a.1, fun b => a.2 (hm b)⟩) h1 h2 h3 (by rw [hq]) (by rw [hq]) ht


theorem InvP_ret {P : Params} {s : St} (r : Ret) (h : InvP P s) (hs : ¬ Dn s) : InvP P (ret s r) := by
  unfold ret
  split
  · exact InvP_scalar h rfl rfl (fun a => absurd a hs) rfl rfl rfl rfl
  · exact ⟨fun a => absurd (Or.inl rfl) a.2, fun a => absurd (Or.inl rfl) a.2⟩

theorem tailLen_block {P : Params} {s : St} (h : s.seq = .block) : tailLen P s = 0 := by simp [tailLen, h]
theorem tailLen_header {P : Params} {s : St} (h : s.seq = .header) : tailLen P s = 0 := by simp [tailLen, h]

theorem InvP_mCall {P : Params} {s s' : St} {inp : Bytes} {cap : Nat} {act : Action} (h : InvP P s) (hs : mCall s inp cap act = some s') : InvP P s' := by
  unfold mCall at hs
  split at hs
  · rename_i hg
    cases hs
    refine InvP_scalar h rfl rfl ?_ rfl rfl rfl rfl
    intro a; unfold Dn at a; rw [hg.1] at a; rcases a with a | a <;> cases a
  · cases hs

theorem InvP_mHdr {P : Params} {s s' : St} (h : InvP P s) (hB : InvB s) (hs : mHdr P s = some s') : InvP P s' := by
  unfold mHdr at hs
  split at hs
  · rename_i hg
    have hq := hB.pcHdr hg
    have hnd : ¬ Dn s := by unfold Dn; rw [hg]; simp
    dsimp only at hs
    split at hs <;> cases hs
    · exact InvP_ret _ (InvP_scalar h rfl rfl id rfl rfl rfl rfl) hnd
    · refine InvP_scalar h rfl rfl (fun a => absurd a hnd) rfl rfl rfl ?_
      rw [tailLen_header hq, tailLen_block rfl]
  · cases hs

theorem InvP_mRead {P : Params} {s s' : St} (h : InvP P s) (hB : InvB s) (hs : mRead P s = some s') : InvP P s' := by
  unfold mRead at hs
  split at hs
  · rename_i hg
    have hq := hB.pcBlock (Or.inl hg)
    have hnd : ¬ Dn s := by unfold Dn; rw [hg]; simp
    split at hs
    · cases hs; exact InvP_ret _ h hnd
    · split at hs
      · cases hs; exact InvP_scalar h rfl rfl (fun a => absurd a hnd) rfl rfl rfl rfl
      · rename_i e rest hcons
        split at hs
        · cases hs; exact InvP_scalar h rfl rfl (fun a => absurd a hnd) rfl rfl rfl rfl
        · rename_i hfin
          have hfin' : e.finished = true := by simpa using hfin
          dsimp only at hs
          split at hs
          · cases hs; exact InvP_scalar h rfl rfl (fun a => absurd a hnd) rfl rfl rfl rfl
          · cases hs
            have hin : finIn s.outq = e.data.length + finIn rest := by rw [hcons]; simp [finIn, hfin']
            have hout : finOut P s.outq = (e.enc P).length + finOut P rest := by rw [hcons]; simp [finOut, hfin']
            have hs0 : ∀ t : St, Healthy t → t.err = s.err → Healthy s := fun t a b => ⟨b ▸ a.1, hnd⟩
            refine ⟨fun a => ?_, fun a => ?_⟩
            · have := h.pin (hs0 _ a rfl)
              dsimp only
              rw [this, hin]; simp [doneIn, Entry.blk]; omega
            · have := h.pout (hs0 _ a rfl)
              dsimp only
              rw [this, hout]
              simp [tailLen, hq, doneOut, Entry.enc]
              omega
  · cases hs


theorem InvP_mEncIn {P : Params} {s s' : St} (h : InvP P s) (hA : InvA P s) (hs : mEncIn s = some s') : InvP P s' := by
  unfold mEncIn at hs
  split at hs
  · rename_i hg
    have hnd : ¬ Dn s := by unfold Dn; rw [hg]; simp
    have sc : ∀ t : St, t.outq = s.outq → t.err = s.err → t.progIn = s.progIn → t.progOut = s.progOut → t.done = s.done →
        t.seq = s.seq → t.index = s.index → InvP P t :=
      fun t a b c d e f g => InvP_scalar h a b (fun x => absurd x hnd) c d e (by unfold tailLen; rw [f, g])
    split at hs; · cases hs; exact sc _ rfl rfl rfl rfl rfl rfl rfl
    split at hs
    · split at hs; · cases hs; exact sc _ rfl rfl rfl rfl rfl rfl rfl
      have newE : ∀ (t : St) (ne : Entry), ne.finished = false → t.outq = s.outq ++ [ne] → t.err = s.err → t.progIn = s.progIn →
          t.progOut = s.progOut → t.done = s.done → t.seq = s.seq → t.index = s.index → InvP P t := by
        intro t ne h0 a b c d e f g
        refine InvP_frame h (fun x => ⟨b ▸ x.1, hnd⟩) c d e ?_ ?_ (by unfold tailLen; rw [f, g])
        · rw [a, finIn_append, h0]; simp
        · rw [a, finOut_append, h0]; simp
      split at hs
      · cases hs; exact newE _ _ rfl rfl rfl rfl rfl rfl rfl rfl
      · split at hs
        · cases hs; exact newE _ _ rfl rfl rfl rfl rfl rfl rfl rfl
        · cases hs; exact sc _ rfl rfl rfl rfl rfl rfl rfl
    · split at hs; · cases hs
      rename_i e hl
      dsimp only at hs
      split at hs
      · cases hs; exact InvP_ret _ (sc _ rfl rfl rfl rfl rfl rfl rfl) hnd
      · rename_i w hw
        split at hs
        · cases hs; exact InvP_ret _ (sc _ rfl rfl rfl rfl rfl rfl rfl) hnd
        · cases hs
          have hqe := eq_dropLast_append hl
          have hnf : e.finished = false := by
            cases hf : e.finished with
            | false => rfl
            | true => have := ((hA e (List.mem_of_getLast? hl)).fin hf).2; rw [hw] at this; cases this
          refine InvP_frame h (fun x => ⟨x.1, hnd⟩) rfl rfl rfl ?_ ?_ rfl
          · dsimp only
            conv => rhs; rw [hqe]
            rw [finIn_append, finIn_append, hnf]; simp
          · dsimp only
            conv => rhs; rw [hqe]
            rw [finOut_append, finOut_append, hnf]; simp
  · cases hs

theorem InvP_mAfterIn {P : Params} {s s' : St} (h : InvP P s) (hB : InvB s) (hs : mAfterIn P s = some s') : InvP P s' := by
  unfold mAfterIn at hs
  split at hs
  · rename_i hg
    have hq := hB.pcBlock (Or.inr (Or.inr (Or.inl hg)))
    have hnd : ¬ Dn s := by unfold Dn; rw [hg]; simp
    have hnf : InvP P (noteFlush s) := InvP_scalar h rfl rfl id rfl rfl rfl rfl
    split at hs; · cases hs; exact InvP_ret _ h hnd
    split at hs; · cases hs; exact InvP_ret _ hnf hnd
    split at hs
    · cases hs
      refine ⟨fun a => ?_, fun a => ?_⟩
      · exact h.pin ⟨a.1, hnd⟩
      · have := h.pout ⟨a.1, hnd⟩
        dsimp only [noteFlush]
        rw [this, tailLen_block hq]
        simp [tailLen]
    split at hs; · cases hs; exact InvP_ret _ hnf hnd
    split at hs; · cases hs; exact InvP_ret _ h hnd
    cases hs; exact InvP_scalar h rfl rfl (fun a => absurd a hnd) rfl rfl rfl rfl
  · cases hs

theorem InvP_mTail {P : Params} {s s' : St} (h : InvP P s) (hB : InvB s) (hs : mTail P s = some s') : InvP P s' := by
  unfold mTail at hs
  split at hs
  · rename_i hg
    have hq := hB.pcTail hg
    have hnd : ¬ Dn s := by unfold Dn; rw [hg]; simp
    dsimp only at hs
    split at hs <;> cases hs
    · exact InvP_ret _ (InvP_scalar h rfl rfl id rfl rfl rfl rfl) hnd
    · refine InvP_ret _ (InvP_scalar h rfl rfl id rfl rfl rfl ?_) hnd
      simp [tailLen, hq]
  · cases hs

theorem InvP_init (P : Params) (c : Cfg) (m : MPc) : InvP P { (initSt c P) with mpc := m } :=
  ⟨fun _ => by simp [initSt, doneIn, finIn], fun _ => by simp [initSt, doneOut, finOut, tailLen]⟩

theorem InvP_step {P : Params} {s s' : St} {e : Ev} (h : InvP P s) (hA : InvA P s) (hB : InvB s) (hW : InvW s)
    (hs : step P s e = some s') : InvP P s' := by
  cases e with
  | call inp cap act => exact InvP_mCall h hs
  | mHdr => exact InvP_mHdr h hB hs
  | mRead => exact InvP_mRead h hB hs
  | mEncIn => exact InvP_mEncIn h hA hs
  | mAfterIn => exact InvP_mAfterIn h hB hs
  | mTail => exact InvP_mTail h hB hs
  | mGetThreadErr r =>
    simp only [step, mGetThreadErr] at hs
    split at hs
    · rename_i hg; cases hs
      exact InvP_ret _ h (by unfold Dn; rw [hg.1]; simp)
    · cases hs
  | mWake =>
    simp only [step, mWake] at hs
    split at hs
    · rename_i hg
      have hnd : ¬ Dn s := by unfold Dn; rw [hg.1]; simp
      split at hs <;> cases hs <;> exact InvP_scalar h rfl rfl (fun a => absurd a hnd) rfl rfl rfl rfl
    · cases hs
  | mTimeout =>
    simp only [step, mTimeout] at hs
    split at hs
    · rename_i hg; cases hs
      exact InvP_ret _ h (by unfold Dn; rw [hg.1]; simp)
    · cases hs
  | mSpurious =>
    simp only [step, mSpurious] at hs
    split at hs
    · cases hs; exact InvP_scalar h rfl rfl id rfl rfl rfl rfl
    · cases hs
  | update c =>
    simp only [step, mUpdate] at hs
    split at hs
    · split at hs <;> cases hs <;> exact InvP_scalar h rfl rfl id rfl rfl rfl rfl
    · cases hs
  | reinit c =>
    simp only [step] at hs
    split at hs
    · simp only [mEnd] at hs
      split at hs
      · cases hs; exact ⟨fun a => absurd (Or.inr rfl) a.2, fun a => absurd (Or.inr rfl) a.2⟩
      · cases hs
    · cases hs
  | lzmaEnd =>
    simp only [step, mEnd] at hs
    split at hs
    · cases hs; exact ⟨fun a => absurd (Or.inr rfl) a.2, fun a => absurd (Or.inr rfl) a.2⟩
    · cases hs
  | mExitOne i => exact InvP_mExitOne h hs
  | mExitIdle =>
    simp only [step, mExitIdle] at hs
    split at hs
    · cases hs; exact InvP_scalar h rfl rfl id rfl rfl rfl rfl
    · cases hs
  | mJoin =>
    simp only [step, mJoin] at hs
    split at hs
    · split at hs <;> cases hs
      · exact InvP_init P _ _
      · exact InvP_init P _ .out
    · cases hs
  | wTop i o0 => exact InvP_wTop h hs
  | wEnc i full newOut => exact InvP_wEnc h hs
  | wEncErr i r => exact InvP_wEncErr hs
  | wFb i => exact InvP_wFb h hs
  | wMarkIdle i => exact InvP_wMarkIdle h hs
  | wTail i => exact InvP_wTail h hA hW hs
  | wSpurious i => exact InvP_wSpurious h hs
  | wExitIdle =>
    simp only [step, wExitIdle] at hs
    split at hs
    · cases hs; exact InvP_scalar h rfl rfl id rfl rfl rfl rfl
    · cases hs


-- ---------------------------------------------------------------------------------------------------------------------
-- what lzma_get_progress reports
-- ---------------------------------------------------------------------------------------------------------------------

def wIn (e : Entry) : Nat := match e.wk with | some w => w.progIn | none => 0
def wOut (e : Entry) : Nat := match e.wk with | some w => w.progOut | none => 0

theorem progress_eq (s : St) : progress s = (s.progIn + (s.outq.map wIn).sum, s.progOut + (s.outq.map wOut).sum) := rfl

theorem datas_length (d : List Blk) : (datas d).length = doneIn d := by
  induction d with
  | nil => rfl
  | cons b r ih => simp [datas, doneIn] at ih ⊢; omega

theorem sum_in_le {P : Params} {bs : Nat} {q : List Entry} (h : ∀ e ∈ q, EOk P bs e) :
    finIn q + (q.map wIn).sum ≤ doneIn (blks q) := by
  induction q with
  | nil => simp [finIn, doneIn, blks]
  | cons e r ih =>
    have he := h e List.mem_cons_self
    have ih' := ih (fun x hx => h x (List.mem_cons_of_mem _ hx))
    have key : (if e.finished then e.data.length else 0) + wIn e ≤ e.data.length := by
      unfold wIn
      cases hf : e.finished with
      | true => rw [(he.fin hf).2]; simp
      | false =>
        cases hk : e.wk with
        | none => simp
        | some w =>
          have hW := he.wk w hk
          have := hW.pos; have := hW.lin; have := hW.pin
          simp; omega
    simp only [finIn, List.map_cons, List.sum_cons, doneIn, blks, Entry.blk] at ih' key ⊢
    omega

theorem sum_out_le {P : Params} {bs : Nat} {q : List Entry} (h : ∀ e ∈ q, EOk P bs e) :
    (q.map wOut).sum ≤ busy q * P.alloc := by
  induction q with
  | nil => simp [busy]
  | cons e r ih =>
    have he := h e List.mem_cons_self
    have ih' := ih (fun x hx => h x (List.mem_cons_of_mem _ hx))
    rw [busy_cons]
    simp only [List.map_cons, List.sum_cons]
    cases hk : e.wk with
    | none => simp [wOut, hk]; exact ih'
    | some w =>
      have := (he.wk w hk).pout
      have hw : wOut e = w.progOut := by simp [wOut, hk]
      rw [hw]
      simp [Nat.add_mul]; omega

end XzVerif.MtEnc
