/-
  Preservation of data + control invariant: direct-mode decoding and the Index step (the two transitions outside
  read_output_and_wait that deliver output or pass an item without a worker).
-/
import XzVerif.Lemmas.MtDecMain

namespace XzVerif.MtDec

theorem delivered_push (s : State) (bytes : List UInt8) :
    ({ s with outRev := bytes :: s.outRev } : State).delivered = s.delivered ++ bytes := by
  simp [State.delivered]

theorem hd_of_empty {s : State} (hq : s.queue = []) : hd s = s.cur := by simp [hd, hq]

/-- Direct mode hands `n` more bytes of the current item to the application. -/
def directAdv (s : State) (n : Nat) : State :=
  { s with outRev := ((blk s s.cur).data.drop s.directPos).take n :: s.outRev, directPos := s.directPos + n,
           outCap := s.outCap - n }

theorem DataInv.directAdv {s : State} (h : DataInv s) (hq : s.queue = []) (n : Nat)
    (hn : s.directPos + n ≤ (blk s s.cur).data.length) : DataInv (directAdv s n) := by
  refine { wf := h.wf, curLe := h.curLe, lenLe := h.lenLe, consec := h.consec, good := h.good, deliv := ?_,
           posLe := h.posLe, readLe := h.readLe, fin := h.fin,
           wk := fun i hi => WInv.congr (s := s) rfl rfl (h.wk i hi), distinct := h.distinct, free := h.free,
           freeNodup := h.freeNodup, dirLe := hn, dirQ := fun _ => hq }
  have e0 : (MtDec.directAdv s n).delivered = s.delivered ++ ((blk s s.cur).data.drop s.directPos).take n :=
    delivered_push s _
  have e1 : partialOut s = (blk s s.cur).data.take s.directPos := by simp [partialOut, hq]
  have e2 : partialOut (MtDec.directAdv s n) = (blk s s.cur).data.take (s.directPos + n) := by
    simp [partialOut, MtDec.directAdv, hq, blk]
  have e3 : hd (MtDec.directAdv s n) = hd s := rfl
  rw [e0, e2, e3, h.deliv, e1, List.take_add, List.append_assoc]
  rfl

/-- The current direct-mode item is complete and good: pass it. -/
def directPass (s : State) (n : Nat) : State :=
  { directAdv s n with cur := s.cur + 1, seq := .blockHeader, directPos := 0 }

theorem DataInv.directPass {s : State} (h : DataInv s) (hq : s.queue = []) (hcur : s.cur < s.blocks.length) (n : Nat)
    (hlen : s.directPos + n = (blk s s.cur).data.length) (hend : (blk s s.cur).ret = END) :
    DataInv (directPass s n) := by
  have hD1 := h.directAdv hq n (Nat.le_of_eq hlen)
  have hhd : hd s = s.cur := hd_of_empty hq
  have hhd' : hd (MtDec.directPass s n) = s.cur + 1 := by simp [hd, MtDec.directPass, MtDec.directAdv, hq]
  refine { wf := h.wf, curLe := hcur, lenLe := by simp [MtDec.directPass, MtDec.directAdv, hq],
           consec := by simp [MtDec.directPass, MtDec.directAdv, hq, Consec], good := ?_, deliv := ?_,
           posLe := by simp [MtDec.directPass, MtDec.directAdv, hq],
           readLe := by simpa [MtDec.directPass, MtDec.directAdv, hq] using h.readLe,
           fin := by simp [MtDec.directPass, MtDec.directAdv, hq],
           wk := fun i hi => WInv.congr (s := s) rfl (by simp [MtDec.directPass, MtDec.directAdv]) (h.wk i hi),
           distinct := h.distinct, free := h.free, freeNodup := h.freeNodup, dirLe := Nat.zero_le _,
           dirQ := fun x => absurd rfl x }
  · intro j hj
    rw [hhd'] at hj
    by_cases e : j < s.cur
    · exact h.good j (by rw [hhd]; exact e)
    · have : j = s.cur := by omega
      subst this; exact hend
  · have hd1 := hD1.deliv
    have e2 : partialOut (MtDec.directAdv s n) = (blk s s.cur).data := by
      simp only [partialOut, MtDec.directAdv, hq]
      show ((blk s s.cur).data).take (s.directPos + n) = _
      rw [hlen]; exact List.take_length
    have e3 : hd (MtDec.directAdv s n) = s.cur := hhd
    rw [e2, e3] at hd1
    have e4 : (MtDec.directPass s n).delivered = (MtDec.directAdv s n).delivered := rfl
    have e5 : partialOut (MtDec.directPass s n) = [] := by simp [partialOut, MtDec.directPass, MtDec.directAdv, hq]
    rw [e4, hd1, hhd', e5, List.append_nil]
    exact (outOf_succ s.blocks s.cur hcur).symm

theorem Inv.directStep {s s' : State} (h : Inv s) (n : Nat) (d : Bool) (hs : step s (.directStep n d) = some s') :
    Inv s' := by
  simp only [step] at hs
  split at hs
  case isFalse => cases hs
  rename_i hg
  simp only [Bool.and_eq_true, decide_eq_true_eq] at hg
  obtain ⟨hpc, hseq⟩ := hg
  obtain ⟨c1, c2, c3, c4, c5, c6, c6a, c6b, c7, c8, c9, c10⟩ := h.2
  have hq : s.queue = [] := c4 (Or.inl hseq)
  have hcur : s.cur < s.blocks.length := c1 (by simp [hseq])
  split at hs
  case isFalse => cases hs
  rename_i hg2
  simp only [Bool.and_eq_true, decide_eq_true_eq] at hg2
  have hD1 := h.1.directAdv hq n hg2.2
  have hthr : s.thr = none := by
    cases ht : s.thr with
    | none => rfl
    | some t => have := c6a t ht; simp [hseq] at this
  split at hs
  · split at hs
    case isFalse => cases hs
    rename_i hlen
    split at hs
    · rename_i hend
      injection hs with hs; subst hs
      refine ⟨(h.1.directPass hq hcur n hlen hend).congr rfl rfl rfl rfl rfl rfl rfl rfl, ?_⟩
      constructor <;> first
        | assumption
        | (intros; simp_all [rowKOf, seqOfRowK]; done)
    · injection hs with hs; subst hs
      refine ⟨hD1.congr rfl rfl rfl rfl rfl rfl rfl rfl, ?_⟩
      ctl_fields
  · injection hs with hs; subst hs
    refine ⟨hD1.congr rfl rfl rfl rfl rfl rfl rfl rfl, ?_⟩
    ctl_fields

/-- An item without output (Index + Footer) is passed while the queue is empty. -/
theorem DataInv.passEmpty {s s' : State} (h : DataInv s) (hq : s.queue = []) (hcur : s.cur < s.blocks.length)
    (hdz : s.directPos = 0) (hdata : (blk s s.cur).data = []) (hend : (blk s s.cur).ret = END)
    (hb : s'.blocks = s.blocks) (hc : s'.cur = s.cur + 1) (hq' : s'.queue = s.queue) (ho : s'.outRev = s.outRev)
    (hr : s'.readPos = s.readPos) (hp : s'.directPos = s.directPos) (hw : s'.workers = s.workers)
    (hf : s'.threadsFree = s.threadsFree) : DataInv s' := by
  have e1 : ∀ j, blk s' j = blk s j := fun j => by simp [blk, hb]
  have e2 : ∀ j, dataLen s' j = dataLen s j := fun j => by simp [dataLen, e1]
  have hhd : hd s = s.cur := hd_of_empty hq
  have hhd' : hd s' = s.cur + 1 := by simp [hd, hc, hq', hq]
  have eg : ∀ j, getW s' j = getW s j := fun j => by simp [getW, hw]
  refine { wf := by rw [hb]; exact h.wf, curLe := by rw [hc, hb]; exact hcur, lenLe := by simp [hq', hq],
           consec := by simp [hq', hq, Consec], good := ?_, deliv := ?_, posLe := by simp [hq', hq],
           readLe := by rw [hq', hr]; exact h.readLe, fin := by simp [hq', hq],
           wk := by intro i hi; rw [hw] at hi; rw [eg]; exact WInv.congr (s := s) (s' := s') hb hq' (h.wk i hi),
           distinct := by intro i j hi hj; rw [hw] at hi hj; simp only [eg]; exact h.distinct i j hi hj,
           free := by intro i hi; rw [hf] at hi; rw [hw, eg]; exact h.free i hi,
           freeNodup := by rw [hf]; exact h.freeNodup, dirLe := by rw [hp, hdz]; exact Nat.zero_le _,
           dirQ := by rw [hp, hdz]; intro x; exact absurd rfl x }
  · intro j hj
    rw [hhd'] at hj
    rw [e1]
    by_cases e : j < s.cur
    · exact h.good j (by rw [hhd]; exact e)
    · have : j = s.cur := by omega
      subst this; exact hend
  · have hd0 := h.deliv
    have ed : s'.delivered = s.delivered := by simp [State.delivered, ho]
    have ep : partialOut s = [] := by simp [partialOut, hq, hdz]
    have ep' : partialOut s' = [] := by simp [partialOut, hq', hq, hp, hdz]
    rw [ed, hd0, hhd, ep, hhd', ep', hb, outOf_succ s.blocks s.cur hcur]
    show _ = outOf s.blocks s.cur ++ (blk s s.cur).data ++ []
    rw [hdata]; simp

theorem Inv.indexStep {s s' : State} (h : Inv s) (g : Bool) (hs : step s (.indexStep g) = some s') : Inv s' := by
  obtain ⟨c1, c2, c3, c4, c5, c6, c6a, c6b, c7, c8, c9, c10⟩ := h.2
  simp only [step] at hs
  split at hs
  · injection hs with hs; subst hs
    refine ⟨h.1.congr rfl rfl rfl rfl rfl rfl rfl rfl, ?_⟩
    ctl_fields
  · split at hs
    case isFalse => cases hs
    rename_i hg
    simp only [Bool.and_eq_true, decide_eq_true_eq] at hg
    obtain ⟨hpc, hseq⟩ := hg
    have hq : s.queue = [] := c4 (Or.inr hseq)
    have hcur : s.cur < s.blocks.length := c1 (by simp [hseq])
    have hdz : s.directPos = 0 := c3 (by simp [hseq])
    have hk : (blk s s.cur).kind = .sync := c2 (Or.inr hseq)
    have hdata : (blk s s.cur).data = [] := (blk_wf h.1 s.cur).2.2.2.2.2.1 hk
    have hthr : s.thr = none := by
      cases ht : s.thr with
      | none => rfl
      | some t => have := c6a t ht; simp [hseq] at this
    split at hs
    · injection hs with hs; subst hs
      refine ⟨h.1.congr rfl rfl rfl rfl rfl rfl rfl rfl, ?_⟩
      ctl_fields
    · split at hs
      · rename_i hend
        split at hs
        · injection hs with hs; subst hs
          refine ⟨h.1.passEmpty hq hcur hdz hdata hend rfl rfl rfl rfl rfl rfl rfl rfl, ?_⟩
          constructor <;> first
            | assumption
            | (intros; simp_all [rowKOf, seqOfRowK]; done)
        · injection hs with hs; subst hs
          refine ⟨h.1.passEmpty hq hcur hdz hdata hend rfl rfl rfl rfl rfl rfl rfl rfl, ?_⟩
          constructor <;> first
            | assumption
            | (intros; simp_all [rowKOf, seqOfRowK]; done)
      · injection hs with hs; subst hs
        refine ⟨h.1.congr rfl rfl rfl rfl rfl rfl rfl rfl, ?_⟩
        ctl_fields

end XzVerif.MtDec
