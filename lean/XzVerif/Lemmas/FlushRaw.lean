/-
  Helper lemmas for C12: the raw LZMA2 encoder (`lzma_raw_encoder` with a chain that ends in LZMA2 and has no BCJ
  filter) along an arbitrary history of operations. Core Lean only.
-/
import XzVerif.Lemmas.Flush
set_option linter.unusedSimpArgs false
set_option linter.unusedVariables false

namespace XzVerif.Flush
variable {σ : Type}

theorem bodies_append (a b : List Seg) : bodies (a ++ b) = bodies a ++ bodies b := by
  induction a with
  | nil => rfl
  | cons s rest ih => cases s <;> simp [bodies, ih]

@[simp] theorem bodies_body (o : Bytes) : bodies [Seg.body o] = o := by simp [bodies]
@[simp] theorem bodies_nil : bodies [] = [] := rfl

/-- What holds of a sync-capable LZMA2 chain coder `r` after a history with trace `t`:
    a decoder that reads everything written so far (followed by any `tail`) stops exactly in front of `tail`,
    agrees with the encoder, and has produced all input except what is still unencoded. -/
structure RawOk (C : Codec σ) (r : RawEnc σ) (out input : Bytes) (finished : Bool) : Prop where
  lzma2 : r.isLzma1 = false
  pre : r.pre = ⟨true, []⟩
  running : finished = false → ∀ tail : Bytes, ∃ d, Decodes C (Dec.init C) (out ++ tail) d tail
      ∧ Agree C r.l2 d ∧ r.l2.hist ++ r.l2.unenc = input
  ended : finished = true → ∀ tail : Bytes, ∃ d, Decodes C (Dec.init C) (out ++ tail) d tail
      ∧ d.ended = true ∧ d.out = input

/-- `RawEnc.code` on a sync-capable LZMA2 chain is `L2.code` on all of the input. -/
theorem RawEnc.code_sync (E : Env σ) (C : Codec σ) (r : RawEnc σ) (h1 : r.isLzma1 = false) (h2 : r.pre = ⟨true, []⟩)
    (inp : Bytes) (a : Action) :
    r.code E C inp a = ({ r with l2 := (r.l2.code C inp a).1 }, (r.l2.code C inp a).2.1, inp.length, (r.l2.code C inp a).2.2) := by
  unfold RawEnc.code
  simp [h1, h2]

structure RawInv (E : Env σ) (e : Enc σ) (t : Trace) : Prop where
  core : ∃ r, e.core = .raw r ∧ RawOk (E.codec 0) r (bodies t.segs) t.input e.finished
  sup : e.supported = supportedRaw
  alive : e.dead = false

theorem supportedRaw_iff (a : Action) : supportedRaw.testBit a.code = (a == .run || a == .syncFlush || a == .finish) := by
  cases a <;> decide

theorem RawInv.step {E : Env σ} (hE : ∀ i, (E.codec i).Sound) {e : Enc σ} {t : Trace} (h : RawInv E e t) (op : Op) :
    RawInv E (Enc.exec E (e, t) op).1 (Enc.exec E (e, t) op).2 := by
  obtain ⟨⟨r, hcore, hok⟩, hsup, halive⟩ := h
  cases op with
  | update fs =>
    simp only [Enc.exec, Enc.step, Enc.updateOp, Op.data, List.take_nil, List.append_nil]
    by_cases hm : memusageOk fs = true
    · simp only [hm, Bool.not_true, Bool.false_eq_true, if_false, hcore]
      refine ⟨⟨(r.update fs).1, rfl, ?_⟩, hsup, halive⟩
      -- only the LZMA2 options may have changed, at a chunk boundary
      have key : (r.update fs).1 = r ∨ (r.update fs).1 = { r with l2 := (r.l2.optionsUpdate (match fs.reverse with | f :: _ => f.props | [] => ⟨0,0,0⟩)).1 } := by
        unfold RawEnc.update
        cases hrev : fs.reverse with
        | nil => left; rfl
        | cons f rest =>
          simp only [hok.lzma2, Bool.false_eq_true, if_false]
          by_cases hr : (r.l2.optionsUpdate f.props).2 = .ok
          · right; simp [hr]
          · left; simp [hr]
      simp only [List.append_nil]
      rcases key with hk | hk
      · rw [hk]; exact ⟨hok.lzma2, hok.pre, hok.running, hok.ended⟩
      · rw [hk]
        refine ⟨hok.lzma2, hok.pre, ?_, hok.ended⟩
        intro hf tail
        obtain ⟨d, hd, ha, hh⟩ := hok.running hf tail
        obtain ⟨ha', e1, e2⟩ := optionsUpdate_agree ha (match fs.reverse with | f :: _ => f.props | [] => ⟨0,0,0⟩)
        exact ⟨d, hd, ha', by simp only [e1, e2]; exact hh⟩
    · simp only [hm, Bool.not_false, if_true, List.append_nil]
      exact ⟨⟨r, hcore, hok⟩, hsup, halive⟩
  | code a data =>
    simp only [Enc.exec, Enc.step, Enc.codeOp, halive, Bool.false_eq_true, if_false, Op.data]
    by_cases hs : e.supported.testBit a.code = true
    · simp only [hs, Bool.not_true, Bool.false_eq_true, if_false]
      by_cases hfin : e.finished = true
      · simp only [hfin, if_true, List.take_zero, List.append_nil]
        exact ⟨⟨r, hcore, hok⟩, hsup, halive⟩
      · have hfin' : e.finished = false := by simpa using hfin
        simp only [hfin', Bool.false_eq_true, if_false, hcore]
        rw [RawEnc.code_sync E (E.codec 0) r hok.lzma2 hok.pre data a]
        simp only [List.take_length]
        have hC := hE 0
        -- what `l2_code_spec` says for an arbitrary decoder state is needed for every tail
        have hret : (r.l2.code (E.codec 0) data a).2.2 = .ok ∨ (r.l2.code (E.codec 0) data a).2.2 = .streamEnd := by
          obtain ⟨d, hd, ha, hh⟩ := hok.running hfin' []
          obtain ⟨_, _, c3, c4, _, _⟩ := l2_code_spec hC r.l2 d ha data a []
          by_cases har : a = .run
          · left; exact c3 har
          · right; exact (c4 har).1
        have hnotfatal : ((r.l2.code (E.codec 0) data a).2.2 != .ok && (r.l2.code (E.codec 0) data a).2.2 != .streamEnd) = false := by
          rcases hret with h | h <;> simp [h]
        simp only [hnotfatal]
        refine ⟨⟨_, rfl, ?_⟩, hsup, rfl⟩
        have hsupa : (a == .run || a == .syncFlush || a == .finish) = true := by
          rw [← supportedRaw_iff, ← hsup]; exact hs
        refine ⟨hok.lzma2, hok.pre, ?_, ?_⟩
        · intro hnf tail
          have hanf : a ≠ .finish := by
            intro haf; subst haf
            obtain ⟨d, hd, ha, hh⟩ := hok.running hfin' []
            obtain ⟨_, _, _, c4, _, _⟩ := l2_code_spec hC r.l2 d ha data .finish []
            simp [(c4 (by decide)).1] at hnf
          simp only [bodies_append, bodies_body, List.append_assoc]
          obtain ⟨d, hd, ha, hh⟩ := hok.running hfin' ((r.l2.code (E.codec 0) data a).2.1 ++ tail)
          obtain ⟨c1, _, _, _, c5, _⟩ := l2_code_spec hC r.l2 d ha data a tail
          obtain ⟨d', hd', ha'⟩ := c5 hanf
          exact ⟨d', hd.trans hd', ha', by rw [c1, hh]⟩
        · intro hf tail
          have haf : a = .finish := by
            revert hf; cases a <;> simp
          subst haf
          simp only [bodies_append, bodies_body, List.append_assoc]
          obtain ⟨d, hd, ha, hh⟩ := hok.running hfin' ((r.l2.code (E.codec 0) data .finish).2.1 ++ tail)
          obtain ⟨c1, _, _, c4, _, c6⟩ := l2_code_spec hC r.l2 d ha data .finish tail
          obtain ⟨d', hd', he', ho'⟩ := c6 rfl
          refine ⟨d', hd.trans hd', he', ?_⟩
          have hu := (c4 (by decide)).2
          rw [ho', ← hh, ← c1, hu, List.append_nil]
    · simp only [hs, Bool.not_false, if_true, List.take_zero, List.append_nil]
      exact ⟨⟨r, hcore, hok⟩, hsup, halive⟩

theorem foldl_invariant {α β : Type} (P : α → Prop) (f : α → β → α) (hstep : ∀ a b, P a → P (f a b)) :
    ∀ (l : List β) (a : α), P a → P (l.foldl f a) := by
  intro l
  induction l with
  | nil => intro a h; exact h
  | cons b rest ih => intro a h; exact ih _ (hstep a b h)

theorem RawInv.execAll {E : Env σ} (hE : ∀ i, (E.codec i).Sound) {e : Enc σ} (h : RawInv E e {}) (ops : List Op) :
    RawInv E (Enc.execAll E e ops).1 (Enc.execAll E e ops).2 := by
  unfold Enc.execAll
  exact foldl_invariant (fun et : Enc σ × Trace => RawInv E et.1 et.2) (Enc.exec E)
    (fun et op hh => RawInv.step hE hh op) ops (e, {}) h

/-- A chain the raw encoder accepts whose LZ coder is LZMA2 and that has no BCJ filter: LZMA2 alone or delta + LZMA2. -/
structure SyncChain (fs : Chain) : Prop where
  last : ∃ f, fs.getLast? = some f ∧ f.kind = .lzma2 ∧ f.props.valid = true
  noBcj : chainHasBcj fs = false

theorem RawInv.init (E : Env σ) {fs : Chain} (hfs : SyncChain fs) : RawInv E (Enc.rawInit E fs) {} := by
  obtain ⟨⟨f, hl, hk, hv⟩, hb⟩ := hfs
  refine ⟨⟨RawEnc.init (E.codec 0) fs, rfl, ?_⟩, rfl, rfl⟩
  refine ⟨by simp [RawEnc.init, hl, hk], by simp [RawEnc.init, hb], ?_, by intro h; cases h⟩
  intro _ tail
  refine ⟨Dec.init (E.codec 0), by simpa using Decodes.refl _ tail, ?_, by simp [RawEnc.init, L2.init]⟩
  have : lastProps fs = f.props := by simp [lastProps, hl]
  simp only [RawEnc.init, this]
  exact Agree.init _ _ hv

theorem execAll_append (E : Env σ) (e : Enc σ) (ops : List Op) (op : Op) :
    Enc.execAll E e (ops ++ [op]) = Enc.exec E (Enc.execAll E e ops) op := by
  simp [Enc.execAll, List.foldl_append]

/-- Completion of a flush on a raw LZMA2 encoder: LZMA_STREAM_END, nothing left unencoded, all input consumed. -/
theorem RawInv.flush {E : Env σ} (hE : ∀ i, (E.codec i).Sound) {e : Enc σ} {t : Trace} (h : RawInv E e t)
    (hnf : e.finished = false) (data : Bytes) :
    (Enc.exec E (e, t) (.code .syncFlush data)).2.rets = t.rets ++ [.streamEnd] ∧
    (Enc.exec E (e, t) (.code .syncFlush data)).2.input = t.input ++ data ∧
    (Enc.exec E (e, t) (.code .syncFlush data)).1.finished = false ∧
    ∃ r', (Enc.exec E (e, t) (.code .syncFlush data)).1.core = .raw r' ∧ r'.l2.unenc = [] := by
  obtain ⟨⟨r, hcore, hok⟩, hsup, halive⟩ := h
  have hs : e.supported.testBit Action.syncFlush.code = true := by rw [hsup]; decide
  simp only [Enc.exec, Enc.step, Enc.codeOp, halive, Bool.false_eq_true, if_false, Op.data, hs, Bool.not_true, hnf, hcore]
  rw [RawEnc.code_sync E (E.codec 0) r hok.lzma2 hok.pre data .syncFlush]
  obtain ⟨d, hd, ha, hh⟩ := hok.running hnf []
  obtain ⟨_, _, _, c4, _, _⟩ := l2_code_spec (hE 0) r.l2 d ha data .syncFlush []
  obtain ⟨hret, hun⟩ := c4 (by decide)
  simp [hret, hun]


/-- Completion of LZMA_FINISH on a raw LZMA2 encoder. -/
theorem RawInv.finish {E : Env σ} (hE : ∀ i, (E.codec i).Sound) {e : Enc σ} {t : Trace} (h : RawInv E e t)
    (hnf : e.finished = false) (data : Bytes) :
    (Enc.exec E (e, t) (.code .finish data)).2.rets = t.rets ++ [.streamEnd] ∧
    (Enc.exec E (e, t) (.code .finish data)).2.input = t.input ++ data ∧
    (Enc.exec E (e, t) (.code .finish data)).1.finished = true := by
  obtain ⟨⟨r, hcore, hok⟩, hsup, halive⟩ := h
  have hs : e.supported.testBit Action.finish.code = true := by rw [hsup]; decide
  simp only [Enc.exec, Enc.step, Enc.codeOp, halive, Bool.false_eq_true, if_false, Op.data, hs, Bool.not_true, hnf, hcore]
  rw [RawEnc.code_sync E (E.codec 0) r hok.lzma2 hok.pre data .finish]
  obtain ⟨d, hd, ha, hh⟩ := hok.running hnf []
  obtain ⟨_, _, _, c4, _, _⟩ := l2_code_spec (hE 0) r.l2 d ha data .finish []
  obtain ⟨hret, hun⟩ := c4 (by decide)
  simp [hret]

/-- A chain that cannot honour a sync flush: its LZ coder is LZMA1, or a BCJ filter sits in front of it. -/
theorem RawEnc.sync_refused (E : Env σ) (C : Codec σ) (r : RawEnc σ) (h : r.isLzma1 = true ∨ r.pre.canSync = false) (inp : Bytes) :
    (r.code E C inp .syncFlush).2.2.2 = .optionsError := by
  unfold RawEnc.code
  by_cases hc : r.pre.canSync = true
  · have h1 : r.isLzma1 = true := by rcases h with h | h; exact h; rw [hc] at h; cases h
    simp [refusesSync, hc, h1]
  · have hc' : r.pre.canSync = false := by simpa using hc
    by_cases h1 : r.isLzma1 = true
    · simp [refusesSync, hc', h1]
    · simp [refusesSync, hc', h1]

/-- What a refusing BCJ + LZMA2 chain may still write while refusing are whole chunks of data it had accepted before. -/
theorem RawEnc.sync_refused_output {E : Env σ} {C : Codec σ} (hC : C.Sound) (r : RawEnc σ) (h : r.pre.canSync = false)
    (h1 : r.isLzma1 = false) (inp : Bytes) (d : Dec σ) (ha : Agree C r.l2 d) (tail : Bytes) :
    (r.code E C inp .syncFlush).2.2.1 = 0 ∧
    ∃ d', Decodes C d ((r.code E C inp .syncFlush).2.1 ++ tail) d' tail ∧ Agree C (r.code E C inp .syncFlush).1.l2 d'
      ∧ (r.code E C inp .syncFlush).1.l2.hist ++ (r.code E C inp .syncFlush).1.l2.unenc = r.l2.hist ++ r.l2.unenc := by
  obtain ⟨d', hd, ha', hh, _⟩ := closeChunks_spec hC false (r.l2.unenc.length + 1) r.l2 d ha tail
  unfold RawEnc.code
  simp only [refusesSync, h, h1]
  exact ⟨rfl, d', hd, ha', hh⟩


end XzVerif.Flush
