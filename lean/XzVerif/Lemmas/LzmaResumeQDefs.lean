/-
  LZMA1 with known uncompressed size AND end marker allowed (`.lzma` files with known size; LZMA1EXT + ALLOW_EOPM): interface.
  The restriction `Pre1.eopm` of Lemmas/LzmaResumeDefs.lean is replaced by the range-decoder / probability invariant `RcQR`: after the
  known-size test has normalised the range decoder, the re-entry at SEQ_IS_MATCH cannot run out of input.
-/
import XzVerif.Lemmas.LzmaResumeWrapDefs
import XzVerif.Lemmas.C03Rc

namespace XzVerif.LzmaR
open XzVerif.RangeDec XzVerif.LzDict XzVerif.Lzma XzVerif.Lzma2

/-- range in `[2^16, 2^32)`, every probability variable in `[31, 2017]` -/
def RcQ (s : St) : Prop :=
  RcWeak ⟨s.range, s.code⟩ ∧ ∀ i (h : i < s.probs.size), ProbInv s.probs[i]

def RcQk (k : SymSnap) : Prop :=
  RcWeak ⟨k.range, k.code⟩ ∧ ∀ i (h : i < k.probs.size), ProbInv k.probs[i]

/-- the invariant of a coder state between calls -/
def RcQR (r : RSt) : Prop := RcQ r.s ∧ ∀ k, r.sym0 = some k → RcQk k

/-- precondition of one `lzma_decode` call under the view `(b, L)`, any `allow_eopm` / size configuration -/
structure Pre1Q (r : RSt) (b : ByteArray) (L : Nat) : Prop where
  inPos : r.s.inPos ≤ b.size
  pos : r.s.dp.pos ≤ L
  agree : Agree r.s.inPos r.s.inp b
  sym : SymPre r
  rcq : RcQR r

def L1AbsorbQ : Prop :=
  ∀ (r : RSt) (b b' : ByteArray) (L L' : Nat), Pre1Q r b L → Agree b.size b b' → L ≤ L' →
    Same (lzmaCallR (r.view b' L'))
      (if (lzmaCallR (r.view b L)).1 = .ok then lzmaCallR ((lzmaCallR (r.view b L)).2.view b' L') else lzmaCallR (r.view b L))

def L1IdleQ : Prop :=
  ∀ (r : RSt) (b : ByteArray) (L L' : Nat), Pre1Q r b L → L ≤ L' →
    (lzmaCallR (r.view b L)).1 = .ok → (lzmaCallR (r.view b L)).2.s.dp.pos < L →
    Same (lzmaCallR ((lzmaCallR (r.view b L)).2.view b L')) (lzmaCallR (r.view b L))

def L1WrapQ : Prop :=
  ∀ (r : RSt) (b : ByteArray) (L2 : Nat), Pre1Q r b r.s.dp.size → AlignOk r.s → FullOkS r.s → r.s.dp.pos = r.s.dp.size →
    LZ_DICT_REPEAT_MAX ≤ L2 → L2 ≤ r.s.dp.size →
    Same (lzmaCallR (r.wrap.view b L2))
      (if (lzmaCallR (r.view b r.s.dp.size)).1 = .ok then lzmaCallR ((lzmaCallR (r.view b r.s.dp.size)).2.wrap.view b L2)
       else ((lzmaCallR (r.view b r.s.dp.size)).1, (lzmaCallR (r.view b r.s.dp.size)).2.wrap))

/-- invariant of the LZMA1 coder between `lzma_decode` calls, any configuration -/
def P1Q (r : RSt) : Prop := SymPre r ∧ RcQR r ∧ r.s.dp.needReset = false

end XzVerif.LzmaR
