/-
  C01: the executable LZMA1 encoder model followed by the executable LZMA1 decoder model.
-/
import XzVerif.Lemmas.Lzma1EncExec

namespace XzVerif.LzmaExec
open XzVerif.RangeDec XzVerif.RangeEnc XzVerif.RangeCoder XzVerif.LzDict XzVerif.Lzma XzVerif.LzmaEnc XzVerif.LzmaSymDec
open XzVerif.LzmaSym XzVerif.LzmaSpec

theorem toList_loop (bs : ByteArray) : ∀ (n i : Nat) (r : List UInt8), i + n = bs.size →
    ByteArray.toList.loop bs i r = r.reverse ++ (hl bs).drop i
  | 0, i, r, h => by
    rw [ByteArray.toList.loop]
    have : ¬ i < bs.size := by omega
    simp only [this, if_false]
    rw [List.drop_eq_nil_of_le (by rw [hl_length]; omega)]; simp
  | n + 1, i, r, h => by
    rw [ByteArray.toList.loop]
    have hi : i < bs.size := by omega
    simp only [hi, if_true]
    rw [toList_loop bs n (i + 1) _ (by omega)]
    have hget := get!_eq bs i hi
    have hlt : i < (hl bs).length := by rw [hl_length]; exact hi
    rw [List.drop_eq_getElem_cons hlt]
    have : (hl bs)[i] = bs.get! i := by
      have := List.getElem?_eq_getElem hlt
      rw [hget] at this
      exact (Option.some.inj this).symm
    rw [this]; simp

theorem toList_eq (bs : ByteArray) : bs.toList = bs.data.toList := by
  unfold ByteArray.toList
  rw [toList_loop bs bs.size 0 [] (by omega)]
  simp [hl]

/-- a successful `encSyms` is a successful LZ77 expansion -/
theorem encSyms_expand (p : Props) (dictSize : Nat) (hd : dictSize ≤ 4294967295) :
    ∀ (syms : List Sym) (pos : Nat) (st : SymSt) (rb : List UInt8) {ops : List Op} {posF : Nat} {stF : SymSt} {rbF : List UInt8},
    encSyms p dictSize syms pos st rb = some (ops, posF, stF, rbF) → lzExpand dictSize syms st rb = some rbF
  | [], pos, st, rb, ops, posF, stF, rbF, h => by
    simp only [encSyms, Option.some.injEq, Prod.mk.injEq] at h
    obtain ⟨_, _, _, rfl⟩ := h
    rfl
  | sym :: syms, pos, st, rb, ops, posF, stF, rbF, h => by
    simp only [encSyms] at h
    cases happ : applySym dictSize rb st sym with
    | none => rw [happ] at h; cases h
    | some rb1 =>
      rw [happ] at h
      simp only [] at h
      obtain ⟨hvalid, _⟩ := applySym_valid hd happ
      rw [symOps_next p st pos _ _ sym hvalid] at h
      cases hrec : encSyms p dictSize syms (pos + sym.len) (st.next sym) rb1 with
      | none => rw [hrec] at h; cases h
      | some q =>
        obtain ⟨ops1, fin⟩ := q
        rw [hrec] at h
        simp only [Option.some.injEq, Prod.mk.injEq] at h
        obtain ⟨_, rfl⟩ := h
        simp only [lzExpand, happ]
        exact encSyms_expand p dictSize hd syms _ _ _ hrec

theorem win_append_left (a b : ByteArray) : win (a ++ b) a.size = (hl a).reverse := by
  simp only [win, hl, ByteArray.toList_data_append]
  rw [List.take_left' (by rw [Array.length_toList, ByteArray.size_data])]

theorem win_full (buf : ByteArray) : win buf buf.size = (hl buf).reverse := by
  simp only [win]
  rw [List.take_of_length_le (by rw [hl_length])]

/-- (1a) The executable LZMA1 encoder model equals the specification encoder on the symbols of the trace, and these
    symbols are a valid description of the data over the preset dictionary. -/
theorem lzma1_exec_refines (p : Props) (dictSize : Nat) (hd : dictSize ≤ 4294967295) (preset data : ByteArray)
    (tr : Array TraceRec) (res : EncResult)
    (h : lzma1Encode p dictSize true 0 (preset ++ data) preset.size tr = .ok res) :
    ∃ syms, Describes dictSize preset.toList {} syms data.toList ∧
      lzma1EncodeSpec p dictSize preset.toList syms = some res.out := by
  obtain ⟨syms, ops, posF, stF, henc, hout, _⟩ :=
    lzma1Encode_sound p dictSize (preset ++ data) preset.size tr res (by rw [ByteArray.size_append]; omega) h
  rw [win_append_left, win_full] at henc
  have hall : (hl (preset ++ data)).reverse = (hl data).reverse ++ (hl preset).reverse := by
    simp only [hl, ByteArray.toList_data_append, List.reverse_append]
  rw [hall] at henc
  refine ⟨syms, ?_, ?_⟩
  · unfold Describes
    rw [toList_eq, toList_eq]
    exact encSyms_expand p dictSize hd syms 0 {} _ henc
  · rw [toList_eq]
    simp only [lzma1EncodeSpec, lzma1Ops]
    have : encSyms p dictSize syms 0 {} (preset.data.toList).reverse
        = some (ops, posF, stF, (hl data).reverse ++ (hl preset).reverse) := henc
    rw [this]
    simp only [Option.map_some, hout]

/-- (1b) Executable encoder model, then executable decoder model: the data comes back, LZMA_STREAM_END, every byte
    consumed. -/
theorem lzma1_exec_roundtrip (p : Props) (hp : PropsOk p) (dictSize : Nat) (hd : dictSize ≤ 4294967295)
    (preset data : ByteArray) (tr : Array TraceRec) (res : EncResult)
    (h : lzma1Encode p dictSize true 0 (preset ++ data) preset.size tr = .ok res) (outCap : Nat)
    (hcap : data.size < outCap) :
    lzmaDecode p dictSize none true res.out preset.toList outCap =
      { ret := .streamEnd, out := data.toList, consumed := res.out.length } := by
  obtain ⟨syms, hdesc, hspec⟩ := lzma1_exec_refines p dictSize hd preset data tr res h
  exact lzmaDecode_spec_bytes p hp dictSize hd _ _ syms hdesc res.out hspec outCap
    (by rw [toList_eq, Array.length_toList, ByteArray.size_data]; exact hcap)

/-- the window after `n` more bytes (as in Lemmas/Lzma2ExecChunk.lean) -/
theorem win_add' (buf : ByteArray) (i n : Nat) :
    win buf (i + n) = (((hl buf).drop i).take n).reverse ++ win buf i := by
  simp only [win]
  rw [← List.reverse_append]
  congr 1
  rw [List.take_add]

/-- (3, decoding part) MicroLZMA: the executable encoder model with an output-size limit reports `consumed ≤ |data|`, and
    its output, decoded by the executable LZMA1 decoder model with that known size and no end marker, is exactly the
    first `consumed` bytes of the data; LZMA_STREAM_END, every output byte consumed. -/
theorem micro_exec_prefix (p : Props) (hp : PropsOk p) (dictSize : Nat) (hd : dictSize ≤ 4294967295) (limit : Nat)
    (hlim : limit ≠ 0) (preset data : ByteArray) (tr : Array TraceRec) (res : EncResult)
    (h : lzma1Encode p dictSize false limit (preset ++ data) preset.size tr = .ok res) (outCap : Nat)
    (hcap : res.consumed < outCap) :
    res.consumed ≤ data.size ∧
    lzmaDecode p dictSize (some res.consumed) false res.out preset.toList outCap =
      { ret := .streamEnd, out := data.toList.take res.consumed, consumed := res.out.length } := by
  have hsz : (preset ++ data).size = preset.size + data.size := ByteArray.size_append
  obtain ⟨syms, ops, posF, stF, henc, hout, hle⟩ :=
    lzma1Encode_sound_limit p dictSize limit hlim (preset ++ data) preset.size tr res (by omega) h
  have hc : res.consumed ≤ data.size := by omega
  refine ⟨hc, ?_⟩
  have hall : hl (preset ++ data) = hl preset ++ hl data := by simp only [hl, ByteArray.toList_data_append]
  rw [win_add', win_append_left, hall, List.drop_left' (hl_length preset)] at henc
  have hlen : ((hl data).take res.consumed).length = res.consumed := by
    rw [List.length_take, hl_length]; omega
  have := lzmaDecode_known_size p hp dictSize hd (hl preset) ((hl data).take res.consumed) syms ops posF stF henc res.out
    hout.symm outCap (by rw [hlen]; exact hcap)
  rw [hlen] at this
  rw [toList_eq, toList_eq]
  exact this

end XzVerif.LzmaExec
