/-
  C13 helper lemmas, specification level: calling `next` on the persistent iterator until it fails enumerates the
  listing `Spec.iterAll` (every Stream / Block / non-empty Block exactly once, in file order), from any position.
-/
import XzVerif.Lemmas.IndexLocate

namespace XzVerif.Index

/-! ### enumerating a strictly sorted list by a "least element above the current one" function -/

section Generic
variable {β : Type} (lt : β → β → Prop) [DecidableRel lt]

/-- "strictly after the current element" (`none` = before everything) -/
def aboveG (cur : Option β) (y : β) : Prop :=
  match cur with
  | none => True
  | some c => lt c y

instance (cur : Option β) (y : β) : Decidable (aboveG lt cur y) := by
  unfold aboveG; cases cur <;> infer_instance

/-- call `next` until it fails -/
def seqG (next : Option β → Option β) : Nat → Option β → List β
  | 0, _ => []
  | n + 1, cur =>
    match next cur with
    | none => []
    | some q => q :: seqG next n (some q)

/-- `q` is the least element of `L` above `cur` -/
def LeastAbove (L : List β) (cur : Option β) (q : β) : Prop :=
  q ∈ L ∧ aboveG lt cur q ∧ ∀ y ∈ L, aboveG lt cur y → y = q ∨ lt q y

variable (irr : ∀ a, ¬ lt a a) (tr : ∀ a b c, lt a b → lt b c → lt a c)
include irr tr

theorem filter_above_cons {L : List β} (hL : L.Pairwise lt) {cur : Option β} {q : β} (h : LeastAbove lt L cur q) :
    L.filter (fun y => decide (aboveG lt cur y)) = q :: L.filter (fun y => decide (aboveG lt (some q) y)) := by
  obtain ⟨hq, hab, hleast⟩ := h
  have hF : (L.filter fun y => decide (aboveG lt cur y)).Pairwise lt := hL.filter _
  have hqF : q ∈ L.filter fun y => decide (aboveG lt cur y) := by simp [hq, hab]
  have hleastF : ∀ y ∈ L.filter (fun y => decide (aboveG lt cur y)), y = q ∨ lt q y := by
    intro y hy
    simp only [List.mem_filter, decide_eq_true_eq] at hy
    exact hleast y hy.1 hy.2
  have hsub : L.filter (fun y => decide (aboveG lt (some q) y))
      = (L.filter fun y => decide (aboveG lt cur y)).filter (fun y => decide (lt q y)) := by
    rw [List.filter_filter]
    apply List.filter_congr
    intro y _
    have e : aboveG lt (some q) y = lt q y := rfl
    simp only [e]
    by_cases hy : lt q y
    · have : aboveG lt cur y := by
        unfold aboveG at hab ⊢
        cases cur with
        | none => trivial
        | some c => exact tr c q y hab hy
      simp [hy, this]
    · simp [hy]
  rw [hsub]
  generalize L.filter (fun y => decide (aboveG lt cur y)) = F at hF hqF hleastF
  cases F with
  | nil => simp at hqF
  | cons f F' =>
    rw [List.pairwise_cons] at hF
    have hfq : f = q := by
      rcases hleastF f (by simp) with h | h
      · exact h
      · rcases List.mem_cons.mp hqF with h' | h'
        · exact h'.symm
        · exact absurd (tr _ _ _ h (hF.1 q h')) (irr q)
    subst hfq
    simp only [List.filter_cons, irr f, decide_false, Bool.false_eq_true, if_false]
    congr 1
    symm
    rw [List.filter_eq_self]
    intro y hy
    simpa using hF.1 y hy

/-- if `next cur` is the least element of the sorted list `L` above `cur` (or fails when there is none), then
    calling `next` until it fails returns exactly the elements of `L` above the start, in order -/
theorem seqG_eq_filter {L : List β} (hL : L.Pairwise lt) (next : Option β → Option β) (P : Option β → Prop)
    (hP : ∀ y ∈ L, P (some y))
    (hnext : ∀ cur, P cur → (∀ q, next cur = some q → LeastAbove lt L cur q)
      ∧ (next cur = none → ∀ y ∈ L, ¬ aboveG lt cur y)) :
    ∀ (n : Nat) (cur : Option β), P cur → (L.filter fun y => decide (aboveG lt cur y)).length < n →
      seqG next n cur = L.filter fun y => decide (aboveG lt cur y)
  | 0, _, _, h => by omega
  | n + 1, cur, hc, hlen => by
    have hn := hnext cur hc
    unfold seqG
    cases hq : next cur with
    | none =>
      simp only
      symm
      rw [List.filter_eq_nil_iff]
      intro y hy
      simpa using hn.2 hq y hy
    | some q =>
      have hn := hn.1 q hq
      simp only
      have hcons := filter_above_cons lt irr tr hL hn
      rw [hcons] at hlen ⊢
      congr 1
      exact seqG_eq_filter hL next P hP hnext n (some q) (hP q hn.1) (by simpa using hlen)

end Generic

namespace Spec

/-! ### positions and their order -/

abbrev Pos := Nat × Option Nat

/-- file order of iterator positions (`(si, none)` counts as Block 0 of Stream `si`) -/
def plt (a b : Pos) : Prop := a.1 < b.1 ∨ (a.1 = b.1 ∧ a.2.getD 0 < b.2.getD 0)

instance : DecidableRel plt := fun a b => by unfold plt; infer_instance

theorem plt_irr (a : Pos) : ¬ plt a a := by unfold plt; omega
theorem plt_trans (a b c : Pos) (h1 : plt a b) (h2 : plt b c) : plt a c := by unfold plt at *; omega

/-- the positions `advance` can return in mode 0 (ANY), 1 (STREAM), 2 (BLOCK) -/
def Listed (i : Index) (mode : Nat) (y : Pos) : Prop :=
  ∃ s, i[y.1]? = some s ∧
    (if mode = 1 then y.2 = (if s.blocks.isEmpty then none else some 0)
     else (s.blocks.isEmpty = true ∧ mode = 0 ∧ y.2 = none) ∨ (∃ b, y.2 = some b ∧ b < s.blocks.length))

/-- the listing in mode 0, 1, 2 -/
def listing (i : Index) (mode : Nat) : List Pos :=
  if mode = 0 then positions i true
  else if mode = 1 then (List.range i.length).map (firstPosOf i)
  else positions i false

theorem mem_positions (i : Index) (w : Bool) (y : Pos) :
    y ∈ positions i w ↔ ∃ s, i[y.1]? = some s ∧
      ((s.blocks.isEmpty = true ∧ w = true ∧ y.2 = none) ∨ (∃ b, y.2 = some b ∧ b < s.blocks.length)) := by
  unfold positions
  simp only [List.mem_flatMap, List.mem_range]
  constructor
  · rintro ⟨si, hsi, hy⟩
    cases hs : i[si]? with
    | none => rw [hs] at hy; simp at hy
    | some s =>
      rw [hs] at hy
      simp only at hy
      by_cases he : s.blocks.isEmpty = true
      · rw [if_pos he] at hy
        by_cases hw : w = true
        · rw [if_pos hw] at hy
          have : y = (si, none) := by simpa using hy
          subst this
          exact ⟨s, hs, Or.inl ⟨he, hw, rfl⟩⟩
        · rw [if_neg hw] at hy; simp at hy
      · rw [if_neg he] at hy
        simp only [List.mem_map, List.mem_range] at hy
        obtain ⟨b, hb, rfl⟩ := hy
        exact ⟨s, hs, Or.inr ⟨b, rfl, hb⟩⟩
  · rintro ⟨s, hs, h⟩
    have hlt : y.1 < i.length := (List.getElem?_eq_some_iff.mp hs).1
    refine ⟨y.1, hlt, ?_⟩
    rw [hs]
    simp only
    rcases h with ⟨he, hw, hy⟩ | ⟨b, hy, hb⟩
    · rw [if_pos he, if_pos hw]
      simp only [List.mem_singleton]
      exact Prod.ext rfl hy
    · have he : ¬ s.blocks.isEmpty = true := by
        intro he; rw [List.isEmpty_iff] at he; rw [he] at hb; simp at hb
      rw [if_neg he]
      simp only [List.mem_map, List.mem_range]
      exact ⟨b, hb, Prod.ext rfl hy.symm⟩

theorem firstPosOf_eq {i : Index} {si : Nat} {s : StreamRec} (h : i[si]? = some s) :
    firstPosOf i si = (si, if s.blocks.isEmpty then none else some 0) := by
  unfold firstPosOf; rw [h]

theorem mem_listing {i : Index} {mode : Nat} (hm : mode ≤ 2) (y : Pos) : y ∈ listing i mode ↔ Listed i mode y := by
  unfold listing Listed
  by_cases h0 : mode = 0
  · subst h0
    simp only [if_true, mem_positions]
    simp
  · by_cases h1 : mode = 1
    · subst h1
      simp only [if_neg h0, if_true, List.mem_map, List.mem_range]
      constructor
      · rintro ⟨si, hsi, rfl⟩
        have hs : i[si]? = some i[si] := List.getElem?_eq_getElem hsi
        rw [firstPosOf_eq hs]
        exact ⟨i[si], hs, rfl⟩
      · rintro ⟨s, hs, hy⟩
        refine ⟨y.1, (List.getElem?_eq_some_iff.mp hs).1, ?_⟩
        rw [firstPosOf_eq hs]
        exact Prod.ext rfl hy.symm
    · simp only [if_neg h0, if_neg h1, mem_positions]
      simp [h0]

theorem fst_of_mem_streamPositions (i : Index) (w : Bool) (si : Nat) (x : Pos)
    (hx : x ∈ (match i[si]? with
      | none => []
      | some s =>
        if s.blocks.isEmpty then (if w then [(si, none)] else [])
        else (List.range s.blocks.length).map fun bi => (si, some bi))) : x.1 = si := by
  cases hs : i[si]? with
  | none => rw [hs] at hx; simp at hx
  | some s =>
    rw [hs] at hx
    simp only at hx
    split at hx
    · split at hx
      · simp at hx; rw [hx]
      · simp at hx
    · simp only [List.mem_map] at hx; obtain ⟨_, _, rfl⟩ := hx; rfl

theorem positions_sorted (i : Index) (w : Bool) : (positions i w).Pairwise plt := by
  unfold positions
  rw [List.pairwise_flatMap]
  constructor
  · intro si _
    cases i[si]? with
    | none => simp
    | some s =>
      simp only
      split
      · split <;> simp
      · rw [List.pairwise_map]
        exact List.Pairwise.imp (fun {a b} (h : a < b) => by unfold plt; simp; exact h) List.pairwise_lt_range
  · apply List.Pairwise.imp _ List.pairwise_lt_range
    intro a b hab x hx y hy
    have hx1 : x.1 = a := fst_of_mem_streamPositions i w a x hx
    have hy1 : y.1 = b := fst_of_mem_streamPositions i w b y hy
    unfold plt; omega

theorem listing_sorted (i : Index) (mode : Nat) : (listing i mode).Pairwise plt := by
  unfold listing
  split
  · exact positions_sorted i true
  · split
    · rw [List.pairwise_map]
      apply List.Pairwise.imp _ List.pairwise_lt_range
      intro a b hab
      have h1 : (firstPosOf i a).1 = a := by unfold firstPosOf; cases i[a]? <;> rfl
      have h2 : (firstPosOf i b).1 = b := by unfold firstPosOf; cases i[b]? <;> rfl
      unfold plt; omega
    · exact positions_sorted i false

/-! ### `nextStreamFrom` and `advance` -/

theorem nextStreamFrom_spec (i : Index) (mode : Nat) : ∀ (fuel si : Nat), i.length < si + fuel →
    (∃ sj s, nextStreamFrom i mode fuel si = some sj ∧ si ≤ sj ∧ i[sj]? = some s ∧ ¬ (mode ≥ 2 ∧ s.blocks.isEmpty = true)
        ∧ ∀ k s', si ≤ k → k < sj → i[k]? = some s' → (mode ≥ 2 ∧ s'.blocks.isEmpty = true))
    ∨ (nextStreamFrom i mode fuel si = none ∧ ∀ k s', si ≤ k → i[k]? = some s' → (mode ≥ 2 ∧ s'.blocks.isEmpty = true))
  | 0, si, h => by
    right
    refine ⟨rfl, ?_⟩
    intro k s' hk hs'
    have := (List.getElem?_eq_some_iff.mp hs').1
    omega
  | fuel + 1, si, h => by
    unfold nextStreamFrom
    cases hs : i[si]? with
    | none =>
      right
      refine ⟨rfl, ?_⟩
      intro k s' hk hs'
      have h1 := (List.getElem?_eq_some_iff.mp hs').1
      have h2 := List.getElem?_eq_none_iff.mp hs
      omega
    | some s =>
      simp only
      by_cases hskip : mode ≥ 2 ∧ s.blocks.isEmpty = true
      · rw [if_pos hskip]
        rcases nextStreamFrom_spec i mode fuel (si + 1) (by omega) with ⟨sj, s2, h1, h2, h3, h4, h5⟩ | ⟨h1, h2⟩
        · left
          refine ⟨sj, s2, h1, by omega, h3, h4, ?_⟩
          intro k s' hk1 hk2 hs'
          by_cases hk : k = si
          · subst hk; rw [hs] at hs'; cases hs'; exact hskip
          · exact h5 k s' (by omega) hk2 hs'
        · right
          refine ⟨h1, ?_⟩
          intro k s' hk1 hs'
          by_cases hk : k = si
          · subst hk; rw [hs] at hs'; cases hs'; exact hskip
          · exact h2 k s' (by omega) hs'
      · rw [if_neg hskip]
        left
        exact ⟨si, s, rfl, Nat.le_refl _, hs, hskip, by intro k s' h1 h2; omega⟩

/-- "go to the first suitable Stream at or after `a`" returns the least listed position whose Stream is `≥ a` -/
theorem toStream_spec (i : Index) {mode : Nat} (hm : mode ≤ 2) (a : Nat) :
    match (nextStreamFrom i mode (i.length + 1) a).map (firstPosOf i) with
    | some q => Listed i mode q ∧ a ≤ q.1 ∧ ∀ y, Listed i mode y → a ≤ y.1 → y = q ∨ plt q y
    | none => ∀ y, Listed i mode y → ¬ a ≤ y.1 := by
  rcases nextStreamFrom_spec i mode (i.length + 1) a (by omega) with ⟨sj, s, h1, h2, h3, h4, h5⟩ | ⟨h1, h2⟩
  · rw [h1]
    simp only [Option.map_some, firstPosOf_eq h3]
    refine ⟨?_, h2, ?_⟩
    · refine ⟨s, h3, ?_⟩
      by_cases hm1 : mode = 1
      · rw [if_pos hm1]
      · rw [if_neg hm1]
        by_cases he : s.blocks.isEmpty = true
        · left
          refine ⟨he, ?_, by simp [he]⟩
          have : ¬ mode ≥ 2 := fun h => h4 ⟨h, he⟩
          omega
        · right
          refine ⟨0, by simp [he], ?_⟩
          cases hb : s.blocks with
          | nil => rw [hb] at he; simp at he
          | cons _ _ => simp
    · rintro ⟨y1, y2⟩ ⟨sy, hsy, hy⟩ hay
      simp only at hsy hy hay
      have hge : sj ≤ y1 := by
        apply Classical.byContradiction
        intro hlt
        obtain ⟨hm2, he⟩ := h5 y1 sy hay (by omega) hsy
        have hm1 : ¬ mode = 1 := by omega
        rw [if_neg hm1] at hy
        rw [List.isEmpty_iff] at he
        rcases hy with ⟨_, h0, _⟩ | ⟨b, _, hb⟩
        · omega
        · rw [he] at hb; simp at hb
      by_cases heq : y1 = sj
      · subst heq
        rw [h3] at hsy; cases hsy
        by_cases hm1 : mode = 1
        · rw [if_pos hm1] at hy
          left; rw [hy]
        · rw [if_neg hm1] at hy
          by_cases he : s.blocks.isEmpty = true
          · rcases hy with ⟨_, _, hy⟩ | ⟨b, _, hb⟩
            · left; rw [hy]; simp [he]
            · rw [List.isEmpty_iff] at he; rw [he] at hb; simp at hb
          · rcases hy with ⟨he', _, _⟩ | ⟨b, hy, hb⟩
            · exact absurd he' he
            · by_cases hb0 : b = 0
              · left; rw [hy, hb0]; simp [he]
              · right; unfold plt; simp [hy, he]; omega
      · right; unfold plt; simp; omega
  · rw [h1]
    simp only [Option.map_none]
    rintro ⟨y1, y2⟩ ⟨sy, hsy, hy⟩ hay
    simp only at hsy hy hay
    obtain ⟨hm2, he⟩ := h2 y1 sy hay hsy
    have hm1 : ¬ mode = 1 := by omega
    rw [if_neg hm1] at hy
    rw [List.isEmpty_iff] at he
    rcases hy with ⟨_, h0, _⟩ | ⟨b, _, hb⟩
    · omega
    · rw [he] at hb; simp at hb

/-- "strictly after the current position" -/
abbrev above (cur : Option Pos) (y : Pos) : Prop := aboveG plt cur y

/-- the current position names an existing Stream -/
def CurOk (i : Index) (cur : Option Pos) : Prop := ∀ c, cur = some c → c.1 < i.length

/-- `advance` (modes ANY, STREAM, BLOCK) returns the least listed position after the current one -/
theorem advance_spec (i : Index) {mode : Nat} (hm : mode ≤ 2) (cur : Option Pos) (hc : CurOk i cur) :
    match advance i mode cur with
    | some q => Listed i mode q ∧ above cur q ∧ ∀ y, Listed i mode y → above cur y → y = q ∨ plt q y
    | none => ∀ y, Listed i mode y → ¬ above cur y := by
  cases cur with
  | none =>
    have := toStream_spec i hm 0
    unfold advance
    simp only
    cases hq : (nextStreamFrom i mode (i.length + 1) 0).map (firstPosOf i) with
    | none =>
      rw [hq] at this
      intro y hy _
      exact this y hy (Nat.zero_le _)
    | some q =>
      rw [hq] at this
      exact ⟨this.1, trivial, fun y hy _ => this.2.2 y hy (Nat.zero_le _)⟩
  | some c =>
    obtain ⟨si, bi⟩ := c
    have hsi : si < i.length := hc (si, bi) rfl
    have hs : i[si]? = some i[si] := List.getElem?_eq_getElem hsi
    generalize i[si] = s at hs
    unfold advance
    simp only [hs]
    by_cases hin : mode ≠ 1 ∧ bi.getD 0 + 1 < s.blocks.length
    · rw [if_pos hin]
      refine ⟨⟨s, hs, ?_⟩, ?_, ?_⟩
      · rw [if_neg hin.1]; right; exact ⟨_, rfl, hin.2⟩
      · show plt (si, bi) (si, some (bi.getD 0 + 1))
        unfold plt; simp
      · rintro ⟨y1, y2⟩ ⟨sy, hsy, hy⟩ hab
        have hab' : plt (si, bi) (y1, y2) := hab
        unfold plt at hab'
        simp only at hsy hy hab'
        rcases hab' with hlt | ⟨heq, hlt⟩
        · right; unfold plt; simp; omega
        · subst heq
          rw [hs] at hsy; cases hsy
          rw [if_neg hin.1] at hy
          rcases hy with ⟨_, _, hy⟩ | ⟨b, hy, hb⟩
          · rw [hy] at hlt; simp at hlt
          · rw [hy] at hlt; simp only [Option.getD_some] at hlt
            by_cases hbe : b = bi.getD 0 + 1
            · left; rw [hy, hbe]
            · right; unfold plt; simp [hy]; omega
    · rw [if_neg hin]
      have hnone : ∀ y, Listed i mode y → ¬ (si = y.1 ∧ bi.getD 0 < y.2.getD 0) := by
        rintro ⟨y1, y2⟩ ⟨sy, hsy, hy⟩ ⟨heq, hlt⟩
        simp only at hsy hy heq hlt
        subst heq
        rw [hs] at hsy; cases hsy
        by_cases hm1 : mode = 1
        · rw [if_pos hm1] at hy
          rw [hy] at hlt
          split at hlt <;> simp at hlt
        · rw [if_neg hm1] at hy
          rcases hy with ⟨_, _, hy⟩ | ⟨b, hy, hb⟩
          · rw [hy] at hlt; simp at hlt
          · rw [hy] at hlt; simp only [Option.getD_some] at hlt
            have : ¬ (bi.getD 0 + 1 < s.blocks.length) := fun h => hin ⟨hm1, h⟩
            omega
      have := toStream_spec i hm (si + 1)
      cases hq : (nextStreamFrom i mode (i.length + 1) (si + 1)).map (firstPosOf i) with
      | none =>
        rw [hq] at this
        intro y hy hab
        have hab' : plt (si, bi) y := hab
        unfold plt at hab'
        simp only at hab'
        rcases hab' with hlt | h
        · exact this y hy (by omega)
        · exact hnone y hy h
      | some q =>
        rw [hq] at this
        refine ⟨this.1, ?_, ?_⟩
        · show plt (si, bi) q
          unfold plt; simp only; have := this.2.1; omega
        · intro y hy hab
          have hab' : plt (si, bi) y := hab
          unfold plt at hab'
          simp only at hab'
          rcases hab' with hlt | h
          · exact this.2.2 y hy (by omega)
          · exact absurd h (hnone y hy)

end Spec
end XzVerif.Index
