/-
  SHA-256 buffering: lzma_sha256_init / lzma_sha256_update (64-byte buffering with `size & 0x3F`) /
  lzma_sha256_finish (0x80, zero padding loop with a possible extra block, 64-bit big-endian bit length) over ANY
  split of the message into consecutive pieces compute the fold of the block function over the blocks of the FIPS
  padded message.  Generic in the block function; instantiated with `transformC = compress` at the end.
  Kernel proofs only.
-/
import XzVerif.Model.Sha256
import XzVerif.Lemmas.Sha256Transform
namespace XzVerif.Sha256

/-! ### `blocks` -/

theorem blocks_short (a : List UInt8) (h : a.length < 64) : blocks a = [] := by
  simp [blocks, Nat.div_eq_of_lt h]

theorem blocks_one (a : List UInt8) (h : a.length = 64) : blocks a = [a] := by
  simp [blocks, h, List.range_succ, List.take_of_length_le (Nat.le_of_eq h)]

theorem blocks_append (a b : List UInt8) (k : Nat) (h : a.length = 64 * k) : blocks (a ++ b) = blocks a ++ blocks b := by
  have e1 : (a ++ b).length / 64 = k + b.length / 64 := by rw [List.length_append, h]; omega
  have e2 : a.length / 64 = k := by omega
  unfold blocks
  rw [e1, e2, List.range_add, List.map_append, List.map_map]
  congr 1
  · apply List.map_congr_left
    intro i hi
    have hi' : i < k := List.mem_range.mp hi
    rw [List.drop_append_of_le_length (by omega), List.take_append_of_le_length (by rw [List.length_drop]; omega)]
  · apply List.map_congr_left
    intro i _
    simp only [Function.comp]
    have : 64 * (k + i) = a.length + 64 * i := by omega
    rw [this, List.drop_append, List.drop_of_length_le (by omega), Nat.add_sub_cancel_left, List.nil_append]


theorem split64 (m : List UInt8) :
    m = m.take (m.length / 64 * 64) ++ m.drop (m.length / 64 * 64) := (List.take_append_drop _ _).symm

theorem blocks_take_full (m : List UInt8) : blocks m = blocks (m.take (m.length / 64 * 64)) := by
  conv => lhs; rw [split64 m]
  rw [blocks_append _ _ (m.length / 64) (by rw [List.length_take]; omega),
    blocks_short (m.drop _) (by rw [List.length_drop]; omega), List.append_nil]

/-- appending a piece that does not complete the pending block -/
theorem blocks_append_small (m p : List UInt8) (h : m.length % 64 + p.length < 64) : blocks (m ++ p) = blocks m := by
  conv => lhs; rw [split64 m, List.append_assoc]
  rw [blocks_append _ _ (m.length / 64) (by rw [List.length_take]; omega),
    blocks_short (m.drop _ ++ p) (by rw [List.length_append, List.length_drop]; omega), List.append_nil,
    ← blocks_take_full]

/-- appending a piece that exactly completes the pending block -/
theorem blocks_append_full (m p : List UInt8) (h : m.length % 64 + p.length = 64) :
    blocks (m ++ p) = blocks m ++ [m.drop (m.length / 64 * 64) ++ p] := by
  conv => lhs; rw [split64 m, List.append_assoc]
  rw [blocks_append _ _ (m.length / 64) (by rw [List.length_take]; omega),
    blocks_one (m.drop _ ++ p) (by rw [List.length_append, List.length_drop]; omega), ← blocks_take_full]

/-! ### the buffering invariant -/

/-- `ck` is the check state after absorbing the message prefix `m` (starting from state `s0`). -/
structure Rep (tr : List W32 → List UInt8 → List W32) (s0 : List W32) (ck : Ck) (m : List UInt8) : Prop where
  size : ck.size = m.length
  state : ck.state = (blocks m).foldl tr s0
  buflen : ck.buf.length = 64
  pend : ck.buf.take (m.length % 64) = m.drop (m.length / 64 * 64)

/-- one iteration of the `while (size > 0)` loop of `lzma_sha256_update` -/
def updStep (tr : List W32 → List UInt8 → List W32) (ck : Ck) (bs : List UInt8) (c : Nat) : Ck :=
  let ck1 : Ck := { buf := ck.buf.take (ck.size % 64) ++ bs.take c ++ ck.buf.drop (ck.size % 64 + c), state := ck.state, size := ck.size + c }
  if ck1.size % 64 = 0 then processC tr ck1 else ck1

theorem updStep_rep (tr : List W32 → List UInt8 → List W32) (s0 : List W32) (ck : Ck) (m bs : List UInt8)
    (h : Rep tr s0 ck m) (c : Nat) (hc1 : 1 ≤ c) (hc2 : c ≤ 64 - m.length % 64) (hc3 : c ≤ bs.length) :
    Rep tr s0 (updStep tr ck bs c) (m ++ bs.take c) := by
  have hp : (bs.take c).length = c := by rw [List.length_take]; omega
  have hr : m.length % 64 < 64 := Nat.mod_lt _ (by decide)
  have hlen : (m ++ bs.take c).length = m.length + c := by rw [List.length_append, hp]
  unfold updStep
  simp only [h.size]
  by_cases hfull : (m.length + c) % 64 = 0
  · have hsum : m.length % 64 + c = 64 := by omega
    rw [if_pos hfull]
    have hbuf : ck.buf.take (m.length % 64) ++ bs.take c ++ ck.buf.drop (m.length % 64 + c)
        = m.drop (m.length / 64 * 64) ++ bs.take c := by
      rw [hsum, List.drop_of_length_le (by rw [h.buflen]; omega), List.append_nil, h.pend]
    refine ⟨by simp [processC, hlen], ?_, ?_, ?_⟩
    · simp only [processC]
      rw [blocks_append_full m (bs.take c) (by rw [hp]; exact hsum), List.foldl_append, ← h.state, hbuf]
      rfl
    · simp only [processC]; rw [hbuf, List.length_append, List.length_drop, hp]; omega
    · simp only [processC]
      rw [hlen, hfull, List.take_zero]
      have : (m.length + c) / 64 * 64 = m.length + c := by omega
      rw [this, List.drop_of_length_le (by rw [hlen]; omega)]
  · have hsum : m.length % 64 + c < 64 := by omega
    rw [if_neg hfull]
    refine ⟨by simp [hlen], ?_, ?_, ?_⟩
    · simp only []
      rw [blocks_append_small m (bs.take c) (by rw [hp]; exact hsum)]; exact h.state
    · simp only [List.length_append, List.length_take, List.length_drop, h.buflen]; omega
    · simp only []
      have e1 : (m ++ bs.take c).length % 64 = m.length % 64 + c := by rw [hlen]; omega
      have e2 : (m ++ bs.take c).length / 64 * 64 = m.length / 64 * 64 := by rw [hlen]; omega
      rw [e1, e2, List.drop_append_of_le_length (by omega), ← h.pend]
      rw [List.take_append_of_le_length (by
        rw [List.length_append, List.length_take, hp, h.buflen]; omega)]
      rw [List.take_of_length_le (by rw [List.length_append, List.length_take, hp, h.buflen]; omega)]

theorem updateLoop_rep (tr : List W32 → List UInt8 → List W32) (s0 : List W32) (fuel : Nat) :
    ∀ (bs : List UInt8) (ck : Ck) (m : List UInt8), Rep tr s0 ck m → bs.length ≤ fuel →
      Rep tr s0 (updateLoop tr fuel bs ck) (m ++ bs) := by
  induction fuel with
  | zero =>
    intro bs ck m h hl
    have : bs = [] := List.eq_nil_of_length_eq_zero (by omega)
    subst this
    simpa [updateLoop] using h
  | succ fuel ih =>
    intro bs ck m h hl
    unfold updateLoop
    by_cases hpos : bs.length > 0
    · rw [if_pos hpos]
      simp only []
      have hr : m.length % 64 < 64 := Nat.mod_lt _ (by decide)
      generalize hc : (if 64 - ck.size % 64 > bs.length then bs.length else 64 - ck.size % 64) = c
      have hcs : 1 ≤ c ∧ c ≤ 64 - m.length % 64 ∧ c ≤ bs.length := by
        rw [h.size] at hc
        subst hc
        split <;> omega
      have hstep := updStep_rep tr s0 ck m bs h c hcs.1 hcs.2.1 hcs.2.2
      have := ih (bs.drop c) (updStep tr ck bs c) (m ++ bs.take c) hstep (by rw [List.length_drop]; omega)
      rw [List.append_assoc, List.take_append_drop] at this
      exact this
    · rw [if_neg hpos]
      have : bs = [] := List.eq_nil_of_length_eq_zero (by omega)
      subst this
      simpa using h

theorem updateC_rep (tr : List W32 → List UInt8 → List W32) (s0 : List W32) (ck : Ck) (m p : List UInt8)
    (h : Rep tr s0 ck m) : Rep tr s0 (updateC tr ck p) (m ++ p) :=
  updateLoop_rep tr s0 p.length p ck m h (Nat.le_refl _)

theorem initC_rep (tr : List W32 → List UInt8 → List W32) (s0 : List W32) (buf0 : List UInt8) (hb : buf0.length = 64) :
    Rep tr s0 (initC s0 buf0) [] :=
  ⟨rfl, rfl, hb, rfl⟩

/-- Feeding the message in any number of consecutive pieces (empty ones included) leaves the same abstract state. -/
theorem foldl_updateC_rep (tr : List W32 → List UInt8 → List W32) (s0 : List W32) (pieces : List (List UInt8)) :
    ∀ (ck : Ck) (m : List UInt8), Rep tr s0 ck m → Rep tr s0 (pieces.foldl (updateC tr) ck) (m ++ pieces.flatten) := by
  induction pieces with
  | nil => intro ck m h; simpa using h
  | cons p ps ih =>
    intro ck m h
    have := ih _ _ (updateC_rep tr s0 ck m p h)
    simpa [List.foldl, List.flatten, List.append_assoc] using this


/-! ### the padding loop of `lzma_sha256_finish` -/

theorem take_succ_set (l : List UInt8) (pos : Nat) (x : UInt8) (h : pos < l.length) :
    (l.set pos x).take (pos + 1) = l.take pos ++ [x] := by
  rw [List.take_add_one, List.take_set_of_le (Nat.le_refl pos)]
  simp [h]

/-- From a position `pos ≤ 56` the loop only writes zeros up to position 56. -/
theorem padLoop_low (tr : List W32 → List UInt8 → List W32) (d : Nat) :
    ∀ (fuel : Nat) (ck : Ck) (pos : Nat), pos + d = 56 → d ≤ fuel → ck.buf.length = 64 →
      (padLoop tr fuel ck pos).state = ck.state ∧ (padLoop tr fuel ck pos).size = ck.size ∧
      (padLoop tr fuel ck pos).buf.length = 64 ∧
      (padLoop tr fuel ck pos).buf.take 56 = ck.buf.take pos ++ List.replicate d 0 := by
  induction d with
  | zero =>
    intro fuel ck pos hp _ hl
    have : pos = 56 := by omega
    subst this
    cases fuel <;> simp [padLoop, hl]
  | succ d ih =>
    intro fuel ck pos hp hf hl
    obtain ⟨fuel, rfl⟩ : ∃ f, fuel = f + 1 := ⟨fuel - 1, by omega⟩
    have hne : pos ≠ 56 := by omega
    have hne64 : pos ≠ 64 := by omega
    unfold padLoop
    rw [if_pos hne]
    simp only [if_neg hne64]
    have := ih fuel { ck with buf := ck.buf.set pos 0 } (pos + 1) (by omega) (by omega) (by simp [hl])
    obtain ⟨h1, h2, h3, h4⟩ := this
    refine ⟨h1, h2, h3, ?_⟩
    rw [h4]
    simp only []
    rw [take_succ_set _ _ _ (by omega), List.append_assoc]
    rfl

/-- From a position `56 < pos ≤ 64` the loop fills the block with zeros, processes it, and writes 56 zeros. -/
theorem padLoop_high (tr : List W32 → List UInt8 → List W32) (d : Nat) :
    ∀ (fuel : Nat) (ck : Ck) (pos : Nat), pos + d = 64 → 56 < pos → d + 56 ≤ fuel → ck.buf.length = 64 →
      (padLoop tr fuel ck pos).state = tr ck.state (ck.buf.take pos ++ List.replicate d 0) ∧
      (padLoop tr fuel ck pos).size = ck.size ∧
      (padLoop tr fuel ck pos).buf.length = 64 ∧
      (padLoop tr fuel ck pos).buf.take 56 = List.replicate 56 0 := by
  induction d with
  | zero =>
    intro fuel ck pos hp _ hf hl
    have : pos = 64 := by omega
    subst this
    obtain ⟨fuel, rfl⟩ : ∃ f, fuel = f + 1 := ⟨fuel - 1, by omega⟩
    unfold padLoop
    simp only [if_pos (by decide : (64 : Nat) ≠ 56), if_true]
    have := padLoop_low tr 55 fuel { (processC tr ck) with buf := (processC tr ck).buf.set 0 0 } 1 (by omega) (by omega)
      (by simp [processC, hl])
    obtain ⟨h1, h2, h3, h4⟩ := this
    refine ⟨?_, h2, h3, ?_⟩
    · rw [h1]
      simp only [processC, List.replicate_zero, List.append_nil]
      rw [List.take_of_length_le (by omega)]
    · rw [h4]
      simp only [processC]
      rw [take_succ_set _ _ _ (by omega)]
      rfl
  | succ d ih =>
    intro fuel ck pos hp h56 hf hl
    obtain ⟨fuel, rfl⟩ : ∃ f, fuel = f + 1 := ⟨fuel - 1, by omega⟩
    have hne : pos ≠ 56 := by omega
    have hne64 : pos ≠ 64 := by omega
    unfold padLoop
    rw [if_pos hne]
    simp only [if_neg hne64]
    have := ih fuel { ck with buf := ck.buf.set pos 0 } (pos + 1) (by omega) (by omega) (by omega) (by simp [hl])
    obtain ⟨h1, h2, h3, h4⟩ := this
    refine ⟨?_, h2, h3, h4⟩
    rw [h1]
    simp only []
    rw [take_succ_set _ _ _ (by omega), List.append_assoc]
    rfl


/-! ### `lzma_sha256_finish` -/

theorem be64bytes_length (n : Nat) : (be64bytes n).length = 8 := by simp [be64bytes]

theorem be64bytes_mod (n : Nat) : be64bytes (n % 2 ^ 64) = be64bytes n := by
  unfold be64bytes
  apply List.map_congr_left
  intro i hi
  have hi' : i < 8 := List.mem_range.mp hi
  congr 1
  have : i = 0 ∨ i = 1 ∨ i = 2 ∨ i = 3 ∨ i = 4 ∨ i = 5 ∨ i = 6 ∨ i = 7 := by omega
  rcases this with h|h|h|h|h|h|h|h <;> subst h <;> simp <;> omega

/-- The blocks of the padded message when the padding fits into the pending block. -/
theorem blocks_pad_one (m : List UInt8) (h : m.length % 64 ≤ 55) :
    blocks (pad m) = blocks m ++
      [m.drop (m.length / 64 * 64) ++ ([0x80] ++ List.replicate (55 - m.length % 64) 0 ++ be64bytes (8 * m.length))] := by
  have hk : (119 - m.length % 64) % 64 = 55 - m.length % 64 := by omega
  unfold pad
  rw [hk, List.append_assoc, List.append_assoc, ← List.append_assoc [0x80]]
  rw [blocks_append_full m _ (by simp [be64bytes_length]; omega)]

/-- … and when it needs a second block. -/
theorem blocks_pad_two (m : List UInt8) (h : 56 ≤ m.length % 64) :
    blocks (pad m) = blocks m ++
      [m.drop (m.length / 64 * 64) ++ ([0x80] ++ List.replicate (63 - m.length % 64) 0),
       List.replicate 56 0 ++ be64bytes (8 * m.length)] := by
  have hr : m.length % 64 < 64 := Nat.mod_lt _ (by decide)
  have hk : (119 - m.length % 64) % 64 = (63 - m.length % 64) + 56 := by omega
  unfold pad
  rw [hk, ← List.replicate_append_replicate]
  have e : m ++ [0x80] ++ (List.replicate (63 - m.length % 64) 0 ++ List.replicate 56 0) ++ be64bytes (8 * m.length)
      = (m ++ ([0x80] ++ List.replicate (63 - m.length % 64) 0)) ++ (List.replicate 56 0 ++ be64bytes (8 * m.length)) := by
    simp [List.append_assoc]
  rw [e, blocks_append _ _ (m.length / 64 + 1) (by simp; omega),
    blocks_append_full m _ (by simp; omega), blocks_one (List.replicate 56 0 ++ be64bytes (8 * m.length)) (by simp [be64bytes_length]), List.append_assoc]
  rfl

theorem finishC_spec (tr : List W32 → List UInt8 → List W32) (s0 : List W32) (ck : Ck) (m : List UInt8)
    (h : Rep tr s0 ck m) :
    (finishC tr ck).state = (blocks (pad m)).foldl tr s0 ∧
    ∃ rest, (finishC tr ck).buf = digest ((finishC tr ck).state.take 8) ++ rest := by
  refine ⟨?_, ⟨_, rfl⟩⟩
  obtain ⟨buf, st, sz⟩ := ck
  have hs : sz = m.length := h.size
  subst hs
  have hbl : buf.length = 64 := h.buflen
  have hpend : buf.take (m.length % 64) = m.drop (m.length / 64 * 64) := h.pend
  have hst : st = (blocks m).foldl tr s0 := h.state
  have hr : m.length % 64 < 64 := Nat.mod_lt _ (by decide)
  have hset : (buf.set (m.length % 64) 0x80).take (m.length % 64 + 1) = m.drop (m.length / 64 * 64) ++ [0x80] := by
    rw [take_succ_set _ _ _ (by rw [hbl]; exact hr), hpend]
  have hsetlen : (buf.set (m.length % 64) 0x80).length = 64 := by rw [List.length_set]; exact hbl
  have hsz : m.length * 8 = 8 * m.length := Nat.mul_comm _ _
  unfold finishC
  simp only [processC, lengthBitsC]
  by_cases hcase : m.length % 64 ≤ 55
  · obtain ⟨h1, h2, h3, h4⟩ := padLoop_low tr (55 - m.length % 64) 128 { buf := buf.set (m.length % 64) 0x80, state := st, size := m.length }
      (m.length % 64 + 1) (by omega) (by omega) hsetlen
    rw [h1, h2, h4, blocks_pad_one m hcase, List.foldl_append, ← hst]
    simp only [hset, be64bytes_mod, hsz, List.foldl, List.append_assoc]
  · obtain ⟨h1, h2, h3, h4⟩ := padLoop_high tr (63 - m.length % 64) 128 { buf := buf.set (m.length % 64) 0x80, state := st, size := m.length }
      (m.length % 64 + 1) (by omega) (by omega) (by omega) hsetlen
    rw [h1, h2, h4, blocks_pad_two m (by omega), List.foldl_append, ← hst]
    simp only [hset, be64bytes_mod, hsz, List.foldl, List.append_assoc]


/-! ### assembling: the C computation over any pieces = SHA-256 of the concatenation -/

/-- Generic in the block function `tr`: the state after init / update over `pieces` / finish is the fold of `tr`
    over the blocks of the padded concatenation, and the buffer starts with its big-endian encoding. -/
theorem stream_generic (tr : List W32 → List UInt8 → List W32) (s0 : List W32) (buf0 : List UInt8)
    (hb : buf0.length = 64) (pieces : List (List UInt8)) :
    (finishC tr (pieces.foldl (updateC tr) (initC s0 buf0))).state = (blocks (pad pieces.flatten)).foldl tr s0 ∧
    ∃ rest, (finishC tr (pieces.foldl (updateC tr) (initC s0 buf0))).buf
      = digest ((finishC tr (pieces.foldl (updateC tr) (initC s0 buf0))).state.take 8) ++ rest := by
  have hrep := foldl_updateC_rep tr s0 pieces _ _ (initC_rep tr s0 buf0 hb)
  rw [List.nil_append] at hrep
  exact finishC_spec tr s0 _ _ hrep

/-- Chunking independence, generic in the block function: the final state depends on the concatenation only. -/
theorem stream_chunking_state (tr : List W32 → List UInt8 → List W32) (s0 : List W32) (b1 b2 : List UInt8)
    (h1 : b1.length = 64) (h2 : b2.length = 64) (p1 p2 : List (List UInt8)) (h : p1.flatten = p2.flatten) :
    (finishC tr (p1.foldl (updateC tr) (initC s0 b1))).state = (finishC tr (p2.foldl (updateC tr) (initC s0 b2))).state := by
  rw [(stream_generic tr s0 b1 h1 p1).1, (stream_generic tr s0 b2 h2 p2).1, h]

theorem trF_length (s : List W32) (b : List UInt8) : (trF s b).length = 8 := by simp [trF, St.toList]

theorem wordsBE_length (b : List UInt8) : (wordsBE b).length = 16 := by simp [wordsBE]

theorem trC_eq_trF (s : List W32) (b : List UInt8) (hs : s.length = 8) : trC K s b = trF s b :=
  transformC_eq s (wordsBE b) hs (wordsBE_length b)

theorem foldl_trC (bs : List (List UInt8)) : ∀ (s : List W32), s.length = 8 → bs.foldl (trC K) s = bs.foldl trF s := by
  induction bs with
  | nil => intro s _; simp only [List.foldl_nil]
  | cons b t ih =>
    intro s hs
    simp only [List.foldl]
    rw [trC_eq_trF s b hs]
    exact ih _ (trF_length s b)

theorem ofList_toList (x : St) : St.ofList x.toList = x := rfl

theorem toList_ofList (s : List W32) (hs : s.length = 8) : (St.ofList s).toList = s := by
  obtain ⟨t0, t1, t2, t3, t4, t5, t6, t7, rfl⟩ := list8 s hs
  rfl

theorem foldl_trF (bs : List (List UInt8)) : ∀ (s : List W32), s.length = 8 →
    bs.foldl trF s = (bs.foldl (fun H b => compress H (wordsBE b)) (St.ofList s)).toList := by
  induction bs with
  | nil => intro s hs; exact (toList_ofList s hs).symm
  | cons b t ih =>
    intro s hs
    simp only [List.foldl]
    rw [ih _ (trF_length s b)]
    rfl

theorem digest_toList_length (x : St) : (digest x.toList).length = 32 := by
  simp [digest, St.toList, be32bytes]

/-- **The C computation of SHA-256 (init, update over any consecutive pieces, finish) equals FIPS 180-4 SHA-256 of the
    concatenation**, when `SHA256_K` and the initial state are the standard ones. -/
theorem sha256C_eq (buf0 : List UInt8) (hb : buf0.length = 64) (pieces : List (List UInt8)) :
    sha256C K H0 buf0 pieces = sha256 pieces.flatten := by
  obtain ⟨hstate, rest, hbuf⟩ := stream_generic (trC K) H0 buf0 hb pieces
  unfold sha256C sha256
  rw [hbuf, hstate, foldl_trC _ H0 rfl, foldl_trF _ H0 rfl]
  rw [List.take_of_length_le (by simp [St.toList] : (St.toList _).length ≤ 8)]
  rw [List.take_append_of_le_length (by rw [digest_toList_length]; exact Nat.le_refl _),
    List.take_of_length_le (by rw [digest_toList_length]; exact Nat.le_refl _)]

end XzVerif.Sha256
