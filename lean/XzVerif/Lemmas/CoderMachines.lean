/-
  C06, audit finding F-01: the byte-machine slicing theorem instantiated for liblzma's small resumable coders.

  A. generic: slicing independence of `ofByteMachine` including the final state; `Sim` (Model/CoderMachines.lean) transports it to
     a chunk-faithful coder (`Sim.runSliced_map`, `Sim.slicing_independent`, `Sim.settled_eq_whole`).
  B. instances: VLI decoder, field reader, LZMA2 chunk-header machine, Index decoder — each with its `Sim` proof, the
     slicing-independence corollary, and "what every fair slicing computes" = the existing whole-buffer function.
  C. delta coder behind ANY next coder, both directions (`delta_behind_next`).
  D. non-vacuity examples.
-/
import XzVerif.Lemmas.Coder
import XzVerif.Lemmas.CoderSmall
import XzVerif.Model.CoderMachines

namespace XzVerif.Coder
open XzVerif.Vli

/-! ## A. Generic layer -/

section Generic
variable {μ σ : Type}

/-- Slicing independence of a byte machine's coder, final state included: two fair (settled) slicings end with the same output,
    return code, consumed count and the same machine state (and end-of-input flag). -/
theorem ofByteMachine_slicing_independent_state (m : ByteMachine μ) (s₀ : μ) (input : List UInt8) (fin : Bool)
    (sl₁ sl₂ : List (Nat × Nat)) :
    let r₁ := runSliced (Coder.ofByteMachine m) fin sl₁ (Run.init (s₀, false) input)
    let r₂ := runSliced (Coder.ofByteMachine m) fin sl₂ (Run.init (s₀, false) input)
    r₁.settled = true → r₂.settled = true →
      r₁.out = r₂.out ∧ r₁.ret = r₂.ret ∧ r₁.consumed = r₂.consumed ∧ r₁.state = r₂.state := by
  intro r₁ r₂ h₁ h₂
  have i₁ : RunInv m fin s₀ input r₁ := (RunInv.init m fin s₀ input).sliced sl₁
  have i₂ : RunInv m fin s₀ input r₂ := (RunInv.init m fin s₀ input).sliced sl₂
  obtain ⟨q₁, e₁⟩ := i₁.settled h₁
  obtain ⟨q₂, e₂⟩ := i₂.settled h₂
  obtain ⟨ho, hs, he, hr⟩ := i₁.reach.quiescent_unique i₂.reach q₁ q₂
  refine ⟨ho, by rw [e₁, e₂, hs], ?_, Prod.ext hs he⟩
  have l₁ := i₁.len
  have l₂ := i₂.len
  rw [hr] at l₁
  omega

/-! ### `exec` one step at a time -/

theorem exec_done (m : ByteMachine μ) (act : Bool) (st : μ) (eof : Bool) (inp : List UInt8) (cap : Nat) (r : Ret)
    (hs : m.step st = .done r) : m.exec act st eof inp cap = ((st, eof), ⟨0, [], r⟩) := by
  rw [ByteMachine.exec, hs]

theorem exec_read_cons (m : ByteMachine μ) (act : Bool) (st : μ) (eof : Bool) (b : UInt8) (t : List UInt8) (cap : Nat)
    (k : Option UInt8 → μ) (hs : m.step st = .read k) :
    m.exec act st eof (b :: t) cap =
      ((m.exec act (k (some b)) eof t cap).1,
        ⟨(m.exec act (k (some b)) eof t cap).2.consumed + 1, (m.exec act (k (some b)) eof t cap).2.out,
          (m.exec act (k (some b)) eof t cap).2.ret⟩) := by
  rw [ByteMachine.exec, hs]

/-- A machine that stays where it is when told "no more input" reports `LZMA_OK` with nothing done on an empty input. -/
theorem exec_read_nil (m : ByteMachine μ) (act : Bool) (st : μ) (eof : Bool) (cap : Nat)
    (k : Option UInt8 → μ) (hs : m.step st = .read k) (hk : k none = st) :
    (m.exec act st eof [] cap).1.1 = st ∧ (m.exec act st eof [] cap).2 = ⟨0, [], .ok⟩ := by
  rw [ByteMachine.exec, hs]
  simp only
  split
  · rw [hk, ByteMachine.exec, hs]
    simp
  · simp

/-! ### `Sim`: sliced runs of the coder are images of sliced runs of the machine -/

theorem Run.map_init (abs : μ → σ) (s₀ : μ) (input : List UInt8) :
    (Run.init (s₀, false) input).map (fun s : μ × Bool => abs s.1) = Run.init (abs s₀) input := rfl

theorem Sim.runPiece_map {c : Coder σ} {m : ByteMachine μ} {abs : μ → σ} {live : μ → Prop} (h : Sim c m abs live)
    (fin : Bool) (r : Run (μ × Bool)) (inLen cap : Nat) (hl : live r.state.1) :
    runPiece c fin (r.map (fun s : μ × Bool => abs s.1)) inLen cap
      = (runPiece (Coder.ofByteMachine m) fin r inLen cap).map (fun s : μ × Bool => abs s.1)
    ∧ ((runPiece (Coder.ofByteMachine m) fin r inLen cap).ret = .ok → live (runPiece (Coder.ofByteMachine m) fin r inLen cap).state.1) := by
  obtain ⟨st, rest, out, consumed, ret, settled⟩ := r
  have ha : (if (fin && decide (rest.length ≤ inLen)) = true then Action.finish else Action.run) = .run
      ∨ (if (fin && decide (rest.length ≤ inLen)) = true then Action.finish else Action.run) = .finish := by
    split <;> simp
  have hcode := h.code st.1 hl st.2 (rest.take inLen) cap _ ha
  have hlive := h.live st.1 hl st.2 (rest.take inLen) cap _ ha
  simp only [Prod.eta] at hcode hlive
  refine ⟨?_, hlive⟩
  simp only [Run.map]
  simp only [runPiece]
  rw [hcode]

/-- **Under `Sim`, every sliced run of the chunk-faithful coder is the image of the sliced run of the byte machine**, piece by piece,
    for every slicing (any number of pieces, empty pieces, zero capacities). -/
theorem Sim.runSliced_map {c : Coder σ} {m : ByteMachine μ} {abs : μ → σ} {live : μ → Prop} (h : Sim c m abs live)
    (fin : Bool) (sl : List (Nat × Nat)) (r : Run (μ × Bool)) (hl : r.ret = .ok → live r.state.1) :
    runSliced c fin sl (r.map (fun s : μ × Bool => abs s.1))
      = (runSliced (Coder.ofByteMachine m) fin sl r).map (fun s : μ × Bool => abs s.1) := by
  induction sl generalizing r with
  | nil => rfl
  | cons p sl ih =>
    obtain ⟨inLen, cap⟩ := p
    simp only [Coder.runSliced]
    by_cases hr : r.ret = .ok
    · have hr' : (r.map (fun s : μ × Bool => abs s.1)).ret = .ok := hr
      obtain ⟨h1, h2⟩ := h.runPiece_map fin r inLen cap (hl hr)
      simp only [hr, hr', ne_eq, not_true_eq_false, if_false]
      rw [h1]
      exact ih _ h2
    · have hr' : (r.map (fun s : μ × Bool => abs s.1)).ret ≠ .ok := hr
      simp only [ne_eq, hr, hr', not_false_eq_true, if_true]

/-- **Slicing independence of a chunk-faithful coder that is the image of a byte machine.** Started in `abs s₀` with `live s₀`, any
    two slicings (any number of pieces, zero-length pieces and zero capacities allowed) that are both settled end with the same
    output, the same return code, the same number of consumed bytes and the same coder state. -/
theorem Sim.slicing_independent {c : Coder σ} {m : ByteMachine μ} {abs : μ → σ} {live : μ → Prop} (h : Sim c m abs live)
    (s₀ : μ) (hl : live s₀) (input : List UInt8) (fin : Bool) (sl₁ sl₂ : List (Nat × Nat)) :
    let r₁ := runSliced c fin sl₁ (Run.init (abs s₀) input)
    let r₂ := runSliced c fin sl₂ (Run.init (abs s₀) input)
    r₁.settled = true → r₂.settled = true →
      r₁.out = r₂.out ∧ r₁.ret = r₂.ret ∧ r₁.consumed = r₂.consumed ∧ r₁.state = r₂.state := by
  intro r₁ r₂ h₁ h₂
  have e₁ : r₁ = (runSliced (Coder.ofByteMachine m) fin sl₁ (Run.init (s₀, false) input)).map (fun s : μ × Bool => abs s.1) := by
    rw [← h.runSliced_map fin sl₁ _ (fun _ => hl)]; rfl
  have e₂ : r₂ = (runSliced (Coder.ofByteMachine m) fin sl₂ (Run.init (s₀, false) input)).map (fun s : μ × Bool => abs s.1) := by
    rw [← h.runSliced_map fin sl₂ _ (fun _ => hl)]; rfl
  rw [e₁] at h₁ ⊢
  rw [e₂] at h₂ ⊢
  obtain ⟨a, b, c', d⟩ := ofByteMachine_slicing_independent_state m s₀ input fin sl₁ sl₂ h₁ h₂
  exact ⟨a, b, c', by simp only [Run.map]; rw [d]⟩

/-- The one-piece slicing "here is everything, and room for output". -/
theorem runSliced_whole (c : Coder σ) (fin : Bool) (s : σ) (input : List UInt8) (cap : Nat) :
    runSliced c fin [(input.length, cap)] (Run.init s input)
      = runPiece c fin (Run.init s input) input.length cap := by
  simp [Coder.runSliced, Run.init]

/-- **What every fair slicing computes**, for a coder that writes nothing (its result lives in the state): exactly what ONE call on
    the whole buffer reports — same return code, same consumed count, same final state. -/
theorem Sim.settled_eq_whole {c : Coder σ} {m : ByteMachine μ} {abs : μ → σ} {live : μ → Prop} (h : Sim c m abs live)
    (s₀ : μ) (hl : live s₀) (input : List UInt8) (fin : Bool) (sl : List (Nat × Nat))
    (hout : (c.code (abs s₀) input 1 (if fin then .finish else .run)).2.out = []) :
    let R := runSliced c fin sl (Run.init (abs s₀) input)
    let w := c.code (abs s₀) input 1 (if fin then .finish else .run)
    R.settled = true → R.out = [] ∧ R.ret = w.2.ret ∧ R.consumed = w.2.consumed ∧ R.state = w.1 := by
  intro R w hs
  have hw : runSliced c fin [(input.length, 1)] (Run.init (abs s₀) input)
      = { state := w.1, rest := input.drop w.2.consumed, out := [], consumed := w.2.consumed, ret := w.2.ret, settled := true } := by
    rw [runSliced_whole]
    have hact : (if (fin && decide ((Run.init (abs s₀) input).rest.length ≤ input.length)) = true then Action.finish else Action.run)
        = (if fin then Action.finish else Action.run) := by
      simp [Run.init]
    simp only [runPiece, hact]
    simp only [Run.init, List.take_length, List.nil_append, Nat.zero_add, Nat.le_refl, decide_true, Bool.true_and]
    have hout' : (c.code (abs s₀) input 1 (if fin = true then Action.finish else Action.run)).2.out = [] := hout
    simp [hout', w]
  have := h.slicing_independent s₀ hl input fin sl [(input.length, 1)] hs (by rw [hw])
  rw [hw] at this
  exact this

end Generic

/-- Helper to establish `Sim` for coders that ignore the action and machines that ignore `LZMA_FINISH`. -/
theorem Sim.of_exec {μ σ : Type} {c : Coder σ} {m : ByteMachine μ} {abs : μ → σ} {live : μ → Prop}
    (h : ∀ st, live st → ∀ (a : Action) (act eof : Bool) (inp : List UInt8) (cap : Nat),
      c.code (abs st) inp cap a = (abs (m.exec act st eof inp cap).1.1, (m.exec act st eof inp cap).2)
        ∧ ((m.exec act st eof inp cap).2.ret = .ok → live (m.exec act st eof inp cap).1.1)) :
    Sim c m abs live :=
  ⟨fun st hl eof inp cap a _ => (h st hl a (a == .finish) eof inp cap).1,
   fun st hl eof inp cap a _ => (h st hl a (a == .finish) eof inp cap).2⟩

/-! ## B.1 `lzma_vli_decode`, multi-call -/

/-- What the VLI machine does inside one call = `vliDecLoop` on the offered bytes. -/
theorem vli_exec (act : Bool) (v p : Nat) (eof : Bool) (inp : List UInt8) (cap : Nat) :
    (vliMachine.exec act (.reading v p) eof inp cap).1.1
        = (if (vliDecLoop inp v p 0).1 = .ok then VliM.reading (vliDecLoop inp v p 0).2.1 (vliDecLoop inp v p 0).2.2.1
           else VliM.finished (vliDecLoop inp v p 0).1 (vliDecLoop inp v p 0).2.1 (vliDecLoop inp v p 0).2.2.1)
      ∧ (vliMachine.exec act (.reading v p) eof inp cap).2
        = ⟨(vliDecLoop inp v p 0).2.2.2, [], (vliDecLoop inp v p 0).1⟩ := by
  induction inp generalizing v p eof with
  | nil =>
    have := exec_read_nil vliMachine act (.reading v p) eof cap _ rfl rfl
    simpa [vliDecLoop] using this
  | cons b t ih =>
    rw [exec_read_cons vliMachine act (.reading v p) eof b t cap _ rfl]
    simp only [vliDecLoop, vliByte]
    by_cases hb : b.toNat < 128
    · simp only [hb, if_true]
      by_cases hz : b.toNat = 0 ∧ p + 1 > 1
      · simp only [hz, and_self, if_true]
        rw [exec_done vliMachine act _ eof t cap .dataError rfl]
        simp
      · simp only [hz, if_false]
        rw [exec_done vliMachine act _ eof t cap .streamEnd rfl]
        simp
    · simp only [hb, if_false]
      by_cases h9 : p + 1 = VLI_BYTES_MAX
      · simp only [h9, if_true]
        rw [exec_done vliMachine act _ eof t cap .dataError rfl]
        simp
      · simp only [h9, if_false]
        obtain ⟨i1, i2⟩ := ih (v + (b.toNat % 128) <<< (p * 7)) (p + 1) eof
        rw [vliDecLoop_used t _ _ (0 + 1)]
        rw [i1, i2]
        simp

theorem vliDecodeMulti_live (v p : Nat) (hp : p < 9) (hv : v < 2 ^ (7 * p)) (inp : List UInt8) (hi : inp.isEmpty = false) :
    vliDecodeMulti v p inp = vliDecLoop inp v p 0 := by
  have hv0 : (if p = 0 then 0 else v) = v := by
    split
    · rename_i h0; subst h0; simp at hv; omega
    · rfl
  have hz : v >>> (p * 7) = 0 := by
    rw [Nat.shiftRight_eq_div_pow, Nat.mul_comm]
    exact Nat.div_eq_of_lt hv
  have hp9 : ¬ p ≥ VLI_BYTES_MAX := by simp [VLI_BYTES_MAX]; omega
  simp only [vliDecodeMulti, hv0, hp9, hz, hi]
  simp

/-- **The chunk-faithful `lzma_vli_decode` is the image of the VLI byte machine.** -/
theorem vli_sim : Sim vliDecCoder vliMachine VliM.abs VliM.live := by
  apply Sim.of_exec
  intro st hl a act eof inp cap
  cases st with
  | finished r v p => exact absurd hl (by simp [VliM.live])
  | reading v p =>
    obtain ⟨hp, hv⟩ := hl
    obtain ⟨e1, e2⟩ := vli_exec act v p eof inp cap
    rw [e1, e2]
    constructor
    · cases hi : inp.isEmpty with
      | true =>
        have : inp = [] := by simpa using hi
        subst this
        simp [vliDecCoder, VliM.abs, vliDecLoop]
      | false =>
        have hm := vliDecodeMulti_live v p hp hv inp hi
        have hne : inp ≠ [] := by intro h; simp [h] at hi
        by_cases hok : (vliDecLoop inp v p 0).1 = .ok <;> simp [hok, VliM.abs, vliDecCoder, hne, hm]
    · intro hok
      simp only at hok
      simp only [hok, if_true]
      obtain ⟨i1, i2, _⟩ := vliDecLoop_ok_inv inp v p 0 hp hv hok
      exact ⟨i1, i2⟩

/-- **`lzma_vli_decode` is slicing independent**: from a valid resting state `(v, p)` (in particular the initial `(0, 0)`), however
    the bytes arrive — any number of calls, empty calls included — two fair runs end with the same return code, the same number
    of consumed bytes and the same `(vli, vli_pos)`. -/
theorem vli_slicing_independent (v p : Nat) (hp : p < 9) (hv : v < 2 ^ (7 * p)) (input : List UInt8) (fin : Bool)
    (sl₁ sl₂ : List (Nat × Nat)) :
    let r₁ := runSliced vliDecCoder fin sl₁ (Run.init (v, p) input)
    let r₂ := runSliced vliDecCoder fin sl₂ (Run.init (v, p) input)
    r₁.settled = true → r₂.settled = true →
      r₁.out = r₂.out ∧ r₁.ret = r₂.ret ∧ r₁.consumed = r₂.consumed ∧ r₁.state = r₂.state :=
  vli_sim.slicing_independent (.reading v p) ⟨hp, hv⟩ input fin sl₁ sl₂

/-- **What every fair slicing of `lzma_vli_decode` computes** is the specification decoder `Vli.vliDecode` of the whole buffer:
    the run ends with `LZMA_STREAM_END` iff `vliDecode` yields a value, the value is then in the state, and exactly the bytes of
    the integer have been consumed. -/
theorem vli_sliced_eq_vliDecode (input : List UInt8) (fin : Bool) (sl : List (Nat × Nat)) :
    let R := runSliced vliDecCoder fin sl (Run.init (0, 0) input)
    R.settled = true →
      match vliDecode input with
      | some (v, rest) => R.ret = .streamEnd ∧ R.state.1 = v ∧ R.consumed = input.length - rest.length ∧ rest = input.drop R.consumed
      | none => R.ret ≠ .streamEnd := by
  intro R hs
  have hw := vli_sim.settled_eq_whole (.reading 0 0) ⟨by omega, by simp⟩ input fin sl (by simp only [vliDecCoder]; split <;> rfl) hs
  obtain ⟨_, hret, hcons, hstate⟩ := hw
  change R.ret = _ at hret
  change R.consumed = _ at hcons
  change R.state = _ at hstate
  cases hi : input.isEmpty with
  | true =>
    have : input = [] := by simpa using hi
    subst this
    simp only [vliDecCoder, VliM.abs, List.isEmpty_nil, if_true] at hret
    simp [vliDecode, vliDecodeAux, hret]
  | false =>
    simp only [vliDecCoder, VliM.abs, hi, Bool.false_eq_true, if_false,
      vliDecodeMulti_live 0 0 (by omega) (by simp) input hi] at hret hcons hstate
    have h := vliDecLoop_spec input 0 0 0
    simp only [vliDecode]
    cases hd : vliDecodeAux 0 input with
    | none =>
      simp only [hd] at h
      simpa [hret] using h
    | some q =>
      obtain ⟨v, r⟩ := q
      simp only [hd] at h
      obtain ⟨h1, h2, _⟩ := h
      rw [h1] at hret hcons hstate
      simp only [Nat.mul_zero, Nat.pow_zero, Nat.mul_one, Nat.zero_add] at hret hcons hstate
      refine ⟨hret, by rw [hstate], hcons, ?_⟩
      rw [hcons]; exact h2

/-! ## B.2 The `lzma_bufcpy` fixed-size field reader -/

theorem field_exec (size : Nat) (act : Bool) (buf : List UInt8) (eof : Bool) (inp : List UInt8) (cap : Nat) :
    ((fieldMachine size).exec act buf eof inp cap).1.1 = buf ++ inp.take (min inp.length (size - buf.length))
      ∧ ((fieldMachine size).exec act buf eof inp cap).2
        = ⟨min inp.length (size - buf.length), [],
            if (buf ++ inp.take (min inp.length (size - buf.length))).length ≥ size then .streamEnd else .ok⟩ := by
  induction inp generalizing buf eof with
  | nil =>
    by_cases hfull : buf.length ≥ size
    · rw [exec_done _ act buf eof [] cap .streamEnd (if_pos hfull)]
      simp [hfull]
    · have := exec_read_nil (fieldMachine size) act buf eof cap _ (if_neg hfull) rfl
      simpa [hfull] using this
  | cons b t ih =>
    by_cases hfull : buf.length ≥ size
    · rw [exec_done _ act buf eof (b :: t) cap .streamEnd (if_pos hfull)]
      have h0 : size - buf.length = 0 := by omega
      simp [h0, hfull]
    · rw [exec_read_cons _ act buf eof b t cap _ (if_neg hfull)]
      have hmin : min (b :: t).length (size - buf.length) = min t.length (size - (buf ++ [b]).length) + 1 := by
        simp only [List.length_cons, List.length_append, List.length_nil]; omega
      obtain ⟨i1, i2⟩ := ih (buf ++ [b]) eof
      simp only [fieldRead]
      rw [i1, i2, hmin]
      simp [List.append_assoc]

/-- **The field reader is the image of its byte machine** (no invariant needed: a full buffer answers `LZMA_STREAM_END` again). -/
theorem field_sim (size : Nat) : Sim (fieldCoder size) (fieldMachine size) id (fun _ => True) := by
  apply Sim.of_exec
  intro st _ a act eof inp cap
  obtain ⟨e1, e2⟩ := field_exec size act st eof inp cap
  rw [e1, e2]
  exact ⟨rfl, fun _ => trivial⟩

/-- **The field reader is slicing independent**, from any buffer content. -/
theorem field_slicing_independent (size : Nat) (buf : List UInt8) (input : List UInt8) (fin : Bool) (sl₁ sl₂ : List (Nat × Nat)) :
    let r₁ := runSliced (fieldCoder size) fin sl₁ (Run.init buf input)
    let r₂ := runSliced (fieldCoder size) fin sl₂ (Run.init buf input)
    r₁.settled = true → r₂.settled = true →
      r₁.out = r₂.out ∧ r₁.ret = r₂.ret ∧ r₁.consumed = r₂.consumed ∧ r₁.state = r₂.state :=
  (field_sim size).slicing_independent buf trivial input fin sl₁ sl₂

/-- What every fair slicing of the field reader computes: the first `size` bytes of the buffer (all of it if shorter), complete
    (`LZMA_STREAM_END`) iff the input is long enough. -/
theorem field_sliced_eq_whole (size : Nat) (input : List UInt8) (fin : Bool) (sl : List (Nat × Nat)) :
    let R := runSliced (fieldCoder size) fin sl (Run.init [] input)
    R.settled = true →
      R.state = input.take size ∧ R.consumed = min input.length size
        ∧ R.ret = (if size ≤ input.length then .streamEnd else .ok) := by
  intro R hs
  obtain ⟨_, hret, hcons, hstate⟩ := (field_sim size).settled_eq_whole [] trivial input fin sl rfl hs
  change R.ret = _ at hret
  change R.consumed = _ at hcons
  change R.state = _ at hstate
  simp only [fieldCoder, id, List.length_nil, Nat.sub_zero, List.nil_append, List.length_take] at hret hcons hstate
  refine ⟨?_, hcons, ?_⟩
  · rw [hstate, List.take_eq_take_iff]; omega
  · rw [hret]
    by_cases h : size ≤ input.length
    · rw [if_pos (by omega), if_pos h]
    · rw [if_neg (by omega), if_neg h]

/-! ## B.3 LZMA2 chunk-header machine -/

theorem l2Verdict_none_iff (evs : List L2Event) : l2Verdict evs = none ↔ evs.any L2Event.isFinished = false := by
  induction evs with
  | nil => simp [l2Verdict]
  | cons e t ih => cases e <;> simp [l2Verdict, L2Event.isFinished, ih]

theorem l2Verdict_append_of_none (a b : List L2Event) (h : l2Verdict a = none) : l2Verdict (a ++ b) = l2Verdict b := by
  induction a with
  | nil => rfl
  | cons e t ih => cases e <;> simp_all [l2Verdict]

theorem l2_exec (act : Bool) (s : L2State) (evs : List L2Event) (eof : Bool) (inp : List UInt8) (cap : Nat) :
    (l2Machine.exec act (s, evs, none) eof inp cap).1.1
        = ((l2Feed s inp).1, evs ++ (l2Feed s inp).2.1, l2Verdict (l2Feed s inp).2.1)
      ∧ (l2Machine.exec act (s, evs, none) eof inp cap).2
        = ⟨(l2Feed s inp).2.2, [], (l2Verdict (l2Feed s inp).2.1).getD .ok⟩ := by
  induction inp generalizing s evs eof with
  | nil =>
    have := exec_read_nil l2Machine act (s, evs, none) eof cap _ rfl rfl
    simpa [l2Feed, l2Verdict] using this
  | cons b t ih =>
    rw [exec_read_cons l2Machine act (s, evs, none) eof b t cap _ rfl]
    simp only [l2Feed]
    cases hv : l2Verdict (l2Step s b).2 with
    | some r =>
      have hany : (l2Step s b).2.any L2Event.isFinished = true := by
        cases h : (l2Step s b).2.any L2Event.isFinished with
        | true => rfl
        | false => rw [(l2Verdict_none_iff _).2 h] at hv; cases hv
      rw [exec_done l2Machine act _ eof t cap r (by simp [l2Machine])]
      simp [hany, hv]
    | none =>
      have hany : (l2Step s b).2.any L2Event.isFinished = false := (l2Verdict_none_iff _).1 hv
      obtain ⟨i1, i2⟩ := ih (l2Step s b).1 (evs ++ (l2Step s b).2) eof
      rw [i1, i2]
      simp [hany, l2Verdict_append_of_none _ _ hv, List.append_assoc]

/-- **The chunk-faithful LZMA2 header coder is the image of its byte machine** (every state is allowed: after a verdict both repeat
    it without consuming). -/
theorem l2_sim : Sim l2Coder l2Machine id (fun _ => True) := by
  apply Sim.of_exec
  intro st _ a act eof inp cap
  refine ⟨?_, fun _ => trivial⟩
  obtain ⟨s, evs, v⟩ := st
  cases v with
  | some r =>
    rw [exec_done l2Machine act _ eof inp cap r rfl]
    rfl
  | none =>
    obtain ⟨e1, e2⟩ := l2_exec act s evs eof inp cap
    rw [e1, e2]
    rfl

/-- **The LZMA2 chunk-header machine is slicing independent**: however the input is cut, two fair runs end with the same
    `lzma2_decode()` variables, the same event trace (dictionary resets, state resets, properties, chunk sizes, every copied byte,
    every payload byte, the verdict) in the same order, the same return code and the same number of consumed bytes. -/
theorem l2_slicing_independent (st : L2C) (input : List UInt8) (fin : Bool) (sl₁ sl₂ : List (Nat × Nat)) :
    let r₁ := runSliced l2Coder fin sl₁ (Run.init st input)
    let r₂ := runSliced l2Coder fin sl₂ (Run.init st input)
    r₁.settled = true → r₂.settled = true →
      r₁.out = r₂.out ∧ r₁.ret = r₂.ret ∧ r₁.consumed = r₂.consumed ∧ r₁.state = r₂.state :=
  l2_sim.slicing_independent st trivial input fin sl₁ sl₂

/-- What every fair slicing computes: `l2Feed` of the whole buffer. -/
theorem l2_sliced_eq_whole (input : List UInt8) (fin : Bool) (sl : List (Nat × Nat)) :
    let R := runSliced l2Coder fin sl (Run.init L2C.init input)
    R.settled = true →
      R.state.1 = (l2Feed {} input).1 ∧ R.state.2.1 = (l2Feed {} input).2.1 ∧ R.consumed = (l2Feed {} input).2.2
        ∧ R.ret = (l2Verdict (l2Feed {} input).2.1).getD .ok := by
  intro R hs
  obtain ⟨_, hret, hcons, hstate⟩ := l2_sim.settled_eq_whole L2C.init trivial input fin sl rfl hs
  change R.ret = _ at hret
  change R.consumed = _ at hcons
  change R.state = _ at hstate
  rw [hstate, hret, hcons]
  simp [l2Coder, L2C.init]

/-! ## B.4 Index decoder -/

theorem ix_exec (act : Bool) (s : IxState) (eof : Bool) (inp : List UInt8) (cap : Nat) :
    (ixMachine.exec act (s, none) eof inp cap).1.1 = ((ixFeed s inp).1, (ixFeed s inp).2.1)
      ∧ (ixMachine.exec act (s, none) eof inp cap).2 = ⟨(ixFeed s inp).2.2, [], (ixFeed s inp).2.1.getD .ok⟩ := by
  induction inp generalizing s eof with
  | nil =>
    have := exec_read_nil ixMachine act (s, none) eof cap _ rfl rfl
    simpa [ixFeed] using this
  | cons b t ih =>
    rw [exec_read_cons ixMachine act (s, none) eof b t cap _ rfl]
    simp only [ixFeed]
    rcases hstep : ixStep s b with ⟨s', v⟩
    cases v with
    | some r =>
      rw [exec_done ixMachine act _ eof t cap r rfl]
      simp
    | none =>
      obtain ⟨i1, i2⟩ := ih s' eof
      rw [i1, i2]
      simp

/-- **The chunk-faithful Index decoder is the image of its byte machine.** -/
theorem ix_sim : Sim ixCoder ixMachine id (fun _ => True) := by
  apply Sim.of_exec
  intro st _ a act eof inp cap
  refine ⟨?_, fun _ => trivial⟩
  obtain ⟨s, v⟩ := st
  cases v with
  | some r =>
    rw [exec_done ixMachine act _ eof inp cap r rfl]
    rfl
  | none =>
    obtain ⟨e1, e2⟩ := ix_exec act s eof inp cap
    rw [e1, e2]
    rfl

/-- **`index_decode()` is slicing independent**: two fair runs end with the same decoder variables — the same Records, the same
    CRC32 register (every byte entered exactly once), the same position counters —, the same verdict and consumed count. -/
theorem ix_slicing_independent (st : IxState × Option Ret) (input : List UInt8) (fin : Bool) (sl₁ sl₂ : List (Nat × Nat)) :
    let r₁ := runSliced ixCoder fin sl₁ (Run.init st input)
    let r₂ := runSliced ixCoder fin sl₂ (Run.init st input)
    r₁.settled = true → r₂.settled = true →
      r₁.out = r₂.out ∧ r₁.ret = r₂.ret ∧ r₁.consumed = r₂.consumed ∧ r₁.state = r₂.state :=
  ix_sim.slicing_independent st trivial input fin sl₁ sl₂

/-- What every fair slicing computes: `ixFeed` of the whole buffer. -/
theorem ix_sliced_eq_whole (input : List UInt8) (fin : Bool) (sl : List (Nat × Nat)) :
    let R := runSliced ixCoder fin sl (Run.init ({}, none) input)
    R.settled = true →
      R.state = ((ixFeed {} input).1, (ixFeed {} input).2.1) ∧ R.consumed = (ixFeed {} input).2.2
        ∧ R.ret = (ixFeed {} input).2.1.getD .ok := by
  intro R hs
  obtain ⟨_, hret, hcons, hstate⟩ := ix_sim.settled_eq_whole ({}, none) trivial input fin sl rfl hs
  change R.ret = _ at hret
  change R.consumed = _ at hcons
  change R.state = _ at hstate
  rw [hstate, hret, hcons]
  simp [ixCoder]

/-! ## C. Delta behind ANY next coder, both directions

  `delta_decode()` (delta_decoder.c) always has a next coder (`assert(coder->next.code != NULL)`): it calls
  `coder->next.code(…)`, which consumes input and writes into `out[]`, then runs `decode_buffer` over exactly the bytes the next
  coder wrote in this call, and returns the next coder's return code. `delta_encode()` with `next.code != NULL` does the same with
  `encode_in_place`. `deltaNextCoder src enc` (Model/CoderSmall.lean) is that call; `src : Src ν` is an arbitrary next coder.
  The theorem: under EVERY slicing the delta coder's run is, piece by piece, the next coder's run with the delta transform applied
  to the concatenated output — the history carried in `Delta.State` makes the transform of a concatenation the concatenation of
  the per-call transforms. So the delta layer adds no slicing dependence of its own: it is exactly as slicing independent as the
  coder behind it. -/

/-- The relation between the delta coder's run `R` and the bare next coder's run `r` under the same slicing. -/
structure DeltaNextRel {ν : Type} (enc : Bool) (d₀ : Delta.State) (R : Run (Delta.State × ν)) (r : Run ν) : Prop where
  rest : R.rest = r.rest
  consumed : R.consumed = r.consumed
  ret : R.ret = r.ret
  settled : R.settled = r.settled
  next : R.state.2 = r.state
  out : R.out = (if enc then Delta.encode d₀ r.out else Delta.decode d₀ r.out).2
  hist : R.state.1 = (if enc then Delta.encode d₀ r.out else Delta.decode d₀ r.out).1

theorem DeltaNextRel.piece {ν : Type} (src : Src ν) {enc : Bool} {d₀ : Delta.State} (fin : Bool)
    {R : Run (Delta.State × ν)} {r : Run ν} (h : DeltaNextRel enc d₀ R r) (inLen cap : Nat) :
    DeltaNextRel enc d₀ (runPiece (deltaNextCoder src enc) fin R inLen cap) (runPiece (srcCoder src) fin r inLen cap) := by
  obtain ⟨Rs, Rrest, Rout, Rcons, Rret, Rsettled⟩ := R
  obtain ⟨rs, rrest, rout, rcons, rret, rsettled⟩ := r
  obtain ⟨h1, h2, h3, h4, h5, h6, h7⟩ := h
  simp only at h1 h2 h3 h4 h5 h6 h7
  subst h1 h2 h3 h4
  obtain ⟨Rd, Rn⟩ := Rs
  simp only at h5 h7
  subst h5
  cases enc with
  | true =>
    simp only [if_true] at h6 h7
    subst h6 h7
    refine ⟨rfl, rfl, rfl, ?_, rfl, ?_, ?_⟩
    · simp only [runPiece, deltaNextCoder, srcCoder, if_true, Delta.encode, delta_run_length]
      rfl
    · simp only [runPiece, deltaNextCoder, srcCoder, if_true, Delta.encode]
      rw [delta_run_append]
    · simp only [runPiece, deltaNextCoder, srcCoder, if_true, Delta.encode]
      rw [delta_run_append]
  | false =>
    simp only [Bool.false_eq_true, if_false] at h6 h7
    subst h6 h7
    refine ⟨rfl, rfl, rfl, ?_, rfl, ?_, ?_⟩
    · simp only [runPiece, deltaNextCoder, srcCoder, Bool.false_eq_true, if_false, Delta.decode, delta_run_length]
      rfl
    · simp only [runPiece, deltaNextCoder, srcCoder, Bool.false_eq_true, if_false, Delta.decode]
      rw [delta_run_append]
    · simp only [runPiece, deltaNextCoder, srcCoder, Bool.false_eq_true, if_false, Delta.decode]
      rw [delta_run_append]

theorem DeltaNextRel.sliced {ν : Type} (src : Src ν) {enc : Bool} {d₀ : Delta.State} (fin : Bool) (sl : List (Nat × Nat))
    {R : Run (Delta.State × ν)} {r : Run ν} (h : DeltaNextRel enc d₀ R r) :
    DeltaNextRel enc d₀ (runSliced (deltaNextCoder src enc) fin sl R) (runSliced (srcCoder src) fin sl r) := by
  induction sl generalizing R r with
  | nil => exact h
  | cons p sl ih =>
    obtain ⟨inLen, cap⟩ := p
    simp only [runSliced, h.ret]
    split
    · exact h
    · exact ih (h.piece src fin inLen cap)

/-- **Delta behind any next coder, encoder and decoder** (`next.code != NULL`; for the decoder that is the ONLY configuration:
    delta_decoder.c asserts it). For every next coder `src`, direction `enc`, slicing `sl`, `fin`, start `(d₀, n₀)` and input, the
    run `R` of the delta coder and the run `r` of the bare next coder under the SAME slicing agree on the remaining input, the
    consumed count, the return code, settledness and the next coder's state, and the delta coder's output / history are the
    delta transform (started from `d₀`) of everything the next coder has written so far. -/
theorem delta_behind_next {ν : Type} (src : Src ν) (enc : Bool) (sl : List (Nat × Nat)) (fin : Bool) (d₀ : Delta.State) (n₀ : ν)
    (input : List UInt8) :
    let R := runSliced (deltaNextCoder src enc) fin sl (Run.init (d₀, n₀) input)
    let r := runSliced (srcCoder src) fin sl (Run.init n₀ input)
    R.rest = r.rest ∧ R.consumed = r.consumed ∧ R.ret = r.ret ∧ R.settled = r.settled ∧ R.state.2 = r.state
      ∧ R.out = (if enc then Delta.encode d₀ r.out else Delta.decode d₀ r.out).2
      ∧ R.state.1 = (if enc then Delta.encode d₀ r.out else Delta.decode d₀ r.out).1 := by
  intro R r
  have h0 : DeltaNextRel enc d₀ (Run.init (d₀, n₀) input) (Run.init n₀ input) :=
    ⟨rfl, rfl, rfl, rfl, rfl, by cases enc <;> simp [Run.init, Delta.encode, Delta.decode, Delta.run],
      by cases enc <;> simp [Run.init, Delta.encode, Delta.decode, Delta.run]⟩
  have h := h0.sliced src fin sl
  exact ⟨h.rest, h.consumed, h.ret, h.settled, h.next, h.out, h.hist⟩

/-- Corollary: **the delta coder inherits slicing independence from the coder behind it.** If two slicings of the next coder alone
    agree on output, return code and consumed count, the same two slicings of the delta coder (either direction) in front of it
    agree on output, return code and consumed count. -/
theorem delta_behind_next_slicing {ν : Type} (src : Src ν) (enc : Bool) (fin : Bool) (d₀ : Delta.State) (n₀ : ν)
    (input : List UInt8) (sl₁ sl₂ : List (Nat × Nat)) :
    let r₁ := runSliced (srcCoder src) fin sl₁ (Run.init n₀ input)
    let r₂ := runSliced (srcCoder src) fin sl₂ (Run.init n₀ input)
    let R₁ := runSliced (deltaNextCoder src enc) fin sl₁ (Run.init (d₀, n₀) input)
    let R₂ := runSliced (deltaNextCoder src enc) fin sl₂ (Run.init (d₀, n₀) input)
    r₁.out = r₂.out ∧ r₁.ret = r₂.ret ∧ r₁.consumed = r₂.consumed →
      R₁.out = R₂.out ∧ R₁.ret = R₂.ret ∧ R₁.consumed = R₂.consumed ∧ R₁.state.1 = R₂.state.1 := by
  intro r₁ r₂ R₁ R₂ ⟨ho, hr, hc⟩
  obtain ⟨_, a2, a3, _, _, a6, a7⟩ := delta_behind_next src enc sl₁ fin d₀ n₀ input
  obtain ⟨_, b2, b3, _, _, b6, b7⟩ := delta_behind_next src enc sl₂ fin d₀ n₀ input
  change R₁.consumed = r₁.consumed at a2
  change R₁.ret = r₁.ret at a3
  change R₁.out = _ at a6
  change R₁.state.1 = _ at a7
  change R₂.consumed = r₂.consumed at b2
  change R₂.ret = r₂.ret at b3
  change R₂.out = _ at b6
  change R₂.state.1 = _ at b7
  refine ⟨?_, by rw [a3, b3, hr], by rw [a2, b2, hc], ?_⟩
  · rw [a6, b6]; exact congrArg (fun o => (if enc then Delta.encode d₀ o else Delta.decode d₀ o).2) ho
  · rw [a7, b7]; exact congrArg (fun o => (if enc then Delta.encode d₀ o else Delta.decode d₀ o).1) ho

/-! ## D. Non-vacuity -/

/-- what is compared below -/
def showRun' {σ : Type} (r : Run σ) : Ret × Nat × Bool := (r.ret, r.consumed, r.settled)

/-- VLI: 2^35+5 takes six bytes; a trailing byte stays unread. Whole, and byte-at-a-time with empty pieces in between. -/
example : (fun r => (showRun' r, r.state.1)) (runSliced vliDecCoder true [(100, 1)] (Run.init (0, 0) [0x85, 0x80, 0x80, 0x80, 0x80, 0x01, 0x77]))
    = ((.streamEnd, 6, true), 2 ^ 35 + 5) := by decide +kernel
example : (fun r => (showRun' r, r.state.1)) (runSliced vliDecCoder true
      [(1, 0), (0, 0), (1, 1), (0, 3), (1, 0), (1, 0), (0, 0), (0, 0), (1, 0), (1, 0), (1, 0)]
      (Run.init (0, 0) [0x85, 0x80, 0x80, 0x80, 0x80, 0x01, 0x77]))
    = ((.streamEnd, 6, true), 2 ^ 35 + 5) := by decide +kernel
/-- a truncated VLI settles with `LZMA_OK` (needs more input), a non-minimal one with `LZMA_DATA_ERROR` -/
example : showRun' (runSliced vliDecCoder true [(1, 1), (0, 1), (5, 1)] (Run.init (0, 0) [0x85, 0x80])) = (.ok, 2, true) := by
  decide +kernel
example : showRun' (runSliced vliDecCoder true [(1, 1), (1, 1), (1, 1)] (Run.init (0, 0) [0x85, 0x80, 0x00])) = (.dataError, 3, true) := by
  decide +kernel

/-- Field reader: 4 of 6 bytes. -/
example : (fun r => (showRun' r, r.state)) (runSliced (fieldCoder 4) true [(1, 0), (0, 5), (2, 1), (9, 9)] (Run.init [] [1, 2, 3, 4, 5, 6]))
    = ((.streamEnd, 4, true), [1, 2, 3, 4]) := by decide +kernel

/-- Index: a real Index (two Records, two padding bytes, CRC32) whole and in ragged pieces cut inside a VLI and inside the CRC32. -/
example : showRun' (runSliced ixCoder true [(100, 1)]
      (Run.init ({}, none) [0x00, 0x02, 0x11, 0x05, 0x92, 0x01, 0x06, 0x00, 0x90, 0x74, 0x06, 0xB2])) = (.streamEnd, 12, true) := by
  decide +kernel
example : (fun r => (showRun' r, r.state.1.records)) (runSliced ixCoder true [(5, 0), (0, 0), (1, 1), (3, 0), (0, 1), (2, 0), (7, 7)]
      (Run.init ({}, none) [0x00, 0x02, 0x11, 0x05, 0x92, 0x01, 0x06, 0x00, 0x90, 0x74, 0x06, 0xB2]))
    = ((.streamEnd, 12, true), [(146, 6), (17, 5)]) := by decide +kernel
/-- a wrong CRC32 byte: same verdict, same position under both slicings -/
example : showRun' (runSliced ixCoder true [(4, 0), (4, 0), (1, 0), (1, 0), (1, 0), (1, 0)]
      (Run.init ({}, none) [0x00, 0x02, 0x11, 0x05, 0x92, 0x01, 0x06, 0x00, 0x90, 0x74, 0x05, 0xB2])) = (.dataError, 11, true) := by
  decide +kernel

/-- LZMA2: an uncompressed chunk with dictionary reset, then the end marker: byte-at-a-time gives the same event list as whole. -/
example : (fun r => (showRun' r, r.state.2.1)) (runSliced l2Coder true [(100, 1)] (Run.init L2C.init [0x01, 0x00, 0x02, 0x41, 0x42, 0x43, 0x00]))
    = ((.streamEnd, 7, true),
       [.dictReset, .chunkSizes false 3 3, .copyByte 0x41, .copyByte 0x42, .copyByte 0x43, .finished .streamEnd]) := by decide +kernel
example : (fun r => (showRun' r, r.state.2.1)) (runSliced l2Coder true [(1, 0), (1, 0), (0, 0), (1, 0), (1, 1), (1, 0), (1, 0), (0, 1), (1, 0)]
      (Run.init L2C.init [0x01, 0x00, 0x02, 0x41, 0x42, 0x43, 0x00]))
    = ((.streamEnd, 7, true),
       [.dictReset, .chunkSizes false 3 3, .copyByte 0x41, .copyByte 0x42, .copyByte 0x43, .finished .streamEnd]) := by decide +kernel

/-- Delta decoder (distance 1) behind the harness stub next coder (ends after 4 bytes): ragged slicing = whole. -/
example : (runSliced (deltaNextCoder Src.stub false) true [(1, 1), (0, 0), (2, 1), (2, 2), (9, 9)]
      (Run.init (Delta.State.init 1, (4, false)) [1, 1, 1, 1, 9])).out = [1, 2, 3, 4] := by decide +kernel
example : (runSliced (deltaNextCoder Src.stub false) true [(9, 9)]
      (Run.init (Delta.State.init 1, (4, false)) [1, 1, 1, 1, 9])).out = [1, 2, 3, 4] := by decide +kernel

end XzVerif.Coder
