/-
  C01, executable decoder ↔ specification decoder, part 1: the range-decoder level.

  `View s ps rc rest` reads the decoder state `s : Lzma.St` of Model/Lzma.lean as the triple the `List`-level decoder
  cores work on (probabilities, (range, code), unread input). For every bit-level helper of the executable decoder
  (`rcNormalize`, `rcBit`, `rcDirect`, `bittree`, `litMatched`, `revBittree`, `revAlign`) we show: if the
  specification tree (`Prog`, with its contexts renamed by `g`) run by `Prog.runRc` on the viewed triple succeeds, the
  executable helper succeeds on `s`, returns the same value and ends in `rcSet s ps' rc' |rest'|` — the same state with
  the new triple. `g` is the fixed context renaming between the encoder's and the decoder's probability indexing
  (position shift, `rc_bittree_rev4` index order), see Lemmas/LzmaCtxMap.lean.
-/
import XzVerif.Model.LzmaSymDec
import XzVerif.Model.Lzma
import XzVerif.Lemmas.LzmaSymLit

namespace XzVerif.LzmaSymDec.Prog

/-- rename the probability contexts a tree asks for -/
def mapCtx {α : Type} (g : Nat → Nat) : Prog α → Prog α
  | .ret a => .ret a
  | .bit c k => .bit (g c) fun b => (k b).mapCtx g
  | .direct k => .direct fun b => (k b).mapCtx g
  | .fail => .fail

theorem mapCtx_bind {α β : Type} (g : Nat → Nat) (x : Prog α) (f : α → Prog β) :
    (x.bind f).mapCtx g = (x.mapCtx g).bind fun a => (f a).mapCtx g := by
  induction x with
  | ret a => rfl
  | bit c k ih => simp only [Prog.bind, mapCtx, ih]
  | direct k ih => simp only [Prog.bind, mapCtx, ih]
  | fail => rfl

theorem runRc_bind {α β : Type} (x : Prog α) (f : α → Prog β) (ps : RangeEnc.Probs) (rc : RangeDec.Rc) (rest : List UInt8) :
    (x.bind f).runRc ps rc rest = (x.runRc ps rc rest).bind fun r => (f r.1).runRc r.2.1 r.2.2.1 r.2.2.2 := by
  induction x generalizing ps rc rest with
  | ret a => simp [Prog.bind, Prog.runRc]
  | bit c k ih =>
    simp only [Prog.bind, Prog.runRc]
    cases RangeDec.decodeBitL rc (ps.getD c 0) rest with
    | none => rfl
    | some r => obtain ⟨b, rc', p', rest'⟩ := r; simp only [ih]
  | direct k ih =>
    simp only [Prog.bind, Prog.runRc]
    cases RangeDec.normalizeL rc rest with
    | none => rfl
    | some r => obtain ⟨rc1, rest1⟩ := r; simp only [ih]
  | fail => simp [Prog.bind, Prog.runRc]

/-- the unread input after a run is a suffix of the unread input before -/
theorem runRc_suffix {α : Type} (x : Prog α) : ∀ (ps : RangeEnc.Probs) (rc : RangeDec.Rc) (rest : List UInt8) a ps' rc' rest',
    x.runRc ps rc rest = some (a, ps', rc', rest') → ∃ pre, rest = pre ++ rest' := by
  induction x with
  | ret a0 =>
    intro ps rc rest a ps' rc' rest' h
    simp only [Prog.runRc, Option.some.injEq, Prod.mk.injEq] at h
    exact ⟨[], by simp [h.2.2.2]⟩
  | bit c k ih =>
    intro ps rc rest a ps' rc' rest' h
    simp only [Prog.runRc] at h
    cases hd : RangeDec.decodeBitL rc (ps.getD c 0) rest with
    | none => rw [hd] at h; cases h
    | some r =>
      obtain ⟨b, rc1, p1, rest1⟩ := r
      rw [hd] at h
      obtain ⟨pre, hpre⟩ := ih _ _ _ _ _ _ _ _ h
      simp only [RangeDec.decodeBitL] at hd
      cases hn : RangeDec.normalizeL rc rest with
      | none => rw [hn] at hd; cases hd
      | some q =>
        obtain ⟨rc2, rest2⟩ := q
        rw [hn] at hd
        simp only [Option.some.injEq, Prod.mk.injEq] at hd
        obtain ⟨_, _, _, rfl⟩ := hd
        simp only [RangeDec.normalizeL] at hn
        split at hn
        · cases rest with
          | nil => cases hn
          | cons b0 r0 =>
            simp only [Option.some.injEq, Prod.mk.injEq] at hn
            exact ⟨b0 :: pre, by rw [← hn.2] at hpre; simp [hpre]⟩
        · simp only [Option.some.injEq, Prod.mk.injEq] at hn
          exact ⟨pre, by rw [← hn.2] at hpre; exact hpre⟩
  | direct k ih =>
    intro ps rc rest a ps' rc' rest' h
    simp only [Prog.runRc] at h
    cases hn : RangeDec.normalizeL rc rest with
    | none => rw [hn] at h; cases h
    | some q =>
      obtain ⟨rc2, rest2⟩ := q
      rw [hn] at h
      obtain ⟨pre, hpre⟩ := ih _ _ _ _ _ _ _ _ h
      simp only [RangeDec.normalizeL] at hn
      split at hn
      · cases rest with
        | nil => cases hn
        | cons b0 r0 =>
          simp only [Option.some.injEq, Prod.mk.injEq] at hn
          exact ⟨b0 :: pre, by rw [← hn.2] at hpre; simp [hpre]⟩
      · simp only [Option.some.injEq, Prod.mk.injEq] at hn
        exact ⟨pre, by rw [← hn.2] at hpre; exact hpre⟩
  | fail =>
    intro ps rc rest a ps' rc' rest' h
    simp [Prog.runRc] at h

end XzVerif.LzmaSymDec.Prog

namespace XzVerif.LzmaExec
open XzVerif.RangeDec XzVerif.RangeEnc XzVerif.Lzma XzVerif.LzmaEnc XzVerif.LzmaSymDec

/-! ### running `M` programs -/

theorem bind_ok {α β : Type} {x : M α} {f : α → M β} {s s' : St} {a : α} (h : x s = .ok a s') :
    (x >>= f) s = f a s' := by
  show EStateM.bind x f s = _
  unfold EStateM.bind; rw [h]

theorem bind_err {α β : Type} {x : M α} {f : α → M β} {s s' : St} {e : Exit} (h : x s = .error e s') :
    (x >>= f) s = .error e s' := by
  show EStateM.bind x f s = _
  unfold EStateM.bind; rw [h]

theorem pure_run {α : Type} (a : α) (s : St) : (pure a : M α) s = .ok a s := rfl

theorem modify_run (f : St → St) (s : St) : (modify f : M PUnit) s = .ok ⟨⟩ (f s) := rfl

theorem throw_run {α : Type} (e : Exit) (s : St) : (throw e : M α) s = .error e s := rfl

/-! ### the view -/

/-- the decoder state seen as (probabilities, range coder, unread input) -/
structure View (s : St) (ps : Probs) (rc : Rc) (rest : List UInt8) : Prop where
  probs : s.probs = ps
  range : s.range = rc.range
  code : s.code = rc.code
  pos : s.inPos + rest.length = s.inp.size
  rest : rest = s.inp.data.toList.drop s.inPos

/-- the same decoder state with a new (probabilities, range coder, unread input of length `n`) -/
def rcSet (s : St) (ps : Probs) (rc : Rc) (n : Nat) : St :=
  { s with probs := ps, range := rc.range, code := rc.code, inPos := s.inp.size - n }

theorem rcSet_self {s : St} {ps : Probs} {rc : Rc} {rest : List UInt8} (h : View s ps rc rest) :
    rcSet s ps rc rest.length = s := by
  obtain ⟨h1, h2, h3, h4, _⟩ := h
  have : s.inp.size - rest.length = s.inPos := by omega
  cases s
  simp only [rcSet] at *
  subst h1; subst h2; subst h3
  rw [this]

theorem rcSet_rcSet (s : St) (ps ps' : Probs) (rc rc' : Rc) (n n' : Nat) :
    rcSet (rcSet s ps rc n) ps' rc' n' = rcSet s ps' rc' n' := rfl

theorem view_rcSet {s : St} {ps : Probs} {rc : Rc} {rest : List UInt8} (h : View s ps rc rest)
    (ps' : Probs) (rc' : Rc) {pre rest' : List UInt8} (hs : rest = pre ++ rest') :
    View (rcSet s ps' rc' rest'.length) ps' rc' rest' := by
  obtain ⟨_, _, _, h4, h5⟩ := h
  have hl : rest.length = pre.length + rest'.length := by rw [hs]; simp
  refine ⟨rfl, rfl, rfl, ?_, ?_⟩
  · simp only [rcSet]; omega
  · simp only [rcSet]
    have e : s.inp.size - rest'.length = s.inPos + pre.length := by omega
    rw [e, ← List.drop_drop, ← h5, hs]
    simp

/-- the view only looks at the range-coder fields and the input -/
theorem View.congr {s t : St} {ps : Probs} {rc : Rc} {rest : List UInt8} (h : View s ps rc rest)
    (h1 : t.probs = s.probs) (h2 : t.range = s.range) (h3 : t.code = s.code) (h4 : t.inPos = s.inPos) (h5 : t.inp = s.inp) :
    View t ps rc rest :=
  ⟨h1.trans h.probs, h2.trans h.range, h3.trans h.code, by rw [h4, h5]; exact h.pos, by rw [h4, h5]; exact h.rest⟩

/-! ### rc_normalize, rc_bit, rc_direct -/

theorem normalizeL_suffix {rc rc' : Rc} {rest rest' : List UInt8} (h : normalizeL rc rest = some (rc', rest')) :
    ∃ pre, rest = pre ++ rest' := by
  simp only [normalizeL] at h
  split at h
  · cases rest with
    | nil => cases h
    | cons b0 r0 =>
      simp only [Option.some.injEq, Prod.mk.injEq] at h
      exact ⟨[b0], by rw [← h.2]; rfl⟩
  · simp only [Option.some.injEq, Prod.mk.injEq] at h
    exact ⟨[], by rw [← h.2]; rfl⟩

theorem rcNormalize_run {s : St} {ps : Probs} {rc rc' : Rc} {rest rest' : List UInt8} (hv : View s ps rc rest)
    (h : normalizeL rc rest = some (rc', rest')) : rcNormalize s = .ok () (rcSet s ps rc' rest'.length) := by
  obtain ⟨h1, h2, h3, h4, h5⟩ := hv
  unfold rcNormalize
  simp only [normalizeL, Rc.needsByte, decide_eq_true_eq] at h
  by_cases hr : rc.range < RC_TOP_VALUE
  · rw [if_pos hr] at h
    cases rest with
    | nil => cases h
    | cons b0 r0 =>
      simp only [Option.some.injEq, Prod.mk.injEq] at h
      obtain ⟨rfl, rfl⟩ := h
      have hlt : s.inPos < s.inp.size := by simp at h4; omega
      have hlt' : s.inPos < s.inp.data.toList.length := by simpa using hlt
      have hb : s.inp[s.inPos] = b0 := by
        have := List.drop_eq_getElem_cons hlt'
        rw [← h5] at this
        simp only [List.cons.injEq] at this
        show s.inp.data[s.inPos] = b0
        rw [this.1]; simp
      rw [if_pos (by rw [h2]; exact hr), dif_pos hlt, hb]
      have e : s.inp.size - r0.length = s.inPos + 1 := by simp at h4; omega
      simp only [rcSet, e]
      cases s
      simp only at h1 h2 h3 ⊢
      subst h1; subst h2; subst h3
      rfl
  · rw [if_neg hr] at h
    simp only [Option.some.injEq, Prod.mk.injEq] at h
    obtain ⟨rfl, rfl⟩ := h
    rw [if_neg (by rw [h2]; exact hr)]
    rw [rcSet_self ⟨h1, h2, h3, h4, h5⟩]

theorem bitCore_le (rc : Rc) (p : Nat) : (bitCore rc p).1 ≤ 1 := by
  unfold bitCore; dsimp only; split <;> simp

theorem decodeBitL_suffix {rc rc' : Rc} {p p' b : Nat} {rest rest' : List UInt8}
    (h : decodeBitL rc p rest = some (b, rc', p', rest')) : (∃ pre, rest = pre ++ rest') ∧ b ≤ 1 := by
  simp only [decodeBitL] at h
  cases hn : normalizeL rc rest with
  | none => rw [hn] at h; cases h
  | some q =>
    obtain ⟨rc2, rest2⟩ := q
    rw [hn] at h
    simp only [Option.some.injEq, Prod.mk.injEq] at h
    obtain ⟨hb, _, _, rfl⟩ := h
    exact ⟨normalizeL_suffix hn, by rw [← hb]; exact bitCore_le _ _⟩

theorem rcBit_run {s : St} {ps : Probs} {rc rc' : Rc} {rest rest' : List UInt8} {idx b p' : Nat} (hv : View s ps rc rest)
    (h : decodeBitL rc (ps.getD idx 0) rest = some (b, rc', p', rest')) :
    rcBit idx s = .ok b (rcSet s (ps.setIfInBounds idx p') rc' rest'.length) := by
  simp only [decodeBitL] at h
  cases hn : normalizeL rc rest with
  | none => rw [hn] at h; cases h
  | some q =>
    obtain ⟨rc2, rest2⟩ := q
    rw [hn] at h
    simp only [Option.some.injEq, Prod.mk.injEq] at h
    obtain ⟨hb, hrc, hp, rfl⟩ := h
    unfold rcBit
    rw [rcNormalize_run hv hn]
    simp only [rcSet, St.setProb]
    rw [← hb, ← hrc, ← hp]

theorem b2n_le {b : Nat} (h : b ≤ 1) : b2n (b == 1) = b := by
  have : b = 0 ∨ b = 1 := by omega
  rcases this with rfl | rfl <;> rfl

theorem beq_one_toNat {b : Nat} (h : b ≤ 1) : (b == 0) = !(b == 1) := by
  have : b = 0 ∨ b = 1 := by omega
  rcases this with rfl | rfl <;> rfl

/-! ### bit trees: executable helper vs specification tree under a context renaming that translates the block -/

theorem bittree_run (g : Nat → Nat) (base base' B : Nat) (hg : ∀ j, j < B → g (base + j) = base' + j) :
    ∀ (n m : Nat) (s : St) (ps : Probs) (rc : Rc) (rest : List UInt8) (v : Nat) (ps' : Probs) (rc' : Rc) (rest' : List UInt8),
      (m + 1) * 2 ^ n ≤ 2 * B → View s ps rc rest →
      ((pBittree base n m).mapCtx g).runRc ps rc rest = some (v, ps', rc', rest') →
      bittree base' n m s = .ok v (rcSet s ps' rc' rest'.length)
  | 0, m, s, ps, rc, rest, v, ps', rc', rest', _, hv, h => by
    simp only [pBittree, Prog.mapCtx, Prog.runRc, Option.some.injEq, Prod.mk.injEq] at h
    obtain ⟨rfl, rfl, rfl, rfl⟩ := h
    rw [rcSet_self hv]; rfl
  | n + 1, m, s, ps, rc, rest, v, ps', rc', rest', hB, hv, h => by
    simp only [pBittree, Prog.mapCtx, Prog.runRc] at h
    have hm : m < B := by
      have : 2 ≤ 2 ^ (n + 1) := by
        calc 2 = 2 ^ 1 := rfl
          _ ≤ 2 ^ (n + 1) := Nat.pow_le_pow_right (by decide) (by omega)
      nlinarith
    rw [hg m hm] at h
    cases hd : decodeBitL rc (ps.getD (base' + m) 0) rest with
    | none => rw [hd] at h; cases h
    | some r =>
      obtain ⟨b, rc1, p1, rest1⟩ := r
      rw [hd] at h
      obtain ⟨⟨pre, hpre⟩, hb⟩ := decodeBitL_suffix hd
      simp only [] at h
      rw [b2n_le hb] at h
      unfold bittree
      rw [bind_ok (rcBit_run hv hd)]
      have e : m * 2 + b = 2 * m + b := by omega
      rw [e]
      have := bittree_run g base base' B hg n (2 * m + b) _ _ _ _ v ps' rc' rest'
        (by rw [pow_succ] at hB; nlinarith) (view_rcSet hv _ rc1 hpre) h
      rw [this, rcSet_rcSet]

theorem litMatched_run (g : Nat → Nat) (base base' : Nat) (hg : ∀ j, j < 768 → g (base + j) = base' + j) :
    ∀ (n sym offset mb : Nat) (s : St) (ps : Probs) (rc : Rc) (rest : List UInt8) (v : Nat) (ps' : Probs) (rc' : Rc)
      (rest' : List UInt8),
      (offset = 0 ∨ offset = 256) → (sym + 1) * 2 ^ n ≤ 512 → View s ps rc rest →
      ((pLitMatched base n sym offset mb).mapCtx g).runRc ps rc rest = some (v, ps', rc', rest') →
      litMatched base' n sym offset (mb * 2) s = .ok v (rcSet s ps' rc' rest'.length)
  | 0, sym, offset, mb, s, ps, rc, rest, v, ps', rc', rest', _, _, hv, h => by
    simp only [pLitMatched, Prog.mapCtx, Prog.runRc, Option.some.injEq, Prod.mk.injEq] at h
    obtain ⟨rfl, rfl, rfl, rfl⟩ := h
    rw [rcSet_self hv]; rfl
  | n + 1, sym, offset, mb, s, ps, rc, rest, v, ps', rc', rest', ho, hB, hv, h => by
    simp only [pLitMatched, Prog.mapCtx, Prog.runRc] at h
    have hmb : mb * 2 &&& offset = 0 ∨ mb * 2 &&& offset = offset := by
      rcases ho with rfl | rfl
      · left; simp
      · exact LzmaSym.and_256 _
    have hsym : sym < 256 := by
      have : 2 ≤ 2 ^ (n + 1) := by
        calc 2 = 2 ^ 1 := rfl
          _ ≤ 2 ^ (n + 1) := Nat.pow_le_pow_right (by decide) (by omega)
      nlinarith
    have hidx : offset + (mb * 2 &&& offset) + sym < 768 := by
      rcases ho with rfl | rfl <;> rcases hmb with h0 | h0 <;> rw [h0] <;> omega
    have hctx : g (base + offset + (mb * 2 &&& offset) + sym) = base' + offset + (mb * 2 &&& offset) + sym := by
      have := hg _ hidx
      simp only [← Nat.add_assoc] at this
      exact this
    rw [hctx] at h
    cases hd : decodeBitL rc (ps.getD (base' + offset + (mb * 2 &&& offset) + sym) 0) rest with
    | none => rw [hd] at h; cases h
    | some r =>
      obtain ⟨b, rc1, p1, rest1⟩ := r
      rw [hd] at h
      obtain ⟨⟨pre, hpre⟩, hb⟩ := decodeBitL_suffix hd
      simp only [] at h
      rw [b2n_le hb] at h
      unfold litMatched
      simp only []
      rw [bind_ok (rcBit_run hv hd)]
      have e : sym * 2 + b = 2 * sym + b := by omega
      have eo : (if (b == 0) = true then offset ^^^ (mb * 2 &&& offset) else mb * 2 &&& offset)
          = (if (b == 1) = true then mb * 2 &&& offset else offset ^^^ (mb * 2 &&& offset)) := by
        have : b = 0 ∨ b = 1 := by omega
        rcases this with rfl | rfl <;> rfl
      rw [e, eo]
      have ho' : (if (b == 1) = true then mb * 2 &&& offset else offset ^^^ (mb * 2 &&& offset)) = 0 ∨
          (if (b == 1) = true then mb * 2 &&& offset else offset ^^^ (mb * 2 &&& offset)) = 256 := by
        rcases ho with rfl | rfl
        · left; simp
        · rcases hmb with h0 | h0 <;> rw [h0] <;> split <;> simp
      have := litMatched_run g base base' hg n (2 * sym + b) _ (mb * 2) _ _ _ _ v ps' rc' rest' ho'
        (by rw [pow_succ] at hB; nlinarith) (view_rcSet hv _ rc1 hpre) h
      rw [this, rcSet_rcSet]

theorem revBittree_run (g : Nat → Nat) (base base' B : Nat) (hg : ∀ j, j < B → g (base + j) = base' + j) :
    ∀ (n m sh acc : Nat) (s : St) (ps : Probs) (rc : Rc) (rest : List UInt8) (v : Nat) (ps' : Probs) (rc' : Rc)
      (rest' : List UInt8),
      (m + 1) * 2 ^ n ≤ 2 * B → View s ps rc rest →
      ((pBittreeRev base n m sh acc).mapCtx g).runRc ps rc rest = some (v, ps', rc', rest') →
      revBittree base' n m sh acc s = .ok v (rcSet s ps' rc' rest'.length)
  | 0, m, sh, acc, s, ps, rc, rest, v, ps', rc', rest', _, hv, h => by
    simp only [pBittreeRev, Prog.mapCtx, Prog.runRc, Option.some.injEq, Prod.mk.injEq] at h
    obtain ⟨rfl, rfl, rfl, rfl⟩ := h
    rw [rcSet_self hv]; rfl
  | n + 1, m, sh, acc, s, ps, rc, rest, v, ps', rc', rest', hB, hv, h => by
    simp only [pBittreeRev, Prog.mapCtx, Prog.runRc] at h
    have hm : m < B := by
      have : 2 ≤ 2 ^ (n + 1) := by
        calc 2 = 2 ^ 1 := rfl
          _ ≤ 2 ^ (n + 1) := Nat.pow_le_pow_right (by decide) (by omega)
      nlinarith
    rw [hg m hm] at h
    cases hd : decodeBitL rc (ps.getD (base' + m) 0) rest with
    | none => rw [hd] at h; cases h
    | some r =>
      obtain ⟨b, rc1, p1, rest1⟩ := r
      rw [hd] at h
      obtain ⟨⟨pre, hpre⟩, hb⟩ := decodeBitL_suffix hd
      simp only [] at h
      rw [b2n_le hb] at h
      unfold revBittree
      rw [bind_ok (rcBit_run hv hd)]
      have e : m * 2 + b = 2 * m + b := by omega
      have e2 : b <<< sh = b * 2 ^ sh := Nat.shiftLeft_eq _ _
      rw [e, e2]
      have := revBittree_run g base base' B hg n (2 * m + b) _ _ _ _ _ _ v ps' rc' rest'
        (by rw [pow_succ] at hB; nlinarith) (view_rcSet hv _ rc1 hpre) h
      rw [this, rcSet_rcSet]

theorem directCore_le (rc : Rc) : (directCore rc).1 ≤ 1 := by
  unfold directCore
  simp only [U32]
  by_cases hs : (rc.code + 4294967296 - rc.range / 2) % 4294967296 / 2147483648 = 1
  · simp only [hs, if_true]; omega
  · simp only [hs, if_false]; omega

/-- one iteration of `rc_direct` after the normalisation -/
def directStep : M Nat := fun s =>
  let r := directCore (Rc.mk s.range s.code)
  EStateM.Result.ok r.1 { s with range := r.2.range, code := r.2.code }

theorem rcDirect_succ (n acc : Nat) :
    rcDirect (n + 1) acc = (rcNormalize >>= fun _ => directStep >>= fun b => rcDirect n ((acc * 2 + b) % U32)) := rfl

theorem directStep_run (s : St) (ps : Probs) (rc : Rc) (n : Nat) :
    directStep (rcSet s ps rc n) = .ok (directCore rc).1 (rcSet s ps (directCore rc).2 n) := rfl

/-- `rc_direct` (the wrap-around form, accumulating modulo 2^32) vs `n` direct bits of the specification -/
theorem rcDirect_run (g : Nat → Nat) :
    ∀ (n acc : Nat) (s : St) (ps : Probs) (rc : Rc) (rest : List UInt8) (v : Nat) (ps' : Probs) (rc' : Rc) (rest' : List UInt8),
      View s ps rc rest → (acc + 1) * 2 ^ n ≤ U32 →
      ((pDirectBits n acc).mapCtx g).runRc ps rc rest = some (v, ps', rc', rest') →
      rcDirect n acc s = .ok v (rcSet s ps' rc' rest'.length)
  | 0, acc, s, ps, rc, rest, v, ps', rc', rest', hv, _, h => by
    simp only [pDirectBits, Prog.mapCtx, Prog.runRc, Option.some.injEq, Prod.mk.injEq] at h
    obtain ⟨rfl, rfl, rfl, rfl⟩ := h
    rw [rcSet_self hv]; rfl
  | n + 1, acc, s, ps, rc, rest, v, ps', rc', rest', hv, hB, h => by
    simp only [pDirectBits, Prog.mapCtx, Prog.runRc] at h
    cases hn : normalizeL rc rest with
    | none => rw [hn] at h; cases h
    | some q =>
      obtain ⟨rc1, rest1⟩ := q
      rw [hn] at h
      simp only [] at h
      obtain ⟨pre, hpre⟩ := normalizeL_suffix hn
      have hb : (directCore rc1).1 ≤ 1 := directCore_le rc1
      rw [b2n_le hb] at h
      rw [rcDirect_succ, bind_ok (rcNormalize_run hv hn), bind_ok (directStep_run _ _ _ _)]
      have hp : 2 ≤ 2 ^ (n + 1) := by
        calc 2 = 2 ^ 1 := rfl
          _ ≤ 2 ^ (n + 1) := Nat.pow_le_pow_right (by decide) (by omega)
      have hsmall : (acc * 2 + (directCore rc1).1) % U32 = 2 * acc + (directCore rc1).1 := by
        rw [Nat.mod_eq_of_lt]; omega
        simp only [U32] at *; nlinarith
      rw [hsmall]
      have hv1 : View (rcSet s ps (directCore rc1).2 rest1.length) ps (directCore rc1).2 rest1 :=
        view_rcSet hv _ _ hpre
      have := rcDirect_run g n (2 * acc + (directCore rc1).1) _ _ _ _ v ps' rc' rest' hv1
        (by rw [pow_succ] at hB; nlinarith) h
      rw [this, rcSet_rcSet]

end XzVerif.LzmaExec
