/-
  Window-wrap commutation at the LZMA1 call level: `l1Wrap : L1Wrap`, `codeWrap_lzma1 : CodeWrap P1 lzmaCallR`
  (LzmaResumeWrapDefs.lean).

  `l1Wrap` = `l1Absorb` applied after the wrap (a call without room at the new position 288, then the call with room)
  + `Wrap1.call_wrap`: a call WITHOUT room commutes with the wrap. The latter is a sweep over the head/loop decomposition of
  LzmaResumeL1.lean: without room the dictionary position never changes (`doWrite_zero`), every step commutes with replacing
  `dp` by the wrapped `dp` (`decodeSymbol_setDp` for the symbol decoder: same `pos mod 16`, same `full`).
  `Wrap1.kp_lzmaCallR`: one call keeps `lc`, `lp`, `pb`, `dict.size`; `Wrap1.symPre_wrap`: the replay invariant survives the wrap.
  Core Lean only.
-/
import XzVerif.Lemmas.LzmaResumeL1
import XzVerif.Lemmas.LzmaResumeAlign
import XzVerif.Lemmas.LzmaResumeWrapDefs
import XzVerif.Lemmas.LzmaResumeInst1

namespace XzVerif.LzmaR
open XzVerif.RangeDec XzVerif.LzDict XzVerif.Lzma XzVerif.Lzma2

namespace Wrap1

theorem rcReadInitN_setDp (d : DictPos) : ∀ n s, rcReadInitN n (setDp d s) = mapSt (setDp d) (rcReadInitN n s)
  | 0, _ => rfl
  | n + 1, s => by
    unfold rcReadInitN
    show (if h : s.inPos < s.inp.size then _ else _) = mapSt _ (if h : s.inPos < s.inp.size then _ else _)
    by_cases hb : s.inPos < s.inp.size
    · rw [dif_pos hb, dif_pos hb]
      show (if (n + 1 == 5 && s.inp[s.inPos] != 0) = true then _ else _)
        = mapSt _ (if (n + 1 == 5 && s.inp[s.inPos] != 0) = true then _ else _)
      split
      · rfl
      · exact rcReadInitN_setDp d n
          { s with code := ((Rc.mk s.range s.code).initByte (s.inp[s.inPos]).toNat).code, inPos := s.inPos + 1, initLeft := n }
    · rw [dif_neg hb, dif_neg hb]; rfl

theorem rcReadInit_setDp (d : DictPos) (s : St) : rcReadInit (setDp d s) = mapSt (setDp d) (rcReadInit s) :=
  rcReadInitN_setDp d s.initLeft s

/-- no room, and `full` in step with `pos` (so that `dict_repeat` of 0 bytes changes nothing) -/
def ZeroRoom (d : DictPos) : Prop := d.pos = d.limit ∧ (d.hasWrapped = false → d.full + LZ_DICT_INIT_POS = d.pos)

theorem advance_zero (d : DictPos) (h : d.hasWrapped = false → d.full + LZ_DICT_INIT_POS = d.pos) : d.advance 0 = d := by
  unfold DictPos.advance
  cases d with
  | mk pos full limit size hw nr =>
    cases hw with
    | true => simp
    | false =>
      have := h rfl
      simp at this ⊢
      omega

def isBlk : Pending → Bool
  | .litWrite _ => true
  | .shortRep => true
  | .copy len => len != 0
  | _ => false

theorem doWrite_zero (p : Pending) (s : St) (hz : ZeroRoom s.dp) :
    doWrite p s = if isBlk p then .error (.outFull p) s else .ok () s := by
  have hb : (s.dp.pos == s.dp.limit) = true := by rw [hz.1]; exact beq_self_eq_true _
  cases p with
  | none => rfl
  | stuck => rfl
  | litWrite sym =>
    show (if s.dp.pos == s.dp.limit then _ else _) = _
    rw [if_pos hb]; rfl
  | shortRep =>
    show (if s.dp.pos == s.dp.limit then _ else _) = _
    rw [if_pos hb]; rfl
  | copy len =>
    have hl : s.dp.repeatLeft len = 0 := by
      unfold DictPos.repeatLeft DictPos.avail
      rw [hz.1, Nat.sub_self, Nat.zero_min]
    have hr : s.repeatN 0 = s := by
      have h1 : s.repeatN 0 = { s with dp := s.dp.advance 0 } := rfl
      rw [h1, advance_zero _ hz.2]
    show (if len - s.dp.repeatLeft len != 0 then
        EStateM.Result.error (Exit.outFull (.copy (len - s.dp.repeatLeft len))) (s.repeatN (s.dp.repeatLeft len))
      else .ok () (s.repeatN (s.dp.repeatLeft len))) = if len != 0 then .error (.outFull (.copy len)) s else .ok () s
    rw [hl, hr, Nat.sub_zero]

structure WPar (d0 d1 : DictPos) : Prop where
  z0 : ZeroRoom d0
  z1 : ZeroRoom d1
  full : d1.full = d0.full
  mod : d1.pos % 16 = d0.pos % 16

def Q (d0 : DictPos) (s : St) : Prop := s.dp = d0 ∧ s.lc + s.lp ≤ 4 ∧ s.pb ≤ 4

theorem Q.of_fr {d0 : DictPos} {s t : St} (h : Q d0 s) (fr : Fr s t) : Q d0 t := by
  obtain ⟨a, b, c⟩ := fr.lclppb
  refine ⟨fr.dp.trans h.1, ?_, ?_⟩
  · rw [a, b]; exact h.2.1
  · rw [c]; exact h.2.2

section sweep
variable {d0 d1 : DictPos}

theorem c_doWrite (hp : WPar d0 d1) (p : Pending) (s : St) (hq : Q d0 s) :
    doWrite p (setDp d1 s) = mapSt (setDp d1) (doWrite p s) ∧ resSt (doWrite p s) = s := by
  have h0 : ZeroRoom s.dp := by rw [hq.1]; exact hp.z0
  rw [doWrite_zero p s h0, doWrite_zero p (setDp d1 s) hp.z1]
  cases isBlk p <;> exact ⟨rfl, rfl⟩

theorem c_decode (hp : WPar d0 d1) (ev : Bool) (s : St) (hq : Q d0 s) :
    decodeSymbol ev (setDp d1 s) = mapSt (setDp d1) (decodeSymbol ev s) := by
  have hm : d1.pos % 16 = s.dp.pos % 16 := by rw [hq.1]; exact hp.mod
  exact decodeSymbol_setDp ev s d1 (by rw [hq.1]; exact hp.full) (and_mask_mod16 _ _ _ hq.2.2 hm)
    (fun prev => Align.literalSubcoder_mod16' _ _ _ _ prev hq.2.1 hm)

theorem c_prelude (hp : WPar d0 d1) (ev mf : Bool) (s : St) (hq : Q d0 s) :
    symPrelude ev mf (setDp d1 s) = mapSt (setDp d1) (symPrelude ev mf s) := by
  open Align in
  suffices h : IndAt (setDp d1) s (symPrelude ev mf) from h.comm
  unfold symPrelude
  refine IndAt.bindRead _ _ ?_ (IndAt.of ?_ s)
  · show (d1.pos == d1.limit) = (s.dp.pos == s.dp.limit)
    rw [hq.1, hp.z0.1, hp.z1.1, beq_self_eq_true, beq_self_eq_true]
  · split
    · refine Ind.bind (indD_rcNormalize d1) (fun _ => ?_)
      refine Ind.bind (Ind.read _ (fun _ => rfl)) (fun t => ?_)
      obtain ⟨fin, allow⟩ := t
      simp only []
      split
      · exact Ind.throw _
      · split
        · exact Ind.throw _
        · exact Ind.bind (Ind.modify _ (fun _ => rfl)) (fun _ => Ind.pure _)
    · exact Ind.pure _

theorem c_afterWrite (hp : WPar d0 d1) (f : Nat)
    (hIH : ∀ ev mf s, Q d0 s → symLoopR f ev mf (setDp d1 s) = mapRes (setDp d1) (symLoopR f ev mf s)
      ∧ Q d0 (resSt (symLoopR f ev mf s).1))
    (ev mf : Bool) (p : Pending) (s : St) (hq : Q d0 s) :
    afterWrite f ev mf (doWrite p (setDp d1 s)) = mapRes (setDp d1) (afterWrite f ev mf (doWrite p s))
      ∧ Q d0 (resSt (afterWrite f ev mf (doWrite p s)).1) := by
  obtain ⟨h1, h2⟩ := c_doWrite hp p s hq
  rw [h1]
  cases hw : doWrite p s with
  | error e t =>
    rw [hw] at h2
    have : t = s := h2
    subst this
    exact ⟨rfl, hq⟩
  | ok a t =>
    rw [hw] at h2
    have : t = s := h2
    subst this
    exact hIH ev mf t hq

theorem c_afterSym (hp : WPar d0 d1) (f : Nat)
    (hIH : ∀ ev mf s, Q d0 s → symLoopR f ev mf (setDp d1 s) = mapRes (setDp d1) (symLoopR f ev mf s)
      ∧ Q d0 (resSt (symLoopR f ev mf s).1))
    (ev mf : Bool) (k : SymSnap) (s : St) (hq : Q d0 s) :
    afterSym f ev mf k (decodeSymbol ev (setDp d1 s)) = mapRes (setDp d1) (afterSym f ev mf k (decodeSymbol ev s))
      ∧ Q d0 (resSt (afterSym f ev mf k (decodeSymbol ev s)).1) := by
  rw [c_decode hp ev s hq]
  have fr := (sat_decodeSymbol ev s).1
  cases hd : decodeSymbol ev s with
  | error e t =>
    rw [hd] at fr
    have hqt : Q d0 t := hq.of_fr fr
    cases e <;> exact ⟨rfl, hqt⟩
  | ok act t =>
    rw [hd] at fr
    exact c_afterWrite hp f hIH ev mf act t (hq.of_fr fr)

theorem c_symLoopR (hp : WPar d0 d1) : ∀ f ev mf s, Q d0 s →
    symLoopR f ev mf (setDp d1 s) = mapRes (setDp d1) (symLoopR f ev mf s) ∧ Q d0 (resSt (symLoopR f ev mf s).1)
  | 0, _, _, s, hq => ⟨rfl, hq⟩
  | f + 1, ev, mf, s, hq => by
    rw [symLoopR_succ, symLoopR_succ, c_prelude hp ev mf s hq]
    have fr := (sat_symPrelude ev mf s).1
    cases hpre : symPrelude ev mf s with
    | error e t =>
      rw [hpre] at fr
      exact ⟨rfl, hq.of_fr fr⟩
    | ok ev1 t1 =>
      rw [hpre] at fr
      have hq1 : Q d0 t1 := hq.of_fr fr
      simp only [mapSt]
      rw [(Align.indD_rcNormalize d1).comm t1]
      cases rcNormalize t1 with
      | error e t => exact ⟨rfl, hq1⟩
      | ok a t =>
        simp only [mapSt]
        exact c_afterSym hp f (c_symLoopR hp f) ev1 mf (SymSnap.of t1) t1 hq1

theorem c_headR (hp : WPar d0 d1) (f : Nat) (ev mf : Bool) (p : Pending) (k : Option SymSnap) (s : St) (hq : Q d0 s) :
    headR f ev mf p k (setDp d1 s) = mapRes (setDp d1) (headR f ev mf p k s) ∧ Q d0 (resSt (headR f ev mf p k s).1) := by
  cases k with
  | none => exact c_afterWrite hp f (c_symLoopR hp f) ev mf p s hq
  | some kk => exact c_afterSym hp f (c_symLoopR hp f) ev mf kk (kk.restore s) hq

end sweep

/-! ### a call without room commutes with the wrap -/

def wrapS (s : St) : St := { s with dp := s.dp.wrap }

theorem wrapS_unstick (s : St) : wrapS (unstick s) = unstick (wrapS s) := by
  unfold unstick
  show wrapS (if s.pending == .stuck then _ else _) = if s.pending == .stuck then _ else _
  split <;> rfl

theorem clamped_zero (s : St) (h : s.dp.pos = s.dp.limit) : clampedLimit s = s.dp.limit := by
  unfold clampedLimit
  cases s.uncomp with
  | none => rfl
  | some u =>
    simp only []
    split
    · omega
    · rfl

def mf0 (w : Option Nat) : Bool := match w with | some u => decide (u ≤ 0) | none => false

theorem mightFinish_zero (s : St) (h : s.dp.pos = s.dp.limit) : mightFinish s = mf0 s.uncomp := by
  unfold mightFinish mf0
  cases s.uncomp with
  | none => rfl
  | some u => simp only []; rw [h, Nat.sub_self]

theorem run_zero (s : St) (k : Option SymSnap) (h : s.dp.pos = s.dp.limit) :
    lzmaRunR s k = headR 2 (s.uncomp.isNone || s.eopmValid) (mf0 s.uncomp) s.pending k { s with pending := .none } := by
  rw [lzmaRunR_eq, clamped_zero s h, mightFinish_zero s h, h, Nat.sub_self]

section call
variable {d0 d1 : DictPos}

theorem fin_state (hW : ({ d1 with limit := 0 } : DictPos) = { d0.wrap with limit := 0 }) (H : Nat) (w : Option Nat)
    (res : EStateM.Result Exit St Unit) (ht : (resSt res).dp = d0) :
    normS (lzmaFinish (mapSt (setDp d1) res) d1.limit H w).2 = normS (wrapS (lzmaFinish res d0.limit H w).2) := by
  have A : normS (lzmaFinish (mapSt (setDp d1) res) d1.limit H w).2
      = { normS (lzmaFinish res d0.limit H w).2 with dp := { d1 with limit := 0 } } := by
    cases res with
    | ok a t => rfl
    | error e t => cases e <;> rfl
  have B : normS (wrapS (lzmaFinish res d0.limit H w).2)
      = { normS (lzmaFinish res d0.limit H w).2 with
          dp := { ({ (resSt res).dp with limit := d0.limit } : DictPos).wrap with limit := 0 } } := by
    cases res with
    | ok a t => rfl
    | error e t => cases e <;> rfl
  have C : ({ ({ (resSt res).dp with limit := d0.limit } : DictPos).wrap with limit := 0 } : DictPos) = { d1 with limit := 0 } := by
    rw [ht, hW]
  rw [A, B, C]

theorem finOf_wrap (hW : ({ d1 with limit := 0 } : DictPos) = { d0.wrap with limit := 0 }) (o : Bool) (H : Nat) (w : Option Nat)
    (run : Res) (ht : (resSt run.1).dp = d0) :
    Same (finOf o d1.limit H w (mapRes (setDp d1) run)) ((finOf o d0.limit H w run).1, (finOf o d0.limit H w run).2.wrap) := by
  obtain ⟨res, kx⟩ := run
  refine ⟨?_, ?_⟩
  · show (lzmaFinish (mapSt (setDp d1) res) d1.limit H w).1 = (lzmaFinish res d0.limit H w).1
    cases res with
    | ok a t => rfl
    | error e t => cases e <;> rfl
  · show (⟨normS (unstick (lzmaFinish (mapSt (setDp d1) res) d1.limit H w).2), kx, o⟩ : RSt)
      = ⟨normS (wrapS (unstick (lzmaFinish res d0.limit H w).2)), kx, o⟩
    rw [wrapS_unstick, normS_unstick, normS_unstick, fin_state hW H w res ht]

theorem normS_wrap (hW : ({ d1 with limit := 0 } : DictPos) = { d0.wrap with limit := 0 }) (t : St) (ht : t.dp = d0) :
    normS (setDp d1 t) = normS (wrapS t) := by
  show ({ t with inp := ByteArray.empty, dp := { d1 with limit := 0 } } : St)
    = { t with inp := ByteArray.empty, dp := { t.dp.wrap with limit := 0 } }
  rw [ht, hW]

theorem call_wrap (hp : WPar d0 d1) (hW : ({ d1 with limit := 0 } : DictPos) = { d0.wrap with limit := 0 })
    (k : Option SymSnap) (o : Bool) (s : St) (hq : Q d0 s) :
    Same (lzmaCallR ⟨setDp d1 s, k, o⟩) ((lzmaCallR ⟨s, k, o⟩).1, (lzmaCallR ⟨s, k, o⟩).2.wrap) := by
  rw [lzmaCallR_eq, lzmaCallR_eq]
  show Same (callK k o (rcReadInit (setDp d1 s))) ((callK k o (rcReadInit s)).1, (callK k o (rcReadInit s)).2.wrap)
  rw [rcReadInit_setDp]
  have fr : Fr s (resSt (rcReadInit s)) := fr_rcReadInitN s.initLeft s
  cases hri : rcReadInit s with
  | error e t =>
    rw [hri] at fr
    have hqt : Q d0 t := hq.of_fr fr
    refine ⟨rfl, ?_⟩
    show (⟨normS (setDp d1 t), k, o⟩ : RSt) = ⟨normS (wrapS t), k, o⟩
    rw [normS_wrap hW t hqt.1]
  | ok a t =>
    rw [hri] at fr
    have hqt : Q d0 t := hq.of_fr fr
    cases a with
    | false =>
      refine ⟨rfl, ?_⟩
      show (⟨normS (setDp d1 t), k, o⟩ : RSt) = ⟨normS (wrapS t), k, o⟩
      rw [normS_wrap hW t hqt.1]
    | true =>
      show Same (finK k o (setDp d1 t)) ((finK k o t).1, (finK k o t).2.wrap)
      have hz0 : t.dp.pos = t.dp.limit := by rw [hqt.1]; exact hp.z0.1
      have hz1 : (setDp d1 t).dp.pos = (setDp d1 t).dp.limit := hp.z1.1
      unfold finK
      rw [run_zero t k hz0, run_zero (setDp d1 t) k hz1]
      have hc := c_headR hp 2 (t.uncomp.isNone || t.eopmValid) (mf0 t.uncomp) t.pending k { t with pending := .none }
        ⟨hqt.1, hqt.2.1, hqt.2.2⟩
      have e1 : ({ setDp d1 t with pending := .none } : St) = setDp d1 { t with pending := .none } := rfl
      rw [e1]
      show Same (finOf o d1.limit t.hist.size t.uncomp (headR 2 (t.uncomp.isNone || t.eopmValid) (mf0 t.uncomp) t.pending k
        (setDp d1 { t with pending := .none }))) _
      rw [hc.1]
      have := finOf_wrap hW o t.hist.size t.uncomp _ hc.2.1
      rw [← hqt.1] at this
      exact this

end call

theorem agree_refl (b : ByteArray) : Agree b.size b b := ⟨Nat.le_refl _, Nat.le_refl _, fun _ _ _ _ => rfl⟩

theorem wrap_eq (d : DictPos) (h : d.pos = d.size) : d.wrap = { d with pos := LZ_DICT_REPEAT_MAX, hasWrapped := true } := by
  unfold DictPos.wrap
  rw [if_pos (by rw [h]; exact beq_self_eq_true _)]

theorem symPre_wrap (r : RSt) (h : SymPre r) (ha : AlignOk r.s) (hpos : r.s.dp.pos = r.s.dp.size) : SymPre r.wrap := by
  intro k hk
  obtain ⟨h1, h2, h3⟩ := h k hk
  refine ⟨h1, h2, fun L b hb => ?_⟩
  have h4 := h3 L b hb
  generalize hx : k.restore { r.s with inp := b, dp := { r.s.dp with limit := L }, pending := .none } = x at h4
  have hxdp : x.dp = { r.s.dp with limit := L } := by rw [← hx]; rfl
  have hxpos : x.dp.pos = x.dp.size := by rw [hxdp]; exact hpos
  have hxs : k.restore { r.wrap.s with inp := b, dp := { r.wrap.s.dp with limit := L }, pending := .none }
      = { x with dp := x.dp.wrap } := by
    rw [wrap_eq x.dp hxpos, hxdp, ← hx]
    show k.restore { r.s with inp := b, dp := { r.s.dp.wrap with limit := L }, pending := .none } = _
    rw [wrap_eq r.s.dp hpos]
    rfl
  have hlc : x.lc + x.lp ≤ 4 := by rw [← hx]; exact ha.2.1
  have hpb : x.pb ≤ 4 := by rw [← hx]; exact ha.2.2
  have hsz : x.dp.size % 16 = 0 := by rw [hxdp]; exact ha.1
  show r.s.inPos ≤ (resSt (decodeSymbol (r.s.uncomp.isNone || r.s.eopmValid)
    (k.restore { r.wrap.s with inp := b, dp := { r.wrap.s.dp with limit := L }, pending := .none }))).inPos
  rw [hxs, decodeSymbol_wrap _ x hsz hxpos hlc hpb]
  cases hd : decodeSymbol (r.s.uncomp.isNone || r.s.eopmValid) x with
  | ok a t => rw [hd] at h4; exact h4
  | error e t => rw [hd] at h4; exact h4

end Wrap1

open Wrap1 in
theorem l1Wrap : L1Wrap := by
  intro r b L2 hpre ha hf hpos hL2a hL2b
  have hsym := symPre_wrap r hpre.sym ha hpos
  obtain ⟨s, k, o⟩ := r
  have hpos' : s.dp.pos = s.dp.size := hpos
  have hw := wrap_eq s.dp hpos'
  have hp : WPar ({ s.dp with limit := s.dp.size } : DictPos) { s.dp.wrap with limit := LZ_DICT_REPEAT_MAX } := by
    refine ⟨⟨hpos', hf⟩, ⟨?_, ?_⟩, ?_, ?_⟩
    · rw [hw]
    · rw [hw]; intro h; cases h
    · rw [hw]
    · rw [hw]
      show (288 : Nat) % 16 = s.dp.pos % 16
      rw [hpos', ha.1]
  have hW : ({ ({ s.dp.wrap with limit := LZ_DICT_REPEAT_MAX } : DictPos) with limit := 0 } : DictPos)
      = { ({ s.dp with limit := s.dp.size } : DictPos).wrap with limit := 0 } := by
    rw [hw, wrap_eq ({ s.dp with limit := s.dp.size } : DictPos) hpos']
  have hq : Q ({ s.dp with limit := s.dp.size } : DictPos) { s with inp := b, dp := { s.dp with limit := s.dp.size } } :=
    ⟨rfl, ha.2.1, ha.2.2⟩
  have hcomm : Same (lzmaCallR ((RSt.wrap ⟨s, k, o⟩).view b LZ_DICT_REPEAT_MAX))
      ((lzmaCallR ((⟨s, k, o⟩ : RSt).view b s.dp.size)).1, (lzmaCallR ((⟨s, k, o⟩ : RSt).view b s.dp.size)).2.wrap) :=
    call_wrap hp hW k o _ hq
  have hpre2 : Pre1 (RSt.wrap ⟨s, k, o⟩) b LZ_DICT_REPEAT_MAX := by
    refine ⟨hpre.inPos, ?_, hpre.agree, hsym, hpre.eopm⟩
    show s.dp.wrap.pos ≤ 288
    rw [hw]
    exact Nat.le_refl _
  have habs := l1Absorb (RSt.wrap ⟨s, k, o⟩) b b LZ_DICT_REPEAT_MAX L2 hpre2 (agree_refl b) hL2a
  generalize hwdef : lzmaCallR ((⟨s, k, o⟩ : RSt).view b s.dp.size) = w at *
  generalize hw'def : lzmaCallR ((RSt.wrap ⟨s, k, o⟩).view b LZ_DICT_REPEAT_MAX) = w' at *
  have hc1 : w'.1 = w.1 := hcomm.1
  have hc2 : w'.2.norm = w.2.wrap.norm := hcomm.2
  show Same _ (if w.1 = .ok then lzmaCallR (w.2.wrap.view b L2) else (w.1, w.2.wrap))
  by_cases hok : w.1 = .ok
  · rw [if_pos hok]
    rw [if_pos (hc1.trans hok), RSt.view_congr hc2 b L2] at habs
    exact habs
  · rw [if_neg hok]
    rw [if_neg (by rw [hc1]; exact hok)] at habs
    exact habs.trans ⟨hc1, hc2⟩

namespace Wrap1

/-- the static members behind `AlignOk` -/
structure Kp (s t : St) : Prop where
  lc : t.lc = s.lc
  lp : t.lp = s.lp
  pb : t.pb = s.pb
  size : t.dp.size = s.dp.size

theorem Kp.refl (s : St) : Kp s s := ⟨rfl, rfl, rfl, rfl⟩
theorem Kp.trans {a b c : St} (h1 : Kp a b) (h2 : Kp b c) : Kp a c :=
  ⟨h2.lc.trans h1.lc, h2.lp.trans h1.lp, h2.pb.trans h1.pb, h2.size.trans h1.size⟩
theorem Kp.ofFr {s t : St} (h : Fr s t) : Kp s t := ⟨h.lclppb.1, h.lclppb.2.1, h.lclppb.2.2, by rw [h.dp]⟩

theorem kp_doWrite (p : Pending) (s : St) : Kp s (resSt (doWrite p s)) := by
  have hw := (doWrite_spec p s).1
  have h := doWrite_frame p s
  refine ⟨?_, ?_, ?_, hw.size⟩
  · generalize resSt (doWrite p s) = t at h; rw [h]
  · generalize resSt (doWrite p s) = t at h; rw [h]
  · generalize resSt (doWrite p s) = t at h; rw [h]

theorem kp_afterWrite (f : Nat) (hIH : ∀ ev mf s, Kp s (resSt (symLoopR f ev mf s).1)) (ev mf : Bool) (p : Pending) (s : St) :
    Kp s (resSt (afterWrite f ev mf (doWrite p s)).1) := by
  have h := kp_doWrite p s
  cases hw : doWrite p s with
  | error e u => rw [hw] at h; exact h
  | ok a u => rw [hw] at h; exact h.trans (hIH ev mf u)

theorem kp_afterSym (f : Nat) (hIH : ∀ ev mf s, Kp s (resSt (symLoopR f ev mf s).1)) (ev mf : Bool) (k : SymSnap) (s : St) :
    Kp s (resSt (afterSym f ev mf k (decodeSymbol ev s)).1) := by
  have h := Kp.ofFr (sat_decodeSymbol ev s).1
  cases hd : decodeSymbol ev s with
  | error e t => rw [hd] at h; cases e <;> exact h
  | ok act t => rw [hd] at h; exact h.trans (kp_afterWrite f hIH ev mf act t)

theorem kp_symLoopR : ∀ f ev mf s, Kp s (resSt (symLoopR f ev mf s).1)
  | 0, _, _, s => Kp.refl s
  | f + 1, ev, mf, s => by
    rw [symLoopR_succ]
    have hp := Kp.ofFr (sat_symPrelude ev mf s).1
    cases hpre : symPrelude ev mf s with
    | error e t => rw [hpre] at hp; exact hp
    | ok ev1 t1 =>
      rw [hpre] at hp
      simp only []
      cases rcNormalize t1 with
      | error e t => exact hp
      | ok a t => exact hp.trans (kp_afterSym f (kp_symLoopR f) ev1 mf (SymSnap.of t1) t1)

theorem kp_headR (f : Nat) (ev mf : Bool) (p : Pending) (k : Option SymSnap) (s : St) :
    Kp s (resSt (headR f ev mf p k s).1) := by
  cases k with
  | none => exact kp_afterWrite f (kp_symLoopR f) ev mf p s
  | some kk =>
    have h0 : Kp s (kk.restore s) := ⟨rfl, rfl, rfl, rfl⟩
    exact h0.trans (kp_afterSym f (kp_symLoopR f) ev mf kk (kk.restore s))

theorem kp_unstick (s : St) : Kp s (unstick s) := by
  unfold unstick
  split
  · exact ⟨rfl, rfl, rfl, rfl⟩
  · exact Kp.refl s

theorem kp_lzmaCallR (r : RSt) : Kp r.s (lzmaCallR r).2.s := by
  rw [lzmaCallR_eq]
  have fr : Fr r.s (resSt (rcReadInit r.s)) := fr_rcReadInitN r.s.initLeft r.s
  cases hri : rcReadInit r.s with
  | error e t => rw [hri] at fr; exact Kp.ofFr fr
  | ok a t =>
    rw [hri] at fr
    cases a with
    | false => exact Kp.ofFr fr
    | true =>
      show Kp r.s (unstick (lzmaFinish (lzmaRunR t r.sym0).1 t.dp.limit t.hist.size t.uncomp).2)
      refine ((Kp.ofFr fr).trans ?_).trans (kp_unstick _)
      rw [lzmaRunR_eq]
      have h1 := kp_headR (clampedLimit t - t.dp.pos + 2) (t.uncomp.isNone || t.eopmValid) (mightFinish t) t.pending r.sym0
        { t with dp := { t.dp with limit := clampedLimit t }, pending := .none }
      generalize headR (clampedLimit t - t.dp.pos + 2) (t.uncomp.isNone || t.eopmValid) (mightFinish t) t.pending r.sym0
        { t with dp := { t.dp with limit := clampedLimit t }, pending := .none } = run at h1 ⊢
      have h2 : Kp (resSt run.1) (lzmaFinish run.1 t.dp.limit t.hist.size t.uncomp).2 := ⟨rfl, rfl, rfl, rfl⟩
      exact (⟨h1.lc, h1.lp, h1.pb, h1.size⟩ : Kp t (resSt run.1)).trans h2

end Wrap1

open Wrap1 in
theorem codeWrap_lzma1 : CodeWrap P1 lzmaCallR where
  frame_wrap := by
    intro r hp ha _ hpos
    refine ⟨symPre_wrap r hp.1 ha hpos, hp.2.1, ?_⟩
    show r.s.dp.wrap.needReset = false
    rw [wrap_eq r.s.dp hpos]
    exact hp.2.2
  align := by
    intro r _ _ _ _ ha
    have h := kp_lzmaCallR r
    unfold AlignOk
    rw [h.size, h.lc, h.lp, h.pb]
    exact ha
  stop := by
    intro r b L2 hp ha hf hag hin _ hpos h1 h2 hne
    have := l1Wrap r b L2 ⟨hin, by rw [hpos]; exact Nat.le_refl _, hag, hp.1, hp.2.1⟩ ha hf hpos h1 h2
    rw [if_neg hne] at this
    exact Or.inl this
  yield := by
    intro r b L2 hp ha hf hag hin hnr hpos h1 h2 _ hy
    exfalso
    have hv : SymPre (r.view b r.s.dp.size) := hp.1.view b _ hag
    have hsp := l1Spec (r.view b r.s.dp.size) hv (by show r.s.inPos ≤ b.size; exact hin)
      (by show r.s.dp.pos ≤ r.s.dp.size; rw [hpos]; exact Nat.le_refl _)
    have := hsp.2.1.needReset
    rw [hy] at this
    have h2 : (r.view b r.s.dp.size).s.dp.needReset = r.s.dp.needReset := rfl
    rw [h2, hnr] at this
    cases this
  resume := by
    intro r b L2 hp ha hf hag hin _ hpos h1 h2 hok _
    have := l1Wrap r b L2 ⟨hin, by rw [hpos]; exact Nat.le_refl _, hag, hp.1, hp.2.1⟩ ha hf hpos h1 h2
    rw [if_pos hok] at this
    exact Or.inl this

end XzVerif.LzmaR
