/-
  Preservation of the data invariant by the worker-thread transitions.
-/
import XzVerif.Lemmas.MtDecInv

namespace XzVerif.MtDec

theorem partialOut_congr {s s' : State} (hb : s'.blocks = s.blocks) (hc : s'.cur = s.cur) (hr : s'.readPos = s.readPos)
    (hd' : s'.directPos = s.directPos)
    (hq : (s'.queue.head?.map (·.blk)) = (s.queue.head?.map (·.blk))) (_hn : s'.queue.isEmpty = s.queue.isEmpty) :
    partialOut s' = partialOut s := by
  unfold partialOut blk
  rw [hb, hc, hr, hd']
  cases h1 : s.queue <;> cases h2 : s'.queue <;> simp_all

theorem updOut_head (q : List Outbuf) (b : Nat) (f : Outbuf → Outbuf) (hf : ∀ o, (f o).blk = o.blk) :
    ((updOut q b f).head?.map (·.blk)) = (q.head?.map (·.blk)) := by
  cases q with
  | nil => rfl
  | cons a t => simp only [updOut, List.map_cons, List.head?_cons, Option.map_some]; split <;> simp [hf]

theorem mem_updOut {q : List Outbuf} {b : Nat} {f : Outbuf → Outbuf} {o' : Outbuf} (h : o' ∈ updOut q b f) :
    ∃ o ∈ q, (o.blk = b ∧ o' = f o) ∨ (o.blk ≠ b ∧ o' = o) := by
  simp only [updOut, List.mem_map] at h
  obtain ⟨o, ho, rfl⟩ := h
  refine ⟨o, ho, ?_⟩
  by_cases e : o.blk = b <;> simp [e]

/-- Worker `i` (which owns the outbuf of its Block) writes that outbuf under coder->mutex: `f` may raise `pos` up to the
    worker's out_pos and may mark it finished if the worker is at its verdict. -/
theorem DataInv.workerWrites {s : State} (h : DataInv s) (i : Nat) (hi : i < s.workers.length) (w' : Worker)
    (f : Outbuf → Outbuf)
    (hown : (getW s i).hasOut = true)
    (hfb : ∀ o, (f o).blk = o.blk)
    (hfp : ∀ o, (f o).pos = (getW s i).outPos)
    (hff : ∀ o ∈ s.queue, o.blk = (getW s i).blk → (f o).finished = true →
        (getW s i).outPos = dataLen s (getW s i).blk ∧ (f o).finishRet = (blk s (getW s i).blk).ret)
    (hblk : w'.blk = (getW s i).blk)
    (hw' : WInv { s with queue := updOut s.queue (getW s i).blk f } w')
    (hfree : i ∈ s.threadsFree → False)
    (tf : List Nat) (htf : tf = s.threadsFree ∨ (tf = i :: s.threadsFree ∧ w'.hasOut = false ∧ idlePc w'.pc ∧ w'.failed = false ∧ w'.st ≠ .run)) :
    DataInv { MtDec.setW s i w' with queue := updOut s.queue (getW s i).blk f, threadsFree := tf } := by
  have hwi := h.wk i hi
  have hhas := hwi.has hown
  have hdEq : hd { MtDec.setW s i w' with queue := updOut s.queue (getW s i).blk f, threadsFree := tf } = hd s := by simp [hd]
  refine { wf := h.wf, curLe := h.curLe, lenLe := by simpa using h.lenLe, consec := ?_, good := ?_, deliv := ?_,
           posLe := ?_, readLe := ?_, fin := ?_, wk := ?_, distinct := ?_, free := ?_, freeNodup := ?_,
           dirLe := h.dirLe, dirQ := ?_ }
  · rw [hdEq]; exact h.consec.updOut (getW s i).blk f hfb
  · rw [hdEq]; exact h.good
  · rw [hdEq]
    have : partialOut { MtDec.setW s i w' with queue := updOut s.queue (getW s i).blk f, threadsFree := tf } = partialOut s :=
      partialOut_congr rfl rfl rfl rfl (updOut_head _ _ _ hfb) (by simp [updOut])
    rw [this]; exact h.deliv
  · intro o' ho'
    obtain ⟨o, ho, (⟨e, rfl⟩ | ⟨_, he⟩)⟩ := mem_updOut ho'
    · show (f o).pos ≤ dataLen s (f o).blk
      rw [hfp, hfb, e]; exact hwi.outLe
    · rw [he]; exact h.posLe o ho
  · have hr := h.readLe
    show match updOut s.queue (getW s i).blk f with | hh :: _ => s.readPos ≤ hh.pos | [] => s.readPos = 0
    cases hq : s.queue with
    | nil => simpa [updOut, hq] using hr
    | cons a t =>
      rw [hq] at hr
      simp only [updOut, List.map_cons]
      split
      · rename_i e
        show s.readPos ≤ (f a).pos
        rw [hfp]
        exact Nat.le_trans hr (hhas.2.2 a (by simp [hq]) e).2
      · exact hr
  · intro o' ho' hfin
    obtain ⟨o, ho, (⟨e, rfl⟩ | ⟨_, he⟩)⟩ := mem_updOut ho'
    · have := hff o ho e hfin
      show (f o).pos = dataLen s (f o).blk ∧ (f o).finishRet = (blk s (f o).blk).ret
      rw [hfp, hfb, e]; exact this
    · rw [he] at hfin ⊢; exact h.fin o ho hfin
  · intro j hj
    simp only [setW_workers_length] at hj
    show WInv _ (getW (MtDec.setW s i w') j)
    rw [getW_setW s i j w' hi]
    split
    · exact WInv.congr (s := { s with queue := updOut s.queue (getW s i).blk f }) rfl rfl hw'
    · rename_i hne
      have hwj := h.wk j hj
      refine ⟨hwj.outLe, hwj.fillLe, ?_, ?_, hwj.run⟩
      · intro hjo
        have hj3 := hwj.has hjo
        have hdist := h.distinct i j hi hj hne hown hjo
        refine ⟨hj3.1, ?_, ?_⟩
        · obtain ⟨o, ho, e⟩ := hj3.2.1
          refine ⟨o, ?_, e⟩
          show o ∈ updOut s.queue (getW s i).blk f
          simp only [updOut, List.mem_map]
          exact ⟨o, ho, by simp [show o.blk ≠ (getW s i).blk by rw [e]; exact fun x => hdist x.symm]⟩
        · intro o' ho' e'
          obtain ⟨o, ho, (⟨e, rfl⟩ | ⟨_, he⟩)⟩ := mem_updOut ho'
          · rw [hfb] at e'; exact absurd (e.symm.trans e') hdist
          · rw [he] at e' ⊢; exact hj3.2.2 o ho e'
      · have := hwj.pcInv
        revert this
        cases (getW s j).pc <;> simp [blk, dataLen]
  · intro a c ha hc hac
    simp only [setW_workers_length] at ha hc
    show (getW (MtDec.setW s i w') a).hasOut = true → (getW (MtDec.setW s i w') c).hasOut = true → (getW (MtDec.setW s i w') a).blk ≠ (getW (MtDec.setW s i w') c).blk
    rw [getW_setW s i a w' hi, getW_setW s i c w' hi]
    by_cases ea : i = a <;> by_cases ec : i = c
    · omega
    · subst ea; simp only [if_true, ec, if_false, hblk]; intro _ h2; exact h.distinct i c ha hc hac hown h2
    · subst ec; simp only [if_true, ea, if_false, hblk]; intro h1 _; exact h.distinct a i ha hc hac h1 hown
    · simp only [ea, ec, if_false]; exact h.distinct a c ha hc hac
  · intro j hj
    show j < (MtDec.setW s i w').workers.length ∧ (getW (MtDec.setW s i w') j).hasOut = false ∧ idlePc (getW (MtDec.setW s i w') j).pc ∧
      (getW (MtDec.setW s i w') j).failed = false ∧ (getW (MtDec.setW s i w') j).st ≠ .run
    simp only [setW_workers_length]
    rw [getW_setW s i j w' hi]
    rcases htf with rfl | ⟨rfl, hx⟩
    · have hne : i ≠ j := fun e => hfree (e ▸ hj)
      simpa [hne] using h.free j hj
    · rcases List.mem_cons.mp hj with rfl | hj'
      · simpa [hi] using hx
      · have hne : i ≠ j := fun e => hfree (e ▸ hj')
        simpa [hne] using h.free j hj'
  · rcases htf with rfl | ⟨rfl, _⟩
    · exact h.freeNodup
    · exact List.nodup_cons.mpr ⟨fun x => hfree x, h.freeNodup⟩
  · intro hne
    have := h.dirQ hne
    show updOut s.queue (getW s i).blk f = []
    simp [updOut, this]

-- ---------------------------------------------------------------------------------------------
-- the seven worker labels
-- ---------------------------------------------------------------------------------------------

theorem WInv.decide {s : State} {w : Worker} (h : WInv s w) : WInv s (workerDecide w) := by
  unfold workerDecide
  split
  · exact ⟨h.outLe, h.fillLe, h.has, trivial, h.run⟩
  · exact ⟨h.outLe, h.fillLe, h.has, trivial, h.run⟩
  · rename_i hst
    split
    · exact ⟨h.outLe, h.fillLe, h.has, trivial, h.run⟩
    · exact ⟨h.outLe, h.fillLe, h.has, ⟨h.run hst, Nat.le_refl _⟩, h.run⟩

theorem workerDecide_hasOut (w : Worker) : (workerDecide w).hasOut = w.hasOut := by
  unfold workerDecide; split <;> (try split) <;> rfl
theorem workerDecide_blk (w : Worker) : (workerDecide w).blk = w.blk := by
  unfold workerDecide; split <;> (try split) <;> rfl
theorem workerDecide_failed (w : Worker) : (workerDecide w).failed = w.failed := by
  unfold workerDecide; split <;> (try split) <;> rfl
theorem workerDecide_st (w : Worker) : (workerDecide w).st = w.st := by
  unfold workerDecide; split <;> (try split) <;> rfl
theorem workerDecide_idle (w : Worker) (h : w.st ≠ .run) : idlePc (workerDecide w).pc := by
  unfold workerDecide; split <;> simp_all [idlePc]

theorem DataInv.wLoop {s s' : State} (h : DataInv s) (i : Nat) (c : Cause) (hs : step s (.wLoop i c) = some s') :
    DataInv s' := by
  simp only [step] at hs
  split at hs
  · rename_i hi
    have key : s' = MtDec.setW s i (workerDecide (getW s i)) := by
      split at hs <;> first
        | (injection hs with hs; exact hs.symm)
        | (split at hs <;> first | (injection hs with hs; exact hs.symm) | cases hs)
        | cases hs
    subst key
    refine h.setW i hi _ (h.wk i hi).decide (workerDecide_hasOut _) (workerDecide_blk _) ?_
    intro hf
    have := h.free i hf
    exact ⟨workerDecide_idle _ this.2.2.2.2, by rw [workerDecide_failed]; exact this.2.2.2.1, by rw [workerDecide_st]; exact this.2.2.2.2⟩
  · cases hs

theorem DataInv.wDecode {s s' : State} (h : DataInv s) (i a b : Nat) (v : Bool)
    (hs : step s (.wDecode i a b v) = some s') : DataInv s' := by
  simp only [step] at hs
  split at hs
  case isFalse => cases hs
  rename_i hi
  have hw := h.wk i hi
  split at hs
  case h_2 => cases hs
  rename_i lim pu hpc
  split at hs
  case isFalse => cases hs
  rename_i hg
  simp only [Bool.and_eq_true, decide_eq_true_eq] at hg
  obtain ⟨⟨⟨⟨⟨g1, g2⟩, g3⟩, g4⟩, g5⟩, g6⟩ := hg
  have hpcI := hw.pcInv
  rw [hpc] at hpcI
  simp only at hpcI
  obtain ⟨hown, hlim⟩ := hpcI
  have hhas := hw.has hown
  have hnotfree : i ∈ s.threadsFree → False := fun hf => by have := (h.free i hf).2.1; rw [hown] at this; cases this
  have base : ∀ pc' pu', (match pc' with
        | .decode lim _ => True ∧ lim ≤ (getW s i).inFilled
        | .publish => True
        | .fin1 r => True ∧ b = dataLen s (getW s i).blk ∧ r = (blk s (getW s i).blk).ret ∧ (r = END → (getW s i).inFilled = (getW s i).inSize)
        | .fin2 _ => False | .fin3 _ => False
        | _ => True) →
      DataInv (MtDec.setW s i { getW s i with inPos := a, outPos := b, pu := pu', pc := pc' }) := by
    intro pc' pu' hp
    refine h.setW i hi _ ?_ rfl rfl (fun hf => (hnotfree hf).elim)
    refine ⟨by simpa [dataLen] using g5, hw.fillLe, ?_, ?_, hw.run⟩
    · intro _
      exact ⟨hhas.1, hhas.2.1, fun o ho e => ⟨(hhas.2.2 o ho e).1, Nat.le_trans (hhas.2.2 o ho e).2 g4⟩⟩
    · cases pc' <;> simp_all
  split at hs
  · -- verdict
    split at hs
    case isFalse => cases hs
    rename_i hv
    simp only [Bool.and_eq_true, decide_eq_true_eq] at hv
    injection hs with hs; subst hs
    have := base (.fin1 (blk s (getW s i).blk).ret) (getW s i).pu
    apply this
    refine ⟨trivial, by simpa [dataLen] using hv.2, rfl, ?_⟩
    intro hend
    have hwf := blk_wf h (getW s i).blk
    have : (blk s (getW s i).blk).needIn = (blk s (getW s i).blk).inSize := hwf.2.2.2.1 hend
    have h1 := hw.fillLe
    have h2 := hhas.1
    omega
  · split at hs
    · injection hs with hs; subst hs
      exact base .publish .enabled trivial
    · injection hs with hs; subst hs
      exact base .top (getW s i).pu trivial

theorem DataInv.wFin1 {s s' : State} (h : DataInv s) (i : Nat) (hs : step s (.wFin1 i) = some s') : DataInv s' := by
  simp only [step] at hs
  split at hs
  case isFalse => cases hs
  rename_i hi
  have hw := h.wk i hi
  split at hs
  case h_2 => cases hs
  rename_i r hpc
  injection hs with hs; subst hs
  have hpcI := hw.pcInv
  rw [hpc] at hpcI
  simp only at hpcI
  obtain ⟨hown, hpos, hr, hend⟩ := hpcI
  have hr' : (if (r = END && (getW s i).inFilled != (getW s i).inSize) = true then PROG_ERROR else r) = r := by
    split
    · rename_i hc
      simp only [Bool.and_eq_true, decide_eq_true_eq, bne_iff_ne] at hc
      exact absurd (hend hc.1) hc.2
    · rfl
  rw [hr']
  refine h.setW i hi _ ?_ rfl rfl ?_
  · refine ⟨hw.outLe, hw.fillLe, hw.has, ?_, ?_⟩
    · refine ⟨hown, hpos, hr, hend, ?_⟩
      show (if (getW s i).st = WSt.exit then WSt.exit else WSt.idle) ≠ WSt.run
      split <;> simp
    · intro hst
      exfalso
      revert hst
      show (if (getW s i).st = WSt.exit then WSt.exit else WSt.idle) = WSt.run → False
      split <;> simp
  · intro hf
    have := (h.free i hf).2.1; rw [hown] at this; cases this

theorem DataInv.wFin2 {s s' : State} (h : DataInv s) (i : Nat) (hs : step s (.wFin2 i) = some s') : DataInv s' := by
  simp only [step] at hs
  split at hs
  case isFalse => cases hs
  rename_i hi
  have hw := h.wk i hi
  split at hs
  case h_2 => cases hs
  rename_i r hpc
  injection hs with hs; subst hs
  have hpcI := hw.pcInv
  rw [hpc] at hpcI
  simp only at hpcI
  refine h.setW i hi _ ⟨hw.outLe, hw.fillLe, hw.has, hpcI, hw.run⟩ rfl rfl ?_
  intro hf
  have := (h.free i hf).2.1; rw [hpcI.1] at this; cases this

theorem DataInv.wCleanup {s s' : State} (h : DataInv s) (i : Nat) (hs : step s (.wCleanup i) = some s') : DataInv s' := by
  simp only [step] at hs
  split at hs
  case isFalse => cases hs
  rename_i hg
  simp only [Bool.and_eq_true, decide_eq_true_eq] at hg
  injection hs with hs; subst hs
  have hw := h.wk i hg.1
  refine h.setW i hg.1 _ ⟨hw.outLe, hw.fillLe, hw.has, trivial, hw.run⟩ rfl rfl ?_
  intro hf
  have := h.free i hf
  exact ⟨trivial, this.2.2.2.1, this.2.2.2.2⟩

theorem DataInv.wPublish {s s' : State} (h : DataInv s) (i : Nat) (hs : step s (.wPublish i) = some s') : DataInv s' := by
  simp only [step] at hs
  split at hs
  case isFalse => cases hs
  rename_i hg
  simp only [Bool.and_eq_true, decide_eq_true_eq] at hg
  obtain ⟨hi, hpc⟩ := hg
  injection hs with hs; subst hs
  have hw := h.wk i hi
  have hown : (getW s i).hasOut = true := by have := hw.pcInv; rw [hpc] at this; exact this
  have hhas := hw.has hown
  have key := h.workerWrites i hi { getW s i with pc := .top }
    (fun o => { o with pos := (getW s i).outPos, decInPos := (getW s i).inPos }) hown (fun _ => rfl) (fun _ => rfl)
    (fun o ho e hf => by have := (hhas.2.2 o ho e).1; simp only at hf; rw [this] at hf; cases hf)
    rfl ?_ (fun hf => by have := (h.free i hf).2.1; rw [hown] at this; cases this) s.threadsFree (Or.inl rfl)
  · exact key.congr rfl rfl rfl rfl rfl rfl rfl rfl
  · refine ⟨hw.outLe, hw.fillLe, ?_, trivial, hw.run⟩
    intro _
    refine ⟨hhas.1, ?_, ?_⟩
    · obtain ⟨o, ho, e⟩ := hhas.2.1
      refine ⟨{ o with pos := (getW s i).outPos, decInPos := (getW s i).inPos }, ?_, e⟩
      simp only [updOut, List.mem_map]
      exact ⟨o, ho, by simp [e]⟩
    · intro o' ho' e'
      obtain ⟨o, ho, (⟨e, rfl⟩ | ⟨_, he⟩)⟩ := mem_updOut ho'
      · exact ⟨(hhas.2.2 o ho e).1, Nat.le_refl _⟩
      · rw [he] at e' ⊢; exact hhas.2.2 o ho e'

theorem DataInv.wFin3 {s s' : State} (h : DataInv s) (i : Nat) (hs : step s (.wFin3 i) = some s') : DataInv s' := by
  simp only [step] at hs
  split at hs
  case isFalse => cases hs
  rename_i hi
  have hw := h.wk i hi
  split at hs
  case h_2 => cases hs
  rename_i r hpc
  have hpcI := hw.pcInv
  rw [hpc] at hpcI
  simp only at hpcI
  obtain ⟨hown, hpos, hr, _, hst⟩ := hpcI
  have hhas := hw.has hown
  have hnf : i ∈ s.threadsFree → False := fun hf => by have := (h.free i hf).2.1; rw [hown] at this; cases this
  have key : ∀ tf, (tf = s.threadsFree ∨ (tf = i :: s.threadsFree ∧ r = END)) →
      DataInv { MtDec.setW s i { getW s i with hasOut := false, failed := r != END, pc := .top } with
                queue := updOut s.queue (getW s i).blk (fun o =>
                  { o with pos := (getW s i).outPos, decInPos := (getW s i).inPos, finished := true, finishRet := r }),
                threadsFree := tf } := by
    intro tf htf
    refine h.workerWrites i hi { getW s i with hasOut := false, failed := r != END, pc := .top }
      (fun o => { o with pos := (getW s i).outPos, decInPos := (getW s i).inPos, finished := true, finishRet := r })
      hown (fun _ => rfl) (fun _ => rfl) (fun o _ _ _ => ⟨hpos, hr⟩) rfl ?_ hnf tf ?_
    · exact ⟨hw.outLe, hw.fillLe, (fun hh => by cases hh), trivial, fun hrun => absurd hrun hst⟩
    · rcases htf with e | ⟨e, hend⟩
      · exact Or.inl e
      · exact Or.inr ⟨e, rfl, trivial, by simp [hend], hst⟩
  by_cases hend : r = END
  · simp only [hend, bne_self_eq_false, Bool.false_and, Bool.false_eq_true, if_false, if_true] at hs
    injection hs with hs; subst hs
    have := key (i :: s.threadsFree) (Or.inr ⟨rfl, hend⟩)
    subst hend
    exact this.congr rfl rfl rfl rfl rfl rfl rfl rfl
  · simp only [hend, if_false] at hs
    injection hs with hs; subst hs
    have := key s.threadsFree (Or.inl rfl)
    split
    · exact this.congr rfl rfl rfl rfl rfl rfl rfl rfl
    · exact this.congr rfl rfl rfl rfl rfl rfl rfl rfl

end XzVerif.MtDec
