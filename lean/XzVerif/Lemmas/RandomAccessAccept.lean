/-
  C13 `random_access`, part 4: every file the container decoder accepts is a file the theorem is about.

  `accepted_is_described`: if a byte string is valid per the declarative grammar with LZMA_CONCATENATED (equivalently, by
  `xz_decode_exact`: `lzma_stream_decoder` + LZMA_FINISH accepts it), then it is `fileOf xs` for a list of Streams `xs` that
  satisfies the hypotheses of `random_access` about the Blocks (`XStream.Ok`, `SeqFile`), and its decoded data is
  `fileOut xs`.  Ingredients: Stream Header and Stream Footer have exactly one encoding (`header_canonical`,
  `footer_canonical`), the Index field is the canonical encoding of the Records (part of the grammar), `DBlocks` is a
  list of `BlockDesc`s (`describe_blocks`), and the limits of `lzma_index_hash_append` give the limits of the Records
  (`valid_of_hashLimits`).  Kernel proofs.
-/
import XzVerif.Lemmas.RandomAccessIndex

namespace XzVerif.RandomAccess
open XzVerif XzVerif.XzDecode XzVerif.Container

/-! ### Stream Header and Stream Footer have exactly one encoding -/

theorem le32_rd32 (a b c d : UInt8) : le32 (rd32 [a, b, c, d]) = [a, b, c, d] := by
  have ha := a.toNat_lt; have hb := b.toNat_lt; have hc := c.toNat_lt; have hd := d.toNat_lt
  simp only [rd32, le32, List.getD_cons_zero, List.getD_cons_succ]
  have e1 : (a.toNat + 256 * b.toNat + 65536 * c.toNat + 16777216 * d.toNat) % 256 = a.toNat := by omega
  have e2 : (a.toNat + 256 * b.toNat + 65536 * c.toNat + 16777216 * d.toNat) / 256 % 256 = b.toNat := by omega
  have e3 : (a.toNat + 256 * b.toNat + 65536 * c.toNat + 16777216 * d.toNat) / 65536 % 256 = c.toNat := by omega
  have e4 : (a.toNat + 256 * b.toNat + 65536 * c.toNat + 16777216 * d.toNat) / 16777216 % 256 = d.toNat := by omega
  rw [e1, e2, e3, e4, Vli.u8_ofNat_toNat, Vli.u8_ofNat_toNat, Vli.u8_ofNat_toNat, Vli.u8_ofNat_toNat]

theorem list12 (b : List UInt8) (h : b.length = 12) :
    ∃ a0 a1 a2 a3 a4 a5 a6 a7 a8 a9 a10 a11, b = [a0, a1, a2, a3, a4, a5, a6, a7, a8, a9, a10, a11] := by
  match b, h with
  | [a0, a1, a2, a3, a4, a5, a6, a7, a8, a9, a10, a11], _ => exact ⟨_, _, _, _, _, _, _, _, _, _, _, _, rfl⟩

theorem flags_bytes (b0 b1 : UInt8) (f : StreamFlags) (h : streamFlagsOfBytes b0 b1 = some f) :
    f.version = 0 ∧ streamFlagsBytes f = some [b0, b1] := by
  unfold streamFlagsOfBytes at h
  split at h
  · cases h
  · rename_i hc
    simp only [Option.some.injEq] at h
    subst h
    have h0 : b0.toNat = 0 := by omega
    have h1 : b1.toNat < 16 := by omega
    refine ⟨rfl, ?_⟩
    unfold streamFlagsBytes CHECK_ID_MAX
    simp only []
    rw [if_neg (by omega), Nat.mod_eq_of_lt h1, Vli.u8_ofNat_toNat]
    have : b0 = 0 := by
      have := Vli.u8_ofNat_toNat b0
      rw [h0] at this; exact this.symm
    rw [this]

theorem header_canonical (b : List UInt8) (f : StreamFlags) (hl : b.length = 12) (h : streamHeaderDecode b = .ok f) :
    streamHeaderEncode f = .ok b := by
  obtain ⟨a0, a1, a2, a3, a4, a5, a6, a7, a8, a9, a10, a11, rfl⟩ := list12 b hl
  unfold streamHeaderDecode at h
  split at h; · cases h
  split at h; · cases h
  rename_i hm
  split at h; · cases h
  rename_i hc
  have hm' : [a0, a1, a2, a3, a4, a5] = HEADER_MAGIC := Decidable.of_not_not hm
  have hc' : crc32 [a6, a7] = rd32 [a8, a9, a10, a11] := Decidable.of_not_not hc
  simp only [List.getD_cons_zero, List.getD_cons_succ] at h
  cases hf : streamFlagsOfBytes a6 a7 with
  | none => rw [hf] at h; cases h
  | some f' =>
    rw [hf] at h
    simp only [Except.ok.injEq] at h
    subst h
    obtain ⟨hv, hb⟩ := flags_bytes a6 a7 f' hf
    unfold streamHeaderEncode
    rw [if_neg (by rw [hv]; simp), hb]
    simp only []
    rw [hc', le32_rd32, ← hm']
    rfl

theorem footer_canonical (b : List UInt8) (f : StreamFlags) (bs : Nat) (hl : b.length = 12)
    (h : streamFooterDecode b = .ok (f, bs)) : streamFooterEncode f bs = .ok b := by
  obtain ⟨a0, a1, a2, a3, a4, a5, a6, a7, a8, a9, a10, a11, rfl⟩ := list12 b hl
  unfold streamFooterDecode at h
  split at h; · cases h
  split at h; · cases h
  rename_i hm
  split at h; · cases h
  rename_i hc
  have hm' : [a10, a11] = FOOTER_MAGIC := Decidable.of_not_not hm
  have hc' : crc32 [a4, a5, a6, a7, a8, a9] = rd32 [a0, a1, a2, a3, a4, a5, a6, a7, a8, a9, a10, a11] := Decidable.of_not_not hc
  simp only [List.getD_cons_zero, List.getD_cons_succ] at h
  cases hf : streamFlagsOfBytes a8 a9 with
  | none => rw [hf] at h; cases h
  | some f' =>
    rw [hf] at h
    simp only [Except.ok.injEq, Prod.mk.injEq] at h
    obtain ⟨h1, h2⟩ := h
    subst h1
    obtain ⟨hv, hb⟩ := flags_bytes a8 a9 f' hf
    have hr : rd32 ([a0, a1, a2, a3, a4, a5, a6, a7, a8, a9, a10, a11].drop 4) = rd32 [a4, a5, a6, a7] := by
      simp [rd32]
    rw [hr] at h2
    have hlt : rd32 [a4, a5, a6, a7] < 4294967296 := by
      have ha := a4.toNat_lt; have hb' := a5.toNat_lt; have hc'' := a6.toNat_lt; have hd := a7.toNat_lt
      simp only [rd32, List.getD_cons_zero, List.getD_cons_succ]; omega
    have hvalid : isBackwardSizeValid bs = true := by
      unfold isBackwardSizeValid BACKWARD_SIZE_MIN BACKWARD_SIZE_MAX
      simp only [decide_eq_true_eq]
      omega
    unfold streamFooterEncode
    rw [if_neg (by rw [hv]; simp), hvalid, hb]
    simp only [Bool.not_true, Bool.false_eq_true, if_false]
    have hq : bs / 4 - 1 = rd32 [a4, a5, a6, a7] := by omega
    have hc2 : rd32 [a0, a1, a2, a3, a4, a5, a6, a7, a8, a9, a10, a11] = rd32 [a0, a1, a2, a3] := by simp [rd32]
    rw [hq, le32_rd32]
    have : crc32 ([a4, a5, a6, a7] ++ [a8, a9]) = rd32 [a0, a1, a2, a3] := by rw [← hc2, ← hc']; rfl
    rw [this, le32_rd32, ← hm']
    rfl

/-! ### the Blocks of a Stream as a list of `BlockDesc` -/

theorem describe_blocks {E : Env} {fl : Flags} {hdr : StreamFlags} {blocks : HashInfo} {inp : List UInt8} {cap : Nat}
    {out : List UInt8} {c : Nat} {final : HashInfo} (r : DBlocks E fl hdr blocks inp cap out c final) :
    ∃ Bs : List BlockDesc, inp = blocksBytes Bs ++ inp.drop c ∧ out = blocksOut Bs ∧ c = (blocksBytes Bs).length
      ∧ final = blocks ++ (records hdr.check Bs).map Index.toRecord ∧ (∀ B ∈ Bs, B.Wf hdr.check)
      ∧ SeqDec E hdr.check fl.ignoreCheck cap Bs := by
  induction r with
  | done blocks inp cap => exact ⟨[], (by simp [blocksBytes]), rfl, rfl, (by simp [records]), (by intro B hB; cases hB), trivial⟩
  | block blocks inp cap b0 tl h c o pad chk rest out' c' final hinp hb0 hh hv hD hL hsub ih =>
    obtain ⟨Bs, h1, h2, h3, h4, h5, h6⟩ := ih
    let B : BlockDesc := ⟨b0 :: tl, h, c, o, pad, chk⟩
    have hbytes : B.bytes = (b0 :: tl) ++ c ++ pad ++ chk := rfl
    have hdrop : inp.drop ((b0 :: tl).length + c.length + pad.length + chk.length + c') = rest.drop c' := by
      rw [hinp]
      rw [show (b0 :: tl).length + c.length + pad.length + chk.length + c' = ((b0 :: tl) ++ c ++ pad ++ chk).length + c' by
        simp only [List.length_append]]
      rw [← List.drop_drop, List.drop_left' rfl]
    refine ⟨B :: Bs, ?_, ?_, ?_, ?_, ?_, ?_⟩
    · rw [hdrop]
      conv => lhs; rw [hinp, h1]
      simp only [blocksBytes, List.flatMap_cons, hbytes, List.append_assoc]
    · rw [h2]; simp [blocksOut, B]
    · rw [h3]; simp only [blocksBytes, List.flatMap_cons, hbytes, List.length_append]
    · rw [h4]
      simp [records, Index.toRecord, BlockDesc.record, BlockDesc.unpadded, B]
    · intro A hA
      simp only [List.mem_cons] at hA
      rcases hA with rfl | hA
      · exact ⟨⟨b0, tl, rfl, hb0⟩, hh, hv, hL.clen_pos⟩
      · exact h5 A hA
    · exact ⟨hD, h6⟩

/-! ### the limits of the Records follow from the limits of `lzma_index_hash_append` -/

theorem toRecord_map_inj : ∀ (p : List Index.Block), p.map Index.toRecord = [] → p = []
  | [], _ => rfl
  | _ :: _, h => by simp at h

/-- `Spec.Valid` and the Backward Size bound for the Records of one Stream, from the facts the grammar carries -/
theorem valid_of_hashLimits (recs : List Index.Block) (hrec : ∀ r ∈ recs.map Index.toRecord, RecordOk r)
    (hlim : recs.map Index.toRecord = [] ∨ HashLimits (recs.map Index.toRecord)) :
    Index.Spec.Valid [⟨none, 0, recs⟩] ∧ Index.indexSize recs.length (Index.listSize recs) ≤ Index.BACKWARD_SIZE_MAX := by
  have hb : ∀ b ∈ recs, Index.UNPADDED_SIZE_MIN ≤ b.unpadded ∧ b.unpadded ≤ Index.UNPADDED_SIZE_MAX ∧ b.uncompressed ≤ Index.VLI_MAX := by
    intro b hbm
    have := hrec (Index.toRecord b) (List.mem_map_of_mem hbm)
    unfold RecordOk Index.toRecord at this
    unfold Container.UNPADDED_SIZE_MIN Container.UNPADDED_SIZE_MAX Vli.VLI_MAX at this
    unfold Index.UNPADDED_SIZE_MIN Index.UNPADDED_SIZE_MAX Index.VLI_MAX
    exact this
  rcases hlim with he | hl
  · have : recs = [] := toRecord_map_inj recs he
    subst this
    refine ⟨⟨by simp, ?_, ?_, ?_, ?_, ?_, ?_⟩, by decide +kernel⟩
    · intro s hs b hb'; simp only [List.mem_singleton] at hs; subst hs; cases hb'
    · intro s hs; simp only [List.mem_singleton] at hs; subst hs; decide
    · intro s hs; simp only [List.mem_singleton] at hs; subst hs; rfl
    · decide +kernel
    · decide
    · intro s hs f hf; simp only [List.mem_singleton] at hs; subst hs; cases hf
  · unfold HashLimits at hl
    rw [hBlocksSize_map, hUncompressedSize_map, hIndexListSize_map] at hl
    unfold hCount at hl
    rw [List.length_map, Index.container_indexSize_eq] at hl
    obtain ⟨l1, l2, l3, l4⟩ := hl
    unfold Container.indexStreamSize at l4
    rw [Index.container_indexSize_eq] at l4
    unfold Vli.VLI_MAX Container.STREAM_HEADER_SIZE at l4
    unfold Vli.VLI_MAX at l1 l2
    unfold Container.BACKWARD_SIZE_MAX at l3
    have hi5 : 5 ≤ Index.indexSize recs.length (Index.listSize recs) := by
      unfold Index.indexSize Index.indexSizeUnpadded Index.vliCeil4; omega
    refine ⟨⟨by simp, ?_, ?_, ?_, ?_, ?_, ?_⟩, by unfold Index.BACKWARD_SIZE_MAX; exact l3⟩
    · intro s hs b hb'; simp only [List.mem_singleton] at hs; subst hs; exact hb b hb'
    · intro s hs; simp only [List.mem_singleton] at hs; subst hs
      unfold Index.UNPADDED_SIZE_MAX; simp only []; omega
    · intro s hs; simp only [List.mem_singleton] at hs; subst hs; rfl
    · simp only [Index.Spec.rawFileSize, List.map_cons, List.map_nil, List.sum_cons, List.sum_nil, Index.StreamRec.span,
        Index.StreamRec.compressedSize, Index.STREAM_HEADER_SIZE, Index.VLI_MAX]
      omega
    · simp only [Index.Spec.uncompressedSize, List.map_cons, List.map_nil, List.sum_cons, List.sum_nil,
        Index.StreamRec.uncompressedSize, Index.VLI_MAX]
      omega
    · intro s hs f hf; simp only [List.mem_singleton] at hs; subst hs; cases hf

/-! ### one Stream -/

/-- A Stream of the declarative grammar is the core (Stream Header … Stream Footer) of an `XStream` with any Stream Padding. -/
theorem describe_stream {E : Env} {fl : Flags} {inp : List UInt8} {cap : Nat} {out : List UInt8} {len : Nat}
    (V : DValidStream E fl inp cap out len) (padding : Nat) (hp : padding % 4 = 0) :
    ∃ x : XStream, x.padding = padding ∧ x.Ok ∧ SeqDec E x.check fl.ignoreCheck cap x.blocks ∧ out = x.out
      ∧ inp = x.desc.core ++ inp.drop len ∧ len = x.desc.core.length := by
  obtain ⟨hdr, c, final, s2, hl, hh, hrun, hF, hlen, hle⟩ := V
  obtain ⟨hv0, hck⟩ := streamHeaderDecode_flags _ _ hh
  obtain ⟨Bs, h1, h2, h3, h4, h5, h6⟩ := describe_blocks hrun
  simp only [List.nil_append] at h4
  have hrec := DBlocks_records hrun (by intro x hx; cases hx)
  have hlim := DBlocks_limits hrun
  let x : XStream := ⟨hdr.check, Bs, padding⟩
  have hxr : x.recs.map Index.toRecord = final := h4.symm
  rw [← hxr] at hrec hlim
  obtain ⟨hvalid, hbsz⟩ := valid_of_hashLimits x.recs hrec hlim
  have hxok : x.Ok := ⟨by unfold CHECK_ID_MAX at hck; exact hck, hp, hvalid, hbsz, h5⟩
  have hdok : x.desc.Ok := XStream.desc_ok hxok h6
  have hflags : x.desc.flags = hdr := by
    cases hdr with
    | mk v ck => simp only at hv0; subst hv0; rfl
  -- Stream Header
  have ht12 : (inp.take STREAM_HEADER_SIZE).length = 12 := by
    rw [List.length_take]; unfold STREAM_HEADER_SIZE at *; omega
  have hhdr : x.desc.hdr = inp.take STREAM_HEADER_SIZE := by
    have := header_canonical _ _ ht12 hh
    rw [← hflags] at this
    have h2' := hdok.hdr_eq
    rw [this] at h2'
    exact (Except.ok.inj h2').symm
  -- Index and Stream Footer
  have hihs : indexHashSize final = x.desc.bsz := by rw [← hxr]; exact indexHashSize_map x.recs
  have hidx : x.desc.idx = indexEncode final := by rw [← hxr]; rfl
  have hcons := hF.consumed_le
  rw [hF.consumed_eq] at hcons
  obtain ⟨ftr, hfd, hfc⟩ := hF.footer
  have hf12 : (((inp.drop (STREAM_HEADER_SIZE + c)).drop (indexHashSize final)).take STREAM_HEADER_SIZE).length = 12 := by
    rw [List.length_take, List.length_drop]; unfold STREAM_HEADER_SIZE at *; omega
  have hfv := (streamFooterDecode_flags _ _ _ hfd).1
  have hftr_eq : ftr = hdr := by
    cases ftr with
    | mk v1 c1 =>
      cases hdr with
      | mk v2 c2 => simp only at hfv hv0 hfc; subst hfv; subst hv0; subst hfc; rfl
  have hftr : x.desc.ftr = ((inp.drop (STREAM_HEADER_SIZE + c)).drop (indexHashSize final)).take STREAM_HEADER_SIZE := by
    have : streamFooterEncode x.desc.flags x.desc.bsz
        = .ok (((inp.drop (STREAM_HEADER_SIZE + c)).drop (indexHashSize final)).take STREAM_HEADER_SIZE) := by
      rw [← hihs, hflags, ← hftr_eq]; exact footer_canonical _ _ _ hf12 hfd
    have h2' := hdok.ftr_eq
    rw [this] at h2'
    exact (Except.ok.inj h2').symm
  -- assemble
  have hA : inp = inp.take STREAM_HEADER_SIZE ++ inp.drop STREAM_HEADER_SIZE := (List.take_append_drop _ _).symm
  have hB : inp.drop STREAM_HEADER_SIZE = blocksBytes Bs ++ inp.drop (STREAM_HEADER_SIZE + c) := by
    rw [← List.drop_drop]; exact h1
  have hC : inp.drop (STREAM_HEADER_SIZE + c)
      = indexEncode final ++ (inp.drop (STREAM_HEADER_SIZE + c)).drop (indexHashSize final) := by
    conv => lhs; rw [← List.take_append_drop (indexHashSize final) (inp.drop (STREAM_HEADER_SIZE + c)), hF.index_bytes]
  have hD : (inp.drop (STREAM_HEADER_SIZE + c)).drop (indexHashSize final)
      = x.desc.ftr ++ inp.drop len := by
    rw [hftr]
    conv => lhs; rw [← List.take_append_drop STREAM_HEADER_SIZE ((inp.drop (STREAM_HEADER_SIZE + c)).drop (indexHashSize final))]
    rw [List.drop_drop, List.drop_drop, hlen, hF.consumed_eq]
    first | rfl | (congr 2; omega) | congr 2
  have hcore : inp = x.desc.core ++ inp.drop len := by
    conv => lhs; rw [hA, hB, hC, hD, ← hhdr, ← hidx]
    simp only [Index.StreamDesc.core, List.append_assoc]
    rfl
  refine ⟨x, rfl, hxok, h6, h2, hcore, ?_⟩
  rw [hdok.core_length, hlen, hF.consumed_eq, hihs, h3]
  have : (blocksBytes Bs).length = Index.blocksSize x.recs := hdok.payload
  rw [this]
  unfold Index.StreamDesc.coreLen STREAM_HEADER_SIZE
  show _ = 24 + Index.blocksSize x.recs + x.desc.bsz
  omega

/-! ### the whole file -/

/-- **Every file that is valid per the declarative grammar (LZMA_CONCATENATED) is the file of a list of Streams that meets
    the Block-level hypotheses of `random_access`**; the grammar's output is the Blocks' data in file order and the grammar's
    length is the length of the file. -/
theorem describe_file {E : Env} {fl : Flags} (hc : fl.concatenated = true) {inp : List UInt8} {cap : Nat} {out : List UInt8}
    {n : Nat} (V : DValidXz E fl inp cap out n) :
    ∃ xs : List XStream, xs ≠ [] ∧ inp = fileOf xs ∧ out = fileOut xs ∧ n = inp.length ∧ (∀ x ∈ xs, x.Ok)
      ∧ SeqFile E fl.ignoreCheck cap xs := by
  induction V with
  | single inp cap out len hnc hv => rw [hc] at hnc; cases hnc
  | last inp cap out len k _ hv hdrop =>
    obtain ⟨x, hpad, hok, hseq, hout, hcore, hlen⟩ := describe_stream hv (4 * k) (by omega)
    have hf : fileOf [x] = x.desc.core ++ List.replicate x.padding 0 := by
      rw [fileOf_cons]; simp [fileOf, descs, Index.fileBytes]
    refine ⟨[x], by simp, ?_, ?_, ?_, ?_, ⟨hseq, trivial⟩⟩
    · rw [hf, hpad, ← hdrop]; exact hcore
    · rw [hout]; simp [fileOut]
    · have := congrArg List.length hcore
      rw [List.length_append, hdrop, List.length_replicate, ← hlen] at this
      exact this.symm
    · intro y hy; simp only [List.mem_singleton] at hy; subst hy; exact hok
  | more inp cap out len k b rest out2 c2 _ hv hdrop hb hsub ih =>
    obtain ⟨x, hpad, hok, hseq, hout, hcore, hlen⟩ := describe_stream hv (4 * k) (by omega)
    obtain ⟨xs, hne, hfile, hout2, hn2, hoks, hseqs⟩ := ih
    refine ⟨x :: xs, by simp, ?_, ?_, ?_, ?_, ?_⟩
    · rw [fileOf_cons, hpad, ← hfile, ← hdrop]; exact hcore
    · rw [hout, hout2]; simp [fileOut]
    · have := congrArg List.length hcore
      rw [List.length_append, hdrop, List.length_append, List.length_replicate, ← hlen] at this
      rw [hn2]; omega
    · intro y hy
      simp only [List.mem_cons] at hy
      rcases hy with rfl | hy
      · exact hok
      · exact hoks y hy
    · refine ⟨hseq, ?_⟩
      rw [← hout]; exact hseqs

/-- … in terms of the decoder: a file that `lzma_stream_decoder` (LZMA_CONCATENATED, LZMA_FINISH, `cap` bytes of output
    space) accepts is `fileOf xs` for Streams `xs` meeting the Block-level hypotheses of `random_access`. -/
theorem accepted_is_described (E : Env) (hloc : PayloadLocal E) (hbd : PayloadBounded E) (fl : Flags)
    (hc : fl.concatenated = true) (F : List UInt8) (cap : Nat) (h : (xzDecode E fl F cap).ret = .streamEnd) :
    ∃ xs : List XStream, xs ≠ [] ∧ F = fileOf xs ∧ (xzDecode E fl F cap).out = fileOut xs
      ∧ (xzDecode E fl F cap).consumed = F.length ∧ (∀ x ∈ xs, x.Ok) ∧ SeqFile E fl.ignoreCheck cap xs :=
  describe_file hc (xzDecode_sound_decl E hloc hbd fl F cap h)

end XzVerif.RandomAccess
