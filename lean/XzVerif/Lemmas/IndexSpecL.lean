/-
  C13 helper lemmas about the list-of-records specification: sums, validity (the format limits) and its
  preservation by every operation, locate.
-/
import XzVerif.Lemmas.IndexArith
import XzVerif.Lemmas.IndexTree

namespace XzVerif.Index

/-! ### sums -/

theorem blocksSize_append (a b : List Block) : blocksSize (a ++ b) = blocksSize a + blocksSize b := by
  simp [blocksSize, List.map_append, List.sum_append]
theorem uncompSize_append (a b : List Block) : uncompSize (a ++ b) = uncompSize a + uncompSize b := by
  simp [uncompSize, List.map_append, List.sum_append]
theorem listSize_append (a b : List Block) : listSize (a ++ b) = listSize a + listSize b := by
  simp [listSize, List.map_append, List.sum_append]

theorem blocksSize_mod : ∀ bs : List Block, blocksSize bs % 4 = 0
  | [] => rfl
  | b :: r => by
    have := blocksSize_mod r
    have h := vliCeil4_mod b.unpadded
    simp only [blocksSize, List.map_cons, List.sum_cons] at this ⊢
    omega

namespace Spec

theorem rawFileSize_append (a b : Index) : rawFileSize (a ++ b) = rawFileSize a + rawFileSize b := by
  simp [rawFileSize, List.map_append, List.sum_append]
theorem uncompressedSize_append (a b : Index) : uncompressedSize (a ++ b) = uncompressedSize a + uncompressedSize b := by
  simp [uncompressedSize, List.map_append, List.sum_append]
theorem blockCount_append (a b : Index) : blockCount (a ++ b) = blockCount a + blockCount b := by
  simp [blockCount, List.map_append, List.sum_append]
theorem listSizeAll_append (a b : Index) : listSizeAll (a ++ b) = listSizeAll a + listSizeAll b := by
  simp [listSizeAll, List.map_append, List.sum_append]
theorem totalSize_append (a b : Index) : totalSize (a ++ b) = totalSize a + totalSize b := by
  simp [totalSize, List.map_append, List.sum_append]

/-- The format limits every reachable index respects. -/
structure Valid (i : Index) : Prop where
  ne : i ≠ []
  blocks : ∀ s ∈ i, ∀ b ∈ s.blocks,
    UNPADDED_SIZE_MIN ≤ b.unpadded ∧ b.unpadded ≤ UNPADDED_SIZE_MAX ∧ b.uncompressed ≤ VLI_MAX
  streamBlocks : ∀ s ∈ i, blocksSize s.blocks ≤ UNPADDED_SIZE_MAX
  padding : ∀ s ∈ i, s.padding % 4 = 0
  fileSize : rawFileSize i ≤ VLI_MAX
  uncompressed : uncompressedSize i ≤ VLI_MAX
  flags : ∀ s ∈ i, ∀ f, s.flags = some f → flagsCheck f = none

theorem valid_init : Valid init := by
  refine ⟨by simp [init], ?_, ?_, ?_, ?_, ?_, ?_⟩ <;> simp [init, blocksSize] <;> decide

/-- a non-empty index is `front ++ [last]` -/
theorem snoc_of_ne {i : Index} (h : i ≠ []) : ∃ front last, i = front ++ [last] := exists_snoc h

theorem getLast?_snoc (front : Index) (last : StreamRec) : (front ++ [last]).getLast? = some last := by simp
theorem dropLast_snoc (front : Index) (last : StreamRec) : (front ++ [last]).dropLast = front := by simp

/-! #### failing operations leave the index unchanged (by construction of the specification) -/

theorem append_atomic (i : Index) (u c : Nat) (h : (append i u c).1 ≠ .ok) : (append i u c).2 = i := by
  unfold append at *; split <;> simp_all
theorem streamFlags_atomic (i : Index) (f : StreamFlags) (h : (streamFlags i f).1 ≠ .ok) : (streamFlags i f).2 = i := by
  unfold streamFlags at *; split <;> simp_all
theorem streamPadding_atomic (i : Index) (p : Nat) (h : (streamPadding i p).1 ≠ .ok) : (streamPadding i p).2 = i := by
  unfold streamPadding at *; split <;> simp_all
theorem cat_atomic (d s : Index) (h : (cat d s).1 ≠ .ok) : (cat d s).2 = d := by
  unfold cat at *; split <;> simp_all

/-! #### successful operations keep the limits -/

theorem appendCheck_ne_ok (i : Index) (u c : Nat) : appendCheck i u c ≠ some .ok := by
  unfold appendCheck
  split; · simp
  split; · simp
  dsimp only
  split; · simp
  split; · simp
  split; · simp
  split <;> simp

theorem append_ok_eq {i : Index} {u c : Nat} {i' : Index} (h : append i u c = (.ok, i')) :
    appendCheck i u c = none ∧ i' = modifyLast (fun s => { s with blocks := s.blocks ++ [⟨u, c⟩] }) i := by
  unfold append at h
  split at h
  · next r hr =>
    -- appendCheck never answers `some ok`
    exfalso
    have : r = .ok := by simpa using (congrArg Prod.fst h)
    subst this
    exact appendCheck_ne_ok i u c hr
  · next hr => exact ⟨hr, by simpa using (congrArg Prod.snd h).symm⟩

theorem append_valid {i : Index} (hv : Valid i) {u c : Nat} {i' : Index} (h : append i u c = (.ok, i')) : Valid i' := by
  obtain ⟨hc, rfl⟩ := append_ok_eq h
  obtain ⟨front, last, rfl⟩ := snoc_of_ne hv.ne
  rw [modifyLast_append_singleton]
  unfold appendCheck at hc
  rw [getLast?_snoc, dropLast_snoc] at hc
  simp only at hc
  split at hc; · simp at hc
  next h1 =>
  split at hc; · simp at hc
  next h2 =>
  split at hc; · simp at hc
  next h3 =>
  split at hc; · simp at hc
  next h4 =>
  have hmod := blocksSize_mod last.blocks
  have hceil : vliCeil4 (blocksSize last.blocks + u) = blocksSize last.blocks + vliCeil4 u := by
    unfold vliCeil4; omega
  have hbs : blocksSize (last.blocks ++ [⟨u, c⟩]) = blocksSize last.blocks + vliCeil4 u := by
    simp [blocksSize_append, blocksSize]
  have hus : uncompSize (last.blocks ++ [⟨u, c⟩]) = uncompSize last.blocks + c := by
    simp [uncompSize_append, uncompSize]
  have hls : listSize (last.blocks ++ [⟨u, c⟩]) = listSize last.blocks + (vliSize u + vliSize c) := by
    simp [listSize_append, listSize]
  refine ⟨by simp, ?_, ?_, ?_, ?_, ?_, ?_⟩
  · intro s hs b hb
    rcases List.mem_append.mp hs with hs | hs
    · exact hv.blocks s (List.mem_append_left _ hs) b hb
    · simp only [List.mem_singleton] at hs; subst hs
      rcases List.mem_append.mp hb with hb | hb
      · exact hv.blocks last (by simp) b hb
      · simp only [List.mem_singleton] at hb; subst hb
        simp only; omega
  · intro s hs
    rcases List.mem_append.mp hs with hs | hs
    · exact hv.streamBlocks s (List.mem_append_left _ hs)
    · simp only [List.mem_singleton] at hs; subst hs
      simp only [hbs]
      have := vliCeil4_le_max (Nat.le_of_not_lt h3)
      rw [hceil] at this; exact this
  · intro s hs
    rcases List.mem_append.mp hs with hs | hs
    · exact hv.padding s (List.mem_append_left _ hs)
    · simp only [List.mem_singleton] at hs; subst hs
      exact hv.padding last (by simp)
  · -- file size: exactly what index_file_size tested
    rw [rawFileSize_append]
    have h5 := indexFileSize_ne_unknown h4
    rw [hceil] at h5
    simp only [rawFileSize, List.map_cons, List.map_nil, List.sum_cons, List.sum_nil, StreamRec.span,
      StreamRec.compressedSize, hbs, hls, List.length_append, List.length_cons, List.length_nil, Nat.zero_add] at h5 ⊢
    omega
  · rw [uncompressedSize_append]
    have := hv.uncompressed
    rw [uncompressedSize_append] at this
    simp only [uncompressedSize, List.map_cons, List.map_nil, List.sum_cons, List.sum_nil,
      StreamRec.uncompressedSize, hus] at this h2 ⊢
    rw [List.map_append, List.sum_append] at h2
    simp only [List.map_cons, List.map_nil, List.sum_cons, List.sum_nil, StreamRec.uncompressedSize] at h2
    omega
  · intro s hs f hf
    rcases List.mem_append.mp hs with hs | hs
    · exact hv.flags s (List.mem_append_left _ hs) f hf
    · simp only [List.mem_singleton] at hs; subst hs
      exact hv.flags last (by simp) f hf

theorem streamFlags_ok_eq {i : Index} {f : StreamFlags} {i' : Index} (h : streamFlags i f = (.ok, i')) :
    flagsCheck f = none ∧ i' = modifyLast (fun s => { s with flags := some f }) i := by
  unfold streamFlags at h
  split at h
  · next r hr =>
    exfalso
    have : r = .ok := by simpa using (congrArg Prod.fst h)
    subst this
    unfold flagsCheck at hr
    split at hr; · simp at hr
    split at hr; · simp at hr
    split at hr <;> simp at hr
  · next hr => exact ⟨hr, by simpa using (congrArg Prod.snd h).symm⟩

theorem streamFlags_valid {i : Index} (hv : Valid i) {f : StreamFlags} {i' : Index}
    (h : streamFlags i f = (.ok, i')) : Valid i' := by
  obtain ⟨hc, rfl⟩ := streamFlags_ok_eq h
  obtain ⟨front, last, rfl⟩ := snoc_of_ne hv.ne
  rw [modifyLast_append_singleton]
  have hraw : rawFileSize (front ++ [{ last with flags := some f }]) = rawFileSize (front ++ [last]) := by
    simp [rawFileSize, StreamRec.span, StreamRec.compressedSize]
  have hunc : uncompressedSize (front ++ [{ last with flags := some f }]) = uncompressedSize (front ++ [last]) := by
    simp [uncompressedSize, StreamRec.uncompressedSize]
  refine ⟨by simp, ?_, ?_, ?_, by rw [hraw]; exact hv.fileSize, by rw [hunc]; exact hv.uncompressed, ?_⟩
  · intro s hs b hb
    rcases List.mem_append.mp hs with hs | hs
    · exact hv.blocks s (List.mem_append_left _ hs) b hb
    · simp only [List.mem_singleton] at hs; subst hs
      exact hv.blocks last (by simp) b hb
  · intro s hs
    rcases List.mem_append.mp hs with hs | hs
    · exact hv.streamBlocks s (List.mem_append_left _ hs)
    · simp only [List.mem_singleton] at hs; subst hs
      exact hv.streamBlocks last (by simp)
  · intro s hs
    rcases List.mem_append.mp hs with hs | hs
    · exact hv.padding s (List.mem_append_left _ hs)
    · simp only [List.mem_singleton] at hs; subst hs
      exact hv.padding last (by simp)
  · intro s hs g hg
    rcases List.mem_append.mp hs with hs | hs
    · exact hv.flags s (List.mem_append_left _ hs) g hg
    · simp only [List.mem_singleton] at hs; subst hs
      simp only [Option.some.injEq] at hg; subst hg; exact hc

theorem streamPadding_ok_eq {i : Index} {p : Nat} {i' : Index} (h : streamPadding i p = (.ok, i')) :
    paddingCheck i p = none ∧ i' = modifyLast (fun s => { s with padding := p }) i := by
  unfold streamPadding at h
  split at h
  · next r hr =>
    exfalso
    have : r = .ok := by simpa using (congrArg Prod.fst h)
    subst this
    unfold paddingCheck at hr
    split at hr; · simp at hr
    split at hr <;> simp at hr
  · next hr => exact ⟨hr, by simpa using (congrArg Prod.snd h).symm⟩

theorem streamPadding_valid {i : Index} (hv : Valid i) {p : Nat} {i' : Index}
    (h : streamPadding i p = (.ok, i')) : Valid i' := by
  obtain ⟨hc, rfl⟩ := streamPadding_ok_eq h
  obtain ⟨front, last, rfl⟩ := snoc_of_ne hv.ne
  rw [modifyLast_append_singleton]
  unfold paddingCheck at hc
  rw [modifyLast_append_singleton] at hc
  split at hc; · simp at hc
  next h1 =>
  split at hc; · simp at hc
  next h2 =>
  have hfs := hv.fileSize
  have hraw0 : rawFileSize (front ++ [{ last with padding := 0 }]) + last.padding = rawFileSize (front ++ [last]) := by
    simp [rawFileSize, StreamRec.span, StreamRec.compressedSize]; omega
  have hrawp : rawFileSize (front ++ [{ last with padding := p }]) = rawFileSize (front ++ [{ last with padding := 0 }]) + p := by
    simp [rawFileSize, StreamRec.span, StreamRec.compressedSize]; omega
  have hunc : uncompressedSize (front ++ [{ last with padding := p }]) = uncompressedSize (front ++ [last]) := by
    simp [uncompressedSize, StreamRec.uncompressedSize]
  have h3 : fileSize (front ++ [{ last with padding := 0 }]) = rawFileSize (front ++ [{ last with padding := 0 }]) := by
    unfold fileSize
    have : ¬ rawFileSize (front ++ [{ last with padding := 0 }]) > VLI_MAX := by omega
    simp [this]
  rw [h3] at h2
  refine ⟨by simp, ?_, ?_, ?_, by rw [hrawp]; omega, by rw [hunc]; exact hv.uncompressed, ?_⟩
  · intro s hs b hb
    rcases List.mem_append.mp hs with hs | hs
    · exact hv.blocks s (List.mem_append_left _ hs) b hb
    · simp only [List.mem_singleton] at hs; subst hs
      exact hv.blocks last (by simp) b hb
  · intro s hs
    rcases List.mem_append.mp hs with hs | hs
    · exact hv.streamBlocks s (List.mem_append_left _ hs)
    · simp only [List.mem_singleton] at hs; subst hs
      exact hv.streamBlocks last (by simp)
  · intro s hs
    rcases List.mem_append.mp hs with hs | hs
    · exact hv.padding s (List.mem_append_left _ hs)
    · simp only [List.mem_singleton] at hs; subst hs
      simp only; omega
  · intro s hs g hg
    rcases List.mem_append.mp hs with hs | hs
    · exact hv.flags s (List.mem_append_left _ hs) g hg
    · simp only [List.mem_singleton] at hs; subst hs
      exact hv.flags last (by simp) g hg

theorem fileSize_of_valid {i : Index} (hv : Valid i) : fileSize i = rawFileSize i := by
  unfold fileSize
  have := hv.fileSize
  have : ¬ rawFileSize i > VLI_MAX := by omega
  simp [this]

theorem cat_ok_eq {d s i' : Index} (h : cat d s = (.ok, i')) : catCheck d s = none ∧ i' = d ++ s := by
  unfold cat at h
  split at h
  · next r hr =>
    exfalso
    have : r = .ok := by simpa using (congrArg Prod.fst h)
    subst this
    unfold catCheck at hr
    split at hr; · simp at hr
    split at hr <;> simp at hr
  · next hr => exact ⟨hr, by simpa using (congrArg Prod.snd h).symm⟩

theorem cat_valid {d s : Index} (hd : Valid d) (hs : Valid s) {i' : Index} (h : cat d s = (.ok, i')) : Valid i' := by
  obtain ⟨hc, rfl⟩ := cat_ok_eq h
  unfold catCheck at hc
  split at hc; · simp at hc
  next h1 =>
  rw [fileSize_of_valid hd, fileSize_of_valid hs] at h1
  refine ⟨by simp [hd.ne], ?_, ?_, ?_, by rw [rawFileSize_append]; omega, by rw [uncompressedSize_append]; omega, ?_⟩
  · intro x hx b hb
    rcases List.mem_append.mp hx with hx | hx
    · exact hd.blocks x hx b hb
    · exact hs.blocks x hx b hb
  · intro x hx
    rcases List.mem_append.mp hx with hx | hx
    · exact hd.streamBlocks x hx
    · exact hs.streamBlocks x hx
  · intro x hx
    rcases List.mem_append.mp hx with hx | hx
    · exact hd.padding x hx
    · exact hs.padding x hx
  · intro x hx g hg
    rcases List.mem_append.mp hx with hx | hx
    · exact hd.flags x hx g hg
    · exact hs.flags x hx g hg

/-! ### locate -/

theorem locateInBlocks_spec : ∀ (bs : List Block) (bi off target k : Nat), off ≤ target →
    locateInBlocks bs bi off target = some k →
    ∃ j b, k = bi + j ∧ bs[j]? = some b ∧ off + uncompSize (bs.take j) ≤ target
      ∧ target < off + uncompSize (bs.take j) + b.uncompressed
  | [], _, _, _, _, _, h => by simp [locateInBlocks] at h
  | b :: rest, bi, off, target, k, hle, h => by
    unfold locateInBlocks at h
    split at h
    · next hlt =>
      simp only [Option.some.injEq] at h
      exact ⟨0, b, by omega, by simp, by simp [uncompSize]; omega, by simp [uncompSize]; omega⟩
    · next hge =>
      obtain ⟨j, b', hk, hb, h1, h2⟩ := locateInBlocks_spec rest (bi + 1) (off + b.uncompressed) target k (by omega) h
      refine ⟨j + 1, b', by omega, by simpa using hb, ?_, ?_⟩
      · simp only [List.take_succ_cons, uncompSize, List.map_cons, List.sum_cons] at h1 ⊢; omega
      · simp only [List.take_succ_cons, uncompSize, List.map_cons, List.sum_cons] at h2 ⊢; omega

theorem locateInBlocks_some : ∀ (bs : List Block) (bi off target : Nat), off ≤ target → target < off + uncompSize bs →
    ∃ k, locateInBlocks bs bi off target = some k
  | [], _, _, _, hle, h => by simp [uncompSize] at h; omega
  | b :: rest, bi, off, target, hle, h => by
    unfold locateInBlocks
    split
    · exact ⟨bi, rfl⟩
    · next hge =>
      apply locateInBlocks_some rest (bi + 1) (off + b.uncompressed) target (by omega)
      simp only [uncompSize, List.map_cons, List.sum_cons] at h ⊢; omega

theorem locateInStreams_spec : ∀ (ss : List StreamRec) (si off target : Nat) (p : Nat × Nat), off ≤ target →
    locateInStreams ss si off target = some p →
    ∃ j s b, p.1 = si + j ∧ ss[j]? = some s ∧ s.blocks[p.2]? = some b
      ∧ off + uncompressedSize (ss.take j) + uncompSize (s.blocks.take p.2) ≤ target
      ∧ target < off + uncompressedSize (ss.take j) + uncompSize (s.blocks.take p.2) + b.uncompressed
  | [], _, _, _, _, _, h => by simp [locateInStreams] at h
  | s :: rest, si, off, target, p, hle, h => by
    unfold locateInStreams at h
    split at h
    · next hlt =>
      simp only [Option.map_eq_some_iff] at h
      obtain ⟨bi, hbi, rfl⟩ := h
      obtain ⟨j, b, hk, hb, h1, h2⟩ := locateInBlocks_spec s.blocks 0 off target bi hle hbi
      have : bi = j := by omega
      subst this
      exact ⟨0, s, b, by simp, by simp, hb, by simpa [uncompressedSize] using h1, by simpa [uncompressedSize] using h2⟩
    · next hge =>
      obtain ⟨j, s', b, hk, hs, hb, h1, h2⟩ :=
        locateInStreams_spec rest (si + 1) (off + s.uncompressedSize) target p (by omega) h
      refine ⟨j + 1, s', b, by omega, by simpa using hs, hb, ?_, ?_⟩
      · simp only [List.take_succ_cons, uncompressedSize, List.map_cons, List.sum_cons] at h1 ⊢
        omega
      · simp only [List.take_succ_cons, uncompressedSize, List.map_cons, List.sum_cons] at h2 ⊢
        omega

theorem locateInStreams_some : ∀ (ss : List StreamRec) (si off target : Nat), off ≤ target →
    target < off + uncompressedSize ss → ∃ p, locateInStreams ss si off target = some p
  | [], _, _, _, _, h => by simp [uncompressedSize] at h; omega
  | s :: rest, si, off, target, hle, h => by
    unfold locateInStreams
    split
    · next hlt =>
      obtain ⟨k, hk⟩ := locateInBlocks_some s.blocks 0 off target hle (by simpa [StreamRec.uncompressedSize] using hlt)
      exact ⟨(si, k), by simp [hk]⟩
    · next hge =>
      apply locateInStreams_some rest (si + 1) (off + s.uncompressedSize) target (by omega)
      simp only [uncompressedSize, List.map_cons, List.sum_cons] at h ⊢; omega

end Spec

end XzVerif.Index
