/-
  C01: the EXECUTABLE LZMA1 encoder model `LzmaEnc.lzma1Encode` (the one the driver runs and that is compared byte for byte
  with the C encoder through the H2 trace) computes the specification encoder: whenever it accepts a trace, the symbols
  of the trace are a valid description of the data (`encSyms` succeeds on them from the window of the preset dictionary
  and ends with the window of all data) and its output is `rcEncode` of their operations (+ end marker).
-/
import XzVerif.Lemmas.Lzma1ExecTop
import XzVerif.Model.Lzma2Enc

namespace XzVerif.LzmaExec
open XzVerif.RangeDec XzVerif.RangeEnc XzVerif.RangeCoder XzVerif.LzDict XzVerif.Lzma XzVerif.LzmaEnc XzVerif.LzmaSymDec
open XzVerif.LzmaSym XzVerif.LzmaSpec

/-! ### loops -/

theorem forIn_except_inv {α β ε : Type} (f : α → β → Except ε (ForInStep β)) (Q : β → Prop) :
    ∀ (l : List α) (P : Nat → β → Prop) (k : Nat),
      (∀ i (hi : i < l.length) b, P (k + i) b → match f l[i] b with
        | .ok (.yield b') => P (k + i + 1) b'
        | .ok (.done b') => Q b'
        | .error _ => True) →
      (∀ b, P (k + l.length) b → Q b) →
      ∀ b r, P k b → forIn l b f = .ok r → Q r
  | [], P, k, _, hend, b, r, hP, h => by
    simp only [List.forIn_nil] at h
    cases h
    exact hend b (by simpa using hP)
  | a :: l, P, k, hstep, hend, b, r, hP, h => by
    simp only [List.forIn_cons] at h
    have h0 := hstep 0 (by simp) b (by simpa using hP)
    simp only [List.getElem_cons_zero] at h0
    cases hf : f a b with
    | error e => rw [hf] at h; cases h
    | ok st =>
      rw [hf] at h h0
      cases st with
      | done b' =>
        simp only [bind, Except.bind] at h
        cases h
        exact h0
      | yield b' =>
        simp only [bind, Except.bind] at h
        refine forIn_except_inv f Q l P (k + 1) ?_ ?_ b' r (by simpa using h0) h
        · intro i hi b2 hP2
          have e : k + (i + 1) = k + 1 + i := by omega
          have := hstep (i + 1) (by simp; omega) b2 (by rw [e]; exact hP2)
          simp only [List.getElem_cons_succ] at this
          rw [e] at this
          exact this
        · intro b2 hP2
          have e : k + (a :: l).length = k + 1 + l.length := by simp only [List.length_cons]; omega
          exact hend b2 (by rw [e]; exact hP2)

/-! ### the window of the encoder: the bytes before position `i`, newest first -/

def win (buf : ByteArray) (i : Nat) : List UInt8 := ((hl buf).take i).reverse

theorem win_length (buf : ByteArray) (i : Nat) (hi : i ≤ buf.size) : (win buf i).length = i := by
  simp [win, hl_length, hi]

theorem win_succ (buf : ByteArray) (i : Nat) (hi : i < buf.size) : win buf (i + 1) = buf.get! i :: win buf i := by
  have hget := get!_eq buf i hi
  have hlt : i < (hl buf).length := by rw [hl_length]; exact hi
  simp only [win]
  rw [List.take_add_one, hget]
  simp

theorem win_get (buf : ByteArray) (i d : Nat) (hi : i ≤ buf.size) (hd : d < i) :
    (win buf i)[d]? = some (buf.get! (i - 1 - d)) := by
  simp only [win]
  rw [List.getElem?_reverse (by simp [hl_length]; omega)]
  simp only [List.length_take, hl_length, Nat.min_eq_left hi]
  rw [List.getElem?_take_of_lt (by omega)]
  exact get!_eq buf _ (by omega)

theorem win_prev (buf : ByteArray) (i : Nat) (hi : i ≤ buf.size) :
    prevByte (win buf i) = if i == 0 then 0 else (buf.get! (i - 1)).toNat := by
  cases i with
  | zero => simp [win, prevByte]
  | succ j => rw [win_succ buf j (by omega)]; simp [prevByte]

theorem win_matchByte (buf : ByteArray) (i d : Nat) (hi : i ≤ buf.size) :
    matchByte (win buf i) d = if d < i then (buf.get! (i - d - 1)).toNat else 0 := by
  by_cases hd : d < i
  · have e : i - d - 1 = i - 1 - d := by omega
    simp [matchByte, win_get buf i d hi hd, hd, e]
  · have : (win buf i)[d]? = none := by
      apply List.getElem?_eq_none; rw [win_length buf i hi]; omega
    simp [matchByte, this, hd]

/-- `matchesAt` is what `lzCopy` needs -/
theorem matchesAt_copy (buf : ByteArray) (dist : Nat) : ∀ (n i : Nat), dist < i → i + n ≤ buf.size →
    matchesAt buf i dist n = true → lzCopy n dist (win buf i) = some (win buf (i + n))
  | 0, i, _, _, _ => rfl
  | n + 1, i, hd, hle, hm => by
    simp only [matchesAt, Bool.and_eq_true, beq_iff_eq] at hm
    simp only [lzCopy]
    have e : i - 1 - dist = i - dist - 1 := by omega
    rw [win_get buf i dist (by omega) hd, e, ← hm.1]
    simp only []
    rw [← win_succ buf i (by omega)]
    have := matchesAt_copy buf dist n (i + 1) (by omega) (by omega) hm.2
    rw [this]
    congr 2; omega

/-- `checkSym` accepts exactly what `applySym` accepts, and hands out the specification's previous byte / match byte -/
theorem checkSym_sound (dictSize : Nat) (buf : ByteArray) (base off : Nat) (st : SymSt) (back len : Nat)
    {sym : Sym} {prev mb : Nat} (h : checkSym dictSize buf base off st back len = .ok (sym, prev, mb)) :
    base + off + len ≤ buf.size ∧ prev = prevByte (win buf (base + off)) ∧
      mb = matchByte (win buf (base + off)) st.rep0 ∧
      applySym dictSize (win buf (base + off)) st sym = some (win buf (base + off + len)) ∧ sym.len = len := by
  unfold checkSym at h
  simp only [] at h
  by_cases hsz : base + off + len > buf.size
  · rw [if_pos hsz] at h; cases h
  · rw [if_neg hsz] at h
    have hle : base + off ≤ buf.size := by omega
    have hprev := win_prev buf (base + off) hle
    have hmb := win_matchByte buf (base + off) st.rep0 hle
    by_cases hlit : (back == UINT32_MAX) = true
    · rw [if_pos hlit] at h
      by_cases hl1 : (len != 1) = true
      · rw [if_pos hl1] at h; cases h
      · rw [if_neg hl1] at h
        have hlen : len = 1 := by simpa using hl1
        subst hlen
        simp only [Except.ok.injEq, Prod.mk.injEq] at h
        obtain ⟨rfl, rfl, rfl⟩ := h
        refine ⟨by omega, hprev.symm, hmb.symm, ?_, rfl⟩
        simp only [applySym]
        rw [win_succ buf (base + off) (by omega)]
    · rw [if_neg hlit] at h
      generalize hdist : (if back < REPS then st.rep back else back - REPS) = dist at h
      generalize hlo : (if (back == 0) = true then decide (1 ≤ len) && decide (len ≤ LzmaEnc.MATCH_LEN_MAX)
        else decide (2 ≤ len) && decide (len ≤ LzmaEnc.MATCH_LEN_MAX)) = lenOk at h
      by_cases hlenok : (!lenOk) = true
      · rw [if_pos hlenok] at h; cases h
      · rw [if_neg hlenok] at h
        by_cases hdi : (!decide (dist < base + off)) = true
        · rw [if_pos hdi] at h; cases h
        · rw [if_neg hdi] at h
          by_cases hdd : (!decide (dist < dictSize)) = true
          · rw [if_pos hdd] at h; cases h
          · rw [if_neg hdd] at h
            by_cases hmatch : (!matchesAt buf (base + off) dist len) = true
            · rw [if_pos hmatch] at h; cases h
            · rw [if_neg hmatch] at h
              subst hdist
              subst hlo
              simp only [Except.ok.injEq, Prod.mk.injEq] at h
              obtain ⟨rfl, rfl, rfl⟩ := h
              simp only [Bool.not_eq_eq_eq_not, Bool.not_true, decide_eq_false_iff_not,
                Nat.not_lt, Bool.not_eq_false, not_le] at hlenok hdi hdd hmatch
              have hback : back ≠ UINT32_MAX := by simpa using hlit
              refine ⟨by omega, hprev.symm, hmb.symm, ?_, ?_⟩
              · simp only [Sym.ofBackLen, hlit, Bool.false_eq_true, if_false]
                by_cases hrep : back < REPS
                · have hcopy := matchesAt_copy buf (st.rep back) len (base + off) (by simpa [hrep] using hdi) (by omega)
                    (by simpa [hrep] using hmatch)
                  simp only [hrep, if_true] at hdd ⊢
                  by_cases hshort : (len == 1 && back == 0) = true
                  · simp only [hshort, if_true]
                    simp only [Bool.and_eq_true, beq_iff_eq] at hshort
                    obtain ⟨rfl, rfl⟩ := hshort
                    simp only [applySym]
                    have : st.rep 0 = st.rep0 := rfl
                    rw [this] at hdd hcopy
                    rw [if_pos hdd]; exact hcopy
                  · simp only [hshort, Bool.false_eq_true, if_false, applySym]
                    have h2 : 2 ≤ len ∧ len ≤ LzmaEnc.MATCH_LEN_MAX := by
                      by_cases hb0 : back = 0
                      · subst hb0
                        simp only [beq_self_eq_true, if_true, Bool.and_eq_true, decide_eq_true_eq] at hlenok
                        simp only [Bool.and_eq_true, beq_iff_eq, and_true] at hshort
                        omega
                      · have : (back == 0) = false := by simpa using hb0
                        simp only [this, Bool.false_eq_true, if_false, Bool.and_eq_true, decide_eq_true_eq] at hlenok
                        exact hlenok
                    rw [if_pos ⟨h2.1, h2.2, hrep, hdd⟩]; exact hcopy
                · have hcopy := matchesAt_copy buf (back - REPS) len (base + off) (by simpa [hrep] using hdi) (by omega)
                    (by simpa [hrep] using hmatch)
                  simp only [hrep, if_false] at hdd ⊢
                  have hb0 : (back == 0) = false := by simp only [REPS] at hrep; simp; omega
                  simp only [hb0, Bool.false_eq_true, if_false, Bool.and_eq_true, decide_eq_true_eq] at hlenok
                  simp only [applySym]
                  rw [if_pos ⟨hlenok.1, hlenok.2, hdd⟩]; exact hcopy
              · simp only [Sym.ofBackLen, hlit, Bool.false_eq_true, if_false]
                by_cases hrep : back < REPS
                · simp only [hrep, if_true]
                  by_cases hshort : (len == 1 && back == 0) = true
                  · simp only [hshort, if_true, Sym.len]
                    simp only [Bool.and_eq_true, beq_iff_eq] at hshort
                    exact hshort.1.symm
                  · simp only [hshort, Bool.false_eq_true, if_false, Sym.len]
                · simp only [hrep, if_false, Sym.len]

/-! ### `lzma1Encode` with its trace loop named -/

theorem except_throw_bind {ε α β : Type} (e : ε) (f : α → Except ε β) : ((throw e : Except ε α) >>= f) = Except.error e := rfl

abbrev EncLoopSt := LzmaEnc × Nat × Nat × Bool

/-- the body of the trace loop of `lzma1Encode` -/
def lzma1Body (p : Props) (dictSize outLimit : Nat) (buf : ByteArray) (base : Nat) (tr : Array TraceRec) (i : Nat)
    (s : EncLoopSt) : Except String (ForInStep EncLoopSt) :=
  if s.2.2.2 = true then .error s!"trace record {i} after the output limit was hit"
  else if (tr[i]!.kind == 1) = true then
    .error s!"trace record {i}: symbol dropped by the C encoder but the model's rc_encode_dummy said it fits"
  else if (tr[i]!.kind != 0) = true then .error s!"trace record {i}: unexpected kind {(tr[i]!).kind}"
  else if (tr[i]!.pos != s.1.uncompSize % 4294967296) = true then
    .error s!"trace record {i}: position {(tr[i]!).pos} but the model's uncomp_size is {s.1.uncompSize}"
  else
    checkSym dictSize buf base s.2.1 s.1.st tr[i]!.back tr[i]!.len >>= fun x =>
      if (outLimit != 0 && encodeDummy s.1.probs s.1.rc (symOps p s.1.st s.1.uncompSize x.2.1 x.2.2 x.1).1 outLimit) = true then
        if (decide (i + 1 < tr.size) && tr[i + 1]!.kind == 1 && i + 2 == tr.size) = true then
          pure (ForInStep.done (s.1, s.2.1, s.2.2.1, true))
        else .error s!"trace record {i}: model's rc_encode_dummy says the symbol does not fit, the C encoder kept it"
      else
        pure (ForInStep.yield
          ({ (s.1.encode (symOps p s.1.st s.1.uncompSize x.2.1 x.2.2 x.1).1) with
              st := (symOps p s.1.st s.1.uncompSize x.2.1 x.2.2 x.1).2,
              uncompSize := (s.1.encode (symOps p s.1.st s.1.uncompSize x.2.1 x.2.2 x.1).1).uncompSize + tr[i]!.len },
           s.2.1 + tr[i]!.len, s.2.2.1 + 1, s.2.2.2))

/-- `lzma1Encode` with its loop named -/
theorem lzma1Encode_eq (p : Props) (dictSize : Nat) (useEopm : Bool) (outLimit : Nat) (buf : ByteArray) (base : Nat)
    (tr : Array TraceRec) :
    lzma1Encode p dictSize useEopm outLimit buf base tr =
      (forIn (List.range' 0 [:tr.size].size)
        (if (base == 0 && decide (buf.size - base > 0)) = true then
          (({ (LzmaEnc.new p).encode (initOps (buf.get! 0)) with uncompSize := 1 }, 1, 1, false) : EncLoopSt)
         else (LzmaEnc.new p, 0, 0, false))
        (lzma1Body p dictSize outLimit buf base tr) >>= fun s =>
        if (outLimit == 0 && s.2.1 != buf.size - base) = true then
          .error s!"the symbols cover {s.2.1} bytes, the data has {buf.size - base}"
        else
          pure { out := (if useEopm then s.1.encode (eopmOps p s.1.st s.1.uncompSize) else s.1).flush.1,
                 consumed := s.2.1, nsyms := s.2.2.1 }) := by
  unfold lzma1Encode
  simp only [Std.Legacy.Range.forIn_eq_forIn_range', except_throw_bind]
  split
  · cases useEopm <;> rfl
  · cases useEopm <;> rfl

/-! ### the loop invariant: the symbols so far are a valid description, the encoder state is `encOps` of their operations -/

theorem encSyms_append (p : Props) (dictSize : Nat) : ∀ (a b : List Sym) (pos : Nat) (st : SymSt) (rb : List UInt8),
    encSyms p dictSize (a ++ b) pos st rb =
      match encSyms p dictSize a pos st rb with
      | none => none
      | some (ops1, pos1, st1, rb1) =>
        match encSyms p dictSize b pos1 st1 rb1 with
        | none => none
        | some (ops2, fin) => some (ops1 ++ ops2, fin)
  | [], b, pos, st, rb => by
    simp only [List.nil_append, encSyms]
    cases encSyms p dictSize b pos st rb with
    | none => rfl
    | some q => obtain ⟨ops2, fin⟩ := q; rfl
  | sym :: a, b, pos, st, rb => by
    simp only [List.cons_append, encSyms]
    cases applySym dictSize rb st sym with
    | none => rfl
    | some rb1 =>
      simp only []
      rw [encSyms_append p dictSize a b]
      cases encSyms p dictSize a (pos + sym.len) (symOps p st pos (prevByte rb) (matchByte rb st.rep0) sym).2 rb1 with
      | none => rfl
      | some q =>
        obtain ⟨ops1, pos1, st1, rb1'⟩ := q
        simp only []
        cases encSyms p dictSize b pos1 st1 rb1' with
        | none => rfl
        | some q2 => obtain ⟨ops2, fin⟩ := q2; simp

theorem encOps_append (ps : Probs) (e : Enc) (a b : List Op) :
    encOps ps e (a ++ b) = encOps (encOps ps e a).1 (encOps ps e a).2 b := by
  simp only [encOps, List.foldl_append]

theorem encode_eq (e : LzmaEnc) (ops : List Op) :
    e.encode ops = { e with probs := (encOps e.probs e.rc ops).1, rc := (encOps e.probs e.rc ops).2 } := rfl

/-- invariant of the trace loop (no output limit) -/
def EncInv (p : Props) (dictSize : Nat) (buf : ByteArray) (base : Nat) (s : EncLoopSt) : Prop :=
  s.2.2.2 = false ∧ base + s.2.1 ≤ buf.size ∧ s.1.uncompSize = s.2.1 ∧
    ∃ syms ops, encSyms p dictSize syms 0 {} (win buf base) = some (ops, s.2.1, s.1.st, win buf (base + s.2.1)) ∧
      encOps (initProbs p) Enc.init ops = (s.1.probs, s.1.rc)

theorem lzma1Body_step (p : Props) (dictSize : Nat) (buf : ByteArray) (base : Nat) (tr : Array TraceRec) (i : Nat)
    (s : EncLoopSt) (hinv : EncInv p dictSize buf base s) :
    match lzma1Body p dictSize 0 buf base tr i s with
    | .ok (.yield s') => EncInv p dictSize buf base s'
    | .ok (.done s') => EncInv p dictSize buf base s'
    | .error _ => True := by
  obtain ⟨hstop, hle, hunc, syms, ops, henc, heo⟩ := hinv
  unfold lzma1Body
  rw [if_neg (by rw [hstop]; simp)]
  by_cases h1 : (tr[i]!.kind == 1) = true
  · rw [if_pos h1]; trivial
  rw [if_neg h1]
  by_cases h2 : (tr[i]!.kind != 0) = true
  · rw [if_pos h2]; trivial
  rw [if_neg h2]
  by_cases h3 : (tr[i]!.pos != s.1.uncompSize % 4294967296) = true
  · rw [if_pos h3]; trivial
  rw [if_neg h3]
  cases hck : checkSym dictSize buf base s.2.1 s.1.st tr[i]!.back tr[i]!.len with
  | error e => trivial
  | ok x =>
    obtain ⟨sym, prev, mb⟩ := x
    obtain ⟨hsz, hprev, hmb, happ, hlen⟩ := checkSym_sound dictSize buf base s.2.1 s.1.st _ _ hck
    simp only [bind, Except.bind, show ((0 : Nat) != 0) = false from rfl, Bool.false_and, Bool.false_eq_true, if_false, pure,
      Except.pure]
    refine ⟨hstop, by simp only []; omega, by simp only [encode_eq]; omega, syms ++ [sym],
      ops ++ (symOps p s.1.st s.1.uncompSize prev mb sym).1, ?_, ?_⟩
    · rw [encSyms_append, henc]
      simp only [encSyms, happ, hunc, ← hprev, ← hmb, hlen, Nat.add_assoc, List.append_nil]
    · rw [encOps_append, heo]
      simp only [encode_eq]

theorem encode_pair (e0 : LzmaEnc) (ops : List Op) :
    encOps e0.probs e0.rc ops = ((e0.encode ops).probs, (e0.encode ops).rc) := rfl

theorem encode_pair_first (p : Props) (ops : List Op) : encOps (initProbs p) Enc.init ops =
    ((({ (LzmaEnc.new p).encode ops with uncompSize := 1 } : LzmaEnc)).probs,
     (({ (LzmaEnc.new p).encode ops with uncompSize := 1 } : LzmaEnc)).rc) :=
  encode_pair (LzmaEnc.new p) _

theorem except_bind_ok {ε α β : Type} {x : Except ε α} {f : α → Except ε β} {r : β} (h : (x >>= f) = .ok r) :
    ∃ a, x = .ok a ∧ f a = .ok r := by
  cases x with
  | error e => cases h
  | ok a => exact ⟨a, rfl, h⟩

/-- `encode_init` codes the first byte like any literal at position 0 -/
theorem symOps_init (p : Props) (b : UInt8) : symOps p {} 0 0 0 (.lit b) = (initOps b, {}) := by
  simp [symOps, literalOps, literalSubcoder, isLiteralState, LIT_STATES, initOps, updateLiteralNormal, P_IS_MATCH,
    POS_STATES_MAX]

/-- The executable LZMA1 encoder model (no output limit, with end marker) computes the specification encoder. -/
theorem lzma1Encode_sound (p : Props) (dictSize : Nat) (buf : ByteArray) (base : Nat) (tr : Array TraceRec)
    (res : EncResult) (hbase : base ≤ buf.size) (h : lzma1Encode p dictSize true 0 buf base tr = .ok res) :
    ∃ syms ops posF stF, encSyms p dictSize syms 0 {} (win buf base) = some (ops, posF, stF, win buf buf.size) ∧
      res.out = (rcEncode (initProbs p) (ops ++ eopmOps p stF posF)).1 ∧ res.consumed = buf.size - base := by
  rw [lzma1Encode_eq] at h
  obtain ⟨s, hloop, hrest⟩ := except_bind_ok h
  have hinit : EncInv p dictSize buf base
      (if (base == 0 && decide (buf.size - base > 0)) = true then
        (({ (LzmaEnc.new p).encode (initOps (buf.get! 0)) with uncompSize := 1 }, 1, 1, false) : EncLoopSt)
       else (LzmaEnc.new p, 0, 0, false)) := by
    by_cases hfirst : (base == 0 && decide (buf.size - base > 0)) = true
    · rw [if_pos hfirst]
      simp only [Bool.and_eq_true, beq_iff_eq, decide_eq_true_eq] at hfirst
      obtain ⟨rfl, hpos⟩ := hfirst
      refine ⟨rfl, by simp only []; omega, rfl, [.lit (buf.get! 0)], initOps (buf.get! 0), ?_,
        encode_pair_first p _⟩
      have hw0 : win buf 0 = [] := by simp [win]
      have hw1 : win buf (0 + 1) = [buf.get! 0] := by rw [win_succ buf 0 (by omega), hw0]
      simp only [encSyms, hw0, applySym, prevByte, matchByte, List.getElem?_nil, symOps_init, List.append_nil, Sym.len]
      rw [hw1]
      rfl
    · rw [if_neg hfirst]
      exact ⟨rfl, by simp only []; omega, rfl, [], [], rfl, encode_pair (LzmaEnc.new p) []⟩
  have hfin := forIn_except_inv (lzma1Body p dictSize 0 buf base tr) (EncInv p dictSize buf base) _
    (fun _ s => EncInv p dictSize buf base s) 0
    (fun i hi b hP => by
      have := lzma1Body_step p dictSize buf base tr (List.range' 0 [:tr.size].size)[i] b hP
      split <;> rename_i heq <;> rw [heq] at this <;> exact this)
    (fun b hP => hP) _ s hinit hloop
  obtain ⟨hstop, hle, hunc, syms, ops, henc, heo⟩ := hfin
  by_cases hcov : ((0 : Nat) == 0 && s.2.1 != buf.size - base) = true
  · rw [if_pos hcov] at hrest; cases hrest
  · rw [if_neg hcov] at hrest
    simp only [Bool.and_eq_true, beq_self_eq_true, true_and, bne_iff_ne, ne_eq, Decidable.not_not] at hcov
    simp only [pure, Except.pure, Except.ok.injEq, if_true] at hrest
    have hend : base + s.2.1 = buf.size := by omega
    rw [hend] at henc
    refine ⟨syms, ops, s.2.1, s.1.st, henc, ?_, by rw [← hrest]; exact hcov⟩
    rw [← hrest]
    simp only [LzmaEnc.flush, encode_eq, rcEncode, encOps_append, heo, hunc]

/-! ### with an output-size limit (MicroLZMA) -/

/-- invariant of the trace loop with an output limit: as `EncInv`, the `stopped` flag is free -/
def EncInvL (p : Props) (dictSize : Nat) (buf : ByteArray) (base : Nat) (s : EncLoopSt) : Prop :=
  base + s.2.1 ≤ buf.size ∧ s.1.uncompSize = s.2.1 ∧
    ∃ syms ops, encSyms p dictSize syms 0 {} (win buf base) = some (ops, s.2.1, s.1.st, win buf (base + s.2.1)) ∧
      encOps (initProbs p) Enc.init ops = (s.1.probs, s.1.rc)

theorem lzma1Body_stepL (p : Props) (dictSize outLimit : Nat) (buf : ByteArray) (base : Nat) (tr : Array TraceRec) (i : Nat)
    (s : EncLoopSt) (hinv : EncInvL p dictSize buf base s) :
    match lzma1Body p dictSize outLimit buf base tr i s with
    | .ok (.yield s') => EncInvL p dictSize buf base s'
    | .ok (.done s') => EncInvL p dictSize buf base s'
    | .error _ => True := by
  obtain ⟨hle, hunc, syms, ops, henc, heo⟩ := hinv
  unfold lzma1Body
  by_cases h0 : s.2.2.2 = true
  · rw [if_pos h0]; trivial
  rw [if_neg h0]
  by_cases h1 : (tr[i]!.kind == 1) = true
  · rw [if_pos h1]; trivial
  rw [if_neg h1]
  by_cases h2 : (tr[i]!.kind != 0) = true
  · rw [if_pos h2]; trivial
  rw [if_neg h2]
  by_cases h3 : (tr[i]!.pos != s.1.uncompSize % 4294967296) = true
  · rw [if_pos h3]; trivial
  rw [if_neg h3]
  cases hck : checkSym dictSize buf base s.2.1 s.1.st tr[i]!.back tr[i]!.len with
  | error e => trivial
  | ok x =>
    obtain ⟨sym, prev, mb⟩ := x
    obtain ⟨hsz, hprev, hmb, happ, hlen⟩ := checkSym_sound dictSize buf base s.2.1 s.1.st _ _ hck
    simp only [bind, Except.bind, pure, Except.pure]
    by_cases hd : (outLimit != 0 && encodeDummy s.1.probs s.1.rc (symOps p s.1.st s.1.uncompSize prev mb sym).1 outLimit) = true
    · rw [if_pos hd]
      by_cases hlast : (decide (i + 1 < tr.size) && tr[i + 1]!.kind == 1 && i + 2 == tr.size) = true
      · rw [if_pos hlast]; exact ⟨hle, hunc, syms, ops, henc, heo⟩
      · rw [if_neg hlast]; trivial
    · rw [if_neg hd]
      refine ⟨by simp only []; omega, by simp only [encode_eq]; omega, syms ++ [sym],
        ops ++ (symOps p s.1.st s.1.uncompSize prev mb sym).1, ?_, ?_⟩
      · rw [encSyms_append, henc]
        simp only [encSyms, happ, hunc, ← hprev, ← hmb, hlen, Nat.add_assoc, List.append_nil]
      · rw [encOps_append, heo]
        simp only [encode_eq]

/-- The executable LZMA1 encoder model with an output limit and without end marker (MicroLZMA): the accepted symbols are
    a valid description of the first `consumed` bytes, and the output is `rc_reset`, their operations, `rc_flush`. -/
theorem lzma1Encode_sound_limit (p : Props) (dictSize outLimit : Nat) (hlim : outLimit ≠ 0) (buf : ByteArray) (base : Nat)
    (tr : Array TraceRec) (res : EncResult) (hbase : base ≤ buf.size)
    (h : lzma1Encode p dictSize false outLimit buf base tr = .ok res) :
    ∃ syms ops posF stF, encSyms p dictSize syms 0 {} (win buf base) = some (ops, posF, stF, win buf (base + res.consumed)) ∧
      res.out = (rcEncode (initProbs p) ops).1 ∧ base + res.consumed ≤ buf.size := by
  rw [lzma1Encode_eq] at h
  obtain ⟨s, hloop, hrest⟩ := except_bind_ok h
  have hinit : EncInvL p dictSize buf base
      (if (base == 0 && decide (buf.size - base > 0)) = true then
        (({ (LzmaEnc.new p).encode (initOps (buf.get! 0)) with uncompSize := 1 }, 1, 1, false) : EncLoopSt)
       else (LzmaEnc.new p, 0, 0, false)) := by
    by_cases hfirst : (base == 0 && decide (buf.size - base > 0)) = true
    · rw [if_pos hfirst]
      simp only [Bool.and_eq_true, beq_iff_eq, decide_eq_true_eq] at hfirst
      obtain ⟨rfl, hpos⟩ := hfirst
      refine ⟨by simp only []; omega, rfl, [.lit (buf.get! 0)], initOps (buf.get! 0), ?_, encode_pair_first p _⟩
      have hw0 : win buf 0 = [] := by simp [win]
      have hw1 : win buf (0 + 1) = [buf.get! 0] := by rw [win_succ buf 0 (by omega), hw0]
      simp only [encSyms, hw0, applySym, prevByte, matchByte, List.getElem?_nil, symOps_init, List.append_nil, Sym.len]
      rw [hw1]
      rfl
    · rw [if_neg hfirst]
      exact ⟨by simp only []; omega, rfl, [], [], rfl, encode_pair (LzmaEnc.new p) []⟩
  have hfin := forIn_except_inv (lzma1Body p dictSize outLimit buf base tr) (EncInvL p dictSize buf base) _
    (fun _ s => EncInvL p dictSize buf base s) 0
    (fun i hi b hP => by
      have := lzma1Body_stepL p dictSize outLimit buf base tr (List.range' 0 [:tr.size].size)[i] b hP
      split <;> rename_i heq <;> rw [heq] at this <;> exact this)
    (fun b hP => hP) _ s hinit hloop
  obtain ⟨hle, hunc, syms, ops, henc, heo⟩ := hfin
  have hl0 : (outLimit == 0) = false := by simpa using hlim
  simp only [hl0, Bool.false_and, Bool.false_eq_true, if_false, pure, Except.pure, Except.ok.injEq] at hrest
  refine ⟨syms, ops, s.2.1, s.1.st, by rw [← hrest]; exact henc, ?_, by rw [← hrest]; exact hle⟩
  rw [← hrest]
  simp only [LzmaEnc.flush, rcEncode, heo]

end XzVerif.LzmaExec
