/-
  LiveInv: preservation by the worker transitions.
-/
import XzVerif.Lemmas.MtDecLive2

namespace XzVerif.MtDec

/-- A step that replaces worker `i` by `w'` (same ownership, same input amounts) and leaves queue and main thread alone. -/
theorem LiveInv.setWQ' {s s' : State} (h : LiveInv s) (i : Nat) (hi : i < s.workers.length) (w' : Worker)
    (ew : s'.workers = (MtDec.setW s i w').workers) (eq : s'.queue = s.queue) (ep : s'.pc = s.pc) (es : s'.seq = s.seq)
    (et : s'.thr = s.thr) (eb : s'.blocks = s.blocks) (ec : s'.cur = s.cur) (ecf : s'.cfg = s.cfg)
    (hfree : s.threadsFree ≠ [] → s'.threadsFree ≠ [])
    (e_has : w'.hasOut = (getW s i).hasOut) (e_blk : w'.blk = (getW s i).blk)
    (h_full : w'.hasOut = true → s.thr ≠ some i → w'.inFilled = w'.inSize)
    (h_run : w'.hasOut = true → beforeVerdict w'.pc → w'.st = .run ∨ (s.pc = .init4 ∧ s.thr = some i))
    (h_pu : (getW s i).pu ≠ .disabled → w'.pu ≠ .disabled)
    (h_pub : w'.hasOut = true → atLoop w'.pc → w'.pu = .enabled → ∀ o ∈ s.queue, o.blk = w'.blk → o.decInPos = w'.inPos)
    (h_snap : ∀ lim, w'.pc = .decode lim .disabled → w'.pu ≠ .enabled)
    (h_pos : w'.hasOut = true → beforeVerdict w'.pc → w'.inPos < w'.inSize) : LiveInv s' := by
  have eg : ∀ j, getW s' j = if i = j then w' else getW s j := by
    intro j
    have : getW s' j = getW (MtDec.setW s i w') j := by simp [getW, ew]
    rw [this, getW_setW s i j w' hi]
  have el : s'.workers.length = s.workers.length := by rw [ew]; simp
  have eo : ∀ o j, Owner s' o j ↔ Owner s o j := by
    intro o j
    unfold Owner
    rw [el, eg]
    by_cases e : i = j
    · subst e; simp only [if_true, e_has, e_blk]
    · simp only [e, if_false]
  have ebk : ∀ j, blk s' j = blk s j := fun j => by simp [blk, eb]
  refine ⟨?_, ?_, ?_, ?_, ?_, ?_, ?_, ?_, ?_, ?_, ?_, ?_, ?_, ?_, ?_⟩
  · intro o ho hf
    obtain ⟨j, hj⟩ := h.own o (eq ▸ ho) hf
    exact ⟨j, (eo o j).mpr hj⟩
  · intro j hj
    rw [el] at hj; rw [eg, ep, et]
    by_cases e : i = j
    · subst e; simp only [if_true]; exact h_run
    · simp only [e, if_false]; exact h.run j hj
  · intro o ho w hw hf
    exact (eo o w).mpr (h.wrk o (eq ▸ ho) w hw hf)
  · intro hh t hq; rw [eq] at hq; exact h.tailW hh t hq
  · intro hh t hq hf
    rw [eq] at hq
    rcases h.head hh t hq hf with ⟨a, b⟩ | ⟨a, b, c⟩
    · refine Or.inl ⟨a, fun j hj => ?_⟩
      have hj' := (eo hh j).mp hj
      rw [eg]
      by_cases e : i = j
      · subst e; simp only [if_true]; exact h_pu (b i hj')
      · simp only [e, if_false]; exact b j hj'
    · exact Or.inr ⟨a, ep ▸ b, c⟩
  · intro j hj
    rw [el] at hj; rw [eg, eq]
    by_cases e : i = j
    · subst e; simp only [if_true]; exact h_pub
    · simp only [e, if_false]; exact h.pub j hj
  · intro j hj
    rw [el] at hj; rw [eg]
    by_cases e : i = j
    · subst e; simp only [if_true]; exact h_snap
    · simp only [e, if_false]; exact h.snap j hj
  · intro j hj
    rw [el] at hj; rw [eg, et]
    by_cases e : i = j
    · subst e; simp only [if_true]; exact h_full
    · simp only [e, if_false]; exact h.full j hj
  · intro j hj
    rw [el] at hj; rw [eg]
    by_cases e : i = j
    · subst e; simp only [if_true]; exact h_pos
    · simp only [e, if_false]; exact h.pos j hj
  · rw [es, ep, et]; exact h.thr0
  · rw [es, ep, ec, ebk]; exact h.kindThr
  · rw [es, ec, ebk]; exact h.kindInit
  · rw [es, et]; exact h.thrSome
  · rw [ep, et]; exact h.thr5
  · rw [ep, el, ecf]
    intro hx
    rcases h.canGet hx with e | e
    · exact Or.inl e
    · exact Or.inr (hfree e)

theorem LiveInv.setWQ {s s' : State} (h : LiveInv s) (i : Nat) (hi : i < s.workers.length) (w' : Worker)
    (ew : s'.workers = (MtDec.setW s i w').workers) (eq : s'.queue = s.queue) (ep : s'.pc = s.pc) (es : s'.seq = s.seq)
    (et : s'.thr = s.thr) (eb : s'.blocks = s.blocks) (ec : s'.cur = s.cur) (ecf : s'.cfg = s.cfg)
    (hfree : s.threadsFree ≠ [] → s'.threadsFree ≠ [])
    (e_has : w'.hasOut = (getW s i).hasOut) (e_blk : w'.blk = (getW s i).blk)
    (e_inF : w'.inFilled = (getW s i).inFilled) (e_inS : w'.inSize = (getW s i).inSize)
    (h_run : w'.hasOut = true → beforeVerdict w'.pc → w'.st = .run ∨ (s.pc = .init4 ∧ s.thr = some i))
    (h_pu : (getW s i).pu ≠ .disabled → w'.pu ≠ .disabled)
    (h_pub : w'.hasOut = true → atLoop w'.pc → w'.pu = .enabled → ∀ o ∈ s.queue, o.blk = w'.blk → o.decInPos = w'.inPos)
    (h_snap : ∀ lim, w'.pc = .decode lim .disabled → w'.pu ≠ .enabled)
    (h_pos : w'.hasOut = true → beforeVerdict w'.pc → w'.inPos < w'.inSize) : LiveInv s' :=
  h.setWQ' i hi w' ew eq ep es et eb ec ecf hfree e_has e_blk
    (fun ho ht => by rw [e_inF, e_inS]; exact h.full i hi (e_has ▸ ho) ht) h_run h_pu h_pub h_snap h_pos

theorem workerDecide_pc_cases (w : Worker) :
    ((workerDecide w).pc = .wait ∧ (workerDecide w).woken = false) ∨ (workerDecide w).pc = .cleanup ∨
    ((workerDecide w).pc = .decode w.inFilled w.pu ∧ w.st = .run) := by
  unfold workerDecide
  split
  · exact Or.inl ⟨rfl, rfl⟩
  · exact Or.inr (Or.inl rfl)
  · rename_i h
    split
    · exact Or.inl ⟨rfl, rfl⟩
    · exact Or.inr (Or.inr ⟨rfl, h⟩)

theorem workerDecide_inPos (w : Worker) : (workerDecide w).inPos = w.inPos := by
  unfold workerDecide; split <;> (try split) <;> rfl

theorem LiveInv.wLoop {s s' : State} (h : LiveInv s) (i : Nat) (c : Cause) (hs : step s (.wLoop i c) = some s') :
    LiveInv s' := by
  simp only [step] at hs
  split at hs
  case isFalse => cases hs
  rename_i hi
  have key : s' = MtDec.setW s i (workerDecide (getW s i)) ∧ atLoop (getW s i).pc := by
    split at hs
    · rename_i hp _; injection hs with hs; exact ⟨hs.symm, Or.inl (by assumption)⟩
    · rename_i hp _
      split at hs
      · injection hs with hs; exact ⟨hs.symm, Or.inr (by assumption)⟩
      · cases hs
    · rename_i hp _; injection hs with hs; exact ⟨hs.symm, Or.inr (by assumption)⟩
    · cases hs
  obtain ⟨rfl, hat⟩ := key
  have hbv : beforeVerdict (getW s i).pc := by rcases hat with e | e <;> (rw [e]; trivial)
  refine h.setWQ i hi _ rfl rfl rfl rfl rfl rfl rfl rfl (fun x => x) (workerDecide_hasOut _) (workerDecide_blk _)
    (workerDecide_inFilled _) (workerDecide_inSize _) ?_ ?_ ?_ ?_ ?_
  · intro ho _
    rw [workerDecide_st]
    exact h.run i hi (workerDecide_hasOut _ ▸ ho) hbv
  · intro hx; rw [workerDecide_pu]; exact hx
  · intro ho _ hpu o hoq hb
    rw [workerDecide_inPos]
    rw [workerDecide_blk] at hb
    exact h.pub i hi (workerDecide_hasOut _ ▸ ho) hat (workerDecide_pu _ ▸ hpu) o hoq hb
  · intro lim hp
    rw [workerDecide_pu]
    have := workerDecide_decode _ lim .disabled hp
    rw [← this]; simp
  · intro ho _
    rw [workerDecide_inPos, workerDecide_inSize]
    exact h.pos i hi (workerDecide_hasOut _ ▸ ho) hbv

theorem LiveInv.wDecode {s s' : State} (h : LiveInv s) (hD : DataInv s) (i a b : Nat) (v : Bool)
    (hs : step s (.wDecode i a b v) = some s') : LiveInv s' := by
  simp only [step] at hs
  split at hs
  case isFalse => cases hs
  rename_i hi
  have hw := hD.wk i hi
  split at hs
  case h_2 => cases hs
  rename_i lim pu hpc
  split at hs
  case isFalse => cases hs
  rename_i hg
  simp only [Bool.and_eq_true, decide_eq_true_eq, Bool.or_eq_true] at hg
  have hpcI := hw.pcInv
  rw [hpc] at hpcI
  simp only at hpcI
  have hown := hpcI.1
  have hsz := (hw.has hown).1
  have hrun := h.run i hi hown (by rw [hpc]; trivial)
  have base : ∀ pc' pu', (pu' = (getW s i).pu ∨ pu' = .enabled) →
      (beforeVerdict pc' → a < (blk s (getW s i).blk).inSize) →
      (atLoop pc' → pu' = .enabled → False) → (∀ l, pc' ≠ .decode l .disabled) →
      LiveInv (MtDec.setW s i { getW s i with inPos := a, outPos := b, pu := pu', pc := pc' }) := by
    intro pc' pu' hpu' hpos hat hnd
    refine h.setWQ i hi _ rfl rfl rfl rfl rfl rfl rfl rfl (fun x => x) rfl rfl rfl rfl ?_ ?_ ?_ ?_ ?_
    · intro _ _; exact hrun
    · intro hx
      rcases hpu' with e | e
      · rw [e]; exact hx
      · rw [e]; simp
    · intro _ hl hp; exact (hat hl hp).elim
    · intro l hp; exact absurd hp (hnd l)
    · intro _ hbv
      show a < (getW s i).inSize
      rw [hsz]; exact hpos hbv
  split at hs
  · split at hs
    case isFalse => cases hs
    cases hs
    exact base _ _ (Or.inl rfl) (fun x => by cases x) (fun x => by rcases x with e | e <;> cases e) (fun l hp => by cases hp)
  · rename_i hv
    have hlt : a < (blk s (getW s i).blk).inSize := by
      rcases hg.2 with e | e
      · exact absurd e hv
      · exact e
    split at hs
    · cases hs
      exact base _ _ (Or.inr rfl) (fun _ => hlt) (fun x => by rcases x with e | e <;> cases e) (fun l hp => by cases hp)
    · rename_i hpud
      cases hs
      have hpd : pu = .disabled := by simpa using hpud
      subst hpd
      refine base _ _ (Or.inl rfl) (fun _ => hlt) ?_ (fun l hp => by cases hp)
      intro _ hp
      exact h.snap i hi lim hpc hp

theorem LiveInv.wFinA {s s' : State} (h : LiveInv s) (l : Label) (i : Nat)
    (hl : l = .wFin1 i ∨ l = .wFin2 i ∨ l = .wCleanup i) (hs : step s l = some s') : LiveInv s' := by
  rcases hl with rfl | rfl | rfl <;> simp only [step] at hs
  · split at hs
    case isFalse => cases hs
    rename_i hi
    split at hs
    case h_2 => cases hs
    cases hs
    exact h.setWQ i hi _ rfl rfl rfl rfl rfl rfl rfl rfl (fun x => x) rfl rfl rfl rfl (fun _ x => by cases x)
      (fun x => x) (fun _ x => by rcases x with e | e <;> cases e) (fun l hp => by cases hp) (fun _ x => by cases x)
  · split at hs
    case isFalse => cases hs
    rename_i hi
    split at hs
    case h_2 => cases hs
    cases hs
    exact h.setWQ i hi _ rfl rfl rfl rfl rfl rfl rfl rfl (fun x => x) rfl rfl rfl rfl (fun _ x => by cases x)
      (fun x => x) (fun _ x => by rcases x with e | e <;> cases e) (fun l hp => by cases hp) (fun _ x => by cases x)
  · split at hs
    case isFalse => cases hs
    rename_i hg
    simp only [Bool.and_eq_true, decide_eq_true_eq] at hg
    cases hs
    exact h.setWQ i hg.1 _ rfl rfl rfl rfl rfl rfl rfl rfl (fun x => x) rfl rfl rfl rfl (fun _ x => by cases x)
      (fun x => x) (fun _ x => by rcases x with e | e <;> cases e) (fun l hp => by cases hp) (fun _ x => by cases x)

theorem updOut_cons (a : Outbuf) (t : List Outbuf) (b : Nat) (f : Outbuf → Outbuf) :
    updOut (a :: t) b f = (if a.blk = b then f a else a) :: updOut t b f := by
  simp [updOut]

/-- Worker `i` (owner of the outbuf of its Block) writes that outbuf under coder->mutex and goes back to `top`; `fin` tells
    whether it marks it finished and gives up ownership (wFin3) or only publishes progress (wPublish). -/
theorem LiveInv.workerWrites {s s' : State} (h : LiveInv s) (hD : DataInv s) (i : Nat) (hi : i < s.workers.length)
    (fin : Bool) (r : Ret) (w' : Worker)
    (hbv : beforeVerdict (getW s i).pc ∨ fin = true) (hown : (getW s i).hasOut = true)
    (ew : s'.workers = (MtDec.setW s i w').workers)
    (eq : s'.queue = updOut s.queue (getW s i).blk (fun o =>
      { o with pos := (getW s i).outPos, decInPos := (getW s i).inPos, finished := if fin then true else o.finished,
               finishRet := if fin then r else o.finishRet }))
    (ep : s'.pc = s.pc) (es : s'.seq = s.seq) (et : s'.thr = s.thr) (eb : s'.blocks = s.blocks) (ec : s'.cur = s.cur)
    (ecf : s'.cfg = s.cfg) (hfree : s.threadsFree ≠ [] → s'.threadsFree ≠ [])
    (e1 : w'.hasOut = !fin) (e2 : w'.blk = (getW s i).blk) (e3 : w'.pc = .top) (e4 : w'.st = (getW s i).st)
    (e5 : w'.pu = (getW s i).pu) (e6 : w'.inPos = (getW s i).inPos) (e7 : w'.inFilled = (getW s i).inFilled)
    (e8 : w'.inSize = (getW s i).inSize) : LiveInv s' := by
  have hwi := hD.wk i hi
  have hhas := hwi.has hown
  have eg : ∀ j, getW s' j = if i = j then w' else getW s j := by
    intro j
    have : getW s' j = getW (MtDec.setW s i w') j := by simp [getW, ew]
    rw [this, getW_setW s i j w' hi]
  have el : s'.workers.length = s.workers.length := by rw [ew]; simp
  have ebk : ∀ j, blk s' j = blk s j := fun j => by simp [blk, eb]
  -- membership in the new queue
  have mem' : ∀ o', o' ∈ s'.queue → ∃ o ∈ s.queue,
      (o.blk = (getW s i).blk ∧ o'.blk = o.blk ∧ o'.worker = o.worker ∧ o'.decInPos = (getW s i).inPos ∧
        o'.finished = (if fin then true else o.finished)) ∨ (o'.blk ≠ (getW s i).blk ∧ o' ∈ s.queue) := by
    intro o' ho'
    rw [eq] at ho'
    obtain ⟨o, ho, (⟨e, he⟩ | ⟨e, he⟩)⟩ := mem_updOut ho'
    · exact ⟨o, ho, Or.inl ⟨e, by rw [he], by rw [he], by rw [he], by rw [he]⟩⟩
    · exact ⟨o, ho, Or.inr ⟨by rw [he]; exact e, by rw [he]; exact ho⟩⟩
  have other : ∀ j, j < s.workers.length → (getW s j).hasOut = true → (getW s j).blk ≠ (getW s i).blk → i ≠ j :=
    fun j _ _ hne e => hne (e ▸ rfl)
  have ownerT : ∀ o j, o.blk ≠ (getW s i).blk → Owner s o j → Owner s' o j := by
    intro o j hne ⟨a, b, c⟩
    have hij : i ≠ j := fun e => hne (by rw [← c, e])
    exact ⟨el ▸ a, by rw [eg]; simp only [hij, if_false]; exact b, by rw [eg]; simp only [hij, if_false]; exact c⟩
  refine ⟨?_, ?_, ?_, ?_, ?_, ?_, ?_, ?_, ?_, ?_, ?_, ?_, ?_, ?_, ?_⟩
  · -- own
    intro o' ho' hf
    obtain ⟨o, ho, (⟨e, eb', _, _, efin⟩ | ⟨e, ho2⟩)⟩ := mem' o' ho'
    · cases hfin : fin with
      | true => rw [hfin] at efin; simp at efin; rw [efin] at hf; cases hf
      | false =>
        refine ⟨i, el ▸ hi, ?_, ?_⟩
        · rw [eg]; simp only [if_true, e1, hfin]; rfl
        · rw [eg]; simp only [if_true, e2, eb', e]
    · obtain ⟨j, hj⟩ := h.own o' ho2 hf
      exact ⟨j, ownerT o' j e hj⟩
  · -- run
    intro j hj
    rw [el] at hj; rw [eg, ep, et]
    by_cases e : i = j
    · subst e
      simp only [if_true, e3, e4]
      intro ho _
      rcases hbv with hb | hb
      · exact h.run i hi hown hb
      · rw [e1, hb] at ho; cases ho
    · simp only [e, if_false]; exact h.run j hj
  · -- wrk
    intro o' ho' w hw hf
    obtain ⟨o, ho, (⟨e, eb', ewk, _, efin⟩ | ⟨e, ho2⟩)⟩ := mem' o' ho'
    · cases hfin : fin with
      | true => rw [hfin] at efin; simp at efin; rw [efin] at hf; cases hf
      | false =>
        rw [hfin] at efin; simp at efin
        have ho1 := h.wrk o ho w (ewk ▸ hw) (efin ▸ hf)
        -- the owner of this outbuf is worker i
        have hwi' : w = i := by
          by_cases e' : w = i
          · exact e'
          · exfalso
            exact hD.distinct w i ho1.1 hi e' ho1.2.1 hown (by rw [ho1.2.2, e])
        subst hwi'
        refine ⟨el ▸ hi, ?_, ?_⟩
        · rw [eg]; simp only [if_true, e1, hfin]; rfl
        · rw [eg]; simp only [if_true, e2, eb', e]
    · exact ownerT o' w e (h.wrk o' ho2 w hw hf)
  · -- tailW
    intro hh t hq o ho
    rw [eq] at hq
    cases hq0 : s.queue with
    | nil => rw [hq0] at hq; simp [updOut] at hq
    | cons a tl =>
      rw [hq0, updOut_cons] at hq
      injection hq with _ ht
      rw [← ht] at ho
      obtain ⟨o0, ho0, (⟨_, he⟩ | ⟨_, he⟩)⟩ := mem_updOut ho
      · rw [he]; exact h.tailW a tl hq0 o0 ho0
      · rw [he]; exact h.tailW a tl hq0 o0 ho0
  · -- head
    intro hh t hq hf
    rw [eq] at hq
    cases hq0 : s.queue with
    | nil => rw [hq0] at hq; simp [updOut] at hq
    | cons a tl =>
      rw [hq0, updOut_cons] at hq
      injection hq with hh' ht
      by_cases e : a.blk = (getW s i).blk
      · simp only [e, if_true] at hh'
        cases hfin : fin with
        | true => rw [← hh', hfin] at hf; simp at hf
        | false =>
          have haf : a.finished = false := by rw [← hh', hfin] at hf; simpa using hf
          rcases h.head a tl hq0 haf with ⟨x, y⟩ | ⟨x, y, z⟩
          · refine Or.inl ⟨by rw [← hh']; exact x, ?_⟩
            intro j ⟨ja, jb, jc⟩
            rw [eg] at jb jc ⊢
            by_cases e' : i = j
            · subst e'; simp only [if_true, e5]; exact y i ⟨hi, hown, e.symm⟩
            · simp only [e', if_false] at jb jc ⊢
              exact y j ⟨el ▸ ja, jb, by rw [jc, ← hh']; exact e.symm⟩
          · refine Or.inr ⟨by rw [← hh']; exact x, ep ▸ y, ?_⟩
            rw [← ht, z]; rfl
      · simp only [e, if_false] at hh'
        subst hh'
        rcases h.head a tl hq0 hf with ⟨x, y⟩ | ⟨x, y, z⟩
        · refine Or.inl ⟨x, ?_⟩
          intro j ⟨ja, jb, jc⟩
          rw [eg] at jb jc ⊢
          by_cases e' : i = j
          · subst e'; simp only [if_true] at jc; exact absurd (jc.symm.trans e2) e
          · simp only [e', if_false] at jb jc ⊢
            exact y j ⟨el ▸ ja, jb, jc⟩
        · refine Or.inr ⟨x, ep ▸ y, ?_⟩
          rw [← ht, z]; rfl
  · -- pub
    intro j hj
    rw [el] at hj; rw [eg]
    by_cases e : i = j
    · subst e
      simp only [if_true, e2, e5, e6]
      intro _ _ _ o' ho' hb
      obtain ⟨o, ho, (⟨_, _, _, edec, _⟩ | ⟨e', _⟩)⟩ := mem' o' ho'
      · exact edec
      · exact absurd hb e'
    · simp only [e, if_false]
      intro hjo hl hpu o' ho' hb
      obtain ⟨o, ho, (⟨e', eb', _, _, _⟩ | ⟨_, ho2⟩)⟩ := mem' o' ho'
      · exfalso
        exact hD.distinct i j hi hj e hown hjo (by rw [← hb, eb', e'])
      · exact h.pub j hj hjo hl hpu o' ho2 hb
  · -- snap
    intro j hj
    rw [el] at hj; rw [eg]
    by_cases e : i = j
    · subst e; simp only [if_true, e3]; intro l hp; cases hp
    · simp only [e, if_false]; exact h.snap j hj
  · -- full
    intro j hj
    rw [el] at hj; rw [eg, et]
    by_cases e : i = j
    · subst e
      simp only [if_true, e7, e8]
      intro _ ht
      exact h.full i hi hown ht
    · simp only [e, if_false]; exact h.full j hj
  · -- pos
    intro j hj
    rw [el] at hj; rw [eg]
    by_cases e : i = j
    · subst e
      simp only [if_true, e6, e8]
      intro ho _
      rcases hbv with hb | hb
      · exact h.pos i hi hown hb
      · rw [e1, hb] at ho; cases ho
    · simp only [e, if_false]; exact h.pos j hj
  · rw [es, ep, et]; exact h.thr0
  · rw [es, ep, ec, ebk]; exact h.kindThr
  · rw [es, ec, ebk]; exact h.kindInit
  · rw [es, et]; exact h.thrSome
  · rw [ep, et]; exact h.thr5
  · rw [ep, el, ecf]
    intro hx
    rcases h.canGet hx with e | e
    · exact Or.inl e
    · exact Or.inr (hfree e)

theorem LiveInv.wPublish {s s' : State} (h : LiveInv s) (hD : DataInv s) (i : Nat) (hs : step s (.wPublish i) = some s') :
    LiveInv s' := by
  simp only [step] at hs
  split at hs
  case isFalse => cases hs
  rename_i hg
  simp only [Bool.and_eq_true, decide_eq_true_eq] at hg
  obtain ⟨hi, hpc⟩ := hg
  cases hs
  have hown : (getW s i).hasOut = true := by have := (hD.wk i hi).pcInv; rw [hpc] at this; exact this
  exact h.workerWrites hD i hi false END { getW s i with pc := .top } (Or.inl (by rw [hpc]; trivial)) hown rfl
    (by simp [signalMain]) rfl rfl rfl rfl rfl rfl (fun x => x) (by simp [hown]) rfl rfl rfl rfl rfl rfl rfl

theorem LiveInv.wFin3 {s s' : State} (h : LiveInv s) (hD : DataInv s) (i : Nat) (hs : step s (.wFin3 i) = some s') :
    LiveInv s' := by
  simp only [step] at hs
  split at hs
  case isFalse => cases hs
  rename_i hi
  split at hs
  case h_2 => cases hs
  rename_i r hpc
  have hown : (getW s i).hasOut = true := by have := (hD.wk i hi).pcInv; rw [hpc] at this; exact this.1
  have fin : ∀ s2 : State,
      s2.workers = (MtDec.setW s i { getW s i with hasOut := false, failed := r != END, pc := .top }).workers →
      s2.queue = updOut s.queue (getW s i).blk (fun o =>
        { o with pos := (getW s i).outPos, decInPos := (getW s i).inPos, finished := true, finishRet := r }) →
      s2.pc = s.pc → s2.seq = s.seq → s2.thr = s.thr → s2.blocks = s.blocks → s2.cur = s.cur → s2.cfg = s.cfg →
      (s.threadsFree ≠ [] → s2.threadsFree ≠ []) → LiveInv s2 := by
    intro s2 e1 e2 e3 e4 e5 e6 e7 e8 e9
    exact h.workerWrites hD i hi true r { getW s i with hasOut := false, failed := r != END, pc := .top } (Or.inr rfl) hown
      e1 (by rw [e2]; rfl) e3 e4 e5 e6 e7 e8 e9 rfl rfl rfl rfl rfl rfl rfl rfl
  by_cases hend : r = END
  · simp only [hend, bne_self_eq_false, Bool.false_and, Bool.false_eq_true, if_false, if_true] at hs
    cases hs
    subst hend
    exact fin _ rfl rfl rfl rfl rfl rfl rfl rfl (fun _ => by simp [signalMain])
  · simp only [hend, if_false] at hs
    cases hs
    split <;> exact fin _ rfl rfl rfl rfl rfl rfl rfl rfl (fun x => x)

theorem LiveInv.worker {s s' : State} {l : Label} (h : LiveInv s) (hD : DataInv s) (hl : l.worker?.isSome = true)
    (hs : step s l = some s') : LiveInv s' := by
  cases l <;> simp only [Label.worker?, Option.isSome, reduceCtorEq] at hl
  case wLoop i c => exact h.wLoop i c hs
  case wDecode i a b v => exact h.wDecode hD i a b v hs
  case wPublish i => exact h.wPublish hD i hs
  case wFin1 i => exact h.wFinA _ i (Or.inl rfl) hs
  case wFin2 i => exact h.wFinA _ i (Or.inr (Or.inl rfl)) hs
  case wFin3 i => exact h.wFin3 hD i hs
  case wCleanup i => exact h.wFinA _ i (Or.inr (Or.inr rfl)) hs

end XzVerif.MtDec
