/-
  C01, executable decoder ↔ specification decoder, part 8: one call of `lzma_decode` (`Lzma.lzmaCall`).
  `CallSt`: the state between calls — in step with the specification, a possibly pending output step, the operations of
  the remaining symbols in the channel, `n` bytes still to produce. A call either ends the stream (`n` fits below
  `dict.limit`) or fills the dictionary and returns LZMA_OK with `n − room` bytes left.
-/
import XzVerif.Lemmas.Lzma1ExecLoop

namespace XzVerif.LzmaExec
open XzVerif.RangeDec XzVerif.RangeEnc XzVerif.RangeCoder XzVerif.LzDict XzVerif.Lzma XzVerif.LzmaEnc XzVerif.LzmaSymDec
open XzVerif.LzmaSym XzVerif.LzmaSpec

structure CallSt (p : Props) (dictSize k : Nat) (eopm : Bool) (tail : List UInt8) (psF : Probs) (s : St) (n posF : Nat)
    (stF : SymSt) (rbF : List UInt8) : Prop where
  work : ∃ pos st rb m rb3 syms ps rc rest ops,
    Sim p dictSize k s pos st rb ∧ PendOk s st rb s.pending m rb3 ∧ RepOk s st ∧ View s ps rc rest ∧
    encSyms p dictSize syms (pos + m) st rb3 = some (ops, posF, stF, rbF) ∧
    Chan ps rc rest (ops.map (opRename (ctxMap p k)) ++ endOps p k eopm stF posF) tail psF ∧ n = m + symsLen syms
  initLeft : s.initLeft = 0
  modeA : eopm = true → s.uncomp = none
  modeB : eopm = false → s.uncomp = some n

/-- what a call leaves alone -/
structure KeepC (s t : St) : Prop where
  inp : t.inp = s.inp
  allowEopm : t.allowEopm = s.allowEopm
  eopmValid : t.eopmValid = s.eopmValid
  outBase : t.outBase = s.outBase
  l2 : t.l2 = s.l2
  limit : t.dp.limit = s.dp.limit
  size : t.dp.size = s.dp.size
  needReset : t.dp.needReset = s.dp.needReset
  grow : s.hist.size ≤ t.hist.size
  histpos : t.hist.size + s.dp.pos = s.hist.size + t.dp.pos
  inPosMono : s.inPos ≤ t.inPos

/-- the state after the call that ended the stream / the chunk -/
structure EndSt (p : Props) (dictSize k : Nat) (eopm : Bool) (tail : List UInt8) (psF : Probs) (s sF : St) (n posF : Nat)
    (stF : SymSt) (rbF : List UInt8) : Prop where
  sim : ∃ stF', Sim p dictSize k sF posF stF' rbF ∧ (eopm = false → stF' = stF ∧ sF.probs = psF ∧ RepOk sF stF)
  inPos : sF.inPos + tail.length = sF.inp.size
  rest : tail = sF.inp.data.toList.drop sF.inPos
  range : sF.range = UINT32_MAX
  code : sF.code = 0
  initLeft : sF.initLeft = 5
  pending : sF.pending = .none
  uncomp : sF.uncomp = s.uncomp.map (· - n)
  pos : sF.dp.pos = s.dp.pos + n
  keep : KeepC s sF

theorem rcReadInit_zero (s : St) (h : s.initLeft = 0) : rcReadInit s = .ok true s := by
  unfold rcReadInit; rw [h]; rfl

theorem lzmaFinish_end (sF : St) (L start : Nat) (u0 : Option Nat) :
    lzmaFinish (EStateM.Result.error Exit.streamEnd sF) L start u0 =
      (Ret.streamEnd, { sF with dp := { sF.dp with limit := L }, uncomp := u0.map (· - (sF.hist.size - start)),
                                range := UINT32_MAX, code := 0, initLeft := 5, pending := Pending.none }) := by
  simp only [lzmaFinish, exitRet, exitPending, resSt, show (Ret.streamEnd == Ret.ok) = false from rfl, Bool.and_false,
    Bool.false_eq_true, if_false, show (Ret.streamEnd == Ret.streamEnd) = true from rfl, if_true]

theorem lzmaFinish_full (s2 : St) (pend : Pending) (L start : Nat) (u0 : Option Nat)
    (h : (u0.map (· - (s2.hist.size - start)) == some 0) = false) :
    lzmaFinish (EStateM.Result.error (Exit.outFull pend) s2) L start u0 =
      (Ret.ok, { s2 with dp := { s2.dp with limit := L }, uncomp := u0.map (· - (s2.hist.size - start)), pending := pend }) := by
  simp only [lzmaFinish, exitRet, exitPending, resSt, h, Bool.false_and, Bool.false_eq_true, if_false,
    show (Ret.ok == Ret.streamEnd) = false from rfl]

theorem call_run (p : Props) (hp : PropsOk p) (dictSize : Nat) (hd : dictSize ≤ 4294967295) (k : Nat) (eopm : Bool)
    (tail : List UInt8) (psF : Probs) (s : St) (n posF : Nat) (stF : SymSt) (rbF : List UInt8)
    (hc : CallSt p dictSize k eopm tail psF s n posF stF rbF) :
    (n ≤ s.dp.limit - s.dp.pos ∧ ∃ sF, lzmaCall s = (.streamEnd, sF) ∧ EndSt p dictSize k eopm tail psF s sF n posF stF rbF) ∨
    (s.dp.limit - s.dp.pos < n ∧ ∃ s2, lzmaCall s = (.ok, s2) ∧
      CallSt p dictSize k eopm tail psF s2 (n - (s.dp.limit - s.dp.pos)) posF stF rbF ∧ s2.dp.pos = s.dp.limit ∧ KeepC s s2) := by
  obtain ⟨⟨pos, st, rb, m, rb3, syms, ps, rc, rest, ops, hs, hpend, hr, hv, henc, hchan, hn⟩, hinit, hmA, hmB⟩ := hc
  have hstuck : (s.pending == Pending.stuck) = false := by
    cases hpd : s.pending with
    | stuck => rw [hpd] at hpend; exact absurd hpend id
    | none => rfl
    | litWrite _ => rfl
    | shortRep => rfl
    | copy _ => rfl
  have hwin := hs.win
  have hpl := hwin.pos_le
  have hll := hwin.limit_le
  -- the per-call quantities
  have hclamp : clampedLimit s = if eopm = false ∧ n ≤ s.dp.limit - s.dp.pos then s.dp.pos + n else s.dp.limit := by
    unfold clampedLimit
    cases heo : eopm with
    | true => rw [hmA heo]; simp
    | false =>
      rw [hmB heo]
      by_cases hfit : n ≤ s.dp.limit - s.dp.pos <;> simp [hfit]
  have hmf : mightFinish s = (eopm = false ∧ n ≤ s.dp.limit - s.dp.pos : Bool) := by
    unfold mightFinish
    cases heo : eopm with
    | true => rw [hmA heo]; simp
    | false => rw [hmB heo]; simp
  have hev : eopm = true → (s.uncomp.isNone || s.eopmValid) = true := by
    intro heo; rw [hmA heo]; rfl
  generalize hL : clampedLimit s = L at hclamp
  generalize hMF : mightFinish s = mf at hmf
  generalize hEV : (s.uncomp.isNone || s.eopmValid) = ev at hev
  have hLle : L ≤ s.dp.limit := by rw [hclamp]; split <;> omega
  have hLge : s.dp.pos ≤ L := by rw [hclamp]; split <;> omega
  -- the state the loop starts from
  have hs1 : Sim p dictSize k { s with dp := { s.dp with limit := L }, pending := Pending.none } pos st rb := by
    obtain ⟨hlc, hlp, hpb, hst, hstlt, hw, hk⟩ := hs
    obtain ⟨a, b, c, d, e, f, g, i⟩ := hw
    exact ⟨hlc, hlp, hpb, ⟨hst.state, hst.rep0, hst.rep1, hst.rep2, hst.rep3⟩, hstlt,
      ⟨a, b, c, d, e, f, hLge, Nat.le_trans hLle i⟩, hk⟩
  have hpend1 : PendOk { s with dp := { s.dp with limit := L }, pending := Pending.none } st rb s.pending m rb3 :=
    hpend.congr (Nat.le_refl _)
  have hv1 : View { s with dp := { s.dp with limit := L }, pending := Pending.none } ps rc rest :=
    hv.congr rfl rfl rfl rfl rfl
  have hA : eopm = true → ev = true ∧ mf = false := by
    intro heo
    refine ⟨hev heo, ?_⟩
    rw [hmf, heo]; simp
  have hB : eopm = false → (mf = true → L = s.dp.pos + (m + symsLen syms)) ∧
      (mf = false → L - s.dp.pos < m + symsLen syms) := by
    intro heo
    rw [hmf, hclamp, heo, ← hn]
    constructor
    · intro h; simp at h; simp [h]
    · intro h; simp at h; have : ¬ n ≤ s.dp.limit - s.dp.pos := by omega
      simp [this]; omega
  have hrun := pend_loop_run p hp dictSize hd k tail psF eopm ev mf hA syms (L - s.dp.pos + 2)
    { s with dp := { s.dp with limit := L }, pending := Pending.none } pos st rb rb3 s.pending m ps rc rest ops posF stF rbF
    hs1 hpend1 hr hv1 henc hchan hB (Nat.le_refl _)
  have hcall : lzmaCall s = lzmaFinish
      ((doWrite s.pending >>= fun _ => symLoop (L - s.dp.pos + 2) ev mf)
        { s with dp := { s.dp with limit := L }, pending := Pending.none }) s.dp.limit s.hist.size s.uncomp := by
    unfold lzmaCall
    rw [hstuck]
    simp only [Bool.false_eq_true, if_false, rcReadInit_zero s hinit]
    unfold lzmaRun
    simp only [hL, hMF, hEV]
  rw [hcall]
  rcases hrun with hE | hF
  · left
    obtain ⟨sF, psF', rcF, stF', hres, hvF, hcode, hsF, hst', hkF, hposF, hmode⟩ := hE
    rw [hres, ← hn] at *
    have hposF' : sF.dp.pos = s.dp.pos + n := hposF
    have hfit : n ≤ s.dp.limit - s.dp.pos := by
      have h1 := hsF.win.pos_le
      have h2 : sF.dp.limit = L := hkF.limit
      omega
    refine ⟨hfit, _, lzmaFinish_end _ _ _ _, ?_⟩
    have hprod : sF.hist.size - s.hist.size = n := by
      have := hkF.histpos
      simp only [] at this
      omega
    refine ⟨⟨stF', ?_, ?_⟩, ?_, ?_, rfl, rfl, rfl, rfl, ?_, hposF', ?_⟩
    · obtain ⟨hlc, hlp, hpb, hst, hstlt, hw, hk⟩ := hsF
      obtain ⟨a, b, c, d, e, f, g, i⟩ := hw
      have h2 : sF.dp.limit = L := hkF.limit
      have hsz : sF.dp.size = s.dp.size := hkF.size
      exact ⟨hlc, hlp, hpb, ⟨hst.state, hst.rep0, hst.rep1, hst.rep2, hst.rep3⟩, hstlt,
        ⟨a, b, c, d, e, f, by show sF.dp.pos ≤ s.dp.limit; omega, by show s.dp.limit ≤ sF.dp.size; omega⟩, hk⟩
    · intro heo
      obtain ⟨h1, h2, h3⟩ := hst' heo
      exact ⟨h1, by show sF.probs = psF; rw [hvF.probs, h2], h3⟩
    · exact hvF.pos
    · exact hvF.rest
    · show s.uncomp.map (· - (sF.hist.size - s.hist.size)) = s.uncomp.map (· - n)
      rw [hprod]
    · exact ⟨hkF.inp, hkF.allowEopm, hkF.eopmValid, hkF.outBase, hkF.l2, rfl, hkF.size, hkF.needReset, hkF.grow, hkF.histpos, hkF.inPosMono⟩
  · right
    obtain ⟨s2, pend2, m2, syms2, pos2, st2, rb2, rb4, ps2, rc2, rest2, ops2, hres, hp2, hs2, hpend2, hm2, hr2, hv2, henc2,
      hc2, hk2, hsum, hmf2⟩ := hF
    rw [hres]
    have hp2' : s2.dp.pos = L := hp2
    have hLeq : L = s.dp.limit := by
      rw [hclamp]
      cases heo : eopm with
      | true => simp
      | false =>
        have := (hB heo).2 hmf2
        have hnn : ¬ n ≤ s.dp.limit - s.dp.pos := by
          intro hfit
          rw [hmf, heo] at hmf2
          simp [hfit] at hmf2
        simp [hnn]
    have hsum' : m2 + symsLen syms2 + (L - s.dp.pos) = n := by rw [hn]; exact hsum
    have hprod : s2.hist.size - s.hist.size = L - s.dp.pos := by
      have := hk2.histpos
      simp only [] at this
      omega
    have hunc : (s.uncomp.map (· - (s2.hist.size - s.hist.size)) == some 0) = false := by
      cases heo : eopm with
      | true => rw [hmA heo]; rfl
      | false =>
        rw [hmB heo, hprod]
        simp only [Option.map_some]
        have : n - (L - s.dp.pos) ≠ 0 := by omega
        simp [this]
    refine ⟨by omega, _, lzmaFinish_full _ _ _ _ _ hunc, ?_, ?_, ?_⟩
    · -- the state saved for the next call
      refine ⟨⟨pos2, st2, rb2, m2, rb4, syms2, ps2, rc2, rest2, ops2, ?_, hpend2.congr (Nat.le_refl _), hr2,
        hv2.congr rfl rfl rfl rfl rfl, henc2, hc2, by omega⟩, ?_, ?_, ?_⟩
      · obtain ⟨hlc, hlp, hpb, hst, hstlt, hw, hk⟩ := hs2
        obtain ⟨a, b, c, d, e, f, g, i⟩ := hw
        have hsz : s2.dp.size = s.dp.size := hk2.size
        exact ⟨hlc, hlp, hpb, ⟨hst.state, hst.rep0, hst.rep1, hst.rep2, hst.rep3⟩, hstlt,
          ⟨a, b, c, d, e, f, by show s2.dp.pos ≤ s.dp.limit; omega, by show s.dp.limit ≤ s2.dp.size; omega⟩, hk⟩
      · show s2.initLeft = 0
        rw [hk2.initLeft]; exact hinit
      · intro heo
        show s.uncomp.map (· - (s2.hist.size - s.hist.size)) = none
        rw [hmA heo]; rfl
      · intro heo
        show s.uncomp.map (· - (s2.hist.size - s.hist.size)) = some (n - (s.dp.limit - s.dp.pos))
        rw [hmB heo, hprod, hLeq]; rfl
    · show s2.dp.pos = s.dp.limit
      omega
    · exact ⟨hk2.inp, hk2.allowEopm, hk2.eopmValid, hk2.outBase, hk2.l2, rfl, hk2.size, hk2.needReset, hk2.grow, hk2.histpos, hk2.inPosMono⟩

end XzVerif.LzmaExec
