/-
  CRC single-bit detection (for C05 `header_bitflip_rejected`): the reflected CRC register update is GF(2)-linear and a
  bit step never maps a non-zero register to zero when the polynomial has its top bit set, so flipping one bit of a
  message always changes the CRC.  Kernel proofs only, core Lean only.
  (Lemmas/Crc.lean of C14 proves the same fact independently for its own `Crc.flipBit`; this file uses the
  `List.modify` form of `flipBit`, which is the one the C05 driver executes and which commutes with take/drop.)
-/
import XzVerif.Lemmas.Crc
import XzVerif.Model.Container
namespace XzVerif.CrcFlip
open XzVerif.Crc

theorem step1_eq_zero {w : Nat} (P c : BitVec w) (hP : P.getLsbD (w - 1) = true) (h : step1 P c = 0) : c = 0 := by
  have hw : 0 < w := by
    cases w with
    | zero => simp at hP
    | succ n => omega
  unfold step1 at h
  by_cases h0 : c.getLsbD 0 = true
  · rw [if_pos h0] at h
    have := congrArg (fun x => x.getLsbD (w - 1)) h
    simp only [BitVec.getLsbD_xor, BitVec.getLsbD_ushiftRight, hP] at this
    have h2 : c.getLsbD (1 + (w - 1)) = false := BitVec.getLsbD_of_ge _ _ (by omega)
    rw [h2] at this
    simp at this
  · rw [if_neg h0] at h
    apply BitVec.eq_of_getLsbD_eq
    intro i hi
    cases i with
    | zero => simpa using h0
    | succ j =>
      have := congrArg (fun x => x.getLsbD j) h
      simp only [BitVec.getLsbD_ushiftRight] at this
      rw [Nat.add_comm] at this
      simpa using this

theorem stepN_ne_zero {w : Nat} (P : BitVec w) (hP : P.getLsbD (w - 1) = true) (n : Nat) (c : BitVec w) (hc : c ≠ 0) :
    stepN P n c ≠ 0 := by
  induction n generalizing c with
  | zero => simpa [stepN] using hc
  | succ n ih =>
    rw [stepN]
    apply ih
    intro h
    exact hc (step1_eq_zero P c hP h)

theorem byteStep_xor {w : Nat} (P c d : BitVec w) (y : UInt8) :
    byteStep P (c ^^^ d) y = byteStep P c y ^^^ step8 P d := by
  unfold byteStep
  rw [← step8_xor]
  congr 1
  ac_rfl

theorem refRaw_state_xor {w : Nat} (P : BitVec w) (t : List UInt8) (c d : BitVec w) :
    refRaw P t (c ^^^ d) = refRaw P t c ^^^ stepN P (8 * t.length) d := by
  induction t generalizing c d with
  | nil => simp [refRaw, stepN]
  | cons y t ih =>
    rw [refRaw_cons, refRaw_cons, byteStep_xor, ih]
    have h8 : 8 * (y :: t).length = 8 + 8 * t.length := by rw [List.length_cons]; omega
    rw [h8, stepN_add]
    rfl

theorem byteStep_flip {w : Nat} (P c : BitVec w) (x e : UInt8) :
    byteStep P c (x ^^^ e) = byteStep P c x ^^^ step8 P (BitVec.ofNat w e.toNat) := by
  unfold byteStep
  rw [← step8_xor]
  congr 1
  rw [UInt8.toNat_xor, BitVec.ofNat_xor]
  ac_rfl

theorem refRaw_modify {w : Nat} (P : BitVec w) (m : List UInt8) (k : Nat) (e : UInt8) (c : BitVec w) (hk : k < m.length) :
    refRaw P (m.modify k (· ^^^ e)) c
      = refRaw P m c ^^^ stepN P (8 * (m.length - 1 - k)) (step8 P (BitVec.ofNat w e.toNat)) := by
  induction m generalizing k c with
  | nil => simp at hk
  | cons x t ih =>
    cases k with
    | zero =>
      simp only [List.modify_zero_cons, List.length_cons]
      rw [refRaw_cons, refRaw_cons, byteStep_flip, refRaw_state_xor]
      simp
    | succ k =>
      simp only [List.modify_succ_cons, List.length_cons]
      rw [refRaw_cons, refRaw_cons, ih k _ (by simpa using hk)]
      congr 2
      simp only [List.length_cons] at hk
      omega

theorem xor_ne_self {w : Nat} (x d : BitVec w) (hd : d ≠ 0) : x ^^^ d ≠ x := by
  intro h
  apply hd
  have : x ^^^ (x ^^^ d) = x ^^^ x := by rw [h]
  rw [← BitVec.xor_assoc, BitVec.xor_self, BitVec.zero_xor] at this
  exact this

/-- Flip bit `bit` of a byte string: bit `k` of byte `k / 8` has weight `2^(k % 8)` (same numbering as the harness). -/
def flipBit (b : List UInt8) (bit : Nat) : List UInt8 :=
  b.modify (bit / 8) fun x => x ^^^ UInt8.ofNat (1 <<< (bit % 8))

theorem flipBit_length (b : List UInt8) (bit : Nat) : (flipBit b bit).length = b.length := by
  simp [flipBit]

theorem bitmask_ne_zero (w : Nat) (hw : 8 ≤ w) (j : Nat) (hj : j < 8) : BitVec.ofNat w (UInt8.ofNat (1 <<< j)).toNat ≠ 0 := by
  intro h
  have h2 := congrArg BitVec.toNat h
  simp only [BitVec.toNat_ofNat] at h2
  have hlt : (UInt8.ofNat (1 <<< j)).toNat < 2 ^ w :=
    Nat.lt_of_lt_of_le (UInt8.toNat_lt _) (Nat.pow_le_pow_right (by decide) hw)
  rw [Nat.mod_eq_of_lt hlt] at h2
  have : ∀ j, j < 8 → (UInt8.ofNat (1 <<< j)).toNat ≠ 0 := by decide
  exact this j hj h2

/-- Any register-level CRC (`refRaw`, arbitrary start value) changes when one message bit is flipped. -/
theorem refRaw_flip_ne {w : Nat} (P : BitVec w) (hw : 8 ≤ w) (hP : P.getLsbD (w - 1) = true) (m : List UInt8) (i : Nat)
    (hi : i < 8 * m.length) (c : BitVec w) : refRaw P (flipBit m i) c ≠ refRaw P m c := by
  unfold flipBit
  rw [refRaw_modify P m (i / 8) _ c (by omega)]
  apply xor_ne_self
  apply stepN_ne_zero P hP
  exact stepN_ne_zero P hP 8 _ (bitmask_ne_zero w hw (i % 8) (Nat.mod_lt _ (by decide)))

/-- CRC32 detects every single-bit error (any initial value). -/
theorem crc32Ref_flip_ne (m : List UInt8) (i : Nat) (hi : i < 8 * m.length) (init : BitVec 32) :
    crc32Ref (flipBit m i) init ≠ crc32Ref m init := by
  unfold crc32Ref
  intro h
  exact refRaw_flip_ne P32 (by decide) (by decide) m i hi _ (BitVec.not_inj.mp h)

/-- CRC64 detects every single-bit error. -/
theorem crc64Ref_flip_ne (m : List UInt8) (i : Nat) (hi : i < 8 * m.length) (init : BitVec 64) :
    crc64Ref (flipBit m i) init ≠ crc64Ref m init := by
  unfold crc64Ref
  intro h
  exact refRaw_flip_ne P64 (by decide) (by decide) m i hi _ (BitVec.not_inj.mp h)

/-- The form used by the container model (`Container.crc32 b = (crc32Ref b 0).toNat`). -/
theorem crc32_flip_ne (m : List UInt8) (i : Nat) (hi : i < 8 * m.length) :
    Container.crc32 (flipBit m i) ≠ Container.crc32 m := by
  unfold Container.crc32
  intro h
  exact crc32Ref_flip_ne m i hi 0 (BitVec.eq_of_toNat_eq h)

end XzVerif.CrcFlip
