/-
  The standard environment `XzEnv.stdEnv` (raw LZMA1/LZMA2 chains of Model/Lzma2.lean behind delta/BCJ models) satisfies the two
  hypotheses that the container theorems of Lemmas/XzLocal.lean, XzFlip.lean, XzFlipWhole.lean take about the payload decoder:
  `PayloadLocal` (the verdict depends only on the bytes consumed) and `PayloadBounded` (consumed ≤ given).
  The real work is in Lemmas/LzmaCausal*.lean (`Lzma2.rawDecode_local`).
-/
import XzVerif.Lemmas.XzLocal
import XzVerif.Lemmas.XzFlip
import XzVerif.Model.XzEnv
import XzVerif.Lemmas.LzmaCausalTop
import XzVerif.Lemmas.XzLoopAgree

namespace XzVerif.XzEnv
open XzVerif XzVerif.Container XzVerif.XzDecode

/-- the filter chain `lzma_raw_decoder_init` sets up for a Block's filter list (or its error code) -/
def chainOf (deltaDec : Nat → List UInt8 → List UInt8) (filters : List Filter) : Except Ret Lzma2.Chain :=
  match filters.mapM (fun f => (propsDecode f.id f.props).toOption) with
  | none => .error .optionsError
  | some opts =>
    match opts.reverse with
    | [] => .error .progError
    | lastO :: preRev =>
      if !(preRev.all filterInitOk) then .error .optionsError
      else
        match lastFilter lastO, preRev.reverse.mapM (preFilterWith deltaDec) with
        | some last, some pre => .ok { pre := pre, last := last }
        | _, _ => .error .optionsError

/-- `payloadWith` is: pick the chain (independently of the input), then `rawDecode` -/
theorem payloadWith_eq (dd : Nat → List UInt8 → List UInt8) (filters : List Filter) (input : List UInt8) (cap : Nat) :
    payloadWith dd filters input cap =
      match chainOf dd filters with
      | .error r => fail r
      | .ok ch => { ret := (Lzma2.rawDecode ch input cap).ret, out := (Lzma2.rawDecode ch input cap).out,
                    consumed := (Lzma2.rawDecode ch input cap).consumed } := by
  unfold payloadWith chainOf
  cases filters.mapM (fun f => (propsDecode f.id f.props).toOption) with
  | none => rfl
  | some opts =>
    simp only []
    cases opts.reverse with
    | nil => rfl
    | cons lastO preRev =>
      simp only []
      by_cases hall : (!(preRev.all filterInitOk)) = true
      · rw [if_pos hall, if_pos hall]
      · rw [if_neg hall, if_neg hall]
        cases lastFilter lastO with
        | none => rfl
        | some last =>
          cases preRev.reverse.mapM (preFilterWith dd) with
          | none => rfl
          | some pre => rfl

theorem chainOf_ret (dd : Nat → List UInt8 → List UInt8) (fs : List Filter) :
    (∃ r, chainOf dd fs = .error r ∧ (fail r).ret ≠ .formatError) ∨ (∃ ch, chainOf dd fs = .ok ch) := by
  unfold chainOf
  repeat' split
  all_goals first
    | exact Or.inl ⟨_, rfl, by simp [fail]⟩
    | exact Or.inr ⟨_, rfl⟩

theorem payloadWith_local (dd : Nat → List UInt8 → List UInt8) (fs : List Filter) (x y : List UInt8) (cap : Nat)
    (hend : (payloadWith dd fs x cap).ret = .streamEnd) (hle : (payloadWith dd fs x cap).consumed ≤ x.length)
    (htake : x.take (payloadWith dd fs x cap).consumed = y.take (payloadWith dd fs x cap).consumed) :
    payloadWith dd fs y cap = payloadWith dd fs x cap := by
  rw [payloadWith_eq] at hend hle htake ⊢
  rw [payloadWith_eq]
  cases hch : chainOf dd fs with
  | error r => rfl
  | ok ch =>
    rw [hch] at hend hle htake
    simp only [] at hend hle htake ⊢
    rw [Lzma2.rawDecode_local ch x y cap hend hle htake]

theorem payloadWith_bounded (dd : Nat → List UInt8 → List UInt8) (fs : List Filter) (x : List UInt8) (cap : Nat) :
    (payloadWith dd fs x cap).consumed ≤ x.length := by
  rw [payloadWith_eq]
  cases chainOf dd fs with
  | error r => exact Nat.zero_le _
  | ok ch => exact Lzma2.rawDecode_consumed_le ch x cap

/-- the real payload decoder's verdict depends only on the bytes it consumed -/
theorem payloadLocal_std : PayloadLocal stdEnv :=
  fun fs x y cap h hb ht => payloadWith_local Delta.decodeAll fs x y cap h hb ht

/-- the real payload decoder never claims more input than it was given -/
theorem payloadBounded_std : PayloadBounded stdEnv :=
  fun fs x cap => payloadWith_bounded Delta.decodeAll fs x cap

/-- the same for the drivers' fast environment (array delta decoder, table CRCs): same payload structure -/
theorem payloadLocal_fast : PayloadLocal fastEnv :=
  fun fs x y cap h hb ht => payloadWith_local deltaFast fs x y cap h hb ht

theorem payloadBounded_fast : PayloadBounded fastEnv :=
  fun fs x cap => payloadWith_bounded deltaFast fs x cap

theorem payloadWith_ne_formatError (dd : Nat → List UInt8 → List UInt8) (fs : List Filter) (x : List UInt8) (cap : Nat) :
    (payloadWith dd fs x cap).ret ≠ .formatError := by
  rw [payloadWith_eq]
  cases chainOf_ret dd fs with
  | inl h => obtain ⟨r, hr, hne⟩ := h; rw [hr]; exact hne
  | inr h => obtain ⟨ch, hc⟩ := h; rw [hc]; exact Lzma2.rawDecode_ne_formatError ch x cap

/-- only the Stream Header of the standard environment's decoder can answer LZMA_FORMAT_ERROR -/
theorem noFormatError_std : NoFormatError stdEnv := fun fs x cap => payloadWith_ne_formatError Delta.decodeAll fs x cap

end XzVerif.XzEnv
