/-
  RESUMPTION = RE-DECODING for the LZMA symbol decoder.

  The resumable model (Model/LzmaResume.lean) represents "stopped inside a symbol for lack of input" by a snapshot of the
  start-of-symbol state and RE-DECODES the symbol over the longer input.  Here the very same monadic code is given a
  CONTINUATION semantics: a computation is a resumption tree `Proc α` whose `need s k` nodes are the byte fetches (`k b`
  continues with byte `b`), and

  * `run inp p`   interprets the tree against a buffer (a fetch beyond the buffer = `Exit.needInput`),
  * `susp inp p`  runs as far as the buffer allows and returns the node where it stops (the SUSPENDED computation),
  * `mor_decodeSymbol` / `run_decodeSymbolP`: interpreting the tree of `decodeSymbolP` is `Lzma.decodeSymbol` (MORPHISM),
  * `run_susp`: continuing the suspended node over a longer buffer = running from the start over the longer buffer,
  * `resume_is_redecode'`: continuing the computation that was suspended when the input ran out, over the longer input,
    equals decoding the symbol again from the start state over the longer input.
  Core Lean only.
-/
import XzVerif.Lemmas.LzmaResumeSym

namespace XzVerif.LzmaR.Proc
open XzVerif.RangeDec XzVerif.LzDict XzVerif.Lzma XzVerif.Lzma2

/-! ### (1) resumptions -/

/-- `need s k`: suspended at a byte fetch in state `s` (`s.inPos` = position of the wanted byte); `k b` continues with byte `b` -/
inductive Proc (α : Type) where
  | ret (a : α) (s : St)
  | exit (e : Exit) (s : St)
  | need (s : St) (k : UInt8 → Proc α)

def Proc.bind {α β : Type} : Proc α → (α → St → Proc β) → Proc β
  | .ret a s, f => f a s
  | .exit e s, _ => .exit e s
  | .need s k, f => .need s (fun b => (k b).bind f)

def Proc.tryCatch {α : Type} : Proc α → (Exit → St → Proc α) → Proc α
  | .ret a s, _ => .ret a s
  | .exit e s, h => h e s
  | .need s k, h => .need s (fun b => (k b).tryCatch h)

/-- the decoding monad with continuation semantics -/
def PM (α : Type) : Type := St → Proc α

instance : Monad PM where
  pure a := fun s => Proc.ret a s
  bind x f := fun s => (x s).bind f

instance : MonadStateOf St PM where
  get := fun s => Proc.ret s s
  set s' := fun _ => Proc.ret PUnit.unit s'
  modifyGet f := fun s => Proc.ret (f s).1 (f s).2

instance : MonadExceptOf Exit PM where
  throw e := fun s => Proc.exit e s
  tryCatch x h := fun s => (x s).tryCatch h

/-! ### (2) the decoders of Model/Lzma.lean, same text, in `PM` -/

/-- `rc_normalize_safe` -/
def rcNormalizeP : PM Unit := fun s =>
  if s.range < RC_TOP_VALUE then
    .need s (fun b =>
      let rc := (Rc.mk s.range s.code).shiftIn b.toNat
      .ret () { s with range := rc.range, code := rc.code, inPos := s.inPos + 1 })
  else .ret () s

/-- the part of `rc_bit_safe` after the normalisation -/
def bitStepP (idx : Nat) : PM Nat := fun s =>
  let p := s.probs.getD idx 0
  let r := bitCore (Rc.mk s.range s.code) p
  let s := { s with range := r.2.1.range, code := r.2.1.code }
  .ret r.1 (s.setProb idx r.2.2)

/-- `rc_bit_safe(probs[idx], …)` -/
def rcBitP (idx : Nat) : PM Nat := rcNormalizeP >>= fun _ => bitStepP idx

def rcDirectP : Nat → Nat → PM Nat
  | 0, dest => pure dest
  | n + 1, dest => do
    rcNormalizeP
    let b ← (fun s : St =>
      let r := directCore (Rc.mk s.range s.code)
      Proc.ret r.1 { s with range := r.2.range, code := r.2.code })
    rcDirectP n ((dest * 2 + b) % U32)

def bittreeP (base : Nat) : Nat → Nat → PM Nat
  | 0, sym => pure sym
  | n + 1, sym => do
    let b ← rcBitP (base + sym)
    bittreeP base n (sym * 2 + b)

def litMatchedP (base : Nat) : Nat → Nat → Nat → Nat → PM Nat
  | 0, sym, _, _ => pure sym
  | n + 1, sym, offset, len => do
    let matchBit := len &&& offset
    let b ← rcBitP (base + offset + matchBit + sym)
    let offset' := if b == 0 then offset ^^^ matchBit else matchBit
    litMatchedP base n (sym * 2 + b) offset' (len * 2)

def revBittreeP (base : Nat) : Nat → Nat → Nat → Nat → PM Nat
  | 0, _, _, acc => pure acc
  | n + 1, sym, offset, acc => do
    let b ← rcBitP (base + sym)
    revBittreeP base n (sym * 2 + b) (offset + 1) (acc + (b <<< offset))

def revAlignP : Nat → Nat → Nat → PM Nat
  | 0, sym, _ => pure sym
  | n + 1, sym, offset => do
    let b ← rcBitP (P_POS_ALIGN + offset + sym)
    revAlignP n (sym + b * offset) (offset * 2)

def lenDecodeP (lenBase posState : Nat) : PM Nat := do
  let c ← rcBitP (lenBase + LEN_CHOICE)
  if c == 0 then
    let s ← bittreeP (lenBase + LEN_LOW + posState * LEN_LOW_SYMBOLS) 3 1
    pure (MATCH_LEN_MIN + (s - LEN_LOW_SYMBOLS))
  else
    let c2 ← rcBitP (lenBase + LEN_CHOICE2)
    if c2 == 0 then
      let s ← bittreeP (lenBase + LEN_MID + posState * LEN_MID_SYMBOLS) 3 1
      pure (MATCH_LEN_MIN + LEN_LOW_SYMBOLS + (s - LEN_MID_SYMBOLS))
    else
      let s ← bittreeP (lenBase + LEN_HIGH) 8 1
      pure (MATCH_LEN_MIN + LEN_LOW_SYMBOLS + LEN_MID_SYMBOLS + (s - LEN_HIGH_SYMBOLS))

def distDecodeP (len : Nat) : PM Nat := do
  let slot1 ← bittreeP (P_DIST_SLOT + getDistState len * DIST_SLOTS) 6 1
  let slot := slot1 - DIST_SLOTS
  if slot < DIST_MODEL_START then pure slot
  else
    let limit := (slot >>> 1) - 1
    let r := 2 + (slot &&& 1)
    if slot < DIST_MODEL_END then
      let r := r <<< limit
      revBittreeP (P_POS_SPECIAL + r - slot - 1) limit 1 0 r
    else
      let r ← rcDirectP (limit - ALIGN_BITS) r
      let r := (r <<< ALIGN_BITS) % U32
      let a ← revAlignP 4 0 1
      pure ((r + a) % U32)

/-- One LZMA symbol from SEQ_IS_MATCH up to (not including) its output step: `Lzma.decodeSymbol` in `PM`. -/
def decodeSymbolP (eopmValid : Bool) : PM Pending := do
  let (state, posState, full) ← (fun s : St => Proc.ret (s.state, s.dp.pos &&& s.posMask, s.dp.full) s)
  let isMatch ← rcBitP (P_IS_MATCH + state * POS_STATES_MAX + posState)
  if isMatch == 0 then
    -- literal
    let base ← (fun s : St => Proc.ret (P_LITERAL + literalSubcoder s.lc s.lp s.dp.pos s.dictGet0.toNat) s)
    if isLiteralState state then
      modify fun s => { s with state := updateLiteralNormal state }
      let sym ← bittreeP base 8 1
      pure (.litWrite (sym % 256))
    else
      modify fun s => { s with state := updateLiteralMatched state }
      let mb ← (fun s : St => Proc.ret (s.dictGet s.rep0).toNat s)
      let sym ← litMatchedP base 8 1 0x100 (mb * 2)
      pure (.litWrite (sym % 256))
  else
    let isRep ← rcBitP (P_IS_REP + state)
    if isRep == 0 then
      -- simple match
      modify fun s => { s with state := updateMatch state, rep3 := s.rep2, rep2 := s.rep1, rep1 := s.rep0 }
      let len ← lenDecodeP P_MATCH_LEN posState
      let d ← distDecodeP len
      modify fun s => { s with rep0 := d }
      if d == UINT32_MAX then
        -- end of payload marker
        if !eopmValid then throw .dataError
        rcNormalizeP                                 -- SEQ_EOPM
        let fin ← (fun s : St => Proc.ret (s.code == 0) s)
        if fin then throw .streamEnd else throw .dataError
      else if !(d < full) then throw .dataError     -- dict_is_distance_valid(&dict, rep0)
      else pure (.copy len)
    else
      -- repeated match: there must be something in the dictionary
      if full == 0 then throw .dataError            -- dict_is_distance_valid(&dict, 0)
      else
        let isRep0 ← rcBitP (P_IS_REP0 + state)
        let isShort ← (do
          if isRep0 == 0 then
            let isLong ← rcBitP (P_IS_REP0_LONG + state * POS_STATES_MAX + posState)
            pure (isLong == 0)
          else
            let isRep1 ← rcBitP (P_IS_REP1 + state)
            if isRep1 == 0 then
              modify fun s => { s with rep1 := s.rep0, rep0 := s.rep1 }
            else
              let isRep2 ← rcBitP (P_IS_REP2 + state)
              if isRep2 == 0 then
                modify fun s => { s with rep2 := s.rep1, rep1 := s.rep0, rep0 := s.rep2 }
              else
                modify fun s => { s with rep3 := s.rep2, rep2 := s.rep1, rep1 := s.rep0, rep0 := s.rep3 }
            pure false : PM Bool)
        if isShort then
          modify fun s => { s with state := updateShortRep state }
          pure .shortRep
        else
          modify fun s => { s with state := updateLongRep state }
          let len ← lenDecodeP P_REP_LEN posState
          pure (.copy len)

/-! ### (3) interpreter against a buffer, suspension -/

/-- interpret a resumption against the buffer `inp`: a fetch at `s.inPos` reads `inp[s.inPos]` or starves -/
def run {α : Type} (inp : ByteArray) : Proc α → EStateM.Result Exit St α
  | .ret a s => .ok a s
  | .exit e s => .error e s
  | .need s k => if h : s.inPos < inp.size then run inp (k inp[s.inPos]) else .error .needInput s

/-- run as far as the buffer allows; the result is the node where the computation stops -/
def susp {α : Type} (inp : ByteArray) : Proc α → Proc α
  | .ret a s => .ret a s
  | .exit e s => .exit e s
  | .need s k => if h : s.inPos < inp.size then susp inp (k inp[s.inPos]) else .need s k

theorem run_need {α : Type} (inp : ByteArray) (s : St) (k : UInt8 → Proc α) :
    run inp (.need s k) = if h : s.inPos < inp.size then run inp (k inp[s.inPos]) else .error .needInput s := by
  simp only [run]

theorem susp_need {α : Type} (inp : ByteArray) (s : St) (k : UInt8 → Proc α) :
    susp inp (.need s k) = if h : s.inPos < inp.size then susp inp (k inp[s.inPos]) else .need s k := by
  simp only [susp]

/-- sequencing of results -/
def thenR {α β : Type} (r : EStateM.Result Exit St α) (f : α → St → EStateM.Result Exit St β) : EStateM.Result Exit St β :=
  match r with
  | .ok a t => f a t
  | .error e t => .error e t

theorem run_bind {α β : Type} (inp : ByteArray) (p : Proc α) (f : α → St → Proc β) :
    run inp (p.bind f) = thenR (run inp p) (fun a t => run inp (f a t)) := by
  induction p with
  | ret a s => rfl
  | exit e s => rfl
  | need s k ih =>
    show run inp (.need s (fun b => (k b).bind f)) = _
    rw [run_need, run_need]
    by_cases h : s.inPos < inp.size
    · rw [dif_pos h, dif_pos h]; exact ih _
    · rw [dif_neg h, dif_neg h]; rfl

/-- the node where `susp` stops is final or a fetch beyond the buffer -/
def Stopped {α : Type} (inp : ByteArray) : Proc α → Prop
  | .need s _ => ¬ s.inPos < inp.size
  | _ => True

theorem susp_stopped {α : Type} (inp : ByteArray) (p : Proc α) : Stopped inp (susp inp p) := by
  induction p with
  | ret a s => exact trivial
  | exit e s => exact trivial
  | need s k ih =>
    rw [susp_need]
    by_cases h : s.inPos < inp.size
    · rw [dif_pos h]; exact ih _
    · rw [dif_neg h]; exact h

/-- a stopped node is its own suspension -/
theorem susp_of_stopped {α : Type} (inp : ByteArray) (p : Proc α) (h : Stopped inp p) : susp inp p = p := by
  cases p with
  | ret a s => rfl
  | exit e s => rfl
  | need s k => rw [susp_need, dif_neg h]

/-- the outcome over `inp` can be read off the suspended node: "starved" = "suspended at a fetch" -/
def outcome {α : Type} : Proc α → EStateM.Result Exit St α
  | .ret a s => .ok a s
  | .exit e s => .error e s
  | .need s _ => .error .needInput s

theorem run_eq_outcome {α : Type} (inp : ByteArray) (p : Proc α) : run inp p = outcome (susp inp p) := by
  induction p with
  | ret a s => rfl
  | exit e s => rfl
  | need s k ih =>
    rw [run_need, susp_need]
    by_cases h : s.inPos < inp.size
    · rw [dif_pos h, dif_pos h]; exact ih _
    · rw [dif_neg h, dif_neg h]; rfl

/-! ### (5) resumption = running from the start -/

/-- **Continuing the suspended node over a longer buffer = running from the start over the longer buffer.** -/
theorem run_susp {α : Type} (inp inp' : ByteArray) (hag : Agree inp.size inp inp') (p : Proc α) :
    run inp' (susp inp p) = run inp' p := by
  induction p with
  | ret a s => rfl
  | exit e s => rfl
  | need s k ih =>
    rw [susp_need]
    by_cases h : s.inPos < inp.size
    · have h' : s.inPos < inp'.size := Nat.lt_of_lt_of_le h hag.le'
      rw [dif_pos h, ih, run_need, dif_pos h', hag.eq s.inPos h h' h]
    · rw [dif_neg h]

theorem susp_susp {α : Type} (inp inp' : ByteArray) (hag : Agree inp.size inp inp') (p : Proc α) :
    susp inp' (susp inp p) = susp inp' p := by
  induction p with
  | ret a s => rfl
  | exit e s => rfl
  | need s k ih =>
    rw [susp_need]
    by_cases h : s.inPos < inp.size
    · have h' : s.inPos < inp'.size := Nat.lt_of_lt_of_le h hag.le'
      rw [dif_pos h, ih, susp_need, dif_pos h', hag.eq s.inPos h h' h]
    · rw [dif_neg h]

/-! ### (4) morphism -/

theorem withInp_self (t : St) (b : ByteArray) (h : t.inp = b) : St.withInp t b = t := by
  subst h; rfl

/-- `xP` interpreted over ANY buffer `inp` (whatever the `inp` member of the state) is `x` on the state over that buffer -/
structure Mor {α : Type} (xP : PM α) (x : M α) : Prop where
  sim : ∀ inp s, run inp (xP s) = mapSt (fun t => St.withInp t s.inp) (x (St.withInp s inp))
  inp : ∀ s, (resSt (x s)).inp = s.inp

theorem mapSt_withInp_self {α : Type} (r : EStateM.Result Exit St α) (b : ByteArray) (h : (resSt r).inp = b) :
    mapSt (fun t => St.withInp t b) r = r := by
  cases r with
  | ok a t => show EStateM.Result.ok a (St.withInp t b) = _; rw [withInp_self t b h]
  | error e t => show EStateM.Result.error e (St.withInp t b) = _; rw [withInp_self t b h]

/-- the morphism in its plain form: interpret over the state's own buffer -/
theorem Mor.run_self {α : Type} {xP : PM α} {x : M α} (h : Mor xP x) (s : St) : run s.inp (xP s) = x s := by
  have h1 := h.sim s.inp s
  have h2 : St.withInp s s.inp = s := rfl
  rw [h2] at h1
  rw [h1]
  exact mapSt_withInp_self _ _ (h.inp s)

theorem Mor.bind {α β : Type} {xP : PM α} {x : M α} {fP : α → PM β} {f : α → M β}
    (hx : Mor xP x) (hf : ∀ a, Mor (fP a) (f a)) : Mor (xP >>= fP) (x >>= f) where
  sim := by
    intro inp s
    show run inp ((xP s).bind fP) = mapSt _ (EStateM.bind x f (St.withInp s inp))
    refine (run_bind inp (xP s) fP).trans ?_
    rw [hx.sim inp s]
    unfold EStateM.bind
    have hi := hx.inp (St.withInp s inp)
    cases hxs : x (St.withInp s inp) with
    | ok a t =>
      rw [hxs] at hi
      have hi' : t.inp = inp := hi
      show run inp (fP a (St.withInp t s.inp)) = mapSt (fun u => St.withInp u s.inp) (f a t)
      rw [(hf a).sim inp (St.withInp t s.inp)]
      have h2 : St.withInp (St.withInp t s.inp) inp = t := by subst hi'; rfl
      rw [h2]
      rfl
    | error e t => rfl
  inp := by
    intro s
    show (resSt (EStateM.bind x f s)).inp = s.inp
    unfold EStateM.bind
    have h1 := hx.inp s
    cases hxs : x s with
    | ok a t =>
      rw [hxs] at h1
      exact ((hf a).inp t).trans h1
    | error e t =>
      rw [hxs] at h1
      exact h1

theorem Mor.pure {α : Type} (a : α) : Mor (pure a : PM α) (pure a : M α) where
  sim := fun _ _ => rfl
  inp := fun _ => rfl

theorem Mor.throw {α : Type} (e : Exit) : Mor (throw e : PM α) (throw e : M α) where
  sim := fun _ _ => rfl
  inp := fun _ => rfl

/-- a step that neither looks at the input buffer nor replaces it -/
theorem Mor.step {α : Type} (r : St → α) (u : St → St)
    (hr : ∀ s b, r (St.withInp s b) = r s) (hu : ∀ s b, u (St.withInp s b) = St.withInp (u s) b)
    (hi : ∀ s, (u s).inp = s.inp) :
    Mor (fun s => Proc.ret (r s) (u s) : PM α) (fun s => EStateM.Result.ok (r s) (u s) : M α) where
  sim := by
    intro inp s
    show EStateM.Result.ok (r s) (u s) = EStateM.Result.ok (r (St.withInp s inp)) (St.withInp (u (St.withInp s inp)) s.inp)
    rw [hr, hu]
    have : St.withInp (St.withInp (u s) inp) s.inp = u s := withInp_self (u s) s.inp (hi s)
    rw [this]
  inp := fun s => hi s

theorem Mor.read {α : Type} (r : St → α) (hr : ∀ s b, r (St.withInp s b) = r s) :
    Mor (fun s => Proc.ret (r s) s : PM α) (fun s => EStateM.Result.ok (r s) s : M α) :=
  Mor.step r id hr (fun _ _ => rfl) (fun _ => rfl)

theorem Mor.modify (m : St → St) (hu : ∀ s b, m (St.withInp s b) = St.withInp (m s) b) (hi : ∀ s, (m s).inp = s.inp) :
    Mor (modify m : PM PUnit) (modify m : M PUnit) :=
  Mor.step (fun _ => PUnit.unit) m (fun _ _ => rfl) hu hi

theorem Mor.ite {α : Type} {c : Prop} [Decidable c] {xP yP : PM α} {x y : M α} (hx : Mor xP x) (hy : Mor yP y) :
    Mor (if c then xP else yP) (if c then x else y) := by
  by_cases h : c
  · rw [if_pos h, if_pos h]; exact hx
  · rw [if_neg h, if_neg h]; exact hy

/-! #### range-decoder level -/

theorem run_rcNormalizeP (inp : ByteArray) (s : St) :
    run inp (rcNormalizeP s) =
      if s.range < RC_TOP_VALUE then
        if h : s.inPos < inp.size then
          .ok () { s with range := ((Rc.mk s.range s.code).shiftIn (inp[s.inPos]).toNat).range,
                          code := ((Rc.mk s.range s.code).shiftIn (inp[s.inPos]).toNat).code,
                          inPos := s.inPos + 1 }
        else .error .needInput s
      else .ok () s := by
  unfold rcNormalizeP
  by_cases hr : s.range < RC_TOP_VALUE
  · rw [if_pos hr, if_pos hr, run_need]
    by_cases hb : s.inPos < inp.size
    · rw [dif_pos hb, dif_pos hb]; rfl
    · rw [dif_neg hb, dif_neg hb]
  · rw [if_neg hr, if_neg hr]; rfl

theorem mor_rcNormalize : Mor rcNormalizeP rcNormalize where
  sim := by
    intro inp s
    rw [run_rcNormalizeP, rcNormalize_withInp]
    by_cases hr : s.range < RC_TOP_VALUE
    · rw [if_pos hr, if_pos hr]
      by_cases hb : s.inPos < inp.size
      · rw [dif_pos hb, dif_pos hb]; rfl
      · rw [dif_neg hb, dif_neg hb]; rfl
    · rw [if_neg hr, if_neg hr]; rfl
  inp := fun s => (sat_rcNormalize s).1.inp

theorem Mor.stepRc {α : Type} (c1 : Nat → Nat → α) (c2 c3 : Nat → Nat → Nat) :
    Mor (fun s : St => Proc.ret (c1 s.range s.code) { s with range := c2 s.range s.code, code := c3 s.range s.code } : PM α)
      (fun s : St => EStateM.Result.ok (c1 s.range s.code)
        { s with range := c2 s.range s.code, code := c3 s.range s.code } : M α) :=
  Mor.step (fun s => c1 s.range s.code) (fun s => { s with range := c2 s.range s.code, code := c3 s.range s.code })
    (fun _ _ => rfl) (fun _ _ => rfl) (fun _ => rfl)

theorem Mor.stepBit {α : Type} (idx : Nat) (c1 : Nat → Nat → Nat → α) (c2 c3 c4 : Nat → Nat → Nat → Nat) :
    Mor (fun s : St => Proc.ret (c1 s.range s.code (s.probs.getD idx 0))
      (St.setProb { s with range := c2 s.range s.code (s.probs.getD idx 0), code := c3 s.range s.code (s.probs.getD idx 0) }
        idx (c4 s.range s.code (s.probs.getD idx 0))) : PM α)
      (fun s : St => EStateM.Result.ok (c1 s.range s.code (s.probs.getD idx 0))
      (St.setProb { s with range := c2 s.range s.code (s.probs.getD idx 0), code := c3 s.range s.code (s.probs.getD idx 0) }
        idx (c4 s.range s.code (s.probs.getD idx 0))) : M α) :=
  Mor.step (fun s => c1 s.range s.code (s.probs.getD idx 0))
    (fun s => St.setProb { s with range := c2 s.range s.code (s.probs.getD idx 0), code := c3 s.range s.code (s.probs.getD idx 0) }
        idx (c4 s.range s.code (s.probs.getD idx 0)))
    (fun _ _ => rfl) (fun _ _ => rfl) (fun _ => rfl)

theorem mor_bitStep (idx : Nat) : Mor (bitStepP idx) (bitStep idx) :=
  Mor.stepBit idx (fun r c p => (bitCore (Rc.mk r c) p).1) (fun r c p => (bitCore (Rc.mk r c) p).2.1.range)
    (fun r c p => (bitCore (Rc.mk r c) p).2.1.code) (fun r c p => (bitCore (Rc.mk r c) p).2.2)

theorem mor_rcBit (idx : Nat) : Mor (rcBitP idx) (rcBit idx) := by
  rw [rcBit_eq]
  unfold rcBitP
  exact Mor.bind mor_rcNormalize (fun _ => mor_bitStep idx)

theorem mor_directStep : Mor (fun s : St =>
      let r := directCore (Rc.mk s.range s.code)
      Proc.ret r.1 { s with range := r.2.range, code := r.2.code } : PM Nat)
    (fun s : St =>
      let r := directCore (Rc.mk s.range s.code)
      EStateM.Result.ok r.1 { s with range := r.2.range, code := r.2.code } : M Nat) :=
  Mor.stepRc (fun r c => (directCore (Rc.mk r c)).1) (fun r c => (directCore (Rc.mk r c)).2.range)
    (fun r c => (directCore (Rc.mk r c)).2.code)

theorem mor_rcDirect (n : Nat) : ∀ dest, Mor (rcDirectP n dest) (rcDirect n dest) := by
  induction n with
  | zero => intro dest; exact Mor.pure dest
  | succ n ih =>
    intro dest
    unfold rcDirectP rcDirect
    exact Mor.bind mor_rcNormalize (fun _ => Mor.bind mor_directStep (fun b => ih _))

theorem mor_bittree (base : Nat) : ∀ n sym, Mor (bittreeP base n sym) (bittree base n sym)
  | 0, sym => Mor.pure sym
  | n + 1, sym => by
    unfold bittreeP bittree
    exact Mor.bind (mor_rcBit _) (fun b => mor_bittree base n _)

theorem mor_litMatched (base : Nat) : ∀ n sym offset len, Mor (litMatchedP base n sym offset len) (litMatched base n sym offset len)
  | 0, sym, _, _ => Mor.pure sym
  | n + 1, sym, offset, len => by
    unfold litMatchedP litMatched
    exact Mor.bind (mor_rcBit _) (fun b => mor_litMatched base n _ _ _)

theorem mor_revBittree (base : Nat) : ∀ n sym offset acc, Mor (revBittreeP base n sym offset acc) (revBittree base n sym offset acc)
  | 0, _, _, acc => Mor.pure acc
  | n + 1, sym, offset, acc => by
    unfold revBittreeP revBittree
    exact Mor.bind (mor_rcBit _) (fun b => mor_revBittree base n _ _ _)

theorem mor_revAlign : ∀ n sym offset, Mor (revAlignP n sym offset) (revAlign n sym offset)
  | 0, sym, _ => Mor.pure sym
  | n + 1, sym, offset => by
    unfold revAlignP revAlign
    exact Mor.bind (mor_rcBit _) (fun b => mor_revAlign n _ _)

theorem mor_lenDecode (lenBase posState : Nat) : Mor (lenDecodeP lenBase posState) (lenDecode lenBase posState) := by
  unfold lenDecodeP lenDecode
  refine Mor.bind (mor_rcBit _) (fun c => ?_)
  refine Mor.ite ?_ ?_
  · exact Mor.bind (mor_bittree _ _ _) (fun _ => Mor.pure _)
  · refine Mor.bind (mor_rcBit _) (fun c2 => ?_)
    refine Mor.ite ?_ ?_
    · exact Mor.bind (mor_bittree _ _ _) (fun _ => Mor.pure _)
    · exact Mor.bind (mor_bittree _ _ _) (fun _ => Mor.pure _)

theorem mor_distDecode (len : Nat) : Mor (distDecodeP len) (distDecode len) := by
  unfold distDecodeP distDecode
  refine Mor.bind (mor_bittree _ _ _) (fun slot1 => ?_)
  simp only []
  refine Mor.ite ?_ ?_
  · exact Mor.pure _
  · refine Mor.ite ?_ ?_
    · exact mor_revBittree _ _ _ _ _
    · exact Mor.bind (mor_rcDirect _ _) (fun r => Mor.bind (mor_revAlign _ _ _) (fun a => Mor.pure _))

/-! #### symbol level -/

theorem mor_decodeSymbol (eopmValid : Bool) : Mor (decodeSymbolP eopmValid) (decodeSymbol eopmValid) := by
  unfold decodeSymbolP decodeSymbol
  refine Mor.bind (Mor.read _ (fun _ _ => rfl)) (fun t => ?_)
  obtain ⟨state, posState, full⟩ := t
  simp only []
  refine Mor.bind (mor_rcBit _) (fun isMatch => ?_)
  refine Mor.ite ?_ ?_
  · -- literal
    refine Mor.bind (Mor.read _ (fun _ _ => rfl)) (fun base => ?_)
    refine Mor.ite ?_ ?_
    · refine Mor.bind (Mor.modify _ (fun _ _ => rfl) (fun _ => rfl)) (fun _ => ?_)
      exact Mor.bind (mor_bittree _ _ _) (fun sym => Mor.pure _)
    · refine Mor.bind (Mor.modify _ (fun _ _ => rfl) (fun _ => rfl)) (fun _ => ?_)
      refine Mor.bind (Mor.read _ (fun _ _ => rfl)) (fun mb => ?_)
      exact Mor.bind (mor_litMatched _ _ _ _ _) (fun sym => Mor.pure _)
  · refine Mor.bind (mor_rcBit _) (fun isRep => ?_)
    refine Mor.ite ?_ ?_
    · -- simple match
      refine Mor.bind (Mor.modify _ (fun _ _ => rfl) (fun _ => rfl)) (fun _ => ?_)
      refine Mor.bind (mor_lenDecode _ _) (fun len => ?_)
      refine Mor.bind (mor_distDecode _) (fun d => ?_)
      refine Mor.bind (Mor.modify _ (fun _ _ => rfl) (fun _ => rfl)) (fun _ => ?_)
      refine Mor.ite ?_ ?_
      · have hrest : Mor (do
              rcNormalizeP
              let fin ← (fun s : St => Proc.ret (s.code == 0) s)
              if fin then throw .streamEnd else throw .dataError : PM Pending) (do
              rcNormalize
              let fin ← (fun s : St => EStateM.Result.ok (s.code == 0) s)
              if fin then throw .streamEnd else throw .dataError : M Pending) := by
          refine Mor.bind mor_rcNormalize (fun _ => ?_)
          refine Mor.bind (Mor.read _ (fun _ _ => rfl)) (fun fin => ?_)
          refine Mor.ite ?_ ?_
          · exact Mor.throw _
          · exact Mor.throw _
        refine Mor.ite ?_ ?_
        · exact Mor.bind (Mor.throw _) (fun _ => hrest)
        · exact hrest
      · refine Mor.ite ?_ ?_
        · exact Mor.throw _
        · exact Mor.pure _
    · -- repeated match
      refine Mor.ite ?_ ?_
      · exact Mor.throw _
      · refine Mor.bind (mor_rcBit _) (fun isRep0 => ?_)
        refine Mor.bind ?_ (fun isShort => ?_)
        · refine Mor.ite ?_ ?_
          · exact Mor.bind (mor_rcBit _) (fun isLong => Mor.pure _)
          · refine Mor.bind (mor_rcBit _) (fun isRep1 => ?_)
            have hm : ∀ m : St → St, (∀ s b, m (St.withInp s b) = St.withInp (m s) b) → (∀ s, (m s).inp = s.inp) →
                Mor (do modify m; pure false : PM Bool) (do modify m; pure false : M Bool) :=
              fun m hm hi => Mor.bind (Mor.modify m hm hi) (fun _ => Mor.pure _)
            refine Mor.ite ?_ ?_
            · exact hm _ (fun _ _ => rfl) (fun _ => rfl)
            · refine Mor.bind (mor_rcBit _) (fun isRep2 => ?_)
              refine Mor.ite ?_ ?_
              · exact hm _ (fun _ _ => rfl) (fun _ => rfl)
              · exact hm _ (fun _ _ => rfl) (fun _ => rfl)
        · refine Mor.ite ?_ ?_
          · exact Mor.bind (Mor.modify _ (fun _ _ => rfl) (fun _ => rfl)) (fun _ => Mor.pure _)
          · refine Mor.bind (Mor.modify _ (fun _ _ => rfl) (fun _ => rfl)) (fun _ => ?_)
            exact Mor.bind (mor_lenDecode _ _) (fun len => Mor.pure _)

/-- **MORPHISM.** Interpreting the resumption of `decodeSymbolP` against the state's input is `Lzma.decodeSymbol`. -/
theorem run_decodeSymbolP (ev : Bool) (s : St) : run s.inp (decodeSymbolP ev s) = decodeSymbol ev s :=
  (mor_decodeSymbol ev).run_self s

/-- … against any buffer: the M-run from the state over that buffer (the `inp` member is not part of a resumption's business) -/
theorem run_decodeSymbolP_any (ev : Bool) (s : St) (inp : ByteArray) :
    run inp (decodeSymbolP ev s) = mapSt (fun t => St.withInp t s.inp) (decodeSymbol ev (St.withInp s inp)) :=
  (mor_decodeSymbol ev).sim inp s

theorem run_rcNormalizeP_self (s : St) : run s.inp (rcNormalizeP s) = rcNormalize s := mor_rcNormalize.run_self s

/-! ### resumption = re-decoding -/

/-- **Continue the computation that was suspended when the input `s.inp` ran out, over the longer input `inp'`
    = decode the symbol again from the start state over `inp'`** (which is what `lzmaRunR` does with `SymSnap.restore`).
    The states of a resumption keep the `inp` member they started with, hence the `withInp` on the right. -/
theorem resume_is_redecode' (ev : Bool) (s : St) (inp' : ByteArray) (hag : Agree s.inp.size s.inp inp')
    (_hpos : s.inPos ≤ s.inp.size) :
    run inp' (susp s.inp (decodeSymbolP ev s))
      = mapSt (fun t => St.withInp t s.inp) (decodeSymbol ev (St.withInp s inp')) := by
  rw [run_susp s.inp inp' hag, run_decodeSymbolP_any]

/-- the same, seen over the new buffer -/
theorem resume_is_redecode_view (ev : Bool) (s : St) (inp' : ByteArray) (hag : Agree s.inp.size s.inp inp')
    (_hpos : s.inPos ≤ s.inp.size) :
    mapSt (fun t => St.withInp t inp') (run inp' (susp s.inp (decodeSymbolP ev s)))
      = decodeSymbol ev (St.withInp s inp') := by
  rw [resume_is_redecode' ev s inp' hag _hpos]
  have h := (mor_decodeSymbol ev).inp (St.withInp s inp')
  cases hr : decodeSymbol ev (St.withInp s inp') with
  | ok a t =>
    rw [hr] at h
    have h' : t.inp = inp' := h
    show EStateM.Result.ok a (St.withInp (St.withInp t s.inp) inp') = _
    have : St.withInp (St.withInp t s.inp) inp' = t := by subst h'; rfl
    rw [this]
  | error e t =>
    rw [hr] at h
    have h' : t.inp = inp' := h
    show EStateM.Result.error e (St.withInp (St.withInp t s.inp) inp') = _
    have : St.withInp (St.withInp t s.inp) inp' = t := by subst h'; rfl
    rw [this]

/-- general form for any pair related by the morphism -/
theorem Mor.resume {α : Type} {xP : PM α} {x : M α} (h : Mor xP x) (s : St) (inp' : ByteArray)
    (hag : Agree s.inp.size s.inp inp') :
    run inp' (susp s.inp (xP s)) = mapSt (fun t => St.withInp t s.inp) (x (St.withInp s inp')) := by
  rw [run_susp s.inp inp' hag, h.sim]

/-- a run over `s.inp` starved iff the computation is suspended at a fetch; the suspended node is what is continued -/
theorem decodeSymbol_eq_outcome (ev : Bool) (s : St) : decodeSymbol ev s = outcome (susp s.inp (decodeSymbolP ev s)) := by
  rw [← run_decodeSymbolP, run_eq_outcome]

/-! ### non-vacuity -/

/-- one byte of input, a range that needs normalising -/
def exSt : St := { (default : St) with inp := ⟨#[0]⟩, inPos := 0, range := 0, code := 0 }

/-- the position of the fetch at which a node is suspended -/
def needPos {α : Type} : Proc α → Option Nat
  | .need s _ => some s.inPos
  | _ => none

/-- with one byte of input the symbol decode is suspended INSIDE the symbol: at the fetch of the byte at position 1, after
    the first bit has been decoded (not at the first normalisation, position 0) -/
example : needPos (susp exSt.inp (decodeSymbolP false exSt)) = some 1 := by decide

end XzVerif.LzmaR.Proc
