/-
  C12 <-> C01: the symbol coder + range coder models of C01 (Model/LzmaEnc.lean `encSyms`, Model/RangeEnc.lean,
  Model/RangeDec.lean, Lemmas/LzmaChunk.lean `decBytes`) packaged as a `Flush.Codec`, with the match finder / optimum
  parser left ARBITRARY (`Parser`), and the proof that this codec satisfies the decodability part of `Codec.Sound`.
-/
import XzVerif.Lemmas.LzmaChunk
import XzVerif.Model.Flush
set_option linter.unusedVariables false

namespace XzVerif.FlushC01
open XzVerif XzVerif.Flush
open XzVerif.RangeDec XzVerif.RangeEnc XzVerif.RangeCoder XzVerif.Lzma XzVerif.LzmaEnc XzVerif.LzmaSymDec XzVerif.LzmaSpec XzVerif.LzmaSym

/-- The state an LZMA chunk is coded from and leaves behind: probabilities, state machine + rep registers.
    (The position is the number of bytes since the dictionary reset, i.e. the length of the history.) -/
abbrev St := Probs × SymSt

/-- lc/lp/pb of the flush model as the `Props` of the LZMA models -/
def toProps (p : Flush.Props) : Lzma.Props := { lc := p.lc, lp := p.lp, pb := p.pb }

/-- The match finder + optimum parser: which LZMA symbols the next chunk consists of (`none` = the chunk stays open).
    Arguments: flushing?, lc/lp/pb, coder state, history, unencoded bytes. Nothing is assumed about it here. -/
structure Parser where
  pick : Bool → Flush.Props → St → Bytes → Bytes → Option (List Sym)

/-- decidable form of `PsOk` -/
def psOkB (p : Lzma.Props) (ps : Probs) : Bool :=
  ps.size == probsSize p.lc p.lp && (List.range ps.size).all (fun i => decide (ProbInv (ps.getD i 0)))

theorem psOkB_iff {p : Lzma.Props} {ps : Probs} (h : psOkB p ps = true) : PsOk p ps := by
  simp only [psOkB, Bool.and_eq_true, beq_iff_eq, List.all_eq_true, List.mem_range, decide_eq_true_eq] at h
  exact ⟨h.1, h.2⟩

/-- The chunk codec of C01 for a given dictionary size and parser.
    * `reset` = `lzma_lzma_encoder_reset` / the decoder's reset: initial probabilities, state 0, reps 0.
    * `choose`: the parser's symbols must describe exactly the first `n` unencoded bytes (`lzExpand`, the parser
      contract `Describes` of C01); the payload is `rc_reset`, the symbols' range coder operations, `rc_flush`.
    * `dec`: `rc_read_init`, symbols decoded until `n` bytes are there, `rc_normalize` + `rc_is_finished`,
      nothing may be left of the payload. -/
def lzmaCodec (dictSize : Nat) (P : Parser) : Codec St where
  reset p := (initProbs (toProps p), {})
  choose fl p st d a :=
    match P.pick fl p st d a with
    | none => none
    | some syms =>
      let n := symsLen syms
      if psOkB (toProps p) st.1 && decide (st.2.state < 12) && decide (1 ≤ n) && decide (n ≤ a.length)
          && decide ((toProps p).lc + (toProps p).lp ≤ 4) && decide ((toProps p).pb ≤ 4)
          && (lzExpand dictSize syms st.2 d.reverse == some ((a.take n).reverse ++ d.reverse)) then
        match encSyms (toProps p) dictSize syms d.length st.2 d.reverse with
        | none => none
        | some (ops, _, s', _) =>
          some (⟨n, (encFlush (encOps st.1 Enc.init ops).2).out⟩, ((encOps st.1 Enc.init ops).1, s'))
      else none
  dec p st d payload n :=
    match readInit payload with
    | .ok rc rest =>
      match (decBytes (toProps p) dictSize (n + 1) n d.length st.2 d.reverse).runRc st.1 rc rest with
      | some ((_, s', rb'), ps', rc', rest') =>
        match normalizeL rc' rest' with
        | some (rc'', []) => if rc''.code = 0 then some (rb'.reverse.drop d.length, (ps', s')) else none
        | _ => none
      | none => none
    | _ => none

/-- every symbol of an expandable sequence stands for at least one byte -/
theorem length_le_symsLen {dictSize : Nat} (hd : dictSize ≤ 4294967295) :
    ∀ (syms : List Sym) (s : SymSt) (rb rb' : List UInt8), lzExpand dictSize syms s rb = some rb' → syms.length ≤ symsLen syms
  | [], _, _, _, _ => by simp [symsLen]
  | sym :: rest, s, rb, rb', h => by
    simp only [lzExpand] at h
    split at h
    · cases h
    · rename_i rb1 happ
      have hpos := sym_len_pos sym (applySym_valid hd happ).1
      have := length_le_symsLen hd rest _ _ _ h
      simp only [List.length_cons, symsLen]; omega

/-- `lzma_chunk_roundtrip` of C01 with any sufficient fuel for the size-driven decoder (same proof). -/
theorem chunk_roundtrip_fuel (p : Lzma.Props) (hp : PropsOk p) (dictSize : Nat) (hd : dictSize ≤ 4294967295)
    (ps : Probs) (hps : PsOk p ps) (syms : List Sym) (pos : Nat) (s : SymSt) (hs : s.state < 12) (rb rb' : List UInt8)
    (hexp : lzExpand dictSize syms s rb = some rb') (fuel : Nat) (hf : syms.length < fuel) :
    ∃ ops pos' s', encSyms p dictSize syms pos s rb = some (ops, pos', s', rb') ∧
      ∀ tail, ∃ rc rest rc' rest' rc'',
        readInit ((encFlush (encOps ps Enc.init ops).2).out ++ tail) = .ok rc rest ∧
        (decBytes p dictSize fuel (symsLen syms) pos s rb).runRc ps rc rest
          = some ((pos', s', rb'), (encOps ps Enc.init ops).1, rc', rest') ∧
        normalizeL rc' rest' = some (rc'', tail) ∧ rc''.code = 0 := by
  obtain ⟨ops, pos', s', henc, hs', hb⟩ := encSyms_of_expand p hp dictSize hd syms pos s rb rb' hs hexp
  have hok : ProbsOk ps ops := ⟨hps.2, by rw [hps.1]; exact hb⟩
  have hreplay := decBytes_ops p dictSize hd syms fuel pos s rb ops pos' s' rb' [] henc hf
  rw [List.append_nil] at hreplay
  have hres := encOps_resolve ops ps Enc.init
  have hrok := resolve_ok _ _ hok
  have hbytes : (encFlush (encOps ps Enc.init ops).2).out = (finish Enc.init (resolve ps ops).1).out := by
    simp only [hres, finish]
  refine ⟨ops, pos', s', henc, ?_⟩
  intro tail
  obtain ⟨rc, rest, hinit, hsync, _⟩ := sync_init hrok tail
  obtain ⟨consumed, ps', e', rc', rest', hcons, hencops, hrun, _, hI', hs2⟩ :=
    prog_sync _ _ [] _ ps Enc.init tail rc rest hreplay hok inv_init hsync
  simp only [resolve] at hs2
  obtain ⟨rc'', hnorm, hcode⟩ := sync_end hI' hs2
  have hc : consumed = ops := by simpa using hcons.symm
  subst hc
  refine ⟨rc, rest, rc', rest', rc'', by rw [hbytes]; exact hinit, ?_, hnorm, hcode⟩
  rw [hencops]; exact hrun

/-- **`Codec.Sound.inv` for the C01 codec, whatever the parser does**: a chunk that `choose` produced is decoded by `dec`
    to exactly the bytes it covers, and the decoder ends in the encoder's state. -/
theorem lzmaCodec_inv (dictSize : Nat) (hd : dictSize ≤ 4294967295) (P : Parser) :
    ∀ (fl : Bool) (p : Flush.Props) (s : St) (d a : Bytes) (ch : Choice) (s' : St),
      (lzmaCodec dictSize P).choose fl p s d a = some (ch, s') → ch.isLzma = true →
      (lzmaCodec dictSize P).dec p s d ch.payload ch.n = some (a.take ch.n, s') := by
  intro fl p s d a ch s' h _
  simp only [lzmaCodec] at h
  cases hpick : P.pick fl p s d a with
  | none => simp [hpick] at h
  | some syms =>
    simp only [hpick] at h
    split at h
    · rename_i hg
      simp only [Bool.and_eq_true, decide_eq_true_eq, beq_iff_eq] at hg
      obtain ⟨⟨⟨⟨⟨⟨g1, g2⟩, g3⟩, g4⟩, g5⟩, g6⟩, g7⟩ := hg
      have hps := psOkB_iff g1
      obtain ⟨ops, pos', st', henc, hdec⟩ := chunk_roundtrip_fuel (toProps p) ⟨g5, g6⟩ dictSize hd s.1 hps syms d.length s.2 g2
        d.reverse _ g7 (symsLen syms + 1) (by have := length_le_symsLen hd syms _ _ _ g7; omega)
      simp only [henc, Option.some.injEq, Prod.mk.injEq] at h
      obtain ⟨hch, hs'⟩ := h
      subst hch; subst hs'
      obtain ⟨rc, rest, rc', rest', rc'', h1, h2, h3, h4⟩ := hdec []
      rw [List.append_nil] at h1
      simp only [lzmaCodec, h1, h2, h3, h4, if_true]
      simp [List.reverse_append]
    · cases h

/-- the parts of `Codec.Sound.wf` that hold by construction -/
theorem lzmaCodec_covers (dictSize : Nat) (P : Parser) :
    ∀ (fl : Bool) (p : Flush.Props) (s : St) (d a : Bytes) (ch : Choice) (s' : St),
      (lzmaCodec dictSize P).choose fl p s d a = some (ch, s') → 1 ≤ ch.n ∧ ch.n ≤ a.length := by
  intro fl p s d a ch s' h
  simp only [lzmaCodec] at h
  cases hpick : P.pick fl p s d a with
  | none => simp [hpick] at h
  | some syms =>
    simp only [hpick] at h
    split at h
    · rename_i hg
      simp only [Bool.and_eq_true, decide_eq_true_eq, beq_iff_eq] at hg
      obtain ⟨⟨⟨⟨⟨⟨g1, g2⟩, g3⟩, g4⟩, g5⟩, g6⟩, g7⟩ := hg
      split at h
      · cases h
      · simp only [Option.some.injEq, Prod.mk.injEq] at h
        obtain ⟨hch, _⟩ := h
        subst hch
        exact ⟨g3, g4⟩
    · cases h

theorem psOk_init (p : Lzma.Props) : PsOk p (initProbs p) := by
  refine ⟨by simp [initProbs], ?_⟩
  intro i hi
  have hi' : i < probsSize p.lc p.lp := by simpa [initProbs] using hi
  have : (initProbs p).getD i 0 = 1024 := by
    simp [initProbs, Array.getD_eq_getD_getElem?, hi', PROB_INIT]
  rw [this]; exact ⟨by norm_num, by norm_num⟩

/-- What is known of every coder state that can occur with this codec: valid lc/lp/pb, probabilities of the right
    number within `[31, 2017]`, a state below 12 — the hypotheses of C01's round trip theorems. -/
theorem lzmaCodec_reach (dictSize : Nat) (hd : dictSize ≤ 4294967295) (P : Parser) {p : Flush.Props} {s : St}
    (h : (lzmaCodec dictSize P).Reach p s) : p.valid = true ∧ PsOk (toProps p) s.1 ∧ s.2.state < 12 := by
  induction h with
  | reset hp => exact ⟨hp, psOk_init _, by simp [lzmaCodec]⟩
  | @step s fl d a ch s' _ hch ih =>
    refine ⟨ih.1, ?_⟩
    simp only [lzmaCodec] at hch
    cases hpick : P.pick fl p s d a with
    | none => simp [hpick] at hch
    | some syms =>
      simp only [hpick] at hch
      split at hch
      · rename_i hg
        simp only [Bool.and_eq_true, decide_eq_true_eq, beq_iff_eq] at hg
        obtain ⟨⟨⟨⟨⟨⟨g1, g2⟩, g3⟩, g4⟩, g5⟩, g6⟩, g7⟩ := hg
        obtain ⟨ops, pos', st', henc, hst', hps', _, _⟩ := lzma_chunk_roundtrip (toProps p) ⟨g5, g6⟩ dictSize hd s.1 (psOkB_iff g1) syms
          d.length s.2 g2 d.reverse _ g7
        simp only [henc, Option.some.injEq, Prod.mk.injEq] at hch
        obtain ⟨_, hs'⟩ := hch
        subst hs'
        exact ⟨hps', hst'⟩
      · cases hch

/-- the payload of an LZMA chunk is never empty (it starts with the 0x00 of `rc_reset` + `rc_shift_low`) -/
theorem lzmaCodec_payload (dictSize : Nat) (hd : dictSize ≤ 4294967295) (P : Parser) :
    ∀ (fl : Bool) (p : Flush.Props) (s : St) (d a : Bytes) (ch : Choice) (s' : St),
      (lzmaCodec dictSize P).choose fl p s d a = some (ch, s') → 1 ≤ ch.payload.length := by
  intro fl p s d a ch s' h
  simp only [lzmaCodec] at h
  cases hpick : P.pick fl p s d a with
  | none => simp [hpick] at h
  | some syms =>
    simp only [hpick] at h
    split at h
    · rename_i hg
      simp only [Bool.and_eq_true, decide_eq_true_eq, beq_iff_eq] at hg
      obtain ⟨⟨⟨⟨⟨⟨g1, g2⟩, g3⟩, g4⟩, g5⟩, g6⟩, g7⟩ := hg
      obtain ⟨ops, pos', st', henc, _, _, hhead, _⟩ := lzma_chunk_roundtrip (toProps p) ⟨g5, g6⟩ dictSize hd s.1 (psOkB_iff g1) syms
        d.length s.2 g2 d.reverse _ g7
      simp only [henc, Option.some.injEq, Prod.mk.injEq] at h
      obtain ⟨hch, _⟩ := h
      subst hch
      simp only
      cases hl : (encFlush (encOps s.1 Enc.init ops).2).out with
      | nil => rw [hl] at hhead; cases hhead
      | cons b t => simp
    · cases h

/-- What the parser has to do for `choose` to produce a chunk when flushing: on a state that can occur, describe a
    non-empty prefix of the unencoded bytes. -/
def Parser.Live (dictSize : Nat) (P : Parser) : Prop :=
  ∀ (p : Flush.Props) (s : St) (d a : Bytes), p.valid = true → PsOk (toProps p) s.1 → s.2.state < 12 → a ≠ [] →
    ∃ syms, P.pick true p s d a = some syms ∧ 1 ≤ symsLen syms ∧ symsLen syms ≤ a.length ∧
      lzExpand dictSize syms s.2 d.reverse = some ((a.take (symsLen syms)).reverse ++ d.reverse)

/-- under LZMA_RUN the parser never describes all unencoded bytes (keep_size_after bytes of look-ahead stay back) -/
def Parser.Lag (P : Parser) : Prop :=
  ∀ (p : Flush.Props) (s : St) (d a : Bytes) (syms : List Sym), P.pick false p s d a = some syms → symsLen syms < a.length

theorem psOkB_of {p : Lzma.Props} {ps : Probs} (h : PsOk p ps) : psOkB p ps = true := by
  simp only [psOkB, Bool.and_eq_true, beq_iff_eq, List.all_eq_true, List.mem_range, decide_eq_true_eq]
  exact ⟨h.1, h.2⟩

theorem lzmaCodec_live (dictSize : Nat) (hd : dictSize ≤ 4294967295) (P : Parser) (hl : P.Live dictSize) :
    ∀ (p : Flush.Props) (s : St) (d a : Bytes), (lzmaCodec dictSize P).Reach p s → a ≠ [] →
      (lzmaCodec dictSize P).choose true p s d a ≠ none := by
  intro p s d a hr ha
  obtain ⟨hv, hps, hst⟩ := lzmaCodec_reach dictSize hd P hr
  obtain ⟨syms, hpick, h1, h2, hexp⟩ := hl p s d a hv hps hst ha
  have hvp : (toProps p).lc + (toProps p).lp ≤ 4 ∧ (toProps p).pb ≤ 4 := by
    simp only [Flush.Props.valid, Bool.and_eq_true, decide_eq_true_eq] at hv
    exact ⟨hv.1.2, hv.2⟩
  obtain ⟨ops, pos', st', henc, _⟩ := encSyms_of_expand (toProps p) ⟨hvp.1, hvp.2⟩ dictSize hd syms d.length s.2 d.reverse _ hst hexp
  simp only [lzmaCodec, hpick, psOkB_of hps, hst, h1, h2, hvp.1, hvp.2, hexp, henc, decide_true, Bool.and_self, beq_self_eq_true, if_true]
  simp

theorem lzmaCodec_lag (dictSize : Nat) (P : Parser) (hl : P.Lag) :
    ∀ (p : Flush.Props) (s : St) (d a : Bytes) (ch : Choice) (s' : St),
      (lzmaCodec dictSize P).choose false p s d a = some (ch, s') → ch.n < a.length := by
  intro p s d a ch s' h
  simp only [lzmaCodec] at h
  cases hpick : P.pick false p s d a with
  | none => simp [hpick] at h
  | some syms =>
    simp only [hpick] at h
    split at h
    · split at h
      · cases h
      · simp only [Option.some.injEq, Prod.mk.injEq] at h
        obtain ⟨hch, _⟩ := h
        subst hch
        exact hl p s d a syms hpick
    · cases h

/-- everything `choose` of the C01 codec says about a chunk it produced -/
theorem lzmaCodec_choose_inv (dictSize : Nat) (P : Parser) {fl : Bool} {p : Flush.Props} {s : St} {d a : Bytes} {ch : Choice} {s' : St}
    (h : (lzmaCodec dictSize P).choose fl p s d a = some (ch, s')) :
    ∃ syms ops pos' rb', P.pick fl p s d a = some syms ∧ ch.n = symsLen syms ∧
      PsOk (toProps p) s.1 ∧ s.2.state < 12 ∧ 1 ≤ ch.n ∧ ch.n ≤ a.length ∧ PropsOk (toProps p) ∧
      lzExpand dictSize syms s.2 d.reverse = some ((a.take ch.n).reverse ++ d.reverse) ∧
      encSyms (toProps p) dictSize syms d.length s.2 d.reverse = some (ops, pos', s'.2, rb') ∧
      ch.payload = (encFlush (encOps s.1 Enc.init ops).2).out ∧ s'.1 = (encOps s.1 Enc.init ops).1 := by
  simp only [lzmaCodec] at h
  cases hpick : P.pick fl p s d a with
  | none => simp [hpick] at h
  | some syms =>
    simp only [hpick] at h
    split at h
    · rename_i hg
      simp only [Bool.and_eq_true, decide_eq_true_eq, beq_iff_eq] at hg
      obtain ⟨⟨⟨⟨⟨⟨g1, g2⟩, g3⟩, g4⟩, g5⟩, g6⟩, g7⟩ := hg
      split at h
      · cases h
      · rename_i ops pos' st' rb' henc
        simp only [Option.some.injEq, Prod.mk.injEq] at h
        obtain ⟨hch, hs'⟩ := h
        subst hch; subst hs'
        exact ⟨syms, ops, pos', rb', rfl, rfl, psOkB_iff g1, g2, g3, g4, ⟨g5, g6⟩, g7, henc, rfl, rfl⟩
    · cases h

/-- The simplest real parser: when flushing, the next (at most 64 KiB) unencoded bytes as LZMA literals; under LZMA_RUN it
    never closes a chunk. (A chunk whose literals do not shrink it is stored uncompressed by `L2.emit`, as in lzma2_encode.) -/
def literalParser : Parser :=
  { pick := fun fl _ _ _ a => if fl && !a.isEmpty then some ((a.take LZMA2_CHUNK_MAX).map Sym.lit) else none }

theorem symsLen_lits (l : Bytes) : symsLen (l.map Sym.lit) = l.length := by
  induction l with
  | nil => rfl
  | cons b t ih => simp [symsLen, Sym.len, ih]; omega

theorem lzExpand_lits (dictSize : Nat) : ∀ (l : Bytes) (s : SymSt) (rb : Bytes),
    lzExpand dictSize (l.map Sym.lit) s rb = some (l.reverse ++ rb)
  | [], _, _ => by simp [lzExpand]
  | b :: t, s, rb => by
    simp only [List.map_cons, lzExpand, applySym]
    rw [lzExpand_lits dictSize t]
    simp

theorem literalParser_lag : literalParser.Lag := by
  intro p s d a syms h
  simp [literalParser] at h

theorem literalParser_live (dictSize : Nat) : literalParser.Live dictSize := by
  intro p s d a _ _ _ ha
  have hne : a.isEmpty = false := by cases a <;> simp at ha ⊢
  refine ⟨(a.take LZMA2_CHUNK_MAX).map Sym.lit, by simp [literalParser, ha], ?_, ?_, ?_⟩
  · rw [symsLen_lits]
    cases a with
    | nil => exact absurd rfl ha
    | cons b t => simp [LZMA2_CHUNK_MAX]
  · rw [symsLen_lits]; simp
  · rw [symsLen_lits, lzExpand_lits]
    simp [List.take_take]

theorem literalParser_limits (dictSize : Nat) (hd : dictSize ≤ 4294967295) :
    ∀ (fl : Bool) (p : Flush.Props) (s : St) (d a : Bytes) (ch : Choice) (s' : St),
      (lzmaCodec dictSize literalParser).choose fl p s d a = some (ch, s') →
        ch.n ≤ LZMA2_UNCOMPRESSED_MAX ∧ (ch.isLzma = true → ch.payload.length ≤ LZMA2_CHUNK_MAX) ∧
        (ch.isLzma = false → ch.n ≤ LZMA2_CHUNK_MAX) := by
  intro fl p s d a ch s' h
  obtain ⟨syms, ops, pos', rb', hpick, hn, _⟩ := lzmaCodec_choose_inv dictSize literalParser h
  have hle : ch.n ≤ LZMA2_CHUNK_MAX := by
    simp only [literalParser] at hpick
    split at hpick
    · simp only [Option.some.injEq] at hpick
      rw [hn, ← hpick, symsLen_lits]
      simp
    · cases hpick
  refine ⟨by unfold LZMA2_CHUNK_MAX at hle; unfold LZMA2_UNCOMPRESSED_MAX; omega, ?_, fun _ => hle⟩
  intro hz
  simp only [Choice.isLzma, decide_eq_true_eq] at hz
  omega


end XzVerif.FlushC01
