/- C17 invariant Q9: preservation by `exec`, program counters before close(target). -/
import XzVerif.Lemmas.XzIoQ9Def

namespace XzVerif.XzIo
variable {α : Type}

section
variable {c : Cfg α} {s : St α} (q : Q9 s)
include q

set_option hygiene false in
local macro "m9_explicit" : tactic =>
  `(tactic| exact q9_mid q hnp hsf (Frame.refl _) (Or.inr ⟨by simp [Pc.postDest, emit, msgWarn, msgError, hpc], by simp [Pc.early9, emit, msgWarn, msgError, hpc]⟩)
      (fun h => by simp [Pc.doneSrc, emit, msgWarn, msgError, hpc] at h) rfl rfl rfl rfl rfl rfl)
set_option hygiene false in
local macro "m9_iofail" : tactic =>
  `(tactic| exact q9_mid q hnp hsf (frame_ioFail c _).1 (Or.inl (ioFail_landing c _)) (ioFail_doneSrc c _) rfl rfl rfl rfl rfl rfl)
set_option hygiene false in
local macro "m9_loop" : tactic =>
  `(tactic| exact q9_mid q hnp hsf (frame_continueLoop c _).1 (Or.inl (continueLoop_landing c _)) (continueLoop_doneSrc c _)
      rfl rfl rfl rfl rfl rfl)
set_option hygiene false in
local macro "m9_odErr" : tactic =>
  `(tactic| exact q9_mid q hnp hsf (frame_openDestErr c _).1 (Or.inl (openDestErr_landing c _)) (openDestErr_doneSrc c _)
      rfl rfl rfl rfl rfl rfl)
set_option hygiene false in
local macro "m9_cdp" : tactic =>
  `(tactic| exact q9_mid q hnp hsf (frame_closeDestPhase c _).1 (Or.inl (closeDestPhase_landing c _)) (closeDestPhase_doneSrc c _)
      rfl rfl rfl rfl rfl rfl)

theorem q9_exec_openSrc (hpc : s.pc = .openSrc) : Q9 (exec c s) := by
  have ho := q.n8 (by rw [hpc]; rfl)
  unfold exec; simp only [hpc]
  repeat' split
  all_goals first
    | exact q9_noOwn ho q.n9
    | exact ⟨fun e => by rw [show (_ : St α).fs.ownLinked = s.fs.ownLinked from rfl, ho] at e; simp at e,
        fun e => by rw [show (_ : St α).fs.ownLinked = s.fs.ownLinked from rfl, ho] at e; simp at e,
        fun _ _ e => by rw [show (_ : St α).fs.ownLinked = s.fs.ownLinked from rfl, ho] at e; simp at e,
        fun e => by rw [show (_ : St α).fs.ownLinked = s.fs.ownLinked from rfl, ho] at e; simp at e, fun _ => ho, q.n9⟩

theorem q9_exec_closeSrcErr (hpc : s.pc = .closeSrcErr) : Q9 (exec c s) := by
  have ho := q.n8 (by rw [hpc]; rfl)
  unfold exec; simp only [hpc]
  exact q9_noOwn ho q.n9

theorem q9_exec_fstatSrc (hpc : s.pc = .fstatSrc) : Q9 (exec c s) := by
  have ho := q.n8 (by rw [hpc]; rfl)
  have hnp : s.pc.postDest = false := by rw [hpc]; rfl
  have hsf : s.pc ≠ .fstatDest := by rw [hpc]; simp
  unfold exec; simp only [hpc]
  repeat' split
  all_goals first
    | exact q9_noOwn ho q.n9
    | m9_loop

theorem q9_exec_openDir (hpc : s.pc = .openDir) : Q9 (exec c s) := by
  have hnp : s.pc.postDest = false := by rw [hpc]; rfl
  have hsf : s.pc ≠ .fstatDest := by rw [hpc]; simp
  unfold exec; simp only [hpc]
  repeat' split
  all_goals first
    | m9_iofail
    | m9_explicit

theorem q9_exec_unlinkForce (hpc : s.pc = .unlinkForce) : Q9 (exec c s) := by
  have hnp : s.pc.postDest = false := by rw [hpc]; rfl
  have hsf : s.pc ≠ .fstatDest := by rw [hpc]; simp
  unfold exec; simp only [hpc]
  repeat' split
  all_goals first
    | m9_odErr
    | m9_explicit
    | exact q9_noOwn (unlinkDstName_own s.fs q.n1)
        (by rw [show (_ : St α).fs.srcName = s.fs.unlinkDstName.srcName from rfl]
            unfold FS.unlinkDstName; split <;> simp <;> exact q.n9)

theorem q9_exec_openDest (hpc : s.pc = .openDest) : Q9 (exec c s) := by
  have hnp : s.pc.postDest = false := by rw [hpc]; rfl
  have hsf : s.pc ≠ .fstatDest := by rw [hpc]; simp
  unfold exec; simp only [hpc]
  repeat' split
  all_goals first
    | m9_odErr
    | exact ⟨fun _ => rfl, fun _ h => absurd rfl h, fun h => by simp [Pc.post] at h, fun _ => Or.inl rfl,
        fun h => by simp [Pc.early9] at h, q.n9⟩

theorem q9_exec_closeDirErr (hpc : s.pc = .closeDirErr) : Q9 (exec c s) := by
  have hnp : s.pc.postDest = false := by rw [hpc]; rfl
  have hsf : s.pc ≠ .fstatDest := by rw [hpc]; simp
  unfold exec; simp only [hpc]
  m9_iofail

theorem q9_exec_fstatDest (hpc : s.pc = .fstatDest) : Q9 (exec c s) := by
  have hnp : s.pc.postDest = false := by rw [hpc]; rfl
  have hopen : s.fs.ownLinked = true → s.destOpen = true := by
    intro h; rcases q.n7 h with h | h
    · exact h
    · rw [hnp] at h; simp at h
  unfold exec; simp only [hpc]
  split
  · -- fstat failed: the inode of the target is unknown from now on
    exact q9_mid' q hnp (frame_continueLoop c _).1 (Or.inl (continueLoop_landing c _)) (continueLoop_doneSrc c _)
      rfl rfl rfl rfl (fun _ _ => Or.inr ⟨_, List.mem_cons_self .., rfl⟩) rfl
  · repeat' split
    all_goals first
      | exact q9_mid' q hnp (frame_continueLoop c _).1 (Or.inl (continueLoop_landing c _)) (continueLoop_doneSrc c _)
          rfl rfl rfl rfl (fun h _ => Or.inl (by have := hopen h; simp_all [emit])) rfl
      | exact q9_mid' q hnp (Frame.refl _) (Or.inr ⟨rfl, rfl⟩) (fun h => by simp [Pc.doneSrc] at h)
          rfl rfl rfl rfl (fun h _ => Or.inl (by have := hopen h; simp_all [emit])) rfl

end
end XzVerif.XzIo
