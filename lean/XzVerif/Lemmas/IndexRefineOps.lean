/-
  C13 helper lemmas: each operation of the concrete model refines the specification and keeps the invariant.
-/
import XzVerif.Lemmas.IndexRefine

namespace XzVerif.Index
namespace Impl

/-! ### append -/

/-- `last'` is `last` with one more Record -/
structure Extends (last last' : Stream) (r : Rec) (add : Nat) : Prop where
  recs : last'.allRecs = last.allRecs ++ [r]
  ne : ∀ g ∈ last'.groups.toList, g.records.size ≠ 0
  gcount : last'.groups.count = last'.groups.toList.length
  gb : GroupsOk last'.groups.toList
  count : last'.recordCount = last.recordCount + 1
  ls : last'.indexListSize = last.indexListSize + add
  flags : last'.flags = last.flags
  padding : last'.padding = last.padding
  b1 : last'.compressedBase = last.compressedBase
  b2 : last'.uncompressedBase = last.uncompressedBase
  b3 : last'.number = last.number
  b4 : last'.blockNumberBase = last.blockNumberBase

theorem extends_abs {last last' : Stream} (hs : StreamInv last) {u c : Nat}
    (he : Extends last last' ⟨last.lastSums.uncompressedSum + c, vliCeil4 last.lastSums.unpaddedSum + u⟩ (vliSize u + vliSize c)) :
    absStream last' = { absStream last with blocks := (absStream last).blocks ++ [⟨u, c⟩] } ∧ StreamInv last' := by
  obtain ⟨q1, q2⟩ := lastSums_of_stream last hs
  have hb : (absStream last').blocks = (absStream last).blocks ++ [⟨u, c⟩] := by
    unfold absStream
    simp only [he.recs, blocksOfRecs_append, q1, q2]
    congr 2
    congr 1 <;> omega
  refine ⟨?_, ?_⟩
  · unfold absStream at hb ⊢
    simp only at hb
    rw [he.flags, he.padding, hb]
  · refine ⟨he.ne, ?_, ?_, ?_, he.gcount, he.gb⟩
    · rw [he.recs]
      apply recsOk_append _ _ _ _ hs.recs
      · simp only [q1]; omega
      · simp only [q2]; omega
    · rw [he.count, he.recs, hs.count]; simp
    · rw [he.ls, hb, hs.listSz, listSize_append]; simp [listSize]

theorem extends_room {last : Stream} (hs : StreamInv last) (hroom : last.hasRoom = true) (r : Rec) (add : Nat) :
    Extends last { last with
      groups := ⟨last.groups.root.modifyRightmost fun g => { g with records := g.records.push r }, last.groups.count⟩,
      recordCount := last.recordCount + 1, indexListSize := last.indexListSize + add } r add := by
  unfold Stream.hasRoom at hroom
  rw [Tree.rightmost?_eq_getLast?] at hroom
  cases hl : last.groups.root.toList.getLast? with
  | none => simp [hl] at hroom
  | some g =>
    obtain ⟨gfront, hg⟩ : ∃ gfront, last.groups.root.toList = gfront ++ [g] := by
      have hne' : last.groups.root.toList ≠ [] := by intro h; simp [h] at hl
      obtain ⟨init, z, hz⟩ := exists_snoc hne'
      rw [hz] at hl; simp at hl; subst hl; exact ⟨init, hz⟩
    have hnew : (last.groups.root.modifyRightmost fun g => { g with records := g.records.push r }).toList
        = gfront ++ [{ g with records := g.records.push r }] := by
      rw [Tree.toList_modifyRightmost, hg, Spec.modifyLast_append_singleton]
    refine ⟨?_, ?_, ?_, ?_, rfl, rfl, rfl, rfl, rfl, rfl, rfl, rfl⟩
    · unfold Stream.allRecs
      simp only [hnew, hg, List.flatMap_append, List.flatMap_cons, List.flatMap_nil, List.append_nil,
        Array.toList_push, List.append_assoc]
    · intro g' hg'
      unfold CTree.toList at hg'
      simp only [hnew] at hg'
      rcases List.mem_append.mp hg' with hg' | hg'
      · exact hs.groupsNe g' (by unfold CTree.toList; rw [hg]; exact List.mem_append_left _ hg')
      · simp only [List.mem_singleton] at hg'; subst hg'; simp
    · unfold CTree.toList
      simp only [hnew]
      rw [hs.gcount]; unfold CTree.toList; rw [hg]; simp
    · unfold CTree.toList
      simp only [hnew]
      have hb := hs.gbases
      unfold CTree.toList at hb; rw [hg] at hb
      exact groupsOk_replace_last hb rfl rfl rfl

theorem extends_newgroup {last : Stream} (hs : StreamInv last) (r : Rec) (add : Nat) (g : Group) (hg : g.records = #[r])
    (hb1 : g.uncompressedBase = last.lastSums.uncompressedSum) (hb2 : g.compressedBase = vliCeil4 last.lastSums.unpaddedSum)
    (hb3 : g.numberBase = last.recordCount + 1) :
    Extends last { last with groups := last.groups.append g, recordCount := last.recordCount + 1,
                             indexListSize := last.indexListSize + add } r add := by
  refine ⟨?_, ?_, ?_, ?_, rfl, rfl, rfl, rfl, rfl, rfl, rfl, rfl⟩
  · unfold Stream.allRecs
    have := CTree.toList_append last.groups g
    unfold CTree.toList at this
    simp only [this, List.flatMap_append, List.flatMap_cons, List.flatMap_nil, List.append_nil, hg]
  · intro g' hg'
    simp only [CTree.toList_append] at hg'
    rcases List.mem_append.mp hg' with hg' | hg'
    · exact hs.groupsNe g' hg'
    · simp only [List.mem_singleton] at hg'; subst hg'; simp [hg]
  · simp only [CTree.count_append, CTree.toList_append, hs.gcount]; simp
  · simp only [CTree.toList_append]
    obtain ⟨q1, q2⟩ := lastSums_of_stream last hs
    apply groupsOk_snoc hs.gbases g
    · rw [hb1, q2]; rfl
    · rw [hb2, q1]; rfl
    · rw [hb3, hs.count]; rfl

theorem spec_append_of_check {sp : SpecIndex} {u c : Nat} (h : Spec.appendCheck sp u c = none) :
    Spec.append sp u c = (.ok, Spec.modifyLast (fun s => { s with blocks := s.blocks ++ [⟨u, c⟩] }) sp) := by
  unfold Spec.append; rw [h]

/-- common part of the two successful branches of `lzma_index_append` -/
theorem append_success {i i' : Index} (hi : Inv i) {front : List Stream} {last last' : Stream} {u c : Nat}
    (h : i.streams.root.toList = front ++ [last]) (hchk : Spec.appendCheck (abs i) u c = none)
    (h' : i'.streams.root.toList = front ++ [last']) (hcount : i'.streams.count = i.streams.count)
    (he : Extends last last' ⟨last.lastSums.uncompressedSum + c, vliCeil4 last.lastSums.unpaddedSum + u⟩ (vliSize u + vliSize c))
    (t1 : i'.totalSize = i.totalSize + vliCeil4 u) (t2 : i'.uncompressedSize = i.uncompressedSize + c)
    (t3 : i'.recordCount = i.recordCount + 1) (t4 : i'.indexListSize = i.indexListSize + (vliSize u + vliSize c))
    (t5 : i'.checks = i.checks) :
    abs i' = (Spec.append (abs i) u c).2 ∧ Inv i' := by
  have hs : StreamInv last := hi.streams last (by unfold CTree.toList; rw [h]; simp)
  obtain ⟨habs, hsinv⟩ := extends_abs hs he
  have hA : abs i' = front.map absStream ++ [{ absStream last with blocks := (absStream last).blocks ++ [⟨u, c⟩] }] := by
    rw [abs_snoc h', habs]
  have hB : (Spec.append (abs i) u c) = (.ok, abs i') := by
    rw [spec_append_of_check hchk, abs_snoc h, Spec.modifyLast_append_singleton, hA]
  refine ⟨by rw [hB], ?_⟩
  have hvalid : Spec.Valid (abs i') := Spec.append_valid hi.valid hB
  have e0 := abs_snoc h
  apply inv_of_replace hi h h' hcount hsinv he.b1 he.b2 he.b3 he.b4 _ _ _ _ t5 hvalid
  · rw [t2, hi.unc, hA, e0]
    simp [Spec.uncompressedSize, StreamRec.uncompressedSize, uncompSize_append, uncompSize]; omega
  · rw [t1, hi.total, hA, e0]
    simp [Spec.totalSize, blocksSize_append, blocksSize]; omega
  · rw [t3, hi.rcount, hA, e0]
    simp [Spec.blockCount]; omega
  · rw [t4, hi.lsize, hA, e0]
    simp [Spec.listSizeAll, listSize_append, listSize]; omega

/-- `lzma_index_append` refines the specification (allocation failure apart) and keeps the invariant -/
theorem append_refines {i : Index} (hi : Inv i) (u c : Nat) :
    Impl.append i u c = (.memError, i) ∨
    ((Impl.append i u c).1 = (Spec.append (abs i) u c).1 ∧ abs (Impl.append i u c).2 = (Spec.append (abs i) u c).2
      ∧ Inv (Impl.append i u c).2) := by
  obtain ⟨front, last, h⟩ := exists_snoc hi.ne
  unfold CTree.toList at h
  have hs : StreamInv last := hi.streams last (by unfold CTree.toList; rw [h]; simp)
  rw [append_eq hi h]
  cases hchk : Spec.appendCheck (abs i) u c with
  | some r =>
    right
    simp only [Spec.append, hchk]
    exact ⟨trivial, trivial, hi⟩
  | none =>
    simp only
    unfold appendOk
    simp only
    split
    · next hroom =>
      right
      have he := extends_room hs hroom ⟨last.lastSums.uncompressedSum + c, vliCeil4 last.lastSums.unpaddedSum + u⟩
        (vliSize u + vliSize c)
      exact ⟨by rw [spec_append_of_check hchk], append_success hi h hchk (setLast_toList h _) rfl he rfl rfl rfl rfl rfl⟩
    · split
      · left; rfl
      · right
        have he := extends_newgroup hs ⟨last.lastSums.uncompressedSum + c, vliCeil4 last.lastSums.unpaddedSum + u⟩
          (vliSize u + vliSize c)
          { uncompressedBase := last.lastSums.uncompressedSum, compressedBase := vliCeil4 last.lastSums.unpaddedSum,
            numberBase := last.recordCount + 1, allocated := i.prealloc,
            records := #[⟨last.lastSums.uncompressedSum + c, vliCeil4 last.lastSums.unpaddedSum + u⟩] } rfl rfl rfl rfl
        exact ⟨by rw [spec_append_of_check hchk], append_success hi h hchk (setLast_toList h _) rfl he rfl rfl rfl rfl rfl⟩

end Impl
end XzVerif.Index
