/-
  Slicing independence of the resumable LZMA decoder model, top level: a sliced run (`runSlicedR`) equals ONE call with the
  cumulative resources; a sliced run that ended equals the call with the whole input; two sliced runs that ended agree.
  ASSUMES `CodeAbsorb P (codeOf kind)` (Lemmas/LzmaResumeDefs.lean) and is restricted to (a) runs without dictionary wrap
  (`Inv … M`: total output room `≤ M`, window not filled by `M` bytes) and (b) slicings in which every call after the first
  is made with at least one byte of free output room (`FreeRoom`; without it `decode_buffer` returns after a dictionary reset
  without calling the coder again, and the statement is false). Core Lean only.
-/
import XzVerif.Lemmas.LzmaResumeLz

namespace XzVerif.LzmaR
open XzVerif.RangeDec XzVerif.LzDict XzVerif.Lzma XzVerif.Lzma2

theorem toBuf_size (l : List UInt8) : (toBuf l).size = l.length := by
  simp [toBuf, ByteArray.size]

theorem toBuf_get (l : List UInt8) (i : Nat) (h : i < (toBuf l).size) : (toBuf l)[i] = l[i]'(by rw [toBuf_size] at h; exact h) := by
  simp [toBuf, ByteArray.getElem_eq_getElem_data]

theorem agree_empty (b : ByteArray) : Agree ByteArray.empty.size ByteArray.empty b :=
  ⟨Nat.le_refl _, Nat.zero_le _, fun i h _ _ => absurd h (Nat.not_lt_zero i)⟩

theorem toBuf_agree_take (input : List UInt8) (n : Nat) :
    Agree (toBuf (input.take n)).size (toBuf (input.take n)) (toBuf input) := by
  refine ⟨Nat.le_refl _, ?_, ?_⟩
  · rw [toBuf_size, toBuf_size, List.length_take]; exact Nat.min_le_right _ _
  · intro i h h' _
    rw [toBuf_get, toBuf_get, List.getElem_take]

theorem toBuf_agree (input : List UInt8) {n n' : Nat} (h : n ≤ n') :
    Agree (toBuf (input.take n)).size (toBuf (input.take n)) (toBuf (input.take n')) := by
  have := toBuf_agree_take (input.take n') n
  rw [List.take_take, Nat.min_eq_left h] at this
  exact this

/-- every call of the sliced run is made with at least one byte of free output room -/
def FreeRoom (kind : Kind) (input : List UInt8) : List (Nat × Nat) → SRun → Prop
  | [], _ => True
  | (k, cap) :: sl, x => x.ret ≠ .ok ∨ (x.r.s.produced < x.room + cap ∧ FreeRoom kind input sl (runPieceR kind input x k cap))

theorem room_mono (kind : Kind) (input : List UInt8) : ∀ (sl : List (Nat × Nat)) (x : SRun),
    x.room ≤ (runSlicedR kind input sl x).room
  | [], x => Nat.le_refl _
  | (k, cap) :: sl, x => by
    unfold runSlicedR
    split
    · exact Nat.le_refl _
    · exact Nat.le_trans (Nat.le_add_right x.room cap) (room_mono kind input sl (runPieceR kind input x k cap))

theorem callR_eq (kind : Kind) (buf : ByteArray) (N : Nat) (r : RSt) :
    callR kind buf N r = decodeBufferR (codeOf kind) (decodeBufferFuel (r.withInp buf).s N) N (r.withInp buf) := rfl

/-- absorption for `callR` (the fuel computed by the model) -/
theorem callR_absorb {P : RSt → Prop} {kind : Kind} (hc : CodeAbsorb P (codeOf kind)) {M N N' : Nat} {b b' : ByteArray}
    (hNN : N ≤ N') (hNM : N' ≤ M) (hag : Agree b.size b b') (r0 : RSt) (hi : Inv P M r0 b N)
    (hfree : (callR kind b N r0).1 = .ok → (callR kind b N r0).2.s.produced < N') :
    Eqv (callR kind b' N' r0) (if (callR kind b N r0).1 = .ok then callR kind b' N' (callR kind b N r0).2 else callR kind b N r0)
    ∧ Inv P M (callR kind b N r0).2 b' N' := by
  have h := absorb hc hNN hNM hag r0 hi (decodeBufferFuel (r0.withInp b).s N) (decodeBufferFuel (r0.withInp b').s N')
    (decodeBufferFuel ((callR kind b N r0).2.withInp b').s N')
    (by show b.size - r0.s.inPos < (b.size - r0.s.inPos) + _ + 4; omega)
    (by show b'.size - r0.s.inPos < (b'.size - r0.s.inPos) + _ + 4; omega)
    (by show b'.size - (callR kind b N r0).2.s.inPos < (b'.size - (callR kind b N r0).2.s.inPos) + _ + 4; omega)
    hfree
  exact ⟨h.1, h.2.2.2⟩

/-- `callR` only looks at the state up to (`inp`, `dp.limit`) -/
theorem callR_congr (kind : Kind) (buf : ByteArray) (N : Nat) {r r' : RSt} (h : r.norm = r'.norm) :
    callR kind buf N r = callR kind buf N r' := by
  rw [callR_eq, callR_eq]
  have e1 : decodeBufferFuel (r.withInp buf).s N = decodeBufferFuel (r'.withInp buf).s N := by
    show (buf.size - r.s.inPos) + (N - r.s.produced) + 4 = (buf.size - r'.s.inPos) + (N - r'.s.produced) + 4
    rw [norm_inPos h, norm_produced h]
  rw [e1]
  have e2 : decodeBufferFuel (r'.withInp buf).s N = ((buf.size - r'.s.inPos) + (N - r'.s.produced) + 3) + 1 := rfl
  rw [e2]
  exact dB_congr _ _ _ (RSt.view_congr h buf 0)

section
variable {P : RSt → Prop} {kind : Kind} (hc : CodeAbsorb P (codeOf kind)) {M : Nat} {r0 : RSt} (input : List UInt8)
include hc

/-- one more piece -/
theorem piece_eqv (hi0 : Inv P M r0 ByteArray.empty 0) (x : SRun) (k cap : Nat) (hok : x.ret = .ok)
    (hav : x.avail ≤ input.length) (hM : x.room + cap ≤ M) (hfree : x.r.s.produced < x.room + cap)
    (hG : Eqv (x.ret, x.r) (callR kind (toBuf (input.take x.avail)) x.room r0)) :
    Eqv ((runPieceR kind input x k cap).ret, (runPieceR kind input x k cap).r)
      (callR kind (toBuf (input.take (runPieceR kind input x k cap).avail)) (runPieceR kind input x k cap).room r0) := by
  have hS : Same (x.ret, x.r) (callR kind (toBuf (input.take x.avail)) x.room r0) := by
    rcases hG with h | h
    · exact h
    · have : x.ret = .dataError := h.1
      rw [hok] at this; cases this
  have hXok : (callR kind (toBuf (input.take x.avail)) x.room r0).1 = .ok := hS.1.symm.trans hok
  have hn : x.r.norm = (callR kind (toBuf (input.take x.avail)) x.room r0).2.norm := hS.2
  have hle : x.avail ≤ min (x.avail + k) input.length := Nat.le_min.mpr ⟨Nat.le_add_right _ _, hav⟩
  have ha := callR_absorb hc (Nat.le_add_right x.room cap) hM (toBuf_agree input hle) r0
    (hi0.mono (agree_empty _) (Nat.zero_le _)) (fun _ => by rw [← norm_produced hn]; exact hfree)
  have h1 := ha.1
  rw [if_pos hXok] at h1
  show Eqv (callR kind (toBuf (input.take (min (x.avail + k) input.length))) (x.room + cap) x.r)
    (callR kind (toBuf (input.take (min (x.avail + k) input.length))) (x.room + cap) r0)
  rw [callR_congr kind _ _ hn]
  exact h1.symm

/-- the invariant of a sliced run: it equals one call with the cumulative resources -/
theorem sliced_inv (hi0 : Inv P M r0 ByteArray.empty 0) : ∀ (sl : List (Nat × Nat)) (x : SRun),
    x.avail ≤ input.length → Eqv (x.ret, x.r) (callR kind (toBuf (input.take x.avail)) x.room r0) →
    FreeRoom kind input sl x → (runSlicedR kind input sl x).room ≤ M →
    (runSlicedR kind input sl x).avail ≤ input.length ∧
    Eqv ((runSlicedR kind input sl x).ret, (runSlicedR kind input sl x).r)
      (callR kind (toBuf (input.take (runSlicedR kind input sl x).avail)) (runSlicedR kind input sl x).room r0)
  | [], x, hav, hG, _, _ => ⟨hav, hG⟩
  | (k, cap) :: sl, x, hav, hG, hfr, hM => by
    unfold runSlicedR at hM ⊢
    by_cases hret : x.ret = .ok
    · have hne : ¬ (x.ret ≠ .ok) := fun h => h hret
      rw [if_neg hne] at hM ⊢
      have hfr' : x.r.s.produced < x.room + cap ∧ FreeRoom kind input sl (runPieceR kind input x k cap) := by
        rcases hfr with h | h
        · exact absurd h hne
        · exact h
      have hM1 : x.room + cap ≤ M := Nat.le_trans (room_mono kind input sl (runPieceR kind input x k cap)) hM
      exact sliced_inv hi0 sl _ (Nat.min_le_right _ _) (piece_eqv hc input hi0 x k cap hret hav hM1 hfr'.1 hG) hfr'.2 hM
    · rw [if_pos hret]
      exact ⟨hav, hG⟩

/-- **(a)** A sliced run — every call after the first with free output room, no dictionary wrap within the total room —
    equals ONE call with the cumulative input and output allowance. -/
theorem sliced_eq_single (hi0 : Inv P M r0 ByteArray.empty 0) (k cap : Nat) (sl : List (Nat × Nat))
    (hfr : FreeRoom kind input sl (runPieceR kind input { r := r0 } k cap))
    (hM : (runSlicedR kind input ((k, cap) :: sl) { r := r0 }).room ≤ M) :
    Eqv ((runSlicedR kind input ((k, cap) :: sl) { r := r0 }).ret, (runSlicedR kind input ((k, cap) :: sl) { r := r0 }).r)
      (callR kind (toBuf (input.take (runSlicedR kind input ((k, cap) :: sl) { r := r0 }).avail))
        (runSlicedR kind input ((k, cap) :: sl) { r := r0 }).room r0) := by
  have e : runSlicedR kind input ((k, cap) :: sl) { r := r0 } = runSlicedR kind input sl (runPieceR kind input { r := r0 } k cap) := by
    conv => lhs; unfold runSlicedR
    simp
  rw [e] at hM ⊢
  exact (sliced_inv hc input hi0 sl _ (Nat.min_le_right _ _) (Eqv.refl _) hfr hM).2

/-- **(b)** … and if it ended (LZMA_STREAM_END or an error), it equals the call with the WHOLE input and any larger output
    allowance (within the no-wrap bound). -/
theorem sliced_end_eq_whole (hi0 : Inv P M r0 ByteArray.empty 0) (k cap : Nat) (sl : List (Nat × Nat))
    (hfr : FreeRoom kind input sl (runPieceR kind input { r := r0 } k cap))
    (hend : (runSlicedR kind input ((k, cap) :: sl) { r := r0 }).ret ≠ .ok)
    (Nstar : Nat) (hN : (runSlicedR kind input ((k, cap) :: sl) { r := r0 }).room ≤ Nstar) (hM : Nstar ≤ M) :
    Eqv ((runSlicedR kind input ((k, cap) :: sl) { r := r0 }).ret, (runSlicedR kind input ((k, cap) :: sl) { r := r0 }).r)
      (callR kind (toBuf input) Nstar r0) := by
  have hE := sliced_eq_single hc input hi0 k cap sl hfr (Nat.le_trans hN hM)
  generalize runSlicedR kind input ((k, cap) :: sl) { r := r0 } = X at hE hend hN
  have hS : (callR kind (toBuf (input.take X.avail)) X.room r0).1 ≠ .ok := by
    rcases hE with h | h
    · have : X.ret = (callR kind (toBuf (input.take X.avail)) X.room r0).1 := h.1
      rw [← this]; exact hend
    · rw [h.2.1]; decide
  have ha := callR_absorb hc hN hM (toBuf_agree_take input X.avail) r0
    (hi0.mono (agree_empty _) (Nat.zero_le _)) (fun h => absurd h hS)
  have h1 := ha.1
  rw [if_neg hS] at h1
  exact hE.trans h1.symm

/-- **(c)** Two sliced runs of the same decoder over the same input that both ended have equivalent results … -/
theorem two_slicings_agree (hi0 : Inv P M r0 ByteArray.empty 0) (k1 cap1 k2 cap2 : Nat) (sl1 sl2 : List (Nat × Nat))
    (hfr1 : FreeRoom kind input sl1 (runPieceR kind input { r := r0 } k1 cap1))
    (hfr2 : FreeRoom kind input sl2 (runPieceR kind input { r := r0 } k2 cap2))
    (hend1 : (runSlicedR kind input ((k1, cap1) :: sl1) { r := r0 }).ret ≠ .ok)
    (hend2 : (runSlicedR kind input ((k2, cap2) :: sl2) { r := r0 }).ret ≠ .ok)
    (hM1 : (runSlicedR kind input ((k1, cap1) :: sl1) { r := r0 }).room ≤ M)
    (hM2 : (runSlicedR kind input ((k2, cap2) :: sl2) { r := r0 }).room ≤ M) :
    Eqv ((runSlicedR kind input ((k1, cap1) :: sl1) { r := r0 }).ret, (runSlicedR kind input ((k1, cap1) :: sl1) { r := r0 }).r)
      ((runSlicedR kind input ((k2, cap2) :: sl2) { r := r0 }).ret, (runSlicedR kind input ((k2, cap2) :: sl2) { r := r0 }).r) := by
  have h1 := sliced_end_eq_whole hc input hi0 k1 cap1 sl1 hfr1 hend1
    (max (runSlicedR kind input ((k1, cap1) :: sl1) { r := r0 }).room (runSlicedR kind input ((k2, cap2) :: sl2) { r := r0 }).room)
    (Nat.le_max_left _ _) (Nat.max_le.mpr ⟨hM1, hM2⟩)
  have h2 := sliced_end_eq_whole hc input hi0 k2 cap2 sl2 hfr2 hend2
    (max (runSlicedR kind input ((k1, cap1) :: sl1) { r := r0 }).room (runSlicedR kind input ((k2, cap2) :: sl2) { r := r0 }).room)
    (Nat.le_max_right _ _) (Nat.max_le.mpr ⟨hM1, hM2⟩)
  exact h1.trans h2.symm

/-- … and, unless the chunk-overrun error of `lzma2_decode` was raised (ghost flag `overrun`), the same return code,
    the same output and the same number of consumed input bytes. -/
theorem two_slicings_agree_obs (hi0 : Inv P M r0 ByteArray.empty 0) (k1 cap1 k2 cap2 : Nat) (sl1 sl2 : List (Nat × Nat))
    (hfr1 : FreeRoom kind input sl1 (runPieceR kind input { r := r0 } k1 cap1))
    (hfr2 : FreeRoom kind input sl2 (runPieceR kind input { r := r0 } k2 cap2))
    (hend1 : (runSlicedR kind input ((k1, cap1) :: sl1) { r := r0 }).ret ≠ .ok)
    (hend2 : (runSlicedR kind input ((k2, cap2) :: sl2) { r := r0 }).ret ≠ .ok)
    (hM1 : (runSlicedR kind input ((k1, cap1) :: sl1) { r := r0 }).room ≤ M)
    (hM2 : (runSlicedR kind input ((k2, cap2) :: sl2) { r := r0 }).room ≤ M)
    (hno : (runSlicedR kind input ((k1, cap1) :: sl1) { r := r0 }).r.overrun = false
      ∨ (runSlicedR kind input ((k2, cap2) :: sl2) { r := r0 }).r.overrun = false) :
    (runSlicedR kind input ((k1, cap1) :: sl1) { r := r0 }).ret = (runSlicedR kind input ((k2, cap2) :: sl2) { r := r0 }).ret
    ∧ (runSlicedR kind input ((k1, cap1) :: sl1) { r := r0 }).r.output = (runSlicedR kind input ((k2, cap2) :: sl2) { r := r0 }).r.output
    ∧ (runSlicedR kind input ((k1, cap1) :: sl1) { r := r0 }).r.s.inPos = (runSlicedR kind input ((k2, cap2) :: sl2) { r := r0 }).r.s.inPos := by
  have h := two_slicings_agree hc input hi0 k1 cap1 k2 cap2 sl1 sl2 hfr1 hfr2 hend1 hend2 hM1 hM2
  rcases h with h | h
  · exact ⟨h.1, norm_output h.2, norm_inPos h.2⟩
  · rcases hno with hn | hn
    · have := h.2.2.1; rw [hn] at this; cases this
    · have := h.2.2.2; rw [hn] at this; cases this

end


/-! ### the hypotheses are satisfiable: the initial states satisfy `Inv` (given `P`) when the dictionary is large enough -/

theorem inv_of_init {P : RSt → Prop} {M : Nat} (r0 : RSt) (dictSize presetLen : Nat) (hP : P r0)
    (hdp : r0.s.dp = DictPos.init dictSize presetLen) (hin : r0.s.inPos = 0) (hbase : r0.s.outBase = r0.s.hist.size)
    (hM : min presetLen (roundDictSize dictSize) + M < roundDictSize dictSize) :
    Inv P M r0 ByteArray.empty 0 := by
  have hp : r0.s.produced = 0 := by
    show r0.s.hist.size - r0.s.outBase = 0
    omega
  refine ⟨hP, by rw [hin]; exact Nat.zero_le _, by omega, by omega, by rw [hdp]; rfl, ?_, ?_,
    by rw [hin]; exact ⟨Nat.zero_le _, Nat.zero_le _, fun i _ _ h => absurd h (Nat.not_lt_zero i)⟩⟩
  · rw [hdp]; unfold DictPos.init; simp only [LZ_DICT_INIT_POS]; omega
  · rw [hp, hdp]; unfold DictPos.init allocSize
    simp only [LZ_DICT_INIT_POS, LZ_DICT_REPEAT_MAX]
    omega

theorem inv_initLzma2R {P : RSt → Prop} {M : Nat} (dictSize : Nat) (preset : List UInt8) (hP : P (initLzma2R dictSize preset))
    (hM : min preset.length (roundDictSize dictSize) + M < roundDictSize dictSize) :
    Inv P M (initLzma2R dictSize preset) ByteArray.empty 0 :=
  inv_of_init _ dictSize preset.length hP rfl rfl (by
    show (presetTail dictSize preset).length = (ByteArray.mk (presetTail dictSize preset).toArray).size
    rw [byteArray_mk_size]) hM

theorem inv_initLzma1R {P : RSt → Prop} {M : Nat} (props : Props) (dictSize : Nat) (uncomp : Option Nat) (allowEopm : Bool)
    (preset : List UInt8) (hP : P (initLzma1R props dictSize uncomp allowEopm preset))
    (hM : min preset.length (roundDictSize dictSize) + M < roundDictSize dictSize) :
    Inv P M (initLzma1R props dictSize uncomp allowEopm preset) ByteArray.empty 0 :=
  inv_of_init _ dictSize preset.length hP rfl rfl (by
    show (presetTail dictSize preset).length = (ByteArray.mk (presetTail dictSize preset).toArray).size
    rw [byteArray_mk_size]) hM

end XzVerif.LzmaR
