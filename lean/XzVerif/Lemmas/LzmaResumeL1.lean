/-
  Slicing independence of the resumable LZMA1 decoder model, call level: `l1Absorb : L1Absorb` (LzmaResumeDefs.lean).

  * decomposition of `lzmaRunR`/`symLoopR` into head / symbol / write continuations (`headR`, `afterSym`, `afterWrite`);
  * absorption lemmas for the main loop (`write_absorb`, `sym_absorb`, `loop_absorb`, `head_absorb`): the run under more input
    / a larger limit equals the continuation `cont` of the run under fewer resources;
  * independence of the run from the `uncomp` member (`headR_uncomp`), what a run changes (`Stp`, `Post`, including "a write
    stopped by the limit is stopped again", `doWrite_blocked_idem`), fuel sufficiency (`headR_nofuel`), the
    `might_finish`/clamped-limit arithmetic (`pr_call`, `shiftN`), the resumed call (`resume_tail`), the part of a call after
    `rc_read_init` (`run_absorb`);
  * `l1Absorb_partial : BlockedWriteCase → L1Absorb`, `blockedWriteCase : BlockedWriteCase` (the small call produced all of the
    known uncompressed size and stopped at a pending write: LZMA_DATA_ERROR in both calls), `l1Absorb`.
  Core Lean only.
-/
import XzVerif.Lemmas.LzmaResumeSym
import XzVerif.Lemmas.LzmaResumeCall
import XzVerif.Lemmas.LzmaCausalCall
import XzVerif.Lemmas.C03Frame

namespace XzVerif.LzmaR
open XzVerif.RangeDec XzVerif.LzDict XzVerif.Lzma XzVerif.Lzma2



abbrev Res := EStateM.Result Exit St Unit × Option SymSnap

def NoFuel (z : Res) : Prop := ∀ t, z.1 ≠ .error .fuel t

def afterWrite (f : Nat) (ev mf : Bool) (res : EStateM.Result Exit St Unit) : Res :=
  match res with
  | .error e u => (.error e u, none)
  | .ok _ u => symLoopR f ev mf u

def afterSym (f : Nat) (ev mf : Bool) (k : SymSnap) (res : EStateM.Result Exit St Pending) : Res :=
  match res with
  | .error .needInput t => (.error .needInput t, some k)
  | .error e t => (.error e t, none)
  | .ok act t => afterWrite f ev mf (doWrite act t)

def headR (f : Nat) (ev mf : Bool) (p : Pending) (k : Option SymSnap) (s1 : St) : Res :=
  match k with
  | none => afterWrite f ev mf (doWrite p s1)
  | some k => afterSym f ev mf k (decodeSymbol ev (k.restore s1))

theorem lzmaRunR_eq (s : St) (k : Option SymSnap) :
    lzmaRunR s k = headR (clampedLimit s - s.dp.pos + 2) (s.uncomp.isNone || s.eopmValid) (mightFinish s) s.pending k
      { s with dp := { s.dp with limit := clampedLimit s }, pending := .none } := by
  unfold lzmaRunR headR
  cases k with
  | none =>
    simp only []
    unfold afterWrite
    cases doWrite s.pending _ <;> rfl
  | some kk =>
    simp only []
    unfold afterSym
    cases decodeSymbol _ _ with
    | error e t => cases e <;> rfl
    | ok act t =>
      simp only []
      unfold afterWrite
      cases doWrite act t <;> rfl

theorem symLoopR_succ (f : Nat) (ev mf : Bool) (s : St) :
    symLoopR (f + 1) ev mf s =
      match symPrelude ev mf s with
      | .error e t => (.error e t, none)
      | .ok ev1 t1 =>
        match rcNormalize t1 with
        | .error e _ => (.error e t1, none)
        | .ok _ _ => afterSym f ev1 mf (SymSnap.of t1) (decodeSymbol ev1 t1) := by
  rw [symLoopR]
  unfold symStepR
  cases symPrelude ev mf s with
  | error e t => rfl
  | ok ev1 t1 =>
    simp only []
    unfold symBodyR
    cases rcNormalize t1 with
    | error e t => rfl
    | ok a t =>
      simp only []
      unfold afterSym
      cases decodeSymbol ev1 t1 with
      | error e t => cases e <;> rfl
      | ok act t =>
        simp only []
        unfold afterWrite
        cases doWrite act t <;> rfl

theorem headR_none_none (f : Nat) (ev mf : Bool) (s : St) : headR f ev mf .none none s = symLoopR f ev mf s := rfl

/-! fuel -/
theorem symLoopR_fuel_eq (f1 f2 : Nat) (ev mf : Bool) (s : St)
    (h1 : NoFuel (symLoopR f1 ev mf s)) (h2 : NoFuel (symLoopR f2 ev mf s)) :
    symLoopR f1 ev mf s = symLoopR f2 ev mf s := by
  have a := symLoopR_fuel_mono f1 f2 ev mf s h1
  have b := symLoopR_fuel_mono f2 f1 ev mf s h2
  rw [Nat.add_comm] at b
  exact a.symm.trans b

theorem afterWrite_fuel_eq (f1 f2 : Nat) (ev mf : Bool) (res : EStateM.Result Exit St Unit)
    (h1 : NoFuel (afterWrite f1 ev mf res)) (h2 : NoFuel (afterWrite f2 ev mf res)) :
    afterWrite f1 ev mf res = afterWrite f2 ev mf res := by
  cases res with
  | error e u => rfl
  | ok a u => exact symLoopR_fuel_eq f1 f2 ev mf u h1 h2

theorem afterSym_fuel_eq (f1 f2 : Nat) (ev mf : Bool) (k : SymSnap) (res : EStateM.Result Exit St Pending)
    (h1 : NoFuel (afterSym f1 ev mf k res)) (h2 : NoFuel (afterSym f2 ev mf k res)) :
    afterSym f1 ev mf k res = afterSym f2 ev mf k res := by
  cases res with
  | error e u => cases e <;> rfl
  | ok a u => exact afterWrite_fuel_eq f1 f2 ev mf _ h1 h2

theorem headR_fuel_eq (f1 f2 : Nat) (ev mf : Bool) (p : Pending) (k : Option SymSnap) (s : St)
    (h1 : NoFuel (headR f1 ev mf p k s)) (h2 : NoFuel (headR f2 ev mf p k s)) :
    headR f1 ev mf p k s = headR f2 ev mf p k s := by
  cases k with
  | none => exact afterWrite_fuel_eq f1 f2 ev mf _ h1 h2
  | some kk => exact afterSym_fuel_eq f1 f2 ev mf kk _ h1 h2


/-! ### parameter relation -/
def PR (mf mf' : Bool) (L L' : Nat) : Prop :=
  L ≤ L' ∧ (mf = true → mf' = true ∧ L' = L) ∧ (mf = false → mf' = true → L < L')

theorem PR.test {mf mf' : Bool} {L L' : Nat} (h : PR mf mf' L L') (pos : Nat) (hp : pos ≤ L) :
    (mf && (pos == L)) = (mf' && (pos == L')) := by
  obtain ⟨h1, h2, h3⟩ := h
  cases mf with
  | true =>
    obtain ⟨a, b⟩ := h2 rfl
    rw [a, b]
  | false =>
    cases mf' with
    | false => rfl
    | true =>
      have := h3 rfl rfl
      have hne : pos ≠ L' := by omega
      simp [hne]

def cont (o' : St → St) (vn : Bool) (f : Nat) (mf' : Bool) (X : Res) : Res :=
  match X with
  | (.error .needInput t, k) => headR f (vn || t.eopmValid) mf' .none k (o' t)
  | (.error (.outFull q) t, _) => headR f (vn || t.eopmValid) mf' q none (o' t)
  | (.error e t, _) => (.error e (o' t), none)
  | (.ok _ t, _) => (.ok () (o' t), none)

structure Keep (s t : St) : Prop where
  inp : t.inp = s.inp
  limit : t.dp.limit = s.dp.limit
  uncomp : t.uncomp = s.uncomp
  allowEopm : t.allowEopm = s.allowEopm
  eopmValid : t.eopmValid = s.eopmValid

theorem keep_decodeSymbol (ev : Bool) (s : St) : Keep s (resSt (decodeSymbol ev s)) := by
  have h := (decodeSymbol_frame ev s).1
  generalize resSt (decodeSymbol ev s) = t at h
  rw [← h]
  exact ⟨rfl, rfl, rfl, rfl, rfl⟩

theorem keep_doWrite (p : Pending) (s : St) : Keep s (resSt (doWrite p s)) := by
  have h := doWrite_frame p s
  generalize resSt (doWrite p s) = t at h
  rw [h]
  exact ⟨rfl, rfl, rfl, rfl, rfl⟩

theorem ov_fix {b : ByteArray} {L : Nat} {v : Option Nat} {s : St} (h1 : s.inp = b) (h2 : s.dp.limit = L) (h3 : s.uncomp = v) :
    ov b L v s = s := by
  subst h1 h2 h3; rfl

section absorb
variable {b b' : ByteArray} {L L' : Nat} {v v' : Option Nat} {mf mf' : Bool}

structure Par (b b' : ByteArray) (L L' : Nat) (v v' : Option Nat) (mf mf' : Bool) : Prop where
  hag : Agree b.size b b'
  hPR : PR mf mf' L L'
  hvn : v.isNone = v'.isNone
  hmfv : mf = true → v ≠ none

structure LInv (b : ByteArray) (L : Nat) (v : Option Nat) (ev : Bool) (u : St) : Prop where
  inPos : u.inPos ≤ b.size
  pos : u.dp.pos ≤ L
  eopm : u.allowEopm = false ∨ v = none
  ev : ev = (v.isNone || u.eopmValid)

def LoopOK (b b' : ByteArray) (L L' : Nat) (v v' : Option Nat) (mf mf' : Bool) (f : Nat) : Prop :=
  ∀ (fuel' : Nat) (ev : Bool) (u : St), LInv b L v ev u →
    NoFuel (symLoopR f ev mf (ov b L v u)) → NoFuel (symLoopR fuel' ev mf' (ov b' L' v' u)) →
    ∀ f'', NoFuel (cont (ov b' L' v') v'.isNone f'' mf' (symLoopR f ev mf (ov b L v u))) →
      symLoopR fuel' ev mf' (ov b' L' v' u) = cont (ov b' L' v') v'.isNone f'' mf' (symLoopR f ev mf (ov b L v u))

theorem write_absorb (hp : Par b b' L L' v v' mf mf') (f : Nat) (hIH : LoopOK b b' L L' v v' mf mf' f)
    (fuel' : Nat) (ev : Bool) (p : Pending) (u : St) (hinv : LInv b L v ev u)
    (hX : NoFuel (afterWrite f ev mf (doWrite p (ov b L v u))))
    (hY : NoFuel (afterWrite fuel' ev mf' (doWrite p (ov b' L' v' u))))
    (f'' : Nat) (hC : NoFuel (cont (ov b' L' v') v'.isNone f'' mf' (afterWrite f ev mf (doWrite p (ov b L v u))))) :
    afterWrite fuel' ev mf' (doWrite p (ov b' L' v' u))
      = cont (ov b' L' v') v'.isNone f'' mf' (afterWrite f ev mf (doWrite p (ov b L v u))) := by
  have hk := keep_doWrite p (ov b L v u)
  have hsp := (doWrite_spec p (ov b L v u)).1
  have hip := doWrite_inPos p (ov b L v u)
  cases hw : doWrite p (ov b L v u) with
  | ok a u2 =>
    rw [hw] at hk hsp hip hX hC
    have hfix : ov b L v u2 = u2 := ov_fix hk.inp hk.limit hk.uncomp
    have hw' := doWrite_ok_transport p u u2 b b' L L' v v' hp.hPR.1 hinv.pos hw
    rw [hw'] at hY ⊢
    have hinv2 : LInv b L v ev u2 :=
      ⟨(by have : u2.inPos = u.inPos := hip
           rw [this]; exact hinv.inPos),
       (by have h1 : u2.dp.pos ≤ u2.dp.limit := hsp.in_limit hinv.pos
           have h2 : u2.dp.limit = L := hk.limit
           omega),
       (by have : u2.allowEopm = u.allowEopm := hk.allowEopm
           rw [this]; exact hinv.eopm),
       (by have : u2.eopmValid = u.eopmValid := hk.eopmValid
           rw [this]; exact hinv.ev)⟩
    have := hIH fuel' ev u2 hinv2
    rw [hfix] at this
    exact this hX hY f'' hC
  | error e u2 =>
    obtain ⟨q, rfl, hq, hpos⟩ := doWrite_exits p _ _ _ hw
    have hw' := doWrite_full_transport p q u u2 b b' L L' v v' hp.hPR.1 hinv.pos hw
    rw [hw] at hk hC
    rw [hw'] at hY ⊢
    have hev : (v'.isNone || u2.eopmValid) = ev := by
      have : u2.eopmValid = u.eopmValid := hk.eopmValid
      rw [this, ← hp.hvn]; exact hinv.ev.symm
    have hC' : NoFuel (afterWrite f'' (v'.isNone || u2.eopmValid) mf' (doWrite q (ov b' L' v' u2))) := hC
    show afterWrite fuel' ev mf' (doWrite q (ov b' L' v' u2))
      = afterWrite f'' (v'.isNone || u2.eopmValid) mf' (doWrite q (ov b' L' v' u2))
    rw [hev] at hC' ⊢
    exact afterWrite_fuel_eq _ _ _ _ _ hY hC'


theorem sym_absorb (hp : Par b b' L L' v v' mf mf') (f : Nat) (hIH : LoopOK b b' L L' v v' mf mf' f)
    (fuel' : Nat) (ev : Bool) (kk : SymSnap) (u0 : St) (hkk : kk.restore u0 = u0) (hinv : LInv b L v ev u0)
    (hX : NoFuel (afterSym f ev mf kk (decodeSymbol ev (ov b L v u0))))
    (hY : NoFuel (afterSym fuel' ev mf' kk (decodeSymbol ev (ov b' L' v' u0))))
    (f'' : Nat) (hC : NoFuel (cont (ov b' L' v') v'.isNone f'' mf' (afterSym f ev mf kk (decodeSymbol ev (ov b L v u0))))) :
    afterSym fuel' ev mf' kk (decodeSymbol ev (ov b' L' v' u0))
      = cont (ov b' L' v') v'.isNone f'' mf' (afterSym f ev mf kk (decodeSymbol ev (ov b L v u0))) := by
  have hfr := decodeSymbol_frame ev (ov b L v u0)
  have hk := keep_decodeSymbol ev (ov b L v u0)
  cases hd : decodeSymbol ev (ov b L v u0) with
  | ok act t2 =>
    have ht := decodeSymbol_transport ev u0 b b' L L' v v' hp.hag hinv.inPos (by rw [hd]; trivial)
    rw [hd] at ht hfr hk hX hC
    have ht' : decodeSymbol ev (ov b' L' v' u0) = .ok act (ov b' L' v' t2) := ht
    rw [ht'] at hY ⊢
    have hfix : ov b L v t2 = t2 := ov_fix hk.inp hk.limit hk.uncomp
    have hpos : t2.dp.pos = u0.dp.pos := (congrArg (fun s : St => s.dp.pos) hfr.1).symm
    have hinv2 : LInv b L v ev t2 :=
      ⟨hfr.2.2 hinv.inPos, (by rw [hpos]; exact hinv.pos),
       (by have : t2.allowEopm = u0.allowEopm := hk.allowEopm
           rw [this]; exact hinv.eopm),
       (by have : t2.eopmValid = u0.eopmValid := hk.eopmValid
           rw [this]; exact hinv.ev)⟩
    have := write_absorb hp f hIH fuel' ev act t2 hinv2
    rw [hfix] at this
    exact this hX hY f'' hC
  | error e t =>
    rw [hd] at hfr hk hX hC
    have hfr1 : SymSnap.restore (SymSnap.of t) (ov b L v u0) = t := hfr.1
    by_cases he : e = .needInput
    · subst he
      have hrest : kk.restore (ov b' L' v' t) = ov b' L' v' u0 :=
        calc kk.restore (ov b' L' v' t)
            = kk.restore (ov b' L' v' (SymSnap.restore (SymSnap.of t) (ov b L v u0))) := by rw [hfr1]
          _ = ov b' L' v' (kk.restore u0) := rfl
          _ = ov b' L' v' u0 := by rw [hkk]
      have hev : (v'.isNone || t.eopmValid) = ev := by
        have : t.eopmValid = u0.eopmValid := hk.eopmValid
        rw [this, ← hp.hvn]; exact hinv.ev.symm
      have hC' : NoFuel (afterSym f'' (v'.isNone || t.eopmValid) mf' kk
          (decodeSymbol (v'.isNone || t.eopmValid) (kk.restore (ov b' L' v' t)))) := hC
      show afterSym fuel' ev mf' kk (decodeSymbol ev (ov b' L' v' u0))
        = afterSym f'' (v'.isNone || t.eopmValid) mf' kk
            (decodeSymbol (v'.isNone || t.eopmValid) (kk.restore (ov b' L' v' t)))
      rw [hev, hrest] at hC' ⊢
      exact afterSym_fuel_eq _ _ _ _ _ _ hY hC'
    · have hns : NotStarved (decodeSymbol ev (ov b L v u0)) := by
        rw [hd]; cases e <;> first | trivial | exact absurd rfl he
      have ht := decodeSymbol_transport ev u0 b b' L L' v v' hp.hag hinv.inPos hns
      rw [hd] at ht
      have ht' : decodeSymbol ev (ov b' L' v' u0) = .error e (ov b' L' v' t) := ht
      rw [ht']
      rcases decodeSymbol_exits ev _ _ _ hd with h | h | h <;> subst h
      · exact absurd rfl he
      · rfl
      · rfl

theorem loop_absorb (hp : Par b b' L L' v v' mf mf') : ∀ f, LoopOK b b' L L' v v' mf mf' f
  | 0 => by
    intro fuel' ev u _ hX
    exact absurd rfl (hX (ov b L v u))
  | f + 1 => by
    intro fuel' ev u hinv hX hY f'' hC
    have ih := loop_absorb hp f
    cases fuel' with
    | zero => exact absurd rfl (hY (ov b' L' v' u))
    | succ f' =>
    have hev : (v'.isNone || u.eopmValid) = ev := by rw [← hp.hvn]; exact hinv.ev.symm
    have hstarve : symLoopR (f + 1) ev mf (ov b L v u) = (.error .needInput (ov b L v u), none) →
        symLoopR (f' + 1) ev mf' (ov b' L' v' u)
          = cont (ov b' L' v') v'.isNone f'' mf' (symLoopR (f + 1) ev mf (ov b L v u)) := by
      intro hXe
      rw [hXe] at hC ⊢
      have hC' : NoFuel (symLoopR f'' (v'.isNone || u.eopmValid) mf' (ov b' L' v' u)) := hC
      show symLoopR (f' + 1) ev mf' (ov b' L' v' u) = symLoopR f'' (v'.isNone || u.eopmValid) mf' (ov b' L' v' u)
      rw [hev] at hC' ⊢
      exact symLoopR_fuel_eq _ _ _ _ _ hY hC'
    have htest := hp.hPR.test u.dp.pos hinv.pos
    cases hpre : symPrelude ev mf (ov b L v u) with
    | error e t =>
      by_cases he : e = .needInput
      · subst he
        have := symPrelude_starved ev mf _ _ hpre
        subst this
        apply hstarve
        rw [symLoopR_succ, hpre]
      · have hns : NotStarved (symPrelude ev mf (ov b L v u)) := by
          rw [hpre]; cases e <;> first | trivial | exact absurd rfl he
        have ht := symPrelude_transport ev mf mf' u b b' L L' v v' hp.hag hinv.inPos htest hns
        rw [hpre] at ht
        have hXe : symLoopR (f + 1) ev mf (ov b L v u) = (.error e t, none) := by rw [symLoopR_succ, hpre]
        have hYe : symLoopR (f' + 1) ev mf' (ov b' L' v' u) = (.error e (ov b' L' v' t), none) := by
          rw [symLoopR_succ, ht]; rfl
        rw [hXe, hYe]
        rcases symPrelude_exits ev mf _ _ _ hpre with h | h | h <;> subst h
        · exact absurd rfl he
        · rfl
        · rfl
    | ok ev1 t1 =>
      rcases symPrelude_ok ev mf _ _ _ hpre with ⟨h1, h2, _⟩ | ⟨h1, h2, _, _⟩
      · subst h1
        rw [h2] at hpre
        have hns : NotStarved (symPrelude ev mf (ov b L v u)) := by rw [hpre]; trivial
        have ht := symPrelude_transport ev mf mf' u b b' L L' v v' hp.hag hinv.inPos htest hns
        rw [hpre] at ht
        have ht' : symPrelude ev mf' (ov b' L' v' u) = .ok ev (ov b' L' v' u) := ht
        cases hn : rcNormalize (ov b L v u) with
        | error e t =>
          apply hstarve
          rw [symLoopR_succ, hpre]
          simp only [hn]
          rw [(rcNormalize_starved _ _ _ hn).1]
        | ok a t =>
          have hnt := rcNormalize_transport u b b' L L' v v' hp.hag hinv.inPos (by rw [hn]; trivial)
          rw [hn] at hnt
          have hnt' : rcNormalize (ov b' L' v' u) = .ok a (ov b' L' v' t) := hnt
          have hXe : symLoopR (f + 1) ev mf (ov b L v u)
              = afterSym f ev mf (SymSnap.of (ov b L v u)) (decodeSymbol ev (ov b L v u)) := by
            rw [symLoopR_succ, hpre]; simp only [hn]
          have hYe : symLoopR (f' + 1) ev mf' (ov b' L' v' u)
              = afterSym f' ev mf' (SymSnap.of (ov b L v u)) (decodeSymbol ev (ov b' L' v' u)) := by
            rw [symLoopR_succ, ht']; simp only [hnt']; rfl
          rw [hXe] at hX hC ⊢
          rw [hYe] at hY ⊢
          exact sym_absorb hp f ih f' ev (SymSnap.of (ov b L v u)) u rfl hinv hX hY f'' hC
      · exfalso
        have h1' : u.allowEopm = true := h1
        rcases hinv.eopm with h | h
        · rw [h1'] at h; cases h
        · exact hp.hmfv h2 h

theorem head_absorb (hp : Par b b' L L' v v' mf mf') (f fuel' : Nat) (ev : Bool) (p : Pending) (k : Option SymSnap) (u : St)
    (hinv : LInv b L v ev u) (hkin : ∀ kk, k = some kk → kk.inPos ≤ b.size)
    (hX : NoFuel (headR f ev mf p k (ov b L v u)))
    (hY : NoFuel (headR fuel' ev mf' p k (ov b' L' v' u)))
    (f'' : Nat) (hC : NoFuel (cont (ov b' L' v') v'.isNone f'' mf' (headR f ev mf p k (ov b L v u)))) :
    headR fuel' ev mf' p k (ov b' L' v' u)
      = cont (ov b' L' v') v'.isNone f'' mf' (headR f ev mf p k (ov b L v u)) := by
  cases k with
  | none => exact write_absorb hp f (loop_absorb hp f) fuel' ev p u hinv hX hY f'' hC
  | some kk =>
    have hinv2 : LInv b L v ev (kk.restore u) := ⟨hkin kk rfl, hinv.pos, hinv.eopm, hinv.ev⟩
    exact sym_absorb hp f (loop_absorb hp f) fuel' ev kk (kk.restore u) rfl hinv2 hX hY f'' hC

end absorb

/-! ### independence of the `uncomp` member -/
def setU (w : Option Nat) (t : St) : St := { t with uncomp := w }
def mapRes (g : St → St) (z : Res) : Res := (mapSt g z.1, z.2)

theorem afterWrite_uncomp (f : Nat) (w : Option Nat)
    (hIH : ∀ ev mf s, symLoopR f ev mf (setU w s) = mapRes (setU w) (symLoopR f ev mf s))
    (ev mf : Bool) (p : Pending) (s : St) :
    afterWrite f ev mf (doWrite p (setU w s)) = mapRes (setU w) (afterWrite f ev mf (doWrite p s)) := by
  have h : doWrite p (setU w s) = mapSt (setU w) (doWrite p s) := doWrite_uncomp p s w
  rw [h]
  cases doWrite p s with
  | error e t => rfl
  | ok a t => exact hIH ev mf t

theorem afterSym_uncomp (f : Nat) (w : Option Nat)
    (hIH : ∀ ev mf s, symLoopR f ev mf (setU w s) = mapRes (setU w) (symLoopR f ev mf s))
    (ev mf : Bool) (k : SymSnap) (s : St) :
    afterSym f ev mf k (decodeSymbol ev (setU w s)) = mapRes (setU w) (afterSym f ev mf k (decodeSymbol ev s)) := by
  have h : decodeSymbol ev (setU w s) = mapSt (setU w) (decodeSymbol ev s) := decodeSymbol_uncomp ev s w
  rw [h]
  cases decodeSymbol ev s with
  | error e t => cases e <;> rfl
  | ok act t => exact afterWrite_uncomp f w hIH ev mf act t

theorem symLoopR_uncomp (w : Option Nat) : ∀ f ev mf s, symLoopR f ev mf (setU w s) = mapRes (setU w) (symLoopR f ev mf s)
  | 0, _, _, _ => rfl
  | f + 1, ev, mf, s => by
    rw [symLoopR_succ, symLoopR_succ]
    have h1 : symPrelude ev mf (setU w s) = mapSt (setU w) (symPrelude ev mf s) := symPrelude_uncomp ev mf s w
    rw [h1]
    cases symPrelude ev mf s with
    | error e t => rfl
    | ok ev1 t1 =>
      simp only [mapSt]
      have h2 : rcNormalize (setU w t1) = mapSt (setU w) (rcNormalize t1) := rcNormalize_uncomp t1 w
      rw [h2]
      cases rcNormalize t1 with
      | error e t => rfl
      | ok a t =>
        simp only [mapSt]
        exact afterSym_uncomp f w (symLoopR_uncomp w f) ev1 mf (SymSnap.of t1) t1

theorem headR_uncomp (w : Option Nat) (f : Nat) (ev mf : Bool) (p : Pending) (k : Option SymSnap) (s : St) :
    headR f ev mf p k (setU w s) = mapRes (setU w) (headR f ev mf p k s) := by
  cases k with
  | none => exact afterWrite_uncomp f w (symLoopR_uncomp w f) ev mf p s
  | some kk => exact afterSym_uncomp f w (symLoopR_uncomp w f) ev mf kk (kk.restore s)

/-! ### what a run changes -/
structure Stp (s t : St) : Prop where
  initLeft : t.initLeft = s.initLeft
  pending : t.pending = s.pending
  limit : t.dp.limit = s.dp.limit
  mono : s.dp.pos ≤ t.dp.pos
  inlim : s.dp.pos ≤ s.dp.limit → t.dp.pos ≤ t.dp.limit
  hist : t.hist.size + s.dp.pos = s.hist.size + t.dp.pos

theorem Stp.refl (s : St) : Stp s s := ⟨rfl, rfl, rfl, Nat.le_refl _, id, rfl⟩
theorem Stp.trans {a b c : St} (h1 : Stp a b) (h2 : Stp b c) : Stp a c :=
  ⟨h2.initLeft.trans h1.initLeft, h2.pending.trans h1.pending, h2.limit.trans h1.limit,
   Nat.le_trans h1.mono h2.mono, fun h => h2.inlim (h1.inlim h),
   by have := h1.hist; have := h2.hist; omega⟩

theorem stp_restore (k : SymSnap) (s : St) : Stp s (k.restore s) := ⟨rfl, rfl, rfl, Nat.le_refl _, id, rfl⟩

theorem stp_decodeSymbol (ev : Bool) (s : St) : Stp s (resSt (decodeSymbol ev s)) := by
  have h := (decodeSymbol_frame ev s).1
  generalize resSt (decodeSymbol ev s) = t at h
  rw [← h]
  exact stp_restore _ s

theorem stp_symPrelude (ev mf : Bool) (s : St) : Stp s (resSt (symPrelude ev mf s)) := by
  have h := (symPrelude_frame ev mf s).1
  generalize resSt (symPrelude ev mf s) = t at h
  rw [h]
  exact ⟨rfl, rfl, rfl, Nat.le_refl _, id, rfl⟩

theorem stp_doWrite (p : Pending) (s : St) : Stp s (resSt (doWrite p s)) := by
  have hw := (doWrite_spec p s).1
  have h := doWrite_frame p s
  refine ⟨?_, ?_, hw.limit, hw.dpos_mono, hw.in_limit, hw.hist_eq⟩
  · generalize resSt (doWrite p s) = t at h
    rw [h]
  · generalize resSt (doWrite p s) = t at h
    rw [h]

theorem advance_zero_idem (p : DictPos) (n : Nat) : (p.advance n).advance 0 = p.advance n := by
  unfold DictPos.advance
  cases p with
  | mk pos full limit size hw nr => cases hw <;> simp

theorem repeatN_zero_idem (s : St) (left : Nat) : (s.repeatN left).repeatN 0 = s.repeatN left := by
  have h1 : (s.repeatN left).repeatN 0 = { s.repeatN left with dp := (s.repeatN left).dp.advance 0 } := rfl
  have h2 : (s.repeatN left).dp = s.dp.advance left := rfl
  rw [h1, h2, advance_zero_idem]
  rfl

theorem doWrite_blocked_idem (p q : Pending) (s u : St) (h : doWrite p s = .error (.outFull q) u) :
    doWrite q u = .error (.outFull q) u := by
  cases p with
  | none => cases h
  | stuck => cases h
  | litWrite sym =>
    have h' : (if s.dp.pos == s.dp.limit then EStateM.Result.error (Exit.outFull (.litWrite sym)) s
      else .ok () (s.put (UInt8.ofNat sym))) = .error (.outFull q) u := h
    split at h'
    · rename_i hc
      injection h' with h1 h2
      injection h1 with h1
      subst h1 h2
      show (if s.dp.pos == s.dp.limit then _ else _) = _
      rw [if_pos hc]
    · cases h'
  | shortRep =>
    have h' : (if s.dp.pos == s.dp.limit then EStateM.Result.error (Exit.outFull .shortRep) s
      else .ok () (s.put (s.dictGet s.rep0))) = .error (.outFull q) u := h
    split at h'
    · rename_i hc
      injection h' with h1 h2
      injection h1 with h1
      subst h1 h2
      show (if s.dp.pos == s.dp.limit then _ else _) = _
      rw [if_pos hc]
    · cases h'
  | copy len =>
    have h' : (if len - s.dp.repeatLeft len != 0 then
        EStateM.Result.error (Exit.outFull (.copy (len - s.dp.repeatLeft len))) (s.repeatN (s.dp.repeatLeft len))
      else .ok () (s.repeatN (s.dp.repeatLeft len))) = .error (.outFull q) u := h
    split at h'
    · rename_i hc
      injection h' with h1 h2
      injection h1 with h1
      subst h1 h2
      have hl : (s.repeatN (s.dp.repeatLeft len)).dp.repeatLeft (len - s.dp.repeatLeft len) = 0 := by
        have hne : len - s.dp.repeatLeft len ≠ 0 := by simpa using hc
        have hdp : (s.repeatN (s.dp.repeatLeft len)).dp = s.dp.advance (s.dp.repeatLeft len) := rfl
        rw [hdp]
        generalize hlf : s.dp.repeatLeft len = left at hne ⊢
        have h3 : left = s.dp.limit - s.dp.pos ∨ left = len := by
          rw [← hlf]; unfold DictPos.repeatLeft DictPos.avail; rw [Nat.min_def]; split
          · exact Or.inl rfl
          · exact Or.inr rfl
        show min (s.dp.limit - (s.dp.pos + left)) (len - left) = 0
        have hX : s.dp.limit - (s.dp.pos + left) = 0 := by omega
        rw [hX, Nat.zero_min]
      show (if len - s.dp.repeatLeft len - (s.repeatN (s.dp.repeatLeft len)).dp.repeatLeft (len - s.dp.repeatLeft len) != 0 then
        EStateM.Result.error (Exit.outFull (.copy (len - s.dp.repeatLeft len - (s.repeatN (s.dp.repeatLeft len)).dp.repeatLeft (len - s.dp.repeatLeft len))))
          ((s.repeatN (s.dp.repeatLeft len)).repeatN ((s.repeatN (s.dp.repeatLeft len)).dp.repeatLeft (len - s.dp.repeatLeft len)))
        else _) = _
      rw [hl, repeatN_zero_idem, Nat.sub_zero, if_pos hc]
    · cases h'

structure Post (s : St) (z : Res) : Prop where
  stp : Stp s (resSt z.1)
  snd : ∀ kk, z.2 = some kk → ∃ t, z.1 = .error .needInput t
  noOk : ∀ a t, z.1 ≠ .ok a t
  /-- an "output limit reached" exit leaves a state in which the pending write is blocked again -/
  blk : ∀ q t, z.1 = .error (.outFull q) t → doWrite q t = .error (.outFull q) t

theorem post_err {s t : St} (e : Exit) (h : Stp s t) (hb : ∀ q, e = .outFull q → doWrite q t = .error (.outFull q) t) :
    Post s ((.error e t : EStateM.Result Exit St Unit), (none : Option SymSnap)) := by
  refine ⟨h, ?_, ?_, ?_⟩
  · intro kk hk; cases hk
  · intro a t he; cases he
  · intro q t' he
    injection he with h1 h2
    subst h2
    exact hb q h1

theorem post_afterWrite (f : Nat) (hIH : ∀ ev mf s, Post s (symLoopR f ev mf s)) (ev mf : Bool) (p : Pending) (s : St) :
    Post s (afterWrite f ev mf (doWrite p s)) := by
  have h := stp_doWrite p s
  cases hw : doWrite p s with
  | error e u =>
    rw [hw] at h
    refine post_err _ h ?_
    intro q hq
    subst hq
    exact doWrite_blocked_idem p q s u hw
  | ok a u =>
    rw [hw] at h
    have := hIH ev mf u
    exact ⟨h.trans this.stp, this.snd, this.noOk, this.blk⟩

theorem post_afterSym (f : Nat) (hIH : ∀ ev mf s, Post s (symLoopR f ev mf s)) (ev mf : Bool) (k : SymSnap) (s : St) :
    Post s (afterSym f ev mf k (decodeSymbol ev s)) := by
  have h := stp_decodeSymbol ev s
  cases hd : decodeSymbol ev s with
  | error e t =>
    rw [hd] at h
    have hex := decodeSymbol_exits ev s t e hd
    cases e with
    | needInput =>
      refine ⟨h, fun kk _ => ⟨t, rfl⟩, ?_, ?_⟩
      · intro a t he; cases he
      · intro q t' he; cases he
    | dataError => exact post_err _ h (by intro q hq; cases hq)
    | streamEnd => exact post_err _ h (by intro q hq; cases hq)
    | outFull q => rcases hex with h1 | h1 | h1 <;> cases h1
    | fuel => exact post_err _ h (by intro q hq; cases hq)
  | ok act t =>
    rw [hd] at h
    have := post_afterWrite f hIH ev mf act t
    exact ⟨h.trans this.stp, this.snd, this.noOk, this.blk⟩

theorem post_symLoopR : ∀ f ev mf s, Post s (symLoopR f ev mf s)
  | 0, _, _, s => post_err _ (Stp.refl s) (by intro q hq; cases hq)
  | f + 1, ev, mf, s => by
    rw [symLoopR_succ]
    have hp := stp_symPrelude ev mf s
    cases hpre : symPrelude ev mf s with
    | error e t =>
      rw [hpre] at hp
      refine post_err _ hp ?_
      intro q hq
      rcases symPrelude_exits ev mf s t e hpre with h1 | h1 | h1 <;> rw [h1] at hq <;> cases hq
    | ok ev1 t1 =>
      rw [hpre] at hp
      simp only []
      cases hn : rcNormalize t1 with
      | error e t =>
        refine post_err _ hp ?_
        intro q hq
        rw [(rcNormalize_starved t1 t e hn).1] at hq
        cases hq
      | ok a t =>
        have := post_afterSym f (post_symLoopR f) ev1 mf (SymSnap.of t1) t1
        exact ⟨hp.trans this.stp, this.snd, this.noOk, this.blk⟩

theorem post_headR (f : Nat) (ev mf : Bool) (p : Pending) (k : Option SymSnap) (s : St) :
    Post s (headR f ev mf p k s) := by
  cases k with
  | none => exact post_afterWrite f (post_symLoopR f) ev mf p s
  | some kk =>
    have := post_afterSym f (post_symLoopR f) ev mf kk (kk.restore s)
    exact ⟨(stp_restore kk s).trans this.stp, this.snd, this.noOk, this.blk⟩

theorem afterWrite_nofuel (f : Nat) (ev mf : Bool) (p : Pending) (s : St) (h : s.dp.pos ≤ s.dp.limit)
    (hf : s.dp.limit - s.dp.pos < f) : NoFuel (afterWrite f ev mf (doWrite p s)) := by
  have hs := stp_doWrite p s
  cases hw : doWrite p s with
  | error e u =>
    obtain ⟨q, rfl, _⟩ := doWrite_exits p s u e hw
    intro t he; cases he
  | ok a u =>
    rw [hw] at hs
    have hs' : Stp s u := hs
    exact (symLoopR_exits f ev mf u (hs'.inlim h)).2 (by have := hs'.limit; have := hs'.mono; omega)

theorem headR_nofuel (f : Nat) (ev mf : Bool) (p : Pending) (k : Option SymSnap) (s : St) (h : s.dp.pos ≤ s.dp.limit)
    (hf : s.dp.limit - s.dp.pos < f) : NoFuel (headR f ev mf p k s) := by
  cases k with
  | none => exact afterWrite_nofuel f ev mf p s h hf
  | some kk =>
    have hs := (stp_restore kk s).trans (stp_decodeSymbol ev (kk.restore s))
    show NoFuel (afterSym f ev mf kk (decodeSymbol ev (kk.restore s)))
    cases hd : decodeSymbol ev (kk.restore s) with
    | error e t =>
      rcases decodeSymbol_exits ev _ _ _ hd with h | h | h <;> subst h <;> (intro t he; cases he)
    | ok act t =>
      rw [hd] at hs
      have hs' : Stp s t := hs
      exact afterWrite_nofuel f ev mf act t (hs'.inlim h) (by have := hs'.limit; have := hs'.mono; omega)

/-! ### call level -/
def mfN (w : Option Nat) (pos L : Nat) : Bool := match w with | some u => decide (u ≤ L - pos) | none => false
def clN (w : Option Nat) (pos L : Nat) : Nat := match w with | some u => if u ≤ L - pos then pos + u else L | none => L

theorem clN_bounds (w : Option Nat) (pos L : Nat) (h : pos ≤ L) : pos ≤ clN w pos L ∧ clN w pos L ≤ L := by
  unfold clN
  cases w with
  | none => exact ⟨h, Nat.le_refl _⟩
  | some u => simp only []; split <;> omega

theorem pr_call (w : Option Nat) (pos L L' : Nat) (hpos : pos ≤ L) (hL : L ≤ L') :
    PR (mfN w pos L) (mfN w pos L') (clN w pos L) (clN w pos L') := by
  cases w with
  | none =>
    refine ⟨hL, ?_, ?_⟩
    · intro h; cases h
    · intro _ h; cases h
  | some u =>
    unfold mfN clN PR
    simp only []
    by_cases h1 : u ≤ L - pos
    · have h2 : u ≤ L' - pos := by omega
      simp [h1, h2]
    · by_cases h2 : u ≤ L' - pos
      · simp [h1, h2]; omega
      · simp [h1, h2]; omega

theorem shiftN (w : Option Nat) (d pos L' : Nat) (hd : ∀ u, w = some u → d ≤ u) (hp : pos + d ≤ L') :
    mfN (w.map (· - d)) (pos + d) L' = mfN w pos L' ∧ clN (w.map (· - d)) (pos + d) L' = clN w pos L' := by
  cases w with
  | none => exact ⟨rfl, rfl⟩
  | some u =>
    have := hd u rfl
    unfold mfN clN
    simp only [Option.map]
    have hiff : (u - d ≤ L' - (pos + d)) ↔ (u ≤ L' - pos) := by omega
    by_cases h1 : u ≤ L' - pos
    · have h2 := hiff.2 h1
      simp [h1, h2]; omega
    · have h2 : ¬ (u - d ≤ L' - (pos + d)) := fun h => h1 (hiff.1 h)
      simp [h1, h2]

def finOf (o : Bool) (cl st : Nat) (w : Option Nat) (run : Res) : Ret × RSt :=
  ((lzmaFinish run.1 cl st w).1, ⟨unstick (lzmaFinish run.1 cl st w).2, run.2, o⟩)

def finK (k : Option SymSnap) (o : Bool) (s : St) : Ret × RSt :=
  finOf o s.dp.limit s.hist.size s.uncomp (lzmaRunR s k)

def callK (k : Option SymSnap) (o : Bool) (res : EStateM.Result Exit St Bool) : Ret × RSt :=
  match res with
  | .error _ s => (.dataError, ⟨s, k, o⟩)
  | .ok false s => (.ok, ⟨s, k, o⟩)
  | .ok true s => finK k o s

theorem lzmaCallR_eq (r : RSt) : lzmaCallR r = callK r.sym0 r.overrun (rcReadInit r.s) := by
  unfold lzmaCallR callK
  cases rcReadInit r.s with
  | error e s => rfl
  | ok a s => cases a <;> rfl

theorem finK_eq (k : Option SymSnap) (o : Bool) (b : ByteArray) (L : Nat) (w : Option Nat) (s0 : St) :
    finK k o (ov b L w s0) = finOf o L s0.hist.size w
      (headR (clN w s0.dp.pos L - s0.dp.pos + 2) (w.isNone || s0.eopmValid) (mfN w s0.dp.pos L) s0.pending k
        (ov b (clN w s0.dp.pos L) w { s0 with pending := .none })) := by
  unfold finK
  rw [lzmaRunR_eq]
  rfl

theorem lzmaFinish_mapU (w : Option Nat) (res : EStateM.Result Exit St Unit) (cl st : Nat) (u0 : Option Nat) :
    lzmaFinish (mapSt (setU w) res) cl st u0 = lzmaFinish res cl st u0 := by
  cases res with
  | ok a t => rfl
  | error e t => cases e <;> rfl

theorem lzmaFinish_congr (r : EStateM.Result Exit St Unit) (cl st1 st2 : Nat) (u1 u2 : Option Nat)
    (h : u1.map (· - ((resSt r).hist.size - st1)) = u2.map (· - ((resSt r).hist.size - st2))) :
    lzmaFinish r cl st1 u1 = lzmaFinish r cl st2 u2 := by
  unfold lzmaFinish
  simp only []
  rw [h]

theorem finOf_congr (o : Bool) (cl st1 st2 : Nat) (u1 u2 x : Option Nat) (run : Res)
    (h : u1.map (· - ((resSt run.1).hist.size - st1)) = u2.map (· - ((resSt run.1).hist.size - st2))) :
    finOf o cl st2 u2 (mapRes (setU x) run) = finOf o cl st1 u1 run := by
  unfold finOf mapRes
  simp only []
  rw [lzmaFinish_mapU, lzmaFinish_congr run.1 cl st1 st2 u1 u2 h]

theorem rcReadInit_zero (s : St) (h : s.initLeft = 0) : rcReadInit s = .ok true s := by
  unfold rcReadInit
  rw [h]
  rfl

theorem map_sub_sub (w : Option Nat) (H T A : Nat) (h1 : H ≤ T) (h2 : T ≤ A) :
    w.map (· - (A - H)) = (w.map (· - (T - H))).map (· - (A - T)) := by
  cases w with
  | none => rfl
  | some u =>
    show some (u - (A - H)) = some (u - (T - H) - (A - T))
    congr 1
    omega

theorem resume_tail (o : Bool) (b' : ByteArray) (L L' : Nat) (w w'' : Option Nat) (H : Nat) (t : St) (kx : Option SymSnap)
    (pz q : Pending) (runY : Res) (mfY : Bool) (Lc' : Nat)
    (hw'' : w'' = w.map (· - (t.hist.size - H)))
    (hq : ∀ f ev mf s, headR f ev mf pz kx s = headR f ev mf q kx s)
    (hil : t.initLeft = 0) (hpend : t.pending = .none) (hH : H ≤ t.hist.size)
    (hmf : mfN w'' t.dp.pos L' = mfY) (hcl : clN w'' t.dp.pos L' = Lc') (hposL : t.dp.pos ≤ Lc')
    (hY'' : ∀ f'', NoFuel (headR f'' (w''.isNone || t.eopmValid) mfY q kx (ov b' Lc' w'' t)) →
      mapRes (setU w'') runY = headR f'' (w''.isNone || t.eopmValid) mfY q kx (ov b' Lc' w'' t)) :
    lzmaCallR ((⟨{ t with dp := { t.dp with limit := L }, uncomp := w'', pending := pz }, kx, o⟩ : RSt).view b' L')
      = finOf o L' H w runY := by
  rw [lzmaCallR_eq]
  show callK kx o (rcReadInit (ov b' L' w'' { t with pending := pz })) = _
  rw [rcReadInit_zero _ (show (ov b' L' w'' { t with pending := pz }).initLeft = 0 from hil)]
  show finK kx o (ov b' L' w'' { t with pending := pz }) = _
  rw [finK_eq]
  have e1 : ({ ({ t with pending := pz } : St) with pending := .none } : St) = t := by rw [← hpend]
  rw [e1]
  show finOf o L' t.hist.size w'' (headR (clN w'' t.dp.pos L' - t.dp.pos + 2) (w''.isNone || t.eopmValid) (mfN w'' t.dp.pos L') pz kx
    (ov b' (clN w'' t.dp.pos L') w'' t)) = _
  rw [hmf, hcl, hq]
  have hnf := headR_nofuel (Lc' - t.dp.pos + 2) (w''.isNone || t.eopmValid) mfY q kx (ov b' Lc' w'' t) hposL
    (by show Lc' - t.dp.pos < _; omega)
  have hrun := hY'' _ hnf
  rw [← hrun]
  have hpost := post_headR (Lc' - t.dp.pos + 2) (w''.isNone || t.eopmValid) mfY q kx (ov b' Lc' w'' t)
  rw [← hrun] at hpost
  have hmono : t.hist.size ≤ (resSt runY.1).hist.size := by
    have h1 := hpost.stp.hist
    have h2 := hpost.stp.mono
    have e : (resSt (mapRes (setU w'') runY).1).hist = (resSt runY.1).hist := by
      unfold mapRes; cases runY.1 <;> rfl
    have e2 : (resSt (mapRes (setU w'') runY).1).dp = (resSt runY.1).dp := by
      unfold mapRes; cases runY.1 <;> rfl
    rw [e, e2] at h1
    rw [e2] at h2
    have h1' : (resSt runY.1).hist.size + t.dp.pos = t.hist.size + (resSt runY.1).dp.pos := h1
    have h2' : t.dp.pos ≤ (resSt runY.1).dp.pos := h2
    omega
  rw [hw'']
  exact finOf_congr o L' H t.hist.size w _ _ runY (map_sub_sub w H t.hist.size _ hH hmono)

def normS (s : St) : St := { s with inp := ByteArray.empty, dp := { s.dp with limit := 0 } }

theorem normS_unstick (s : St) : normS (unstick s) = unstick (normS s) := by
  unfold unstick
  show normS (if s.pending == .stuck then _ else _) = if s.pending == .stuck then _ else _
  split <;> rfl

theorem finOf_same (o : Bool) (L L' H : Nat) (w : Option Nat) (b' : ByteArray) (Lc' : Nat) (w' : Option Nat) (e : Exit) (t : St)
    (kx : Option SymSnap) :
    Same (finOf o L' H w (.error e (ov b' Lc' w' t), kx)) (finOf o L H w (.error e t, kx)) := by
  refine ⟨?_, ?_⟩
  · cases e <;> rfl
  · show (⟨normS (unstick _), kx, o⟩ : RSt) = ⟨normS (unstick _), kx, o⟩
    rw [normS_unstick, normS_unstick]
    have : normS (lzmaFinish (.error e (ov b' Lc' w' t)) L' H w).2 = normS (lzmaFinish (.error e t) L H w).2 := by
      cases e <;> rfl
    rw [this]

theorem finOf_fst_dataError (o : Bool) (L H : Nat) (w : Option Nat) (t : St) (kx : Option SymSnap) :
    (finOf o L H w (.error .dataError t, kx)).1 = .dataError := by
  simp [finOf, lzmaFinish, exitRet]

theorem finOf_fst_streamEnd (o : Bool) (L H : Nat) (w : Option Nat) (t : St) (kx : Option SymSnap) :
    (finOf o L H w (.error .streamEnd t, kx)).1 = .streamEnd := by
  simp [finOf, lzmaFinish, exitRet]

theorem finOf_needInput (o : Bool) (L H : Nat) (w : Option Nat) (t : St) (kx : Option SymSnap) :
    finOf o L H w (.error .needInput t, kx)
      = (.ok, ⟨{ t with dp := { t.dp with limit := L }, uncomp := w.map (· - (t.hist.size - H)), pending := .none }, kx, o⟩) := by
  simp [finOf, lzmaFinish, exitRet, exitPending, resSt, unstick]

def isW (q : Pending) : Bool := match q with | .litWrite _ => true | .shortRep => true | .copy _ => true | _ => false

theorem lzmaFinish_outFull (q : Pending) (t : St) (cl st : Nat) (u : Option Nat) :
    lzmaFinish (.error (.outFull q) t) cl st u =
      (if (u.map (· - (t.hist.size - st)) == some 0 && isW q) then .dataError else .ok,
       { t with dp := { t.dp with limit := cl }, uncomp := u.map (· - (t.hist.size - st)), pending := q }) := by
  unfold lzmaFinish isW
  simp only [exitRet, exitPending, resSt]
  rcases Bool.eq_false_or_eq_true (Option.map (fun x => x - (t.hist.size - st)) u == some 0) with hcc | hcc <;>
    cases q <;> simp only [hcc] <;> rfl

theorem finOf_outFull (o : Bool) (L H : Nat) (w : Option Nat) (t : St) (kx : Option SymSnap) (q : Pending)
    (hc : (w.map (· - (t.hist.size - H)) == some 0 && isW q) = false) :
    finOf o L H w (.error (.outFull q) t, kx)
      = (.ok, ⟨{ t with dp := { t.dp with limit := L }, uncomp := w.map (· - (t.hist.size - H)),
                        pending := if q == .stuck then .none else q }, kx, o⟩) := by
  unfold finOf
  simp only []
  rw [lzmaFinish_outFull, hc]
  unfold unstick
  cases q <;> rfl

theorem finOf_outFull_err (o : Bool) (L H : Nat) (w : Option Nat) (t : St) (kx : Option SymSnap) (q : Pending)
    (hc : (w.map (· - (t.hist.size - H)) == some 0 && isW q) = true) :
    (finOf o L H w (.error (.outFull q) t, kx)).1 ≠ .ok := by
  unfold finOf
  simp only []
  rw [lzmaFinish_outFull, hc]
  intro h; cases h

theorem ite_fst_ok {x : RSt} {A B : Ret × RSt} : (if ((Ret.ok, x) : Ret × RSt).1 = .ok then A else B) = A := if_pos rfl

theorem headR_unstuck (q : Pending) (kx : Option SymSnap) (f : Nat) (ev mf : Bool) (s : St) :
    headR f ev mf (if q == .stuck then .none else q) kx s = headR f ev mf q kx s := by
  cases q <;> rfl

/-- the main part of a call (after `rc_read_init`); `hBlk`: the case "all known-size output produced and a write pending"
    (LZMA_DATA_ERROR of the small call) is left as a hypothesis -/
theorem run_absorb (k : Option SymSnap) (o : Bool) (b b' : ByteArray) (L L' : Nat) (w : Option Nat) (s0 : St)
    (hag : Agree b.size b b') (hL : L ≤ L') (hin : s0.inPos ≤ b.size) (hpos : s0.dp.pos ≤ L) (hil : s0.initLeft = 0)
    (heopm : s0.allowEopm = false ∨ w = none) (hkin : ∀ kk, k = some kk → kk.inPos ≤ b.size)
    (hBlk : ∀ q t kx, headR (clN w s0.dp.pos L - s0.dp.pos + 2) (w.isNone || s0.eopmValid) (mfN w s0.dp.pos L) s0.pending k
        (ov b (clN w s0.dp.pos L) w { s0 with pending := .none }) = (.error (.outFull q) t, kx) →
      (w.map (· - (t.hist.size - s0.hist.size)) == some 0 && isW q) = true →
      Same (finK k o (ov b' L' w s0)) (finK k o (ov b L w s0))) :
    Same (finK k o (ov b' L' w s0))
      (if (finK k o (ov b L w s0)).1 = .ok then lzmaCallR ((finK k o (ov b L w s0)).2.view b' L') else finK k o (ov b L w s0)) := by
  have hBlk' := hBlk
  rw [finK_eq k o b L w s0, finK_eq k o b' L' w s0] at hBlk' ⊢
  have hPR := pr_call w s0.dp.pos L L' hpos hL
  have hcb := clN_bounds w s0.dp.pos L hpos
  have hcb' := clN_bounds w s0.dp.pos L' (by omega)
  have hmfv : mfN w s0.dp.pos L = true → w ≠ none := by
    intro h hw; subst hw; cases h
  have hdle : ∀ u, w = some u → ∀ d, s0.dp.pos + d ≤ clN w s0.dp.pos L → d ≤ u := by
    intro u hu d hd
    subst hu
    unfold clN at hd
    simp only [] at hd
    split at hd <;> omega
  generalize clN w s0.dp.pos L = Lc at *
  generalize hLc' : clN w s0.dp.pos L' = Lc' at *
  generalize mfN w s0.dp.pos L = mfX at *
  generalize hmfY : mfN w s0.dp.pos L' = mfY at *
  have hpar : ∀ w'', w.isNone = w''.isNone → Par b b' Lc Lc' w w'' mfX mfY := fun w'' h => ⟨hag, hPR, h, hmfv⟩
  have hinv : LInv b Lc w (w.isNone || s0.eopmValid) { s0 with pending := .none } := ⟨hin, hcb.1, heopm, rfl⟩
  have hnfX := headR_nofuel (Lc - s0.dp.pos + 2) (w.isNone || s0.eopmValid) mfX s0.pending k
    (ov b Lc w { s0 with pending := .none }) hcb.1 (by show Lc - s0.dp.pos < _; omega)
  have hpostX := post_headR (Lc - s0.dp.pos + 2) (w.isNone || s0.eopmValid) mfX s0.pending k
    (ov b Lc w { s0 with pending := .none })
  have habs : ∀ w'', w.isNone = w''.isNone → ∀ f'',
      NoFuel (cont (ov b' Lc' w'') w''.isNone f'' mfY (headR (Lc - s0.dp.pos + 2) (w.isNone || s0.eopmValid) mfX s0.pending k
        (ov b Lc w { s0 with pending := .none }))) →
      headR (Lc' - s0.dp.pos + 2) (w.isNone || s0.eopmValid) mfY s0.pending k (ov b' Lc' w'' { s0 with pending := .none })
        = cont (ov b' Lc' w'') w''.isNone f'' mfY (headR (Lc - s0.dp.pos + 2) (w.isNone || s0.eopmValid) mfX s0.pending k
            (ov b Lc w { s0 with pending := .none })) := by
    intro w'' h f'' hC
    exact head_absorb (hpar w'' h) (Lc - s0.dp.pos + 2) (Lc' - s0.dp.pos + 2) _ s0.pending k _ hinv hkin hnfX
      (headR_nofuel _ _ _ _ _ (ov b' Lc' w'' { s0 with pending := .none }) hcb'.1 (by show Lc' - s0.dp.pos < _; omega)) f'' hC
  generalize headR (Lc - s0.dp.pos + 2) (w.isNone || s0.eopmValid) mfX s0.pending k
    (ov b Lc w { s0 with pending := .none }) = runX at *
  generalize hrunY : headR (Lc' - s0.dp.pos + 2) (w.isNone || s0.eopmValid) mfY s0.pending k
    (ov b' Lc' w { s0 with pending := .none }) = runY at *
  have hunc : ∀ w'', headR (Lc' - s0.dp.pos + 2) (w.isNone || s0.eopmValid) mfY s0.pending k
      (ov b' Lc' w'' { s0 with pending := .none }) = mapRes (setU w'') runY := by
    intro w''
    rw [← hrunY]
    exact headR_uncomp w'' _ _ _ _ _ (ov b' Lc' w { s0 with pending := .none })
  obtain ⟨resX, kx⟩ := runX
  cases resX with
  | ok a t => exact absurd rfl (hpostX.noOk a t)
  | error e t =>
    have hstp : Stp (ov b Lc w { s0 with pending := .none }) t := hpostX.stp
    have hkx : ∀ e', e' ≠ Exit.needInput → e = e' → kx = none := by
      intro e' hne he
      cases kx with
      | none => rfl
      | some kk =>
        obtain ⟨t', ht'⟩ := hpostX.snd kk rfl
        have : e = .needInput := by injection ht' with h1 _
        exact absurd (he ▸ this) hne
    have hpend : t.pending = .none := hstp.pending
    have hil' : t.initLeft = 0 := hstp.initLeft.trans hil
    have hHle : s0.hist.size ≤ t.hist.size := by
      have h1 : t.hist.size + s0.dp.pos = s0.hist.size + t.dp.pos := hstp.hist
      have h2 : s0.dp.pos ≤ t.dp.pos := hstp.mono
      omega
    have htpos : t.dp.pos = s0.dp.pos + (t.hist.size - s0.hist.size) := by
      have h1 : t.hist.size + s0.dp.pos = s0.hist.size + t.dp.pos := hstp.hist
      omega
    have htle : t.dp.pos ≤ Lc := by
      have h1 : t.dp.pos ≤ t.dp.limit := hstp.inlim hcb.1
      have h2 : t.dp.limit = Lc := hstp.limit
      omega
    have hshift := shiftN w (t.hist.size - s0.hist.size) s0.dp.pos L'
      (fun u hu => hdle u hu _ (by omega)) (by omega)
    rw [← htpos, hmfY, hLc'] at hshift
    have hisn : w.isNone = (w.map (· - (t.hist.size - s0.hist.size))).isNone := by cases w <;> rfl
    cases e with
    | fuel => exact absurd rfl (hnfX t)
    | dataError =>
      have := hkx .dataError (by intro h; cases h) rfl
      subst this
      have hy := habs w rfl 0 (by intro t' he; cases he)
      rw [hrunY] at hy
      rw [hy, if_neg (by rw [finOf_fst_dataError]; decide)]
      exact finOf_same o L L' s0.hist.size w b' Lc' w .dataError t none
    | streamEnd =>
      have := hkx .streamEnd (by intro h; cases h) rfl
      subst this
      have hy := habs w rfl 0 (by intro t' he; cases he)
      rw [hrunY] at hy
      rw [hy, if_neg (by rw [finOf_fst_streamEnd]; decide)]
      exact finOf_same o L L' s0.hist.size w b' Lc' w .streamEnd t none
    | needInput =>
      rw [finOf_needInput, ite_fst_ok]
      rw [resume_tail o b' L L' w _ s0.hist.size t kx .none .none runY mfY Lc' rfl (fun _ _ _ _ => rfl) hil' hpend hHle
        hshift.1 hshift.2 (Nat.le_trans htle hPR.1)
        (fun f'' hC => by
          have := habs _ hisn f'' hC
          rw [hunc] at this
          exact this)]
      exact Same.refl _
    | outFull q =>
      have := hkx (.outFull q) (by intro h; cases h) rfl
      subst this
      cases hc : (w.map (· - (t.hist.size - s0.hist.size)) == some 0 && isW q) with
      | true =>
        have hb := hBlk' q t none rfl hc
        rw [if_neg (finOf_outFull_err o L s0.hist.size w t none q hc)]
        exact hb
      | false =>
        rw [finOf_outFull o L s0.hist.size w t none q hc, ite_fst_ok]
        rw [resume_tail o b' L L' w _ s0.hist.size t none (if q == .stuck then .none else q) q runY mfY Lc' rfl
          (fun f ev mf s => headR_unstuck q none f ev mf s) hil' hpend hHle
          hshift.1 hshift.2 (Nat.le_trans htle hPR.1)
          (fun f'' hC => by
            have := habs _ hisn f'' hC
            rw [hunc] at this
            exact this)]
        exact Same.refl _

/-- The part of `L1Absorb` that is NOT proved here: the small call produced all of the known uncompressed size and stopped at
    a pending write (its `lzma_decode` returns LZMA_DATA_ERROR); the call with more resources must stop at the same write. -/
def BlockedWriteCase : Prop :=
  ∀ (k : Option SymSnap) (o : Bool) (b b' : ByteArray) (L L' : Nat) (w : Option Nat) (s0 : St),
    Agree b.size b b' → L ≤ L' → s0.inPos ≤ b.size → s0.dp.pos ≤ L → s0.initLeft = 0 →
    (s0.allowEopm = false ∨ w = none) → (∀ kk, k = some kk → kk.inPos ≤ b.size) →
    ∀ q t kx, headR (clN w s0.dp.pos L - s0.dp.pos + 2) (w.isNone || s0.eopmValid) (mfN w s0.dp.pos L) s0.pending k
        (ov b (clN w s0.dp.pos L) w { s0 with pending := .none }) = (.error (.outFull q) t, kx) →
      (w.map (· - (t.hist.size - s0.hist.size)) == some 0 && isW q) = true →
      Same (finK k o (ov b' L' w s0)) (finK k o (ov b L w s0))

theorem l1Absorb_partial (hB : BlockedWriteCase) : L1Absorb := by
  intro r b b' L L' hpre hag hL
  obtain ⟨s, k, o⟩ := r
  have hin : s.inPos ≤ b.size := hpre.inPos
  have hpos : s.dp.pos ≤ L := hpre.pos
  have heopm : s.allowEopm = false ∨ s.uncomp = none := hpre.eopm
  have hkin : ∀ kk, k = some kk → kk.inPos ≤ b.size := by
    intro kk hk
    have h1 : kk.inPos ≤ s.inPos := (hpre.sym kk hk).2.1
    omega
  show Same (lzmaCallR ⟨ov b' L' s.uncomp s, k, o⟩)
    (if (lzmaCallR ⟨ov b L s.uncomp s, k, o⟩).1 = .ok then lzmaCallR ((lzmaCallR ⟨ov b L s.uncomp s, k, o⟩).2.view b' L')
     else lzmaCallR ⟨ov b L s.uncomp s, k, o⟩)
  rw [lzmaCallR_eq ⟨ov b L s.uncomp s, k, o⟩, lzmaCallR_eq ⟨ov b' L' s.uncomp s, k, o⟩]
  show Same (callK k o (rcReadInit (ov b' L' s.uncomp s)))
    (if (callK k o (rcReadInit (ov b L s.uncomp s))).1 = .ok
     then lzmaCallR ((callK k o (rcReadInit (ov b L s.uncomp s))).2.view b' L')
     else callK k o (rcReadInit (ov b L s.uncomp s)))
  have hfr := rcReadInit_frame (ov b L s.uncomp s)
  cases hri : rcReadInit (ov b L s.uncomp s) with
  | error e t =>
    have ht := rcReadInit_transport s b b' L L' s.uncomp s.uncomp hag hin (by intro t' h; rw [hri] at h; cases h)
    rw [hri] at ht hfr
    have ht' : rcReadInit (ov b' L' s.uncomp s) = .error e (ov b' L' s.uncomp t) := ht
    rw [ht']
    show Same (.dataError, ⟨ov b' L' s.uncomp t, k, o⟩) (if Ret.dataError = .ok then _ else (.dataError, ⟨t, k, o⟩))
    rw [if_neg (by decide)]
    have hun : t.uncomp = s.uncomp := by have h1 := congrArg St.uncomp hfr.1; exact h1
    refine ⟨rfl, ?_⟩
    show (⟨normS (ov b' L' s.uncomp t), k, o⟩ : RSt) = ⟨normS t, k, o⟩
    rw [← hun]
    rfl
  | ok a t =>
    rw [hri] at hfr
    have hun : t.uncomp = s.uncomp := by have h1 := congrArg St.uncomp hfr.1; exact h1
    cases a with
    | false =>
      have hab := rcReadInit_absorb s t b b' L L' s.uncomp s.uncomp hag hin hri
      show Same _ (if Ret.ok = .ok then lzmaCallR ((⟨t, k, o⟩ : RSt).view b' L') else _)
      rw [if_pos rfl, lzmaCallR_eq]
      show Same (callK k o (rcReadInit (ov b' L' s.uncomp s))) (callK k o (rcReadInit (ov b' L' t.uncomp t)))
      rw [hun, hab]
      exact Same.refl _
    | true =>
      have ht := rcReadInit_transport s b b' L L' s.uncomp s.uncomp hag hin (by intro t' h; rw [hri] at h; cases h)
      rw [hri] at ht
      have ht' : rcReadInit (ov b' L' s.uncomp s) = .ok true (ov b' L' s.uncomp t) := ht
      rw [ht']
      show Same (finK k o (ov b' L' s.uncomp t))
        (if (finK k o t).1 = .ok then lzmaCallR ((finK k o t).2.view b' L') else finK k o t)
      have hinp : t.inp = b := by have h1 := congrArg St.inp hfr.1; exact h1
      have hlim : t.dp.limit = L := by have h1 := congrArg (fun x : St => x.dp.limit) hfr.1; exact h1
      have hfix : ov b L s.uncomp t = t := ov_fix hinp hlim hun
      have hdp : t.dp.pos = s.dp.pos := by have h1 := congrArg (fun x : St => x.dp.pos) hfr.1; exact h1
      have hae : t.allowEopm = s.allowEopm := by have h1 := congrArg St.allowEopm hfr.1; exact h1
      have := run_absorb k o b b' L L' s.uncomp t hag hL (hfr.2.2.1 hin) (by rw [hdp]; exact hpos)
        (hfr.2.2.2 t rfl) (by rw [hae]; exact heopm) hkin
        (hB k o b b' L L' s.uncomp t hag hL (hfr.2.2.1 hin) (by rw [hdp]; exact hpos)
          (hfr.2.2.2 t rfl) (by rw [hae]; exact heopm) hkin)
      rw [hfix] at this
      exact this

theorem doWrite_blocked_ov (q : Pending) (t : St) (b' : ByteArray) (L : Nat) (w : Option Nat) (hl : t.dp.limit = L)
    (h : doWrite q t = .error (.outFull q) t) :
    doWrite q (ov b' L w t) = .error (.outFull q) (ov b' L w t) := by
  have e : ov b' L w t = St.withInp (setU w t) b' := by subst hl; rfl
  have h2 : doWrite q (setU w t) = mapSt (setU w) (doWrite q t) := doWrite_uncomp q t w
  rw [e, doWrite_withInp, h2, h]
  rfl

theorem blockedWriteCase : BlockedWriteCase := by
  intro k o b b' L L' w s0 hag hL hin hpos hil heopm hkin q t kx hrun hc
  rw [finK_eq k o b L w s0, finK_eq k o b' L' w s0]
  have hPR := pr_call w s0.dp.pos L L' hpos hL
  have hcb := clN_bounds w s0.dp.pos L hpos
  have hcb' := clN_bounds w s0.dp.pos L' (by omega)
  have hmfv : mfN w s0.dp.pos L = true → w ≠ none := by
    intro h hw; subst hw; cases h
  have hfull : ∀ u, w = some u → s0.dp.pos + u ≤ clN w s0.dp.pos L →
      clN w s0.dp.pos L = s0.dp.pos + u ∧ clN w s0.dp.pos L' = s0.dp.pos + u := by
    intro u hu hd
    subst hu
    unfold clN at hd ⊢
    simp only [] at hd ⊢
    by_cases h1 : u ≤ L - s0.dp.pos
    · have h2 : u ≤ L' - s0.dp.pos := by omega
      rw [if_pos h1, if_pos h2]; exact ⟨rfl, rfl⟩
    · rw [if_neg h1] at hd; omega
  generalize clN w s0.dp.pos L = Lc at *
  generalize clN w s0.dp.pos L' = Lc' at *
  generalize mfN w s0.dp.pos L = mfX at *
  generalize mfN w s0.dp.pos L' = mfY at *
  have hpar : Par b b' Lc Lc' w w mfX mfY := ⟨hag, hPR, rfl, hmfv⟩
  have hinv : LInv b Lc w (w.isNone || s0.eopmValid) { s0 with pending := .none } := ⟨hin, hcb.1, heopm, rfl⟩
  have hnfX := headR_nofuel (Lc - s0.dp.pos + 2) (w.isNone || s0.eopmValid) mfX s0.pending k
    (ov b Lc w { s0 with pending := .none }) hcb.1 (by show Lc - s0.dp.pos < _; omega)
  have hpostX := post_headR (Lc - s0.dp.pos + 2) (w.isNone || s0.eopmValid) mfX s0.pending k
    (ov b Lc w { s0 with pending := .none })
  have habs := fun f'' hC => head_absorb hpar (Lc - s0.dp.pos + 2) (Lc' - s0.dp.pos + 2) (w.isNone || s0.eopmValid)
    s0.pending k { s0 with pending := .none } hinv hkin hnfX
    (headR_nofuel _ _ _ _ _ (ov b' Lc' w { s0 with pending := .none }) hcb'.1 (by show Lc' - s0.dp.pos < _; omega)) f'' hC
  rw [hrun] at hpostX habs ⊢
  have hstp : Stp (ov b Lc w { s0 with pending := .none }) t := hpostX.stp
  have hkx : kx = none := by
    cases kx with
    | none => rfl
    | some kk =>
      obtain ⟨t', ht'⟩ := hpostX.snd kk rfl
      injection ht' with h1 _
      cases h1
  subst hkx
  have hblk : doWrite q t = .error (.outFull q) t := hpostX.blk q t rfl
  have hlim : t.dp.limit = Lc := hstp.limit
  have htle : t.dp.pos ≤ Lc := by
    have h1 : t.dp.pos ≤ t.dp.limit := hstp.inlim hcb.1
    omega
  have h1 : t.hist.size + s0.dp.pos = s0.hist.size + t.dp.pos := hstp.hist
  have h2 : s0.dp.pos ≤ t.dp.pos := hstp.mono
  -- the known size is used up
  have hLcc : Lc' = Lc := by
    cases w with
    | none => simp at hc
    | some u =>
      have hu0 : u - (t.hist.size - s0.hist.size) = 0 := by
        have : (some (u - (t.hist.size - s0.hist.size)) == some 0) = true := by
          cases hx : (Option.map (fun x => x - (t.hist.size - s0.hist.size)) (some u) == some 0)
          · rw [hx] at hc; simp at hc
          · exact hx
        simpa using this
      by_cases hle : s0.dp.pos + u ≤ Lc
      · have := hfull u rfl hle
        omega
      · -- then the run cannot have produced `u` bytes
        omega
  subst hLcc
  have hbo := doWrite_blocked_ov q t b' Lc' w hlim hblk
  have hcont : cont (ov b' Lc' w) w.isNone 0 mfY ((.error (.outFull q) t : EStateM.Result Exit St Unit), (none : Option SymSnap))
      = (.error (.outFull q) (ov b' Lc' w t), none) := by
    show afterWrite 0 _ mfY (doWrite q (ov b' Lc' w t)) = _
    rw [hbo]
    rfl
  have hy := habs 0 (by rw [hcont]; intro t' he; cases he)
  rw [hcont] at hy
  rw [hy]
  exact finOf_same o L L' s0.hist.size w b' Lc' w (.outFull q) t none

theorem l1Absorb : L1Absorb := l1Absorb_partial blockedWriteCase

end XzVerif.LzmaR
