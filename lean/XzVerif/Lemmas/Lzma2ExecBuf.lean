/-
  C01, LZMA2 decoder side, part 5: `decode_buffer` (wrap, limit, dictionary reset, repeat) around `lzma2_decode`, and the
  whole raw LZMA2 decoder `Lzma2.lzma2Decode` on a valid chunk sequence.
-/
import XzVerif.Lemmas.Lzma2ExecStream

namespace XzVerif.LzmaExec
open XzVerif.RangeDec XzVerif.RangeEnc XzVerif.RangeCoder XzVerif.LzDict XzVerif.Lzma XzVerif.LzmaEnc XzVerif.LzmaSymDec
open XzVerif.LzmaSym XzVerif.LzmaSpec XzVerif.Lzma2Enc XzVerif.Lzma2

/-! ### the top of the `decode_buffer` loop keeps every kind of ready state -/

theorem win_relimit {s : St} {rb : List UInt8} {dictSize : Nat} (h : Win s rb dictSize) (avail : Nat) :
    Win (relimit s avail) rb dictSize ∧ (relimit s avail).dp.full = s.dp.full ∧
    (relimit s avail).dp.pos % 16 = s.dp.pos % 16 ∧
    (relimit s avail).dp.limit - (relimit s avail).dp.pos = min avail ((relimit s avail).dp.size - (relimit s avail).dp.pos) ∧
    (relimit s avail).dp.pos < (relimit s avail).dp.size ∧ (relimit s avail).dp.size = s.dp.size ∧
    (relimit s avail).dp.needReset = s.dp.needReset := by
  obtain ⟨a, b, c, d, e, f, g, i⟩ := h
  obtain ⟨hm, hge, hal⟩ := allocSize_mod dictSize
  simp only [LZ_DICT_INIT_POS, LZ_DICT_REPEAT_MAX] at e f
  by_cases hwrap : s.dp.pos = s.dp.size
  · have hb : (s.dp.pos == s.dp.size) = true := by simp [hwrap]
    have hfull : s.dp.full = roundDictSize dictSize := by
      by_cases hw : s.dp.hasWrapped = true
      · exact (f hw).2
      · have := e (by simpa using hw); omega
    refine ⟨⟨a, ?_, ?_, ?_, ?_, ?_, ?_, ?_⟩, ?_, ?_, ?_, ?_, ?_, ?_⟩
    all_goals simp only [relimit, DictPos.wrap, DictPos.setLimit, hb, if_true, LZ_DICT_REPEAT_MAX, LZ_DICT_INIT_POS]
    · exact b
    · exact c
    · exact d
    · intro h; cases h
    · intro _; exact ⟨Nat.le_refl _, hfull⟩
    · omega
    · omega
    · omega
    · omega
    · omega
  · have hb : (s.dp.pos == s.dp.size) = false := by simp [hwrap]
    refine ⟨⟨a, ?_, ?_, ?_, ?_, ?_, ?_, ?_⟩, ?_, ?_, ?_, ?_, ?_, ?_⟩
    all_goals simp only [relimit, DictPos.wrap, DictPos.setLimit, hb, Bool.false_eq_true, if_false, LZ_DICT_REPEAT_MAX,
      LZ_DICT_INIT_POS]
    · exact b
    · exact c
    · exact d
    · exact e
    · exact f
    · omega
    · omega
    · omega
    · omega

theorem lzOk_relimit {p : Props} {encPos : Nat} {st : SymSt} {ps : Probs} {s : St} {rb : List UInt8} {dictSize : Nat}
    (h : LzOk p encPos st ps s) (hw : Win s rb dictSize) (avail : Nat) : LzOk p encPos st ps (relimit s avail) := by
  obtain ⟨a, b, c, d, e, g, ⟨k, hk1, hk2⟩, i⟩ := h
  obtain ⟨_, _, hmod, _⟩ := win_relimit hw avail
  exact ⟨a, b, c, ⟨d.state, d.rep0, d.rep1, d.rep2, d.rep3⟩, e, g, ⟨k, by rw [hmod]; exact hk1, hk2⟩, i⟩

theorem bst_relimit {p : Props} {dictSize : Nat} {buf : ByteArray} {base : Nat} {C : L2Cfg} {s : St}
    (h : BSt p dictSize buf base C s) (avail : Nat) : BSt p dictSize buf base C (relimit s avail) := by
  obtain ⟨hw, _, _, _, _, _, hnr⟩ := win_relimit h.win avail
  exact ⟨h.seq, h.np, h.ndr, h.cndr, h.props, h.initLeft, h.range, h.code, h.pending, hw,
    fun h1 h2 => lzOk_relimit (h.lz h1 h2) h.win avail, by rw [hnr]; exact h.nr, h.cfg2, h.off, h.prod⟩

theorem lrdy_relimit {p : Props} {dictSize : Nat} {buf : ByteArray} {base : Nat} {s : St} {n : Nat} {C' : L2Cfg}
    {rest : List UInt8} (h : LRdy p dictSize buf base s s n C' rest) (avail : Nat) :
    LRdy p dictSize buf base (relimit s avail) (relimit s avail) n C' rest := by
  obtain ⟨⟨k, psF, hcs, hren, hpsok, hkk⟩, _, hseq, _, _, _, hcsz, hnp, hndr, hprops, hnr, hprod, hflags, hoff, hnpos⟩ := h
  obtain ⟨_, _, _, _, _, _, _, _, _, _, hsim, _⟩ := hcs.work
  obtain ⟨_, _, hmod, _, _, _, hnr'⟩ := win_relimit hsim.win avail
  exact ⟨⟨k, psF, callSt_relimit hcs avail, hren, hpsok, by rw [Nat.add_mod, hmod, ← Nat.add_mod]; exact hkk⟩, rfl, hseq, rfl,
    Nat.le_refl _, rfl, hcsz, hnp, hndr, hprops, (by rw [hnr']; exact hnr), hprod, hflags, hoff, hnpos⟩

theorem urdy_relimit {p : Props} {dictSize : Nat} {buf : ByteArray} {base : Nat} {s : St} {n : Nat} {C' : L2Cfg}
    {rest : List UInt8} (h : URdy p dictSize buf base s n C' rest) (avail : Nat) :
    URdy p dictSize buf base (relimit s avail) n C' rest := by
  obtain ⟨hw, _, _, _, _, _, hnr⟩ := win_relimit h.win avail
  exact ⟨h.seq, h.cs, h.npos, h.le, h.inp, hw, h.np, h.ndr, h.props, h.initLeft, h.range, h.code, h.pending,
    by rw [hnr]; exact h.nr, h.prod, h.flags, h.off⟩

theorem afterU_relimit {p : Props} {dictSize : Nat} {buf : ByteArray} {base : Nat} {t : St} {C : L2Cfg} {usize : Nat}
    {rest : List UInt8} (h : AfterCtlU p dictSize buf base t C usize rest) (avail : Nat) :
    AfterCtlU p dictSize buf base (relimit t avail) C usize rest := by
  obtain ⟨hw, _, _, _, _, _, hnr⟩ := win_relimit h.win avail
  exact ⟨h.seq, h.nextSeq, h.np, h.ndr, h.props, h.initLeft, h.range, h.code, h.pending, hw, by rw [hnr]; exact h.nr, h.prod,
    h.inp, h.u1, h.u2, h.off⟩

theorem afterL_relimit {p : Props} {dictSize : Nat} {buf : ByteArray} {base : Nat} {t : St} {C : L2Cfg} {syms : List Sym}
    {ops : List Op} {encPos' : Nat} {st' : SymSt} {usize : Nat} {rest : List UInt8}
    (h : AfterCtlL p dictSize buf base t C syms ops encPos' st' usize rest) (avail : Nat) :
    AfterCtlL p dictSize buf base (relimit t avail) C syms ops encPos' st' usize rest := by
  obtain ⟨hw, _, _, _, _, _, hnr⟩ := win_relimit h.win avail
  refine ⟨h.seq, h.high, h.nextSeq, h.np, h.ndr, ?_, h.fresh, hw, by rw [hnr]; exact h.nr, h.prod, h.enc, h.len, h.u1, h.u2,
    h.off, h.c2, h.inp⟩
  intro hnp
  obtain ⟨a, b, c, d, e, g⟩ := h.lz hnp
  exact ⟨a, lzOk_relimit b h.win avail, c, d, e, g⟩

theorem ready_relimit {p : Props} {dictSize : Nat} {buf : ByteArray} {base : Nat} {tail : List UInt8} {CF : L2Cfg} {s : St}
    (h : Ready p dictSize buf base tail CF s) (avail : Nat) : Ready p dictSize buf base tail CF (relimit s avail) := by
  cases h with
  | boundary hb hch hin => exact Ready.boundary (bst_relimit hb avail) hch hin
  | paused hpa =>
    obtain ⟨n, C', bytes', hch, hc2, hl | hu⟩ := hpa
    · exact Ready.paused ⟨n, C', bytes', hch, hc2, Or.inl (lrdy_relimit hl avail)⟩
    · exact Ready.paused ⟨n, C', bytes', hch, hc2, Or.inr (urdy_relimit hu avail)⟩
  | afterU hact hch => exact Ready.afterU (afterU_relimit hact avail) hch
  | afterL hact hch => exact Ready.afterL (afterL_relimit hact avail) hch

/-! ### `decode_buffer` -/

theorem chunkOk_off_le {p : Props} {dictSize : Nat} {buf : ByteArray} {base : Nat} {C C' : L2Cfg} {b : List UInt8}
    (h : ChunkOk p dictSize buf base C b C') : C.off ≤ C'.off := by
  cases h with
  | lzma => exact Nat.le_add_right _ _
  | uncomp => exact Nat.le_add_right _ _

theorem chunks_off_le {p : Props} {dictSize : Nat} {buf : ByteArray} {base : Nat} {C CF : L2Cfg} {bytes : List UInt8}
    (h : Chunks p dictSize buf base C bytes CF) : C.off ≤ CF.off := by
  induction h with
  | nil => exact Nat.le_refl _
  | cons hc _ ih => exact Nat.le_trans (chunkOk_off_le hc) ih

/-- facts every ready state provides -/
theorem ready_facts {p : Props} {dictSize : Nat} {buf : ByteArray} {base : Nat} {tail : List UInt8} {CF : L2Cfg} {s : St}
    (h : Ready p dictSize buf base tail CF s) :
    (∃ rb, Win s rb dictSize) ∧ s.dp.needReset = false ∧ s.hist.size ≤ s.outBase + CF.off := by
  cases h with
  | boundary hb hch hin =>
    have := chunks_off_le hch
    exact ⟨⟨_, hb.win⟩, hb.nr, by rw [hb.prod]; omega⟩
  | paused hpa =>
    obtain ⟨n, C', bytes', hch, hc2, hl | hu⟩ := hpa
    · obtain ⟨k, psF, hcs, _⟩ := hl.ex
      obtain ⟨_, _, _, _, _, _, _, _, _, _, hsim, _⟩ := hcs.work
      have := chunks_off_le hch
      have := hl.prod
      exact ⟨⟨_, hsim.win⟩, hl.nr, by omega⟩
    · have := chunks_off_le hch
      have := hu.prod
      exact ⟨⟨_, hu.win⟩, hu.nr, by omega⟩
  | afterU hact hch =>
    have h1 := chunks_off_le hch
    simp only [cfgAfterU] at h1
    exact ⟨⟨_, hact.win⟩, hact.nr, by rw [hact.prod]; omega⟩
  | afterL hact hch =>
    have h1 := chunks_off_le hch
    simp only [cfgAfterL] at h1
    exact ⟨⟨_, hact.win⟩, hact.nr, by rw [hact.prod]; omega⟩

/-- paused states have output left -/
theorem paused_facts {p : Props} {dictSize : Nat} {buf : ByteArray} {base : Nat} {tail : List UInt8} {CF : L2Cfg} {s : St}
    (h : Paused p dictSize buf base tail CF s) : s.hist.size < s.outBase + CF.off := by
  obtain ⟨n, C', bytes', hch, hc2, hl | hu⟩ := h
  · have := chunks_off_le hch
    have := hl.prod
    have := hl.npos
    omega
  · have := chunks_off_le hch
    have := hu.prod
    have := hu.npos
    omega

theorem lzma2Call_eq (s : St) : lzma2Call s = lzma2Loop (2 * (s.inp.size - s.inPos) + 4) s := rfl

/-- `decode_buffer` around `lzma2_decode`, from any ready state: LZMA_STREAM_END after everything was produced -/
theorem db2_run (p : Props) (hp : PropsOk p) (dictSize : Nat) (hd : dictSize ≤ 4294967295) (buf : ByteArray) (base : Nat)
    (tail : List UInt8) (CF : L2Cfg) (outSize : Nat) :
    ∀ (n fuel : Nat) (s : St), Ready p dictSize buf base tail CF s → s.outBase + CF.off - s.hist.size = n →
      s.outBase ≤ s.hist.size → CF.off < outSize → n < fuel →
      ∃ sF, decodeBuffer lzma2Call fuel outSize s = (.streamEnd, sF) ∧ Win sF (win buf (base + CF.off)) dictSize ∧
        sF.hist.size = sF.outBase + CF.off ∧ In sF tail ∧ sF.outBase = s.outBase ∧ sF.inp = s.inp ∧ sF.inPos ≤ sF.inp.size := by
  intro n
  induction n using Nat.strong_induction_on with
  | _ n ih =>
    intro fuel s hr hn hob hcap hfuel
    obtain ⟨f, rfl⟩ : ∃ f, fuel = f + 1 := ⟨fuel - 1, by omega⟩
    obtain ⟨⟨rb, hwin⟩, hnr, hle⟩ := ready_facts hr
    obtain ⟨_, _, _, hroom, hlt, hsz, hnr1⟩ := win_relimit hwin (outSize - s.produced)
    have hr1 := ready_relimit hr (outSize - s.produced)
    rw [decodeBuffer_succ]
    generalize hs1 : relimit s (outSize - s.produced) = s1 at *
    have hh1 : s1.hist = s.hist := by rw [← hs1]; rfl
    have hob1 : s1.outBase = s.outBase := by rw [← hs1]; rfl
    have hinp1 : s1.inp = s.inp := by rw [← hs1]; rfl
    rcases run_ready p hp dictSize hd buf base tail CF s1 hr1 with ⟨sF, hrun, hwF, hpF, hiF, hkF, hleF⟩ | ⟨s', hrun, hpa, hk, hpos⟩
    · rw [lzma2Call_eq, hrun]
      have hnrF : sF.dp.needReset = false := by rw [hkF.needReset, hnr1]; exact hnr
      simp only [hnrF, Bool.false_eq_true, if_false, show (Ret.streamEnd != Ret.ok) = true from rfl, Bool.true_or, if_true]
      exact ⟨sF, rfl, hwF, hpF, hiF, by rw [hkF.outBase, hob1], by rw [hkF.inp, hinp1], hleF⟩
    · rw [lzma2Call_eq, hrun]
      have hnr' : s'.dp.needReset = false := by rw [hk.needReset, hnr1]; exact hnr
      have hlt' := paused_facts hpa
      have hob' : s'.outBase = s.outBase := by rw [hk.outBase, hob1]
      have hgrow := hk.grow
      rw [hh1] at hgrow
      have hne : (s'.produced == outSize) = false := by
        simp only [St.produced, beq_eq_false_iff_ne, ne_eq]; omega
      -- the pause is because the dictionary (not the output space) is full
      have hhp := hk.histpos
      rw [hh1] at hhp
      have hposlt : ¬ s'.dp.pos < s'.dp.size := by
        rw [hpos, hk.size]
        intro hlt2
        have hlim : s1.dp.limit - s1.dp.pos = outSize - s.produced := by omega
        simp only [St.produced] at hlim
        omega
      simp only [hnr', Bool.false_eq_true, if_false, show (Ret.ok != Ret.ok) = false from rfl, hne, Bool.false_or,
        decide_eq_true_eq, hposlt]
      have hsize' : s1.dp.pos < s'.dp.pos := by
        have : s'.dp.pos = s1.dp.size := by have := hk.size; omega
        omega
      obtain ⟨sF, hrunF, hwF, hpF, hiF, hobF, hinpF, hleF⟩ := ih (s'.outBase + CF.off - s'.hist.size) (by omega) f s'
        (Ready.paused hpa) rfl (by omega) hcap (by omega)
      exact ⟨sF, hrunF, hwF, hpF, hiF, by rw [hobF, hob'], by rw [hinpF, hk.inp, hinp1], hleF⟩

end XzVerif.LzmaExec
