/-
  CLMUL CRC32: folding by 128 bits (kernel-evaluated basis check, see CrcClmulId32.lean).
-/
import XzVerif.Lemmas.CrcClmulId32
namespace XzVerif.Clmul
open XzVerif.Crc

/-- folding by 128 bits: `fold(v, fold128) ≡ v·x^128`. -/
theorem fold128_32_eq (v : V) : stepN P32' 128 (fold v p32.fold128) = stepN P32' 256 v := by
  refine basisAll_sound (Lin.comp (lin_fold _) (lin_stepN P32' 128)) (lin_stepN P32' 256) ?_ v
  rw [p32_eq]; decide +kernel

end XzVerif.Clmul
