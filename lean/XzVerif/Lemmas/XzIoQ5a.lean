/- C17 trace invariant Q5 (only the own target is unlinked): preservation by `exec`, part 1 (generated layout, hand-checked proofs). -/
import XzVerif.Lemmas.XzIoTrace

namespace XzVerif.XzIo
variable {α : Type}
set_option linter.unusedSimpArgs false

theorem q5_exec_openSrc {c : Cfg α} {s : St α} (hpc : s.pc = .openSrc) (h : Q5 s) : Q5 (exec c s) := by
  obtain ⟨h1, h2, h3, h4⟩ := h
  unfold exec; simp only [hpc]
  repeat' split
  all_goals
    refine ⟨?_, ?_, ?_, ?_⟩ <;>
    simp_all [UnlinkGuarded, emit, msgWarn, msgError, FS.unlinkDstName, FS.unlinkSrcName, FS.unlinkIno, inoOwn]

theorem q5_exec_fstatSrc {c : Cfg α} {s : St α} (hpc : s.pc = .fstatSrc) (h : Q5 s) : Q5 (exec c s) := by
  obtain ⟨h1, h2, h3, h4⟩ := h
  unfold exec; simp only [hpc]
  repeat' split
  all_goals
    refine ⟨?_, ?_, ?_, ?_⟩ <;>
    simp_all [UnlinkGuarded, emit, msgWarn, msgError, FS.unlinkDstName, FS.unlinkSrcName, FS.unlinkIno, inoOwn]

theorem q5_exec_closeSrcErr {c : Cfg α} {s : St α} (hpc : s.pc = .closeSrcErr) (h : Q5 s) : Q5 (exec c s) := by
  obtain ⟨h1, h2, h3, h4⟩ := h
  unfold exec; simp only [hpc]
  repeat' split
  all_goals
    refine ⟨?_, ?_, ?_, ?_⟩ <;>
    simp_all [UnlinkGuarded, emit, msgWarn, msgError, FS.unlinkDstName, FS.unlinkSrcName, FS.unlinkIno, inoOwn]

theorem q5_exec_openDir {c : Cfg α} {s : St α} (hpc : s.pc = .openDir) (h : Q5 s) : Q5 (exec c s) := by
  obtain ⟨h1, h2, h3, h4⟩ := h
  unfold exec; simp only [hpc]
  repeat' split
  all_goals
    refine ⟨?_, ?_, ?_, ?_⟩ <;>
    simp_all [UnlinkGuarded, emit, msgWarn, msgError, FS.unlinkDstName, FS.unlinkSrcName, FS.unlinkIno, inoOwn]

theorem q5_exec_unlinkForce {c : Cfg α} {s : St α} (hpc : s.pc = .unlinkForce) (h : Q5 s) : Q5 (exec c s) := by
  obtain ⟨h1, h2, h3, h4⟩ := h
  unfold exec; simp only [hpc]
  repeat' split
  all_goals
    refine ⟨?_, ?_, ?_, ?_⟩ <;>
    simp_all [UnlinkGuarded, emit, msgWarn, msgError, FS.unlinkDstName, FS.unlinkSrcName, FS.unlinkIno, inoOwn]

theorem q5_exec_openDest {c : Cfg α} {s : St α} (hpc : s.pc = .openDest) (h : Q5 s) : Q5 (exec c s) := by
  obtain ⟨h1, h2, h3, h4⟩ := h
  unfold exec; simp only [hpc]
  repeat' split
  all_goals
    refine ⟨?_, ?_, ?_, ?_⟩ <;>
    simp_all [UnlinkGuarded, emit, msgWarn, msgError, FS.unlinkDstName, FS.unlinkSrcName, FS.unlinkIno, inoOwn]

theorem q5_exec_closeDirErr {c : Cfg α} {s : St α} (hpc : s.pc = .closeDirErr) (h : Q5 s) : Q5 (exec c s) := by
  obtain ⟨h1, h2, h3, h4⟩ := h
  unfold exec; simp only [hpc]
  repeat' split
  all_goals
    refine ⟨?_, ?_, ?_, ?_⟩ <;>
    simp_all [UnlinkGuarded, emit, msgWarn, msgError, FS.unlinkDstName, FS.unlinkSrcName, FS.unlinkIno, inoOwn]

theorem q5_exec_fstatDest {c : Cfg α} {s : St α} (hpc : s.pc = .fstatDest) (h : Q5 s) : Q5 (exec c s) := by
  obtain ⟨h1, h2, h3, h4⟩ := h
  unfold exec; simp only [hpc]
  repeat' split
  all_goals
    refine ⟨?_, ?_, ?_, ?_⟩ <;>
    simp_all [UnlinkGuarded, emit, msgWarn, msgError, FS.unlinkDstName, FS.unlinkSrcName, FS.unlinkIno, inoOwn]

theorem q5_exec_lseekOut {c : Cfg α} {s : St α} (hpc : s.pc = .lseekOut) (h : Q5 s) : Q5 (exec c s) := by
  obtain ⟨h1, h2, h3, h4⟩ := h
  unfold exec; simp only [hpc]
  repeat' split
  all_goals
    refine ⟨?_, ?_, ?_, ?_⟩ <;>
    simp_all [UnlinkGuarded, emit, msgWarn, msgError, FS.unlinkDstName, FS.unlinkSrcName, FS.unlinkIno, inoOwn]

theorem q5_exec_read {c : Cfg α} {s : St α} (hpc : s.pc = .read) (h : Q5 s) : Q5 (exec c s) := by
  obtain ⟨h1, h2, h3, h4⟩ := h
  unfold exec; simp only [hpc]
  repeat' split
  all_goals
    refine ⟨?_, ?_, ?_, ?_⟩ <;>
    simp_all [UnlinkGuarded, emit, msgWarn, msgError, FS.unlinkDstName, FS.unlinkSrcName, FS.unlinkIno, inoOwn]

end XzVerif.XzIo
