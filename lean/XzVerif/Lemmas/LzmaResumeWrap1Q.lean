/-
  `l1WrapQ : L1WrapQ`: window-wrap commutation at the LZMA1 call level without the restriction `Pre1.eopm`
  (= `l1AbsorbQ` after the wrap + `Wrap1.call_wrap` of LzmaResumeWrap1.lean, which never used the restriction).  Core Lean only.
-/
import XzVerif.Lemmas.LzmaResumeL1Q
import XzVerif.Lemmas.LzmaResumeWrap1

namespace XzVerif.LzmaR
open XzVerif.RangeDec XzVerif.LzDict XzVerif.Lzma XzVerif.Lzma2

/-! ### WRAP PART (→ LzmaResumeWrap1Q.lean) -/
open Wrap1 in
theorem l1WrapQ : L1WrapQ := by
  intro r b L2 hpre ha hf hpos hL2a hL2b
  have hsym := symPre_wrap r hpre.sym ha hpos
  have hrq : RcQR r.wrap := ⟨rcq_congr r.s _ hpre.rcq.1 rfl rfl rfl, hpre.rcq.2⟩
  obtain ⟨s, k, o⟩ := r
  have hpos' : s.dp.pos = s.dp.size := hpos
  have hw := wrap_eq s.dp hpos'
  have hp : WPar ({ s.dp with limit := s.dp.size } : DictPos) { s.dp.wrap with limit := LZ_DICT_REPEAT_MAX } := by
    refine ⟨⟨hpos', hf⟩, ⟨?_, ?_⟩, ?_, ?_⟩
    · rw [hw]
    · rw [hw]; intro h; cases h
    · rw [hw]
    · rw [hw]
      show (288 : Nat) % 16 = s.dp.pos % 16
      rw [hpos', ha.1]
  have hW : ({ ({ s.dp.wrap with limit := LZ_DICT_REPEAT_MAX } : DictPos) with limit := 0 } : DictPos)
      = { ({ s.dp with limit := s.dp.size } : DictPos).wrap with limit := 0 } := by
    rw [hw, wrap_eq ({ s.dp with limit := s.dp.size } : DictPos) hpos']
  have hq : Q ({ s.dp with limit := s.dp.size } : DictPos) { s with inp := b, dp := { s.dp with limit := s.dp.size } } :=
    ⟨rfl, ha.2.1, ha.2.2⟩
  have hcomm : Same (lzmaCallR ((RSt.wrap ⟨s, k, o⟩).view b LZ_DICT_REPEAT_MAX))
      ((lzmaCallR ((⟨s, k, o⟩ : RSt).view b s.dp.size)).1, (lzmaCallR ((⟨s, k, o⟩ : RSt).view b s.dp.size)).2.wrap) :=
    call_wrap hp hW k o _ hq
  have hpre2 : Pre1Q (RSt.wrap ⟨s, k, o⟩) b LZ_DICT_REPEAT_MAX := by
    refine ⟨hpre.inPos, ?_, hpre.agree, hsym, hrq⟩
    show s.dp.wrap.pos ≤ 288
    rw [hw]
    exact Nat.le_refl _
  have habs := l1AbsorbQ (RSt.wrap ⟨s, k, o⟩) b b LZ_DICT_REPEAT_MAX L2 hpre2 (agree_refl b) hL2a
  generalize hwdef : lzmaCallR ((⟨s, k, o⟩ : RSt).view b s.dp.size) = w at *
  generalize hw'def : lzmaCallR ((RSt.wrap ⟨s, k, o⟩).view b LZ_DICT_REPEAT_MAX) = w' at *
  have hc1 : w'.1 = w.1 := hcomm.1
  have hc2 : w'.2.norm = w.2.wrap.norm := hcomm.2
  show Same _ (if w.1 = .ok then lzmaCallR (w.2.wrap.view b L2) else (w.1, w.2.wrap))
  by_cases hok : w.1 = .ok
  · rw [if_pos hok]
    rw [if_pos (hc1.trans hok), RSt.view_congr hc2 b L2] at habs
    exact habs
  · rw [if_neg hok]
    rw [if_neg (by rw [hc1]; exact hok)] at habs
    exact habs.trans ⟨hc1, hc2⟩

end XzVerif.LzmaR
