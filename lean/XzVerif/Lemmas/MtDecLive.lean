/-
  Liveness invariants of the threaded-decoder model (needed for deadlock freedom): every unfinished outbuf has an owning
  worker; an owner that sits at `top`/`wait` is running; the head's owner has partial updates on and has published all it
  decoded; every owner other than coder->thr has its whole input; an owner that has not reached its verdict has unconsumed
  input left. And the argument itself: if the main thread waits un-signalled, the head's owner can take a step.
-/
import XzVerif.Lemmas.MtDecEnd

namespace XzVerif.MtDec

/-- Worker `i` owns outbuf `o`. -/
def Owner (s : State) (o : Outbuf) (i : Nat) : Prop :=
  i < s.workers.length ∧ (getW s i).hasOut = true ∧ (getW s i).blk = o.blk

def atLoop (pc : WPc) : Prop := pc = .top ∨ pc = .wait

def beforeVerdict : WPc → Prop
  | .top | .wait | .decode _ _ | .publish => True
  | _ => False

/-- The head of the queue, if unfinished, has partial output enabled (worker link cleared, owner's partial_update on), or
    it is the outbuf that SEQ_BLOCK_THR_INIT has just appended to an empty queue and not yet enabled. -/
def HeadOk (s : State) : Prop :=
  ∀ h t, s.queue = h :: t → h.finished = false →
    (h.worker = none ∧ ∀ i, Owner s h i → (getW s i).pu ≠ .disabled) ∨
    (h.worker ≠ none ∧ (s.pc = .init4 ∨ s.pc = .init5) ∧ t = [])

/-- Inside read_output_and_wait, between removing a finished head and lzma_outq_enable_partial_output. -/
def HeadWeak (s : State) : Prop :=
  ∀ h t, s.queue = h :: t → h.finished = false →
    (h.worker = none ∧ ∀ i, Owner s h i → (getW s i).pu ≠ .disabled) ∨ h.worker ≠ none

structure LiveG (H : State → Prop) (s : State) : Prop where
  own : ∀ o ∈ s.queue, o.finished = false → ∃ i, Owner s o i
  run : ∀ i, i < s.workers.length → (getW s i).hasOut = true → beforeVerdict (getW s i).pc →
    (getW s i).st = .run ∨ (s.pc = .init4 ∧ s.thr = some i)
  wrk : ∀ o ∈ s.queue, ∀ w, o.worker = some w → o.finished = false → Owner s o w
  tailW : ∀ h t, s.queue = h :: t → ∀ o ∈ t, o.worker ≠ none
  head : H s
  pub : ∀ i, i < s.workers.length → (getW s i).hasOut = true → atLoop (getW s i).pc → (getW s i).pu = .enabled →
    ∀ o ∈ s.queue, o.blk = (getW s i).blk → o.decInPos = (getW s i).inPos
  snap : ∀ i, i < s.workers.length → ∀ lim, (getW s i).pc = .decode lim .disabled → (getW s i).pu ≠ .enabled
  full : ∀ i, i < s.workers.length → (getW s i).hasOut = true → s.thr ≠ some i → (getW s i).inFilled = (getW s i).inSize
  pos : ∀ i, i < s.workers.length → (getW s i).hasOut = true → beforeVerdict (getW s i).pc → (getW s i).inPos < (getW s i).inSize
  thr0 : s.seq = .thrInit → (s.pc = .init3 ∨ s.pc = .init4 ∨ s.pc = .init5) ∨ s.thr = none
  kindThr : s.seq = .thrInit → (blk s s.cur).kind = .thr ∨ s.pc = .init4 ∨ s.pc = .init5
  kindInit : s.seq = .blockInit → (blk s s.cur).kind = .thr ∨ (blk s s.cur).kind = .direct
  thrSome : s.seq = .thrRun → ∃ t, s.thr = some t
  thr5 : s.pc = .init5 → ∃ t, s.thr = some t
  canGet : (s.pc = .init1 ∨ s.pc = .init2 ∨ s.pc = .rowOk .canStart true ∨ s.pc = .rowDone .canStart OK true) →
    s.workers.length < s.cfg.threadsMax ∨ s.threadsFree ≠ []

abbrev LiveInv (s : State) : Prop := LiveG HeadOk s

theorem LiveInv.init (cfg : Cfg) (blocks : List Block) : LiveInv (init cfg blocks) := by
  constructor <;> simp [MtDec.init, HeadOk]

/-- **The deadlock argument.** The main thread waits in read_output_and_wait without a pending signal: then the worker that
    owns the head of the queue is not blocked (it is not waiting un-signalled). -/
theorem head_owner_not_blocked {s : State} (hD : DataInv s) (hL : LiveInv s) (hW : WakeInv s) (hA : AllocInv s)
    {k : RowK} {w : Bool} (hp : s.pc = .rowWait k w) (hm : s.mwoken = false) :
    ∃ i, i < s.workers.length ∧ ¬ ((getW s i).pc = .wait ∧ (getW s i).woken = false) ∧ (getW s i).pc ≠ .exited := by
  obtain ⟨hq, hread, hstall, _⟩ := hW.main k w hp hm
  cases hqq : s.queue with
  | nil => simp [hqq] at hq
  | cons h t =>
    have hunf : h.finished = false := by
      unfold headReadable at hread
      rw [hqq] at hread
      simp only [Bool.or_eq_false_iff] at hread
      exact hread.2
    obtain ⟨i, hi, hown, hblk⟩ := hL.own h (by rw [hqq]; simp) hunf
    refine ⟨i, hi, ?_, ?_⟩
    · rintro ⟨hpc, hwk⟩
      -- the owner waits un-signalled: its wait condition holds
      have hrun : (getW s i).st = .run := by
        rcases hL.run i hi hown (by rw [hpc]; trivial) with e | e
        · exact e
        · rw [hp] at e; cases e.1
      rcases hW.wk i hi hpc with e | e | ⟨_, hfill, hpu⟩
      · rw [hwk] at e; cases e
      · rw [hrun] at e; cases e
      · -- partial updates are on for the head's owner
        have hpuE : (getW s i).pu = .enabled := by
          rcases hL.head h t hqq hunf with ⟨_, hx⟩ | ⟨_, hx, _⟩
          · have := hx i ⟨hi, hown, hblk⟩
            cases hpu' : (getW s i).pu with
            | disabled => exact absurd hpu' this
            | start => exact absurd hpu' hpu
            | enabled => rfl
          · rcases hx with e | e <;> (rw [hp] at e; cases e)
        have hdec : h.decInPos = (getW s i).inPos := hL.pub i hi hown (Or.inr hpc) hpuE h (by rw [hqq]; simp) hblk.symm
        by_cases hthr : s.thr = some i
        · -- the last worker: the main thread would have seen it stalled
          unfold stalled at hstall
          rw [hthr, hqq] at hstall
          simp only [Bool.and_eq_false_iff, bne_eq_false_iff_eq, beq_eq_false_iff_ne] at hstall
          rcases hstall with e | e
          · rw [hpuE] at e; cases e
          · exact e (by rw [hdec, hfill])
        · -- not the last worker: it has its whole input, so it cannot have consumed all of it without a verdict
          have hfull := hL.full i hi hown hthr
          have hpos := hL.pos i hi hown (by rw [hpc]; trivial)
          omega
    · intro hex
      have := hA.noExit ⟨i, hi, Or.inr (Or.inr hex)⟩
      rw [hp] at this; cases this

end XzVerif.MtDec
