/-
  COMPLETENESS of the container decoder w.r.t. the declarative grammar of Lemmas/XzGrammar.lean:
  `DValidXz E fl b cap out n ⇒ xzDecode E fl b cap = (LZMA_STREAM_END, out, n)` for every payload decoder with `PayloadLocal`.
  The numeric side conditions (limits of `lzma_index_hash_append`, `lzma_block_unpadded_size`, VLI range) are part of the grammar
  (`BlockLimits`); the output capacity needs no side condition because the grammar is indexed by it (each Block's payload premise
  is stated for the Block's output allowance).  Kernel proofs, core Lean only.
-/
import XzVerif.Lemmas.XzGrammarSound
import XzVerif.Lemmas.XzIndexComplete

namespace XzVerif.XzDecode
open XzVerif XzVerif.Vli XzVerif.Container

/-! ### Stream Flags -/

theorem streamHeaderDecode_flags (x : List UInt8) (hdr : StreamFlags) (h : streamHeaderDecode x = .ok hdr) :
    hdr.version = 0 ∧ hdr.check ≤ CHECK_ID_MAX := by
  unfold streamHeaderDecode at h
  repeat' split at h
  all_goals try (cases h; done)
  rename_i f hf
  unfold streamFlagsOfBytes at hf
  split at hf
  · cases hf
  · simp only [Option.some.injEq] at hf
    simp only [Except.ok.injEq] at h
    subst h; subst hf
    exact ⟨rfl, by unfold CHECK_ID_MAX; simp only []; omega⟩

theorem streamFooterDecode_flags (x : List UInt8) (ftr : StreamFlags) (bs : Nat) (h : streamFooterDecode x = .ok (ftr, bs)) :
    ftr.version = 0 ∧ ftr.check ≤ CHECK_ID_MAX := by
  unfold streamFooterDecode at h
  repeat' split at h
  all_goals try (cases h; done)
  rename_i f hf
  unfold streamFlagsOfBytes at hf
  split at hf
  · cases hf
  · simp only [Option.some.injEq] at hf
    simp only [Except.ok.injEq, Prod.mk.injEq] at h
    obtain ⟨h1, _⟩ := h
    subst h1; subst hf
    exact ⟨rfl, by unfold CHECK_ID_MAX; simp only []; omega⟩

/-! ### Index and Stream Footer -/

theorem indexAndFooter_complete (hdr : StreamFlags) (hhdr : hdr.version = 0 ∧ hdr.check ≤ CHECK_ID_MAX) (final : HashInfo)
    (hrec : ∀ r ∈ final, RecordOk r) (hcnt : final.length ≤ VLI_MAX) (rest : List UInt8) (s2 : SRes)
    (F : FooterFacts hdr final rest s2) :
    indexAndFooter hdr final rest = { ret := .streamEnd, out := [], consumed := indexHashSize final + STREAM_HEADER_SIZE } := by
  have hsplit : rest = indexEncode final ++ rest.drop (indexHashSize final) := by
    conv => lhs; rw [← List.take_append_drop (indexHashSize final) rest, F.index_bytes]
  have hidx : indexHashDecode final rest = ⟨.streamEnd, indexHashSize final⟩ := by
    rw [hsplit]; exact indexHashDecode_complete' final hrec hcnt _
  have hle := F.consumed_le
  rw [F.consumed_eq] at hle
  obtain ⟨ftr, hftr, hck⟩ := F.footer
  have hfl := streamFooterDecode_flags _ _ _ hftr
  unfold indexAndFooter
  simp only [hidx]
  rw [if_neg (by simp)]
  rw [if_neg (by rw [List.length_drop]; omega)]
  simp only [hftr]
  rw [if_neg (by simp)]
  have hcmp : streamFlagsCompare hdr none ftr (some (indexHashSize final)) = .ok := by
    unfold streamFlagsCompare
    rw [if_neg (by rw [hhdr.1, hfl.1]; simp), if_neg (by have := hhdr.2; have := hfl.2; omega), if_neg (by rw [hck]; simp)]
  rw [if_neg (by rw [hcmp]; simp)]

/-! ### facts carried by `DBlocks` -/

theorem DBlocks_records {E : Env} {fl : Flags} {hdr : StreamFlags} {blocks : HashInfo} {inp : List UInt8} {cap : Nat}
    {out : List UInt8} {c : Nat} {final : HashInfo} (r : DBlocks E fl hdr blocks inp cap out c final)
    (hb : ∀ x ∈ blocks, RecordOk x) : ∀ x ∈ final, RecordOk x := by
  induction r with
  | done => exact hb
  | block blocks inp cap b0 tl h c o pad chk rest out' c' final hinp hb0 hh hv hD hL hsub ih =>
    apply ih
    intro x hx
    rcases List.mem_append.1 hx with hx | hx
    · exact hb x hx
    · simp only [List.mem_singleton] at hx
      subst hx
      refine ⟨?_, hL.unpadded_le, hL.olen_le⟩
      have := (blockHeaderDecodeWith_size _ _ _ _ hh).1
      simp only [List.getD_cons_zero] at this
      have hc := hL.clen_pos
      unfold UNPADDED_SIZE_MIN
      simp only []
      omega

theorem hBlocksSize_ge_length : ∀ (l : HashInfo), (∀ r ∈ l, RecordOk r) → l.length ≤ hBlocksSize l
  | [], _ => Nat.zero_le _
  | r :: t, h => by
    have ih := hBlocksSize_ge_length t (fun x hx => h x (List.mem_cons_of_mem _ hx))
    have hr := (h r (List.mem_cons_self ..)).1
    have : hBlocksSize (r :: t) = ceil4 r.unpadded + hBlocksSize t := by simp [hBlocksSize]
    rw [this]
    unfold UNPADDED_SIZE_MIN ceil4 at *
    simp only [List.length_cons]
    omega

theorem DBlocks_limits {E : Env} {fl : Flags} {hdr : StreamFlags} {blocks : HashInfo} {inp : List UInt8} {cap : Nat}
    {out : List UInt8} {c : Nat} {final : HashInfo} (r : DBlocks E fl hdr blocks inp cap out c final) :
    final = blocks ∨ HashLimits final := by
  induction r with
  | done => exact Or.inl rfl
  | block blocks inp cap b0 tl h c o pad chk rest out' c' final hinp hb0 hh hv hD hL hsub ih =>
    rcases ih with ih | ih
    · right; rw [ih]; exact hL.totals
    · exact Or.inr ih

theorem DBlocks_count {E : Env} {fl : Flags} {hdr : StreamFlags} {blocks : HashInfo} {inp : List UInt8} {cap : Nat}
    {out : List UInt8} {c : Nat} {final : HashInfo} (r : DBlocks E fl hdr blocks inp cap out c final) :
    final.length ≤ blocks.length + c ∧ c ≤ inp.length ∧ blocks.length ≤ final.length := by
  induction r with
  | done => exact ⟨by omega, Nat.zero_le _, Nat.le_refl _⟩
  | block blocks inp cap b0 tl h c o pad chk rest out' c' final hinp hb0 hh hv hD hL hsub ih =>
    subst hinp
    simp only [List.length_append, List.length_cons, List.length_nil] at ih ⊢
    omega

/-! ### the Blocks of a Stream -/

theorem blocksLoop_complete (E : Env) (hloc : PayloadLocal E) (fl : Flags) (hdr : StreamFlags)
    (hhdr : hdr.version = 0 ∧ hdr.check ≤ CHECK_ID_MAX)
    {blocks : HashInfo} {inp : List UInt8} {cap : Nat} {out : List UInt8} {c : Nat} {final : HashInfo}
    (r : DBlocks E fl hdr blocks inp cap out c final) :
    ∀ (s2 : SRes), FooterFacts hdr final (inp.drop c) s2 → (∀ x ∈ final, RecordOk x) → final.length ≤ VLI_MAX →
      ∀ fuel, final.length - blocks.length < fuel →
        blocksLoop E fl hdr fuel blocks inp cap
          = { ret := .streamEnd, out := out, consumed := c + (indexHashSize final + STREAM_HEADER_SIZE) } := by
  induction r with
  | done blocks inp cap =>
    intro s2 F hrec hcnt fuel hfuel
    obtain ⟨f, rfl⟩ : ∃ f, fuel = f + 1 := ⟨fuel - 1, by omega⟩
    have hz := F.head_zero
    simp only [List.drop_zero] at hz F
    simp only [blocksLoop]
    cases inp with
    | nil => simp at hz
    | cons a l =>
      simp only [List.head?_cons, Option.some.injEq] at hz
      simp only []
      rw [if_pos (by rw [hz]; rfl), indexAndFooter_complete hdr hhdr blocks hrec hcnt _ s2 F, Nat.zero_add]
  | block blocks inp cap b0 tl h c o pad chk rest out' c' final hinp hb0 hh hv hD hL hsub ih =>
    intro s2 F hrec hcnt fuel hfuel
    have hcnt' := (DBlocks_count hsub).2.2
    simp only [List.length_append, List.length_cons, List.length_nil] at hcnt'
    obtain ⟨f, rfl⟩ : ∃ f, fuel = f + 1 := ⟨fuel - 1, by omega⟩
    obtain ⟨hsz, hck⟩ := blockHeaderDecodeWith_size _ _ _ _ hh
    simp only [List.getD_cons_zero] at hsz
    generalize hhsdef : (b0 :: tl).length = hs at hh hD hL hsub ih hsz F hcnt'
    have hb255 : b0.toNat < 256 := b0.toNat_lt
    have hinp' : inp = (b0 :: tl) ++ (c ++ pad ++ chk ++ rest) := by rw [hinp]; simp only [List.append_assoc]
    have htake : List.take hs inp = b0 :: tl := by rw [hinp', ← hhsdef]; exact List.take_left' rfl
    have hdrop : List.drop hs inp = c ++ pad ++ chk ++ rest := by rw [hinp', ← hhsdef]; exact List.drop_left' rfl
    have hlenle : hs ≤ inp.length := by rw [hinp', List.length_append, hhsdef]; omega
    -- the Block decoder accepts the Block
    have hlim : c.length ≤ compressedLimit hs hdr.check h.compressedSize := by
      cases hcs : h.compressedSize with
      | some x => rw [hD.csize x hcs]; exact Nat.le_refl _
      | none =>
        have := hL.unpadded_le
        unfold compressedLimit UNPADDED_SIZE_MAX VLI_MAX at *
        simp only []
        omega
    have hbd := blockDecode_complete E hloc hdr.check fl.ignoreCheck hs h cap c o pad chk rest hD hlim
    -- the size pair is accepted by the index hash
    have hups : blockUnpaddedSize 1 hs hdr.check (some c.length) = c.length + hs + checkSize hdr.check :=
      blockUnpaddedSize_eq hs hdr.check c.length (by unfold BLOCK_HEADER_SIZE_MIN; omega)
        (by unfold BLOCK_HEADER_SIZE_MAX; omega) (by omega) hck hL.clen_pos hL.unpadded_le
    have happ : indexHashAppend blocks (c.length + hs + checkSize hdr.check) o.length
        = .ok (blocks ++ [⟨c.length + hs + checkSize hdr.check, o.length⟩]) := by
      apply (indexHashAppend_ok_iff _ _ _).2
      refine ⟨?_, hL.unpadded_le, hL.olen_le, hL.totals⟩
      have := hL.clen_pos
      unfold UNPADDED_SIZE_MIN; omega
    have hpadlen : pad.length = blockPadLen c.length := by rw [hD.pad_eq, List.length_replicate]
    -- the rest of the walk
    have hF' : FooterFacts hdr final (List.drop c' rest) s2 := by
      have e : List.drop (hs + c.length + pad.length + chk.length + c') inp = List.drop c' rest := by
        rw [hinp]
        rw [show hs + c.length + pad.length + chk.length + c' = ((b0 :: tl) ++ c ++ pad ++ chk).length + c' by
          simp only [List.length_append, hhsdef]]
        rw [← List.drop_drop, List.drop_left' rfl]
      rw [e] at F
      exact F
    have hrec' := ih s2 hF' hrec hcnt f (by simp only [List.length_append, List.length_cons, List.length_nil]; omega)
    simp only [blocksLoop]
    rw [hinp']
    simp only [List.cons_append]
    rw [if_neg (by simpa [INDEX_INDICATOR] using hb0)]
    rw [show (b0.toNat + 1) * 4 = hs from hsz]
    rw [if_neg (by
      have := hlenle; rw [hinp'] at this; simp only [List.cons_append] at this; omega)]
    have htake' : List.take hs (b0 :: (tl ++ (c ++ pad ++ chk ++ rest))) = b0 :: tl := by
      rw [← List.cons_append, ← hhsdef]; exact List.take_left' rfl
    have hdrop' : List.drop hs (b0 :: (tl ++ (c ++ pad ++ chk ++ rest))) = c ++ pad ++ chk ++ rest := by
      rw [← List.cons_append, ← hhsdef]; exact List.drop_left' rfl
    rw [htake', hh]
    simp only []
    obtain ⟨n, hn⟩ := hv
    rw [hn]
    simp only []
    rw [hdrop', hbd]
    simp only []
    rw [if_neg (by simp), hups, happ]
    simp only []
    have hdrop2 : List.drop (hs + (c.length + pad.length + chk.length)) (b0 :: (tl ++ (c ++ pad ++ chk ++ rest))) = rest := by
      rw [← List.cons_append]
      rw [show hs + (c.length + pad.length + chk.length) = ((b0 :: tl) ++ (c ++ pad ++ chk)).length by
        simp only [List.length_append, hhsdef]]
      rw [show (b0 :: tl) ++ (c ++ pad ++ chk ++ rest) = ((b0 :: tl) ++ (c ++ pad ++ chk)) ++ rest by
        simp only [List.append_assoc]]
      exact List.drop_left' rfl
    rw [hdrop2, hrec']
    simp only [SRes.mk.injEq, true_and]
    omega

/-! ### one Stream -/

theorem streamOne_complete (E : Env) (hloc : PayloadLocal E) (fl : Flags) (first : Bool) (inp : List UInt8) (cap : Nat)
    (out : List UInt8) (len : Nat) (V : DValidStream E fl inp cap out len) :
    (streamOne E fl first inp cap).ret = .streamEnd ∧ (streamOne E fl first inp cap).out = out
    ∧ (streamOne E fl first inp cap).consumed = len := by
  obtain ⟨hdr, c, final, s2, hl, hh, hrun, hF, hlen, hle⟩ := V
  have hhdr := streamHeaderDecode_flags _ _ hh
  have hrec := DBlocks_records hrun (by intro x hx; cases hx)
  have hcount := DBlocks_count hrun
  have hcnt : final.length ≤ VLI_MAX := by
    rcases DBlocks_limits hrun with he | hlim
    · rw [he]; exact Nat.zero_le _
    · exact Nat.le_trans (hBlocksSize_ge_length final hrec) hlim.1
  have hF' : FooterFacts hdr final ((inp.drop STREAM_HEADER_SIZE).drop c) s2 := by rw [List.drop_drop]; exact hF
  have hb := blocksLoop_complete E hloc fl hdr hhdr hrun s2 hF' hrec hcnt (inp.length + 1) (by
    have h1 := hcount.1; have h2 := hcount.2.1
    simp only [List.length_nil, List.length_drop] at h1 h2
    omega)
  unfold streamOne
  rw [if_neg (by omega), hh]
  simp only [hb]
  refine ⟨trivial, trivial, ?_⟩
  rw [hlen, hF.consumed_eq]
  omega

/-! ### Stream Padding -/

theorem streamPadding_replicate : ∀ (m : Nat) (t : List UInt8) (pos n : Nat), pos < 4 →
    streamPadding (List.replicate m 0 ++ t) pos n = streamPadding t ((pos + m) % 4) (n + m)
  | 0, t, pos, n, hp => by
    simp only [List.replicate_zero, List.nil_append, Nat.add_zero]
    rw [Nat.mod_eq_of_lt hp]
  | m + 1, t, pos, n, hp => by
    rw [List.replicate_succ, List.cons_append]
    simp only [streamPadding, if_true]
    rw [streamPadding_replicate m t ((pos + 1) % 4) (n + 1) (Nat.mod_lt _ (by decide))]
    have e1 : ((pos + 1) % 4 + m) % 4 = (pos + (m + 1)) % 4 := by omega
    have e2 : n + 1 + m = n + (m + 1) := by omega
    rw [e1, e2]

/-! ### the whole file -/

theorem DValidStream_len {E : Env} {fl : Flags} {inp : List UInt8} {cap : Nat} {out : List UInt8} {len : Nat}
    (V : DValidStream E fl inp cap out len) : 0 < len ∧ len ≤ inp.length := by
  obtain ⟨hdr, c, final, s2, hl, hh, hrun, hF, hlen, hle⟩ := V
  refine ⟨?_, hle⟩
  rw [hlen]; unfold STREAM_HEADER_SIZE; omega

theorem xzLoop_complete (E : Env) (hloc : PayloadLocal E) (fl : Flags) {inp : List UInt8} {cap : Nat} {out : List UInt8} {n : Nat}
    (V : DValidXz E fl inp cap out n) :
    ∀ (fuel : Nat) (first : Bool), inp.length < fuel →
      (xzLoop E fl fuel first inp cap).ret = .streamEnd ∧ (xzLoop E fl fuel first inp cap).out = out
      ∧ (xzLoop E fl fuel first inp cap).consumed = n := by
  induction V with
  | single inp cap out len hnc hv =>
    intro fuel first hf
    obtain ⟨f, rfl⟩ : ∃ f, fuel = f + 1 := ⟨fuel - 1, by omega⟩
    obtain ⟨h1, h2, h3⟩ := streamOne_complete E hloc fl first inp cap out len hv
    simp only [xzLoop]
    rw [if_neg (by rw [h1]; simp), if_pos (by simp [hnc])]
    exact ⟨h1, h2, h3⟩
  | last inp cap out len k hc hv hdrop =>
    intro fuel first hf
    obtain ⟨f, rfl⟩ : ∃ f, fuel = f + 1 := ⟨fuel - 1, by omega⟩
    obtain ⟨h1, h2, h3⟩ := streamOne_complete E hloc fl first inp cap out len hv
    simp only [xzLoop]
    rw [if_neg (by rw [h1]; simp), if_neg (by simp [hc]), h3, hdrop]
    have := streamPadding_replicate (4 * k) [] 0 0 (by decide)
    rw [List.append_nil] at this
    rw [this]
    simp only [streamPadding, Nat.zero_add]
    rw [if_pos (by omega)]
    exact ⟨rfl, h2, trivial⟩
  | more inp cap out len k b rest out2 c2 hc hv hdrop hb hsub ih =>
    intro fuel first hf
    obtain ⟨f, rfl⟩ : ∃ f, fuel = f + 1 := ⟨fuel - 1, by omega⟩
    obtain ⟨h1, h2, h3⟩ := streamOne_complete E hloc fl first inp cap out len hv
    have hlen := DValidStream_len hv
    have hd : List.drop (len + 4 * k) inp = b :: rest := by
      have := drop_add_of_drop inp len _ _ hdrop
      rwa [List.length_replicate] at this
    have hlen2 : (b :: rest).length < f := by
      have := congrArg List.length hd
      rw [List.length_drop] at this
      omega
    obtain ⟨i1, i2, i3⟩ := ih f false hlen2
    simp only [xzLoop]
    rw [if_neg (by rw [h1]; simp), if_neg (by simp [hc]), h3, hdrop]
    rw [streamPadding_replicate (4 * k) (b :: rest) 0 0 (by decide)]
    simp only [streamPadding, Nat.zero_add]
    rw [if_neg hb, if_neg (by omega)]
    simp only [prepend]
    rw [h2, hd]
    exact ⟨i1, by rw [i2], by rw [i3]⟩

/-- **COMPLETENESS.**  A byte string that is valid per the declarative grammar is accepted by `lzma_stream_decoder` +
    `lzma_code(LZMA_FINISH)` with exactly the grammar's output and length. -/
theorem xzDecode_complete (E : Env) (hloc : PayloadLocal E) (fl : Flags) (b : List UInt8) (cap : Nat) (out : List UInt8) (n : Nat)
    (V : DValidXz E fl b cap out n) :
    (xzDecode E fl b cap).ret = .streamEnd ∧ (xzDecode E fl b cap).out = out ∧ (xzDecode E fl b cap).consumed = n := by
  obtain ⟨h1, h2, h3⟩ := xzLoop_complete E hloc fl V (b.length + 1) true (by omega)
  unfold xzDecode xzCall
  simp only []
  rw [if_neg (by rw [h1]; simp)]
  exact ⟨h1, h2, h3⟩

/-- **SOUNDNESS** w.r.t. the declarative grammar. -/
theorem xzDecode_sound_decl (E : Env) (hloc : PayloadLocal E) (hbd : PayloadBounded E) (fl : Flags) (b : List UInt8) (cap : Nat)
    (h : (xzDecode E fl b cap).ret = .streamEnd) :
    DValidXz E fl b cap (xzDecode E fl b cap).out (xzDecode E fl b cap).consumed := by
  have hcall : xzDecode E fl b cap = xzCall E fl b cap := by
    unfold xzDecode at h ⊢
    simp only [] at h ⊢
    split
    · rename_i hok; rw [if_pos hok] at h; simp at h
    · rfl
  rw [hcall] at h ⊢
  exact xzLoop_sound_decl E hloc hbd fl _ _ _ _ _ rfl h

end XzVerif.XzDecode
