/-
  Preservation of data + control invariant: the remaining main-thread transitions outside read_output_and_wait.
-/
import XzVerif.Lemmas.MtDecMain

namespace XzVerif.MtDec

theorem Inv.hdrGot {s s' : State} (h : Inv s) (hs : step s .hdrGot = some s') : Inv s' := by simple_main h hs
theorem Inv.blockInit {s s' : State} (h : Inv s) (hs : step s .blockInit = some s') : Inv s' := by simple_main h hs
theorem Inv.copyIn {s s' : State} (h : Inv s) (k : Nat) (n : Bool) (hs : step s (.copyIn k n) = some s') : Inv s' := by
  simple_main h hs

theorem Inv.rowOk {s s' : State} (h : Inv s) (hs : step s .rowOk = some s') : Inv s' := by simple_main h hs

end XzVerif.MtDec
