/-
  Lemmas about `Model/Attrs.lean` (write phase + io_close() as a sequence of system calls), used by Props/C19.lean.
-/
import XzVerif.Model.Attrs

namespace XzVerif.Attrs
open XzVerif.Suffix (destMode Status)

/-! ## list helpers -/

/-- an element that occurs exactly once splits a list in exactly one way -/
theorem split_unique {α : Type} {x : α} : ∀ {pre post pre' post' : List α},
    pre ++ x :: post = pre' ++ x :: post' → x ∉ pre' → x ∉ post' → pre = pre' ∧ post = post'
  | [], post, [], post', h, _, _ => by simpa using h
  | [], post, y :: t, post', h, h1, _ => by
    simp only [List.nil_append, List.cons_append, List.cons.injEq] at h
    exact absurd (h.1 ▸ List.mem_cons_self) h1
  | y :: t, post, [], post', h, _, h2 => by
    simp only [List.nil_append, List.cons_append, List.cons.injEq] at h
    exact absurd (h.2 ▸ (List.mem_append_right t List.mem_cons_self)) h2
  | y :: t, post, y' :: t', post', h, h1, h2 => by
    simp only [List.cons_append, List.cons.injEq] at h
    have := split_unique (pre := t) (pre' := t') h.2 (fun hm => h1 (List.mem_cons_of_mem _ hm)) h2
    exact ⟨by rw [h.1, this.1], this.2⟩

/-- the part after a split point that is not in the first segment lies inside the second segment -/
theorem split_in_second {α : Type} {ws c pre post : List α} {x : α}
    (h : ws ++ c = pre ++ x :: post) (hx : x ∉ ws) : ∃ a, pre = ws ++ a ∧ c = a ++ x :: post := by
  rcases List.append_eq_append_iff.mp h with ⟨a, hpre, hc⟩ | ⟨c', hws, hc⟩
  · exact ⟨a, hpre, hc⟩
  · cases c' with
    | nil =>
      simp only [List.append_nil] at hws
      simp only [List.nil_append] at hc
      exact ⟨[], by simp [hws], by simp [hc]⟩
    | cons y t =>
      simp only [List.cons_append, List.cons.injEq] at hc
      exact absurd (by rw [hws, hc.1]; exact List.mem_append_right _ List.mem_cons_self) hx

/-! ## pwrite on byte lists -/

theorem writeAt_end (c : List UInt8) (k : Nat) (bs : List UInt8) :
    writeAt c (c.length + k) bs = c ++ List.replicate k 0 ++ bs := by
  unfold writeAt
  have h1 : c.length + k - c.length = k := by omega
  have h2 : (c ++ List.replicate k (0 : UInt8)).take (c.length + k) = c ++ List.replicate k 0 := by
    apply List.take_of_length_le; simp
  have h3 : c.drop (c.length + k + bs.length) = [] := by
    apply List.drop_of_length_le; omega
  rw [h1, h2, h3, List.append_nil]

theorem isSparse_eq_replicate (bs : List UInt8) (h : isSparse bs = true) : bs = List.replicate bs.length 0 := by
  unfold isSparse at h
  rw [List.all_eq_true] at h
  apply List.eq_replicate_iff.mpr
  exact ⟨rfl, fun b hb => by simpa using h b hb⟩

/-! ## the write phase -/

/-- What the write phase maintains: the offset is at the end of the file, the file followed by the pending hole is
    the data handed to io_write() so far, and nothing is pending unless `dest_try_sparse`. -/
structure WInv (ts : Bool) (s : St) (acc : List UInt8) : Prop where
  pos : s.pos = s.dest.content.length
  data : s.dest.content ++ List.replicate s.pending 0 = acc
  dense : ts = false → s.pending = 0

/-- What the write phase leaves alone, and what it may add to the trace. -/
structure Frame (s s' : St) : Prop where
  mode : s'.dest.mode = s.dest.mode
  uid : s'.dest.uid = s.dest.uid
  gid : s'.dest.gid = s.dest.gid
  atime : s'.dest.atime = s.dest.atime
  msgs : s'.msgs = s.msgs
  trace : ∃ ws, s'.trace = s.trace ++ ws ∧ ∀ e ∈ ws, e.isData = true

theorem Frame.refl (s : St) : Frame s s := ⟨rfl, rfl, rfl, rfl, rfl, [], by simp, by simp⟩

theorem Frame.trans {a b c : St} (h1 : Frame a b) (h2 : Frame b c) : Frame a c := by
  obtain ⟨w1, ht1, hd1⟩ := h1.trace
  obtain ⟨w2, ht2, hd2⟩ := h2.trace
  refine ⟨h2.mode.trans h1.mode, h2.uid.trans h1.uid, h2.gid.trans h1.gid, h2.atime.trans h1.atime,
    h2.msgs.trans h1.msgs, w1 ++ w2, by rw [ht2, ht1, List.append_assoc], ?_⟩
  intro e he
  rcases List.mem_append.mp he with h | h
  · exact hd1 e h
  · exact hd2 e h

theorem sysWrite_content (s : St) (k : Nat) (bs : List UInt8) (hp : s.pos = s.dest.content.length + k) :
    (s.sysWrite bs).dest.content = s.dest.content ++ List.replicate k 0 ++ bs ∧
    (s.sysWrite bs).pos = (s.sysWrite bs).dest.content.length := by
  simp only [St.sysWrite, hp, writeAt_end]
  simp [Nat.add_assoc]

theorem frame_sysWrite (s : St) (bs : List UInt8) : Frame s (s.sysWrite bs) :=
  ⟨rfl, rfl, rfl, rfl, rfl, [.write bs.length], rfl, by simp [Ev.isData]⟩

theorem frame_sysSeek (s : St) (n : Nat) : Frame s (s.sysSeek n) :=
  ⟨rfl, rfl, rfl, rfl, rfl, [.seek n], rfl, by simp [Ev.isData]⟩

theorem frame_pending (s : St) (n : Nat) : Frame s { s with pending := n } :=
  ⟨rfl, rfl, rfl, rfl, rfl, [], by simp, by simp⟩

theorem frame_ioWriteBuf (s : St) (bs : List UInt8) : Frame s (ioWriteBuf s bs) := by
  unfold ioWriteBuf
  split
  · exact Frame.refl s
  · exact frame_sysWrite s bs

theorem ioWrite_frame (ts : Bool) (s : St) (bs : List UInt8) : Frame s (ioWrite ts s bs) := by
  unfold ioWrite
  split
  · split
    · exact frame_pending s _
    · split
      · exact Frame.refl s
      · refine Frame.trans ?_ (frame_ioWriteBuf _ bs)
        split
        · exact Frame.trans (frame_sysSeek s _) (frame_pending _ 0)
        · exact Frame.refl s
  · exact frame_ioWriteBuf s bs

theorem ioWrite_inv (ts : Bool) (s : St) (acc bs : List UInt8) (h : WInv ts s acc) :
    WInv ts (ioWrite ts s bs) (acc ++ bs) := by
  obtain ⟨hpos, hdata, hdense⟩ := h
  unfold ioWrite ioWriteBuf
  by_cases hts : ts = true
  · simp only [hts, if_true]
    split
    · rename_i hc
      simp only [Bool.and_eq_true, beq_iff_eq, decide_eq_true_eq] at hc
      refine ⟨hpos, ?_, by simp⟩
      simp only
      rw [← hdata, ← List.replicate_append_replicate, ← List.append_assoc, ← isSparse_eq_replicate bs hc.1.2]
    · split
      · rename_i hz
        have : bs = [] := List.length_eq_zero_iff.mp (by simpa using hz)
        subst this
        exact ⟨hpos, by simpa using hdata, by simp⟩
      · rename_i hz
        have hne : bs.isEmpty = false := by
          cases bs with
          | nil => simp at hz
          | cons => rfl
        by_cases hp : s.pending > 0
        · simp only [hp, if_true, hne, Bool.false_eq_true, if_false]
          have key := sysWrite_content ({ s.sysSeek s.pending with pending := 0 }) s.pending bs
            (by simp [St.sysSeek, hpos])
          refine ⟨key.2, ?_, by simp⟩
          rw [key.1]
          simp only [St.sysWrite, St.sysSeek, List.replicate_zero, List.append_nil]
          rw [← hdata]
        · have hp0 : s.pending = 0 := by omega
          simp only [hp, if_false, hne, Bool.false_eq_true]
          have key := sysWrite_content s 0 bs (by simp [hpos])
          refine ⟨key.2, ?_, by simp⟩
          rw [key.1]
          simp only [St.sysWrite, List.replicate_zero, List.append_nil]
          rw [← hdata, hp0]; simp
  · have htf : ts = false := by simpa using hts
    have hp0 : s.pending = 0 := hdense htf
    simp only [htf, Bool.false_eq_true, if_false]
    split
    · rename_i hz
      have : bs = [] := by simpa using hz
      subst this
      exact ⟨hpos, by simpa using hdata, fun _ => hp0⟩
    · have key := sysWrite_content s 0 bs (by simp [hpos])
      refine ⟨key.2, ?_, fun _ => by simpa [St.sysWrite] using hp0⟩
      rw [key.1]
      simp only [St.sysWrite, List.replicate_zero, List.append_nil]
      rw [← hdata, hp0]; simp

theorem runWrites_inv (ts : Bool) (chunks : List (List UInt8)) : ∀ (s : St) (acc : List UInt8), WInv ts s acc →
    WInv ts (runWrites ts s chunks) (acc ++ chunks.flatten) ∧ Frame s (runWrites ts s chunks) := by
  induction chunks with
  | nil => intro s acc h; simpa [runWrites] using ⟨h, Frame.refl s⟩
  | cons c rest ih =>
    intro s acc h
    have h1 := ioWrite_inv ts s acc c h
    obtain ⟨h2, h3⟩ := ih (ioWrite ts s c) (acc ++ c) h1
    simp only [runWrites, List.foldl_cons, List.flatten_cons] at h2 h3 ⊢
    rw [← List.append_assoc]
    exact ⟨h2, Frame.trans (ioWrite_frame ts s c) h3⟩

theorem initSt_inv (ts : Bool) (u g n : Nat) : WInv ts (initSt u g n) [] := ⟨rfl, rfl, fun _ => rfl⟩

/-- the state io_close() starts from -/
theorem writes_summary (ts : Bool) (u g n : Nat) (chunks : List (List UInt8)) :
    let s := runWrites ts (initSt u g n) chunks
    s.pos = s.dest.content.length ∧ s.dest.content ++ List.replicate s.pending 0 = chunks.flatten ∧
    (ts = false → s.pending = 0) ∧
    s.dest.mode = 0o600 ∧ s.dest.uid = u ∧ s.dest.gid = g ∧ s.dest.atime = n ∧ s.msgs = [] ∧
    (∀ e ∈ s.trace, e.isData = true) := by
  obtain ⟨⟨h1, h2, h3⟩, hf⟩ := runWrites_inv ts chunks (initSt u g n) [] (initSt_inv ts u g n)
  obtain ⟨ws, hws, hd⟩ := hf.trace
  refine ⟨h1, by simpa using h2, h3, hf.mode, hf.uid, hf.gid, hf.atime, hf.msgs, ?_⟩
  intro e he
  rw [hws] at he
  simpa [initSt] using hd e (by simpa [initSt] using he)

@[simp] theorem beq_none_file : (DestKind.none == DestKind.file) = false := by decide
@[simp] theorem beq_stdout_file : (DestKind.stdout == DestKind.file) = false := by decide
@[simp] theorem beq_file_file : (DestKind.file == DestKind.file) = true := by decide
@[simp] theorem beq_none_stdout : (DestKind.none == DestKind.stdout) = false := by decide
@[simp] theorem beq_file_stdout : (DestKind.file == DestKind.stdout) = false := by decide
@[simp] theorem beq_stdout_stdout : (DestKind.stdout == DestKind.stdout) = true := by decide

/-! ## io_close(): the system calls as a function of the configuration and of the system-call results -/

def lastWriteCond (cfg : Cfg) (success : Bool) (pending : Nat) : Bool :=
  (success || cfg.destKind == .stdout) && cfg.trySparse && decide (pending > 0)

def lastWriteEvents (cfg : Cfg) (env : Env) (success : Bool) (pending : Nat) : List Ev :=
  if lastWriteCond cfg success pending then .seek (pending - 1) :: (if env.seekOk then [.write 1] else []) else []

def lastWriteSuccess (cfg : Cfg) (env : Env) (success : Bool) (pending : Nat) : Bool :=
  if lastWriteCond cfg success pending then success && env.seekOk && env.writeOk else success

/-- io_copy_attrs(): `gid` is the group the new file got from open() -/
def attrEvents (env : Env) (src : File) (gid : Nat) : List Ev :=
  [.chownOwner src.uid] ++ (if gid ≠ src.gid then [.chownGroup src.gid] else []) ++
  [.chmod (destMode src.mode (decide (gid ≠ src.gid) && !env.groupOk)), .utimens src.atime src.mtime]

def syncEvents (env : Env) : List Ev := .fsync :: (if env.fsyncOk then [.fsyncDir] else [])

def closeDestEvents (cfg : Cfg) (env : Env) (success : Bool) : List Ev :=
  if cfg.destKind == .file then
    (if cfg.sync then [.closeDir] else []) ++ [.closeDest] ++
    (if (!env.closeOk || !success) && env.destSame then [.unlinkDest] else [])
  else []

def closeSrcEvents (cfg : Cfg) (env : Env) (success : Bool) : List Ev :=
  if cfg.srcIsStdin then [] else .closeSrc :: (if success && !cfg.keep && env.srcSame then [.unlinkSrc] else [])

/-- `success` after the attribute / sync step -/
def successAfterSync (cfg : Cfg) (env : Env) (s1 : Bool) : Bool :=
  if s1 && cfg.destKind == .file && cfg.sync then env.fsyncOk && env.fsyncDirOk else s1

/-- `success` when io_close_src() is called -/
def finalSuccess (cfg : Cfg) (env : Env) (success : Bool) (pending : Nat) : Bool :=
  successAfterSync cfg env (lastWriteSuccess cfg env success pending) && !(cfg.destKind == .file && !env.closeOk)

/-- all system calls of io_close(), in order -/
def closeEvents (cfg : Cfg) (env : Env) (src : File) (success : Bool) (pending gid : Nat) : List Ev :=
  let s1 := lastWriteSuccess cfg env success pending
  lastWriteEvents cfg env success pending ++
  (if s1 && cfg.destKind == .file then attrEvents env src gid ++ (if cfg.sync then syncEvents env else []) else []) ++
  closeDestEvents cfg env (successAfterSync cfg env s1) ++
  closeSrcEvents cfg env (finalSuccess cfg env success pending)

theorem lastWrite_spec (cfg : Cfg) (env : Env) (success : Bool) (s : St) :
    (lastWrite cfg env success s).2 = lastWriteSuccess cfg env success s.pending ∧
    (lastWrite cfg env success s).1.trace = s.trace ++ lastWriteEvents cfg env success s.pending ∧
    (lastWrite cfg env success s).1.dest.gid = s.dest.gid := by
  unfold lastWrite lastWriteSuccess lastWriteEvents lastWriteCond
  split
  · cases hs : env.seekOk <;> cases hw : env.writeOk <;>
      simp [St.ev, St.msg, St.sysSeek, St.sysWrite]
  · simp

theorem ioCopyAttrs_spec (env : Env) (src : File) (s : St) :
    (ioCopyAttrs env src s).trace = s.trace ++ attrEvents env src s.dest.gid ∧
    (ioCopyAttrs env src s).dest =
      { content := s.dest.content,
        mode := if env.chmodOk then destMode src.mode (decide (s.dest.gid ≠ src.gid) && !env.groupOk) else s.dest.mode,
        uid := if env.ownerOk then src.uid else s.dest.uid,
        gid := if env.groupOk then src.gid else s.dest.gid,
        atime := if env.utimensOk then src.atime else s.dest.atime,
        mtime := if env.utimensOk then src.mtime else s.dest.mtime } := by
  unfold ioCopyAttrs attrEvents
  obtain ⟨⟨c, m, u, g, a, t⟩, pos, pend, now, tr, ms⟩ := s
  by_cases hg : g = src.gid <;>
  cases ho : env.ownerOk <;> cases hr : env.isRoot <;> cases hgo : env.groupOk <;> cases hc : env.chmodOk <;>
    cases hu : env.utimensOk <;> simp [St.ev, St.msg, hg]

theorem ioSyncDest_spec (env : Env) (s : St) :
    (ioSyncDest env s).2 = !(env.fsyncOk && env.fsyncDirOk) ∧
    (ioSyncDest env s).1.trace = s.trace ++ syncEvents env ∧ (ioSyncDest env s).1.dest = s.dest := by
  unfold ioSyncDest syncEvents
  cases env.fsyncOk <;> cases env.fsyncDirOk <;> simp [St.ev, St.msg]

theorem ioUnlink_spec (same ok : Bool) (e : Ev) (s : St) :
    (ioUnlink same ok e s).2 = (same && ok) ∧
    (ioUnlink same ok e s).1.trace = s.trace ++ (if same then [e] else []) ∧ (ioUnlink same ok e s).1.dest = s.dest := by
  unfold ioUnlink
  cases same <;> cases ok <;> simp [St.ev, St.msg]

theorem ioCloseDest_spec (cfg : Cfg) (env : Env) (success : Bool) (s : St) :
    (ioCloseDest cfg env success s).2.1 = (cfg.destKind == .file && !env.closeOk) ∧
    (ioCloseDest cfg env success s).2.2 =
      (cfg.destKind == .file && (!env.closeOk || !success) && env.destSame && env.destUnlinkOk) ∧
    (ioCloseDest cfg env success s).1.trace = s.trace ++ closeDestEvents cfg env success ∧
    (ioCloseDest cfg env success s).1.dest = s.dest := by
  unfold ioCloseDest closeDestEvents
  by_cases hf : cfg.destKind = .file
  · cases hc : env.closeOk <;> cases success <;> cases hy : cfg.sync <;>
      simp [hf, ioUnlink_spec, St.ev, St.msg]
  · simp [hf]

theorem ioCloseSrc_spec (cfg : Cfg) (env : Env) (success : Bool) (s : St) :
    (ioCloseSrc cfg env success s).2 = (!cfg.srcIsStdin && success && !cfg.keep && env.srcSame && env.srcUnlinkOk) ∧
    (ioCloseSrc cfg env success s).1.trace = s.trace ++ closeSrcEvents cfg env success ∧
    (ioCloseSrc cfg env success s).1.dest = s.dest := by
  unfold ioCloseSrc closeSrcEvents
  cases cfg.srcIsStdin <;> cases success <;> cases cfg.keep <;> simp [ioUnlink_spec, St.ev]

theorem ioCloseSrc_trace (cfg : Cfg) (env : Env) (success : Bool) (s : St) :
    (ioCloseSrc cfg env success s).1.trace = s.trace ++ closeSrcEvents cfg env success :=
  (ioCloseSrc_spec cfg env success s).2.1

theorem ioCloseSrc_removed (cfg : Cfg) (env : Env) (success : Bool) (s : St) :
    (ioCloseSrc cfg env success s).2 = (!cfg.srcIsStdin && success && !cfg.keep && env.srcSame && env.srcUnlinkOk) :=
  (ioCloseSrc_spec cfg env success s).1

/-- **The trace of io_close()**, for every configuration and every combination of system-call results. -/
theorem ioClose_spec (cfg : Cfg) (env : Env) (src : File) (success : Bool) (s : St) :
    (ioClose cfg env src success s).st.trace = s.trace ++ closeEvents cfg env src success s.pending s.dest.gid ∧
    (ioClose cfg env src success s).success = finalSuccess cfg env success s.pending ∧
    (ioClose cfg env src success s).srcRemoved =
      (!cfg.srcIsStdin && finalSuccess cfg env success s.pending && !cfg.keep && env.srcSame && env.srcUnlinkOk) := by
  unfold ioClose closeEvents finalSuccess successAfterSync
  have h1 := lastWrite_spec cfg env success s
  generalize lastWrite cfg env success s = lw at h1 ⊢
  obtain ⟨s1, b1⟩ := lw
  obtain ⟨hb, ht, hg⟩ := h1
  simp only at hb ht hg
  rw [← hb]
  by_cases hdo : (b1 && cfg.destKind == .file) = true
  · by_cases hy : cfg.sync = true
    · simp only [hdo, hy, if_true, Bool.and_true]
      have h2 := ioCopyAttrs_spec env src s1
      have h3 := ioSyncDest_spec env (ioCopyAttrs env src s1)
      generalize ioSyncDest env (ioCopyAttrs env src s1) = sy at h3 ⊢
      obtain ⟨s3, err⟩ := sy
      obtain ⟨he, ht3, _⟩ := h3
      simp only at he ht3
      have h4 := ioCloseDest_spec cfg env (!err) s3
      generalize ioCloseDest cfg env (!err) s3 = cd at h4 ⊢
      obtain ⟨s4, err4, rem4⟩ := cd
      obtain ⟨he4, _, ht4, _⟩ := h4
      simp only at he4 ht4
      simp only [ioCloseSrc_trace, ioCloseSrc_removed, ht4, ht3, h2.1, ht, hg, he, he4]
      cases env.fsyncOk <;> cases env.fsyncDirOk <;> cases env.closeOk <;> cases hk : cfg.destKind <;>
        simp [List.append_assoc]
    · have hy' : cfg.sync = false := by simpa using hy
      simp only [hdo, hy', if_true, Bool.and_false, Bool.false_eq_true, if_false, List.append_nil]
      have h2 := ioCopyAttrs_spec env src s1
      have h4 := ioCloseDest_spec cfg env b1 (ioCopyAttrs env src s1)
      generalize ioCloseDest cfg env b1 (ioCopyAttrs env src s1) = cd at h4 ⊢
      obtain ⟨s4, err4, rem4⟩ := cd
      obtain ⟨he4, _, ht4, _⟩ := h4
      simp only at he4 ht4
      simp only [ioCloseSrc_trace, ioCloseSrc_removed, ht4, h2.1, ht, hg, he4]
      cases env.closeOk <;> cases hk : cfg.destKind <;> cases b1 <;> simp [List.append_assoc]
  · have hdo' : (b1 && cfg.destKind == .file) = false := by simpa using hdo
    simp only [hdo', Bool.false_eq_true, if_false, Bool.false_and, List.append_nil]
    have h4 := ioCloseDest_spec cfg env b1 s1
    generalize ioCloseDest cfg env b1 s1 = cd at h4 ⊢
    obtain ⟨s4, err4, rem4⟩ := cd
    obtain ⟨he4, _, ht4, _⟩ := h4
    simp only at he4 ht4
    simp only [ioCloseSrc_trace, ioCloseSrc_removed, ht4, ht, he4]
    cases env.closeOk <;> cases hk : cfg.destKind <;> cases b1 <;> simp_all [List.append_assoc]

/-! ## the destination file after a successful io_close() -/

theorem ioSyncDest_dest (env : Env) (s : St) : (ioSyncDest env s).1.dest = s.dest := (ioSyncDest_spec env s).2.2
theorem ioCloseDest_dest (cfg : Cfg) (env : Env) (b : Bool) (s : St) : (ioCloseDest cfg env b s).1.dest = s.dest :=
  (ioCloseDest_spec cfg env b s).2.2.2
theorem ioCloseSrc_dest (cfg : Cfg) (env : Env) (b : Bool) (s : St) : (ioCloseSrc cfg env b s).1.dest = s.dest :=
  (ioCloseSrc_spec cfg env b s).2.2

/-- Hypotheses of "the run succeeded": the destination is a regular file, coding succeeded, and no system call that
    io_close() treats as an error failed. (fchown may fail: that is only a warning.) -/
structure OkRun (r : Run) : Prop where
  file : r.cfg.destKind = .file
  coded : r.success = true
  seek : r.env.seekOk = true
  write : r.env.writeOk = true
  chmod : r.env.chmodOk = true
  utimens : r.env.utimensOk = true
  fsync : r.cfg.sync = true → r.env.fsyncOk = true ∧ r.env.fsyncDirOk = true
  close : r.env.closeOk = true

theorem lastWrite_ok_dest (cfg : Cfg) (env : Env) (s : St) (acc : List UInt8) (h : WInv cfg.trySparse s acc)
    (hseek : env.seekOk = true) (hwrite : env.writeOk = true) :
    (lastWrite cfg env true s).1.dest.content = acc ∧ (lastWrite cfg env true s).1.dest.mode = s.dest.mode ∧
    (lastWrite cfg env true s).1.dest.uid = s.dest.uid ∧ (lastWrite cfg env true s).1.dest.gid = s.dest.gid ∧
    (lastWrite cfg env true s).1.dest.atime = s.dest.atime := by
  obtain ⟨hpos, hdata, hdense⟩ := h
  unfold lastWrite
  by_cases hts : cfg.trySparse = true
  · by_cases hp : s.pending > 0
    · simp only [hts, hp, hseek, hwrite, Bool.true_or, Bool.true_and, decide_true, if_true, Bool.not_true,
        Bool.false_eq_true, if_false]
      have key := sysWrite_content (s.sysSeek (s.pending - 1)) (s.pending - 1) [0] (by simp [St.sysSeek, hpos])
      refine ⟨?_, rfl, rfl, rfl, rfl⟩
      rw [key.1, ← hdata]
      simp only [St.sysSeek, List.append_assoc]
      congr 1
      have : s.pending = (s.pending - 1) + 1 := by omega
      rw [this, List.replicate_succ', Nat.add_sub_cancel]
    · have hp0 : s.pending = 0 := by omega
      simp [hp0] at hdata ⊢
      exact hdata
  · have htf : cfg.trySparse = false := by simpa using hts
    have hp0 : s.pending = 0 := hdense htf
    simp [htf, hp0] at hdata ⊢
    exact hdata

theorem ioClose_ok_dest (cfg : Cfg) (env : Env) (src : File) (s : St) (acc : List UInt8)
    (h : WInv cfg.trySparse s acc) (hfile : cfg.destKind = .file)
    (hseek : env.seekOk = true) (hwrite : env.writeOk = true) (hchmod : env.chmodOk = true)
    (hutimens : env.utimensOk = true) :
    (ioClose cfg env src true s).st.dest =
      { content := acc,
        mode := destMode src.mode (decide (s.dest.gid ≠ src.gid) && !env.groupOk),
        uid := if env.ownerOk then src.uid else s.dest.uid,
        gid := if env.groupOk then src.gid else s.dest.gid,
        atime := src.atime, mtime := src.mtime } := by
  have h1 := lastWrite_ok_dest cfg env s acc h hseek hwrite
  have h1b := lastWrite_spec cfg env true s
  have hs : lastWriteSuccess cfg env true s.pending = true := by
    unfold lastWriteSuccess; simp [hseek, hwrite]
  unfold ioClose
  generalize lastWrite cfg env true s = lw at h1 h1b ⊢
  obtain ⟨s1, b1⟩ := lw
  simp only at h1 h1b
  obtain ⟨hc, hm, hu, hg, ha⟩ := h1
  have hb1 : b1 = true := h1b.1.trans hs
  subst hb1
  have h2 := (ioCopyAttrs_spec env src s1).2
  by_cases hy : cfg.sync = true
  · simp only [hfile, hy, beq_file_file, Bool.and_self, if_true, ioCloseSrc_dest, ioCloseDest_dest, ioSyncDest_dest]
    rw [h2, hc, hg, hu]
    simp [hchmod, hutimens]
  · have hy' : cfg.sync = false := by simpa using hy
    simp only [hfile, hy', beq_file_file, Bool.and_self, if_true, Bool.false_eq_true, if_false,
      ioCloseSrc_dest, ioCloseDest_dest]
    rw [h2, hc, hg, hu]
    simp [hchmod, hutimens]

/-! ## whole runs -/

/-- the system calls of a successful io_close() after the last write to the destination -/
def okCloseEvents (r : Run) : List Ev :=
  attrEvents r.env r.src r.destGid ++ (if r.cfg.sync then [.fsync, .fsyncDir, .closeDir] else []) ++ [.closeDest] ++
  (if r.cfg.srcIsStdin then [] else .closeSrc :: (if !r.cfg.keep && r.env.srcSame then [.unlinkSrc] else []))

theorem run_trace (r : Run) : ∃ ws pending, (∀ e ∈ ws, e.isData = true) ∧
    (run r).st.trace = ws ++ closeEvents r.cfg r.env r.src r.success pending r.destGid ∧
    (run r).success = finalSuccess r.cfg r.env r.success pending ∧
    (run r).srcRemoved = (!r.cfg.srcIsStdin && finalSuccess r.cfg r.env r.success pending && !r.cfg.keep &&
      r.env.srcSame && r.env.srcUnlinkOk) := by
  have hw := writes_summary r.cfg.trySparse r.procUid r.destGid r.now0 r.chunks
  simp only at hw
  have hc := ioClose_spec r.cfg r.env r.src r.success (runWrites r.cfg.trySparse (initSt r.procUid r.destGid r.now0) r.chunks)
  rw [hw.2.2.2.2.2.1] at hc
  exact ⟨_, _, hw.2.2.2.2.2.2.2.2, hc.1, hc.2.1, hc.2.2⟩

theorem run_ok_dest (r : Run) (h : OkRun r) :
    (run r).st.dest =
      { content := r.chunks.flatten,
        mode := destMode r.src.mode (decide (r.destGid ≠ r.src.gid) && !r.env.groupOk),
        uid := if r.env.ownerOk then r.src.uid else r.procUid,
        gid := if r.env.groupOk then r.src.gid else r.destGid,
        atime := r.src.atime, mtime := r.src.mtime } := by
  have hw := writes_summary r.cfg.trySparse r.procUid r.destGid r.now0 r.chunks
  simp only at hw
  obtain ⟨h1, h2, h3, _, hu, hg, _⟩ := hw
  have := ioClose_ok_dest r.cfg r.env r.src _ r.chunks.flatten ⟨h1, h2, h3⟩ h.file h.seek h.write h.chmod h.utimens
  unfold run
  rw [h.coded, this, hu, hg]

theorem closeEvents_ok (r : Run) (h : OkRun r) (pending : Nat) :
    closeEvents r.cfg r.env r.src r.success pending r.destGid =
      lastWriteEvents r.cfg r.env true pending ++ okCloseEvents r ∧
    finalSuccess r.cfg r.env r.success pending = true := by
  obtain ⟨hf, hc, hs, hw, _, _, hy, hcl⟩ := h
  have h1 : lastWriteSuccess r.cfg r.env true pending = true := by unfold lastWriteSuccess; simp [hs, hw]
  unfold closeEvents okCloseEvents finalSuccess successAfterSync closeDestEvents closeSrcEvents syncEvents
  rw [hc, h1]
  by_cases hsy : r.cfg.sync = true
  · obtain ⟨hy1, hy2⟩ := hy hsy
    simp [hf, hsy, hy1, hy2, hcl]
  · have : r.cfg.sync = false := by simpa using hsy
    simp [hf, this, hcl]

theorem lastWriteEvents_isData (cfg : Cfg) (env : Env) (b : Bool) (p : Nat) :
    ∀ e ∈ lastWriteEvents cfg env b p, e.isData = true := by
  unfold lastWriteEvents
  split
  · cases env.seekOk <;> simp [Ev.isData]
  · simp

/-- **Shape of the trace of a successful run**: writes and seeks only, then exactly the attribute calls in the order
    fchown(owner), [fchown(group)], fchmod, futimens, then [fsync, fsync(dir), close(dir)], close(dest), close(src),
    [unlink(src)]. -/
theorem run_ok_trace (r : Run) (h : OkRun r) :
    ∃ ws, (∀ e ∈ ws, e.isData = true) ∧ (run r).st.trace = ws ++ okCloseEvents r ∧ (run r).success = true ∧
      (run r).srcRemoved = (!r.cfg.srcIsStdin && !r.cfg.keep && r.env.srcSame && r.env.srcUnlinkOk) := by
  obtain ⟨ws, pending, hd, ht, hs, hr⟩ := run_trace r
  obtain ⟨hce, hfs⟩ := closeEvents_ok r h pending
  refine ⟨ws ++ lastWriteEvents r.cfg r.env true pending, ?_, ?_, hs.trans hfs, ?_⟩
  · intro e he
    rcases List.mem_append.mp he with h1 | h1
    · exact hd e h1
    · exact lastWriteEvents_isData _ _ _ _ e h1
  · rw [ht, hce, List.append_assoc]
  · rw [hr, hfs]; simp

/-! ## order properties -/

theorem isData_ne {e : Ev} (h : e.isData = true) :
    (∀ a m, e ≠ .utimens a m) ∧ e ≠ .closeDest ∧ e ≠ .unlinkSrc ∧ e ≠ .closeSrc ∧ e ≠ .unlinkDest := by
  cases e <;> simp [Ev.isData] at h ⊢

/-- the part of `okCloseEvents` before close(dest) -/
def okBeforeClose (r : Run) : List Ev :=
  attrEvents r.env r.src r.destGid ++ (if r.cfg.sync then [.fsync, .fsyncDir, .closeDir] else [])

/-- the part of `okCloseEvents` after close(dest) -/
def okAfterClose (r : Run) : List Ev :=
  if r.cfg.srcIsStdin then [] else .closeSrc :: (if !r.cfg.keep && r.env.srcSame then [.unlinkSrc] else [])

theorem okCloseEvents_split (r : Run) : okCloseEvents r = okBeforeClose r ++ .closeDest :: okAfterClose r := by
  unfold okCloseEvents okBeforeClose okAfterClose; simp

theorem okBeforeClose_mem (r : Run) : ∀ e ∈ okBeforeClose r,
    e.isWrite = false ∧ e ≠ .closeDest ∧ e ≠ .closeSrc ∧ e ≠ .unlinkSrc ∧ e ≠ .unlinkDest ∧
    (∀ a m, e = .utimens a m → a = r.src.atime ∧ m = r.src.mtime) := by
  intro e he
  unfold okBeforeClose attrEvents at he
  by_cases hg : r.destGid = r.src.gid <;> cases hs : r.cfg.sync <;> simp [hg, hs] at he <;>
    rcases he with rfl | rfl | rfl | rfl | rfl | rfl | rfl <;> simp [Ev.isWrite]

theorem okAfterClose_mem (r : Run) : ∀ e ∈ okAfterClose r, e = .closeSrc ∨ e = .unlinkSrc := by
  intro e he
  unfold okAfterClose at he
  split at he
  · cases he
  · rcases List.mem_cons.mp he with rfl | h2
    · exact Or.inl rfl
    · split at h2
      · exact Or.inr (by simpa using h2)
      · cases h2

theorem utimens_mem_okBeforeClose (r : Run) : .utimens r.src.atime r.src.mtime ∈ okBeforeClose r := by
  unfold okBeforeClose attrEvents; simp

/-- **No write after futimens**: however the trace of a successful run is cut at a futimens call, that call carries the
    source's times and nothing after it writes to the destination. -/
theorem no_write_after_utimens (r : Run) (h : OkRun r) (pre post : List Ev) (a m : Nat)
    (hsplit : (run r).st.trace = pre ++ .utimens a m :: post) :
    a = r.src.atime ∧ m = r.src.mtime ∧ ∀ e ∈ post, e.isWrite = false := by
  obtain ⟨ws, hd, ht, _, _⟩ := run_ok_trace r h
  rw [ht] at hsplit
  obtain ⟨a', _, hc⟩ := split_in_second hsplit (fun hm => (isData_ne (hd _ hm)).1 a m rfl)
  have hall : ∀ e ∈ okCloseEvents r, e.isWrite = false ∧ (∀ a m, e = .utimens a m → a = r.src.atime ∧ m = r.src.mtime) := by
    intro e he
    rw [okCloseEvents_split] at he
    rcases List.mem_append.mp he with h1 | h1
    · have := okBeforeClose_mem r e h1
      exact ⟨this.1, this.2.2.2.2.2⟩
    · rcases List.mem_cons.mp h1 with rfl | h2
      · simp [Ev.isWrite]
      · rcases okAfterClose_mem r e h2 with rfl | rfl <;> simp [Ev.isWrite]
  have hu := (hall (.utimens a m) (by rw [hc]; simp)).2 a m rfl
  refine ⟨hu.1, hu.2, ?_⟩
  intro e he
  exact (hall e (by rw [hc]; simp [he])).1

/-- **futimens precedes close**: however the trace of a successful run is cut at close(dest), the futimens call with
    the source's times lies before it, no close/unlink of the source lies before it, and after it there is nothing
    but close(src) and unlink(src). -/
theorem utimens_before_close (r : Run) (h : OkRun r) (pre post : List Ev)
    (hsplit : (run r).st.trace = pre ++ .closeDest :: post) :
    .utimens r.src.atime r.src.mtime ∈ pre ∧ (∀ e ∈ pre, e ≠ .closeSrc ∧ e ≠ .unlinkSrc ∧ e ≠ .unlinkDest) ∧
    post = okAfterClose r := by
  obtain ⟨ws, hd, ht, _, _⟩ := run_ok_trace r h
  rw [ht] at hsplit
  obtain ⟨a', hpre, hc⟩ := split_in_second hsplit (fun hm => (isData_ne (hd _ hm)).2.1 rfl)
  rw [okCloseEvents_split] at hc
  have hu := split_unique hc.symm (fun hm => (okBeforeClose_mem r _ hm).2.1 rfl)
    (fun hm => by rcases okAfterClose_mem r _ hm with h | h <;> cases h)
  obtain ⟨ha, hp⟩ := hu
  subst ha
  refine ⟨by rw [hpre]; exact List.mem_append_right _ (utimens_mem_okBeforeClose r), ?_, hp⟩
  intro e he
  rw [hpre] at he
  rcases List.mem_append.mp he with h1 | h1
  · have := isData_ne (hd e h1)
    exact ⟨this.2.2.2.1, this.2.2.1, this.2.2.2.2⟩
  · have := okBeforeClose_mem r e h1
    exact ⟨this.2.2.1, this.2.2.2.1, this.2.2.2.2.1⟩

/-! ## unlink(src), for every run (any configuration, any system-call results) -/

/-- everything io_close() does before io_close_src() -/
def beforeSrcEvents (cfg : Cfg) (env : Env) (src : File) (success : Bool) (pending gid : Nat) : List Ev :=
  let s1 := lastWriteSuccess cfg env success pending
  lastWriteEvents cfg env success pending ++
  (if s1 && cfg.destKind == .file then attrEvents env src gid ++ (if cfg.sync then syncEvents env else []) else []) ++
  closeDestEvents cfg env (successAfterSync cfg env s1)

theorem closeEvents_eq (cfg : Cfg) (env : Env) (src : File) (success : Bool) (pending gid : Nat) :
    closeEvents cfg env src success pending gid =
      beforeSrcEvents cfg env src success pending gid ++ closeSrcEvents cfg env (finalSuccess cfg env success pending) := rfl

theorem beforeSrcEvents_mem (cfg : Cfg) (env : Env) (src : File) (success : Bool) (pending gid : Nat) :
    ∀ e ∈ beforeSrcEvents cfg env src success pending gid, e ≠ .closeSrc ∧ e ≠ .unlinkSrc ∧
      (e = .unlinkDest → finalSuccess cfg env success pending = false) := by
  intro e he
  unfold beforeSrcEvents at he
  simp only [List.mem_append] at he
  rcases he with (he | he) | he
  · have := isData_ne (lastWriteEvents_isData _ _ _ _ e he)
    exact ⟨this.2.2.2.1, this.2.2.1, fun h => absurd h this.2.2.2.2⟩
  · split at he
    · rcases List.mem_append.mp he with h1 | h1
      · unfold attrEvents at h1
        by_cases hg : gid = src.gid <;> simp [hg] at h1 <;> rcases h1 with rfl | rfl | rfl | rfl <;> simp
      · split at h1
        · unfold syncEvents at h1
          cases hfo : env.fsyncOk <;> simp [hfo] at h1 <;> rcases h1 with rfl | rfl <;> simp
        · cases h1
    · cases he
  · unfold closeDestEvents at he
    split at he
    · rename_i hf
      have hf' : cfg.destKind = .file := by simpa using hf
      cases hy : cfg.sync <;> cases hc : env.closeOk <;>
        cases hs : successAfterSync cfg env (lastWriteSuccess cfg env success pending) <;>
        cases hd : env.destSame <;> simp [hy, hc, hs, hd] at he <;>
        (try rcases he with rfl | rfl | rfl) <;> (try rcases he with rfl | rfl) <;> (try subst he) <;>
        simp [finalSuccess, hs, hc, hf']
    · cases he

/-- **unlink(src) is last, only after a successful close, only without --keep.** For EVERY run of the model: if the
    source is unlinked at all, then `--keep` is off, coding had succeeded, io_close() still considered the operation
    successful when it reached io_close_src() (in particular close(dest) had returned 0 and no last write / fsync had
    failed), the trace ends in close(src), unlink(src), and before that there is no unlink(dest), no other close/unlink
    of the source, and (for a file destination) close(dest) has happened. -/
theorem unlink_src_last (r : Run) (h : Ev.unlinkSrc ∈ (run r).st.trace) :
    r.cfg.keep = false ∧ r.cfg.srcIsStdin = false ∧ r.success = true ∧ (run r).success = true ∧
    (r.cfg.destKind = .file → r.env.closeOk = true) ∧
    ∃ pre, (run r).st.trace = pre ++ [.closeSrc, .unlinkSrc] ∧ Ev.unlinkSrc ∉ pre ∧ Ev.closeSrc ∉ pre ∧
      Ev.unlinkDest ∉ pre ∧ (r.cfg.destKind = .file → Ev.closeDest ∈ pre) := by
  obtain ⟨ws, pending, hd, ht, hs, _⟩ := run_trace r
  rw [ht, closeEvents_eq] at h
  have hbm := beforeSrcEvents_mem r.cfg r.env r.src r.success pending r.destGid
  have hin : Ev.unlinkSrc ∈ closeSrcEvents r.cfg r.env (finalSuccess r.cfg r.env r.success pending) := by
    rcases List.mem_append.mp h with h1 | h1
    · exact absurd rfl (isData_ne (hd _ h1)).2.2.1
    · rcases List.mem_append.mp h1 with h2 | h2
      · exact absurd rfl (hbm _ h2).2.1
      · exact h2
  unfold closeSrcEvents at hin
  by_cases hst : r.cfg.srcIsStdin = true
  · simp [hst] at hin
  · have hst' : r.cfg.srcIsStdin = false := by simpa using hst
    simp only [hst', Bool.false_eq_true, if_false, List.mem_cons, reduceCtorEq, false_or] at hin
    split at hin
    · rename_i hcond
      simp only [Bool.and_eq_true, Bool.not_eq_eq_eq_not, Bool.not_true] at hcond
      obtain ⟨⟨hfs, hk⟩, hsame⟩ := hcond
      have hcs : closeSrcEvents r.cfg r.env (finalSuccess r.cfg r.env r.success pending) = [.closeSrc, .unlinkSrc] := by
        unfold closeSrcEvents; simp [hst', hfs, hk, hsame]
      -- what finalSuccess = true implies
      have hfs' := hfs
      unfold finalSuccess successAfterSync lastWriteSuccess at hfs'
      have hsucc : r.success = true := by
        cases hsu : r.success
        · simp [hsu] at hfs'
        · rfl
      have hclose : r.cfg.destKind = .file → r.env.closeOk = true := by
        intro hf
        cases hc : r.env.closeOk
        · simp [hf, hc] at hfs'
        · rfl
      refine ⟨hk, hst', hsucc, hs.trans hfs, hclose, ws ++ beforeSrcEvents r.cfg r.env r.src r.success pending r.destGid,
        by rw [ht, closeEvents_eq, hcs, List.append_assoc], ?_, ?_, ?_, ?_⟩
      · intro hm
        rcases List.mem_append.mp hm with h1 | h1
        · exact absurd rfl (isData_ne (hd _ h1)).2.2.1
        · exact absurd rfl (hbm _ h1).2.1
      · intro hm
        rcases List.mem_append.mp hm with h1 | h1
        · exact absurd rfl (isData_ne (hd _ h1)).2.2.2.1
        · exact absurd rfl (hbm _ h1).1
      · intro hm
        rcases List.mem_append.mp hm with h1 | h1
        · exact absurd rfl (isData_ne (hd _ h1)).2.2.2.2
        · have := (hbm _ h1).2.2 rfl
          rw [hfs] at this; cases this
      · intro hf
        apply List.mem_append_right
        unfold beforeSrcEvents closeDestEvents
        simp [hf]
    · cases hin

end XzVerif.Attrs
