/-
  Stream-level lemmas about Model/XzDecode.lean and the declarative grammar `ValidXz` of what the decoder accepts:
  soundness of `indexAndFooter`, `blocksLoop`, `streamOne`, `xzLoop` (answer LZMA_STREAM_END ⇒ the bytes have the stated
  structure).  Used by Props/C05.lean and Props/C03Container.lean.  Kernel proofs, core Lean only.
-/
import XzVerif.Lemmas.XzDecode
namespace XzVerif.XzDecode
open XzVerif XzVerif.Vli XzVerif.Container

theorem streamFooterDecode_error_ne (b : List UInt8) (e : Ret) (h : streamFooterDecode b = .error e) : e ≠ .streamEnd := by
  unfold streamFooterDecode at h
  repeat' split at h
  all_goals first | (simp only [Except.error.injEq] at h; rw [← h]; simp) | simp at h

theorem streamHeaderDecode_error_ne (b : List UInt8) (e : Ret) (h : streamHeaderDecode b = .error e) : e ≠ .streamEnd := by
  unfold streamHeaderDecode at h
  repeat' split at h
  all_goals first | (simp only [Except.error.injEq] at h; rw [← h]; simp) | simp at h

theorem propsDecode_error (id : Nat) (props : List UInt8) (e : Ret) (h : propsDecode id props = .error e) : e = .optionsError := by
  unfold propsDecode at h
  repeat' split at h
  all_goals first | (simp only [Except.error.injEq] at h; rw [← h]) | simp at h

theorem filterFlagsDecode_error_ne (b : List UInt8) (e : Ret) (h : filterFlagsDecode b = .error e) : e ≠ .streamEnd := by
  unfold filterFlagsDecode at h
  repeat' split at h
  all_goals try (simp only [Except.error.injEq] at h; subst h)
  all_goals try simp
  all_goals try simp at h
  rename_i hp
  rw [propsDecode_error _ _ _ hp]; simp

theorem headerDecodeFilters_error_ne (n : Nat) (b : List UInt8) (e : Ret) (h : headerDecodeFilters n b = .error e) : e ≠ .streamEnd := by
  induction n generalizing b with
  | zero => simp [headerDecodeFilters] at h
  | succ n ih =>
    simp only [headerDecodeFilters] at h
    split at h
    · rename_i e' hf
      simp only [Except.error.injEq] at h
      rw [← h]; exact filterFlagsDecode_error_ne _ _ hf
    · split at h
      · rename_i e' hf
        simp only [Except.error.injEq] at h
        subst h; exact ih _ hf
      · simp at h


theorem decOptVli_error (p : Bool) (b : List UInt8) (e : Ret) (h : decOptVli p b = .error e) : e = .dataError := by
  unfold decOptVli at h
  repeat' split at h
  all_goals first | (simp only [Except.error.injEq] at h; exact h.symm) | simp at h

theorem blockHeaderDecodeWith_error_ne (hs check : Nat) (b : List UInt8) (e : Ret)
    (h : blockHeaderDecodeWith hs check b = .error e) : e ≠ .streamEnd := by
  unfold blockHeaderDecodeWith at h
  simp only [] at h
  repeat' split at h
  all_goals first
    | (simp only [Except.error.injEq] at h; subst h
       first
        | (intro hc; exact Ret.noConfusion hc)
        | (rename_i hq; exact headerDecodeFilters_error_ne _ _ _ hq)
        | (rename_i hq; rw [decOptVli_error _ _ _ hq]; intro hc; exact Ret.noConfusion hc))
    | simp at h


theorem indexHashAppend_ok (blocks : HashInfo) (u c : Nat) (blocks' : HashInfo)
    (h : indexHashAppend blocks u c = .ok blocks') :
    blocks' = blocks ++ [⟨u, c⟩] ∧ UNPADDED_SIZE_MIN ≤ u ∧ u ≤ UNPADDED_SIZE_MAX ∧ c ≤ VLI_MAX := by
  unfold indexHashAppend at h
  split at h
  · simp at h
  · rename_i h1
    simp only [] at h
    split at h
    · simp at h
    · simp only [Except.ok.injEq] at h
      refine ⟨h.symm, ?_, ?_, ?_⟩ <;> omega

theorem indexHashAppend_error_ne (blocks : HashInfo) (u c : Nat) (e : Ret)
    (h : indexHashAppend blocks u c = .error e) : e ≠ .streamEnd := by
  unfold indexHashAppend at h
  split at h
  · simp only [Except.error.injEq] at h; rw [← h]; simp
  · simp only [] at h
    split at h
    · simp only [Except.error.injEq] at h; rw [← h]; simp
    · simp at h

theorem streamFlagsCompare_ok (a b : StreamFlags) (bs : Nat) (h : streamFlagsCompare a none b (some bs) = .ok) :
    a.check = b.check := by
  unfold streamFlagsCompare at h
  by_cases h1 : a.version ≠ 0 ∨ b.version ≠ 0
  · rw [if_pos h1] at h; simp at h
  rw [if_neg h1] at h
  by_cases h2 : a.check > CHECK_ID_MAX ∨ b.check > CHECK_ID_MAX
  · rw [if_pos h2] at h; simp at h
  rw [if_neg h2] at h
  by_cases h3 : a.check ≠ b.check
  · rw [if_pos h3] at h; simp at h
  exact Decidable.of_not_not h3

/-- What SEQ_INDEX + SEQ_STREAM_FOOTER certify. -/
structure FooterFacts (hdr : StreamFlags) (blocks : HashInfo) (inp : List UInt8) (s : SRes) : Prop where
  /-- the Index field is the canonical encoding of the decoded Blocks (so: Records = Blocks, padding zero, CRC32 right) -/
  index_bytes : inp.take (indexHashSize blocks) = indexEncode blocks
  index_len : (indexEncode blocks).length = indexHashSize blocks
  /-- the footer decodes (magic, CRC32, reserved bits), Backward Size = real Index size, footer flags = header flags -/
  footer : ∃ ftr : StreamFlags, streamFooterDecode ((inp.drop (indexHashSize blocks)).take STREAM_HEADER_SIZE)
      = .ok (ftr, indexHashSize blocks) ∧ ftr.check = hdr.check
  consumed_eq : s.consumed = indexHashSize blocks + STREAM_HEADER_SIZE
  consumed_le : s.consumed ≤ inp.length
  out_nil : s.out = []

theorem indexAndFooter_streamEnd (hdr : StreamFlags) (blocks : HashInfo) (inp : List UInt8) (s : SRes)
    (hdef : indexAndFooter hdr blocks inp = s) (hs : s.ret = .streamEnd) : FooterFacts hdr blocks inp s := by
  unfold indexAndFooter at hdef
  simp only [] at hdef
  generalize hi : indexHashDecode blocks inp = i at hdef
  obtain ⟨iret, ic⟩ := i
  simp only [] at hdef
  by_cases hir : iret ≠ .streamEnd
  · rw [if_pos hir] at hdef; subst hdef; exact absurd hs hir
  rw [if_neg hir] at hdef
  have hir' : iret = .streamEnd := Decidable.of_not_not hir
  subst hir'
  obtain ⟨hbytes, hic, hle⟩ := indexHashDecode_streamEnd blocks inp ic hi
  by_cases hlen : (List.drop ic inp).length < STREAM_HEADER_SIZE
  · rw [if_pos hlen] at hdef; subst hdef; simp at hs
  rw [if_neg hlen] at hdef
  cases hf : streamFooterDecode (List.take STREAM_HEADER_SIZE (List.drop ic inp)) with
  | error e =>
    rw [hf] at hdef
    simp only [] at hdef
    subst hdef
    simp only [] at hs
    split at hs
    · simp at hs
    · exact absurd hs (streamFooterDecode_error_ne _ _ hf)
  | ok p =>
    obtain ⟨ftr, bs⟩ := p
    rw [hf] at hdef
    simp only [] at hdef
    by_cases hbs : indexHashSize blocks ≠ bs
    · rw [if_pos hbs] at hdef; subst hdef; simp at hs
    rw [if_neg hbs] at hdef
    have hbs' : indexHashSize blocks = bs := Decidable.of_not_not hbs
    by_cases hc : streamFlagsCompare hdr none ftr (some bs) ≠ .ok
    · rw [if_pos hc] at hdef; subst hdef; simp only [] at hs
      -- the comparison never answers LZMA_STREAM_END
      unfold streamFlagsCompare at hs
      repeat' split at hs
      all_goals simp at hs
    rw [if_neg hc] at hdef
    have hc' := streamFlagsCompare_ok hdr ftr bs (Decidable.of_not_not hc)
    subst hdef
    rw [List.length_drop] at hlen
    refine ⟨by rw [← hic]; exact hbytes, ?_, ⟨ftr, by rw [← hic, hf, ← hbs', hic], hc'.symm⟩, by simp [hic], ?_, rfl⟩
    · rw [← hbytes, List.length_take, ← hic]; omega
    · simp only []; omega


theorem blockUnpaddedSize_some (hs check c u : Nat) (h : blockUnpaddedSize 1 hs check (some c) = u) (hu : u ≠ 0) :
    u = c + hs + checkSize check := by
  unfold blockUnpaddedSize at h
  split at h
  · exact absurd h.symm hu
  · simp only [] at h
    split at h
    · exact absurd h.symm hu
    · exact h.symm

/-- The Blocks of one Stream as the decoder walks them: `BlocksRun E fl hdr blocks inp cap out c final` says that
    starting at `inp` with the size pairs `blocks` already collected, a sequence of valid Blocks produces `out`,
    occupies `c` bytes and leaves the size pairs `final`. -/
inductive BlocksRun (E : Env) (fl : Flags) (hdr : StreamFlags) :
    HashInfo → List UInt8 → Nat → List UInt8 → Nat → HashInfo → Prop
  | done (blocks : HashInfo) (inp : List UInt8) (cap : Nat) : BlocksRun E fl hdr blocks inp cap [] 0 blocks
  | block (blocks : HashInfo) (inp : List UInt8) (cap : Nat) (b0 : UInt8) (tl : List UInt8) (h : BlockHeader) (b : BRes)
      (out' : List UInt8) (c' : Nat) (final : HashInfo) :
      inp = b0 :: tl → b0.toNat ≠ 0 →
      (b0.toNat + 1) * 4 ≤ inp.length →
      blockHeaderDecodeWith ((b0.toNat + 1) * 4) hdr.check (inp.take ((b0.toNat + 1) * 4)) = .ok h →
      (∃ n, validateChain (h.filters.map (·.id)) = .ok n) →
      blockDecode E hdr.check fl.ignoreCheck ((b0.toNat + 1) * 4) h (inp.drop ((b0.toNat + 1) * 4)) cap = b →
      b.ret = .streamEnd →
      BlockFacts E hdr.check fl.ignoreCheck ((b0.toNat + 1) * 4) h (inp.drop ((b0.toNat + 1) * 4)) cap b →
      BlocksRun E fl hdr (blocks ++ [⟨b.compressed + (b0.toNat + 1) * 4 + checkSize hdr.check, b.out.length⟩])
        (inp.drop ((b0.toNat + 1) * 4 + b.consumed)) (cap - b.out.length) out' c' final →
      BlocksRun E fl hdr blocks inp cap (b.out ++ out') ((b0.toNat + 1) * 4 + b.consumed + c') final

theorem blocksLoop_streamEnd (E : Env) (fl : Flags) (hdr : StreamFlags) :
    ∀ (fuel : Nat) (blocks : HashInfo) (inp : List UInt8) (cap : Nat) (r : SRes),
      blocksLoop E fl hdr fuel blocks inp cap = r → r.ret = .streamEnd →
      ∃ (out : List UInt8) (c : Nat) (final : HashInfo) (s2 : SRes),
        BlocksRun E fl hdr blocks inp cap out c final ∧ indexAndFooter hdr final (inp.drop c) = s2 ∧
        s2.ret = .streamEnd ∧ r.out = out ∧ r.consumed = c + s2.consumed := by
  intro fuel
  induction fuel with
  | zero =>
    intro blocks inp cap r hdef hr
    simp only [blocksLoop] at hdef
    subst hdef; simp at hr
  | succ fuel ih =>
    intro blocks inp cap r hdef hr
    simp only [blocksLoop] at hdef
    cases inp with
    | nil => simp only [] at hdef; subst hdef; simp at hr
    | cons b0 tl =>
      simp only [] at hdef
      by_cases h0 : b0.toNat = INDEX_INDICATOR
      · rw [if_pos h0] at hdef
        refine ⟨[], 0, blocks, r, BlocksRun.done _ _ _, by simpa using hdef, hr, ?_, by simp⟩
        have := (indexAndFooter_streamEnd hdr blocks (b0 :: tl) r hdef hr).out_nil
        exact this
      rw [if_neg h0] at hdef
      have h0' : b0.toNat ≠ 0 := by simpa [INDEX_INDICATOR] using h0
      by_cases hlen : (b0 :: tl).length < (b0.toNat + 1) * 4
      · rw [if_pos hlen] at hdef; subst hdef; simp at hr
      rw [if_neg hlen] at hdef
      cases hh : blockHeaderDecodeWith ((b0.toNat + 1) * 4) hdr.check (List.take ((b0.toNat + 1) * 4) (b0 :: tl)) with
      | error e =>
        rw [hh] at hdef; simp only [] at hdef; subst hdef
        exact absurd hr (blockHeaderDecodeWith_error_ne _ _ _ _ hh)
      | ok h =>
        rw [hh] at hdef; simp only [] at hdef
        cases hv : validateChain (List.map (fun x => x.id) h.filters) with
        | error e => rw [hv] at hdef; simp only [] at hdef; subst hdef; simp at hr
        | ok n =>
          rw [hv] at hdef; simp only [] at hdef
          generalize hbd : blockDecode E hdr.check fl.ignoreCheck ((b0.toNat + 1) * 4) h
              (List.drop ((b0.toNat + 1) * 4) (b0 :: tl)) cap = b at hdef
          by_cases hbr : b.ret ≠ .streamEnd
          · rw [if_pos hbr] at hdef; subst hdef; exact absurd hr hbr
          rw [if_neg hbr] at hdef
          have hbr' : b.ret = .streamEnd := Decidable.of_not_not hbr
          cases ha : indexHashAppend blocks (blockUnpaddedSize 1 ((b0.toNat + 1) * 4) hdr.check (some b.compressed)) b.out.length with
          | error e =>
            rw [ha] at hdef; simp only [] at hdef; subst hdef
            exact absurd hr (indexHashAppend_error_ne _ _ _ _ ha)
          | ok blocks' =>
            rw [ha] at hdef; simp only [] at hdef
            obtain ⟨hb', hmin, _, _⟩ := indexHashAppend_ok _ _ _ _ ha
            have hu := blockUnpaddedSize_some _ _ _ _ rfl (by unfold UNPADDED_SIZE_MIN at hmin; omega :
              blockUnpaddedSize 1 ((b0.toNat + 1) * 4) hdr.check (some b.compressed) ≠ 0)
            rw [hu] at hb'
            subst hb'
            generalize hrec : blocksLoop E fl hdr fuel _ _ _ = r' at hdef
            subst hdef
            simp only [] at hr
            obtain ⟨out', c', final, s2, hrun, hif, hs2, ho, hc⟩ := ih _ _ _ r' hrec hr
            refine ⟨b.out ++ out', (b0.toNat + 1) * 4 + b.consumed + c', final, s2, ?_, ?_, hs2, by simp [ho], by simp only []; omega⟩
            · exact BlocksRun.block blocks (b0 :: tl) cap b0 tl h b out' c' final rfl h0' (by omega) hh ⟨n, hv⟩ hbd hbr'
                (blockDecode_streamEnd _ _ _ _ _ _ _ _ hbd hbr') hrun
            · rw [← hif, List.drop_drop]


/-- One complete, verified .xz Stream at the front of `inp`: `out` is what it decodes to, `len` its length in bytes. -/
def ValidStream (E : Env) (fl : Flags) (inp : List UInt8) (cap : Nat) (out : List UInt8) (len : Nat) : Prop :=
  ∃ (hdr : StreamFlags) (c : Nat) (final : HashInfo) (s2 : SRes),
    STREAM_HEADER_SIZE ≤ inp.length ∧
    streamHeaderDecode (inp.take STREAM_HEADER_SIZE) = .ok hdr ∧
    BlocksRun E fl hdr [] (inp.drop STREAM_HEADER_SIZE) cap out c final ∧
    FooterFacts hdr final (inp.drop (STREAM_HEADER_SIZE + c)) s2 ∧
    len = STREAM_HEADER_SIZE + c + s2.consumed ∧ len ≤ inp.length

theorem streamOne_streamEnd (E : Env) (fl : Flags) (first : Bool) (inp : List UInt8) (cap : Nat) (s : DRes)
    (hdef : streamOne E fl first inp cap = s) (hs : s.ret = .streamEnd) :
    ValidStream E fl inp cap s.out s.consumed := by
  unfold streamOne at hdef
  by_cases hlen : inp.length < STREAM_HEADER_SIZE
  · rw [if_pos hlen] at hdef; subst hdef; simp at hs
  rw [if_neg hlen] at hdef
  cases hh : streamHeaderDecode (List.take STREAM_HEADER_SIZE inp) with
  | error e =>
    rw [hh] at hdef; simp only [] at hdef; subst hdef
    simp only [] at hs
    split at hs
    · simp at hs
    · exact absurd hs (streamHeaderDecode_error_ne _ _ hh)
  | ok hdr =>
    rw [hh] at hdef; simp only [] at hdef
    generalize hb : blocksLoop E fl hdr (inp.length + 1) [] (List.drop STREAM_HEADER_SIZE inp) cap = r at hdef
    subst hdef
    simp only [] at hs ⊢
    obtain ⟨out, c, final, s2, hrun, hif, hs2, ho, hc⟩ := blocksLoop_streamEnd E fl hdr _ _ _ _ r hb hs
    have hf := indexAndFooter_streamEnd hdr final _ s2 hif hs2
    rw [List.drop_drop] at hf
    refine ⟨hdr, c, final, s2, by omega, hh, by rw [ho]; exact hrun, hf, by omega, ?_⟩
    have h1 := hf.consumed_le
    rw [List.length_drop] at h1
    -- the Blocks and the Index/footer lie inside the input
    by_cases hcl : STREAM_HEADER_SIZE + c ≤ inp.length
    · omega
    · have h2 := hf.consumed_eq
      unfold STREAM_HEADER_SIZE at h1 h2 hcl ⊢
      omega

theorem streamPadding_facts (l : List UInt8) : ∀ (pos n : Nat),
    (∀ n', streamPadding l pos n = .inl (.streamEnd, n') → n ≤ n' ∧ l = List.replicate (n' - n) 0 ∧ (pos + (n' - n)) % 4 = 0) ∧
    (∀ n', streamPadding l pos n = .inr n' → pos < 4 → n ≤ n' ∧ (pos + (n' - n)) % 4 = 0 ∧
        ∃ b rest, b ≠ 0 ∧ l = List.replicate (n' - n) 0 ++ b :: rest) := by
  induction l with
  | nil =>
    intro pos n
    constructor
    · intro n' h
      simp only [streamPadding] at h
      split at h
      · rename_i hp
        simp only [Sum.inl.injEq, Prod.mk.injEq, true_and] at h
        subst h; simp [hp]
      · simp at h
    · intro n' h; simp [streamPadding] at h
  | cons b t ih =>
    intro pos n
    constructor
    · intro n' h
      simp only [streamPadding] at h
      split at h
      · rename_i hb
        obtain ⟨h1, h2, h3⟩ := (ih ((pos + 1) % 4) (n + 1)).1 n' h
        refine ⟨by omega, ?_, by omega⟩
        rw [show n' - n = (n' - (n + 1)) + 1 by omega, List.replicate_succ, hb, ← h2]
      · split at h <;> simp at h
    · intro n' h hpos
      simp only [streamPadding] at h
      split at h
      · rename_i hb
        obtain ⟨h1, h3, b', rest, hb', hl⟩ := (ih ((pos + 1) % 4) (n + 1)).2 n' h (Nat.mod_lt _ (by decide))
        refine ⟨by omega, by omega, b', rest, hb', ?_⟩
        rw [show n' - n = (n' - (n + 1)) + 1 by omega, List.replicate_succ, hb, List.cons_append, ← hl]
      · rename_i hb
        split at h
        · simp at h
        · rename_i hp
          simp only [Sum.inr.injEq] at h
          subst h
          have hp0 : pos = 0 := Decidable.of_not_not hp
          exact ⟨Nat.le_refl _, by simp [hp0], b, t, hb, by simp⟩


/-- The declarative grammar of what the decoder accepts: `ValidXz E fl inp cap out n` = the first `n` bytes of `inp` are
    one valid Stream (without LZMA_CONCATENATED; anything after it is not looked at), or (with LZMA_CONCATENATED) all of
    `inp` is a sequence of valid Streams separated and followed by Stream Padding in multiples of four zero bytes;
    `out` is the concatenation of what the Streams decode to. -/
inductive ValidXz (E : Env) (fl : Flags) : List UInt8 → Nat → List UInt8 → Nat → Prop
  | single (inp : List UInt8) (cap : Nat) (out : List UInt8) (len : Nat) :
      fl.concatenated = false → ValidStream E fl inp cap out len → ValidXz E fl inp cap out len
  | last (inp : List UInt8) (cap : Nat) (out : List UInt8) (len k : Nat) :
      fl.concatenated = true → ValidStream E fl inp cap out len →
      inp.drop len = List.replicate (4 * k) 0 → ValidXz E fl inp cap out (len + 4 * k)
  | more (inp : List UInt8) (cap : Nat) (out : List UInt8) (len k : Nat) (b : UInt8) (rest out2 : List UInt8) (c2 : Nat) :
      fl.concatenated = true → ValidStream E fl inp cap out len →
      inp.drop len = List.replicate (4 * k) 0 ++ b :: rest → b ≠ 0 →
      ValidXz E fl (b :: rest) (cap - out.length) out2 c2 →
      ValidXz E fl inp cap (out ++ out2) (len + 4 * k + c2)

theorem xzLoop_streamEnd (E : Env) (fl : Flags) :
    ∀ (fuel : Nat) (first : Bool) (inp : List UInt8) (cap : Nat) (r : DRes),
      xzLoop E fl fuel first inp cap = r → r.ret = .streamEnd → ValidXz E fl inp cap r.out r.consumed := by
  intro fuel
  induction fuel with
  | zero =>
    intro first inp cap r hdef hr
    simp only [xzLoop] at hdef; subst hdef; simp at hr
  | succ fuel ih =>
    intro first inp cap r hdef hr
    simp only [xzLoop] at hdef
    generalize hs : streamOne E fl first inp cap = s at hdef
    by_cases hsr : s.ret ≠ .streamEnd
    · rw [if_pos hsr] at hdef; subst hdef; exact absurd hr hsr
    rw [if_neg hsr] at hdef
    have hsr' : s.ret = .streamEnd := Decidable.of_not_not hsr
    have hv := streamOne_streamEnd E fl first inp cap s hs hsr'
    by_cases hc : (!fl.concatenated) = true
    · rw [if_pos hc] at hdef; subst hdef
      exact ValidXz.single _ _ _ _ (by simpa using hc) hv
    rw [if_neg hc] at hdef
    have hc' : fl.concatenated = true := by simpa using hc
    cases hp : streamPadding (List.drop s.consumed inp) 0 0 with
    | inl p =>
      obtain ⟨pr, n⟩ := p
      rw [hp] at hdef; simp only [] at hdef; subst hdef
      simp only [] at hr ⊢
      subst hr
      obtain ⟨_, hl, hm⟩ := (streamPadding_facts _ 0 0).1 n hp
      simp only [Nat.sub_zero, Nat.zero_add] at hl hm
      have hn : n = 4 * (n / 4) := by omega
      rw [hn]
      exact ValidXz.last _ _ _ _ _ hc' hv (by rw [← hn]; exact hl)
    | inr n =>
      rw [hp] at hdef; simp only [] at hdef
      obtain ⟨_, hm, b, rest, hb, hl⟩ := (streamPadding_facts _ 0 0).2 n hp (by decide)
      simp only [Nat.sub_zero, Nat.zero_add] at hl hm
      have hn : n = 4 * (n / 4) := by omega
      generalize hrec : xzLoop E fl fuel false (List.drop (s.consumed + n) inp) (cap - s.out.length) = r2 at hdef
      subst hdef
      simp only [prepend] at hr ⊢
      have hv2 := ih _ _ _ r2 hrec hr
      have hd : List.drop (s.consumed + n) inp = b :: rest := by
        have := drop_add_of_drop inp s.consumed _ _ hl
        rwa [List.length_replicate] at this
      rw [hd] at hv2
      rw [hn] at hl ⊢
      exact ValidXz.more _ _ _ _ _ b rest _ _ hc' hv hl hb hv2

/-! ## informational returns -/

def Informational (e : Ret) : Prop := e = .noCheck ∨ e = .unsupportedCheck ∨ e = .getCheck

theorem headerEvents_informational (E : Env) (fl : Flags) (c : Nat) : ∀ e ∈ headerEvents E fl c, Informational e := by
  intro e he
  unfold headerEvents at he
  repeat' split at he
  all_goals simp at he
  all_goals (subst he; simp [Informational])

theorem streamOne_events (E : Env) (fl : Flags) (first : Bool) (inp : List UInt8) (cap : Nat) :
    ∀ e ∈ (streamOne E fl first inp cap).events, Informational e := by
  intro e he
  unfold streamOne at he
  repeat' split at he
  all_goals first | (simp at he; done) | exact headerEvents_informational _ _ _ e he

theorem xzLoop_events (E : Env) (fl : Flags) : ∀ (fuel : Nat) (first : Bool) (inp : List UInt8) (cap : Nat),
    ∀ e ∈ (xzLoop E fl fuel first inp cap).events, Informational e := by
  intro fuel
  induction fuel with
  | zero => intro first inp cap e he; simp [xzLoop] at he
  | succ fuel ih =>
    intro first inp cap e he
    simp only [xzLoop] at he
    split at he
    · exact streamOne_events _ _ _ _ _ e he
    · split at he
      · exact streamOne_events _ _ _ _ _ e he
      · split at he
        · exact streamOne_events _ _ _ _ _ e he
        · simp only [prepend, List.mem_append] at he
          rcases he with he | he
          · exact streamOne_events _ _ _ _ _ e he
          · exact ih _ _ _ e he

/-! ## the first Stream decides -/

theorem xzLoop_of_not_streamEnd (E : Env) (fl : Flags) (fuel : Nat) (first : Bool) (inp : List UInt8) (cap : Nat)
    (h : (streamOne E fl first inp cap).ret ≠ .streamEnd) :
    xzLoop E fl (fuel + 1) first inp cap = streamOne E fl first inp cap := by
  simp only [xzLoop]
  rw [if_pos h]

theorem xzDecode_ne_of_streamOne (E : Env) (fl : Flags) (x : List UInt8) (cap : Nat)
    (h : (streamOne E fl true x cap).ret ≠ .streamEnd) : (xzDecode E fl x cap).ret ≠ .streamEnd := by
  have hcall : xzCall E fl x cap = streamOne E fl true x cap := by
    unfold xzCall; exact xzLoop_of_not_streamEnd E fl _ true x cap h
  unfold xzDecode
  simp only [hcall]
  split
  · simp
  · exact h

theorem xzCall_single (E : Env) (fl : Flags) (hnc : fl.concatenated = false) (x : List UInt8) (cap : Nat) :
    xzCall E fl x cap = streamOne E fl true x cap := by
  unfold xzCall
  simp only [xzLoop, hnc]
  split <;> rfl

theorem xzDecode_single (E : Env) (fl : Flags) (hnc : fl.concatenated = false) (x : List UInt8) (cap : Nat)
    (h : (xzDecode E fl x cap).ret = .streamEnd) : xzDecode E fl x cap = streamOne E fl true x cap := by
  unfold xzDecode at h ⊢
  simp only [xzCall_single E fl hnc] at h ⊢
  split
  · rename_i hok
    rw [if_pos hok] at h
    simp at h
  · rfl

end XzVerif.XzDecode
