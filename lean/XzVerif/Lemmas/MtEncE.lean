/-
  C08 helper lemmas, part E: the ghost-data invariant: the input consumed so far is the concatenation of the Blocks in
  hand-off order, the Index lists exactly the delivered Blocks, ordinals are consecutive, and the bytes written so far are
  Stream Header ++ encoded delivered Blocks ++ the part of the head buffer / Index+Footer already copied.
-/
import XzVerif.Lemmas.MtEncD

namespace XzVerif.MtEnc

def encs (P : Params) (bs : List Blk) : Bytes := (bs.map (Blk.enc P)).flatten
def datas (bs : List Blk) : Bytes := (bs.map (·.data)).flatten

def headPart (P : Params) (s : St) : Bytes :=
  match blks s.outq with
  | [] => []
  | b :: _ => (b.enc P).take s.readPos

structure InvC (P : Params) (s : St) : Prop where
  cons : s.consumed = datas s.done ++ datas (blks s.outq)
  idx : s.index = s.done.map (Blk.record P)
  ordD : s.done.map (·.ord) = List.range s.done.length
  ordQ : (blks s.outq).map (·.ord) = List.range' s.done.length s.outq.length
  nb : s.nblk = s.done.length + s.outq.length
  rpFin : s.readPos ≠ 0 → ∃ e rest, s.outq = e :: rest ∧ e.finished = true
  outH : s.seq = .header → s.out = P.hdr.take s.hdrPos ∧ s.hdrPos ≤ P.hdr.length
  outB : s.seq = .block → s.out = P.hdr ++ encs P s.done ++ headPart P s
  outI : s.seq = .index → s.out = P.hdr ++ encs P s.done ++ (P.tailBytes s.index).take s.tailPos
  outE : s.seq = .ended → s.out = P.hdr ++ encs P s.done ++ P.tailBytes s.index

theorem datas_append (a b : List Blk) : datas (a ++ b) = datas a ++ datas b := by simp [datas]
theorem encs_append (P : Params) (a b : List Blk) : encs P (a ++ b) = encs P a ++ encs P b := by simp [encs]

/-- Frame: nothing InvC looks at changes, except that the head of the queue may become finished. -/
theorem InvC_frame {P : Params} {s t : St} (h : InvC P s) (hb : blks t.outq = blks s.outq) (hl : t.outq.length = s.outq.length)
    (hd : t.done = s.done) (hc : t.consumed = s.consumed) (hi : t.index = s.index) (hn : t.nblk = s.nblk) (hr : t.readPos = s.readPos)
    (hq : t.seq = s.seq) (hh : t.hdrPos = s.hdrPos) (ht : t.tailPos = s.tailPos) (ho : t.out = s.out)
    (hf : ∀ e rest, s.outq = e :: rest → e.finished = true → ∃ e' rest', t.outq = e' :: rest' ∧ e'.finished = true) : InvC P t := by
  have hp : headPart P t = headPart P s := by unfold headPart; rw [hb, hr]
  refine ⟨by rw [hc, hd, hb]; exact h.cons, by rw [hi, hd]; exact h.idx, by rw [hd]; exact h.ordD, by rw [hb, hd, hl]; exact h.ordQ,
    by rw [hn, hd, hl]; exact h.nb, ?_, by rw [hq, ho, hh]; exact h.outH, by rw [hq, ho, hd, hp]; exact h.outB,
    by rw [hq, ho, hd, hi, ht]; exact h.outI, by rw [hq, ho, hd, hi]; exact h.outE⟩
  rw [hr]; intro a
  obtain ⟨e, rest, h1, h2⟩ := h.rpFin a
  exact hf e rest h1 h2

theorem InvC_wframe {P : Params} {s s' : St} (h : InvC P s) (f : WFrame s s') : InvC P s' :=
  InvC_frame h f.blks f.len f.done f.consumed f.index f.nblk f.readPos f.seq f.hdrPos f.tailPos f.out f.headFin

theorem InvC_ret {P : Params} {s : St} (r : Ret) (h : InvC P s) : InvC P (ret s r) := by
  refine InvC_frame h (ret_blks s r) (ret_len s r) ?_ ?_ ?_ ?_ ?_ ?_ ?_ ?_ ?_ (ret_headFin s r) <;> (unfold ret; split <;> rfl)

theorem headPart_nil {P : Params} {t : St} (h : t.outq = []) : headPart P t = [] := by
  simp [headPart, h, blks]

theorem take_add_drop {α : Type} (l : List α) (a n : Nat) : l.take a ++ (l.drop a).take n = l.take (a + n) := by
  rw [List.take_add]

theorem InvC_mCall {P : Params} {s s' : St} {inp : Bytes} {cap : Nat} {act : Action} (h : InvC P s) (hs : mCall s inp cap act = some s') : InvC P s' := by
  unfold mCall at hs
  split at hs
  · cases hs; exact InvC_frame h rfl rfl rfl rfl rfl rfl rfl rfl rfl rfl rfl (fun e rest a b => ⟨e, rest, a, b⟩)
  · cases hs

theorem InvC_mHdr {P : Params} {s s' : St} (h : InvC P s) (hB : InvB s) (hs : mHdr P s = some s') : InvC P s' := by
  unfold mHdr at hs
  split at hs
  · rename_i hg
    have hq := hB.pcHdr hg
    have hh := hB.seqHdr hq
    have ho := h.outH hq
    dsimp only at hs
    have hout : s.out ++ List.take (min s.cap (P.hdr.length - s.hdrPos)) (List.drop s.hdrPos P.hdr)
        = P.hdr.take (s.hdrPos + min s.cap (P.hdr.length - s.hdrPos)) := by rw [ho.1, take_add_drop]
    split at hs <;> cases hs
    · refine InvC_ret _ ?_
      refine ⟨h.cons, h.idx, h.ordD, h.ordQ, h.nb, h.rpFin, fun _ => ⟨hout, by dsimp only; omega⟩, ?_, ?_, ?_⟩ <;>
        (intro a; rw [hq] at a; cases a)
    · rename_i hge
      refine ⟨h.cons, h.idx, h.ordD, h.ordQ, h.nb, h.rpFin, (by intro a; cases a), ?_, (by intro a; cases a), (by intro a; cases a)⟩
      intro _
      dsimp only
      rw [hout, hh.2.2.1]
      simp only [headPart, blks, hh.1, encs, List.map_nil, List.flatten_nil, List.append_nil]
      apply List.take_of_length_le
      omega
  · cases hs


theorem headPart_zero {P : Params} {t : St} (h : t.readPos = 0) : headPart P t = [] := by
  unfold headPart; split <;> simp [h]

theorem InvC_mRead {P : Params} {s s' : St} (h : InvC P s) (hB : InvB s) (hs : mRead P s = some s') : InvC P s' := by
  unfold mRead at hs
  split at hs
  · rename_i hg
    have hq := hB.pcBlock (Or.inl hg)
    have idf : ∀ e rest, s.outq = e :: rest → e.finished = true → ∃ e' rest', s.outq = e' :: rest' ∧ e'.finished = true :=
      fun e rest a b => ⟨e, rest, a, b⟩
    split at hs
    · cases hs; exact InvC_ret _ h
    · split at hs
      · cases hs; exact InvC_frame h rfl rfl rfl rfl rfl rfl rfl rfl rfl rfl rfl idf
      · rename_i e rest hcons
        split at hs
        · cases hs; exact InvC_frame h rfl rfl rfl rfl rfl rfl rfl rfl rfl rfl rfl idf
        · rename_i hfin
          have hfin' : e.finished = true := by simpa using hfin
          have hob := h.outB hq
          have hp2 : ∀ t : St, t.outq = s.outq → headPart P t = (e.enc P).take t.readPos := by
            intro t ht; simp [headPart, ht, hcons, blks, Entry.enc]
          have hhp : headPart P s = (e.enc P).take s.readPos := hp2 s rfl
          dsimp only at hs
          split at hs
          · cases hs
            refine ⟨h.cons, h.idx, h.ordD, h.ordQ, h.nb, fun _ => ⟨e, rest, hcons, hfin'⟩, ?_, ?_, ?_, ?_⟩
            · intro a; rw [hq] at a; cases a
            · intro _
              dsimp only
              rw [hp2, hob, hhp, List.append_assoc, List.append_assoc, take_add_drop, ← List.append_assoc]
              rfl
            · intro a; rw [hq] at a; cases a
            · intro a; rw [hq] at a; cases a
          · rename_i hge
            cases hs
            have hoq := h.ordQ
            rw [hcons] at hoq
            simp only [blks, List.map_cons, List.length_cons, List.range'_succ] at hoq
            have hord : e.blk.ord = s.done.length := by injection hoq
            have hrest : (blks rest).map (·.ord) = List.range' (s.done.length + 1) rest.length := by
              simp only [blks]; injection hoq
            refine ⟨?_, ?_, ?_, ?_, ?_, (by intro a; exact absurd rfl a), ?_, ?_, ?_, ?_⟩
            · dsimp only; rw [h.cons, hcons, datas_append]; simp [blks, datas]
            · dsimp only; rw [h.idx]; simp
            · dsimp only; rw [List.map_append, h.ordD]; simp [List.range_succ, hord]
            · dsimp only; rw [List.length_append]; exact hrest
            · dsimp only; rw [h.nb, hcons]; simp; omega
            · intro a; rw [hq] at a; cases a
            · intro _
              dsimp only
              rw [headPart_zero rfl, hob, hhp, encs_append, List.append_nil, List.append_assoc, List.append_assoc, take_add_drop]
              have : (e.enc P).take (s.readPos + min s.cap ((e.enc P).length - s.readPos)) = e.enc P := by
                apply List.take_of_length_le; omega
              rw [this]; simp [encs, Entry.enc]
            · intro a; rw [hq] at a; cases a
            · intro a; rw [hq] at a; cases a
  · cases hs


theorem blks_append (q : List Entry) (e : Entry) : blks (q ++ [e]) = blks q ++ [e.blk] := by simp [blks]

theorem headPart_congr {P : Params} {s t : St} (hr : t.readPos = s.readPos)
    (hh : s.readPos ≠ 0 → ∃ b r1 r2, blks s.outq = b :: r1 ∧ blks t.outq = b :: r2) : headPart P t = headPart P s := by
  by_cases hz : s.readPos = 0
  · rw [headPart_zero hz, headPart_zero (hr.trans hz)]
  · obtain ⟨b, r1, r2, h1, h2⟩ := hh hz
    simp [headPart, h1, h2, hr]

theorem InvC_mEncIn {P : Params} {s s' : St} (h : InvC P s) (hA : InvA P s) (hB : InvB s) (hs : mEncIn s = some s') : InvC P s' := by
  unfold mEncIn at hs
  split at hs
  · rename_i hg
    have hq := hB.pcBlock (Or.inr (Or.inl hg))
    have idf : ∀ e rest, s.outq = e :: rest → e.finished = true → ∃ e' rest', s.outq = e' :: rest' ∧ e'.finished = true :=
      fun e rest a b => ⟨e, rest, a, b⟩
    split at hs; · cases hs; exact InvC_frame h rfl rfl rfl rfl rfl rfl rfl rfl rfl rfl rfl idf
    split at hs
    · split at hs; · cases hs; exact InvC_frame h rfl rfl rfl rfl rfl rfl rfl rfl rfl rfl rfl idf
      have newE : ∀ (t : St) (ne : Entry), ne.ord = s.nblk → ne.data = [] → t.outq = s.outq ++ [ne] → t.nblk = s.nblk + 1 →
          t.done = s.done → t.consumed = s.consumed → t.index = s.index → t.readPos = s.readPos → t.seq = s.seq →
          t.hdrPos = s.hdrPos → t.tailPos = s.tailPos → t.out = s.out → InvC P t := by
        intro t ne h1 h2 h3 h4 h5 h6 h7 h8 h9 h10 h11 h12
        have hhp : headPart P t = headPart P s := by
          refine headPart_congr h8 ?_
          intro hz
          obtain ⟨e, rest, he, _⟩ := h.rpFin hz
          exact ⟨e.blk, blks rest, blks (rest ++ [ne]), by rw [he]; rfl, by rw [h3, he]; rfl⟩
        refine ⟨?_, by rw [h7, h5]; exact h.idx, by rw [h5]; exact h.ordD, ?_, ?_, ?_, by rw [h9, h12, h10]; exact h.outH,
          by rw [h9, h12, h5, hhp]; exact h.outB, by rw [h9, h12, h5, h7, h11]; exact h.outI, by rw [h9, h12, h5, h7]; exact h.outE⟩
        · rw [h6, h5, h3, blks_append, datas_append, h.cons]; simp [datas, Entry.blk, h2]
        · rw [h3, blks_append, List.map_append, h.ordQ, h5, List.length_append]
          simp only [List.map_cons, List.map_nil, List.length_cons, List.length_nil, Entry.blk, h1, h.nb]
          rw [List.range'_concat]; simp
        · rw [h4, h5, h3, h.nb]; simp; omega
        · rw [h8]; intro a
          obtain ⟨e, rest, he, hf⟩ := h.rpFin a
          exact ⟨e, rest ++ [ne], by rw [h3, he]; rfl, hf⟩
      split at hs
      · cases hs; exact newE _ _ rfl rfl rfl rfl rfl rfl rfl rfl rfl rfl rfl rfl
      · split at hs
        · cases hs; exact newE _ _ rfl rfl rfl rfl rfl rfl rfl rfl rfl rfl rfl rfl
        · cases hs; exact InvC_frame h rfl rfl rfl rfl rfl rfl rfl rfl rfl rfl rfl idf
    · rename_i hnt
      have hthr : s.thr = true := by simpa using hnt
      split at hs; · cases hs
      rename_i e hl
      have hqe := eq_dropLast_append hl
      have hopen := InvB_hopen hB hthr e hl
      dsimp only at hs
      have s0C : ∀ t : St, t.outq = s.outq → t.done = s.done → t.consumed = s.consumed → t.index = s.index → t.nblk = s.nblk →
          t.readPos = s.readPos → t.seq = s.seq → t.hdrPos = s.hdrPos → t.tailPos = s.tailPos → t.out = s.out → InvC P t := by
        intro t a b c d e f g h1 h2 h3
        exact InvC_frame h (by rw [a]) (by rw [a]) b c d e f g h1 h2 h3 (by rw [a]; exact idf)
      split at hs
      · cases hs; exact InvC_ret _ (s0C _ rfl rfl rfl rfl rfl rfl rfl rfl rfl rfl)
      · split at hs
        · cases hs; exact InvC_ret _ (s0C _ rfl rfl rfl rfl rfl rfl rfl rfl rfl rfl)
        · cases hs
          rename_i w hw hnidle
          -- the head of the queue is unchanged whenever something has been read from it
          have headSame : s.readPos ≠ 0 → ∃ h0 rest, s.outq = h0 :: rest ∧ h0.finished = true ∧ rest ≠ [] := by
            intro hz
            obtain ⟨h0, rest, he, hf⟩ := h.rpFin hz
            refine ⟨h0, rest, he, hf, ?_⟩
            intro hr
            rw [he, hr] at hl; simp at hl; subst hl
            have := ((hA h0 (by rw [he]; exact List.mem_cons_self)).fin hf).1
            rw [hopen] at this; cases this
          have dl : ∀ h0 rest, s.outq = h0 :: rest → rest ≠ [] → s.outq.dropLast = h0 :: rest.dropLast := by
            intro h0 rest he hr
            rw [he]; cases rest with
            | nil => exact absurd rfl hr
            | cons b r => simp
          refine ⟨?_, h.idx, h.ordD, ?_, ?_, ?_, (by intro a; rw [hq] at a; cases a), ?_, (by intro a; rw [hq] at a; cases a), (by intro a; rw [hq] at a; cases a)⟩
          · dsimp only
            rw [blks_append, datas_append, h.cons]
            conv => lhs; rw [hqe]
            rw [blks_append, datas_append]
            simp [datas, Entry.blk, List.append_assoc]
          · dsimp only
            rw [blks_append, List.map_append]
            have := h.ordQ
            conv at this => lhs; rw [hqe]
            rw [blks_append, List.map_append] at this
            simp only [List.length_append, List.length_dropLast, List.length_cons, List.length_nil]
            have hlen : 0 < s.outq.length := by rw [hqe]; simp
            rw [show s.outq.length - 1 + (0 + 1) = s.outq.length by omega]
            simpa [Entry.blk] using this
          · dsimp only
            have hlen : 0 < s.outq.length := by rw [hqe]; simp
            simp only [List.length_append, List.length_dropLast, List.length_cons, List.length_nil]
            rw [h.nb]; omega
          · dsimp only; intro a
            obtain ⟨h0, rest, he, hf, hr⟩ := headSame a
            exact ⟨h0, rest.dropLast ++ [_], by rw [dl h0 rest he hr]; rfl, hf⟩
          · intro _
            have key : ∀ (t : St) (x : Entry), t.readPos = s.readPos → t.outq = s.outq.dropLast ++ [x] → headPart P t = headPart P s := by
              intro t x h1 h2
              refine headPart_congr h1 ?_
              intro hz
              obtain ⟨h0, rest, he, _, hr⟩ := headSame hz
              exact ⟨h0.blk, blks rest, blks (rest.dropLast ++ [x]), by rw [he]; rfl, by rw [h2, dl h0 rest he hr]; rfl⟩
            dsimp only
            rw [key]
            · exact h.outB hq
            all_goals first | rfl | skip
  · cases hs


theorem idHeadFin (s : St) : ∀ e rest, s.outq = e :: rest → e.finished = true → ∃ e' rest', s.outq = e' :: rest' ∧ e'.finished = true :=
  fun e rest a b => ⟨e, rest, a, b⟩

theorem InvC_mGetThreadErr {P : Params} {s s' : St} {r : Ret} (h : InvC P s) (hs : mGetThreadErr s r = some s') : InvC P s' := by
  unfold mGetThreadErr at hs
  split at hs
  · cases hs; exact InvC_ret _ h
  · cases hs

theorem InvC_mAfterIn {P : Params} {s s' : St} (h : InvC P s) (hB : InvB s) (hs : mAfterIn P s = some s') : InvC P s' := by
  unfold mAfterIn at hs
  split at hs
  · rename_i hg
    have hq := hB.pcBlock (Or.inr (Or.inr (Or.inl hg)))
    have hnf : InvC P (noteFlush s) := InvC_frame h rfl rfl rfl rfl rfl rfl rfl rfl rfl rfl rfl (idHeadFin s)
    split at hs; · cases hs; exact InvC_ret _ h
    split at hs; · cases hs; exact InvC_ret _ hnf
    split at hs
    · rename_i hc
      cases hs
      have hnil : s.outq = [] := by simpa using hc.2.1
      refine ⟨h.cons, h.idx, h.ordD, h.ordQ, h.nb, h.rpFin, (by intro a; cases a), (by intro a; cases a), ?_, (by intro a; cases a)⟩
      intro _
      have := h.outB hq
      rw [headPart_nil hnil] at this
      simpa [noteFlush] using this
    split at hs; · cases hs; exact InvC_ret _ hnf
    split at hs; · cases hs; exact InvC_ret _ h
    cases hs; exact InvC_frame h rfl rfl rfl rfl rfl rfl rfl rfl rfl rfl rfl (idHeadFin s)
  · cases hs

theorem InvC_mWake {P : Params} {s s' : St} (h : InvC P s) (hs : mWake s = some s') : InvC P s' := by
  unfold mWake at hs
  split at hs
  · split at hs <;> cases hs <;> exact InvC_frame h rfl rfl rfl rfl rfl rfl rfl rfl rfl rfl rfl (idHeadFin s)
  · cases hs

theorem InvC_mSpurious {P : Params} {s s' : St} (h : InvC P s) (hs : mSpurious s = some s') : InvC P s' := by
  unfold mSpurious at hs
  split at hs
  · cases hs; exact InvC_frame h rfl rfl rfl rfl rfl rfl rfl rfl rfl rfl rfl (idHeadFin s)
  · cases hs

theorem InvC_mTimeout {P : Params} {s s' : St} (h : InvC P s) (hs : mTimeout s = some s') : InvC P s' := by
  unfold mTimeout at hs
  split at hs
  · cases hs; exact InvC_ret _ h
  · cases hs

theorem InvC_mTail {P : Params} {s s' : St} (h : InvC P s) (hB : InvB s) (hs : mTail P s = some s') : InvC P s' := by
  unfold mTail at hs
  split at hs
  · rename_i hg
    have hq := hB.pcTail hg
    have ho := h.outI hq
    dsimp only at hs
    have hout : s.out ++ List.take (min s.cap ((P.tailBytes s.index).length - s.tailPos)) (List.drop s.tailPos (P.tailBytes s.index))
        = P.hdr ++ encs P s.done ++ (P.tailBytes s.index).take (s.tailPos + min s.cap ((P.tailBytes s.index).length - s.tailPos)) := by
      rw [ho, List.append_assoc, take_add_drop]
    split at hs <;> cases hs
    · refine InvC_ret _ ?_
      refine ⟨h.cons, h.idx, h.ordD, h.ordQ, h.nb, h.rpFin, ?_, ?_, fun _ => hout, ?_⟩ <;> (intro a; rw [hq] at a; cases a)
    · rename_i hge
      refine InvC_ret _ ?_
      refine ⟨h.cons, h.idx, h.ordD, h.ordQ, h.nb, h.rpFin, (by intro a; cases a), (by intro a; cases a), (by intro a; cases a), ?_⟩
      intro _
      dsimp only
      rw [hout]
      congr 1
      apply List.take_of_length_le
      omega
  · cases hs

theorem InvC_mUpdate {P : Params} {s s' : St} {c : Nat} (h : InvC P s) (hs : mUpdate s c = some s') : InvC P s' := by
  unfold mUpdate at hs
  split at hs
  · split at hs <;> cases hs <;> exact InvC_frame h rfl rfl rfl rfl rfl rfl rfl rfl rfl rfl rfl (idHeadFin s)
  · cases hs

theorem InvC_mEnd {P : Params} {s s' : St} {p : Option Cfg} (h : InvC P s) (hs : mEnd s p = some s') : InvC P s' := by
  unfold mEnd at hs
  split at hs
  · cases hs; exact InvC_frame h rfl rfl rfl rfl rfl rfl rfl rfl rfl rfl rfl (idHeadFin s)
  · cases hs

theorem InvC_init (P : Params) (c : Cfg) (m : MPc) : InvC P { (initSt c P) with mpc := m } := by
  refine ⟨by simp [initSt, datas, blks], by simp [initSt], by simp [initSt], by simp [initSt, blks], by simp [initSt], by simp [initSt],
    by simp [initSt], by simp [initSt], by simp [initSt], by simp [initSt]⟩

theorem InvC_mJoin {P : Params} {s s' : St} (hs : mJoin P s = some s') : InvC P s' := by
  unfold mJoin at hs
  split at hs
  · split at hs <;> cases hs
    · exact InvC_init P _ _
    · exact InvC_init P _ .out
  · cases hs

theorem InvC_step {P : Params} {s s' : St} {e : Ev} (h : InvC P s) (hA : InvA P s) (hB : InvB s) (hs : step P s e = some s') : InvC P s' := by
  cases e with
  | call inp cap act => exact InvC_mCall h hs
  | mHdr => exact InvC_mHdr h hB hs
  | mRead => exact InvC_mRead h hB hs
  | mEncIn => exact InvC_mEncIn h hA hB hs
  | mAfterIn => exact InvC_mAfterIn h hB hs
  | mTail => exact InvC_mTail h hB hs
  | mGetThreadErr r => exact InvC_mGetThreadErr h hs
  | mWake => exact InvC_mWake h hs
  | mTimeout => exact InvC_mTimeout h hs
  | mSpurious => exact InvC_mSpurious h hs
  | update c => exact InvC_mUpdate h hs
  | reinit c =>
    simp only [step] at hs
    split at hs
    · exact InvC_mEnd h hs
    · cases hs
  | lzmaEnd => exact InvC_mEnd h hs
  | mExitOne i => exact InvC_wframe h (mExitOne_frame hs)
  | mExitIdle => exact InvC_wframe h (mExitIdle_frame hs)
  | mJoin => exact InvC_mJoin hs
  | wTop i o0 => exact InvC_wframe h (wTop_frame hs)
  | wEnc i full newOut => exact InvC_wframe h (wEnc_frame hs)
  | wEncErr i r => exact InvC_wframe h (wEncErr_frame hs)
  | wFb i => exact InvC_wframe h (wFb_frame hs)
  | wMarkIdle i => exact InvC_wframe h (wMarkIdle_frame hs)
  | wTail i => exact InvC_wframe h (wTail_frame hs)
  | wSpurious i => exact InvC_wframe h (wSpurious_frame hs)
  | wExitIdle => exact InvC_wframe h (wExitIdle_frame hs)

end XzVerif.MtEnc
