/-
  Helper lemmas and statement-level predicates for property C19 (naming part). Core Lean only.
  The property theorems themselves are in `Props/C19.lean`.
-/
import XzVerif.Model.Suffix

namespace XzVerif.Suffix

/-! ## predicates used in the statements of `Props/C19.lean` -/

/-- A name (or the part of a name left of a suffix) whose last path component is not empty:
    non-empty and not ending in the directory separator. Every path of an existing non-directory file is like this. -/
def GoodBase (b : Name) : Prop := b ≠ [] ∧ b.getLast? ≠ some slash

instance (b : Name) : Decidable (GoodBase b) := by unfold GoodBase; infer_instance

/-- What `suffix_set()` lets through: a custom suffix is never empty and contains no '/'. -/
def ValidSuffix (custom : Option Name) : Prop := ∀ c, custom = some c → c ≠ [] ∧ slash ∉ c

/-- `--format=raw` has to be given on both sides or on neither (raw data cannot be auto-detected). -/
def RawConsistent (fmt dfmt : Format) : Prop := fmt = .raw ↔ dfmt = .raw

instance (a b : Format) : Decidable (RawConsistent a b) := by unfold RawConsistent; infer_instance

/-- When decompressing `t` (made from `name`), a built-in suffix — tested in table order BEFORE the custom suffix —
    matches `t` and cuts it somewhere else than at `name`, or cuts at `name` but appends a replacement (".tar"). -/
def BuiltinShadows (dfmt : Format) (name t : Name) : Prop :=
  dfmt ≠ .raw ∧ ∃ n u, firstMatch uncompTable t = some (n, u) ∧ ¬(n = name.length ∧ u = [])

/-- Class A (finding F3): the custom suffix itself ends in a built-in suffix, with something in front of it
    (`-S .b.xz`) or with a built-in that is replaced rather than removed (`-S .txz`, `-S .tlz`).
    Independent of the file name. -/
def SuffixEndsInBuiltin (s : Name) : Prop :=
  ∃ p ∈ uncompTable, ∃ r, s = r ++ p.1 ∧ (r ≠ [] ∨ p.2 ≠ [])

/-- Class B (the documented exception): the custom suffix is a proper tail of a built-in suffix and the name ends in
    the missing front part (`foo.t` + `xz`, `foo.` + `lzma`, `a.l` + `z`), i.e. appending it spells a longer built-in. -/
def BuiltinSpansName (name s : Name) : Prop :=
  ∃ p ∈ uncompTable, ∃ q b, q ≠ [] ∧ p.1 = q ++ s ∧ name = b ++ q ∧ GoodBase b

/-! ## `test_suffix` -/

theorem getD_last (b s : Name) (h : b ≠ []) :
    (b ++ s).getD (b.length - 1) 0 = b.getLast h := by
  have hl : 0 < b.length := List.length_pos_iff.mpr h
  rw [List.getD_eq_getElem?_getD, List.getElem?_append_left (by omega)]
  rw [List.getLast_eq_getElem]
  simp [List.getElem?_eq_getElem (show b.length - 1 < b.length by omega)]

/-- A good base followed by the suffix is recognised, and the cut is at the base. -/
theorem testSuffix_append {b s : Name} (h : GoodBase b) : testSuffix s (b ++ s) = b.length := by
  obtain ⟨hne, hl⟩ := h
  have hpos : 0 < b.length := List.length_pos_iff.mpr hne
  unfold testSuffix
  have e1 : (b ++ s).length - s.length = b.length := by simp
  have e2 : (b ++ s).length - s.length - 1 = b.length - 1 := by rw [e1]
  rw [e2, e1, getD_last b s hne]
  have hlast : (b.getLast hne == slash) = false := by
    rw [List.getLast?_eq_some_getLast hne] at hl
    simpa using hl
  simp [hlast]
  omega

/-- Whenever `test_suffix` answers non-zero, the name is a good base followed by the suffix, and the answer is the
    length of that base. -/
theorem testSuffix_pos {s t : Name} (h : testSuffix s t ≠ 0) :
    ∃ b, t = b ++ s ∧ GoodBase b ∧ testSuffix s t = b.length := by
  unfold testSuffix at h ⊢
  by_cases h1 : t.length ≤ s.length
  · rw [if_pos h1] at h; exact absurd rfl h
  · rw [if_neg h1] at h ⊢
    by_cases h2 : (t.getD (t.length - s.length - 1) 0 == slash) = true
    · rw [if_pos h2] at h; exact absurd rfl h
    · rw [if_neg h2] at h ⊢
      by_cases h3 : (List.drop (t.length - s.length) t == s) = true
      · rw [if_pos h3]
        refine ⟨t.take (t.length - s.length), ?_, ⟨?_, ?_⟩, ?_⟩
        · have : List.drop (t.length - s.length) t = s := by simpa using h3
          conv => lhs; rw [← List.take_append_drop (t.length - s.length) t]
          rw [this]
        · intro hnil
          have := congrArg List.length hnil
          simp at this
          omega
        · intro hl
          rw [List.getLast?_eq_getElem?] at hl
          simp only [List.length_take] at hl
          have hm : min (t.length - s.length) t.length - 1 = t.length - s.length - 1 := by omega
          rw [hm, List.getElem?_take_of_lt (by omega)] at hl
          rw [List.getD_eq_getElem?_getD, hl] at h2
          simp at h2
        · simp
      · rw [if_neg h3] at h; exact absurd rfl h

theorem testSuffix_ne_zero_iff {s t : Name} : testSuffix s t ≠ 0 ↔ ∃ b, t = b ++ s ∧ GoodBase b := by
  constructor
  · intro h
    obtain ⟨b, hb, hg, _⟩ := testSuffix_pos h
    exact ⟨b, hb, hg⟩
  · rintro ⟨b, rfl, hg⟩
    rw [testSuffix_append hg]
    exact Nat.ne_of_gt (List.length_pos_iff.mpr hg.1)

theorem goodBase_append {b r : Name} (hb : GoodBase b) (hr : slash ∉ r) : GoodBase (b ++ r) := by
  refine ⟨by simp [hb.1], ?_⟩
  by_cases hnil : r = []
  · subst hnil; simpa using hb.2
  · rw [List.getLast?_append]
    cases hb : r.getLast? with
    | none => exact absurd (List.getLast?_eq_none_iff.mp hb) hnil
    | some x =>
      intro h
      simp at h
      exact hr (List.mem_of_getLast? (h ▸ hb))

theorem take_append_left (a b : Name) : (a ++ b).take a.length = a := by simp

/-! ## `firstMatch` -/

theorem firstMatch_some {tbl : List (Name × Name)} {t : Name} {n : Nat} {u : Name}
    (h : firstMatch tbl t = some (n, u)) : ∃ e, (e, u) ∈ tbl ∧ testSuffix e t = n ∧ n ≠ 0 := by
  induction tbl with
  | nil => simp [firstMatch] at h
  | cons p rest ih =>
    obtain ⟨c, v⟩ := p
    unfold firstMatch at h
    by_cases hm : testSuffix c t ≠ 0
    · rw [if_pos hm] at h
      have h' := Option.some.inj h
      have h1 : testSuffix c t = n := congrArg Prod.fst h'
      have h2 : v = u := congrArg Prod.snd h'
      subst h2
      exact ⟨c, List.mem_cons_self, h1, h1 ▸ hm⟩
    · rw [if_neg hm] at h
      obtain ⟨e, he, h1, h2⟩ := ih h
      exact ⟨e, List.mem_cons_of_mem _ he, h1, h2⟩

theorem firstMatch_none {tbl : List (Name × Name)} {t : Name}
    (h : firstMatch tbl t = none) : ∀ p ∈ tbl, testSuffix p.1 t = 0 := by
  induction tbl with
  | nil => intro p hp; cases hp
  | cons p rest ih =>
    obtain ⟨c, v⟩ := p
    unfold firstMatch at h
    by_cases hm : testSuffix c t ≠ 0
    · rw [if_pos hm] at h; cases h
    · rw [if_neg hm] at h
      intro q hq
      rcases List.mem_cons.mp hq with rfl | hq
      · simpa using hm
      · exact ih h q hq

theorem firstMatch_none_iff {tbl : List (Name × Name)} {t : Name} :
    firstMatch tbl t = none ↔ ∀ p ∈ tbl, testSuffix p.1 t = 0 := by
  constructor
  · exact firstMatch_none
  · intro h
    cases hf : firstMatch tbl t with
    | none => rfl
    | some nu =>
      obtain ⟨n, u⟩ := nu
      obtain ⟨e, he, h1, h2⟩ := firstMatch_some hf
      exact absurd (h1 ▸ h (e, u) he) h2

/-! ## facts about the built-in table (kernel-evaluated over the 5 entries) -/

/-- no built-in suffix is a tail of a different built-in suffix, and each occurs once -/
theorem uncompTable_suffix_free : ∀ p ∈ uncompTable, ∀ q ∈ uncompTable, p.1 <:+ q.1 → p = q := by decide

/-- a replacement (".tar") is never shorter than the suffix it replaces -/
theorem uncompTable_repl_len : ∀ p ∈ uncompTable, p.2 = [] ∨ p.1.length ≤ p.2.length := by decide

/-- the only dot of a built-in suffix is its first character -/
theorem uncompTable_dot_first : ∀ p ∈ uncompTable, dot ∉ p.1.tail := by decide

theorem uncompTable_starts_with_dot : ∀ p ∈ uncompTable, p.1.head? = some dot := by decide

theorem uncompTable_repl_ne : ∀ p ∈ uncompTable, p.1 ≠ p.2 := by decide

theorem uncompTable_no_slash : ∀ p ∈ uncompTable, slash ∉ p.1 ∧ slash ∉ p.2 ∧ p.1 ≠ [] := by decide

/-- At most one built-in entry matches a given name, hence "the first match" is "the match". -/
theorem uncompTable_match_unique {t : Name} {p q : Name × Name} (hp : p ∈ uncompTable) (hq : q ∈ uncompTable)
    (mp : testSuffix p.1 t ≠ 0) (mq : testSuffix q.1 t ≠ 0) : p = q := by
  obtain ⟨b1, h1, _, _⟩ := testSuffix_pos mp
  obtain ⟨b2, h2, _, _⟩ := testSuffix_pos mq
  rw [h1] at h2
  rcases List.append_eq_append_iff.mp h2 with ⟨a, _, ha⟩ | ⟨c, _, hc⟩
  · exact uncompTable_suffix_free q hq p hp ⟨a, ha.symm⟩ |>.symm
  · exact uncompTable_suffix_free p hp q hq ⟨c, hc.symm⟩

theorem firstMatch_of_match {t e u : Name} (he : (e, u) ∈ uncompTable) (hm : testSuffix e t ≠ 0) :
    firstMatch uncompTable t = some (testSuffix e t, u) := by
  cases hf : firstMatch uncompTable t with
  | none => exact absurd (firstMatch_none hf (e, u) he) hm
  | some nu =>
    obtain ⟨n, u'⟩ := nu
    obtain ⟨e', he', h1, h2⟩ := firstMatch_some hf
    have := uncompTable_match_unique (p := (e', u')) (q := (e, u)) he' he (by simpa [h1] using h2) hm
    cases this
    rw [h1]

/-! ## `compressed_name` -/

theorem compressedNameT_some {sufs : List Name} {dflt custom : Option Name} {name t : Name}
    (h : compressedNameT sufs dflt custom name = some t) :
    (∀ s ∈ sufs, testSuffix s name = 0) ∧ (∀ c, custom = some c → testSuffix c name = 0) ∧
    ∃ s, t = name ++ s ∧ (custom = some s ∨ (custom = none ∧ dflt = some s)) := by
  unfold compressedNameT at h
  by_cases h1 : (sufs.any fun s => testSuffix s name != 0) = true
  · rw [if_pos h1] at h; cases h
  · rw [if_neg h1] at h
    by_cases h2 : customMatches custom name = true
    · rw [if_pos h2] at h; cases h
    · rw [if_neg h2] at h
      refine ⟨?_, ?_, ?_⟩
      · intro s hs
        have := h1
        simp only [List.any_eq_true, not_exists, not_and] at this
        have := this s hs
        simpa using this
      · intro c hc
        subst hc
        simpa [customMatches] using h2
      · cases custom with
        | some c =>
          simp at h
          exact ⟨c, h.symm, Or.inl rfl⟩
        | none =>
          cases hh : dflt with
          | none => simp [hh] at h
          | some s =>
            simp [hh] at h
            exact ⟨s, h.symm, Or.inr ⟨rfl, rfl⟩⟩

/-- the default suffix of a format is one of the built-in decompression suffixes with an empty replacement -/
theorem compSuffixes_head_in_uncompTable :
    ∀ fmt s, (compSuffixes fmt).head? = some s → (s, []) ∈ uncompTable ∧ s ≠ [] := by
  intro fmt s h
  cases fmt <;> simp [compSuffixes] at h <;> subst h <;> decide

end XzVerif.Suffix
