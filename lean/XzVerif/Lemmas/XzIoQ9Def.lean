/-
  C17 invariant Q9 (clean-up of the incomplete target): when no other process renames the target, a run that ends
  without success has unlinked the file it created, unless fstat/lstat/unlink of the target were themselves made to fail.
-/
import XzVerif.Lemmas.XzIoFrame

namespace XzVerif.XzIo
variable {α : Type}

/-- a failed call of the clean-up path: fstat(target) (its inode is then unknown), lstat/stat(target), unlink(target) -/
def cleanupFault (e : Event) : Bool :=
  match e.res, e.call with
  | .err _, .fstat .dst => true
  | .err _, .stat .dst _ => true
  | .err _, .unlink .dst => true
  | _, _ => false

def CF (tr : List Event) : Prop := ∃ e ∈ tr, cleanupFault e = true

theorem CF.cons {tr : List Event} (e : Event) (h : CF tr) : CF (e :: tr) :=
  let ⟨x, hx, hc⟩ := h; ⟨x, List.mem_cons_of_mem _ hx, hc⟩

/-- after the target has been closed -/
def Pc.postDest : Pc → Bool
  | .statDest | .unlinkDest | .closeSrc | .statSrc | .unlinkSrc | .done => true
  | _ => false

/-- after the clean-up of the target -/
def Pc.post : Pc → Bool
  | .closeSrc | .statSrc | .unlinkSrc | .done => true
  | _ => false

def Pc.doneSrc : Pc → Bool
  | .closeSrc | .done => true
  | _ => false

/-- before the source has been accepted -/
def Pc.early9 : Pc → Bool
  | .openSrc | .fstatSrc | .closeSrcErr => true
  | _ => false

structure Q9 (s : St α) : Prop where
  n1 : s.fs.ownLinked = true → s.fs.dstName = some inoOwn
  n2 : s.fs.ownLinked = true → s.pc ≠ .fstatDest → s.destStIno = inoOwn ∨ CF s.trace
  n3 : s.pc.post = true → s.success = false → s.fs.ownLinked = true → CF s.trace
  n7 : s.fs.ownLinked = true → s.destOpen = true ∨ s.pc.postDest = true
  n8 : s.pc.early9 = true → s.fs.ownLinked = false
  n9 : s.fs.srcName ≠ some inoOwn

variable (c : Cfg α)

/-! ### a dispatcher stops at closeSrc / done only if no target is open -/

theorem closeDestPhase_doneSrc (s : St α) : (closeDestPhase c s).pc.doneSrc = true → s.destOpen = false := by
  unfold closeDestPhase
  split
  · rename_i h; intro _; simpa using h
  · split <;> (intro h; simp [Pc.doneSrc] at h)

theorem afterAttrs_doneSrc (s : St α) : (afterAttrs c s).pc.doneSrc = true → s.destOpen = false := by
  unfold afterAttrs; split
  · intro h; simp [Pc.doneSrc] at h
  · exact closeDestPhase_doneSrc c s

theorem closeBlock_doneSrc (s : St α) : (closeBlock c s).pc.doneSrc = true → s.destOpen = false := by
  unfold closeBlock; split
  · intro h; simp [Pc.doneSrc] at h
  · exact closeDestPhase_doneSrc c _

theorem ioClose_doneSrc (s : St α) : (ioClose c s).pc.doneSrc = true → s.destOpen = false := by
  unfold ioClose; split
  · intro h; simp [Pc.doneSrc] at h
  · exact closeBlock_doneSrc c s

theorem ioFail_doneSrc (s : St α) : (ioFail c s).pc.doneSrc = true → s.destOpen = false := by
  unfold ioFail; exact closeBlock_doneSrc c _

theorem finish_doneSrc (s : St α) : (finish c s).pc.doneSrc = true → s.destOpen = false := by
  unfold finish; split
  · exact ioClose_doneSrc c _
  · exact ioFail_doneSrc c _

theorem nextMain_doneSrc (ops : List (Op α)) (s : St α) : (nextMain c ops s).pc.doneSrc = true → s.destOpen = false := by
  induction ops generalizing s with
  | nil => unfold nextMain; exact finish_doneSrc c _
  | cons op r ih =>
    cases op <;> unfold nextMain
    · split
      · exact ioFail_doneSrc c _
      · exact ih s
    · split
      · exact ih s
      · intro h; simp [Pc.doneSrc] at h
    · split
      · exact ih s
      · split
        · exact ih _
        · split
          · exact ih s
          · split <;> (intro h; simp [Pc.doneSrc] at h)
    · split
      · exact ih s
      · intro h; simp [Pc.doneSrc] at h

theorem doInit_doneSrc (s : St α) : (doInit c s).pc.doneSrc = true → s.destOpen = false := by
  unfold doInit; simp only
  split
  · exact ioFail_doneSrc c _
  · split
    · exact ioFail_doneSrc c _
    · split
      · exact nextMain_doneSrc c _ _
      · split
        · intro h; simp [Pc.doneSrc] at h
        · split
          · intro h; simp [Pc.doneSrc] at h
          · split <;> (intro h; simp [Pc.doneSrc] at h)

theorem nextPre_doneSrc (ops : List (Op α)) (s : St α) : (nextPre c ops s).pc.doneSrc = true → s.destOpen = false := by
  induction ops generalizing s with
  | nil => unfold nextPre; exact doInit_doneSrc c s
  | cons op r ih =>
    cases op <;> unfold nextPre
    · exact ih s
    · split
      · exact ih s
      · intro h; simp [Pc.doneSrc] at h
    · exact ih s
    · exact ih s

theorem continueLoop_doneSrc (s : St α) : (continueLoop c s).pc.doneSrc = true → s.destOpen = false := by
  unfold continueLoop; split
  · exact nextMain_doneSrc c _ s
  · exact nextPre_doneSrc c _ s

theorem afterWrite_doneSrc (s : St α) : (afterWrite c s).pc.doneSrc = true → s.destOpen = false := by
  unfold afterWrite; split
  · exact closeBlock_doneSrc c s
  · exact continueLoop_doneSrc c s

theorem openDestErr_doneSrc (s : St α) : (openDestErr c s).pc.doneSrc = true → s.destOpen = false := by
  unfold openDestErr; split
  · intro h; simp [Pc.doneSrc] at h
  · exact ioFail_doneSrc c _

/-- landing pcs that are `post` are `doneSrc` -/
theorem landing_post {p : Pc} (hl : p.landing = true) (hp : p.post = true) : p.doneSrc = true := by
  cases p <;> simp_all [Pc.landing, Pc.post, Pc.doneSrc]

theorem landing_postDest {p : Pc} (hl : p.landing = true) (hp : p.postDest = true) : p.doneSrc = true := by
  cases p <;> simp_all [Pc.landing, Pc.postDest, Pc.doneSrc]

/-! ### step lemmas -/

theorem landing_notEarly9 {p : Pc} (h : p.landing = true) : p.early9 = false := by
  cases p <;> simp_all [Pc.landing, Pc.early9]

omit c in
/-- general form: the caller says what is known about the remembered inode afterwards -/
theorem q9_mid' {s s1 s' : St α} (q : Q9 s) (hnp : s.pc.postDest = false)
    (fr : Frame s1 s') (hland : s'.pc.landing = true ∨ (s'.pc.postDest = false ∧ s'.pc.early9 = false))
    (horigin : s'.pc.doneSrc = true → s1.destOpen = false) {ev : Event}
    (ht : s1.trace = ev :: s.trace) (hdn : s1.fs.dstName = s.fs.dstName) (hol : s1.fs.ownLinked = s.fs.ownLinked)
    (hsn : s1.fs.srcName = s.fs.srcName)
    (h2 : s.fs.ownLinked = true → s'.pc ≠ .fstatDest → s1.destStIno = inoOwn ∨ CF s1.trace)
    (hdo : s1.destOpen = s.destOpen) : Q9 s' := by
  have hopen : s.fs.ownLinked = true → s.destOpen = true := by
    intro h; rcases q.n7 h with h | h
    · exact h
    · rw [hnp] at h; simp at h
  refine ⟨?_, ?_, ?_, ?_, ?_, ?_⟩
  · rw [fr.fs, hdn, hol]; exact q.n1
  · rw [fr.fs, hol, fr.trace, fr.destStIno]; exact h2
  · rw [fr.fs, hol]
    intro hp _ ho
    have hds : s'.pc.doneSrc = true := by
      rcases hland with h | h
      · exact landing_post h hp
      · have : s'.pc.postDest = true := by revert hp; cases s'.pc <;> simp [Pc.post, Pc.postDest]
        rw [h.1] at this; simp at this
    have := horigin hds
    rw [hdo, hopen ho] at this; simp at this
  · rw [fr.fs, hol, fr.destOpen, hdo]
    intro h; exact Or.inl (hopen h)
  · intro h
    rcases hland with h' | h'
    · rw [landing_notEarly9 h'] at h; simp at h
    · rw [h'.2] at h; simp at h
  · rw [fr.fs, hsn]; exact q.n9

omit c in
/-- a step that leaves the target's name and existence alone and keeps the remembered inode; `s'` is reached through
    a dispatcher from `s1` (or is `s1`).  From a pc before the target has been closed. -/
theorem q9_mid {s s1 s' : St α} (q : Q9 s) (hnp : s.pc.postDest = false) (hsf : s.pc ≠ .fstatDest)
    (fr : Frame s1 s') (hland : s'.pc.landing = true ∨ (s'.pc.postDest = false ∧ s'.pc.early9 = false))
    (horigin : s'.pc.doneSrc = true → s1.destOpen = false) {ev : Event}
    (ht : s1.trace = ev :: s.trace) (hdn : s1.fs.dstName = s.fs.dstName) (hol : s1.fs.ownLinked = s.fs.ownLinked)
    (hsn : s1.fs.srcName = s.fs.srcName) (hd : s1.destStIno = s.destStIno) (hdo : s1.destOpen = s.destOpen) : Q9 s' := by
  refine q9_mid' q hnp fr hland horigin ht hdn hol hsn ?_ hdo
  intro h _
  rw [hd, ht]
  rcases q.n2 h hsf with h | h
  · exact Or.inl h
  · exact Or.inr (h.cons _)

omit c in
/-- a state in which this run owns no target satisfies the invariant outright -/
theorem q9_noOwn {s' : St α} (h : s'.fs.ownLinked = false) (h9 : s'.fs.srcName ≠ some inoOwn) : Q9 s' :=
  ⟨fun e => by rw [h] at e; simp at e, fun e => by rw [h] at e; simp at e, fun _ _ e => by rw [h] at e; simp at e,
   fun e => by rw [h] at e; simp at e, fun _ => h, h9⟩

omit c in
/-- a step after the target has been closed that leaves the file system's view of the target alone -/
theorem q9_late {s s1 s' : St α} (q : Q9 s) (fr : Frame s1 s') (hsucc : s'.success = s1.success)
    (hpd : s'.pc.postDest = true) (hne : s'.pc.early9 = false) {ev : Event}
    (ht : s1.trace = ev :: s.trace) (hdn : s1.fs.dstName = s.fs.dstName) (hol : s1.fs.ownLinked = s.fs.ownLinked)
    (hsn : s1.fs.srcName ≠ some inoOwn) (hd : s1.destStIno = s.destStIno) (hsf : s.pc ≠ .fstatDest)
    (h3 : s'.pc.post = true → s1.success = false → s.fs.ownLinked = true → CF s1.trace) : Q9 s' := by
  refine ⟨?_, ?_, ?_, fun _ => Or.inr hpd, fun h => by rw [hne] at h; simp at h, by rw [fr.fs]; exact hsn⟩
  · rw [fr.fs, hdn, hol]; exact q.n1
  · rw [fr.fs, hol, fr.trace, ht, fr.destStIno, hd]
    intro h _
    rcases q.n2 h hsf with h | h
    · exact Or.inl h
    · exact Or.inr (h.cons _)
  · rw [fr.fs, hol, fr.trace, hsucc]; exact h3

omit c in
/-- unlinking the name of the own target removes the own target -/
theorem unlinkDstName_own (fs : FS α) (h1 : fs.ownLinked = true → fs.dstName = some inoOwn) :
    fs.unlinkDstName.ownLinked = false := by
  unfold FS.unlinkDstName
  split
  · rename_i i hi
    cases ho : fs.ownLinked with
    | false => exact unlinkIno_ownLinked_false fs i ho
    | true =>
      have := h1 ho
      rw [hi] at this
      have hi' : i = inoOwn := Option.some.inj this
      subst hi'
      simp [FS.unlinkIno, inoOwn, inoSrc, inoPre]
  · rename_i hn
    cases ho : fs.ownLinked with
    | false => rfl
    | true => have := h1 ho; rw [hn] at this; simp at this

end XzVerif.XzIo
