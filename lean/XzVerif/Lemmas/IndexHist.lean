/-
  C13: operation histories (the quantifier of `index_refines_spec`) and their evaluation in both models;
  atomicity of the concrete operations; agreement of the scalar getters.
-/
import XzVerif.Lemmas.IndexRefineCat

namespace XzVerif.Index

/-- A finite history of lzma_index_* calls that builds one index (cat consumes a second history). -/
inductive Hist where
  | init
  | append (h : Hist) (unpadded uncompressed : Nat)
  | flags (h : Hist) (f : StreamFlags)
  | padding (h : Hist) (p : Nat)
  | cat (dest src : Hist)
  | dup (h : Hist)

/-- the specification state after a history (failing calls change nothing) -/
def Hist.spec : Hist → SpecIndex
  | .init => Spec.init
  | .append h u c => (Spec.append h.spec u c).2
  | .flags h f => (Spec.streamFlags h.spec f).2
  | .padding h p => (Spec.streamPadding h.spec p).2
  | .cat d s => (Spec.cat d.spec s.spec).2
  | .dup h => Spec.dup h.spec

/-- the concrete state after a history; `none` if an allocation failed on the way (outside the specification) -/
def Hist.impl : Hist → Option Impl.Index
  | .init => some Impl.init
  | .append h u c => h.impl.bind fun i =>
      let r := Impl.append i u c
      if r.1 = .memError then none else some r.2
  | .flags h f => h.impl.map fun i => (Impl.streamFlags i f).2
  | .padding h p => h.impl.map fun i => (Impl.streamPadding i p).2
  | .cat d s => d.impl.bind fun di => s.impl.map fun si => (Impl.cat di si).2
  | .dup h => h.impl.map Impl.dup

namespace Impl

theorem append_atomic (i : Index) (u c : Nat) (h : (Impl.append i u c).1 ≠ .ok) : (Impl.append i u c).2 = i := by
  generalize hres : Impl.append i u c = res at h ⊢
  unfold Impl.append at hres
  split at hres; · rw [← hres]
  split at hres; · rw [← hres]
  dsimp only at hres
  split at hres; · rw [← hres]
  split at hres; · rw [← hres]
  split at hres; · rw [← hres]
  split at hres; · rw [← hres]
  split at hres
  · rw [← hres] at h; exact absurd rfl h
  · split at hres
    · rw [← hres]
    · rw [← hres] at h; exact absurd rfl h

theorem streamFlags_atomic (i : Index) (f : StreamFlags) (h : (Impl.streamFlags i f).1 ≠ .ok) : (Impl.streamFlags i f).2 = i := by
  unfold Impl.streamFlags at h ⊢
  split
  · rfl
  · next hc => simp [hc] at h

/-- every scalar getter of the API computed by the concrete model equals the specification's -/
theorem getters_refine {i : Index} (hi : Inv i) :
    Impl.streamCount i = Spec.streamCount (abs i) ∧ Impl.blockCount i = Spec.blockCount (abs i)
    ∧ Impl.indexSizeAll i = Spec.indexSizeAll (abs i) ∧ Impl.streamSize i = Spec.streamSize (abs i)
    ∧ i.totalSize = Spec.totalSize (abs i) ∧ Impl.fileSize i = Spec.fileSize (abs i)
    ∧ i.uncompressedSize = Spec.uncompressedSize (abs i) ∧ Impl.checks i = Spec.checks (abs i)
    ∧ Impl.memused i = Spec.memused (abs i) ∧ Impl.paddingSize i = Spec.paddingSize (abs i) := by
  have hsc : i.streams.count = (abs i).length := by rw [hi.scount]; unfold abs CTree.toList; simp
  refine ⟨hsc, hi.rcount, ?_, ?_, hi.total, fileSize_refines hi, hi.unc, checks_refines hi, ?_, ?_⟩
  · unfold Impl.indexSizeAll Spec.indexSizeAll; rw [hi.rcount, hi.lsize]
  · unfold Impl.streamSize Spec.streamSize; rw [hi.rcount, hi.lsize, hi.total]
  · unfold Impl.memused Spec.memused Spec.streamCount; rw [hi.rcount, hsc]
  · unfold Impl.paddingSize Spec.paddingSize; rw [hi.rcount, hi.lsize]

theorem prealloc_inv {i : Index} (hi : Inv i) (n : Nat) : abs (Impl.prealloc i n) = abs i ∧ Inv (Impl.prealloc i n) :=
  ⟨rfl, ⟨hi.ne, hi.scount, hi.streams, hi.bases, hi.unc, hi.total, hi.rcount, hi.lsize, hi.checks, hi.valid⟩⟩

/-- how the results of the Record loop over the two index representations relate (allocation failure apart) -/
def RecSim (a : (Ret × Nat) ⊕ (Index × List UInt8 × Nat)) (b : (Ret × Nat) ⊕ (SpecIndex × List UInt8 × Nat)) : Prop :=
  match a with
  | .inl (r1, u1) => r1 = .memError ∨ b = .inl (r1, u1)
  | .inr (s1, b1, u1) => b = .inr (abs s1, b1, u1) ∧ Inv s1

theorem decodeRecords_sim : ∀ (n : Nat) (si : Index) (bs : List UInt8) (used : Nat), Inv si →
    RecSim (decodeRecords Impl.decOps n si bs used) (decodeRecords Spec.decOps n (abs si) bs used)
  | 0, si, bs, used, hi => by simp [decodeRecords, RecSim, hi]
  | n + 1, si, bs, used, hi => by
    unfold decodeRecords
    cases h1 : vliDecodeGo bs 0 0 used with
    | more u => simp [RecSim]
    | bad u => simp [RecSim]
    | done unpadded u1 =>
      simp only
      split
      · simp [RecSim]
      · cases h2 : vliDecodeGo (bs.drop (u1 - used)) 0 0 u1 with
        | more u => simp [RecSim]
        | bad u => simp [RecSim]
        | done uncompressed u2 =>
          simp only
          have hI : Impl.decOps.append si unpadded uncompressed = Impl.append si unpadded uncompressed := rfl
          have hS : Spec.decOps.append (abs si) unpadded uncompressed = Spec.append (abs si) unpadded uncompressed := rfl
          rw [hI, hS]
          rcases Impl.append_refines hi unpadded uncompressed with hm | ⟨hr, ha, hinv⟩
          · -- allocation failure in the concrete model
            rw [hm]
            exact Or.inl rfl
          · cases hip : Impl.append si unpadded uncompressed with
            | mk r1 s1 =>
              cases hsp : Spec.append (abs si) unpadded uncompressed with
              | mk r2 s2 =>
                rw [hip, hsp] at hr ha
                rw [hip] at hinv
                simp only at hr ha hinv
                subst hr
                subst ha
                cases r1
                case ok => exact decodeRecords_sim n s1 _ u2 hinv
                all_goals exact Or.inr rfl

/-- `index_decode` over the concrete index and over the specification give the same answer: same `lzma_ret`, same
    number of consumed bytes, and on success an index whose abstraction is the specification's result -/
theorem decode_refines (memlimit : Nat) (bs : List UInt8) :
    (Impl.decode memlimit bs).ret = .memError
    ∨ ((Impl.decode memlimit bs).ret = (Spec.decode memlimit bs).ret
       ∧ (Impl.decode memlimit bs).used = (Spec.decode memlimit bs).used
       ∧ (Impl.decode memlimit bs).memNeeded = (Spec.decode memlimit bs).memNeeded
       ∧ (Impl.decode memlimit bs).index.map abs = (Spec.decode memlimit bs).index
       ∧ ∀ i, (Impl.decode memlimit bs).index = some i → Inv i) := by
  unfold Impl.decode Spec.decode decodeG
  cases bs with
  | nil => right; simp
  | cons b0 rest =>
    simp only
    split
    · right; simp
    · cases h1 : vliDecodeGo rest 0 0 1 with
      | more u => right; simp
      | bad u => right; simp
      | done count u0 =>
        simp only
        split
        · right; simp
        · have hp := prealloc_inv inv_init count
          have hpre : Impl.decOps.prealloc Impl.decOps.init count = Impl.prealloc Impl.init count := rfl
          have hspre : Spec.decOps.prealloc Spec.decOps.init count = abs (Impl.prealloc Impl.init count) := by
            rw [hp.1, abs_init]; rfl
          rw [hpre, hspre]
          have hsim := decodeRecords_sim count (Impl.prealloc Impl.init count) ((b0 :: rest).drop u0) u0 hp.2
          cases hi : decodeRecords Impl.decOps count (Impl.prealloc Impl.init count) ((b0 :: rest).drop u0) u0 with
          | inl x =>
            obtain ⟨r1, u1⟩ := x
            rw [hi] at hsim
            rcases hsim with hm | hs
            · left; simp [hm]
            · right; rw [hs]; simp
          | inr x =>
            obtain ⟨s1, b1, u1⟩ := x
            rw [hi] at hsim
            obtain ⟨hs, hinv⟩ := hsim
            right
            rw [hs]
            simp only
            have e1 : Impl.decOps.recordCount s1 = Spec.decOps.recordCount (abs s1) := hinv.rcount
            have e2 : Impl.decOps.listSize s1 = Spec.decOps.listSize (abs s1) := hinv.lsize
            rw [e1, e2]
            cases matchBytes (List.replicate (indexPadding (Spec.decOps.recordCount (abs s1)) (Spec.decOps.listSize (abs s1))) 0) b1 u1 with
            | inl y => simp
            | inr y =>
              obtain ⟨rest2, u2⟩ := y
              simp only
              cases matchBytes (crc32Bytes ((b0 :: rest).take u2)) rest2 u2 with
              | inl z => simp
              | inr z =>
                simp only [Option.map_some, true_and]
                intro i hi'
                have : i = s1 := by simpa using hi'.symm
                subst this; exact hinv

end Impl

/-- Every history: the abstraction of the concrete state is the specification state, and the invariant holds. -/
theorem Hist.refines : ∀ (h : Hist) (i : Impl.Index), h.impl = some i → Impl.abs i = h.spec ∧ Impl.Inv i
  | .init, i, hi => by
    have : i = Impl.init := by simpa [Hist.impl] using hi.symm
    subst this; exact ⟨Impl.abs_init, Impl.inv_init⟩
  | .append h u c, i, hi => by
    simp only [Hist.impl, Option.bind_eq_some_iff] at hi
    obtain ⟨j, hj, hi⟩ := hi
    obtain ⟨ha, hinv⟩ := Hist.refines h j hj
    split at hi
    · simp at hi
    · next hne =>
      have : i = (Impl.append j u c).2 := by simpa using hi.symm
      subst this
      rcases Impl.append_refines hinv u c with hm | ⟨_, h2, h3⟩
      · rw [hm] at hne; simp at hne
      · exact ⟨by rw [h2, ha]; rfl, h3⟩
  | .flags h f, i, hi => by
    simp only [Hist.impl, Option.map_eq_some_iff] at hi
    obtain ⟨j, hj, rfl⟩ := hi
    obtain ⟨ha, hinv⟩ := Hist.refines h j hj
    obtain ⟨_, h2, h3⟩ := Impl.streamFlags_refines hinv f
    exact ⟨by rw [h2, ha]; rfl, h3⟩
  | .padding h p, i, hi => by
    simp only [Hist.impl, Option.map_eq_some_iff] at hi
    obtain ⟨j, hj, rfl⟩ := hi
    obtain ⟨ha, hinv⟩ := Hist.refines h j hj
    obtain ⟨_, h2, h3, _⟩ := Impl.streamPadding_refines hinv p
    exact ⟨by rw [h2, ha]; rfl, h3⟩
  | .cat d s, i, hi => by
    simp only [Hist.impl, Option.bind_eq_some_iff, Option.map_eq_some_iff] at hi
    obtain ⟨dj, hdj, sj, hsj, rfl⟩ := hi
    obtain ⟨hda, hdinv⟩ := Hist.refines d dj hdj
    obtain ⟨hsa, hsinv⟩ := Hist.refines s sj hsj
    obtain ⟨_, h2, h3, _⟩ := Impl.cat_refines hdinv hsinv
    exact ⟨by rw [h2, hda, hsa]; rfl, h3⟩
  | .dup h, i, hi => by
    simp only [Hist.impl, Option.map_eq_some_iff] at hi
    obtain ⟨j, hj, rfl⟩ := hi
    obtain ⟨ha, hinv⟩ := Hist.refines h j hj
    obtain ⟨h2, h3⟩ := Impl.dup_refines hinv
    exact ⟨by rw [h2, ha]; rfl, h3⟩

end XzVerif.Index
