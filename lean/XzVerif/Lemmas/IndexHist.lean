/-
  C13: operation histories (the quantifier of `index_refines_spec`) and their evaluation in both models;
  atomicity of the concrete operations; agreement of the scalar getters.
-/
import XzVerif.Lemmas.IndexRefineCat

namespace XzVerif.Index

/-- A finite history of lzma_index_* calls that builds one index (cat consumes a second history). -/
inductive Hist where
  | init
  | append (h : Hist) (unpadded uncompressed : Nat)
  | flags (h : Hist) (f : StreamFlags)
  | padding (h : Hist) (p : Nat)
  | cat (dest src : Hist)
  | dup (h : Hist)

/-- the specification state after a history (failing calls change nothing) -/
def Hist.spec : Hist → SpecIndex
  | .init => Spec.init
  | .append h u c => (Spec.append h.spec u c).2
  | .flags h f => (Spec.streamFlags h.spec f).2
  | .padding h p => (Spec.streamPadding h.spec p).2
  | .cat d s => (Spec.cat d.spec s.spec).2
  | .dup h => Spec.dup h.spec

/-- the concrete state after a history; `none` if an allocation failed on the way (outside the specification) -/
def Hist.impl : Hist → Option Impl.Index
  | .init => some Impl.init
  | .append h u c => h.impl.bind fun i =>
      let r := Impl.append i u c
      if r.1 = .memError then none else some r.2
  | .flags h f => h.impl.map fun i => (Impl.streamFlags i f).2
  | .padding h p => h.impl.map fun i => (Impl.streamPadding i p).2
  | .cat d s => d.impl.bind fun di => s.impl.map fun si => (Impl.cat di si).2
  | .dup h => h.impl.map Impl.dup

namespace Impl

theorem append_atomic (i : Index) (u c : Nat) (h : (Impl.append i u c).1 ≠ .ok) : (Impl.append i u c).2 = i := by
  generalize hres : Impl.append i u c = res at h ⊢
  unfold Impl.append at hres
  split at hres; · rw [← hres]
  split at hres; · rw [← hres]
  dsimp only at hres
  split at hres; · rw [← hres]
  split at hres; · rw [← hres]
  split at hres; · rw [← hres]
  split at hres; · rw [← hres]
  split at hres
  · rw [← hres] at h; exact absurd rfl h
  · split at hres
    · rw [← hres]
    · rw [← hres] at h; exact absurd rfl h

theorem streamFlags_atomic (i : Index) (f : StreamFlags) (h : (Impl.streamFlags i f).1 ≠ .ok) : (Impl.streamFlags i f).2 = i := by
  unfold Impl.streamFlags at h ⊢
  split
  · rfl
  · next hc => simp [hc] at h

/-- every scalar getter of the API computed by the concrete model equals the specification's -/
theorem getters_refine {i : Index} (hi : Inv i) :
    Impl.streamCount i = Spec.streamCount (abs i) ∧ Impl.blockCount i = Spec.blockCount (abs i)
    ∧ Impl.indexSizeAll i = Spec.indexSizeAll (abs i) ∧ Impl.streamSize i = Spec.streamSize (abs i)
    ∧ i.totalSize = Spec.totalSize (abs i) ∧ Impl.fileSize i = Spec.fileSize (abs i)
    ∧ i.uncompressedSize = Spec.uncompressedSize (abs i) ∧ Impl.checks i = Spec.checks (abs i)
    ∧ Impl.memused i = Spec.memused (abs i) ∧ Impl.paddingSize i = Spec.paddingSize (abs i) := by
  have hsc : i.streams.count = (abs i).length := by rw [hi.scount]; unfold abs CTree.toList; simp
  refine ⟨hsc, hi.rcount, ?_, ?_, hi.total, fileSize_refines hi, hi.unc, checks_refines hi, ?_, ?_⟩
  · unfold Impl.indexSizeAll Spec.indexSizeAll; rw [hi.rcount, hi.lsize]
  · unfold Impl.streamSize Spec.streamSize; rw [hi.rcount, hi.lsize, hi.total]
  · unfold Impl.memused Spec.memused Spec.streamCount; rw [hi.rcount, hsc]
  · unfold Impl.paddingSize Spec.paddingSize; rw [hi.rcount, hi.lsize]

end Impl

/-- Every history: the abstraction of the concrete state is the specification state, and the invariant holds. -/
theorem Hist.refines : ∀ (h : Hist) (i : Impl.Index), h.impl = some i → Impl.abs i = h.spec ∧ Impl.Inv i
  | .init, i, hi => by
    have : i = Impl.init := by simpa [Hist.impl] using hi.symm
    subst this; exact ⟨Impl.abs_init, Impl.inv_init⟩
  | .append h u c, i, hi => by
    simp only [Hist.impl, Option.bind_eq_some_iff] at hi
    obtain ⟨j, hj, hi⟩ := hi
    obtain ⟨ha, hinv⟩ := Hist.refines h j hj
    split at hi
    · simp at hi
    · next hne =>
      have : i = (Impl.append j u c).2 := by simpa using hi.symm
      subst this
      rcases Impl.append_refines hinv u c with hm | ⟨_, h2, h3⟩
      · rw [hm] at hne; simp at hne
      · exact ⟨by rw [h2, ha]; rfl, h3⟩
  | .flags h f, i, hi => by
    simp only [Hist.impl, Option.map_eq_some_iff] at hi
    obtain ⟨j, hj, rfl⟩ := hi
    obtain ⟨ha, hinv⟩ := Hist.refines h j hj
    obtain ⟨_, h2, h3⟩ := Impl.streamFlags_refines hinv f
    exact ⟨by rw [h2, ha]; rfl, h3⟩
  | .padding h p, i, hi => by
    simp only [Hist.impl, Option.map_eq_some_iff] at hi
    obtain ⟨j, hj, rfl⟩ := hi
    obtain ⟨ha, hinv⟩ := Hist.refines h j hj
    obtain ⟨_, h2, h3, _⟩ := Impl.streamPadding_refines hinv p
    exact ⟨by rw [h2, ha]; rfl, h3⟩
  | .cat d s, i, hi => by
    simp only [Hist.impl, Option.bind_eq_some_iff, Option.map_eq_some_iff] at hi
    obtain ⟨dj, hdj, sj, hsj, rfl⟩ := hi
    obtain ⟨hda, hdinv⟩ := Hist.refines d dj hdj
    obtain ⟨hsa, hsinv⟩ := Hist.refines s sj hsj
    obtain ⟨_, h2, h3, _⟩ := Impl.cat_refines hdinv hsinv
    exact ⟨by rw [h2, hda, hsa]; rfl, h3⟩
  | .dup h, i, hi => by
    simp only [Hist.impl, Option.map_eq_some_iff] at hi
    obtain ⟨j, hj, rfl⟩ := hi
    obtain ⟨ha, hinv⟩ := Hist.refines h j hj
    obtain ⟨h2, h3⟩ := Impl.dup_refines hinv
    exact ⟨by rw [h2, ha]; rfl, h3⟩

end XzVerif.Index
