/-
  Helper lemmas for C09 (memory-usage estimates vs. allocation lists). Core Lean tactics only (omega, simp, induction).
-/
import XzVerif.Model.Memusage

namespace XzVerif.Memusage

/-! ## What the estimate functions assume about the struct sizes of a build -/

/-- Largest filter-options struct. -/
def Build.optMax (b : Build) : Nat := max b.szOptionsLzma (max b.szOptionsBcj b.szOptionsDelta)

/-- The assumptions under which the estimates are upper bounds. They are inequalities between `sizeof` values and the
    constants 1024 / LZMA_MEMUSAGE_BASE that the estimate functions add; `Props/C09.lean` checks them for the generated
    table of the build under test by `decide`. -/
structure Build.Ok (b : Build) : Prop where
  /-- a BCJ coder (struct + 2·unfiltered_max ≤ 32 bytes of buffer + the x86 state) fits in the 1 KiB that
      `lzma_raw_coder_memusage` counts for filters without a memusage function -/
  bcj : b.szSimpleCoder + 32 + b.szSimpleX86 ≤ 1024
  /-- everything the single-threaded .xz decoder allocates besides the filter chain (lzma_internal, Stream coder,
      Index hash, Block decoder, up to four option structs) plus the 4 KiB / 16-byte dictionary relaxation (counted for
      each of the at most four filters) fits in LZMA_MEMUSAGE_BASE -/
  xzDec : b.szInternal + b.szStreamDecoder + b.szIndexHash + b.szBlockDecoder + 4 * b.optMax + 16384 ≤ MEMUSAGE_BASE
  /-- .lzma / .lz / auto decoders -/
  aloneDec : b.szInternal + b.szAutoDecoder + b.szAloneDecoder + b.szLzipDecoder + 4096 ≤ MEMUSAGE_BASE
  /-- Stream / .lzma encoders: coder structs, Index with its first group, Index encoder, option copies, the
      lzma_memcmplen slack -/
  xzEnc : b.szInternal + b.szStreamEncoder + b.szAloneEncoder + b.szIndex + b.szIndexStream
          + (b.szIndexGroup + INDEX_GROUP_SIZE * b.szIndexRecord) + b.szIndexEncoder + b.szBlockEncoder + 4 * b.optMax
          + b.memcmplenExtra ≤ MEMUSAGE_BASE
  /-- at most four filters, each may add LZMA_MEMCMPLEN_EXTRA bytes -/
  encSlack : 4 * b.memcmplenExtra ≤ MEMUSAGE_BASE
  recordPos : 0 < b.szIndexRecord
  /-- threaded .xz decoder in direct mode: as `xzDec` with its own coder struct -/
  xzDecMt : b.szInternal + b.szStreamDecoderMt + b.szIndexHash + b.szBlockDecoder + 4 * b.optMax + 16384 ≤ MEMUSAGE_BASE
  /-- threaded encoder, main thread: lzma_internal, the Index with its first Record group, the Index encoder and two
      copies of the filter options (coder->filters, filters_cache) fit in the LZMA_MEMUSAGE_BASE the estimate adds once -/
  mtEncMain : b.szInternal + b.szIndex + b.szIndexStream + (b.szIndexGroup + INDEX_GROUP_SIZE * b.szIndexRecord)
              + b.szIndexEncoder + 8 * b.optMax ≤ MEMUSAGE_BASE
  /-- threaded encoder, per worker: the Block encoder, the worker's copy of the filter options and the
      lzma_memcmplen slack fit in the LZMA_MEMUSAGE_BASE that lzma_raw_encoder_memusage() adds per thread -/
  mtEncWorker : b.szBlockEncoder + 4 * b.optMax + 4 * b.memcmplenExtra ≤ MEMUSAGE_BASE

/-! ## Decoder chains -/

theorem lzDictAllocSize_le (b : Build) (d : Nat) :
    lzDictAllocSize b d ≤ d + 4096 + 2 * LZ_DICT_REPEAT_MAX + b.lzDictExtra := by
  by_cases h : d < 4096 <;> simp [lzDictAllocSize, h] <;> omega

theorem bcjUnfilteredMax_le (id : Nat) : bcjUnfilteredMax id ≤ 16 := by
  unfold bcjUnfilteredMax; split <;> (try split) <;> (try split) <;> omega

theorem bcjAllocs_sum_le (b : Build) (id : Nat) : (bcjAllocs b id).sum ≤ b.szSimpleCoder + 32 + b.szSimpleX86 := by
  have h := bcjUnfilteredMax_le id
  have h4 := bcjUnfilteredMax_le 4
  unfold bcjAllocs bcjSimpleSize
  by_cases hid : id = 4 <;> by_cases hp : b.szSimpleX86 > 0 <;> simp [hid, hp] <;> omega

/-- One filter: what a successful initialisation allocates is at most its row of the estimate plus the dictionary
    relaxation (dictionaries below 4 KiB are raised to 4 KiB and sizes are rounded up to a multiple of 16). -/
theorem filterDecAllocs_le (b : Build) (hb : b.szSimpleCoder + 32 + b.szSimpleX86 ≤ 1024) (f : Filter) (u : Nat)
    (h : filterDecMemusage b f = some u) : (filterDecAllocs b f).sum ≤ u + 4096 := by
  cases f with
  | lzma1 o =>
    have hd := lzDictAllocSize_le b o.dict
    simp only [filterDecMemusage, lzmaDecoderMemusage] at h
    split at h
    · simp only [Option.some.injEq] at h
      subst h
      simp [filterDecAllocs, lzmaDecoderMemusageNocheck, lzDecoderMemusage]
      omega
    · cases h
  | lzma2 o =>
    have hd := lzDictAllocSize_le b o.dict
    simp only [filterDecMemusage, Option.some.injEq] at h
    subst h
    simp [filterDecAllocs, lzma2DecoderMemusage, lzmaDecoderMemusageNocheck, lzDecoderMemusage]
    omega
  | bcj id start =>
    have ha := bcjAllocs_sum_le b id
    simp only [filterDecMemusage] at h
    split at h
    · simp only [Option.some.injEq] at h
      subst h
      simp only [filterDecAllocs]
      omega
    · cases h
  | delta d =>
    simp only [filterDecMemusage, deltaCoderMemusage] at h
    cases d with
    | none => simp at h
    | some x =>
      simp only at h
      split at h
      · cases h
      · simp only [Option.some.injEq] at h
        subst h
        simp [filterDecAllocs]
  | other id => simp [filterDecMemusage] at h

theorem sumOpt_map_allocs_le (fm : Filter → Option Nat) (al : Filter → List Nat) (slack : Nat)
    (hf : ∀ f u, fm f = some u → (al f).sum ≤ u + slack) :
    ∀ (fs : List Filter) (total : Nat), sumOpt (fs.map fm) = some total →
      ((fs.map al).flatten).sum ≤ total + slack * fs.length := by
  intro fs
  induction fs with
  | nil => intro total h; simp [sumOpt] at h; simp
  | cons f rest ih =>
    intro total h
    rw [List.map_cons] at h
    cases hfm : fm f with
    | none => rw [hfm] at h; simp [sumOpt] at h
    | some u =>
      rw [hfm] at h
      cases hr : sumOpt (rest.map fm) with
      | none => simp [sumOpt, hr] at h
      | some s =>
        simp only [sumOpt, hr, Option.some.injEq] at h
        have h1 := hf f u hfm
        have h2 := ih s hr
        simp only [List.map_cons, List.flatten_cons, List.sum_append, List.length_cons]
        rw [Nat.mul_succ]
        omega

theorem filterDecAllocsOnError_le (b : Build) (f : Filter) :
    (filterDecAllocsOnError b f).sum ≤ (filterDecAllocs b f).sum := by
  cases f <;> simp [filterDecAllocsOnError, filterDecAllocs]

/-- Whatever `lzma_next_filter_init` requests along the chain (also when it stops with an error) is at most the
    allocation list of the complete chain. -/
theorem rawDecInitTrace_sum_le (b : Build) (fs : List Filter) :
    (rawDecInitTrace b fs).2.sum ≤ (rawDecoderAllocs b fs).sum := by
  induction fs with
  | nil => simp [rawDecInitTrace, rawDecoderAllocs]
  | cons f rest ih =>
    simp only [rawDecInitTrace, rawDecoderAllocs, List.map_cons, List.flatten_cons, List.sum_append]
    split
    · have := filterDecAllocsOnError_le b f
      simp only
      omega
    · simp only [List.sum_append]
      simp only [rawDecoderAllocs] at ih
      omega

theorem chainOk_length {fs : List Filter} (h : chainOk fs = true) : fs.length ≤ FILTERS_MAX := by
  unfold chainOk at h
  cases fs with
  | nil => simp at h
  | cons f rest =>
    simp only at h
    split at h
    · simp at h
    · simp only [Bool.and_eq_true, Bool.not_eq_eq_eq_not, Bool.not_true, decide_eq_false_iff_not] at h
      omega

/-! ## Encoder chains -/

theorem sumOpt_append (l1 l2 : List (Option Nat)) :
    sumOpt (l1 ++ l2) = (match sumOpt l1, sumOpt l2 with
      | some a, some b => some (a + b)
      | _, _ => none) := by
  induction l1 with
  | nil => simp [sumOpt]; cases sumOpt l2 <;> simp
  | cons x rest ih =>
    cases x with
    | none => simp [sumOpt]
    | some v =>
      simp only [List.cons_append, sumOpt, ih]
      cases sumOpt rest <;> cases sumOpt l2 <;> simp
      omega

theorem sumOpt_reverse (l : List (Option Nat)) : sumOpt l.reverse = sumOpt l := by
  induction l with
  | nil => rfl
  | cons x rest ih =>
    rw [List.reverse_cons, sumOpt_append, ih]
    cases x <;> cases h : sumOpt rest <;> simp [sumOpt, h]
    omega

/-- LZMA1 encoder: the requests of `lzma_lz_encoder_init` are exactly the estimate plus the few bytes
    lzma_memcmplen() may read past the end of the history buffer. -/
theorem lzma1EncInit_le (b : Build) (o : LzmaOpts) (u : Nat) (h : lzmaEncoderMemusage b o = some u) :
    (lzEncInitTrace b false o).2.sum ≤ u + b.memcmplenExtra := by
  simp only [lzmaEncoderMemusage, lzEncoderMemusage] at h
  split at h
  · cases h
  · cases hp : lzEncoderPrepare (setLzOptions o) with
    | none => simp [hp] at h
    | some m =>
      simp only [hp, Option.some.injEq] at h
      subst h
      simp only [lzEncInitTrace, Bool.false_eq_true, ↓reduceIte, hp]
      split <;> simp [mfAllocs] <;> omega

/-- LZMA2 encoder with a dictionary of at least LZMA2_CHUNK_MAX - OPTS bytes (so that `lzma2_encoder_init` leaves
    `before_size` alone). -/
theorem lzma2EncInit_le (b : Build) (o : LzmaOpts) (u : Nat) (h : lzma2EncoderMemusage b o = some u)
    (hd : LZMA2_CHUNK_MAX ≤ OPTS + o.dict) :
    (lzEncInitTrace b true o).2.sum ≤ u + b.memcmplenExtra := by
  simp only [lzma2EncoderMemusage, lzmaEncoderMemusage, lzEncoderMemusage] at h
  split at h
  · cases h
  · rename_i m1 hm1
    split at hm1
    · cases hm1
    · cases hp : lzEncoderPrepare (setLzOptions o) with
      | none => simp [hp] at hm1
      | some m =>
        simp only [hp, Option.some.injEq] at hm1
        simp only [Option.some.injEq] at h
        subst hm1; subst h
        have hlz : lzma2LzOptions o = setLzOptions o := by
          simp only [lzma2LzOptions]
          have : ¬ ((setLzOptions o).beforeSize + (setLzOptions o).dictSize < LZMA2_CHUNK_MAX) := by
            simp only [setLzOptions]; omega
          simp [this]
        simp only [lzEncInitTrace, ↓reduceIte, hlz, hp]
        split <;> simp [mfAllocs] <;> omega

/-- The condition under which the LZMA2 encoder's estimate covers its allocations (see the counterexample in
    Props/C09.lean for smaller dictionaries). -/
def lzma2DictBigEnough : Filter → Prop
  | .lzma2 o => LZMA2_CHUNK_MAX ≤ OPTS + o.dict
  | _ => True

theorem filterEncInit_le (b : Build) (hb : b.szSimpleCoder + 32 + b.szSimpleX86 ≤ 1024) (f : Filter) (u : Nat)
    (h : filterEncMemusage b f = some u) (hd : lzma2DictBigEnough f) :
    (filterEncInit b f).2.sum ≤ u + b.memcmplenExtra := by
  cases f with
  | lzma1 o => exact lzma1EncInit_le b o u h
  | lzma2 o => exact lzma2EncInit_le b o u h hd
  | bcj id start =>
    have ha := bcjAllocs_sum_le b id
    simp only [filterEncMemusage] at h
    split at h
    · simp only [Option.some.injEq] at h
      subst h
      simp only [filterEncInit]
      split <;> simp [filterDecAllocs, filterDecAllocsOnError] <;> omega
    · cases h
  | delta d =>
    simp only [filterEncMemusage, deltaCoderMemusage] at h
    cases d with
    | none => simp at h
    | some x =>
      simp only at h
      split at h
      · cases h
      · simp only [Option.some.injEq] at h
        subst h
        simp only [filterEncInit]
        split <;> simp [filterDecAllocs, filterDecAllocsOnError]
  | other id => simp [filterEncMemusage] at h

theorem rawEncInitTrace_le (b : Build) (hb : b.szSimpleCoder + 32 + b.szSimpleX86 ≤ 1024) :
    ∀ (l : List Filter) (total : Nat), sumOpt (l.map (filterEncMemusage b)) = some total →
      (∀ f ∈ l, lzma2DictBigEnough f) →
      (rawEncInitTrace b l).2.sum ≤ total + b.memcmplenExtra * l.length := by
  intro l
  induction l with
  | nil => intro total h _; simp [rawEncInitTrace]
  | cons f rest ih =>
    intro total h hd
    rw [List.map_cons] at h
    cases hfm : filterEncMemusage b f with
    | none => rw [hfm] at h; simp [sumOpt] at h
    | some u =>
      rw [hfm] at h
      cases hr : sumOpt (rest.map (filterEncMemusage b)) with
      | none => simp [sumOpt, hr] at h
      | some s =>
        simp only [sumOpt, hr, Option.some.injEq] at h
        have h1 := filterEncInit_le b hb f u hfm (hd f (List.mem_cons_self ..))
        have h2 := ih s hr (fun g hg => hd g (List.mem_cons_of_mem _ hg))
        simp only [rawEncInitTrace, List.length_cons]
        rw [Nat.mul_succ]
        split
        · simp only; omega
        · simp only [List.sum_append]; omega

end XzVerif.Memusage
